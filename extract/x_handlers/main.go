// x_handlers regenerates lean/Irismod/Gen/Handlers.lean (C16) from /repo's working tree: for each
// module with parameters, syntactic facts about the parameter-update path —
//   - keeper/msg_server.go  UpdateParams: the first statement compares the keeper's authority with
//     msg.Authority using != and returns a non-nil error, before any call of SetParams;
//   - keeper/params.go      SetParams: `if err := params.Validate(); err != nil { return err }`
//     precedes the first store write;
//   - types/msgs.go         MsgUpdateParams.ValidateBasic calls Params.Validate;
//   - types/genesis.go      ValidateGenesis calls Params.Validate;
//   - genesis.go            InitGenesis stores the parameters through SetParams and panics on its error;
//
// plus, for farm, whether Params.Validate calls validateTaxRate and whether validateTaxRate
// guards an unset decimal. Standard library go/ast only.
package main

import (
	"fmt"
	"go/ast"
	"go/parser"
	"go/token"
	"os"
	"path/filepath"
	"strings"
)

type modSpec struct {
	name      string
	msgServer string
	paramsK   string
	msgs      string
	genTypes  string
	genInit   string
}

var specs = []modSpec{
	{"coinswap", "keeper/msg_server.go", "keeper/params.go", "types/msgs.go", "types/genesis.go", "keeper/genesis.go"},
	{"farm", "keeper/msg_server.go", "keeper/params.go", "types/msgs.go", "types/genesis.go", "genesis.go"},
	{"htlc", "keeper/msg_server.go", "keeper/params.go", "types/msgs.go", "types/genesis.go", "genesis.go"},
	{"service", "keeper/msg_server.go", "keeper/params.go", "types/msgs.go", "types/genesis.go", "genesis.go"},
	{"token", "keeper/msg_server.go", "keeper/params.go", "types/v1/msgs.go", "types/v1/genesis.go", "genesis.go"},
}

func parse(path string) *ast.File {
	f, err := parser.ParseFile(token.NewFileSet(), path, nil, 0)
	if err != nil {
		fmt.Fprintln(os.Stderr, "x_handlers:", err)
		return nil
	}
	return f
}

func findFunc(f *ast.File, name string, recv string) *ast.FuncDecl {
	if f == nil {
		return nil
	}
	for _, d := range f.Decls {
		fd, ok := d.(*ast.FuncDecl)
		if !ok || fd.Name.Name != name || fd.Body == nil {
			continue
		}
		if recv == "" {
			if fd.Recv == nil {
				return fd
			}
			continue
		}
		if fd.Recv != nil && len(fd.Recv.List) == 1 && typeName(fd.Recv.List[0].Type) == recv {
			return fd
		}
	}
	return nil
}

func typeName(e ast.Expr) string {
	switch t := e.(type) {
	case *ast.StarExpr:
		return typeName(t.X)
	case *ast.Ident:
		return t.Name
	}
	return ""
}

// selector chain as dotted text: m.k.authority
func dotted(e ast.Expr) string {
	switch t := e.(type) {
	case *ast.Ident:
		return t.Name
	case *ast.SelectorExpr:
		return dotted(t.X) + "." + t.Sel.Name
	case *ast.CallExpr:
		return dotted(t.Fun) + "()"
	}
	return "?"
}

// callsSuffix reports whether the node contains a call whose callee's dotted name ends with suffix
func callsSuffix(n ast.Node, suffix string) bool {
	found := false
	ast.Inspect(n, func(x ast.Node) bool {
		if c, ok := x.(*ast.CallExpr); ok {
			d := dotted(c.Fun)
			if d == suffix || strings.HasSuffix(d, "."+suffix) {
				found = true
			}
		}
		return !found
	})
	return found
}

func isNil(e ast.Expr) bool { id, ok := e.(*ast.Ident); return ok && id.Name == "nil" }

// returnsError: the block's last statement is a return whose last result is not nil
func returnsError(b *ast.BlockStmt) bool {
	if b == nil || len(b.List) == 0 {
		return false
	}
	r, ok := b.List[len(b.List)-1].(*ast.ReturnStmt)
	return ok && len(r.Results) > 0 && !isNil(r.Results[len(r.Results)-1])
}

// authority guard: `if <x>.authority != msg.Authority { return nil, <err> }`
func isAuthorityGuard(s ast.Stmt) bool {
	is, ok := s.(*ast.IfStmt)
	if !ok || is.Init != nil || is.Else != nil {
		return false
	}
	be, ok := is.Cond.(*ast.BinaryExpr)
	if !ok || be.Op != token.NEQ {
		return false
	}
	l, r := dotted(be.X), dotted(be.Y)
	pair := func(a, b string) bool {
		return strings.HasSuffix(a, ".authority") && strings.HasSuffix(b, ".Authority")
	}
	return (pair(l, r) || pair(r, l)) && returnsError(is.Body)
}

func updateChecksAuthorityFirst(fd *ast.FuncDecl) bool {
	if fd == nil || len(fd.Body.List) == 0 {
		return false
	}
	if !isAuthorityGuard(fd.Body.List[0]) || callsSuffix(fd.Body.List[0], "SetParams") {
		return false
	}
	// the parameters are stored through SetParams (which validates), and its error is returned
	for _, s := range fd.Body.List[1:] {
		if is, ok := s.(*ast.IfStmt); ok && is.Init != nil && callsSuffix(is.Init, "SetParams") && errNotNil(is.Cond) && returnsError(is.Body) {
			return true
		}
	}
	return false
}

func errNotNil(e ast.Expr) bool {
	be, ok := e.(*ast.BinaryExpr)
	return ok && be.Op == token.NEQ && dotted(be.X) == "err" && isNil(be.Y)
}

// `if err := params.Validate(); err != nil { return err }` before the first `.Set(` call
func setParamsValidatesFirst(fd *ast.FuncDecl) bool {
	if fd == nil {
		return false
	}
	for _, s := range fd.Body.List {
		if is, ok := s.(*ast.IfStmt); ok && is.Init != nil && callsSuffix(is.Init, "Validate") && errNotNil(is.Cond) && returnsError(is.Body) {
			return true
		}
		if callsSuffix(s, "Set") {
			return false
		}
	}
	return false
}

// InitGenesis: `if err := k.SetParams(...); err != nil { panic(...) }`
func initGenesisUsesSetParams(fd *ast.FuncDecl) bool {
	if fd == nil {
		return false
	}
	ok := false
	ast.Inspect(fd.Body, func(n ast.Node) bool {
		if is, is2 := n.(*ast.IfStmt); is2 && is.Init != nil && callsSuffix(is.Init, "SetParams") && errNotNil(is.Cond) && callsSuffix(is.Body, "panic") {
			ok = true
		}
		return !ok
	})
	return ok
}

func b(v bool) string {
	if v {
		return "true"
	}
	return "false"
}

func main() {
	outLean := "/verif/lean/Irismod/Gen/Handlers.lean"
	outTxt := "/verif/work/handler_facts.txt"
	if len(os.Args) > 1 {
		outLean = os.Args[1]
	}
	if len(os.Args) > 2 {
		outTxt = os.Args[2]
	}
	repo := "/repo"
	if r := os.Getenv("VERIF_REPO"); r != "" { // testing aid: another checkout of the repository
		repo = r
	}
	if r := os.Getenv("VERIF_REPO"); r != "" { // scratch copies only (testing a proposed fix)
		repo = r
	}
	var sb, sb2, tx strings.Builder
	sb.WriteString("/- REGENERATED on every run by extract/x_handlers from /repo's working tree. Do not edit. -/\nnamespace Irismod.Gen.Handlers\n\n")
	sb.WriteString("structure Handler where\n  module : String\n  updateChecksAuthorityFirst : Bool\n  setParamsValidatesFirst : Bool\n  validateBasicValidates : Bool\n  validateGenesisValidates : Bool\n  initGenesisUsesSetParams : Bool\n  deriving DecidableEq, Repr\n\n")
	sb.WriteString("def handlers : List Handler := [\n")
	for i, m := range specs {
		root := filepath.Join(repo, "modules", m.name)
		up := updateChecksAuthorityFirst(findFunc(parse(filepath.Join(root, m.msgServer)), "UpdateParams", "msgServer"))
		sp := setParamsValidatesFirst(findFunc(parse(filepath.Join(root, m.paramsK)), "SetParams", "Keeper"))
		vbf := findFunc(parse(filepath.Join(root, m.msgs)), "ValidateBasic", "MsgUpdateParams")
		vb := vbf != nil && callsSuffix(vbf.Body, "Params.Validate")
		vgf := findFunc(parse(filepath.Join(root, m.genTypes)), "ValidateGenesis", "")
		vg := vgf != nil && callsSuffix(vgf.Body, "Params.Validate")
		igFile := parse(filepath.Join(root, m.genInit))
		igf := findFunc(igFile, "InitGenesis", "")
		if igf == nil {
			igf = findFunc(igFile, "InitGenesis", "Keeper")
		}
		ig := initGenesisUsesSetParams(igf)
		if i > 0 {
			sb.WriteString(",\n")
		}
		fmt.Fprintf(&sb, "  ⟨%q, %s, %s, %s, %s, %s⟩", m.name, b(up), b(sp), b(vb), b(vg), b(ig))
		fmt.Fprintf(&tx, "%s\tupdateChecksAuthorityFirst=%s\tsetParamsValidatesFirst=%s\tvalidateBasicValidates=%s\tvalidateGenesisValidates=%s\tinitGenesisUsesSetParams=%s\n",
			m.name, b(up), b(sp), b(vb), b(vg), b(ig))
	}
	sb.WriteString("]\n\n")
	fp := parse(filepath.Join(repo, "modules/farm/types/params.go"))
	val := findFunc(fp, "Validate", "Params")
	tr := findFunc(fp, "validateTaxRate", "")
	farmTax := val != nil && callsSuffix(val.Body, "validateTaxRate")
	nilGuard := tr != nil && callsSuffix(tr.Body, "IsNil")
	fmt.Fprintf(&sb, "/-- farm `Params.Validate` calls `validateTaxRate` -/\ndef farmValidatesTaxRate : Bool := %s\n\n", b(farmTax))
	fmt.Fprintf(&sb, "/-- farm `validateTaxRate` rejects an unset decimal before comparing it -/\ndef farmTaxRateNilGuard : Bool := %s\n\n", b(nilGuard))
	fmt.Fprintf(&tx, "farm\tfarmValidatesTaxRate=%s\tfarmTaxRateNilGuard=%s\n", b(farmTax), b(nilGuard))
	// fee denominations: does coinswap Params.Validate / token validateIssueTokenBaseFee call sdk.ValidateDenom
	cv := findFunc(parse(filepath.Join(repo, "modules/coinswap/types/params.go")), "Validate", "Params")
	csDen := cv != nil && callsSuffix(cv.Body, "ValidateDenom")
	tv := findFunc(parse(filepath.Join(repo, "modules/token/types/v1/params.go")), "validateIssueTokenBaseFee", "")
	tkDen := tv != nil && callsSuffix(tv.Body, "ValidateDenom")
	fmt.Fprintf(&sb2, "/-- coinswap `Params.Validate` validates the pool-creation-fee denomination -/\ndef coinswapValidatesFeeDenom : Bool := %s\n\n", b(csDen))
	fmt.Fprintf(&sb2, "/-- token `validateIssueTokenBaseFee` validates the base-fee denomination -/\ndef tokenValidatesFeeDenom : Bool := %s\n\n", b(tkDen))
	fmt.Fprintf(&tx, "denoms\tcoinswapValidatesFeeDenom=%s\ttokenValidatesFeeDenom=%s\n", b(csDen), b(tkDen))
	sb.WriteString(sb2.String())
	sb.WriteString("end Irismod.Gen.Handlers\n")
	if err := os.WriteFile(outLean, []byte(sb.String()), 0o644); err != nil {
		fmt.Fprintln(os.Stderr, err)
		os.Exit(3)
	}
	os.MkdirAll(filepath.Dir(outTxt), 0o755)
	os.WriteFile(outTxt, []byte(tx.String()), 0o644)
	fmt.Print(tx.String())
}
