// x_nondet regenerates lean/Irismod/Gen/Nondet.lean (C11): every site in the state-machine
// code of /repo/modules (non-test, non-client, non-simulation, non-generated) that reads the host
// clock, an unseeded/OS random source, the environment (os, runtime, unsafe), ranges over a Go map (or
// takes maps.Keys / reflect map iteration), sorts unstably (sort.Slice / sort.Sort), uses a sync primitive,
// starts a goroutine / selects, writes a package-level variable from a function, or does
// floating-point math. Sites are keyed by (file, enclosing function, kind, callee) — no line
// numbers, so harmless edits do not change the table.
package main

import (
	"fmt"
	"go/ast"
	"go/types"
	"os"
	"path/filepath"
	"sort"
	"strings"

	"golang.org/x/tools/go/packages"
)

type site struct{ File, Func, Kind, Callee string }

func main() {
	outLean := "/verif/lean/Irismod/Gen/Nondet.lean"
	outTxt := "/verif/work/nondet_sites.txt"
	if len(os.Args) > 1 {
		outLean = os.Args[1]
	}
	if len(os.Args) > 2 {
		outTxt = os.Args[2]
	}
	repo := os.Getenv("VERIF_REPO") // testing aid: another checkout of the repository; default /repo
	if repo == "" {
		repo = "/repo"
	}
	mods, _ := filepath.Glob(repo + "/modules/*")
	counts := map[site]int{}
	for _, m := range mods {
		cfg := &packages.Config{Mode: packages.NeedName | packages.NeedFiles | packages.NeedCompiledGoFiles | packages.NeedSyntax | packages.NeedTypes | packages.NeedTypesInfo | packages.NeedImports,
			Dir: m, Env: append(os.Environ(), "GOFLAGS=-mod=mod", "GOPROXY=off", "GOSUMDB=off", "GOTOOLCHAIN=local")}
		pkgs, err := packages.Load(cfg, "./...")
		if err != nil {
			fmt.Fprintln(os.Stderr, "load", m, err)
			os.Exit(3)
		}
		for _, p := range pkgs {
			if strings.Contains(p.PkgPath, "/client") || strings.Contains(p.PkgPath, "/simulation") || strings.Contains(p.PkgPath, "/testutil") {
				continue
			}
			// fields of the module's Keeper struct: process-local state that could survive
			// between blocks (caches) must be visible here
			if strings.HasSuffix(p.PkgPath, "/keeper") {
				if obj := p.Types.Scope().Lookup("Keeper"); obj != nil {
					if st, ok := obj.Type().Underlying().(*types.Struct); ok {
						rel, _ := filepath.Rel(repo, m)
						for i := 0; i < st.NumFields(); i++ {
							f := st.Field(i)
							ts := types.TypeString(f.Type(), func(pk *types.Package) string { return pk.Name() })
							counts[site{rel + "/keeper", "Keeper", "keeper-field", f.Name() + " " + ts}]++
						}
					}
				}
			}
			for i, f := range p.Syntax {
				fn := p.CompiledGoFiles[i]
				if strings.HasSuffix(fn, "_test.go") || strings.HasSuffix(fn, ".pb.go") || strings.HasSuffix(fn, ".pb.gw.go") || strings.Contains(fn, "/mock") {
					continue
				}
				rel, _ := filepath.Rel(repo, fn)
				scanFile(p, f, rel, counts)
			}
		}
	}
	var sites []site
	for s := range counts {
		sites = append(sites, s)
	}
	sort.Slice(sites, func(i, j int) bool {
		a, b := sites[i], sites[j]
		return a.File+"|"+a.Func+"|"+a.Kind+"|"+a.Callee < b.File+"|"+b.Func+"|"+b.Kind+"|"+b.Callee
	})
	var sb, tx strings.Builder
	sb.WriteString("/- REGENERATED on every run by harness/cmd/x_nondet from /repo's working tree. Do not edit. -/\nnamespace Irismod.Gen.Nondet\n\n")
	sb.WriteString("structure Site where\n  file : String\n  func : String\n  kind : String\n  callee : String\n  deriving DecidableEq, Repr\n\n")
	sb.WriteString("def sites : List Site := [\n")
	for i, s := range sites {
		if i > 0 {
			sb.WriteString(",\n")
		}
		fmt.Fprintf(&sb, "  ⟨%q, %q, %q, %q⟩", s.File, s.Func, s.Kind, s.Callee)
		fmt.Fprintf(&tx, "%s\t%s\t%s\t%s\t%d\n", s.File, s.Func, s.Kind, s.Callee, counts[s])
	}
	sb.WriteString("]\n\nend Irismod.Gen.Nondet\n")
	os.WriteFile(outLean, []byte(sb.String()), 0o644)
	os.MkdirAll(filepath.Dir(outTxt), 0o755)
	os.WriteFile(outTxt, []byte(tx.String()), 0o644)
	fmt.Printf("x_nondet: %d sites\n", len(sites))
}

func scanFile(p *packages.Package, f *ast.File, rel string, counts map[site]int) {
	for _, d := range f.Decls {
		switch dd := d.(type) {
		case *ast.FuncDecl:
			name := dd.Name.Name
			if dd.Recv != nil && len(dd.Recv.List) > 0 {
				name = recvName(dd.Recv.List[0].Type) + "." + name
			}
			if dd.Body != nil {
				scanNode(p, dd.Body, rel, name, counts)
			}
		case *ast.GenDecl: // package-level initialisers
			scanNode(p, dd, rel, "<package-init>", counts)
		}
	}
}

func recvName(e ast.Expr) string {
	switch t := e.(type) {
	case *ast.StarExpr:
		return recvName(t.X)
	case *ast.Ident:
		return t.Name
	case *ast.IndexExpr:
		return recvName(t.X)
	}
	return "?"
}

func scanNode(p *packages.Package, n ast.Node, rel, fn string, counts map[site]int) {
	ast.Inspect(n, func(x ast.Node) bool {
		switch e := x.(type) {
		case *ast.SelectorExpr:
			if id, ok := e.X.(*ast.Ident); ok {
				if pn, ok := p.TypesInfo.Uses[id].(*types.PkgName); ok {
					path := pn.Imported().Path()
					callee := path + "." + e.Sel.Name
					switch {
					case path == "time" && (e.Sel.Name == "Now" || e.Sel.Name == "Since" || e.Sel.Name == "Until"):
						counts[site{rel, fn, "clock", callee}]++
					case path == "math/rand" || path == "crypto/rand" || path == "math/rand/v2":
						counts[site{rel, fn, "random", callee}]++
					case path == "os" && (e.Sel.Name == "Getenv" || e.Sel.Name == "LookupEnv" || e.Sel.Name == "Hostname" || e.Sel.Name == "Getpid" ||
						e.Sel.Name == "Environ" || e.Sel.Name == "Args" || e.Sel.Name == "ReadFile" || e.Sel.Name == "Getwd" || e.Sel.Name == "Open"):
						counts[site{rel, fn, "env", callee}]++
					case path == "runtime" || path == "unsafe":
						counts[site{rel, fn, "env", callee}]++
					case path == "sync" || path == "sync/atomic":
						// process-local synchronisation / memoisation primitives (Once, Pool, Map, Mutex, atomic counters)
						counts[site{rel, fn, "sync", callee}]++
					case (path == "maps" || path == "golang.org/x/exp/maps") && (e.Sel.Name == "Keys" || e.Sel.Name == "Values" || e.Sel.Name == "All"):
						counts[site{rel, fn, "map-range", callee}]++
					case path == "reflect" && (e.Sel.Name == "MapKeys" || e.Sel.Name == "MapRange"):
						counts[site{rel, fn, "map-range", callee}]++
					case path == "sort" && (e.Sel.Name == "Slice" || e.Sel.Name == "Sort"):
						// unstable: elements with equal keys come out in an unspecified order
						counts[site{rel, fn, "unstable-sort", callee}]++
					case path == "math" && isFloatFn(p, e):
						counts[site{rel, fn, "float", callee}]++
					case path == "strconv" && (e.Sel.Name == "ParseFloat" || e.Sel.Name == "FormatFloat"):
						counts[site{rel, fn, "float", callee}]++
					}
				}
			}
		case *ast.GoStmt:
			counts[site{rel, fn, "goroutine", "go"}]++
		case *ast.SelectStmt:
			counts[site{rel, fn, "goroutine", "select"}]++
		case *ast.AssignStmt:
			if fn != "<package-init>" {
				for _, l := range e.Lhs {
					if v := pkgVarRoot(p, l); v != "" {
						counts[site{rel, fn, "package-var-write", v}]++
					}
				}
			}
		case *ast.IncDecStmt:
			if fn != "<package-init>" {
				if v := pkgVarRoot(p, e.X); v != "" {
					counts[site{rel, fn, "package-var-write", v}]++
				}
			}
		case *ast.RangeStmt:
			if tv, ok := p.TypesInfo.Types[e.X]; ok {
				if _, isMap := tv.Type.Underlying().(*types.Map); isMap {
					counts[site{rel, fn, "map-range", types.TypeString(tv.Type, func(pk *types.Package) string { return pk.Name() })}]++
				}
			}
		}
		return true
	})
}

// pkgVarRoot returns the name of the package-level variable that the assignable expression e is
// rooted in (x, x.f, x[i], *x ...), or "" — mutable process-global state written from a function.
func pkgVarRoot(p *packages.Package, e ast.Expr) string {
	for {
		switch t := e.(type) {
		case *ast.Ident:
			if t.Name == "_" {
				return ""
			}
			obj := p.TypesInfo.Uses[t]
			if obj == nil {
				obj = p.TypesInfo.Defs[t]
			}
			if v, ok := obj.(*types.Var); ok && v.Pkg() != nil && v.Parent() == v.Pkg().Scope() {
				return v.Pkg().Name() + "." + v.Name()
			}
			return ""
		case *ast.SelectorExpr:
			// pkg.Var (another package's variable) or x.f
			if id, ok := t.X.(*ast.Ident); ok {
				if _, isPkg := p.TypesInfo.Uses[id].(*types.PkgName); isPkg {
					if v, ok := p.TypesInfo.Uses[t.Sel].(*types.Var); ok && v.Pkg() != nil && v.Parent() == v.Pkg().Scope() {
						return v.Pkg().Name() + "." + v.Name()
					}
					return ""
				}
			}
			e = t.X
		case *ast.IndexExpr:
			e = t.X
		case *ast.StarExpr:
			e = t.X
		case *ast.ParenExpr:
			e = t.X
		default:
			return ""
		}
	}
}

func isFloatFn(p *packages.Package, e *ast.SelectorExpr) bool {
	if obj, ok := p.TypesInfo.Uses[e.Sel]; ok {
		if _, isFn := obj.(*types.Func); isFn {
			return true
		}
		if c, isConst := obj.(*types.Const); isConst {
			if b, ok := c.Type().Underlying().(*types.Basic); ok && b.Info()&types.IsFloat != 0 {
				return true
			}
			// untyped float constants such as math.SmallestNonzeroFloat64
			if b, ok := c.Type().(*types.Basic); ok && b.Kind() == types.UntypedFloat {
				return true
			}
		}
	}
	return false
}
