// x_pure regenerates lean/Irismod/Gen/Pure.lean from /repo's working tree: a mechanical
// translation of selected *pure* Go functions (and of selected arithmetic assignments inside
// keeper methods) into Lean definitions over the SDK substrate (Irismod/Sdk/GoSem.lean).
//
// The translation is syntax-directed and typed (go/packages + go/types):
//   - every Go value of type sdkmath.Int / LegacyDec / *big.Int / sdk.Coin / integer / bool /
//     string becomes a Lean value of the corresponding substrate type;
//   - every library call that can panic (range checks, division by zero, negative coin) becomes a
//     bind in the Option monad (none = panic), every other call a pure application, with one Lean
//     function per Go method, named after it (Int_Mul, Dec_Quo, Big_Exp, …) — nothing is
//     simplified, re-associated or re-ordered;
//   - `if … { return … }` becomes if-then-else on the rest of the function; a big.Int method with
//     a variable receiver re-binds that variable (aliasing is refused);
//   - a field path of a struct that is not a substrate type (msg.ExactStandardAmt, p.Fee) and any
//     identifier bound outside the translated fragment becomes a parameter of the definition.
//
// Anything outside the supported subset is refused: the target is then listed in
// `untranslated` with the reason, and the theorem `Tie.all_translated` over the regenerated file
// fails. The hand-written model is tied to these definitions by the theorems of
// Irismod/Props/Tie*.lean, which the kernel re-checks on every run.
package main

import (
	"fmt"
	"go/ast"
	"go/constant"
	"go/printer"
	"go/token"
	"go/types"
	"os"
	"path/filepath"
	"regexp"
	"sort"
	"strings"

	"golang.org/x/tools/go/packages"
)

type target struct {
	Mod    string   // directory under modules/
	Pkg    string   // package path suffix below the module ("keeper", "types", "types/v1")
	Func   string   // "Name" or "Recv.Name"
	Census bool     // only the rejecting guards of the function are listed (Gen `guards`), nothing is translated
	Locals []string // fragment mode: the assigned variables whose right-hand sides are translated
	Lean   string   // Lean name of the definition (fragment mode: prefix)
	Group  string   // output file Gen/Pure<Group>.lean (one per property family, so that a change in one module cannot break another property's obligations)
	Calls  []string // fragment mode: the substrate-typed arguments of every call of a method with one of these names (the effects a handler hands on: queue heights, amounts)
	Opaque bool     // whole-function mode: calls outside the library surface are environment reads (extra parameters)
	Conds  bool     // fragment mode: the condition of every other `if` too (branching that is not a rejection)
	Guards bool     // fragment mode: also the conditions of the `if … { return …, err }` statements, in order
}

var targets = []target{
	{Group: "Coinswap", Mod: "coinswap", Pkg: "keeper", Func: "GetInputPrice", Lean: "GetInputPrice"},
	{Group: "Coinswap", Mod: "coinswap", Pkg: "keeper", Func: "GetOutputPrice", Lean: "GetOutputPrice"},
	{Group: "Token", Mod: "token", Pkg: "types", Func: "pow10", Lean: "pow10"},
	{Group: "Token", Mod: "token", Pkg: "types", Func: "LossLessSwap", Lean: "LossLessSwap"},
	{Group: "Params", Mod: "coinswap", Pkg: "types", Func: "Params.Validate", Lean: "CoinswapParamsValidate"},
	{Group: "Params", Mod: "farm", Pkg: "types", Func: "validatePoolCreationFee", Lean: "FarmValidatePoolCreationFee"},
	{Group: "Params", Mod: "farm", Pkg: "types", Func: "validateTaxRate", Lean: "FarmValidateTaxRate"},
	{Group: "Params", Mod: "farm", Pkg: "types", Func: "Params.Validate", Lean: "FarmParamsValidate"},
	{Group: "Params", Mod: "token", Pkg: "types/v1", Func: "validateTaxRate", Lean: "TokenValidateTaxRate"},
	{Group: "Params", Mod: "token", Pkg: "types/v1", Func: "validateMintTokenFeeRatio", Lean: "TokenValidateMintTokenFeeRatio"},
	{Group: "Params", Mod: "token", Pkg: "types/v1", Func: "validateIssueTokenBaseFee", Lean: "TokenValidateIssueTokenBaseFee"},
	{Group: "Params", Mod: "service", Pkg: "types", Func: "validateMaxRequestTimeout", Lean: "ServiceValidateMaxRequestTimeout"},
	{Group: "Params", Mod: "service", Pkg: "types", Func: "validateMinDepositMultiple", Lean: "ServiceValidateMinDepositMultiple"},
	{Group: "Params", Mod: "service", Pkg: "types", Func: "validateMinDeposit", Lean: "ServiceValidateMinDeposit"},
	{Group: "Params", Mod: "service", Pkg: "types", Func: "validateSlashFraction", Lean: "ServiceValidateSlashFraction"},
	{Group: "Params", Mod: "service", Pkg: "types", Func: "validateServiceFeeTax", Lean: "ServiceValidateServiceFeeTax"},
	{Group: "Params", Mod: "service", Pkg: "types", Func: "validateComplaintRetrospect", Lean: "ServiceValidateComplaintRetrospect"},
	{Group: "Params", Mod: "service", Pkg: "types", Func: "validateArbitrationTimeLimit", Lean: "ServiceValidateArbitrationTimeLimit"},
	{Group: "Params", Mod: "service", Pkg: "types", Func: "validateTxSizeLimit", Lean: "ServiceValidateTxSizeLimit"},
	{Group: "Params", Mod: "service", Pkg: "types", Func: "validateRestrictedServiceFeeDenom", Lean: "ServiceValidateRestrictedServiceFeeDenom"},
	{Group: "Params", Mod: "service", Pkg: "types", Func: "Params.Validate", Lean: "ServiceParamsValidate"},
	{Group: "Coinswap", Mod: "coinswap", Pkg: "keeper", Func: "Keeper.calculateWithExactInput", Lean: "calcExactIn",
		Locals: []string{"boughtTokenAmt"}, Guards: true, Conds: true},
	{Group: "Coinswap", Mod: "coinswap", Pkg: "keeper", Func: "Keeper.calculateWithExactOutput", Lean: "calcExactOut",
		Locals: []string{"soldTokenAmt"}, Guards: true, Conds: true},
	{Group: "Coinswap", Mod: "coinswap", Pkg: "keeper", Func: "Keeper.TradeExactInputForOutput", Lean: "TradeExactIn", Guards: true, Conds: true},
	{Group: "Coinswap", Mod: "coinswap", Pkg: "keeper", Func: "Keeper.TradeInputForExactOutput", Lean: "TradeExactOut", Guards: true, Conds: true},
	{Group: "Coinswap", Mod: "coinswap", Pkg: "keeper", Func: "Keeper.doubleTradeExactInputForOutput", Lean: "DoubleExactIn", Guards: true, Conds: true},
	{Group: "Coinswap", Mod: "coinswap", Pkg: "keeper", Func: "Keeper.doubleTradeInputForExactOutput", Lean: "DoubleExactOut", Guards: true, Conds: true},
	{Group: "Coinswap", Mod: "coinswap", Pkg: "keeper", Func: "Keeper.AddLiquidity", Lean: "AddLiquidity",
		Locals: []string{"mintLiquidityAmt", "depositAmt"}, Guards: true, Conds: true},
	{Group: "Coinswap", Mod: "coinswap", Pkg: "keeper", Func: "Keeper.RemoveLiquidity", Lean: "RemoveLiquidity",
		Locals: []string{"irisWithdrawnAmt", "tokenWithdrawnAmt"}, Guards: true, Conds: true},
	{Group: "Coinswap", Mod: "coinswap", Pkg: "keeper", Func: "Keeper.AddUnilateralLiquidity", Lean: "AddUnilateral",
		Locals: []string{"numerator", "denominator", "square", "mintLptAmt"}, Guards: true, Conds: true},
	{Group: "Coinswap", Mod: "coinswap", Pkg: "keeper", Func: "Keeper.RemoveUnilateralLiquidity", Lean: "RemoveUnilateral",
		Locals: []string{"feeNumerator", "feeDenominator", "targetTokenNumerator", "targetTokenDenominator", "targetTokenAmtAfterFee"}, Guards: true, Conds: true},
	{Group: "Farm", Mod: "farm", Pkg: "keeper", Func: "Keeper.updatePool", Lean: "updatePool",
		Locals: []string{"blockInterval", "rewardCollected", "newRewardPerShare", "rules_i_RewardPerShare", "rules_i_RemainingReward"}, Guards: true, Conds: true},
	{Group: "Farm", Mod: "farm", Pkg: "keeper", Func: "Keeper.AdjustPool", Lean: "AdjustPool",
		Locals: []string{"startHeight", "remainingHeight", "inteval", "availableHeight", "expiredHeight", "rules_i_TotalReward", "rules_i_RemainingReward", "pool_EndHeight"},
		Calls:  []string{"updatePool", "UpdateWith", "SetRewardRules", "DequeueActivePool", "EnqueueActivePool"}, Guards: true, Conds: true},
	{Group: "Farm", Mod: "farm", Pkg: "types", Func: "FarmPool.CaclRewards", Lean: "CaclRewards",
		Locals: []string{"pendingRewardTotal", "pendingReward", "locked", "debt"}, Guards: true, Conds: true},
	{Group: "Htlc", Mod: "htlc", Pkg: "keeper", Func: "Keeper.IncrementCurrentAssetSupply", Lean: "IncCurrent",
		Locals: []string{"supplyLimit", "timeBasedSupplyLimit", "supply_TimeLimitedCurrentSupply", "supply_CurrentSupply"}, Guards: true, Conds: true},
	{Group: "Htlc", Mod: "htlc", Pkg: "keeper", Func: "Keeper.DecrementCurrentAssetSupply", Lean: "DecCurrent",
		Locals: []string{"supply_CurrentSupply"}, Guards: true, Conds: true},
	{Group: "Htlc", Mod: "htlc", Pkg: "keeper", Func: "Keeper.IncrementIncomingAssetSupply", Lean: "IncIncoming",
		Locals: []string{"totalSupply", "supplyLimit", "timeLimitedTotalSupply", "timeBasedSupplyLimit", "supply_IncomingSupply"}, Guards: true, Conds: true},
	{Group: "Htlc", Mod: "htlc", Pkg: "keeper", Func: "Keeper.DecrementIncomingAssetSupply", Lean: "DecIncoming",
		Locals: []string{"supply_IncomingSupply"}, Guards: true, Conds: true},
	{Group: "Htlc", Mod: "htlc", Pkg: "keeper", Func: "Keeper.IncrementOutgoingAssetSupply", Lean: "IncOutgoing",
		Locals: []string{"supply_OutgoingSupply"}, Guards: true, Conds: true},
	{Group: "Htlc", Mod: "htlc", Pkg: "keeper", Func: "Keeper.DecrementOutgoingAssetSupply", Lean: "DecOutgoing",
		Locals: []string{"supply_OutgoingSupply"}, Guards: true, Conds: true},
	{Group: "HtlcId", Mod: "htlc", Pkg: "types", Func: "GetHashLock", Lean: "GetHashLock"},
	{Group: "HtlcId", Mod: "htlc", Pkg: "types", Func: "GetID", Lean: "GetID", Opaque: true},
	{Group: "Htlc", Mod: "htlc", Pkg: "keeper", Func: "Keeper.createHTLT", Lean: "createHTLT", Guards: true, Conds: true,
		Calls: []string{"IncrementIncomingAssetSupply", "IncrementOutgoingAssetSupply"}},
	{Group: "Htlc", Mod: "htlc", Pkg: "keeper", Func: "Keeper.claimHTLT", Lean: "claimHTLT", Guards: true, Conds: true,
		Calls: []string{"IncrementCurrentAssetSupply", "DecrementCurrentAssetSupply", "IncrementIncomingAssetSupply", "DecrementIncomingAssetSupply", "IncrementOutgoingAssetSupply", "DecrementOutgoingAssetSupply"}},
	{Group: "Htlc", Mod: "htlc", Pkg: "keeper", Func: "Keeper.refundHTLT", Lean: "refundHTLT", Guards: true, Conds: true,
		Calls: []string{"IncrementCurrentAssetSupply", "DecrementCurrentAssetSupply", "IncrementIncomingAssetSupply", "DecrementIncomingAssetSupply", "IncrementOutgoingAssetSupply", "DecrementOutgoingAssetSupply"}},
	{Group: "Htlc", Mod: "htlc", Pkg: "keeper", Func: "Keeper.UpdateTimeBasedSupplyLimits", Lean: "UpdateWindow",
		Locals: []string{"newTimeElapsed", "supply_TimeElapsed"}, Guards: true, Conds: true},
	{Group: "Mt", Mod: "mt", Pkg: "keeper", Func: "Keeper.AddBalance", Lean: "AddBalance", Locals: []string{"balance"}, Guards: true, Conds: true},
	{Group: "Mt", Mod: "mt", Pkg: "keeper", Func: "Keeper.SubBalance", Lean: "SubBalance", Locals: []string{"balance"}, Guards: true, Conds: true},
	{Group: "Mt", Mod: "mt", Pkg: "keeper", Func: "Keeper.IncreaseMTSupply", Lean: "IncreaseMTSupply", Locals: []string{"supply"}, Guards: true, Conds: true},
	{Group: "Mt", Mod: "mt", Pkg: "keeper", Func: "Keeper.decreaseMTSupply", Lean: "decreaseMTSupply", Locals: []string{"supply"}, Guards: true, Conds: true},
	{Group: "Nft", Mod: "nft", Pkg: "types", Func: "Modified", Lean: "Modified"},
	{Group: "Nft", Mod: "nft", Pkg: "types", Func: "Modify", Lean: "Modify"},
	{Group: "Nft", Mod: "nft", Pkg: "keeper", Func: "Keeper.UpdateNFT", Lean: "UpdateNFT",
		Locals: []string{"token_Uri", "token_UriHash", "nftMetadata_Name", "nftMetadata_Data"}, Guards: true, Conds: true},
	{Group: "Nft", Mod: "nft", Pkg: "keeper", Func: "Keeper.TransferOwnership", Lean: "TransferOwnership",
		Locals: []string{"tokenChanged", "tokenMetadataChanged", "token_Uri", "token_UriHash", "nftMetadata_Name", "nftMetadata_Data"}, Guards: true, Conds: true},
	{Group: "Nft", Mod: "nft", Pkg: "keeper", Func: "Keeper.MintNFT", Lean: "MintNFT", Guards: true, Conds: true},
	{Group: "Nft", Mod: "nft", Pkg: "keeper", Func: "Keeper.TransferDenomOwner", Lean: "TransferDenomOwner", Guards: true, Conds: true},
	{Group: "Nft", Mod: "nft", Pkg: "keeper", Func: "Keeper.Authorize", Lean: "Authorize", Guards: true, Conds: true},
	{Group: "Oracle", Mod: "oracle", Pkg: "keeper", Func: "Keeper.SetFeedValue", Lean: "SetFeedValue",
		Locals: []string{"delta"}, Calls: []string{"deleteOldestFeedValue"}, Guards: true, Conds: true},
	{Group: "Oracle", Mod: "oracle", Pkg: "keeper", Func: "Keeper.EditFeed", Lean: "EditFeed",
		Locals: []string{"expectCnt", "feed_LatestHistory"}, Calls: []string{"deleteOldestFeedValue"}, Guards: true, Conds: true},
	{Group: "Genesis", Mod: "htlc", Pkg: "", Func: "InitGenesis", Lean: "HtlcInitGenesis", Guards: true, Conds: true},
	{Group: "Genesis", Mod: "mt", Pkg: "", Func: "InitGenesis", Lean: "MtInitGenesis",
		Locals: []string{"mtSequence"}, Calls: []string{"SetDenomSequence", "SetMTSequence"}},
	{Group: "Genesis", Mod: "coinswap", Pkg: "keeper", Func: "Keeper.InitGenesis", Lean: "CoinswapInitGenesis",
		Calls: []string{"setSequence"}, Guards: true, Conds: true},
	{Group: "Genesis", Mod: "farm", Pkg: "", Func: "InitGenesis", Lean: "FarmInitGenesis",
		Calls: []string{"SetSequence"}, Guards: true, Conds: true},
	{Group: "Random", Mod: "random", Pkg: "types", Func: "PRNG.GetRand", Lean: "GetRand",
		Locals: []string{"seedBT", "seedBH", "seedTI", "seedSum", "seedOS", "precision"}, Conds: true},
	{Group: "TokenFee", Mod: "token", Pkg: "keeper", Func: "Keeper.MintToken", Lean: "MintToken",
		Locals: []string{"precision", "mintableAmt"}, Guards: true, Conds: true},
	{Group: "ServiceSched", Mod: "service", Pkg: "", Func: "EndBlocker", Lean: "EndBlocker",
		Calls: []string{"AddNewRequestBatch", "AddRequestBatchExpiration", "DeleteRequestBatchExpiration", "DeleteNewRequestBatch"}, Guards: true, Conds: true},
	{Group: "ServiceSched", Mod: "service", Pkg: "keeper", Func: "Keeper.UpdateRequestContext", Lean: "UpdateRequestContext",
		Locals: []string{"timeout", "repeatedFreq", "requestContext_Timeout", "requestContext_RepeatedFrequency", "requestContext_RepeatedTotal"}, Guards: true, Conds: true},
	{Group: "ServiceSched", Mod: "service", Pkg: "keeper", Func: "Keeper.StartRequestContext", Lean: "StartRequestContext",
		Calls: []string{"AddNewRequestBatch"}, Guards: true, Conds: true},
	{Group: "Service", Mod: "service", Pkg: "keeper", Func: "Keeper.AddEarnedFee", Lean: "AddEarnedFee",
		Locals: []string{"taxAmount"}},
	{Group: "Service", Mod: "service", Pkg: "keeper", Func: "Keeper.Slash", Lean: "Slash",
		Locals: []string{"slashedAmt"}},
	{Group: "TokenFee", Mod: "token", Pkg: "keeper", Func: "Keeper.EditToken", Lean: "EditToken",
		Locals: []string{"issuedAmt", "precision", "token_MaxSupply", "token_Mintable", "token_Name"}, Guards: true, Conds: true},
	{Group: "TokenFee", Mod: "token", Pkg: "keeper", Func: "Keeper.GetTokenMintFee", Lean: "GetTokenMintFee",
		Locals: []string{"mintFee"}},
	{Group: "TokenFee", Mod: "token", Pkg: "keeper", Func: "feeHandler", Lean: "feeHandler",
		Locals: []string{"communityTaxCoin"}},
	{Group: "TokenFee", Mod: "token", Pkg: "keeper", Func: "calcFeeByBase", Lean: "calcFeeByBase",
		Locals: []string{"actualFee"}},
	// store keys: whole functions over byte strings (package-level prefixes are read as opaque values)
	{Group: "Keys", Mod: "oracle", Pkg: "types", Func: "GetFeedKey", Lean: "OracleGetFeedKey", Opaque: true},
	{Group: "Keys", Mod: "oracle", Pkg: "types", Func: "GetReqCtxIDKey", Lean: "OracleGetReqCtxIDKey", Opaque: true},
	{Group: "Keys", Mod: "oracle", Pkg: "types", Func: "GetFeedValuePrefixKey", Lean: "OracleGetFeedValuePrefixKey", Opaque: true},
	{Group: "Keys", Mod: "oracle", Pkg: "types", Func: "GetFeedValueKey", Lean: "OracleGetFeedValueKey", Opaque: true},
	{Group: "Keys", Mod: "random", Pkg: "types", Func: "KeyRandom", Lean: "RandomKeyRandom", Opaque: true},
	{Group: "Keys", Mod: "random", Pkg: "types", Func: "KeyRandomRequestQueue", Lean: "RandomKeyRequestQueue", Opaque: true},
	{Group: "Keys", Mod: "random", Pkg: "types", Func: "KeyRandomRequestQueueSubspace", Lean: "RandomKeyRequestQueueSubspace", Opaque: true},
	{Group: "Keys", Mod: "random", Pkg: "types", Func: "KeyOracleRandomRequest", Lean: "RandomKeyOracleRequest", Opaque: true},
	{Group: "Keys", Mod: "farm", Pkg: "types", Func: "KeyFarmPool", Lean: "FarmKeyFarmPool", Opaque: true},
	{Group: "Keys", Mod: "farm", Pkg: "types", Func: "KeyRewardRule", Lean: "FarmKeyRewardRule", Opaque: true},
	{Group: "Keys", Mod: "farm", Pkg: "types", Func: "PrefixRewardRule", Lean: "FarmPrefixRewardRule", Opaque: true},
	{Group: "Keys", Mod: "farm", Pkg: "types", Func: "KeyFarmInfo", Lean: "FarmKeyFarmInfo", Opaque: true},
	{Group: "Keys", Mod: "farm", Pkg: "types", Func: "PrefixFarmInfo", Lean: "FarmPrefixFarmInfo", Opaque: true},
	{Group: "Keys", Mod: "farm", Pkg: "types", Func: "KeyActiveFarmPool", Lean: "FarmKeyActiveFarmPool", Opaque: true},
	{Group: "Keys", Mod: "farm", Pkg: "types", Func: "PrefixActiveFarmPool", Lean: "FarmPrefixActiveFarmPool", Opaque: true},
	{Group: "Keys", Mod: "farm", Pkg: "types", Func: "KeyEscrowInfo", Lean: "FarmKeyEscrowInfo", Opaque: true},
	{Group: "Keys", Mod: "htlc", Pkg: "types", Func: "GetHTLCKey", Lean: "HtlcGetHTLCKey", Opaque: true},
	{Group: "Keys", Mod: "htlc", Pkg: "types", Func: "GetHTLCExpiredQueueKey", Lean: "HtlcGetHTLCExpiredQueueKey", Opaque: true},
	{Group: "Keys", Mod: "htlc", Pkg: "types", Func: "GetHTLCExpiredQueueSubspace", Lean: "HtlcGetHTLCExpiredQueueSubspace", Opaque: true},
	{Group: "Keys", Mod: "htlc", Pkg: "types", Func: "GetAssetSupplyKey", Lean: "HtlcGetAssetSupplyKey", Opaque: true},
	{Group: "Keys", Mod: "mt", Pkg: "types", Func: "KeyDenom", Lean: "MtKeyDenom", Opaque: true},
	{Group: "Keys", Mod: "service", Pkg: "types", Func: "GetServiceDefinitionKey", Lean: "ServiceGetServiceDefinitionKey", Opaque: true},
	{Group: "Keys", Mod: "service", Pkg: "types", Func: "GetServiceBindingKey", Lean: "ServiceGetServiceBindingKey", Opaque: true},
	{Group: "Keys", Mod: "service", Pkg: "types", Func: "GetRequestContextKey", Lean: "ServiceGetRequestContextKey", Opaque: true},
	{Group: "Keys", Mod: "service", Pkg: "types", Func: "GetExpiredRequestBatchKey", Lean: "ServiceGetExpiredRequestBatchKey", Opaque: true},
	{Group: "Keys", Mod: "service", Pkg: "types", Func: "GetNewRequestBatchKey", Lean: "ServiceGetNewRequestBatchKey", Opaque: true},
	{Group: "Keys", Mod: "service", Pkg: "types", Func: "GetExpiredRequestBatchSubspace", Lean: "ServiceGetExpiredRequestBatchSubspace", Opaque: true},
	{Group: "Keys", Mod: "service", Pkg: "types", Func: "GetNewRequestBatchSubspace", Lean: "ServiceGetNewRequestBatchSubspace", Opaque: true},
	{Group: "Keys", Mod: "service", Pkg: "types", Func: "GetExpiredRequestBatchHeightKey", Lean: "ServiceGetExpiredRequestBatchHeightKey", Opaque: true},
	{Group: "Keys", Mod: "service", Pkg: "types", Func: "GetNewRequestBatchHeightKey", Lean: "ServiceGetNewRequestBatchHeightKey", Opaque: true},
	{Group: "Keys", Mod: "service", Pkg: "types", Func: "GetRequestKey", Lean: "ServiceGetRequestKey", Opaque: true},
	{Group: "Keys", Mod: "service", Pkg: "types", Func: "GetActiveRequestKeyByID", Lean: "ServiceGetActiveRequestKeyByID", Opaque: true},
	{Group: "Keys", Mod: "service", Pkg: "types", Func: "GetResponseKey", Lean: "ServiceGetResponseKey", Opaque: true},
	{Group: "Keys", Mod: "service", Pkg: "types", Func: "GetEarnedFeesKey", Lean: "ServiceGetEarnedFeesKey", Opaque: true},
	{Group: "Keys", Mod: "service", Pkg: "types", Func: "GetEarnedFeesSubspace", Lean: "ServiceGetEarnedFeesSubspace", Opaque: true},
	{Group: "Keys", Mod: "service", Pkg: "types", Func: "GetOwnerEarnedFeesKey", Lean: "ServiceGetOwnerEarnedFeesKey", Opaque: true},
	{Group: "Keys", Mod: "service", Pkg: "types", Func: "GetOwnerEarnedFeesSubspace", Lean: "ServiceGetOwnerEarnedFeesSubspace", Opaque: true},
	{Group: "Keys", Mod: "record", Pkg: "types", Func: "GetRecordKey", Lean: "RecordGetRecordKey", Opaque: true},
	{Group: "Keys", Mod: "token", Pkg: "types", Func: "KeySymbol", Lean: "TokenKeySymbol", Opaque: true},
	{Group: "Keys", Mod: "token", Pkg: "types", Func: "KeyMinUint", Lean: "TokenKeyMinUint", Opaque: true},
	{Group: "Keys", Mod: "token", Pkg: "types", Func: "KeyContract", Lean: "TokenKeyContract", Opaque: true},
	{Group: "Keys", Mod: "token", Pkg: "types", Func: "KeyTokens", Lean: "TokenKeyTokens", Opaque: true},
	{Group: "Keys", Mod: "token", Pkg: "types", Func: "KeyBurnTokenAmt", Lean: "TokenKeyBurnTokenAmt", Opaque: true},
	{Group: "Keys", Mod: "coinswap", Pkg: "types", Func: "GetPoolKey", Lean: "CoinswapGetPoolKey", Opaque: true},
	{Group: "Keys", Mod: "coinswap", Pkg: "types", Func: "GetLptDenomKey", Lean: "CoinswapGetLptDenomKey", Opaque: true},
	// census-only: the handlers around the translated arithmetic — their rejecting guards are listed, not translated
	{Group: "Service", Mod: "service", Pkg: "keeper", Func: "Keeper.SetEarnedFees", Lean: "Keeper.SetEarnedFees", Census: true},
	{Group: "Service", Mod: "service", Pkg: "keeper", Func: "Keeper.SetOwnerEarnedFees", Lean: "Keeper.SetOwnerEarnedFees", Census: true},
	{Group: "Service", Mod: "service", Pkg: "keeper", Func: "Keeper.DeleteEarnedFees", Lean: "Keeper.DeleteEarnedFees", Census: true},
	{Group: "Service", Mod: "service", Pkg: "keeper", Func: "Keeper.DeleteOwnerEarnedFees", Lean: "Keeper.DeleteOwnerEarnedFees", Census: true},
	{Group: "Service", Mod: "service", Pkg: "keeper", Func: "Keeper.RefundEarnedFees", Lean: "Keeper.RefundEarnedFees", Census: true},
	{Group: "Service", Mod: "service", Pkg: "keeper", Func: "Keeper.RefundServiceFees", Lean: "Keeper.RefundServiceFees", Census: true},
	{Group: "Service", Mod: "service", Pkg: "keeper", Func: "Keeper.FilterServiceProviders", Lean: "Keeper.FilterServiceProviders", Census: true},
	{Group: "ServiceSched", Mod: "service", Pkg: "keeper", Func: "Keeper.InitiateRequests", Lean: "Keeper.InitiateRequests", Census: true},
	{Group: "ServiceSched", Mod: "service", Pkg: "keeper", Func: "Keeper.SkipCurrentRequestBatch", Lean: "Keeper.SkipCurrentRequestBatch", Census: true},
	{Group: "Oracle", Mod: "oracle", Pkg: "keeper", Func: "Keeper.dequeueAndEnqueue", Lean: "Keeper.dequeueAndEnqueue", Census: true},
	{Group: "Oracle", Mod: "oracle", Pkg: "keeper", Func: "Keeper.SetFeed", Lean: "Keeper.SetFeed", Census: true},
	{Group: "Oracle", Mod: "oracle", Pkg: "keeper", Func: "Keeper.deleteOldestFeedValue", Lean: "Keeper.deleteOldestFeedValue", Census: true},
	{Group: "Oracle", Mod: "oracle", Pkg: "keeper", Func: "Keeper.Enqueue", Lean: "Keeper.Enqueue", Census: true},
	{Group: "Oracle", Mod: "oracle", Pkg: "keeper", Func: "Keeper.Dequeue", Lean: "Keeper.Dequeue", Census: true},
	{Group: "Random", Mod: "random", Pkg: "", Func: "BeginBlocker", Lean: "BeginBlocker", Census: true},
	{Group: "Random", Mod: "random", Pkg: "keeper", Func: "Keeper.SetRandom", Lean: "Keeper.SetRandom", Census: true},
	{Group: "Random", Mod: "random", Pkg: "keeper", Func: "Keeper.EnqueueRandomRequest", Lean: "Keeper.EnqueueRandomRequest", Census: true},
	{Group: "Random", Mod: "random", Pkg: "keeper", Func: "Keeper.DequeueRandomRequest", Lean: "Keeper.DequeueRandomRequest", Census: true},
	{Group: "Random", Mod: "random", Pkg: "keeper", Func: "Keeper.SetOracleRandRequest", Lean: "Keeper.SetOracleRandRequest", Census: true},
	{Group: "Random", Mod: "random", Pkg: "keeper", Func: "Keeper.DeleteOracleRandRequest", Lean: "Keeper.DeleteOracleRandRequest", Census: true},
	{Group: "Farm", Mod: "farm", Pkg: "", Func: "EndBlocker", Lean: "EndBlocker", Census: true},
	{Group: "Htlc", Mod: "htlc", Pkg: "", Func: "BeginBlocker", Lean: "BeginBlocker", Census: true},
	{Group: "Token", Mod: "token", Pkg: "keeper", Func: "erc20Hook.PostTxProcessing", Lean: "erc20Hook.PostTxProcessing", Census: true},
	{Group: "Token", Mod: "token", Pkg: "keeper", Func: "Keeper.SwapFromERC20", Lean: "Keeper.SwapFromERC20", Census: true},
	{Group: "Token", Mod: "token", Pkg: "keeper", Func: "Keeper.SwapToERC20", Lean: "Keeper.SwapToERC20", Census: true},
	{Group: "Token", Mod: "token", Pkg: "keeper", Func: "msgServer.SwapFromERC20", Lean: "msgServer.SwapFromERC20", Census: true},
	{Group: "Token", Mod: "token", Pkg: "keeper", Func: "msgServer.SwapToERC20", Lean: "msgServer.SwapToERC20", Census: true},
	{Group: "Coinswap", Mod: "coinswap", Pkg: "keeper", Func: "Keeper.Swap", Lean: "Keeper.Swap", Census: true},
	{Group: "Coinswap", Mod: "coinswap", Pkg: "keeper", Func: "Keeper.swapCoins", Lean: "Keeper.swapCoins", Census: true},
	{Group: "Coinswap", Mod: "coinswap", Pkg: "keeper", Func: "Keeper.CreatePool", Lean: "Keeper.CreatePool", Census: true},
	{Group: "Coinswap", Mod: "coinswap", Pkg: "keeper", Func: "Keeper.ValidatePool", Lean: "Keeper.ValidatePool", Census: true},
	{Group: "Coinswap", Mod: "coinswap", Pkg: "keeper", Func: "msgServer.AddLiquidity", Lean: "msgServer.AddLiquidity", Census: true},
	{Group: "Coinswap", Mod: "coinswap", Pkg: "keeper", Func: "msgServer.AddUnilateralLiquidity", Lean: "msgServer.AddUnilateralLiquidity", Census: true},
	{Group: "Coinswap", Mod: "coinswap", Pkg: "keeper", Func: "msgServer.RemoveLiquidity", Lean: "msgServer.RemoveLiquidity", Census: true},
	{Group: "Coinswap", Mod: "coinswap", Pkg: "keeper", Func: "msgServer.RemoveUnilateralLiquidity", Lean: "msgServer.RemoveUnilateralLiquidity", Census: true},
	{Group: "Coinswap", Mod: "coinswap", Pkg: "keeper", Func: "msgServer.SwapCoin", Lean: "msgServer.SwapCoin", Census: true},
	{Group: "Htlc", Mod: "htlc", Pkg: "keeper", Func: "Keeper.CreateHTLC", Lean: "Keeper.CreateHTLC", Census: true},
	{Group: "Htlc", Mod: "htlc", Pkg: "keeper", Func: "Keeper.createHTLC", Lean: "Keeper.createHTLC", Census: true},
	{Group: "Htlc", Mod: "htlc", Pkg: "keeper", Func: "Keeper.ClaimHTLC", Lean: "Keeper.ClaimHTLC", Census: true},
	{Group: "Htlc", Mod: "htlc", Pkg: "keeper", Func: "Keeper.claimHTLC", Lean: "Keeper.claimHTLC", Census: true},
	{Group: "Htlc", Mod: "htlc", Pkg: "keeper", Func: "Keeper.RefundHTLC", Lean: "Keeper.RefundHTLC", Census: true},
	{Group: "Htlc", Mod: "htlc", Pkg: "keeper", Func: "Keeper.refundHTLC", Lean: "Keeper.refundHTLC", Census: true},
	{Group: "Htlc", Mod: "htlc", Pkg: "keeper", Func: "Keeper.ValidateLiveAsset", Lean: "Keeper.ValidateLiveAsset", Census: true},
	{Group: "Htlc", Mod: "htlc", Pkg: "keeper", Func: "msgServer.CreateHTLC", Lean: "msgServer.CreateHTLC", Census: true},
	{Group: "Htlc", Mod: "htlc", Pkg: "keeper", Func: "msgServer.ClaimHTLC", Lean: "msgServer.ClaimHTLC", Census: true},
	{Group: "Farm", Mod: "farm", Pkg: "keeper", Func: "Keeper.Stake", Lean: "Keeper.Stake", Census: true},
	{Group: "Farm", Mod: "farm", Pkg: "keeper", Func: "Keeper.Unstake", Lean: "Keeper.Unstake", Census: true},
	{Group: "Farm", Mod: "farm", Pkg: "keeper", Func: "Keeper.Harvest", Lean: "Keeper.Harvest", Census: true},
	{Group: "Farm", Mod: "farm", Pkg: "keeper", Func: "Keeper.Refund", Lean: "Keeper.Refund", Census: true},
	{Group: "Farm", Mod: "farm", Pkg: "keeper", Func: "Keeper.CreatePool", Lean: "Keeper.CreatePool", Census: true},
	{Group: "Farm", Mod: "farm", Pkg: "keeper", Func: "Keeper.DestroyPool", Lean: "Keeper.DestroyPool", Census: true},
	{Group: "Farm", Mod: "farm", Pkg: "keeper", Func: "Keeper.createPool", Lean: "Keeper.createPool", Census: true},
	{Group: "Farm", Mod: "farm", Pkg: "keeper", Func: "msgServer.CreatePool", Lean: "msgServer.CreatePool", Census: true},
	{Group: "Farm", Mod: "farm", Pkg: "keeper", Func: "msgServer.CreatePoolWithCommunityPool", Lean: "msgServer.CreatePoolWithCommunityPool", Census: true},
	{Group: "Farm", Mod: "farm", Pkg: "keeper", Func: "msgServer.DestroyPool", Lean: "msgServer.DestroyPool", Census: true},
	{Group: "Farm", Mod: "farm", Pkg: "keeper", Func: "msgServer.AdjustPool", Lean: "msgServer.AdjustPool", Census: true},
	{Group: "Farm", Mod: "farm", Pkg: "keeper", Func: "msgServer.Stake", Lean: "msgServer.Stake", Census: true},
	{Group: "Farm", Mod: "farm", Pkg: "keeper", Func: "msgServer.Unstake", Lean: "msgServer.Unstake", Census: true},
	{Group: "Farm", Mod: "farm", Pkg: "keeper", Func: "msgServer.Harvest", Lean: "msgServer.Harvest", Census: true},
	{Group: "Service", Mod: "service", Pkg: "keeper", Func: "Keeper.RefundServiceFee", Lean: "Keeper.RefundServiceFee", Census: true},
	{Group: "Service", Mod: "service", Pkg: "keeper", Func: "Keeper.WithdrawEarnedFees", Lean: "Keeper.WithdrawEarnedFees", Census: true},
	{Group: "Service", Mod: "service", Pkg: "keeper", Func: "Keeper.AddServiceBinding", Lean: "Keeper.AddServiceBinding", Census: true},
	{Group: "Service", Mod: "service", Pkg: "keeper", Func: "Keeper.UpdateServiceBinding", Lean: "Keeper.UpdateServiceBinding", Census: true},
	{Group: "Service", Mod: "service", Pkg: "keeper", Func: "Keeper.DisableServiceBinding", Lean: "Keeper.DisableServiceBinding", Census: true},
	{Group: "Service", Mod: "service", Pkg: "keeper", Func: "Keeper.EnableServiceBinding", Lean: "Keeper.EnableServiceBinding", Census: true},
	{Group: "Service", Mod: "service", Pkg: "keeper", Func: "Keeper.RefundDeposit", Lean: "Keeper.RefundDeposit", Census: true},
	{Group: "Service", Mod: "service", Pkg: "keeper", Func: "Keeper.DeductServiceFees", Lean: "Keeper.DeductServiceFees", Census: true},
	{Group: "Service", Mod: "service", Pkg: "keeper", Func: "Keeper.validateDeposit", Lean: "Keeper.validateDeposit", Census: true},
	{Group: "ServiceSched", Mod: "service", Pkg: "keeper", Func: "Keeper.CreateRequestContext", Lean: "Keeper.CreateRequestContext", Census: true},
	{Group: "ServiceSched", Mod: "service", Pkg: "keeper", Func: "Keeper.PauseRequestContext", Lean: "Keeper.PauseRequestContext", Census: true},
	{Group: "ServiceSched", Mod: "service", Pkg: "keeper", Func: "Keeper.KillRequestContext", Lean: "Keeper.KillRequestContext", Census: true},
	{Group: "ServiceSched", Mod: "service", Pkg: "keeper", Func: "Keeper.AddResponse", Lean: "Keeper.AddResponse", Census: true},
	{Group: "ServiceSched", Mod: "service", Pkg: "keeper", Func: "Keeper.CheckAuthority", Lean: "Keeper.CheckAuthority", Census: true},
	{Group: "ServiceSched", Mod: "service", Pkg: "keeper", Func: "Keeper.validateServiceFeeCap", Lean: "Keeper.validateServiceFeeCap", Census: true},
	{Group: "ServiceSched", Mod: "service", Pkg: "keeper", Func: "Keeper.CompleteBatch", Lean: "Keeper.CompleteBatch", Census: true},
	{Group: "ServiceSched", Mod: "service", Pkg: "keeper", Func: "Keeper.CompleteServiceContext", Lean: "Keeper.CompleteServiceContext", Census: true},
	{Group: "ServiceSched", Mod: "service", Pkg: "keeper", Func: "Keeper.OnRequestContextPaused", Lean: "Keeper.OnRequestContextPaused", Census: true},
	{Group: "TokenFee", Mod: "token", Pkg: "keeper", Func: "Keeper.IssueToken", Lean: "Keeper.IssueToken", Census: true},
	{Group: "TokenFee", Mod: "token", Pkg: "keeper", Func: "Keeper.BurnToken", Lean: "Keeper.BurnToken", Census: true},
	{Group: "TokenFee", Mod: "token", Pkg: "keeper", Func: "Keeper.TransferTokenOwner", Lean: "Keeper.TransferTokenOwner", Census: true},
	{Group: "TokenFee", Mod: "token", Pkg: "keeper", Func: "Keeper.SwapFeeToken", Lean: "Keeper.SwapFeeToken", Census: true},
	{Group: "TokenFee", Mod: "token", Pkg: "keeper", Func: "msgServer.IssueToken", Lean: "msgServer.IssueToken", Census: true},
	{Group: "TokenFee", Mod: "token", Pkg: "keeper", Func: "msgServer.EditToken", Lean: "msgServer.EditToken", Census: true},
	{Group: "TokenFee", Mod: "token", Pkg: "keeper", Func: "msgServer.MintToken", Lean: "msgServer.MintToken", Census: true},
	{Group: "TokenFee", Mod: "token", Pkg: "keeper", Func: "msgServer.BurnToken", Lean: "msgServer.BurnToken", Census: true},
	{Group: "TokenFee", Mod: "token", Pkg: "keeper", Func: "msgServer.TransferTokenOwner", Lean: "msgServer.TransferTokenOwner", Census: true},
	{Group: "TokenFee", Mod: "token", Pkg: "keeper", Func: "msgServer.SwapFeeToken", Lean: "msgServer.SwapFeeToken", Census: true},
	{Group: "Nft", Mod: "nft", Pkg: "keeper", Func: "Keeper.IssueDenom", Lean: "Keeper.IssueDenom", Census: true},
	{Group: "Nft", Mod: "nft", Pkg: "keeper", Func: "Keeper.EditNFT", Lean: "Keeper.EditNFT", Census: true},
	{Group: "Nft", Mod: "nft", Pkg: "keeper", Func: "Keeper.TransferNFT", Lean: "Keeper.TransferNFT", Census: true},
	{Group: "Nft", Mod: "nft", Pkg: "keeper", Func: "Keeper.BurnNFT", Lean: "Keeper.BurnNFT", Census: true},
	{Group: "Nft", Mod: "nft", Pkg: "keeper", Func: "Keeper.TransferDenom", Lean: "Keeper.TransferDenom", Census: true},
	{Group: "Nft", Mod: "nft", Pkg: "keeper", Func: "Keeper.RemoveNFT", Lean: "Keeper.RemoveNFT", Census: true},
	{Group: "Nft", Mod: "nft", Pkg: "keeper", Func: "Keeper.SaveNFT", Lean: "Keeper.SaveNFT", Census: true},
	{Group: "Mt", Mod: "mt", Pkg: "keeper", Func: "Keeper.Transfer", Lean: "Keeper.Transfer", Census: true},
	{Group: "Mt", Mod: "mt", Pkg: "keeper", Func: "Keeper.IssueDenom", Lean: "Keeper.IssueDenom", Census: true},
	{Group: "Mt", Mod: "mt", Pkg: "keeper", Func: "Keeper.IssueMT", Lean: "Keeper.IssueMT", Census: true},
	{Group: "Mt", Mod: "mt", Pkg: "keeper", Func: "Keeper.MintMT", Lean: "Keeper.MintMT", Census: true},
	{Group: "Mt", Mod: "mt", Pkg: "keeper", Func: "Keeper.EditMT", Lean: "Keeper.EditMT", Census: true},
	{Group: "Mt", Mod: "mt", Pkg: "keeper", Func: "Keeper.TransferOwner", Lean: "Keeper.TransferOwner", Census: true},
	{Group: "Mt", Mod: "mt", Pkg: "keeper", Func: "Keeper.BurnMT", Lean: "Keeper.BurnMT", Census: true},
	{Group: "Mt", Mod: "mt", Pkg: "keeper", Func: "Keeper.TransferDenomOwner", Lean: "Keeper.TransferDenomOwner", Census: true},
	{Group: "Mt", Mod: "mt", Pkg: "keeper", Func: "Keeper.Authorize", Lean: "Keeper.Authorize", Census: true},
	{Group: "Mt", Mod: "mt", Pkg: "keeper", Func: "msgServer.IssueDenom", Lean: "msgServer.IssueDenom", Census: true},
	{Group: "Mt", Mod: "mt", Pkg: "keeper", Func: "msgServer.MintMT", Lean: "msgServer.MintMT", Census: true},
	{Group: "Mt", Mod: "mt", Pkg: "keeper", Func: "msgServer.EditMT", Lean: "msgServer.EditMT", Census: true},
	{Group: "Mt", Mod: "mt", Pkg: "keeper", Func: "msgServer.TransferMT", Lean: "msgServer.TransferMT", Census: true},
	{Group: "Mt", Mod: "mt", Pkg: "keeper", Func: "msgServer.BurnMT", Lean: "msgServer.BurnMT", Census: true},
	{Group: "Mt", Mod: "mt", Pkg: "keeper", Func: "msgServer.TransferDenom", Lean: "msgServer.TransferDenom", Census: true},
	{Group: "Oracle", Mod: "oracle", Pkg: "keeper", Func: "Keeper.CreateFeed", Lean: "Keeper.CreateFeed", Census: true},
	{Group: "Oracle", Mod: "oracle", Pkg: "keeper", Func: "Keeper.StartFeed", Lean: "Keeper.StartFeed", Census: true},
	{Group: "Oracle", Mod: "oracle", Pkg: "keeper", Func: "Keeper.PauseFeed", Lean: "Keeper.PauseFeed", Census: true},
	{Group: "Oracle", Mod: "oracle", Pkg: "keeper", Func: "Keeper.HandlerResponse", Lean: "Keeper.HandlerResponse", Census: true},
	{Group: "Oracle", Mod: "oracle", Pkg: "keeper", Func: "Keeper.HandlerStateChanged", Lean: "Keeper.HandlerStateChanged", Census: true},
	{Group: "Oracle", Mod: "oracle", Pkg: "keeper", Func: "msgServer.CreateFeed", Lean: "msgServer.CreateFeed", Census: true},
	{Group: "Oracle", Mod: "oracle", Pkg: "keeper", Func: "msgServer.EditFeed", Lean: "msgServer.EditFeed", Census: true},
	{Group: "Oracle", Mod: "oracle", Pkg: "keeper", Func: "msgServer.StartFeed", Lean: "msgServer.StartFeed", Census: true},
	{Group: "Oracle", Mod: "oracle", Pkg: "keeper", Func: "msgServer.PauseFeed", Lean: "msgServer.PauseFeed", Census: true},
	{Group: "Random", Mod: "random", Pkg: "keeper", Func: "Keeper.RequestRandom", Lean: "Keeper.RequestRandom", Census: true},
	{Group: "Random", Mod: "random", Pkg: "keeper", Func: "Keeper.RequestService", Lean: "Keeper.RequestService", Census: true},
	{Group: "Random", Mod: "random", Pkg: "keeper", Func: "Keeper.HandlerResponse", Lean: "Keeper.HandlerResponse", Census: true},
	{Group: "Random", Mod: "random", Pkg: "keeper", Func: "Keeper.HandlerStateChanged", Lean: "Keeper.HandlerStateChanged", Census: true},
	{Group: "Random", Mod: "random", Pkg: "keeper", Func: "msgServer.RequestRandom", Lean: "msgServer.RequestRandom", Census: true},
}

// ---------------------------------------------------------------------------------------------

type kind int

const (
	kInt kind = iota // sdkmath.Int
	kDec             // sdkmath.LegacyDec
	kBig             // *big.Int
	kCoin
	kCoins
	kBytes
	kLit // an untyped literal made by the translator (x++ is x = x + 1): takes the other operand's type
	kBool
	kStr
	kNat // unsigned machine integers
	kI64 // signed machine integers
	kErr // error: true = nil
	kOther
)

func kindOf(t types.Type) kind {
	if t == nil {
		return kOther
	}
	s := types.TypeString(t, nil)
	switch s {
	case "cosmossdk.io/math.Int":
		return kInt
	case "cosmossdk.io/math.LegacyDec":
		return kDec
	case "*math/big.Int":
		return kBig
	case "github.com/cosmos/cosmos-sdk/types.Coin":
		return kCoin
	case "github.com/cosmos/cosmos-sdk/types.Coins":
		return kCoins
	case "error":
		return kErr
	}
	if sl, ok := t.Underlying().(*types.Slice); ok {
		if b, ok := sl.Elem().Underlying().(*types.Basic); ok && b.Kind() == types.Uint8 {
			return kBytes // []byte, HexBytes, AccAddress
		}
	}
	if b, ok := t.Underlying().(*types.Basic); ok {
		switch {
		case b.Info()&types.IsBoolean != 0:
			return kBool
		case b.Info()&types.IsString != 0:
			return kStr
		case b.Info()&types.IsUnsigned != 0:
			return kNat
		case b.Info()&types.IsInteger != 0:
			return kI64
		}
	}
	return kOther
}

func leanType(k kind) string {
	switch k {
	case kInt, kBig, kI64:
		return "Int"
	case kDec:
		return "Dec"
	case kCoin:
		return "Coin"
	case kCoins:
		return "List Coin"
	case kBytes:
		return "ByteArray"
	case kBool, kErr:
		return "Bool"
	case kStr:
		return "String"
	case kNat:
		return "Nat"
	}
	return "?"
}

type method struct {
	lean     string
	fallible bool
	res      kind
}

// one Lean function per Go method; the names are the Go names
var methods = map[string]method{
	"Int.Add": {"Int_Add", true, kInt}, "Int.Sub": {"Int_Sub", true, kInt}, "Int.Mul": {"Int_Mul", true, kInt},
	"Int.Quo": {"Int_Quo", true, kInt}, "Int.Mod": {"Int_Mod", true, kInt},
	"Int.AddRaw": {"Int_Add", true, kInt}, "Int.SubRaw": {"Int_Sub", true, kInt}, "Int.MulRaw": {"Int_Mul", true, kInt},
	"Int.QuoRaw":     {"Int_Quo", true, kInt},
	"Int.IsPositive": {"Int_IsPositive", false, kBool}, "Int.IsNegative": {"Int_IsNegative", false, kBool},
	"Int.IsZero": {"Int_IsZero", false, kBool},
	"Int.GT":     {"Int_GT", false, kBool}, "Int.GTE": {"Int_GTE", false, kBool}, "Int.LT": {"Int_LT", false, kBool},
	"Int.LTE": {"Int_LTE", false, kBool}, "Int.Equal": {"Int_Equal", false, kBool},
	"Int.BigInt": {"Int_BigInt", false, kBig}, "Int.Neg": {"Int_Neg", false, kInt},
	"Int.ToLegacyDec": {"Int_ToLegacyDec", false, kDec}, "Int.Int64": {"Int_Int64", true, kI64},

	"Dec.Add": {"Dec_Add", true, kDec}, "Dec.Sub": {"Dec_Sub", true, kDec}, "Dec.Mul": {"Dec_Mul", true, kDec},
	"Dec.Quo": {"Dec_Quo", true, kDec}, "Dec.MulTruncate": {"Dec_MulTruncate", true, kDec},
	"Dec.QuoTruncate": {"Dec_QuoTruncate", true, kDec}, "Dec.MulInt": {"Dec_MulInt", true, kDec},
	"Dec.QuoInt": {"Dec_QuoInt", true, kDec}, "Dec.MulInt64": {"Dec_MulInt", true, kDec}, "Dec.QuoInt64": {"Dec_QuoInt", true, kDec},
	"Dec.TruncateInt": {"Dec_TruncateInt", true, kInt}, "Dec.RoundInt": {"Dec_RoundInt", true, kInt},
	"Dec.BigInt": {"Dec_BigInt", false, kBig},
	"Dec.IsZero": {"Dec_IsZero", false, kBool}, "Dec.IsNegative": {"Dec_IsNegative", false, kBool},
	"Dec.IsPositive": {"Dec_IsPositive", false, kBool}, "Dec.IsNil": {"Dec_IsNil", false, kBool},
	"Dec.GT": {"Dec_GT", false, kBool}, "Dec.GTE": {"Dec_GTE", false, kBool}, "Dec.LT": {"Dec_LT", false, kBool},
	"Dec.LTE": {"Dec_LTE", false, kBool}, "Dec.Equal": {"Dec_Equal", false, kBool},

	"Coin.IsPositive": {"Coin_IsPositive", false, kBool}, "Coin.IsZero": {"Coin_IsZero", false, kBool},
	"Coin.IsNegative": {"Coin_IsNegative", false, kBool}, "Coin.IsValid": {"Coin_IsValid", false, kBool},
	"Coin.Add": {"Coin_Add", true, kCoin}, "Coin.Sub": {"Coin_Sub", true, kCoin},
	"Coin.IsLT": {"Coin_IsLT", true, kBool}, "Coin.IsGTE": {"Coin_IsGTE", true, kBool}, "Coin.IsLTE": {"Coin_IsLTE", true, kBool},

	"Coins.IsValid": {"Coins_IsValid", false, kBool}, "Coins.Validate": {"Coins_Validate", false, kErr},

	// *big.Int: value of the result; the receiver is re-bound by the translator
	"Big.Mul": {"Big_Mul", false, kBig}, "Big.Add": {"Big_Add", false, kBig}, "Big.Sub": {"Big_Sub", false, kBig},
	"Big.Quo": {"Big_Quo", true, kBig}, "Big.Rem": {"Big_Rem", true, kBig},
	"Big.Div": {"Big_Div", true, kBig}, "Big.Mod": {"Big_Mod", true, kBig}, "Big.Exp": {"Big_Exp", false, kBig},
	"Big.Set": {"Big_Set", false, kBig}, "Big.Neg": {"Big_Neg", false, kBig},
	"Big.Sign": {"Big_Sign", false, kI64}, "Big.Cmp": {"Big_Cmp", false, kI64},
}

// package-level functions, by types.Func.FullName()
var funcs = map[string]method{
	"cosmossdk.io/math.ZeroInt": {"ZeroInt", false, kInt}, "cosmossdk.io/math.OneInt": {"OneInt", false, kInt},
	"cosmossdk.io/math.NewInt": {"NewInt", false, kInt}, "cosmossdk.io/math.NewIntFromUint64": {"NewIntFromUint64", false, kInt},
	"cosmossdk.io/math.NewIntFromBigInt":  {"NewIntFromBigInt", true, kInt},
	"cosmossdk.io/math.NewIntWithDecimal": {"NewIntWithDecimal", true, kInt},
	"cosmossdk.io/math.LegacyZeroDec":     {"LegacyZeroDec", false, kDec}, "cosmossdk.io/math.LegacyOneDec": {"LegacyOneDec", false, kDec},
	"cosmossdk.io/math.LegacyNewDec":                       {"LegacyNewDec", false, kDec},
	"cosmossdk.io/math.LegacyNewDecFromInt":                {"LegacyNewDecFromInt", false, kDec},
	"cosmossdk.io/math.LegacyNewDecWithPrec":               {"LegacyNewDecWithPrec", true, kDec},
	"math/big.NewInt":                                      {"Big_NewInt", false, kBig},
	"github.com/cosmos/cosmos-sdk/types.NewCoin":           {"NewCoin", true, kCoin},
	"github.com/cosmos/cosmos-sdk/types.ValidateDenom":     {"ValidateDenom", false, kErr},
	"github.com/cosmos/cosmos-sdk/types.Uint64ToBigEndian": {"Uint64ToBigEndian", false, kBytes},
	"github.com/cometbft/cometbft/crypto/tmhash.Sum":       {"tmhash_Sum", false, kBytes},
}

type param struct {
	name string
	k    kind
}

type tr struct {
	opaque  bool // fragment mode: a substrate-typed call the translator does not know (a store / bank / coins read) becomes a parameter
	pkg     *packages.Package
	params  []param
	pseen   map[string]bool
	bound   map[string]kind // locals of the translated fragment
	tmp     int
	known   map[string]bool // Lean names of translated functions (callable)
	knownGo map[string]string
}

type unsupported struct{ why string }

func (t *tr) fail(n ast.Node, format string, a ...interface{}) {
	pos := t.pkg.Fset.Position(n.Pos())
	panic(unsupported{fmt.Sprintf("%s:%d: ", filepath.Base(pos.Filename), pos.Line) + fmt.Sprintf(format, a...)})
}

func (t *tr) fresh() string { t.tmp++; return fmt.Sprintf("t%d", t.tmp) }

func (t *tr) addParam(name string, k kind, n ast.Node) string {
	if k == kOther {
		t.fail(n, "free variable %s has a type outside the substrate (%s)", name, types.TypeString(t.pkg.TypesInfo.TypeOf(n.(ast.Expr)), nil))
	}
	if !t.pseen[name] {
		t.pseen[name] = true
		t.params = append(t.params, param{name, k})
	}
	return name
}

func leanStr(s string) string { return fmt.Sprintf("%q", s) }

// selector path a.b.c of plain field selections, as a parameter name
func (t *tr) fieldPath(e ast.Expr) (string, bool) {
	switch x := e.(type) {
	case *ast.Ident:
		if _, isVar := t.pkg.TypesInfo.ObjectOf(x).(*types.Var); isVar {
			return x.Name, true
		}
	case *ast.SelectorExpr:
		if sel := t.pkg.TypesInfo.Selections[x]; sel != nil && sel.Kind() == types.FieldVal {
			if p, ok := t.fieldPath(x.X); ok {
				return p + "_" + x.Sel.Name, true
			}
		}
	case *ast.ParenExpr:
		return t.fieldPath(x.X)
	case *ast.IndexExpr:
		// rules[i]: an element of a slice of records, named by the index variable
		if id, ok := x.Index.(*ast.Ident); ok {
			if p, ok := t.fieldPath(x.X); ok {
				return p + "_" + id.Name, true
			}
		}
		if lit, ok := x.Index.(*ast.BasicLit); ok && lit.Kind == token.INT {
			if p, ok := t.fieldPath(x.X); ok {
				return p + "_" + lit.Value, true
			}
		}
	}
	return "", false
}

// pkgBytesLit: the value of a package-level `var X = []byte{c1, c2, …}` of this package, all elements constant
func (t *tr) pkgBytesLit(v *types.Var) (string, bool) {
	for _, f := range t.pkg.Syntax {
		for _, d := range f.Decls {
			gd, ok := d.(*ast.GenDecl)
			if !ok || gd.Tok != token.VAR {
				continue
			}
			for _, sp := range gd.Specs {
				vs := sp.(*ast.ValueSpec)
				for i, nm := range vs.Names {
					if t.pkg.TypesInfo.Defs[nm] != v || i >= len(vs.Values) {
						continue
					}
					cl, ok := vs.Values[i].(*ast.CompositeLit)
					if !ok {
						return "", false
					}
					var bs []string
					for _, el := range cl.Elts {
						tv := t.pkg.TypesInfo.Types[el]
						if tv.Value == nil || tv.Value.Kind() != constant.Int {
							return "", false
						}
						bs = append(bs, tv.Value.ExactString())
					}
					return "(ByteArray.mk #[" + strings.Join(bs, ", ") + "])", true
				}
			}
		}
	}
	return "", false
}

// expr translates e; fallible sub-computations are emitted as binds into out
func (t *tr) expr(e ast.Expr, out *[]string) (string, kind) {
	info := t.pkg.TypesInfo
	tv := info.Types[e]
	k := kindOf(tv.Type)
	if tv.Value != nil { // constant expression
		switch tv.Value.Kind() {
		case constant.Int:
			if k == kNat {
				return "(" + tv.Value.ExactString() + " : Nat)", k
			}
			return "(" + tv.Value.ExactString() + " : Int)", kI64
		case constant.Bool:
			return tv.Value.String(), kBool
		case constant.String:
			return leanStr(constant.StringVal(tv.Value)), kStr
		}
	}
	switch x := e.(type) {
	case *ast.ParenExpr:
		return t.expr(x.X, out)
	case *ast.Ident:
		if x.Name == "nil" {
			if k == kErr || tv.IsNil() {
				return "true", kErr
			}
		}
		if bk, ok := t.bound[x.Name]; ok {
			return x.Name, bk
		}
		if v, isVar := info.ObjectOf(x).(*types.Var); isVar {
			if k == kBytes && v.Pkg() != nil && v.Parent() == v.Pkg().Scope() {
				if lit, ok := t.pkgBytesLit(v); ok {
					return lit, k // a package-level `[]byte{…}` of constants (store prefixes): its value
				}
			}
			return t.addParam(x.Name, k, x), k
		}
		t.fail(x, "identifier %s", x.Name)
	case *ast.SelectorExpr:
		if sel := info.Selections[x]; sel != nil && sel.Kind() == types.FieldVal {
			if kindOf(info.TypeOf(x.X)) == kCoin {
				base, _ := t.expr(x.X, out)
				switch x.Sel.Name {
				case "Denom":
					return base + ".denom", kStr
				case "Amount":
					return base + ".amount", kInt
				}
			}
			if p, ok := t.fieldPath(x); ok {
				root := strings.SplitN(p, "_", 2)[0]
				if _, isLocal := t.bound[root]; !isLocal {
					return t.addParam(p, k, x), k
				}
			}
		}
		t.fail(x, "selector %s", types.ExprString(x))
	case *ast.BasicLit:
		if tv.Type == nil && x.Kind == token.INT {
			return x.Value, kLit
		}
	case *ast.IndexExpr:
		if p, ok := t.fieldPath(x); ok {
			return t.addParam(p, k, x), k
		}
		t.fail(x, "index expression %s", types.ExprString(x))
	case *ast.UnaryExpr:
		a, ak := t.expr(x.X, out)
		switch x.Op {
		case token.NOT:
			return "(!" + a + ")", kBool
		case token.SUB:
			if ak == kI64 {
				return "(-" + a + ")", kI64
			}
		}
		t.fail(x, "unary %s", x.Op)
	case *ast.BinaryExpr:
		var rhs []string
		a, ak := t.expr(x.X, out)
		b, bk := t.expr(x.Y, &rhs)
		switch x.Op {
		case token.LOR, token.LAND:
			if len(rhs) > 0 {
				// the right operand is evaluated (and can panic) only if the left one does not decide
				v := t.fresh()
				inner := "(do " + strings.Join(rhs, "; ") + "; some " + b + ")"
				if x.Op == token.LOR {
					*out = append(*out, fmt.Sprintf("let %s ← (if %s then some true else %s)", v, a, inner))
				} else {
					*out = append(*out, fmt.Sprintf("let %s ← (if %s then %s else some false)", v, a, inner))
				}
				return v, kBool
			}
			op := map[token.Token]string{token.LOR: "||", token.LAND: "&&"}[x.Op]
			return "(" + a + " " + op + " " + b + ")", kBool
		}
		*out = append(*out, rhs...)
		if bk == kLit {
			b, bk = "("+b+" : "+leanType(ak)+")", ak
		}
		if ak == kErr && bk == kErr { // err != nil / err == nil
			if x.Op == token.NEQ {
				return "(!(" + a + " == " + b + "))", kBool
			}
			return "(" + a + " == " + b + ")", kBool
		}
		if (ak == kNat || ak == kI64 || ak == kStr || ak == kBool) && ak == bk || (ak == kI64 && bk == kI64) {
			switch x.Op {
			case token.EQL:
				return "(" + a + " == " + b + ")", kBool
			case token.NEQ:
				return "(" + a + " != " + b + ")", kBool
			case token.LSS:
				return "(decide (" + a + " < " + b + "))", kBool
			case token.LEQ:
				return "(decide (" + a + " ≤ " + b + "))", kBool
			case token.GTR:
				return "(decide (" + a + " > " + b + "))", kBool
			case token.GEQ:
				return "(decide (" + a + " ≥ " + b + "))", kBool
			}
		}
		if ak == kNat && bk == kNat && (x.Op == token.ADD || x.Op == token.SUB) {
			// uint64 arithmetic wraps modulo 2^64; `U64_Add` / `U64_Sub` say so
			if b, ok := info.TypeOf(x.X).Underlying().(*types.Basic); !ok || b.Kind() != types.Uint64 {
				t.fail(x, "unsigned arithmetic narrower than 64 bits")
			}
			return "(" + map[token.Token]string{token.ADD: "U64_Add", token.SUB: "U64_Sub"}[x.Op] + " " + a + " " + b + ")", kNat
		}
		if ak == kI64 && bk == kI64 && (x.Op == token.ADD || x.Op == token.SUB) {
			// int64 arithmetic wraps (two's complement); `I64_Add` / `I64_Sub` say so
			return "(" + map[token.Token]string{token.ADD: "I64_Add", token.SUB: "I64_Sub"}[x.Op] + " " + a + " " + b + ")", kI64
		}
		t.fail(x, "binary %s on machine values (fixed-width arithmetic is not translated)", x.Op)
	case *ast.CallExpr:
		if t.opaque && k != kOther && k != kErr && !t.knownCall(x) {
			// outside the library surface: a read of the environment (store, bank, coins, addresses)
			name := "read_" + sanitize(types.ExprString(x))
			return t.addParam(name, k, x), k
		}
		return t.call(x, out)
	}
	t.fail(e, "expression %T", e)
	return "", kOther
}

// knownCall: the callee is a library method / function of the tables, a conversion or a translated function
func (t *tr) knownCall(c *ast.CallExpr) bool {
	info := t.pkg.TypesInfo
	if id, ok := c.Fun.(*ast.Ident); ok && id.Name == "append" {
		return true
	}
	if tv, ok := info.Types[c.Fun]; ok && tv.IsType() {
		return true
	}
	switch f := c.Fun.(type) {
	case *ast.SelectorExpr:
		if sel := info.Selections[f]; sel != nil && sel.Kind() == types.MethodVal {
			_, ok := methods[recvKey(kindOf(info.TypeOf(f.X)))+"."+f.Sel.Name]
			return ok
		}
		if fn, ok := info.ObjectOf(f.Sel).(*types.Func); ok {
			if _, ok := t.knownGo[fn.FullName()]; ok {
				return true
			}
			_, ok := funcs[fn.FullName()]
			return ok
		}
	case *ast.Ident:
		if fn, ok := info.ObjectOf(f).(*types.Func); ok {
			_, ok := t.knownGo[fn.FullName()]
			return ok
		}
	}
	return false
}

// sigName: "name(p1,p2,…)" of a generated definition — the pinned lists carry the parameter names, so a fragment
// that starts reading a different variable (same type, same formula) differs there
func sigName(def string) string {
	d := def[strings.Index(def, "def "):]
	head := d[4:strings.Index(d, " : Option")]
	f := strings.Fields(head)
	name := f[0]
	var ps []string
	for _, m := range regexp.MustCompile(`\((\w+) : [^)]*\)`).FindAllStringSubmatch(head, -1) {
		ps = append(ps, m[1])
	}
	return name + "(" + strings.Join(ps, ",") + ")"
}

func sanitize(s string) string {
	var b strings.Builder
	for _, c := range s {
		switch {
		case c >= 'a' && c <= 'z', c >= 'A' && c <= 'Z', c >= '0' && c <= '9':
			b.WriteRune(c)
		case c == '.' || c == '(' || c == ',' || c == '[':
			b.WriteRune('_')
		}
	}
	return strings.Trim(b.String(), "_")
}

func recvKey(k kind) string {
	switch k {
	case kInt:
		return "Int"
	case kDec:
		return "Dec"
	case kBig:
		return "Big"
	case kCoin:
		return "Coin"
	case kCoins:
		return "Coins"
	}
	return ""
}

func isNewBig(e ast.Expr) bool {
	c, ok := e.(*ast.CallExpr)
	if !ok || len(c.Args) != 1 {
		return false
	}
	id, ok := c.Fun.(*ast.Ident)
	return ok && id.Name == "new" && types.ExprString(c.Args[0]) == "big.Int"
}

func (t *tr) call(c *ast.CallExpr, out *[]string) (string, kind) {
	info := t.pkg.TypesInfo
	if id, ok := c.Fun.(*ast.Ident); ok && id.Name == "append" && len(c.Args) == 2 && c.Ellipsis.IsValid() {
		if _, isBuiltin := info.ObjectOf(id).(*types.Builtin); isBuiltin {
			a, ak := t.expr(c.Args[0], out)
			b, bk := t.expr(c.Args[1], out)
			if ak == kBytes && bk == kBytes {
				return "(Bytes_append " + a + " " + b + ")", kBytes // the value of append(a, b...)
			}
			t.fail(c, "append on non-byte slices")
		}
	}
	// conversions int64(x), uint64(x), int(x)
	if tv, ok := info.Types[c.Fun]; ok && tv.IsType() && len(c.Args) == 1 {
		a, ak := t.expr(c.Args[0], out)
		to := kindOf(tv.Type)
		switch {
		case ak == to:
			return a, to
		case ak == kStr && to == kBytes:
			return "(Bytes_ofString " + a + ")", kBytes
		case ak == kNat && to == kI64:
			if b, ok := info.TypeOf(c.Args[0]).Underlying().(*types.Basic); ok && (b.Kind() == types.Uint64 || b.Kind() == types.Uint || b.Kind() == types.Uintptr) {
				return "(I64_wrap (" + a + " : Int))", kI64 // int64(uint64) wraps from 2^63
			}
			return "(" + a + " : Int)", kI64
		case ak == kI64 && to == kNat:
			if b, ok := tv.Type.Underlying().(*types.Basic); ok && b.Kind() == types.Uint32 {
				return "(U32_ofI64 " + a + ")", kNat // uint32(x) keeps the low 32 bits
			}
			return "(U64_ofI64 " + a + ")", kNat // uint64(int64) wraps below 0
		}
		t.fail(c, "conversion %s", types.ExprString(c))
	}
	argsC := func(list []ast.Expr, cast bool) []string {
		var r []string
		for _, a := range list {
			if id, ok := a.(*ast.Ident); ok && id.Name == "nil" {
				continue // modulus of big.Int.Exp
			}
			s, sk := t.expr(a, out)
			if sk == kNat && cast {
				s = "(" + s + " : Int)"
			}
			r = append(r, s)
		}
		return r
	}
	args := func(list []ast.Expr) []string { return argsC(list, true) }
	emit := func(m method, as []string) (string, kind) {
		app := m.lean
		if len(as) > 0 {
			app += " " + strings.Join(as, " ")
		}
		if m.fallible {
			v := t.fresh()
			*out = append(*out, fmt.Sprintf("let %s ← %s", v, app))
			return v, m.res
		}
		if len(as) == 0 {
			return app, m.res
		}
		return "(" + app + ")", m.res
	}
	switch f := c.Fun.(type) {
	case *ast.SelectorExpr:
		if sel := info.Selections[f]; sel != nil && sel.Kind() == types.MethodVal {
			rk := kindOf(info.TypeOf(f.X))
			key := recvKey(rk) + "." + f.Sel.Name
			m, ok := methods[key]
			if !ok {
				t.fail(c, "method %s", key)
			}
			if rk == kBig {
				// the result is stored in the receiver: only a fresh receiver is an expression
				if !isNewBig(f.X) {
					t.fail(c, "big.Int method with a live receiver used as a value (aliasing)")
				}
				if f.Sel.Name == "Exp" && (len(c.Args) != 3 || types.ExprString(c.Args[2]) != "nil") {
					t.fail(c, "modular Exp")
				}
				return emit(m, args(c.Args))
			}
			r, _ := t.expr(f.X, out)
			return emit(m, append([]string{r}, args(c.Args)...))
		}
		if fn, ok := info.ObjectOf(f.Sel).(*types.Func); ok {
			full := fn.FullName()
			if ln, ok := t.knownGo[full]; ok {
				return emit(method{ln, true, kindOf(info.TypeOf(c))}, argsC(c.Args, false))
			}
			if m, ok := funcs[full]; ok {
				if m.lean == "Uint64ToBigEndian" {
					return emit(m, argsC(c.Args, false))
				}
				return emit(m, args(c.Args))
			}
			if kindOf(info.TypeOf(c)) == kErr && (strings.HasPrefix(full, "fmt.") || strings.HasPrefix(full, "cosmossdk.io/errors.") || strings.HasPrefix(full, "errors.")) {
				return "false", kErr // a non-nil error; its text is not part of the model
			}
			t.fail(c, "call of %s", full)
		}
	case *ast.Ident:
		if fn, ok := info.ObjectOf(f).(*types.Func); ok {
			if ln, ok := t.knownGo[fn.FullName()]; ok {
				return emit(method{ln, true, kindOf(info.TypeOf(c))}, argsC(c.Args, false))
			}
			t.fail(c, "call of %s (not a translated function)", fn.FullName())
		}
	}
	t.fail(c, "call %s", types.ExprString(c.Fun))
	return "", kOther
}

func ind(n int) string { return strings.Repeat("  ", n) }

// stmts translates a statement list that must end in a return on every path
func (t *tr) stmts(list []ast.Stmt, depth int, results []kind, sb *strings.Builder) {
	if len(list) == 0 {
		panic(unsupported{"a path falls off the end without return"})
	}
	s, rest := list[0], list[1:]
	flush := func(lines []string) {
		for _, l := range lines {
			sb.WriteString(ind(depth) + l + "\n")
		}
	}
	bind := func(name string, val string, k kind) {
		if name == "_" {
			return
		}
		sb.WriteString(fmt.Sprintf("%slet %s : %s := %s\n", ind(depth), name, leanType(k), val))
		t.bound[name] = k
	}
	switch x := s.(type) {
	case *ast.AssignStmt:
		if ta, ok := x.Rhs[0].(*ast.TypeAssertExpr); ok && len(x.Lhs) == 2 && len(x.Rhs) == 1 {
			// v, ok := i.(T): the dynamic type is the one the caller passes (the parameter becomes a T)
			src, isId := ta.X.(*ast.Ident)
			k := kindOf(t.pkg.TypesInfo.TypeOf(ta.Type))
			if !isId || k == kOther {
				t.fail(x, "type assertion")
			}
			t.addParam(src.Name, k, ta.Type)
			bind(x.Lhs[0].(*ast.Ident).Name, src.Name, k)
			bind(x.Lhs[1].(*ast.Ident).Name, "true", kBool)
			t.stmts(rest, depth, results, sb)
			return
		}
		// key := make([]byte, 8); binary.BigEndian.PutUint64(key, n)  —  the buffer is the big-endian encoding of n
		if len(x.Lhs) == 1 && len(x.Rhs) == 1 && len(rest) > 0 {
			if id, ok := x.Lhs[0].(*ast.Ident); ok && types.ExprString(x.Rhs[0]) == "make([]byte, 8)" {
				if es, ok := rest[0].(*ast.ExprStmt); ok {
					if c, ok := es.X.(*ast.CallExpr); ok && types.ExprString(c.Fun) == "binary.BigEndian.PutUint64" && len(c.Args) == 2 && types.ExprString(c.Args[0]) == id.Name {
						var pre []string
						v, k := t.expr(c.Args[1], &pre)
						if k != kNat {
							t.fail(c, "PutUint64 of a value that is not a uint64")
						}
						flush(pre)
						bind(id.Name, "(Uint64ToBigEndian "+v+")", kBytes)
						t.stmts(rest[1:], depth, results, sb)
						return
					}
				}
			}
		}
		if len(x.Lhs) != len(x.Rhs) {
			t.fail(x, "tuple assignment")
		}
		for i := range x.Lhs {
			id, ok := x.Lhs[i].(*ast.Ident)
			if !ok {
				t.fail(x, "assignment to %s", types.ExprString(x.Lhs[i]))
			}
			// x = x.Op(a, b) on a big.Int: handled as the mutation it is
			if c, ok := x.Rhs[i].(*ast.CallExpr); ok {
				if v, k, ok := t.bigMutation(c, depth, sb); ok {
					if id.Name != v {
						t.fail(x, "big.Int result aliased to another variable")
					}
					_ = k
					continue
				}
			}
			var pre []string
			v, k := t.expr(x.Rhs[i], &pre)
			if k == kBig {
				if _, isId := x.Rhs[i].(*ast.Ident); isId {
					t.fail(x, "big.Int pointer copied (aliasing)")
				}
			}
			flush(pre)
			bind(id.Name, v, k)
		}
		t.stmts(rest, depth, results, sb)
	case *ast.ExprStmt:
		c, ok := x.X.(*ast.CallExpr)
		if !ok {
			t.fail(x, "expression statement")
		}
		if _, _, ok := t.bigMutation(c, depth, sb); !ok {
			t.fail(x, "expression statement %s", types.ExprString(c))
		}
		t.stmts(rest, depth, results, sb)
	case *ast.IfStmt:
		if x.Init != nil {
			// if err := f(); err != nil { … }
			as, ok := x.Init.(*ast.AssignStmt)
			if !ok || len(as.Lhs) != 1 || len(as.Rhs) != 1 {
				t.fail(x, "if-initialiser")
			}
			var pre []string
			v, k := t.expr(as.Rhs[0], &pre)
			flush(pre)
			bind(as.Lhs[0].(*ast.Ident).Name, v, k)
		}
		var pre []string
		cnd, _ := t.expr(x.Cond, &pre)
		flush(pre)
		sb.WriteString(fmt.Sprintf("%sif %s then do\n", ind(depth), cnd))
		saved := t.snapshot()
		t.stmts(x.Body.List, depth+2, results, sb)
		t.restore(saved)
		sb.WriteString(ind(depth) + "else do\n")
		switch el := x.Else.(type) {
		case nil:
			t.stmts(rest, depth+2, results, sb)
		case *ast.BlockStmt:
			if len(rest) > 0 {
				t.fail(x, "if/else followed by further statements")
			}
			t.stmts(el.List, depth+2, results, sb)
		default:
			t.fail(x, "else-if")
		}
	case *ast.ReturnStmt:
		if len(x.Results) != len(results) {
			t.fail(x, "naked return")
		}
		var pre, vals []string
		for _, r := range x.Results {
			v, _ := t.expr(r, &pre)
			vals = append(vals, v)
		}
		flush(pre)
		if len(vals) == 1 {
			sb.WriteString(fmt.Sprintf("%ssome %s\n", ind(depth), vals[0]))
		} else {
			sb.WriteString(fmt.Sprintf("%ssome (%s)\n", ind(depth), strings.Join(vals, ", ")))
		}
	case *ast.DeclStmt:
		t.fail(x, "declaration statement")
	default:
		t.fail(s, "statement %T", s)
	}
}

func (t *tr) snapshot() map[string]kind {
	m := map[string]kind{}
	for k, v := range t.bound {
		m[k] = v
	}
	return m
}
func (t *tr) restore(m map[string]kind) { t.bound = m }

// v.Op(a, b) with a local big.Int variable v as receiver: re-binds v
func (t *tr) bigMutation(c *ast.CallExpr, depth int, sb *strings.Builder) (string, kind, bool) {
	f, ok := c.Fun.(*ast.SelectorExpr)
	if !ok {
		return "", kOther, false
	}
	id, ok := f.X.(*ast.Ident)
	if !ok || kindOf(t.pkg.TypesInfo.TypeOf(id)) != kBig {
		return "", kOther, false
	}
	if _, isLocal := t.bound[id.Name]; !isLocal {
		t.fail(c, "mutation of a big.Int that is not local to the translated function")
	}
	m, ok := methods["Big."+f.Sel.Name]
	if !ok || m.res != kBig {
		return "", kOther, false
	}
	var pre, as []string
	for _, a := range c.Args {
		if types.ExprString(a) == "nil" {
			continue
		}
		s, sk := t.expr(a, &pre)
		if sk == kNat {
			s = "(" + s + " : Int)"
		}
		as = append(as, s)
	}
	for _, l := range pre {
		sb.WriteString(ind(depth) + l + "\n")
	}
	app := m.lean + " " + strings.Join(as, " ")
	if m.fallible {
		sb.WriteString(fmt.Sprintf("%slet %s ← %s\n", ind(depth), id.Name, app))
	} else {
		sb.WriteString(fmt.Sprintf("%slet %s : Int := %s\n", ind(depth), id.Name, app))
	}
	return id.Name, kBig, true
}

func findFunc(p *packages.Package, name string) *ast.FuncDecl {
	recv, fn := "", name
	if i := strings.Index(name, "."); i >= 0 {
		recv, fn = name[:i], name[i+1:]
	}
	for _, f := range p.Syntax {
		for _, d := range f.Decls {
			fd, ok := d.(*ast.FuncDecl)
			if !ok || fd.Name.Name != fn || fd.Body == nil {
				continue
			}
			r := ""
			if fd.Recv != nil && len(fd.Recv.List) == 1 {
				r = strings.TrimPrefix(types.ExprString(fd.Recv.List[0].Type), "*")
			}
			if r == recv {
				return fd
			}
		}
	}
	return nil
}

func sig(params []param) string {
	var sb strings.Builder
	for _, p := range params {
		fmt.Fprintf(&sb, " (%s : %s)", p.name, leanType(p.k))
	}
	return sb.String()
}

func resType(ks []kind) string {
	var ts []string
	for _, k := range ks {
		ts = append(ts, leanType(k))
	}
	return strings.Join(ts, " × ")
}

// whole function
func translateFunc(p *packages.Package, fd *ast.FuncDecl, lean string, knownGo map[string]string, opaque bool) (def string, err error) {
	t := &tr{pkg: p, opaque: opaque, pseen: map[string]bool{}, bound: map[string]kind{}, knownGo: knownGo}
	defer func() {
		if r := recover(); r != nil {
			if u, ok := r.(unsupported); ok {
				err = fmt.Errorf("%s", u.why)
				return
			}
			panic(r)
		}
	}()
	// declared parameters first, in order (the receiver's fields are flattened on use)
	for _, f := range fd.Type.Params.List {
		for _, n := range f.Names {
			k := kindOf(p.TypesInfo.TypeOf(f.Type))
			if k == kOther {
				continue // a struct: its fields are flattened where used
			}
			t.pseen[n.Name] = true
			t.params = append(t.params, param{n.Name, k})
		}
	}
	var results []kind
	if fd.Type.Results != nil {
		for _, f := range fd.Type.Results.List {
			n := len(f.Names)
			if n == 0 {
				n = 1
			}
			for i := 0; i < n; i++ {
				k := kindOf(p.TypesInfo.TypeOf(f.Type))
				if k == kOther {
					return "", fmt.Errorf("result type %s", types.ExprString(f.Type))
				}
				results = append(results, k)
			}
		}
	}
	var body strings.Builder
	t.stmts(fd.Body.List, 1, results, &body)
	return fmt.Sprintf("def %s%s : Option (%s) := do\n%s", lean, sig(t.params), resType(results), body.String()), nil
}

// fragment mode: the right-hand side of every assignment to one of the named locals, each as
// its own definition over the identifiers it mentions
func translateLocals(p *packages.Package, fd *ast.FuncDecl, tg target, knownGo map[string]string) (defs []string, errs []string) {
	// the definitions come out in SOURCE order across kinds (assignments, call arguments, guards, conditions), so that
	// the pinned list also fixes the order of a write relative to a read or a call
	var poss []token.Pos
	last := token.NoPos
	mark := func() {
		for len(poss) < len(defs) {
			poss = append(poss, last)
		}
	}
	defer func() {
		mark()
		idx := make([]int, len(defs))
		for i := range idx {
			idx[i] = i
		}
		sort.SliceStable(idx, func(a, b int) bool { return poss[idx[a]] < poss[idx[b]] })
		out := make([]string, len(defs))
		for i, j := range idx {
			out[i] = defs[j]
		}
		defs = out
	}()
	want := map[string]bool{}
	for _, l := range tg.Locals {
		want[l] = true
	}
	count := map[string]int{}
	ast.Inspect(fd.Body, func(n ast.Node) bool {
		if id, ok := n.(*ast.IncDecStmt); ok {
			// x++ / x-- is x = x ± 1
			tok := token.ADD_ASSIGN
			if id.Tok == token.DEC {
				tok = token.SUB_ASSIGN
			}
			n = &ast.AssignStmt{Lhs: []ast.Expr{id.X}, Tok: tok, TokPos: id.TokPos, Rhs: []ast.Expr{&ast.BasicLit{Kind: token.INT, Value: "1", ValuePos: id.TokPos}}}
		}
		as, ok := n.(*ast.AssignStmt)
		if !ok || len(as.Lhs) != len(as.Rhs) {
			return true
		}
		for i, l := range as.Lhs {
			lname := ""
			if id, ok := l.(*ast.Ident); ok {
				lname = id.Name
			} else {
				pt := &tr{pkg: p, pseen: map[string]bool{}, bound: map[string]kind{}}
				if pth, ok := pt.fieldPath(l); ok {
					lname = pth
				}
			}
			if lname == "" || !want[lname] {
				continue
			}
			id := struct{ Name string }{lname}
			mark()
			last = as.Pos()
			count[id.Name]++
			name := fmt.Sprintf("%s_%s_%d", tg.Lean, id.Name, count[id.Name])
			func() {
				t := &tr{pkg: p, opaque: true, pseen: map[string]bool{}, bound: map[string]kind{}, knownGo: knownGo}
				defer func() {
					if r := recover(); r != nil {
						if u, ok := r.(unsupported); ok {
							errs = append(errs, name+": "+u.why)
							return
						}
						panic(r)
					}
				}()
				var pre []string
				rhs := as.Rhs[i]
				switch as.Tok {
				case token.ASSIGN, token.DEFINE:
				case token.ADD_ASSIGN:
					rhs = &ast.BinaryExpr{X: as.Lhs[i], Op: token.ADD, Y: rhs, OpPos: as.TokPos} // x += e is x = x + e
				case token.SUB_ASSIGN:
					rhs = &ast.BinaryExpr{X: as.Lhs[i], Op: token.SUB, Y: rhs, OpPos: as.TokPos}
				default:
					t.fail(as, "assignment operator %s", as.Tok)
				}
				v, k := t.expr(rhs, &pre)
				var sb strings.Builder
				for _, l := range pre {
					sb.WriteString("  " + l + "\n")
				}
				sb.WriteString("  some " + v + "\n")
				defs = append(defs, fmt.Sprintf("def %s%s : Option (%s) := do\n%s", name, sig(t.params), leanType(k), sb.String()))
			}()
		}
		return true
	})
	if len(tg.Calls) > 0 {
		wantCall := map[string]bool{}
		for _, c := range tg.Calls {
			wantCall[c] = true
		}
		nth := map[string]int{}
		ast.Inspect(fd.Body, func(n ast.Node) bool {
			c, ok := n.(*ast.CallExpr)
			if !ok {
				return true
			}
			sel, ok := c.Fun.(*ast.SelectorExpr)
			if !ok || !wantCall[sel.Sel.Name] {
				return true
			}
			nth[sel.Sel.Name]++
			mark()
			last = c.Pos()
			for ai, a := range c.Args {
				k := kindOf(p.TypesInfo.TypeOf(a))
				if k == kOther || k == kErr || k == kBytes {
					continue // contexts, ids, addresses
				}
				name := fmt.Sprintf("%s_call_%s_%d_arg%d", tg.Lean, sel.Sel.Name, nth[sel.Sel.Name], ai)
				func() {
					t := &tr{pkg: p, opaque: true, pseen: map[string]bool{}, bound: map[string]kind{}, knownGo: knownGo}
					defer func() {
						if r := recover(); r != nil {
							if u, ok := r.(unsupported); ok {
								errs = append(errs, name+": "+u.why)
								return
							}
							panic(r)
						}
					}()
					var pre []string
					v, vk := t.expr(a, &pre)
					var sb strings.Builder
					for _, l := range pre {
						sb.WriteString("  " + l + "\n")
					}
					sb.WriteString("  some " + v + "\n")
					defs = append(defs, fmt.Sprintf("/-- argument %d of `%s` -/\ndef %s%s : Option (%s) := do\n%s", ai, types.ExprString(c.Fun), name, sig(t.params), leanType(vk), sb.String()))
				}()
			}
			return true
		})
	}
	if tg.Guards || tg.Conds {
		g := 0
		var ifs []*ast.IfStmt
		ast.Inspect(fd.Body, func(n ast.Node) bool {
			if is, ok := n.(*ast.IfStmt); ok {
				ifs = append(ifs, is)
			}
			return true
		})
		for _, is := range ifs {
			if (is.Else != nil && !tg.Conds) || len(is.Body.List) == 0 {
				continue
			}
			isGuard := false
			if ret, ok := is.Body.List[len(is.Body.List)-1].(*ast.ReturnStmt); ok && len(ret.Results) > 0 {
				last := ret.Results[len(ret.Results)-1]
				isGuard = kindOf(p.TypesInfo.TypeOf(last)) == kErr && types.ExprString(last) != "nil"
			}
			if !isGuard && !tg.Conds {
				continue
			}
			if c := types.ExprString(is.Cond); c == "err != nil" || (strings.HasPrefix(c, "!") && !strings.ContainsAny(c, "(. ")) {
				continue // outcome of a lookup or of address parsing: not arithmetic
			}
			mark()
			last = is.Pos()
			func() {
				t := &tr{pkg: p, opaque: true, pseen: map[string]bool{}, bound: map[string]kind{}, knownGo: knownGo}
				defer func() {
					if r := recover(); r != nil {
						if _, ok := r.(unsupported); ok {
							return // a guard over values outside the substrate (lookups, address parsing): not arithmetic
						}
						panic(r)
					}
				}()
				var pre []string
				v, _ := t.expr(is.Cond, &pre)
				g++
				name := fmt.Sprintf("%s_guard_%d", tg.Lean, g)
				if !isGuard {
					name = fmt.Sprintf("%s_cond_%d", tg.Lean, g)
				}
				var sb strings.Builder
				for _, l := range pre {
					sb.WriteString("  " + l + "\n")
				}
				sb.WriteString("  some " + v + "\n")
				doc := "rejects when true"
				if !isGuard {
					doc = "branch condition"
				}
				defs = append(defs, fmt.Sprintf("/-- "+doc+": `%s` -/\ndef %s%s : Option (Bool) := do\n%s", types.ExprString(is.Cond), name, sig(t.params), sb.String()))
			}()
		}
	}
	for _, l := range tg.Locals {
		if count[l] == 0 {
			errs = append(errs, fmt.Sprintf("%s: no assignment to %s in %s", tg.Lean, l, tg.Func))
		}
	}
	return
}

func main() {
	outDir := "/verif/lean/Irismod/Gen"
	if len(os.Args) > 1 {
		outDir = os.Args[1]
	}
	repo := os.Getenv("VERIF_REPO")
	if repo == "" {
		repo = "/repo"
	}
	loaded := map[string][]*packages.Package{}
	load := func(mod string) []*packages.Package {
		if ps, ok := loaded[mod]; ok {
			return ps
		}
		cfg := &packages.Config{Mode: packages.NeedName | packages.NeedFiles | packages.NeedCompiledGoFiles | packages.NeedSyntax | packages.NeedTypes | packages.NeedTypesInfo | packages.NeedImports,
			Dir: filepath.Join(repo, "modules", mod), Env: append(os.Environ(), "GOFLAGS=-mod=mod", "GOPROXY=off", "GOSUMDB=off", "GOTOOLCHAIN=local")}
		ps, err := packages.Load(cfg, "./...")
		if err != nil {
			fmt.Fprintln(os.Stderr, "x_pure: load", mod, err)
			os.Exit(3)
		}
		loaded[mod] = ps
		return ps
	}
	groups := []string{}
	seenG := map[string]bool{}
	for _, tg := range targets {
		if !seenG[tg.Group] {
			seenG[tg.Group] = true
			groups = append(groups, tg.Group)
		}
	}
	for _, g := range groups {
		writeGroup(g, filepath.Join(outDir, "Pure"+g+".lean"), load)
	}
}

// guardCensus: every rejecting guard of a target function — an `if` whose body ends in the return of a non-nil error —
// as "<Lean name>: [init; ]condition" in source order, whether or not its condition is inside the substrate. The
// pinned copy in Props/Tie_<Group>.lean makes the removal, weakening or reordering of any of them a broken obligation.
func guardCensus(p *packages.Package, fd *ast.FuncDecl, lean string) (out []string) {
	src := func(n ast.Node) string {
		var b strings.Builder
		printer.Fprint(&b, p.Fset, n)
		return strings.Join(strings.Fields(b.String()), " ")
	}
	// the statement in front of an `if`: the call whose error an `err != nil` guard inspects
	prev := map[*ast.IfStmt]ast.Stmt{}
	note := func(l []ast.Stmt) {
		for i, st := range l {
			if is, ok := st.(*ast.IfStmt); ok && i > 0 {
				prev[is] = l[i-1]
			}
		}
	}
	ast.Inspect(fd.Body, func(n ast.Node) bool {
		switch b := n.(type) {
		case *ast.BlockStmt:
			note(b.List)
		case *ast.CaseClause:
			note(b.Body)
		}
		return true
	})
	ast.Inspect(fd.Body, func(n ast.Node) bool {
		is, ok := n.(*ast.IfStmt)
		if !ok || len(is.Body.List) == 0 {
			return true
		}
		rejects := false
		switch l := is.Body.List[len(is.Body.List)-1].(type) {
		case *ast.ReturnStmt:
			if len(l.Results) > 0 {
				e := l.Results[len(l.Results)-1]
				rejects = kindOf(p.TypesInfo.TypeOf(e)) == kErr && types.ExprString(e) != "nil"
			}
		case *ast.ExprStmt:
			if c, ok := l.X.(*ast.CallExpr); ok {
				if id, ok := c.Fun.(*ast.Ident); ok && id.Name == "panic" {
					rejects = true
				}
			}
		}
		if !rejects {
			return true
		}
		e := lean + ": "
		if is.Init != nil {
			e += src(is.Init) + "; "
		} else if as, ok := prev[is].(*ast.AssignStmt); ok && strings.Contains(src(is.Cond), "err") {
			e += src(as) + "; "
		}
		out = append(out, e+src(is.Cond))
		return true
	})
	return
}

// effectCensus: every statement of a target function that is executed for its effect — a call whose result is dropped
// (store and bank writes, queue moves, hooks; events and log lines are left out) and every assignment to a field of a
// record — as "<Lean name>: d<nesting depth> <source text>" in source order. The nesting depth is the number of
// enclosing blocks below the function body, so a write that moves into or out of a branch or a loop differs.
func effectCensus(p *packages.Package, fd *ast.FuncDecl, lean string) (out []string) {
	src := func(n ast.Node) string {
		var b strings.Builder
		printer.Fprint(&b, p.Fset, n)
		return strings.Join(strings.Fields(b.String()), " ")
	}
	depth := 0
	var stack []ast.Node
	ast.Inspect(fd.Body, func(n ast.Node) bool {
		if n == nil {
			if _, ok := stack[len(stack)-1].(*ast.BlockStmt); ok {
				depth--
			}
			stack = stack[:len(stack)-1]
			return true
		}
		stack = append(stack, n)
		add := func(n ast.Node) {
			out = append(out, fmt.Sprintf("%s: d%d %s", lean, depth-1, src(n)))
		}
		switch x := n.(type) {
		case *ast.BlockStmt:
			depth++
		case *ast.ExprStmt:
			if c, ok := x.X.(*ast.CallExpr); ok {
				t := src(c.Fun)
				if !strings.Contains(t, "EmitEvent") && !strings.Contains(t, "Logger") && t != "panic" {
					add(x)
				}
			}
		case *ast.AssignStmt:
			for _, l := range x.Lhs {
				if _, ok := l.(*ast.SelectorExpr); ok {
					add(x)
					break
				}
			}
		case *ast.IncDecStmt:
			if _, ok := x.X.(*ast.SelectorExpr); ok {
				add(x)
			}
		}
		return true
	})
	return
}

func writeGroup(group, outLean string, load func(string) []*packages.Package) {
	var defs, untranslated, names, guards, effects []string
	knownGo := map[string]string{}
	for _, tg := range targets {
		if tg.Group != group {
			continue
		}
		var pkg *packages.Package
		for _, p := range load(tg.Mod) {
			if strings.HasSuffix(p.PkgPath, "/modules/"+tg.Mod+"/"+tg.Pkg) || (tg.Pkg == "" && strings.HasSuffix(p.PkgPath, "/modules/"+tg.Mod)) {
				pkg = p
			}
		}
		if pkg == nil {
			untranslated = append(untranslated, tg.Lean+": package "+tg.Mod+"/"+tg.Pkg+" not found")
			continue
		}
		fd := findFunc(pkg, tg.Func)
		if fd == nil {
			untranslated = append(untranslated, tg.Lean+": function "+tg.Func+" not found in "+tg.Mod+"/"+tg.Pkg)
			continue
		}
		guards = append(guards, guardCensus(pkg, fd, tg.Lean)...)
		effects = append(effects, effectCensus(pkg, fd, tg.Lean)...)
		if tg.Census {
			continue
		}
		if len(tg.Locals) > 0 || tg.Guards || tg.Conds || len(tg.Calls) > 0 {
			ds, es := translateLocals(pkg, fd, tg, knownGo)
			defs = append(defs, ds...)
			untranslated = append(untranslated, es...)
			for _, d := range ds {
				names = append(names, sigName(d))
			}
			continue
		}
		d, err := translateFunc(pkg, fd, tg.Lean, knownGo, tg.Opaque)
		if err != nil {
			untranslated = append(untranslated, tg.Lean+": "+err.Error())
			continue
		}
		defs = append(defs, d)
		names = append(names, sigName(d))
		if obj, ok := pkg.TypesInfo.Defs[fd.Name].(*types.Func); ok {
			knownGo[obj.FullName()] = tg.Lean
		}
	}
	sort.Strings(untranslated)
	var sb strings.Builder
	sb.WriteString("/- REGENERATED on every run by extract/x_pure from /repo's working tree. Do not edit. -/\nimport Irismod.Sdk.GoSem\nnamespace Irismod.Gen.Pure" + group + "\nopen Irismod.Sdk Irismod.GoSem\n\n")
	for _, d := range defs {
		sb.WriteString(d + "\n")
	}
	sb.WriteString("/-- targets the translator refused, with the reason (must be empty) -/\ndef untranslated : List String := [")
	for i, u := range untranslated {
		if i > 0 {
			sb.WriteString(", ")
		}
		sb.WriteString(leanStr(u))
	}
	sb.WriteString("]\n\n/-- names of the translated definitions -/\ndef translated : List String := [")
	for i, n := range names {
		if i > 0 {
			sb.WriteString(", ")
		}
		sb.WriteString(leanStr(n))
	}
	sb.WriteString("]\n\n/-- every rejecting guard of the translated functions, in source order -/\ndef guards : List String := [")
	for i, n := range guards {
		if i > 0 {
			sb.WriteString(", ")
		}
		sb.WriteString(leanStr(n))
	}
	sb.WriteString("]\n\n/-- every statement of the translated functions executed for its effect, with its nesting depth, in source order -/\ndef effects : List String := [")
	for i, n := range effects {
		if i > 0 {
			sb.WriteString(", ")
		}
		sb.WriteString(leanStr(n))
	}
	sb.WriteString("]\n\nend Irismod.Gen.Pure" + group + "\n")
	if err := os.WriteFile(outLean, []byte(sb.String()), 0o644); err != nil {
		fmt.Fprintln(os.Stderr, err)
		os.Exit(3)
	}
	fmt.Printf("x_pure %s: %d definitions, %d untranslated\n", group, len(names), len(untranslated))
	for _, u := range untranslated {
		fmt.Println("  untranslated:", u)
	}
}
