// Package record drives the real record module (message router + keeper + query server) for C19.
package record

import (
	"bytes"
	"context"
	"encoding/hex"
	"fmt"
	"sort"
	"strconv"
	"strings"
	"time"

	storetypes "cosmossdk.io/store/types"
	sdk "github.com/cosmos/cosmos-sdk/types"

	recordmod "mods.irisnet.org/modules/record"
	recordtypes "mods.irisnet.org/modules/record/types"

	"verifharness/hx"
)

const nAcc = 4

type R struct {
	env *hx.Env
	Len int // operations per history (the last one is query_all)
	// Genesis makes Gen emit `record export` / `record reimport` now and then (C12 runs only: the
	// histories of every other check are generated without it and stay what they were)
	Genesis bool

	// generator-only memory of the current history (never read by Exec)
	ids   []string
	txs   []string
	msgs  []string
	count int
	pend  []string // lines the generator emits next (after a ghost transaction: a query of the id it would get, then the same transaction for real)
}

// New needs only the environment (it is also registered in mods/all); NewLen additionally
// makes the generator end every history of histLen operations with query_all.
func New(env *hx.Env) *R { return &R{env: env} }

func NewLen(env *hx.Env, histLen int) *R { return &R{env: env, Len: histLen} }

// State is the full canonical projection of the module state: counter, number of records and
// the whole record store in key order.
func (r *R) State(ctx sdk.Context) string { return r.counts(ctx) + " recs=" + r.dump(ctx) }

func (r *R) Module() string { return "record" }

func (r *R) ResetLine(*hx.Rng) string {
	var t []string
	for i := 0; i < nAcc; i++ {
		t = append(t, hx.AccName(i)+":"+hx.Acc(i).String())
	}
	return "record reset addrs=" + strings.Join(t, ",")
}

func (r *R) Reset(ctx sdk.Context, _ string) (sdk.Context, string) {
	r.ids, r.txs, r.msgs, r.count = nil, nil, nil, 0
	return ctx, "ok " + r.counts(ctx)
}

func (r *R) addr(sym string) string {
	if strings.HasPrefix(sym, "A") {
		if i, err := strconv.Atoi(sym[1:]); err == nil {
			return hx.Acc(i).String()
		}
	}
	if strings.HasPrefix(sym, "X") {
		b, err := hex.DecodeString(sym[1:])
		if err != nil {
			hx.Fail("bad creator %q", sym)
		}
		return string(b)
	}
	hx.Fail("bad creator %q", sym)
	return ""
}

func (r *R) store(ctx sdk.Context) storetypes.KVStore {
	return ctx.KVStore(r.env.App.GetKey(recordtypes.StoreKey))
}

// counts: the persistent counter and the number of keys under the record prefix.
func (r *R) counts(ctx sdk.Context) string {
	it := r.env.Record.RecordsIterator(ctx)
	defer it.Close()
	n := 0
	for ; it.Valid(); it.Next() {
		n++
	}
	return fmt.Sprintf("ctr=%d n=%d", r.env.Record.GetIntraTxCounter(ctx), n)
}

func hexs(s string) string { return hex.EncodeToString([]byte(s)) }

func showRec(rec recordtypes.Record) string {
	var cs []string
	for _, c := range rec.Contents {
		cs = append(cs, hexs(c.Digest)+"~"+hexs(c.DigestAlgo)+"~"+hexs(c.URI)+"~"+hexs(c.Meta))
	}
	return rec.TxHash + "|" + rec.Creator + "|" + strings.Join(cs, ",")
}

// dump lists the whole record store in key order; every key is also re-read through
// GetRecord and through the gRPC query server and must agree with the iterator's value.
func (r *R) dump(ctx sdk.Context) string {
	it := r.env.Record.RecordsIterator(ctx)
	defer it.Close()
	var es []string
	for ; it.Valid(); it.Next() {
		var rec recordtypes.Record
		recordtypes.ModuleCdc.MustUnmarshal(it.Value(), &rec)
		id := it.Key()[1:]
		e := hex.EncodeToString(id) + "=" + showRec(rec)
		got, found := r.env.Record.GetRecord(ctx, id)
		resp, err := r.env.Record.Record(ctx, &recordtypes.QueryRecordRequest{RecordId: hex.EncodeToString(id)})
		if !found || showRec(got) != showRec(rec) || err != nil || resp.Record == nil || showRec(*resp.Record) != showRec(rec) {
			e += "!requery-differs"
		}
		es = append(es, e)
	}
	sort.Strings(es)
	if len(es) == 0 {
		return "-"
	}
	return strings.Join(es, ";")
}

var digests = []string{"d0", "d1", "QmYwAPJzv5CZsnA625s3Xf2nemtYgPpHdWEz79ojWnPbdG", "ab", "z"}
var algos = []string{"sha256", "md5", "x"}
var uris = []string{"", "", "ipfs://a", "https://example.org/x"}
var metas = []string{"", "", "m", "meta data"}

func genContent(g *hx.Rng) string {
	d := digests[g.Intn(len(digests))]
	a := algos[g.Intn(len(algos))]
	if g.Chance(1, 12) {
		d = hex.EncodeToString(g.Bytes(1 + g.Intn(40)))
	}
	if g.Chance(1, 40) {
		d = ""
	}
	if g.Chance(1, 40) {
		a = ""
	}
	if g.Chance(1, 60) { // long field: 2-byte length varint
		d = strings.Repeat("q", 120+g.Intn(300))
	}
	return hexs(d) + "~" + hexs(a) + "~" + hexs(uris[g.Intn(len(uris))]) + "~" + hexs(metas[g.Intn(len(metas))])
}

func (r *R) genMsg(g *hx.Rng) string {
	if len(r.msgs) > 0 && g.Chance(2, 5) { // a byte-identical message again
		return r.msgs[g.Intn(len(r.msgs))]
	}
	who := hx.AccName(g.Intn(nAcc))
	bad := false
	if g.Chance(1, 30) {
		who = "X" + hexs([]string{"", "bad", "cosmos1qqqq", hx.Acc(0).String() + "x"}[g.Intn(4)])
		bad = true
	}
	n := 1 + g.Intn(3)
	if g.Chance(1, 30) {
		n = 0
		bad = true
	}
	if g.Chance(1, 50) {
		n = 20
	}
	var cs []string
	for i := 0; i < n; i++ {
		cs = append(cs, genContent(g))
	}
	m := who + ":" + strings.Join(cs, ",")
	if !bad || g.Chance(1, 10) {
		r.msgs = append(r.msgs, m)
	}
	return m
}

func (r *R) Gen(ctx sdk.Context, g *hx.Rng) string {
	r.count++
	if r.Len > 0 && r.count >= r.Len {
		return "record query_all"
	}
	if len(r.pend) > 0 {
		l := r.pend[0]
		r.pend = r.pend[1:]
		return l
	}
	// genesis round trip inside the history (C12): the exported document, and a re-import after
	// which the rest of the history runs on the imported store (no draw at all without the flag)
	if r.Genesis && r.hasRecords(ctx) {
		if g.Chance(1, 12) {
			return "record export"
		}
		if g.Chance(1, 12) {
			return "record reimport"
		}
	}
	switch g.Pick(12, 4, 1, 1, 2) {
	case 0:
		var tx string
		if len(r.txs) > 0 && g.Chance(1, 3) { // the same transaction bytes again (same tx hash)
			tx = r.txs[g.Intn(len(r.txs))]
		} else {
			tx = hex.EncodeToString(g.Bytes(g.Intn(48)))
			r.txs = append(r.txs, tx)
		}
		n := 1 + g.Intn(3)
		if g.Chance(1, 10) {
			n = 5 + g.Intn(30)
		}
		var ms []string
		first := r.genMsg(g)
		ms = append(ms, first)
		for i := 1; i < n; i++ {
			if g.Chance(1, 2) { // identical records inside one transaction
				ms = append(ms, first)
			} else {
				ms = append(ms, r.genMsg(g))
			}
		}
		if g.Chance(1, 12) {
			// large twins: records of one creator in one transaction whose encodings agree on their first kilobyte
			// or two (a long first content) and differ only behind it, or not at all — ids are hashes of the WHOLE
			// record plus the counter, whatever its size
			who := hx.AccName(g.Intn(nAcc))
			long := hexs("d1") + "~" + hexs("sha256") + "~" + hexs("ipfs://a") + "~" + hexs(strings.Repeat("m", []int{1000, 1024, 1100, 2100, 4200}[g.Intn(5)]))
			ms = nil
			for i := 0; i < 2+g.Intn(2); i++ {
				tail := genContent(g)
				if g.Chance(1, 3) {
					tail = hexs("d0") + "~" + hexs("md5") + "~~"
				}
				ms = append(ms, who+":"+long+","+tail)
			}
		}
		if g.Chance(1, 8) {
			// the transaction executed on a context that is thrown away (a simulation, a CheckTx, a node one block
			// behind): nothing it does may be visible afterwards. The generator then reads the id it would get and
			// sends the same transaction for real.
			return "record ghost_tx tx=" + hx.Dash(tx) + " msgs=" + strings.Join(ms, ";")
		}
		return "record tx tx=" + hx.Dash(tx) + " msgs=" + strings.Join(ms, ";")
	case 1:
		if len(r.ids) > 0 {
			return "record query id=" + r.ids[g.Intn(len(r.ids))]
		}
		return "record query id=" + hex.EncodeToString(g.Bytes(32))
	case 2:
		if len(r.ids) > 0 && g.Chance(1, 2) { // a neighbour of a known id
			b, _ := hex.DecodeString(r.ids[g.Intn(len(r.ids))])
			b[g.Intn(len(b))] ^= 1 << uint(g.Intn(8))
			return "record query id=" + hex.EncodeToString(b)
		}
		return "record query id=" + hex.EncodeToString(g.Bytes([]int{0, 1, 31, 32, 33}[g.Intn(5)]))
	case 3:
		return "record query_all"
	default:
		return "record next_block"
	}
}

func (r *R) hasRecords(ctx sdk.Context) bool {
	it := r.env.Record.RecordsIterator(ctx)
	defer it.Close()
	return it.Valid()
}

// storeIds lists the ids (hex) under the record prefix in key order.
func (r *R) storeIds(ctx sdk.Context) []string {
	it := r.env.Record.RecordsIterator(ctx)
	defer it.Close()
	var ids []string
	for ; it.Valid(); it.Next() {
		ids = append(ids, hex.EncodeToString(it.Key()[1:]))
	}
	return ids
}

// genesisRecs renders the records of the real genesis document in the document's own order.
func genesisRecs(gs *recordtypes.GenesisState) string {
	var es []string
	for _, rec := range gs.Records {
		es = append(es, showRec(rec))
	}
	if len(es) == 0 {
		return "-"
	}
	return strings.Join(es, ";")
}

func parseContent(s string) recordtypes.Content {
	p := strings.Split(s, "~")
	if len(p) != 4 {
		hx.Fail("bad content %q", s)
	}
	var f [4]string
	for i := range p {
		b, err := hex.DecodeString(p[i])
		if err != nil {
			hx.Fail("bad content %q", s)
		}
		f[i] = string(b)
	}
	return recordtypes.Content{Digest: f[0], DigestAlgo: f[1], URI: f[2], Meta: f[3]}
}

type blocker interface{ BeginBlock(context.Context) error }
type ender interface{ EndBlock(context.Context) error }

func (r *R) Exec(ctx sdk.Context, line string) (sdk.Context, string) {
	f := strings.Fields(line)
	a := hx.Args(f[2:])
	switch f[1] {
	case "tx", "ghost_tx":
		ghost := f[1] == "ghost_tx"
		txb, err := hex.DecodeString(hx.Undash(a["tx"]))
		if err != nil {
			hx.Fail("bad tx bytes %q", line)
		}
		var msgs []*recordtypes.MsgCreateRecord
		if a["msgs"] != "" {
			for _, m := range strings.Split(a["msgs"], ";") {
				p := strings.SplitN(m, ":", 2)
				if len(p) != 2 {
					hx.Fail("bad msg %q", m)
				}
				var cs []recordtypes.Content
				if p[1] != "" {
					for _, c := range strings.Split(p[1], ",") {
						cs = append(cs, parseContent(c))
					}
				}
				msgs = append(msgs, &recordtypes.MsgCreateRecord{Contents: cs, Creator: r.addr(p[0])})
			}
		}
		// one transaction: all messages on one cached context carrying the tx bytes, written only
		// if every message succeeds (ValidateBasic of every message first, as baseapp does)
		class := hx.OK
		var ids []string
		if len(msgs) == 0 {
			class = hx.Rej
		}
		for _, m := range msgs {
			if err := m.ValidateBasic(); err != nil {
				class = hx.Rej
			}
		}
		if class == hx.OK {
			cctx, write := ctx.WithTxBytes(txb).CacheContext()
			for _, m := range msgs {
				out := r.env.Deliver(cctx, m)
				if out.Class != hx.OK {
					class = out.Class
					break
				}
				var resp recordtypes.MsgCreateRecordResponse
				if len(out.Raw.MsgResponses) != 1 || resp.Unmarshal(out.Raw.MsgResponses[0].Value) != nil {
					hx.Fail("no response for %q", line)
				}
				ids = append(ids, resp.Id)
			}
			if class == hx.OK && !ghost {
				write()
			} else if class != hx.OK {
				ids = nil
			}
		}
		if ghost {
			if len(ids) > 0 {
				r.pend = []string{"record query id=" + ids[len(ids)-1], "record tx " + strings.Join(f[2:], " "), "record query id=" + ids[len(ids)-1]}
			}
			return ctx, class + " " + r.counts(ctx) + " ghost=" + hx.Dash(strings.Join(ids, ";"))
		}
		var es []string
		for _, id := range ids {
			b, _ := hex.DecodeString(id)
			rec, _ := r.env.Record.GetRecord(ctx, b)
			es = append(es, id+"="+showRec(rec))
		}
		r.ids = append(r.ids, ids...)
		return ctx, class + " " + r.counts(ctx) + " new=" + hx.Dash(strings.Join(es, ";"))
	case "query":
		id := a["id"]
		resp, err := r.env.Record.Record(ctx, &recordtypes.QueryRecordRequest{RecordId: id})
		if err != nil || resp.Record == nil {
			return ctx, "rej " + r.counts(ctx)
		}
		b, _ := hex.DecodeString(id)
		_, found := r.env.Record.GetRecord(ctx, b)
		return ctx, fmt.Sprintf("ok %s found=%t rec=%s", r.counts(ctx), found, showRec(*resp.Record))
	case "query_all":
		return ctx, "ok " + r.counts(ctx) + " recs=" + r.dump(ctx)
	case "export":
		// the record module has no begin/end-block logic: every state is a block-boundary state
		gs := recordmod.ExportGenesis(ctx, r.env.Record)
		v := "ok"
		if p, _ := hx.NoPanic(func() {
			if err := recordtypes.ValidateGenesis(*gs); err != nil {
				v = "err"
			}
		}); p {
			v = "panic"
		}
		return ctx, fmt.Sprintf("ok %s validate=%s grecs=%s", r.counts(ctx), v, genesisRecs(gs))
	case "reimport":
		// real export, wipe every key of the module store (records and the counter key), real
		// InitGenesis on the empty store; the rest of the history runs on the imported store
		before := r.State(ctx)
		gs := recordmod.ExportGenesis(ctx, r.env.Record)
		class, _ := hx.Try(ctx, func(c sdk.Context) error {
			st := r.store(c)
			it := storetypes.KVStorePrefixIterator(st, nil)
			var keys [][]byte
			for ; it.Valid(); it.Next() {
				keys = append(keys, bytes.Clone(it.Key()))
			}
			it.Close()
			for _, k := range keys {
				st.Delete(k)
			}
			recordmod.InitGenesis(c, r.env.Record, *gs)
			return nil
		})
		same := 0
		if before == r.State(ctx) {
			same = 1
		}
		// generator memory only: the ids of the imported store, plus every other id handed out
		// before the import (later `query` ops probe ids that may now be unknown — F-gen-3)
		var mem []string
		for i, id := range r.ids {
			if i%2 == 0 {
				mem = append(mem, id)
			}
		}
		r.ids = append(mem, r.storeIds(ctx)...)
		return ctx, fmt.Sprintf("%s %s same=%d recs=%s", class, r.counts(ctx), same, r.dump(ctx))
	case "next_block":
		ctx = hx.WithBlock(ctx, ctx.BlockHeight()+1, ctx.BlockTime().Add(5*time.Second))
		m := r.env.App.ModuleManager.Modules[recordtypes.ModuleName]
		class := hx.OK
		if p, _ := hx.NoPanic(func() {
			if b, ok := m.(blocker); ok {
				_ = b.BeginBlock(ctx)
			}
			if e, ok := m.(ender); ok {
				_ = e.EndBlock(ctx)
			}
		}); p {
			class = hx.Panic
		}
		return ctx, class + " " + r.counts(ctx) + " -"
	}
	hx.Fail("unknown op %q", line)
	return ctx, ""
}
