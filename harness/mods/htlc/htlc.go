// Package htlc drives the real HTLC module (message router, keeper, BeginBlocker) for C03/C04
// (and the HTLC slice of C13).
package htlc

import (
	"crypto/sha256"
	"encoding/binary"
	"encoding/hex"
	"fmt"
	"os"
	"sort"
	"strconv"
	"strings"
	"time"

	sdkmath "cosmossdk.io/math"
	storetypes "cosmossdk.io/store/types"
	tmbytes "github.com/cometbft/cometbft/libs/bytes"
	sdk "github.com/cosmos/cosmos-sdk/types"

	htlcmod "mods.irisnet.org/modules/htlc"
	htlctypes "mods.irisnet.org/modules/htlc/types"

	"verifharness/hx"
)

const nAcc = 6 // A0..A3 users, A4/A5 deputies (any of them may act as anything)

type R struct {
	env   *hx.Env
	names map[string]string // bech32 -> symbolic
	addrs map[string]sdk.AccAddress
	key   storetypes.StoreKey
	g     *hx.Rng        // per-history generator stream (see ResetLine)
	Stats map[string]int // finer histogram than op/result (appended to <out>.stats by the command)
	// Genesis makes Gen emit `htlc export` / `htlc reimport` now and then (C12 runs only: the
	// C03/C04/C13 histories stay what they were)
	Genesis bool
}

func New(env *hx.Env) *R {
	r := &R{env: env, names: map[string]string{}, addrs: map[string]sdk.AccAddress{}, Stats: map[string]int{}}
	for i := 0; i < nAcc; i++ {
		r.addrs[hx.AccName(i)] = hx.Acc(i)
	}
	r.addrs["M"] = hx.Mod(htlctypes.ModuleName)
	r.addrs["F"] = hx.Mod("fee_collector")
	r.addrs["G"] = hx.Mod("gov")
	for n, a := range r.addrs {
		r.names[a.String()] = n
	}
	r.key = env.App.GetKey(htlctypes.StoreKey)
	if r.key == nil {
		hx.Fail("no htlc store key")
	}
	return r
}

func (r *R) Module() string { return "htlc" }

func (r *R) sym(bech string) string {
	if s, ok := r.names[bech]; ok {
		return s
	}
	return bech
}

func (r *R) addr(sym string) sdk.AccAddress {
	if a, ok := r.addrs[sym]; ok {
		return a
	}
	if strings.HasPrefix(sym, "A") {
		if i, err := strconv.Atoi(sym[1:]); err == nil {
			return hx.Acc(i)
		}
	}
	hx.Fail("unknown account %q", sym)
	return nil
}

// ---------------------------------------------------------------- line encodings

type coin struct {
	d string
	n sdkmath.Int
}

func parseCoins(s string) sdk.Coins {
	if s == "-" {
		return sdk.Coins{}
	}
	var cs sdk.Coins
	for _, e := range strings.Split(s, ";") {
		p := strings.Split(e, "*")
		if len(p) != 2 {
			hx.Fail("bad coins %q", s)
		}
		cs = append(cs, sdk.Coin{Denom: p[0], Amount: hx.MustInt(p[1])})
	}
	return cs
}

func showCoins(cs sdk.Coins) string {
	if len(cs) == 0 {
		return "-"
	}
	var p []string
	for _, c := range cs {
		p = append(p, c.Denom+"*"+c.Amount.String())
	}
	return strings.Join(p, ";")
}

func b01(b bool) string {
	if b {
		return "1"
	}
	return "0"
}

func (r *R) showAsset(a htlctypes.AssetParam) string {
	return fmt.Sprintf("%s:%s:%s:%d:%s:%s:%s:%s:%s:%s:%d:%d", a.Denom, a.SupplyLimit.Limit, b01(a.SupplyLimit.TimeLimited),
		int64(a.SupplyLimit.TimePeriod), a.SupplyLimit.TimeBasedLimit, b01(a.Active), r.sym(a.DeputyAddress),
		a.FixedFee, a.MinSwapAmount, a.MaxSwapAmount, a.MinBlockLock, a.MaxBlockLock)
}

func (r *R) showAssets(as []htlctypes.AssetParam) string {
	if len(as) == 0 {
		return "-"
	}
	var p []string
	for _, a := range as {
		p = append(p, r.showAsset(a))
	}
	return strings.Join(p, ",")
}

func (r *R) parseAssets(s string) []htlctypes.AssetParam {
	var out []htlctypes.AssetParam
	if s == "-" {
		return []htlctypes.AssetParam{}
	}
	for _, e := range strings.Split(s, ",") {
		p := strings.Split(e, ":")
		if len(p) != 12 {
			hx.Fail("bad asset %q", e)
		}
		per, err := strconv.ParseInt(p[3], 10, 64)
		if err != nil {
			hx.Fail("bad period %q", e)
		}
		mn, _ := strconv.ParseUint(p[10], 10, 64)
		mx, _ := strconv.ParseUint(p[11], 10, 64)
		out = append(out, htlctypes.AssetParam{
			Denom: p[0],
			SupplyLimit: htlctypes.SupplyLimit{Limit: hx.MustInt(p[1]), TimeLimited: p[2] == "1",
				TimePeriod: time.Duration(per), TimeBasedLimit: hx.MustInt(p[4])},
			Active: p[5] == "1", DeputyAddress: r.addr(p[6]).String(), FixedFee: hx.MustInt(p[7]),
			MinSwapAmount: hx.MustInt(p[8]), MaxSwapAmount: hx.MustInt(p[9]), MinBlockLock: mn, MaxBlockLock: mx,
		})
	}
	return out
}

// ---------------------------------------------------------------- observation

func stateLetter(s htlctypes.HTLCState) string {
	switch s {
	case htlctypes.Open:
		return "o"
	case htlctypes.Completed:
		return "c"
	case htlctypes.Refunded:
		return "r"
	}
	return "?"
}

func dirLetter(d htlctypes.SwapDirection) string {
	switch d {
	case htlctypes.None:
		return "n"
	case htlctypes.Incoming:
		return "i"
	case htlctypes.Outgoing:
		return "o"
	}
	return "?"
}

type queueEntry struct {
	h  uint64
	id string
}

func (r *R) queue(ctx sdk.Context) []queueEntry {
	store := ctx.KVStore(r.key)
	it := storetypes.KVStorePrefixIterator(store, htlctypes.HTLCExpiredQueueKey)
	defer it.Close()
	var out []queueEntry
	for ; it.Valid(); it.Next() {
		k := it.Key()
		out = append(out, queueEntry{binary.BigEndian.Uint64(k[1:9]), hex.EncodeToString(k[9:])})
	}
	return out
}

func (r *R) htlcs(ctx sdk.Context) []htlctypes.HTLC {
	var out []htlctypes.HTLC
	r.env.HTLC.IterateHTLCs(ctx, func(_ tmbytes.HexBytes, h htlctypes.HTLC) bool {
		out = append(out, h)
		return false
	})
	return out
}

func dashS(s string) string {
	if s == "" {
		return "-"
	}
	return s
}

func join(xs []string) string {
	if len(xs) == 0 {
		return "-"
	}
	sort.Strings(xs)
	return strings.Join(xs, ",")
}

// State is the canonical projection of the module state the observation lines carry (hx.Stater).
// GhostChance: now and then an operation is executed on a context that is thrown away (hx.Ghoster).
func (r *R) GhostChance() (int, int) { return 1, 14 }

func (r *R) State(ctx sdk.Context) string { return r.state(ctx) }

// Continuation implements hx.Continuer: one begin block at every future height at which an open
// contract of ctx expires (ascending), so that every pending refund falls due.
func (r *R) Continuation(ctx sdk.Context) []string {
	seen := map[uint64]bool{}
	var hs []uint64
	for _, h := range r.htlcs(ctx) {
		if h.State == htlctypes.Open && int64(h.ExpirationHeight) > ctx.BlockHeight() && !seen[h.ExpirationHeight] {
			seen[h.ExpirationHeight] = true
			hs = append(hs, h.ExpirationHeight)
		}
	}
	sort.Slice(hs, func(i, j int) bool { return hs[i] < hs[j] })
	var out []string
	for _, e := range hs {
		t := ctx.BlockTime().Add(time.Duration(int64(e)-ctx.BlockHeight()) * 5 * time.Second)
		out = append(out, "htlc begin_block "+hx.KV("h", e, "t", t.UnixNano()))
	}
	return out
}

// GenesisState is the part of the projection that must survive an export/import round trip
// (hx.GenesisStater): ExportGenesis keeps only OPEN contracts by design, so closed contracts are
// left out, as are the block header and the bank slice (x/bank's own genesis).  The expiry queue
// is derived data (InitGenesis rebuilds it from the contracts' expiration heights, which stay in
// `htlcs=`; PrepForZeroHeightGenesis rewrites those heights but not the queue keys), and its
// consistency with the contracts is C13's business: it is not part of this projection.
func (r *R) GenesisState(ctx sdk.Context) string {
	prev, params, hs, _, ss := r.moduleParts(ctx, true)
	return fmt.Sprintf("prev=%s params=%s htlcs=%s sup=%s", prev, params, join(hs), join(ss))
}

// moduleParts renders the five tables of the module store (openOnly: only open contracts and their entries).
func (r *R) moduleParts(ctx sdk.Context, openOnly bool) (prev, params string, hs, qs, ss []string) {
	k := r.env.HTLC
	prev = "-"
	if t, ok := k.GetPreviousBlockTime(ctx); ok {
		prev = strconv.FormatInt(t.UnixNano(), 10)
	}
	isOpen := map[string]bool{}
	for _, h := range r.htlcs(ctx) {
		if h.State == htlctypes.Open {
			isOpen[strings.ToLower(h.Id)] = true
		} else if openOnly {
			continue
		}
		hs = append(hs, fmt.Sprintf("%s:%s:%s:%s:%s:%s:%d:%d:%s:%d:%s:%s", strings.ToLower(h.Id), r.sym(h.Sender), r.sym(h.To),
			showCoins(h.Amount), strings.ToLower(h.HashLock), dashS(strings.ToLower(h.Secret)), h.Timestamp, h.ExpirationHeight,
			stateLetter(h.State), h.ClosedBlock, b01(h.Transfer), dirLetter(h.Direction)))
	}
	for _, q := range r.queue(ctx) {
		if openOnly && !isOpen[q.id] {
			continue
		}
		qs = append(qs, fmt.Sprintf("%d/%s", q.h, q.id))
	}
	for _, s := range k.GetAllAssetSupplies(ctx) {
		ss = append(ss, fmt.Sprintf("%s:%s:%s:%s:%s:%d", s.CurrentSupply.Denom, s.IncomingSupply.Amount, s.OutgoingSupply.Amount,
			s.CurrentSupply.Amount, s.TimeLimitedCurrentSupply.Amount, int64(s.TimeElapsed)))
	}
	return prev, r.showAssets(k.GetParams(ctx).AssetParams), hs, qs, ss
}

// state renders the module state and the bank slice, canonically.
func (r *R) state(ctx sdk.Context) string {
	prev, params, hs, qs, ss := r.moduleParts(ctx, false)
	var bs, us []string
	accs := []string{"M"}
	for i := 0; i < nAcc; i++ {
		accs = append(accs, hx.AccName(i))
	}
	for _, a := range accs {
		for _, c := range r.env.App.BankKeeper.GetAllBalances(ctx, r.addr(a)) {
			if !c.Amount.IsZero() {
				bs = append(bs, fmt.Sprintf("%s/%s:%s", a, c.Denom, c.Amount))
			}
		}
	}
	r.env.App.BankKeeper.IterateTotalSupply(ctx, func(c sdk.Coin) bool {
		if strings.HasPrefix(c.Denom, "htlt") && !c.Amount.IsZero() {
			us = append(us, fmt.Sprintf("%s:%s", c.Denom, c.Amount))
		}
		return false
	})
	return fmt.Sprintf("h=%d t=%d prev=%s params=%s htlcs=%s queue=%s sup=%s bals=%s bsup=%s",
		ctx.BlockHeight(), ctx.BlockTime().UnixNano(), prev, params,
		join(hs), join(qs), join(ss), join(bs), join(us))
}

// genesisView is the part of the observation an export/import round trip must preserve: the
// module tables restricted to OPEN contracts (ExportGenesis drops closed ones by design) with their
// queue entries, the supplies, the parameters, the previous block time, and the bank slice.
func (r *R) genesisView(ctx sdk.Context) string {
	prev, params, hs, qs, ss := r.moduleParts(ctx, true)
	full := r.state(ctx)
	i := strings.Index(full, " bals=")
	return fmt.Sprintf("prev=%s params=%s htlcs=%s queue=%s sup=%s%s", prev, params, join(hs), join(qs), join(ss), full[i:])
}

// genesisLine renders the real exported genesis document canonically (contracts and supplies as
// sorted sets; the document lists them in store order).
func (r *R) genesisLine(gs *htlctypes.GenesisState) string {
	var hs, ss []string
	for _, h := range gs.Htlcs {
		hs = append(hs, fmt.Sprintf("%s:%s:%s:%s:%s:%s:%d:%d:%s:%d:%s:%s", strings.ToLower(h.Id), r.sym(h.Sender), r.sym(h.To),
			showCoins(h.Amount), strings.ToLower(h.HashLock), dashS(strings.ToLower(h.Secret)), h.Timestamp, h.ExpirationHeight,
			stateLetter(h.State), h.ClosedBlock, b01(h.Transfer), dirLetter(h.Direction)))
	}
	for _, s := range gs.Supplies {
		ss = append(ss, fmt.Sprintf("%s:%s:%s:%s:%s:%d", s.CurrentSupply.Denom, s.IncomingSupply.Amount, s.OutgoingSupply.Amount,
			s.CurrentSupply.Amount, s.TimeLimitedCurrentSupply.Amount, int64(s.TimeElapsed)))
	}
	return fmt.Sprintf("gprev=%d gparams=%s ghtlcs=%s gsup=%s", gs.PreviousBlockTime.UnixNano(), r.showAssets(gs.Params.AssetParams), join(hs), join(ss))
}

// genesisStats records which interesting shapes the exported states have (histogram only): an asset
// whose current supply exceeds half its limit, open outgoing transfers, and both at once with
// current + outgoing above the limit (legal: only incoming + current is bounded by the limit).
func (r *R) genesisStats(ctx sdk.Context, op string) {
	k := r.env.HTLC
	for _, s := range k.GetAllAssetSupplies(ctx) {
		a, err := k.GetAsset(ctx, s.CurrentSupply.Denom)
		if err != nil {
			r.Stats["x."+op+".state.supply-without-asset"]++
			continue
		}
		lim := a.SupplyLimit.Limit
		tl := "untimed"
		if a.SupplyLimit.TimeLimited {
			tl = "timed"
		}
		if s.CurrentSupply.Amount.MulRaw(2).GT(lim) {
			r.Stats["x."+op+".state.current-over-half."+tl]++
		}
		if s.OutgoingSupply.Amount.IsPositive() {
			r.Stats["x."+op+".state.open-outgoing."+tl]++
		}
		if s.IncomingSupply.Amount.IsPositive() {
			r.Stats["x."+op+".state.open-incoming."+tl]++
		}
		if s.OutgoingSupply.Amount.IsPositive() && s.OutgoingSupply.Amount.Add(s.CurrentSupply.Amount).GT(lim) {
			r.Stats["x."+op+".state.current+outgoing-over-limit."+tl]++
		}
	}
}

// GenesisDoc renders the module's real exported genesis canonically (the rendering of `htlc export`);
// h_genesis prints it next to a failed import so that the Lean model can be asked whether ITS
// InitGenesis refuses the same document (class F-gen-5 only then).
func (r *R) GenesisDoc(ctx sdk.Context) string {
	return r.genesisLine(htlcmod.ExportGenesis(ctx, r.env.HTLC))
}

// panicSlug classifies the panic message of a failed InitGenesis (histogram only).
func panicSlug(info string) string {
	switch {
	case strings.Contains(info, "asset not found"), strings.Contains(info, htlctypes.ErrAssetNotSupported.Error()):
		return "asset-not-found"
	case strings.Contains(info, "inactive"), strings.Contains(info, htlctypes.ErrAssetNotActive.Error()):
		return "asset-inactive"
	case strings.Contains(info, "over the supply limit"):
		return "over-limit"
	case strings.Contains(info, "does not match"):
		return "supply-mismatch"
	}
	return "other"
}

// ---------------------------------------------------------------- reset

const baseTime = int64(1700000000) * 1000000000

var assetDenoms = []string{"htltaaa", "htltbbb", "htltccc"}
var plainDenoms = []string{"stake", "uatom"}

func (r *R) genAsset(g *hx.Rng, denom string, deputy string) string {
	limit := []int64{1000, 500, 100, 1000000}[g.Intn(4)]
	tl := g.Chance(3, 5)
	period := []int64{30, 120, 5, 0, 3600}[g.Intn(5)] * 1000000000
	tbl := []int64{limit / 2, limit, 60, limit / 10}[g.Intn(4)]
	if tbl > limit && g.Chance(9, 10) {
		tbl = limit
	}
	fee := []int64{0, 1, 10}[g.Intn(3)]
	mn := []int64{1, 5, 20}[g.Intn(3)]
	mx := []int64{limit, 200, 50, 1000000000}[g.Intn(4)]
	if mx < mn && g.Chance(9, 10) {
		mx = mn
	}
	locks := [][2]int64{{50, 34560}, {50, 50}, {60, 100}, {50, 34560}, {34560, 34560}}[g.Intn(5)]
	active := !g.Chance(1, 12)
	if g.Chance(1, 40) {
		locks = [2]int64{49, 100} // invalid
	}
	if g.Chance(1, 40) {
		mn = 0 // invalid
	}
	return fmt.Sprintf("%s:%d:%s:%d:%d:%s:%s:%d:%d:%d:%d:%d", denom, limit, b01(tl), period, tbl, b01(active), deputy, fee, mn, mx, locks[0], locks[1])
}

func (r *R) genParams(g *hx.Rng) string {
	n := g.Pick(1, 3, 8, 3)
	if n == 0 {
		return "-"
	}
	var as []string
	for i := 0; i < n; i++ {
		dep := []string{"A4", "A5", "A4"}[i]
		if g.Chance(1, 10) {
			dep = hx.AccName(g.Intn(nAcc))
		}
		d := assetDenoms[i]
		if g.Chance(1, 60) {
			d = []string{"htlt1", "abcdefg", assetDenoms[0]}[g.Intn(3)] // invalid or duplicate
		}
		as = append(as, r.genAsset(g, d, dep))
	}
	return strings.Join(as, ",")
}

// ResetLine starts a history.  hx seeds history i with seed+i, and the splitmix streams of
// adjacent seeds are shifts of one another; the history's own stream is therefore re-seeded from a
// SHA-256 of the first draw so that histories are independent (still a function of the seed only).
func (r *R) ResetLine(g0 *hx.Rng) string {
	d := sha256.Sum256([]byte(fmt.Sprintf("verif-htlc-history-%d", g0.U64())))
	r.g = hx.NewRng(binary.BigEndian.Uint64(d[:8]))
	g := r.g
	var bs []string
	for i := 0; i < 4; i++ {
		for _, d := range plainDenoms {
			if g.Chance(5, 6) {
				var amt sdkmath.Int
				switch g.Pick(6, 2, 1) {
				case 0:
					amt = sdkmath.NewInt(g.Range(1, 2000))
				case 1:
					amt = g.Amount(100)
				default:
					amt = sdkmath.NewInt(1)
				}
				bs = append(bs, fmt.Sprintf("A%d/%s:%s", i, d, amt))
			}
		}
		if g.Chance(1, 6) { // asset coins that entered the chain outside the module
			bs = append(bs, fmt.Sprintf("A%d/%s:%d", i, assetDenoms[g.Intn(2)], g.Range(1, 300)))
		}
	}
	b := "-"
	if len(bs) > 0 {
		b = strings.Join(bs, ",")
	}
	return "htlc reset " + hx.KV("h", g.Range(1, 100), "t", baseTime+g.Range(0, 1000)*1000000000, "params", r.genParams(g), "bals", b)
}

func (r *R) Reset(ctx sdk.Context, line string) (sdk.Context, string) {
	a := hx.Args(strings.Fields(line)[2:])
	h, _ := strconv.ParseInt(a["h"], 10, 64)
	t, _ := strconv.ParseInt(a["t"], 10, 64)
	ctx = hx.WithBlock(ctx, h, time.Unix(0, t).UTC())
	if a["bals"] != "-" {
		for _, e := range strings.Split(a["bals"], ",") {
			kv := strings.Split(e, ":")
			ad := strings.Split(kv[0], "/")
			r.env.Fund(ctx, r.addr(ad[0]), sdk.NewCoins(sdk.NewCoin(ad[1], hx.MustInt(kv[1]))))
		}
	}
	k := r.env.HTLC
	// invalid params are refused by SetParams: nothing stored
	_ = k.SetParams(ctx, htlctypes.Params{AssetParams: r.parseAssets(a["params"])})
	k.SetPreviousBlockTime(ctx, ctx.BlockTime())
	return ctx, "ok " + r.state(ctx)
}

// ---------------------------------------------------------------- generator

func secretN(k int) []byte {
	s := sha256.Sum256([]byte(fmt.Sprintf("verif-secret-%d", k)))
	return s[:]
}

const nSecrets = 12

// secretFor finds the secret index behind a stored hash lock (the generator only uses secretN).
func secretFor(h htlctypes.HTLC) int {
	for k := 0; k < nSecrets; k++ {
		if strings.EqualFold(hex.EncodeToString(htlctypes.GetHashLock(secretN(k), h.Timestamp)), h.HashLock) {
			return k
		}
	}
	return -1
}

// clampMostly brings an amount into [lo,hi] nine times out of ten (the rest probes the bounds).
func clampMostly(g *hx.Rng, v, lo, hi int64) int64 {
	if g.Chance(1, 10) {
		return v
	}
	if v > hi {
		v = hi
	}
	if v < lo {
		v = lo
	}
	return v
}

func around(g *hx.Rng, v int64) int64 {
	x := v + g.Range(-1, 1)
	if x < 0 {
		x = 0
	}
	return x
}

func (r *R) Gen(ctx sdk.Context, g *hx.Rng) string {
	if r.g != nil {
		g = r.g
	}
	if r.Genesis && g.Chance(1, 9) {
		// C12: the genesis round trip inside the history; the operations that follow a `reimport`
		// run on the re-imported state (rebuilt queue, restored supplies and previous block time)
		if g.Chance(2, 5) {
			return "htlc export"
		}
		return "htlc reimport"
	}
	k := r.env.HTLC
	all := r.htlcs(ctx)
	var open []htlctypes.HTLC
	for _, h := range all {
		if h.State == htlctypes.Open {
			open = append(open, h)
		}
	}
	assets := k.GetParams(ctx).AssetParams
	now := ctx.BlockTime().Unix()
	height := ctx.BlockHeight()
	acc := func() string { return hx.AccName(g.Intn(nAcc)) }
	user := func() string { return hx.AccName(g.Intn(4)) }
	timeLock := func(lo, hi int64) int64 {
		// pile contracts onto an expiry bucket that already exists
		if len(open) > 0 && g.Chance(1, 2) {
			tl := int64(open[g.Intn(len(open))].ExpirationHeight) - height
			if tl >= lo && tl <= hi {
				return tl
			}
		}
		switch g.Pick(40, 3, 2, 1, 1) {
		case 0:
			top := lo + 8
			if top > hi {
				top = hi
			}
			return g.Range(lo, top)
		case 1:
			return hi
		case 2:
			return g.Range(lo, hi)
		case 3:
			return lo - 1
		default:
			return hi + 1
		}
	}
	tsNear := func() int64 {
		switch g.Pick(30, 1, 1, 1, 1, 1) {
		case 0:
			return now + g.Range(-800, 1700)
		case 1:
			return now - 900
		case 2:
			return now - 901
		case 3:
			return now + 1799
		case 4:
			return now + 1800
		default:
			return 0
		}
	}
	lockOf := func(ks int, ts int64) string {
		return hex.EncodeToString(htlctypes.GetHashLock(secretN(ks), uint64(ts)))
	}
	create := func(sender, to string, coins string, lock string, ts, tl int64, transfer bool) string {
		if g.Chance(1, 12) || (to == "M" && g.Chance(1, 2)) {
			to += "^" // the recipient in its upper-case bech32 spelling: another valid spelling of the same address
		}
		return "htlc create " + hx.KV("sender", sender, "to", to, "coins", coins, "lock", lock, "ts", ts, "tl", tl, "transfer", b01(transfer))
	}
	if r.Genesis && g.Chance(1, 5) {
		// C12: steer towards the states whose export exercises the supply assertions of InitGenesis:
		// current supply above half the limit (claimed incoming transfers) together with open outgoing
		// transfers, so that current + outgoing exceeds the limit (legal) at export time
		if l := r.genGoal(ctx, g, open, create, lockOf); l != "" {
			return l
		}
	}
	kind := g.Pick(7, 6, 6, 14, 7, 2, 6, 2, 2)
	if len(assets) == 0 && (kind == 1 || kind == 2) {
		kind = 0
	}
	if len(open) == 0 && kind == 3 && g.Chance(3, 4) {
		kind = g.Pick(2, 1, 1)
		if len(assets) == 0 {
			kind = 0
		}
	}
	if kind == 1 || kind == 2 { // supply records are created by the first block after the asset was added
		for _, a := range assets {
			if _, ok := k.GetAssetSupply(ctx, a.Denom); !ok && g.Chance(9, 10) {
				kind = 4
			}
		}
	}
	if kind == 2 { // an outgoing transfer needs available current supply: build it up first
		any := false
		for _, a := range assets {
			if sup, ok := k.GetAssetSupply(ctx, a.Denom); ok && sup.CurrentSupply.Amount.GT(sup.OutgoingSupply.Amount) {
				any = true
			}
		}
		if !any && g.Chance(4, 5) {
			kind = 1
		}
	}
	switch kind {
	case 0: // plain contract
		if len(all) > 0 && g.Chance(1, 12) { // duplicate id
			h := all[g.Intn(len(all))]
			return create(r.sym(h.Sender), r.sym(h.To), showCoins(h.Amount), strings.ToLower(h.HashLock), int64(h.Timestamp)+g.Range(0, 1), timeLock(50, 34560), g.Chance(1, 5))
		}
		sender := user()
		for i := 0; i < nAcc; i++ { // prefer an account that holds something
			if !r.env.App.BankKeeper.GetAllBalances(ctx, r.addr(sender)).IsZero() {
				break
			}
			sender = hx.AccName(i)
		}
		if g.Chance(1, 12) {
			sender = acc()
		}
		to := acc()
		switch g.Pick(20, 1, 1, 1) {
		case 1:
			to = "M"
		case 2:
			to = "F"
		case 3:
			to = sender
		}
		bals := r.env.App.BankKeeper.GetAllBalances(ctx, r.addr(sender))
		var cs []string
		pick := func(d string, bal sdkmath.Int) {
			var amt sdkmath.Int
			switch g.Pick(12, 3, 1, 2, 1) {
			case 0:
				if bal.IsPositive() && bal.IsInt64() {
					amt = sdkmath.NewInt(g.Range(1, bal.Int64()))
				} else {
					amt = sdkmath.NewInt(g.Range(1, 50))
				}
			case 1:
				amt = bal
			case 2:
				amt = bal.AddRaw(1)
			case 3:
				amt = bal.SubRaw(1)
				if amt.IsNegative() {
					amt = sdkmath.ZeroInt()
				}
			default:
				amt = sdkmath.ZeroInt()
			}
			if g.Chance(9, 10) && amt.IsZero() {
				amt = sdkmath.OneInt()
			}
			cs = append(cs, d+"*"+amt.String())
		}
		denoms := []string{}
		for _, c := range bals {
			denoms = append(denoms, c.Denom)
		}
		if len(denoms) == 0 || g.Chance(1, 15) {
			denoms = append(denoms, plainDenoms[g.Intn(2)])
			sort.Strings(denoms)
		}
		for _, d := range denoms {
			if g.Chance(3, 5) || len(cs) == 0 && d == denoms[len(denoms)-1] {
				pick(d, bals.AmountOf(d))
			}
		}
		if g.Chance(1, 30) && len(cs) >= 2 {
			cs[0], cs[1] = cs[1], cs[0] // unsorted
		}
		if g.Chance(1, 40) {
			cs = append(cs, cs[len(cs)-1]) // duplicate denom
		}
		coins := strings.Join(cs, ";")
		if g.Chance(1, 40) {
			coins = "-"
		}
		ts := tsNear()
		if g.Chance(1, 4) {
			ts = g.Range(0, 2000000000)
		}
		lock := lockOf(g.Intn(nSecrets), ts)
		if g.Chance(1, 30) {
			lock = lock[:62]
		} else if g.Chance(1, 30) {
			lock = "g" + lock[1:]
		}
		return create(sender, to, coins, lock, ts, timeLock(50, 34560), false)
	case 1: // incoming cross-chain transfer (deputy -> user)
		a := assets[g.Intn(len(assets))]
		for i := 0; i < 3 && !a.Active && g.Chance(9, 10); i++ { // mostly an active asset
			a = assets[g.Intn(len(assets))]
		}
		sender := r.sym(a.DeputyAddress)
		if g.Chance(1, 20) {
			sender = acc()
		}
		to := user()
		switch g.Pick(24, 1, 1, 1) {
		case 1:
			to = sender
		case 2:
			to = "M"
		case 3:
			to = acc()
		}
		sup, _ := k.GetAssetSupply(ctx, a.Denom)
		room := a.SupplyLimit.Limit.Int64()
		if !sup.CurrentSupply.Amount.IsNil() {
			room -= sup.CurrentSupply.Amount.Int64() + sup.IncomingSupply.Amount.Int64()
		}
		tlRoom := a.SupplyLimit.TimeBasedLimit.Int64()
		if !sup.TimeLimitedCurrentSupply.Amount.IsNil() {
			tlRoom -= sup.TimeLimitedCurrentSupply.Amount.Int64() + sup.IncomingSupply.Amount.Int64()
		}
		if (room <= 0 || a.SupplyLimit.TimeLimited && tlRoom <= 0) && g.Chance(2, 3) {
			// no room left: let the window elapse (or just move on) instead of probing the full limit again
			return "htlc begin_block " + hx.KV("h", height+1, "t", ctx.BlockTime().UnixNano()+int64(a.SupplyLimit.TimePeriod)+g.Range(-1, 1)*1000000000)
		}
		var amt int64
		switch g.Pick(14, 3, 3, 2, 2) {
		case 0:
			hi := room
			if hi > 120 {
				hi = 120
			}
			amt = g.Range(1, hi)
		case 1:
			amt = around(g, room)
		case 2:
			amt = around(g, tlRoom)
		case 3:
			amt = around(g, a.MinSwapAmount.Int64())
		default:
			amt = around(g, a.MaxSwapAmount.Int64())
		}
		amt = clampMostly(g, amt, a.MinSwapAmount.Int64(), a.MaxSwapAmount.Int64())
		d := a.Denom
		if g.Chance(1, 30) {
			d = "stake"
		}
		ts := tsNear()
		return create(sender, to, fmt.Sprintf("%s*%d", d, amt), lockOf(g.Intn(nSecrets), ts), ts, timeLock(50, 34560), true)
	case 2: // outgoing cross-chain transfer (user -> deputy)
		a := assets[g.Intn(len(assets))]
		for i := 0; i < 4; i++ { // prefer an active asset with available supply
			if sup, ok := k.GetAssetSupply(ctx, a.Denom); ok && sup.CurrentSupply.Amount.GT(sup.OutgoingSupply.Amount) && (a.Active || g.Chance(1, 10)) {
				break
			}
			a = assets[g.Intn(len(assets))]
		}
		sender := user()
		// prefer a holder of the asset
		for i := 0; i < nAcc; i++ {
			if r.env.Bal(ctx, r.addr(sender), a.Denom).IsPositive() {
				break
			}
			sender = hx.AccName(i)
		}
		to := r.sym(a.DeputyAddress)
		if g.Chance(1, 12) {
			to = acc()
		}
		bal := r.env.Bal(ctx, r.addr(sender), a.Denom).Int64()
		sup, _ := k.GetAssetSupply(ctx, a.Denom)
		avail := int64(0)
		if !sup.CurrentSupply.Amount.IsNil() {
			avail = sup.CurrentSupply.Amount.Int64() - sup.OutgoingSupply.Amount.Int64()
		}
		var amt int64
		switch g.Pick(10, 3, 3, 2, 1) {
		case 0:
			amt = g.Range(1, bal)
		case 1:
			amt = around(g, bal)
		case 2:
			amt = around(g, avail)
		case 3:
			amt = around(g, a.FixedFee.Int64()+a.MinSwapAmount.Int64())
		default:
			amt = around(g, a.MaxSwapAmount.Int64())
		}
		amt = clampMostly(g, amt, a.MinSwapAmount.Int64()+a.FixedFee.Int64(), a.MaxSwapAmount.Int64())
		ts := tsNear()
		return create(sender, to, fmt.Sprintf("%s*%d", a.Denom, amt), lockOf(g.Intn(nSecrets), ts), ts,
			timeLock(int64(a.MinBlockLock), int64(a.MaxBlockLock)), true)
	case 3: // claim
		if len(all) == 0 {
			return "htlc claim " + hx.KV("sender", acc(), "id", hex.EncodeToString(g.Bytes(32)), "secret", hex.EncodeToString(secretN(0)))
		}
		var h htlctypes.HTLC
		if len(open) > 0 && g.Chance(5, 6) {
			h = open[g.Intn(len(open))]
			// prefer the contract that expires next
			if g.Chance(1, 3) {
				for _, o := range open {
					if o.ExpirationHeight < h.ExpirationHeight {
						h = o
					}
				}
			}
		} else {
			h = all[g.Intn(len(all))]
		}
		id := strings.ToLower(h.Id)
		ks := secretFor(h)
		secret := hex.EncodeToString(secretN(g.Intn(nSecrets)))
		if ks >= 0 && g.Chance(3, 4) {
			secret = hex.EncodeToString(secretN(ks))
		}
		switch g.Pick(30, 1, 1, 1) {
		case 1:
			id = hex.EncodeToString(g.Bytes(32)) // unknown id
		case 2:
			secret = secret[:60] // malformed
		case 3:
			id = id[:62]
		}
		return "htlc claim " + hx.KV("sender", acc(), "id", id, "secret", secret)
	case 4: // next block
		dt := []int64{0, 1, 1000000000, 5000000000, 31000000000, 60000000000, 7200000000000}[g.Intn(7)]
		return "htlc begin_block " + hx.KV("h", height+1, "t", ctx.BlockTime().UnixNano()+dt)
	case 5: // a few blocks
		return "htlc advance " + hx.KV("n", g.Range(0, 6), "dt", []int64{1, 1000000000, 7000000000}[g.Intn(3)])
	case 6: // up to (around) the next expiration
		if len(open) == 0 {
			return "htlc begin_block " + hx.KV("h", height+1, "t", ctx.BlockTime().UnixNano()+1000000000)
		}
		next := open[0].ExpirationHeight
		for _, o := range open {
			if o.ExpirationHeight < next {
				next = o.ExpirationHeight
			}
		}
		if g.Chance(1, 5) {
			next = open[g.Intn(len(open))].ExpirationHeight
		}
		n := int64(next) - height + g.Range(-2, 1)
		if n < 0 {
			n = 0
		}
		if n > 2000 && !g.Chance(1, 4) {
			return "htlc begin_block " + hx.KV("h", height+1, "t", ctx.BlockTime().UnixNano()+2000000000)
		}
		dt := int64(1000000000)
		if n > 1000 {
			dt = 10000000 // keep HTLT timestamps of later creations in range
		}
		return "htlc advance " + hx.KV("n", n, "dt", dt)
	case 7: // parameter change
		auth := "G"
		if g.Chance(1, 6) {
			auth = acc()
		}
		cur := k.GetParams(ctx).AssetParams
		if len(cur) == 0 || g.Chance(1, 4) {
			return "htlc set_params " + hx.KV("authority", auth, "params", r.genParams(g))
		}
		// perturb one field of one asset
		i := g.Intn(len(cur))
		a := cur[i]
		switch g.Intn(7) {
		case 0:
			a.SupplyLimit.Limit = sdkmath.NewInt(g.Range(0, 600))
			if a.SupplyLimit.TimeBasedLimit.GT(a.SupplyLimit.Limit) && g.Chance(4, 5) {
				a.SupplyLimit.TimeBasedLimit = a.SupplyLimit.Limit
			}
		case 1:
			a.SupplyLimit.TimeLimited = !a.SupplyLimit.TimeLimited
		case 2:
			a.SupplyLimit.TimePeriod = time.Duration(g.Range(0, 100)) * time.Second
		case 3:
			a.DeputyAddress = r.addr(acc()).String()
		case 4:
			a.Active = !a.Active
		case 5:
			a.SupplyLimit.TimeBasedLimit = sdkmath.NewInt(g.Range(0, a.SupplyLimit.Limit.Int64()+1))
		default:
			a.FixedFee = sdkmath.NewInt(g.Range(0, 20))
		}
		cur[i] = a
		if g.Chance(1, 8) && len(cur) > 1 {
			cur = append(cur[:i], cur[i+1:]...)
		}
		return "htlc set_params " + hx.KV("authority", auth, "params", r.showAssets(cur))
	default: // claim racing with expiry: advance exactly to expiration-1 / expiration of a contract
		if len(open) == 0 {
			return "htlc advance " + hx.KV("n", 1, "dt", 1)
		}
		h := open[g.Intn(len(open))]
		n := int64(h.ExpirationHeight) - height - g.Range(0, 1)
		if n < 0 {
			n = 0
		}
		if n > 2000 && !g.Chance(1, 4) {
			n = g.Range(1, 3)
		}
		dt := int64(1000000000)
		if n > 1000 {
			dt = 10000000
		}
		return "htlc advance " + hx.KV("n", n, "dt", dt)
	}
}

// genGoal draws one goal-directed operation for the C12 histories (see Gen); "" = nothing applicable.
func (r *R) genGoal(ctx sdk.Context, g *hx.Rng, open []htlctypes.HTLC,
	create func(sender, to, coins, lock string, ts, tl int64, transfer bool) string, lockOf func(int, int64) string) string {
	k := r.env.HTLC
	assets := k.GetParams(ctx).AssetParams
	if len(assets) == 0 {
		return ""
	}
	a := assets[g.Intn(len(assets))]
	sup, ok := k.GetAssetSupply(ctx, a.Denom)
	if !ok || !a.Active {
		return ""
	}
	now := ctx.BlockTime().Unix()
	lim := a.SupplyLimit.Limit.Int64()
	cur, inc, out := sup.CurrentSupply.Amount.Int64(), sup.IncomingSupply.Amount.Int64(), sup.OutgoingSupply.Amount.Int64()
	dep := r.sym(a.DeputyAddress)
	ts := now + g.Range(-100, 100)
	if cur*2 <= lim {
		for _, h := range open { // claim an open incoming transfer of the asset with the right secret
			if h.Transfer && h.Direction == htlctypes.Incoming && h.Amount[0].Denom == a.Denom {
				if ks := secretFor(h); ks >= 0 {
					return "htlc claim " + hx.KV("sender", hx.AccName(g.Intn(nAcc)), "id", strings.ToLower(h.Id), "secret", hex.EncodeToString(secretN(ks)))
				}
			}
		}
		room := lim - cur - inc
		if a.SupplyLimit.TimeLimited {
			if tr := a.SupplyLimit.TimeBasedLimit.Int64() - sup.TimeLimitedCurrentSupply.Amount.Int64() - inc; tr < room {
				room = tr
			}
		}
		amt := room
		if mx := a.MaxSwapAmount.Int64(); amt > mx {
			amt = mx
		}
		to := hx.AccName(g.Intn(4))
		if amt < a.MinSwapAmount.Int64() || amt <= 0 || to == dep {
			return ""
		}
		return create(dep, to, fmt.Sprintf("%s*%d", a.Denom, amt), lockOf(g.Intn(nSecrets), ts), ts, g.Range(50, 60), true)
	}
	if out+cur <= lim {
		need := lim - cur - out + 1
		if mn := a.MinSwapAmount.Int64() + a.FixedFee.Int64(); need < mn {
			need = mn
		}
		for i := 0; i < nAcc; i++ {
			sender := hx.AccName(i)
			bal := r.env.Bal(ctx, r.addr(sender), a.Denom).Int64()
			if sender != dep && bal >= need && need <= cur-out && need <= a.MaxSwapAmount.Int64() {
				amt := need + g.Range(0, 2)
				if amt > bal || amt > cur-out || amt > a.MaxSwapAmount.Int64() {
					amt = need
				}
				return create(sender, dep, fmt.Sprintf("%s*%d", a.Denom, amt), lockOf(g.Intn(nSecrets), ts), ts, int64(a.MinBlockLock), true)
			}
		}
		return ""
	}
	if g.Chance(1, 3) {
		return "htlc export"
	}
	return "htlc reimport"
}

// ---------------------------------------------------------------- execution

// countDue records how many contracts fall due in the block about to begin (bucket sizes).
func (r *R) countDue(ctx sdk.Context) {
	n := 0
	r.env.HTLC.IterateHTLCExpiredQueueByHeight(ctx, uint64(ctx.BlockHeight()), func(tmbytes.HexBytes, htlctypes.HTLC) bool {
		n++
		return false
	})
	if n > 0 {
		if n > 4 {
			n = 5
		}
		r.Stats[fmt.Sprintf("x.block.due.%d", n)]++
		r.Stats["x.refunds"] += n
	}
}

// WriteStats appends the finer histogram to the stats file written by hx.
func (r *R) WriteStats(path string) {
	f, err := os.OpenFile(path, os.O_APPEND|os.O_WRONLY|os.O_CREATE, 0o644)
	if err != nil {
		return
	}
	defer f.Close()
	keys := make([]string, 0, len(r.Stats))
	for k := range r.Stats {
		keys = append(keys, k)
	}
	sort.Strings(keys)
	for _, k := range keys {
		fmt.Fprintf(f, "%s=%d\n", k, r.Stats[k])
	}
}

func (r *R) beginBlock(ctx sdk.Context) (panicked bool) {
	p, _ := hx.NoPanic(func() { htlcmod.BeginBlocker(ctx, r.env.HTLC) })
	return p
}

func (r *R) Exec(ctx sdk.Context, line string) (sdk.Context, string) {
	f := strings.Fields(line)
	a := hx.Args(f[2:])
	i64 := func(k string) int64 {
		v, err := strconv.ParseInt(a[k], 10, 64)
		if err != nil {
			hx.Fail("bad integer %s in %q", k, line)
		}
		return v
	}
	var msg sdk.Msg
	switch f[1] {
	case "export":
		// the module has no end blocker: the state after any transaction of a block is the state the
		// block commits, i.e. a state an application can export
		gs := htlcmod.ExportGenesis(ctx, r.env.HTLC)
		r.genesisStats(ctx, "export")
		v := "ok"
		if p, _ := hx.NoPanic(func() {
			if err := htlctypes.ValidateGenesis(*gs); err != nil {
				v = "err"
			}
		}); p {
			v = "panic"
		}
		r.Stats["x.export.validate."+v]++
		return ctx, fmt.Sprintf("ok validate=%s %s %s", v, r.genesisLine(gs), r.state(ctx))
	case "reimport":
		// export, wipe the module store, InitGenesis of the exported document (a panicking import is
		// discarded: the chain could not start; the history goes on from the exported state)
		before := r.genesisView(ctx)
		closed := 0
		for _, h := range r.htlcs(ctx) {
			if h.State != htlctypes.Open {
				closed++
			}
		}
		gs := htlcmod.ExportGenesis(ctx, r.env.HTLC)
		r.genesisStats(ctx, "reimport")
		class, info := hx.Try(ctx, func(c sdk.Context) error {
			st := c.KVStore(r.key)
			it := storetypes.KVStorePrefixIterator(st, nil)
			var keys [][]byte
			for ; it.Valid(); it.Next() {
				keys = append(keys, append([]byte{}, it.Key()...))
			}
			it.Close()
			for _, k := range keys {
				st.Delete(k)
			}
			htlcmod.InitGenesis(c, r.env.HTLC, *gs)
			return nil
		})
		same := 0
		if before == r.genesisView(ctx) {
			same = 1
		}
		if class == hx.OK {
			r.Stats[fmt.Sprintf("x.reimport.ok.open%d.closed%d", min(len(gs.Htlcs), 3), min(closed, 3))]++
		} else {
			r.Stats["x.reimport."+class+"."+panicSlug(info)]++
		}
		return ctx, fmt.Sprintf("%s same=%d %s", class, same, r.state(ctx))
	case "create":
		to := r.addr(strings.TrimSuffix(a["to"], "^")).String()
		if strings.HasSuffix(a["to"], "^") {
			to = strings.ToUpper(to)
		}
		msg = &htlctypes.MsgCreateHTLC{Sender: r.addr(a["sender"]).String(), To: to,
			ReceiverOnOtherChain: "r", SenderOnOtherChain: "s", Amount: parseCoins(a["coins"]), HashLock: a["lock"],
			Timestamp: uint64(i64("ts")), TimeLock: uint64(i64("tl")), Transfer: a["transfer"] == "1"}
	case "claim":
		msg = &htlctypes.MsgClaimHTLC{Sender: r.addr(a["sender"]).String(), Id: a["id"], Secret: a["secret"]}
	case "set_params":
		msg = &htlctypes.MsgUpdateParams{Authority: r.addr(a["authority"]).String(), Params: htlctypes.Params{AssetParams: r.parseAssets(a["params"])}}
	case "begin_block":
		ctx = hx.WithBlock(ctx, i64("h"), time.Unix(0, i64("t")).UTC())
		r.countDue(ctx)
		if r.beginBlock(ctx) {
			return ctx, hx.Panic + " " + r.state(ctx)
		}
		return ctx, hx.OK + " " + r.state(ctx)
	case "advance":
		n, dt := i64("n"), i64("dt")
		for j := int64(0); j < n; j++ {
			ctx = hx.WithBlock(ctx, ctx.BlockHeight()+1, ctx.BlockTime().Add(time.Duration(dt)))
			r.countDue(ctx)
			if r.beginBlock(ctx) {
				return ctx, hx.Panic + " " + r.state(ctx)
			}
		}
		return ctx, hx.OK + " " + r.state(ctx)
	default:
		hx.Fail("unknown op %q", line)
	}
	kind := ""
	switch m := msg.(type) {
	case *htlctypes.MsgCreateHTLC:
		kind = "plain"
		if m.Transfer {
			kind = "transfer"
		}
		if a["to"] == "M" {
			kind += ".to-escrow"
		}
	case *htlctypes.MsgClaimHTLC:
		kind = "unknown"
		if id, err := hex.DecodeString(m.Id); err == nil {
			if h, ok := r.env.HTLC.GetHTLC(ctx, id); ok {
				kind = []string{"plain", "incoming", "outgoing"}[int(h.Direction)%3] + "." + stateLetter(h.State)
			}
		}
	default:
		kind = "-"
	}
	out := r.env.Deliver(ctx, msg)
	res := out.Class
	if out.Class != hx.OK {
		res += ":" + out.Err
	} else if mc, ok := msg.(*htlctypes.MsgCreateHTLC); ok && mc.Transfer {
		// direction the keeper assigned
		for _, h := range r.htlcs(ctx) {
			if h.State == htlctypes.Open && h.ClosedBlock == 0 && strings.EqualFold(h.HashLock, mc.HashLock) && h.Sender == mc.Sender && h.To == mc.To {
				res += ":" + dirLetter(h.Direction)
				break
			}
		}
	}
	r.Stats["x."+f[1]+"."+kind+"."+res]++
	if os.Getenv("HTLC_DEBUG") != "" {
		fmt.Fprintf(os.Stderr, "%s %s %s\n", f[1], out.Class, out.Err)
	}
	return ctx, out.Class + " " + r.state(ctx)
}
