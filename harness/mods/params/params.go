package params

import (
	"fmt"
	"os"
	"strings"
	"time"

	sdk "github.com/cosmos/cosmos-sdk/types"

	cskeeper "mods.irisnet.org/modules/coinswap/keeper"
	csmodtypes "mods.irisnet.org/modules/coinswap/types"
	farmmod "mods.irisnet.org/modules/farm"
	farmkeeper "mods.irisnet.org/modules/farm/keeper"
	farmtypes "mods.irisnet.org/modules/farm/types"
	htlcmod "mods.irisnet.org/modules/htlc"
	htlckeeper "mods.irisnet.org/modules/htlc/keeper"
	htlctypes "mods.irisnet.org/modules/htlc/types"
	svcmod "mods.irisnet.org/modules/service"
	svckeeper "mods.irisnet.org/modules/service/keeper"
	svctypes "mods.irisnet.org/modules/service/types"
	tokenmod "mods.irisnet.org/modules/token"
	tokenkeeper "mods.irisnet.org/modules/token/keeper"
	tokenv1 "mods.irisnet.org/modules/token/types/v1"

	"verifharness/hx"
)

type ctxT = sdk.Context

const (
	h0   = int64(10)
	t0   = int64(1700000000)
	rich = "1000000000000000000000000000000" // 10^30
)

var fundDenoms = []string{"btc", "eth", "stake"}

type R struct {
	env      *hx.Env
	dfltDone map[string]string // module -> result of the battery under default parameters (cached)
	Stats    map[string]int    // battery op/result histogram (merged into the .stats file by the command)
}

func New(env *hx.Env) *R { return &R{env: env, dfltDone: map[string]string{}, Stats: map[string]int{}} }

func (r *R) Module() string { return "params" }

func (r *R) ResetLine(g *hx.Rng) string { return "params reset" }

func blockTime(h int64) time.Time { return time.Unix(t0+5*(h-h0), 0).UTC() }

func (r *R) Reset(ctx sdk.Context, line string) (sdk.Context, string) {
	ctx = hx.WithBlock(ctx, h0, blockTime(h0))
	for i := 0; i < 5; i++ {
		var cs sdk.Coins
		for _, d := range fundDenoms {
			cs = cs.Add(sdk.NewCoin(d, hx.MustInt(rich)))
		}
		r.env.Fund(ctx, hx.Acc(i), cs)
	}
	return ctx, "ok " + r.allStored(ctx)
}

func (r *R) stored(ctx sdk.Context, mod string) string {
	switch mod {
	case "coinswap":
		return csShow(r.env.Coinswap.GetParams(ctx))
	case "farm":
		return farmShow(r.env.Farm.GetParams(ctx))
	case "htlc":
		return htlcShow(r.env.HTLC.GetParams(ctx))
	case "service":
		return svcShow(r.env.Service.GetParams(ctx))
	case "token":
		return tokShow(r.env.Token.GetParams(ctx))
	}
	hx.Fail("unknown module %q", mod)
	return ""
}

// allStored renders the five stored parameter sets: "coinswap{k=v,k=v} farm{...} ..."
func (r *R) allStored(ctx sdk.Context) string {
	var p []string
	for _, m := range modules {
		p = append(p, m+"{"+strings.ReplaceAll(r.stored(ctx, m), " ", "|")+"}")
	}
	return strings.Join(p, " ")
}

// validateReal calls the module's own Params.Validate
func validateReal(mod string, a map[string]string) error {
	switch mod {
	case "coinswap":
		return csParse(a).Validate()
	case "farm":
		return farmParse(a).Validate()
	case "htlc":
		return htlcParse(a).Validate()
	case "service":
		return svcParse(a).Validate()
	case "token":
		return tokParse(a).Validate()
	}
	hx.Fail("unknown module %q", mod)
	return nil
}

func updateMsg(mod, authority string, a map[string]string) sdk.Msg {
	switch mod {
	case "coinswap":
		return &csmodtypes.MsgUpdateParams{Authority: authority, Params: csParse(a)}
	case "farm":
		return &farmtypes.MsgUpdateParams{Authority: authority, Params: farmParse(a)}
	case "htlc":
		return &htlctypes.MsgUpdateParams{Authority: authority, Params: htlcParse(a)}
	case "service":
		return &svctypes.MsgUpdateParams{Authority: authority, Params: svcParse(a)}
	case "token":
		return &tokenv1.MsgUpdateParams{Authority: authority, Params: tokParse(a)}
	}
	hx.Fail("unknown module %q", mod)
	return nil
}

// directUpdate calls <module>/keeper.NewMsgServerImpl(k).UpdateParams on a cached context that is
// written only on success; panics are captured.
func (r *R) directUpdate(ctx sdk.Context, mod string, msg sdk.Msg) hx.Outcome {
	class, info := hx.Try(ctx, func(c sdk.Context) error {
		var err error
		switch m := msg.(type) {
		case *csmodtypes.MsgUpdateParams:
			_, err = cskeeper.NewMsgServerImpl(r.env.Coinswap).UpdateParams(c, m)
		case *farmtypes.MsgUpdateParams:
			_, err = farmkeeper.NewMsgServerImpl(r.env.Farm).UpdateParams(c, m)
		case *htlctypes.MsgUpdateParams:
			_, err = htlckeeper.NewMsgServerImpl(r.env.HTLC).UpdateParams(c, m)
		case *svctypes.MsgUpdateParams:
			_, err = svckeeper.NewMsgServerImpl(r.env.Service).UpdateParams(c, m)
		case *tokenv1.MsgUpdateParams:
			_, err = tokenkeeper.NewMsgServerImpl(r.env.Token).UpdateParams(c, m)
		default:
			hx.Fail("directUpdate: unknown message for %s", mod)
		}
		return err
	})
	return hx.Outcome{Class: class, Err: info}
}

var verdictWord = map[string]string{hx.OK: "valid", hx.Rej: "invalid", hx.Panic: "panic"}

// storedVerdict is the module's own Params.Validate applied to what the keeper returns
func (r *R) storedVerdict(ctx sdk.Context, mod string) string {
	class, _ := classOf(func() error {
		switch mod {
		case "coinswap":
			return r.env.Coinswap.GetParams(ctx).Validate()
		case "farm":
			return r.env.Farm.GetParams(ctx).Validate()
		case "htlc":
			return r.env.HTLC.GetParams(ctx).Validate()
		case "service":
			return r.env.Service.GetParams(ctx).Validate()
		case "token":
			return r.env.Token.GetParams(ctx).Validate()
		}
		hx.Fail("unknown module %q", mod)
		return nil
	})
	return verdictWord[class]
}

func classOf(f func() error) (class string, info string) {
	defer func() {
		if rec := recover(); rec != nil {
			class, info = hx.Panic, fmt.Sprint(rec)
		}
	}()
	if err := f(); err != nil {
		return hx.Rej, err.Error()
	}
	return hx.OK, ""
}

// genesis runs the module's ValidateGenesis and InitGenesis on the module's default genesis
// state carrying the given parameters; InitGenesis runs on a fork that is discarded.
func (r *R) genesis(ctx sdk.Context, mod string, a map[string]string) string {
	fork, _ := ctx.CacheContext()
	var vg, ig func() error
	switch mod {
	case "coinswap":
		gs := *csmodtypes.DefaultGenesisState()
		gs.Params = csParse(a)
		vg = func() error { return csmodtypes.ValidateGenesis(gs) }
		ig = func() error { r.env.Coinswap.InitGenesis(fork, gs); return nil }
	case "farm":
		gs := *farmtypes.DefaultGenesisState()
		gs.Params = farmParse(a)
		vg = func() error { return farmtypes.ValidateGenesis(gs) }
		ig = func() error { farmmod.InitGenesis(fork, r.env.Farm, gs); return nil }
	case "htlc":
		gs := *htlctypes.DefaultGenesisState()
		gs.Params = htlcParse(a)
		gs.PreviousBlockTime = ctx.BlockTime()
		vg = func() error { return htlctypes.ValidateGenesis(gs) }
		ig = func() error { htlcmod.InitGenesis(fork, r.env.HTLC, gs); return nil }
	case "service":
		gs := *svctypes.DefaultGenesisState()
		gs.Params = svcParse(a)
		vg = func() error { return svctypes.ValidateGenesis(gs) }
		ig = func() error { svcmod.InitGenesis(fork, r.env.Service, gs); return nil }
	case "token":
		gs := tokenv1.GenesisState{Params: tokParse(a)} // the native token already exists on the fork
		vg = func() error { return tokenv1.ValidateGenesis(gs) }
		ig = func() error { tokenmod.InitGenesis(fork, r.env.Token, gs); return nil }
	default:
		hx.Fail("unknown module %q", mod)
	}
	before := r.stored(ctx, mod)
	v, vinfo := classOf(vg)
	i, iinfo := classOf(ig)
	after := before
	if i == hx.OK {
		after = r.stored(fork, mod)
	}
	if os.Getenv("VERIF_DEBUG") != "" {
		fmt.Fprintf(os.Stderr, "debug: genesis %s vg=%s(%s) ig=%s(%s)\n", mod, v, vinfo, i, iinfo)
	}
	pv, _ := classOf(func() error { return validateReal(mod, a) })
	return fmt.Sprintf("vg=%s ig=%s pv=%s stored=%s", v, i, verdictWord[pv], strings.ReplaceAll(after, " ", "|"))
}

func (r *R) Exec(ctx sdk.Context, line string) (sdk.Context, string) {
	f := strings.Fields(line)
	if len(f) < 3 || f[0] != "params" {
		hx.Fail("bad line %q", line)
	}
	a := hx.Args(f[2:])
	mod := a["module"]
	switch f[1] {
	case "validate":
		class, info := classOf(func() error { return validateReal(mod, a) })
		if os.Getenv("VERIF_DEBUG") != "" && class != hx.OK {
			fmt.Fprintf(os.Stderr, "debug: %s -> %s %s\n", line, class, info)
		}
		return ctx, verdictWord[class]
	case "ghost_update":
		// the update executed on a context that is thrown away (a simulation, a failed multi-message
		// transaction, a dropped proposal batch): the parameter set the module USES afterwards is what it was
		gctx, _ := ctx.CacheContext()
		r.Exec(gctx, "params update "+strings.Join(f[2:], " "))
		return ctx, "ghost stored=" + strings.ReplaceAll(r.stored(ctx, mod), " ", "|") + " sv=" + r.storedVerdict(ctx, mod)
	case "update":
		auth := hx.Authority()
		if a["sender"] != "authority" {
			auth = symAddr(a["sender"])
		}
		var out hx.Outcome
		if a["direct"] == "1" {
			// the module's message server called directly (as keeper-level callers do), without the
			// ValidateBasic pre-check that the transaction path and the router add: the handler and
			// the keeper must not rely on that pre-check to keep an invalid set out of the store
			out = r.directUpdate(ctx, mod, updateMsg(mod, auth, a))
		} else {
			out = r.env.Deliver(ctx, updateMsg(mod, auth, a))
		}
		if os.Getenv("VERIF_DEBUG") != "" && out.Class != hx.OK {
			fmt.Fprintf(os.Stderr, "debug: %s -> %s %s\n", line, out.Class, out.Err)
		}
		return ctx, out.Class + " stored=" + strings.ReplaceAll(r.stored(ctx, mod), " ", "|") + " sv=" + r.storedVerdict(ctx, mod)
	case "genesis":
		return ctx, r.genesis(ctx, mod, a)
	case "battery":
		return ctx, r.battery(ctx, mod)
	}
	hx.Fail("unknown op %q", line)
	return ctx, ""
}

var _ = svcmod.EndBlocker
