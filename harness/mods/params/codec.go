// Package params drives the parameter surface of the five irismod modules that have
// parameters (coinswap, farm, htlc, service, token) for C16: the real Params.Validate, the real
// MsgUpdateParams through the message router, the real Validate/InitGenesis, and a fixed battery
// of each module's messages and block hooks under the stored parameter set.
package params

import (
	"fmt"
	"math/big"
	"strconv"
	"strings"
	"time"

	sdkmath "cosmossdk.io/math"
	sdk "github.com/cosmos/cosmos-sdk/types"

	cstypes "mods.irisnet.org/modules/coinswap/types"
	farmtypes "mods.irisnet.org/modules/farm/types"
	htlctypes "mods.irisnet.org/modules/htlc/types"
	svctypes "mods.irisnet.org/modules/service/types"
	tokenv1 "mods.irisnet.org/modules/token/types/v1"

	"verifharness/hx"
)

// ---------------------------------------------------------------- scalar codecs

// dec: raw 18-decimal integer, or "nil" for an unset LegacyDec
func parseDec(s string) sdkmath.LegacyDec {
	if s == "nil" {
		return sdkmath.LegacyDec{}
	}
	b, ok := new(big.Int).SetString(s, 10)
	if !ok {
		hx.Fail("bad dec %q", s)
	}
	return sdkmath.LegacyNewDecFromBigIntWithPrec(b, 18)
}

func showDec(d sdkmath.LegacyDec) string {
	if d.IsNil() {
		return "nil"
	}
	return d.BigInt().String()
}

// int: decimal integer, or "nil" for an unset sdkmath.Int
func parseInt(s string) sdkmath.Int {
	if s == "nil" {
		return sdkmath.Int{}
	}
	b, ok := new(big.Int).SetString(s, 10)
	if !ok {
		hx.Fail("bad int %q", s)
	}
	return sdkmath.NewIntFromBigInt(b)
}

func showInt(i sdkmath.Int) string {
	if i.IsNil() {
		return "nil"
	}
	return i.String()
}

// coin: denom:amount with "-" for the empty denom (raw struct, never through sdk.NewCoin)
func parseCoin(s string) sdk.Coin {
	i := strings.LastIndexByte(s, ':')
	if i < 0 {
		hx.Fail("bad coin %q", s)
	}
	return sdk.Coin{Denom: hx.Undash(s[:i]), Amount: parseInt(s[i+1:])}
}

func showCoin(c sdk.Coin) string { return hx.Dash(c.Denom) + ":" + showInt(c.Amount) }

// coins: coin+coin+..., "-" for none (order and duplicates preserved)
func parseCoins(s string) sdk.Coins {
	if s == "-" || s == "" {
		return sdk.Coins{}
	}
	var cs sdk.Coins
	for _, p := range strings.Split(s, "+") {
		cs = append(cs, parseCoin(p))
	}
	return cs
}

func showCoins(cs sdk.Coins) string {
	if len(cs) == 0 {
		return "-"
	}
	var p []string
	for _, c := range cs {
		p = append(p, showCoin(c))
	}
	return strings.Join(p, "+")
}

func i64(s string) int64 {
	v, err := strconv.ParseInt(s, 10, 64)
	if err != nil {
		hx.Fail("bad int64 %q", s)
	}
	return v
}

func u64(s string) uint64 {
	v, err := strconv.ParseUint(s, 10, 64)
	if err != nil {
		hx.Fail("bad uint64 %q", s)
	}
	return v
}

func b01(b bool) string {
	if b {
		return "1"
	}
	return "0"
}

// symbolic address: A<i>, "bad" (not bech32), "-" (empty)
func symAddr(s string) string {
	switch {
	case s == "-":
		return ""
	case s == "bad":
		return "notabech32address"
	case strings.HasPrefix(s, "A"):
		i, err := strconv.Atoi(s[1:])
		if err != nil {
			hx.Fail("bad address %q", s)
		}
		return hx.Acc(i).String()
	}
	hx.Fail("bad address %q", s)
	return ""
}

func addrSym(bech string) string {
	if bech == "" {
		return "-"
	}
	for i := 0; i < 8; i++ {
		if hx.Acc(i).String() == bech {
			return hx.AccName(i)
		}
	}
	return "bad"
}

// ---------------------------------------------------------------- per-module parameter codecs

func csParse(a map[string]string) cstypes.Params {
	return cstypes.Params{Fee: parseDec(a["fee"]), TaxRate: parseDec(a["tax"]),
		UnilateralLiquidityFee: parseDec(a["uni"]), PoolCreationFee: parseCoin(a["pcf"])}
}

func csShow(p cstypes.Params) string {
	return hx.KV("fee", showDec(p.Fee), "tax", showDec(p.TaxRate), "uni", showDec(p.UnilateralLiquidityFee), "pcf", showCoin(p.PoolCreationFee))
}

func farmParse(a map[string]string) farmtypes.Params {
	return farmtypes.Params{PoolCreationFee: parseCoin(a["pcf"]), TaxRate: parseDec(a["tax"]), MaxRewardCategories: uint32(u64(a["maxcat"]))}
}

func farmShow(p farmtypes.Params) string {
	return hx.KV("pcf", showCoin(p.PoolCreationFee), "tax", showDec(p.TaxRate), "maxcat", p.MaxRewardCategories)
}

// asset: denom,limit,timelimited,period,tblimit,active,deputy,fixedfee,minswap,maxswap,minlock,maxlock
func htlcParse(a map[string]string) htlctypes.Params {
	p := htlctypes.Params{AssetParams: []htlctypes.AssetParam{}}
	if a["assets"] == "-" || a["assets"] == "" {
		return p
	}
	for _, e := range strings.Split(a["assets"], ";") {
		f := strings.Split(e, ",")
		if len(f) != 12 {
			hx.Fail("bad asset %q", e)
		}
		p.AssetParams = append(p.AssetParams, htlctypes.AssetParam{
			Denom: hx.Undash(f[0]),
			SupplyLimit: htlctypes.SupplyLimit{Limit: parseInt(f[1]), TimeLimited: f[2] == "1",
				TimePeriod: time.Duration(i64(f[3])), TimeBasedLimit: parseInt(f[4])},
			Active: f[5] == "1", DeputyAddress: symAddr(f[6]), FixedFee: parseInt(f[7]),
			MinSwapAmount: parseInt(f[8]), MaxSwapAmount: parseInt(f[9]), MinBlockLock: u64(f[10]), MaxBlockLock: u64(f[11]),
		})
	}
	return p
}

func htlcShow(p htlctypes.Params) string {
	if len(p.AssetParams) == 0 {
		return "assets=-"
	}
	var es []string
	for _, x := range p.AssetParams {
		es = append(es, strings.Join([]string{hx.Dash(x.Denom), showInt(x.SupplyLimit.Limit), b01(x.SupplyLimit.TimeLimited),
			strconv.FormatInt(int64(x.SupplyLimit.TimePeriod), 10), showInt(x.SupplyLimit.TimeBasedLimit), b01(x.Active),
			addrSym(x.DeputyAddress), showInt(x.FixedFee), showInt(x.MinSwapAmount), showInt(x.MaxSwapAmount),
			strconv.FormatUint(x.MinBlockLock, 10), strconv.FormatUint(x.MaxBlockLock, 10)}, ","))
	}
	return "assets=" + strings.Join(es, ";")
}

func svcParse(a map[string]string) svctypes.Params {
	return svctypes.Params{MaxRequestTimeout: i64(a["mrt"]), MinDepositMultiple: i64(a["mdm"]), MinDeposit: parseCoins(a["mindep"]),
		ServiceFeeTax: parseDec(a["tax"]), SlashFraction: parseDec(a["slash"]), ComplaintRetrospect: time.Duration(i64(a["cr"])),
		ArbitrationTimeLimit: time.Duration(i64(a["atl"])), TxSizeLimit: u64(a["txsize"]), BaseDenom: hx.Undash(a["base"]),
		RestrictedServiceFeeDenom: a["restricted"] == "1"}
}

func svcShow(p svctypes.Params) string {
	return hx.KV("mrt", p.MaxRequestTimeout, "mdm", p.MinDepositMultiple, "mindep", showCoins(p.MinDeposit), "tax", showDec(p.ServiceFeeTax),
		"slash", showDec(p.SlashFraction), "cr", int64(p.ComplaintRetrospect), "atl", int64(p.ArbitrationTimeLimit), "txsize", p.TxSizeLimit,
		"base", hx.Dash(p.BaseDenom), "restricted", b01(p.RestrictedServiceFeeDenom))
}

func tokParse(a map[string]string) tokenv1.Params {
	return tokenv1.Params{TokenTaxRate: parseDec(a["tax"]), IssueTokenBaseFee: parseCoin(a["fee"]), MintTokenFeeRatio: parseDec(a["ratio"]),
		EnableErc20: a["erc20"] == "1", Beacon: hx.Undash(a["beacon"])}
}

func tokShow(p tokenv1.Params) string {
	return hx.KV("tax", showDec(p.TokenTaxRate), "fee", showCoin(p.IssueTokenBaseFee), "ratio", showDec(p.MintTokenFeeRatio),
		"erc20", b01(p.EnableErc20), "beacon", hx.Dash(p.Beacon))
}

var _ = fmt.Sprint
