package params

import (
	"encoding/hex"
	"fmt"
	"os"
	"strings"
	"time"

	sdkmath "cosmossdk.io/math"
	tmbytes "github.com/cometbft/cometbft/libs/bytes"
	sdk "github.com/cosmos/cosmos-sdk/types"

	cstypes "mods.irisnet.org/modules/coinswap/types"
	farmmod "mods.irisnet.org/modules/farm"
	farmtypes "mods.irisnet.org/modules/farm/types"
	htlcmod "mods.irisnet.org/modules/htlc"
	htlctypes "mods.irisnet.org/modules/htlc/types"
	svcmod "mods.irisnet.org/modules/service"
	svctypes "mods.irisnet.org/modules/service/types"
	tokentypes "mods.irisnet.org/modules/token/types"
	tokenv1 "mods.irisnet.org/modules/token/types/v1"

	"verifharness/hx"
)

// one battery run: the ordered (operation, result class) pairs
type run struct {
	r   *R
	ctx sdk.Context
	res [][2]string
}

func (b *run) msg(name string, m sdk.Msg) hx.Outcome {
	out := b.r.env.Deliver(b.ctx, m)
	b.res = append(b.res, [2]string{name, out.Class})
	if os.Getenv("VERIF_DEBUG") != "" && out.Class != hx.OK {
		fmt.Fprintf(os.Stderr, "debug: battery %s -> %s %s\n", name, out.Class, out.Err)
	}
	return out
}

func (b *run) hook(name string, f func()) {
	p, info := hx.NoPanic(f)
	cl := hx.OK
	if p {
		cl = hx.Panic
		if os.Getenv("VERIF_DEBUG") != "" {
			fmt.Fprintf(os.Stderr, "debug: battery %s -> panic %s\n", name, info)
		}
	}
	b.res = append(b.res, [2]string{name, cl})
}

func (b *run) next() {
	b.ctx = hx.WithBlock(b.ctx, b.ctx.BlockHeight()+1, blockTime(b.ctx.BlockHeight()+1))
}

func (b *run) must(what string, m sdk.Msg) hx.Outcome {
	out := b.r.env.Deliver(b.ctx, m)
	if out.Class != hx.OK {
		hx.Fail("battery setup %s: %s %s", what, out.Class, out.Err)
	}
	return out
}

// fundIfPayable gives the payer the fee coin when it is a well-formed coin of moderate size, so
// that the fee path is not cut short by an insufficient balance
func (b *run) fundIfPayable(who sdk.AccAddress, c sdk.Coin) {
	if sdk.ValidateDenom(c.Denom) != nil || c.Amount.IsNil() || !c.Amount.IsPositive() || c.Amount.BigInt().BitLen() > 200 {
		return
	}
	b.r.env.Fund(b.ctx, who, sdk.NewCoins(c))
}

func (r *R) setDefaults(ctx sdk.Context, except string) {
	chk := func(err error) {
		if err != nil {
			hx.Fail("default params: %v", err)
		}
	}
	if except != "coinswap" {
		chk(r.env.Coinswap.SetParams(ctx, cstypes.DefaultParams()))
	}
	if except != "farm" {
		chk(r.env.Farm.SetParams(ctx, farmtypes.DefaultParams()))
	}
	if except != "htlc" {
		chk(r.env.HTLC.SetParams(ctx, htlctypes.DefaultParams()))
	}
	if except != "service" {
		chk(r.env.Service.SetParams(ctx, svctypes.DefaultParams()))
	}
	if except != "token" {
		chk(r.env.Token.SetParams(ctx, tokenv1.DefaultParams()))
	}
}

// battery runs the module's fixed battery under the stored parameter set (all other modules at
// their defaults) and, once per process, under the default set of the module itself.
func (r *R) battery(ctx sdk.Context, mod string) string {
	dflt, ok := r.dfltDone[mod]
	if !ok {
		fork, _ := ctx.CacheContext()
		r.setDefaults(fork, "")
		res := r.runBattery(fork, mod)
		dflt = "ok"
		for _, e := range res {
			if e[1] != hx.OK {
				dflt = "bad:" + e[0] + "=" + e[1]
				break
			}
		}
		r.dfltDone[mod] = dflt
	}
	fork, _ := ctx.CacheContext()
	r.setDefaults(fork, mod)
	res := r.runBattery(fork, mod)
	// the same stored set met by a state that was built BEFORE it was stored (C16: "each operation that is
	// possible under the defaults still ends in success or an ordinary rejection" — reachable states include
	// those created under the previous parameters)
	fork2, _ := ctx.CacheContext()
	r.setDefaults(fork2, mod)
	res = append(res, r.runCarry(fork2, mod)...)
	var pan []string
	for _, e := range res {
		r.Stats["bat."+mod+"."+e[0]+"."+e[1]]++
		if e[1] == hx.Panic {
			pan = append(pan, e[0])
		}
	}
	out := "nopanic"
	if len(pan) > 0 {
		out = "panic:" + strings.Join(pan, ",")
	}
	return out + " dflt=" + dflt
}

func (r *R) runBattery(ctx sdk.Context, mod string) [][2]string {
	b := &run{r: r, ctx: ctx}
	switch mod {
	case "coinswap":
		b.coinswap()
	case "farm":
		b.farm()
	case "htlc":
		b.htlc()
	case "service":
		b.service()
	case "token":
		b.token()
	default:
		hx.Fail("unknown module %q", mod)
	}
	return b.res
}

// runCarry builds module state under a moderate variant of the stored set, then switches to the stored set
// and runs follow-up operations against that state (operation names `carry_*`).
func (r *R) runCarry(ctx sdk.Context, mod string) [][2]string {
	b := &run{r: r, ctx: ctx}
	switch mod {
	case "htlc":
		b.htlcCarry()
	case "service":
		b.serviceCarry()
	}
	return b.res
}

func coin(d string, n int64) sdk.Coin { return sdk.NewInt64Coin(d, n) }

// ---------------------------------------------------------------- coinswap

func (b *run) coinswap() {
	k := b.r.env.Coinswap
	a0 := hx.Acc(0).String()
	dl := b.ctx.BlockTime().Unix() + 100000
	stored := k.GetParams(b.ctx)
	// the eth pool is created under the default parameters, so that the swaps are always exercised
	if err := k.SetParams(b.ctx, cstypes.DefaultParams()); err != nil {
		hx.Fail("%v", err)
	}
	b.must("eth pool", &cstypes.MsgAddLiquidity{MaxToken: coin("eth", 1000000), ExactStandardAmt: sdkmath.NewInt(1000000), MinLiquidity: sdkmath.NewInt(1), Deadline: dl, Sender: a0})
	if err := k.SetParams(b.ctx, stored); err != nil {
		hx.Fail("restore: %v", err)
	}
	b.fundIfPayable(hx.Acc(0), stored.PoolCreationFee)
	b.msg("add_btc", &cstypes.MsgAddLiquidity{MaxToken: coin("btc", 1000000), ExactStandardAmt: sdkmath.NewInt(1000000), MinLiquidity: sdkmath.NewInt(1), Deadline: dl, Sender: a0})
	b.msg("add", &cstypes.MsgAddLiquidity{MaxToken: coin("eth", 2000000), ExactStandardAmt: sdkmath.NewInt(500000), MinLiquidity: sdkmath.NewInt(1), Deadline: dl, Sender: a0})
	b.msg("sell", &cstypes.MsgSwapOrder{Input: cstypes.Input{Address: a0, Coin: coin("stake", 1000)}, Output: cstypes.Output{Address: a0, Coin: coin("eth", 1)}, Deadline: dl})
	b.msg("buy", &cstypes.MsgSwapOrder{Input: cstypes.Input{Address: a0, Coin: coin("stake", 100000)}, Output: cstypes.Output{Address: a0, Coin: coin("eth", 500)}, Deadline: dl, IsBuyOrder: true})
	b.msg("sell_rev", &cstypes.MsgSwapOrder{Input: cstypes.Input{Address: a0, Coin: coin("eth", 1000)}, Output: cstypes.Output{Address: a0, Coin: coin("stake", 1)}, Deadline: dl})
	b.msg("buy_rev", &cstypes.MsgSwapOrder{Input: cstypes.Input{Address: a0, Coin: coin("eth", 100000)}, Output: cstypes.Output{Address: a0, Coin: coin("stake", 500)}, Deadline: dl, IsBuyOrder: true})
	b.msg("add1", &cstypes.MsgAddUnilateralLiquidity{CounterpartyDenom: "eth", ExactToken: coin("eth", 1000), MinLiquidity: sdkmath.NewInt(1), Deadline: dl, Sender: a0})
	b.msg("rem1", &cstypes.MsgRemoveUnilateralLiquidity{CounterpartyDenom: "eth", MinToken: coin("stake", 1), ExactLiquidity: sdkmath.NewInt(100), Deadline: dl, Sender: a0})
	b.msg("remove", &cstypes.MsgRemoveLiquidity{WithdrawLiquidity: coin("lpt-1", 1000), MinToken: sdkmath.NewInt(1), MinStandardAmt: sdkmath.NewInt(1), Deadline: dl, Sender: a0})
}

// ---------------------------------------------------------------- farm

func (b *run) farm() {
	k := b.r.env.Farm
	a0 := hx.Acc(0).String()
	dl := b.ctx.BlockTime().Unix() + 100000
	b.must("eth pool", &cstypes.MsgAddLiquidity{MaxToken: coin("eth", 1000000), ExactStandardAmt: sdkmath.NewInt(1000000), MinLiquidity: sdkmath.NewInt(1), Deadline: dl, Sender: a0})
	stored := k.GetParams(b.ctx)
	if err := k.SetParams(b.ctx, farmtypes.DefaultParams()); err != nil {
		hx.Fail("%v", err)
	}
	h := b.ctx.BlockHeight()
	b.must("farm pool", &farmtypes.MsgCreatePool{Description: "p1", LptDenom: "lpt-1", StartHeight: h, RewardPerBlock: sdk.NewCoins(coin("eth", 10)),
		TotalReward: sdk.NewCoins(coin("eth", 1000)), Editable: true, Creator: a0})
	var pool1 string
	k.IteratorAllPools(b.ctx, func(p farmtypes.FarmPool) { pool1 = p.Id })
	if err := k.SetParams(b.ctx, stored); err != nil {
		hx.Fail("restore: %v", err)
	}
	b.fundIfPayable(hx.Acc(0), stored.PoolCreationFee)
	b.msg("create_pool", &farmtypes.MsgCreatePool{Description: "p2", LptDenom: "lpt-1", StartHeight: h + 1, RewardPerBlock: sdk.NewCoins(coin("btc", 7)),
		TotalReward: sdk.NewCoins(coin("btc", 700)), Editable: true, Creator: a0})
	b.msg("stake", &farmtypes.MsgStake{PoolId: pool1, Amount: coin("lpt-1", 1000), Sender: a0})
	b.hook("end_block", func() { farmmod.EndBlocker(b.ctx, k) })
	b.next()
	b.msg("harvest", &farmtypes.MsgHarvest{PoolId: pool1, Sender: a0})
	b.msg("adjust_pool", &farmtypes.MsgAdjustPool{PoolId: pool1, AdditionalReward: sdk.NewCoins(coin("eth", 100)), RewardPerBlock: sdk.NewCoins(coin("eth", 11)), Creator: a0})
	b.hook("end_block2", func() { farmmod.EndBlocker(b.ctx, k) })
	b.next()
	b.msg("unstake", &farmtypes.MsgUnstake{PoolId: pool1, Amount: coin("lpt-1", 400), Sender: a0})
	b.msg("destroy_pool", &farmtypes.MsgDestroyPool{PoolId: pool1, Creator: a0})
}

// ---------------------------------------------------------------- htlc

func hashLock(secret string, ts uint64) (tmbytes.HexBytes, string) {
	sec, _ := hex.DecodeString(secret)
	hl := htlctypes.GetHashLock(sec, ts)
	return hl, hex.EncodeToString(hl)
}

func (b *run) htlc() {
	k := b.r.env.HTLC
	a0, a1 := hx.Acc(0), hx.Acc(1)
	s1 := strings.Repeat("11", 32)
	s2 := strings.Repeat("22", 32)
	amt := sdk.NewCoins(coin("stake", 1000))
	hl1, hl1s := hashLock(s1, 0)
	_, hl2s := hashLock(s2, 0)
	b.msg("create", &htlctypes.MsgCreateHTLC{Sender: a0.String(), To: a1.String(), Amount: amt, HashLock: hl1s, Timestamp: 0, TimeLock: 50})
	b.msg("claim", &htlctypes.MsgClaimHTLC{Sender: a1.String(), Id: htlctypes.GetID(a0, a1, amt, hl1).String(), Secret: s1})
	b.msg("create2", &htlctypes.MsgCreateHTLC{Sender: a0.String(), To: a1.String(), Amount: amt, HashLock: hl2s, Timestamp: 0, TimeLock: 50})
	b.next()
	b.hook("begin_block", func() { htlcmod.BeginBlocker(b.ctx, k) })
	if assets := k.GetParams(b.ctx).AssetParams; len(assets) > 0 {
		as := assets[0]
		deputy, err := sdk.AccAddressFromBech32(as.DeputyAddress)
		if err != nil {
			hx.Fail("stored deputy address invalid: %v", err)
		}
		user := a1
		if deputy.Equals(user) {
			user = hx.Acc(2)
		}
		ts := uint64(b.ctx.BlockTime().Unix())
		s3, s4, s5 := strings.Repeat("33", 32), strings.Repeat("44", 32), strings.Repeat("55", 32)
		hl3, hl3s := hashLock(s3, ts)
		_, hl4s := hashLock(s4, ts)
		_, hl5s := hashLock(s5, ts)
		x := sdk.Coins{sdk.Coin{Denom: as.Denom, Amount: as.MaxSwapAmount}}
		b.msg("htlt_in", &htlctypes.MsgCreateHTLC{Sender: deputy.String(), To: user.String(), ReceiverOnOtherChain: "r", SenderOnOtherChain: "s",
			Amount: x, HashLock: hl3s, Timestamp: ts, TimeLock: as.MinBlockLock, Transfer: true})
		b.msg("htlt_in2", &htlctypes.MsgCreateHTLC{Sender: deputy.String(), To: user.String(), ReceiverOnOtherChain: "r", SenderOnOtherChain: "s",
			Amount: x, HashLock: hl4s, Timestamp: ts, TimeLock: as.MinBlockLock, Transfer: true})
		b.msg("htlt_claim", &htlctypes.MsgClaimHTLC{Sender: user.String(), Id: htlctypes.GetID(deputy, user, x, hl3).String(), Secret: s3})
		b.msg("htlt_out", &htlctypes.MsgCreateHTLC{Sender: user.String(), To: deputy.String(), ReceiverOnOtherChain: "r", SenderOnOtherChain: "s",
			Amount: x, HashLock: hl5s, Timestamp: ts, TimeLock: as.MaxBlockLock, Transfer: true})
		b.next()
		b.hook("begin_block2", func() { htlcmod.BeginBlocker(b.ctx, k) })
	}
	b.ctx = hx.WithBlock(b.ctx, h0+50, blockTime(h0+50))
	b.hook("expire", func() { htlcmod.BeginBlocker(b.ctx, k) })
}

// htlcCarry: open and completed transfers of the first asset are created while its limits are generous and
// its switches on; then the stored set takes over (lower limits, time limits, deactivation, other fee and
// amount bounds) and the pending objects are claimed, refunded and followed by new transfers.
func (b *run) htlcCarry() {
	k := b.r.env.HTLC
	stored := k.GetParams(b.ctx)
	if len(stored.AssetParams) == 0 {
		return
	}
	// an asset becomes usable only with a supply record, and those are created by genesis import alone
	ai := -1
	for i, a := range stored.AssetParams {
		if _, found := k.GetAssetSupply(b.ctx, a.Denom); found {
			ai = i
			break
		}
	}
	if ai < 0 {
		// as if the chain's genesis had listed the first asset with empty supplies
		ai = 0
		z := sdk.NewCoin(stored.AssetParams[0].Denom, sdkmath.ZeroInt())
		k.SetAssetSupply(b.ctx, htlctypes.NewAssetSupply(z, z, z, z, 0), z.Denom)
		b.r.Stats["carry.htlc.supply-record-created"]++
	}
	as := stored.AssetParams[ai]
	deputy, err := sdk.AccAddressFromBech32(as.DeputyAddress)
	if err != nil {
		return
	}
	user := hx.Acc(1)
	if deputy.Equals(user) {
		user = hx.Acc(2)
	}
	pre := htlctypes.Params{AssetParams: append([]htlctypes.AssetParam{}, stored.AssetParams...)}
	big := sdkmath.NewInt(1).MulRaw(1000000000000)
	pre.AssetParams[ai] = htlctypes.AssetParam{Denom: as.Denom, Active: true, DeputyAddress: as.DeputyAddress,
		SupplyLimit:   htlctypes.SupplyLimit{Limit: big, TimeLimited: false, TimePeriod: as.SupplyLimit.TimePeriod, TimeBasedLimit: sdkmath.ZeroInt()},
		FixedFee:      sdkmath.NewInt(1), MinSwapAmount: sdkmath.NewInt(2), MaxSwapAmount: big, MinBlockLock: 50, MaxBlockLock: 34560}
	if pre.Validate() != nil || k.SetParams(b.ctx, pre) != nil {
		b.r.Stats["carry.htlc.skipped"]++
		return
	}
	ts := uint64(b.ctx.BlockTime().Unix())
	amt := func(n int64) sdk.Coins { return sdk.Coins{sdk.Coin{Denom: as.Denom, Amount: sdkmath.NewInt(n)}} }
	mk := func(sec string, from, to sdk.AccAddress, n int64, lock uint64) (*htlctypes.MsgCreateHTLC, string) {
		hl, hls := hashLock(sec, ts)
		return &htlctypes.MsgCreateHTLC{Sender: from.String(), To: to.String(), ReceiverOnOtherChain: "r", SenderOnOtherChain: "s",
			Amount: amt(n), HashLock: hls, Timestamp: ts, TimeLock: lock, Transfer: true}, htlctypes.GetID(from, to, amt(n), hl).String()
	}
	sA, sB, sC, sD, sE, sF := strings.Repeat("a1", 32), strings.Repeat("b2", 32), strings.Repeat("c3", 32), strings.Repeat("d4", 32), strings.Repeat("e5", 32), strings.Repeat("f6", 32)
	inA, idA := mk(sA, deputy, user, 5000, 50)   // claimed before the switch: current supply 5000
	inB, idB := mk(sB, deputy, user, 3000, 50)   // open across the switch, claimed afterwards
	inC, _ := mk(sC, deputy, user, 2000, 50)     // open across the switch, expires afterwards
	outD, idD := mk(sD, user, deputy, 1500, 60)  // outgoing, open across the switch, claimed afterwards
	outE, _ := mk(sE, user, deputy, 1000, 50)    // outgoing, open across the switch, refunded at expiry
	for _, m := range []*htlctypes.MsgCreateHTLC{inA, inB, inC} {
		if out := b.r.env.Deliver(b.ctx, m); out.Class != hx.OK {
			if os.Getenv("VERIF_DEBUG") != "" {
				fmt.Fprintf(os.Stderr, "debug: carry setup -> %s %s\n", out.Class, out.Err)
			}
			b.r.Stats["carry.htlc.setup-failed"]++
			return
		}
	}
	if b.r.env.Deliver(b.ctx, &htlctypes.MsgClaimHTLC{Sender: user.String(), Id: idA, Secret: sA}).Class != hx.OK {
		b.r.Stats["carry.htlc.setup-failed"]++
		return
	}
	for _, m := range []*htlctypes.MsgCreateHTLC{outD, outE} {
		if b.r.env.Deliver(b.ctx, m).Class != hx.OK {
			b.r.Stats["carry.htlc.setup-failed"]++
			return
		}
	}
	b.next()
	if p, _ := hx.NoPanic(func() { htlcmod.BeginBlocker(b.ctx, k) }); p {
		b.r.Stats["carry.htlc.setup-failed"]++
		return
	}
	// the stored set takes over
	if err := k.SetParams(b.ctx, stored); err != nil {
		hx.Fail("carry: stored set refused: %v", err)
	}
	b.r.Stats["carry.htlc.run"]++
	b.next()
	b.hook("carry_begin_block", func() { htlcmod.BeginBlocker(b.ctx, k) })
	b.msg("carry_claim_in", &htlctypes.MsgClaimHTLC{Sender: user.String(), Id: idB, Secret: sB})
	b.msg("carry_claim_out", &htlctypes.MsgClaimHTLC{Sender: deputy.String(), Id: idD, Secret: sD})
	ts = uint64(b.ctx.BlockTime().Unix())
	newIn, _ := mk(sF, deputy, user, 2500, as.MinBlockLock)
	b.msg("carry_new_in", newIn)
	newIn2, _ := mk(strings.Repeat("07", 32), deputy, user, 7, as.MinBlockLock)
	b.msg("carry_new_in_small", newIn2)
	newOut, _ := mk(strings.Repeat("08", 32), user, deputy, 1200, as.MaxBlockLock)
	b.msg("carry_new_out", newOut)
	b.next()
	b.hook("carry_begin_block2", func() { htlcmod.BeginBlocker(b.ctx, k) })
	h := b.ctx.BlockHeight()
	for i := int64(0); i < 3; i++ { // the expiry heights of C and E (created at the first carry height, lock 50)
		b.ctx = hx.WithBlock(b.ctx, h+47+i, blockTime(h+47+i))
		b.hook(fmt.Sprintf("carry_expire%d", i), func() { htlcmod.BeginBlocker(b.ctx, k) })
	}
}

// ---------------------------------------------------------------- service

const (
	okInput = `{"header":{},"body":{}}`
	okOut   = `{"header":{},"body":{"v":1}}`
	okSch   = `{"input":{"type":"object"},"output":{"type":"object"}}`
)

func (b *run) service() {
	k := b.r.env.Service
	p := k.GetParams(b.ctx)
	a0, a1, a2 := hx.Acc(0).String(), hx.Acc(1).String(), hx.Acc(2).String()
	base := p.BaseDenom
	big := hx.MustInt("100000000000000000000") // 10^20
	if sdk.ValidateDenom(base) == nil {
		for _, a := range []sdk.AccAddress{hx.Acc(1), hx.Acc(2)} {
			b.r.env.Fund(b.ctx, a, sdk.NewCoins(sdk.NewCoin(base, big.MulRaw(10))))
		}
	}
	min64 := func(x, y int64) int64 {
		if x < y {
			return x
		}
		return y
	}
	qos := uint64(min64(p.MaxRequestTimeout, 2))
	timeout := min64(p.MaxRequestTimeout, 3)
	dep := sdk.Coins{sdk.Coin{Denom: base, Amount: big}}
	b.msg("define", &svctypes.MsgDefineService{Name: "svc", Description: "d", Author: a0, AuthorDescription: "a", Schemas: okSch})
	b.msg("bind", &svctypes.MsgBindService{ServiceName: "svc", Provider: a1, Deposit: dep, Pricing: `{"price":"10` + base + `"}`, QoS: qos, Options: "{}", Owner: a1})
	b.ctx = b.ctx.WithTxBytes([]byte("tx1"))
	capc := sdk.Coins{sdk.Coin{Denom: base, Amount: sdkmath.NewInt(1000)}}
	b.msg("call", &svctypes.MsgCallService{ServiceName: "svc", Providers: []string{a1}, Consumer: a2, Input: okInput, ServiceFeeCap: capc, Timeout: timeout})
	b.hook("end_block", func() { svcmod.EndBlocker(b.ctx, k) })
	b.next()
	b.hook("begin_block", func() { svcmod.BeginBlocker(b.ctx, k) })
	var req string
	k.IterateRequests(b.ctx, func(id tmbytes.HexBytes, _ svctypes.CompactRequest) bool { req = id.String(); return true })
	b.msg("respond", &svctypes.MsgRespondService{RequestId: req, Provider: a1, Result: `{"code":200,"message":""}`, Output: okOut})
	b.ctx = b.ctx.WithTxBytes([]byte("tx2"))
	b.msg("call2", &svctypes.MsgCallService{ServiceName: "svc", Providers: []string{a1}, Consumer: a2, Input: okInput, ServiceFeeCap: capc, Timeout: timeout})
	b.hook("end_block2", func() { svcmod.EndBlocker(b.ctx, k) })
	for i := int64(0); i < timeout; i++ { // the request of call2 expires unanswered: slash + refund
		b.next()
		b.hook("begin_block", func() { svcmod.BeginBlocker(b.ctx, k) })
		b.hook("end_block3", func() { svcmod.EndBlocker(b.ctx, k) })
	}
	b.msg("withdraw", &svctypes.MsgWithdrawEarnedFees{Owner: a1, Provider: a1})
	b.msg("update_binding", &svctypes.MsgUpdateServiceBinding{ServiceName: "svc", Provider: a1, Deposit: sdk.Coins{sdk.Coin{Denom: base, Amount: sdkmath.NewInt(5)}}, Pricing: "", QoS: qos, Options: "", Owner: a1})
	b.msg("disable", &svctypes.MsgDisableServiceBinding{ServiceName: "svc", Provider: a1, Owner: a1})
	b.msg("enable", &svctypes.MsgEnableServiceBinding{ServiceName: "svc", Provider: a1, Deposit: nil, Owner: a1})
	b.msg("disable2", &svctypes.MsgDisableServiceBinding{ServiceName: "svc", Provider: a1, Owner: a1})
	// past the arbitration + complaint window of the default parameters (20 days)
	b.ctx = hx.WithBlock(b.ctx, b.ctx.BlockHeight()+1, b.ctx.BlockTime().Add(21*24*time.Hour))
	b.msg("refund_deposit", &svctypes.MsgRefundServiceDeposit{ServiceName: "svc", Provider: a1, Owner: a1})
}

// serviceCarry: a binding and two outstanding requests are created under the default parameters; then the
// stored set takes over (other base denom, deposit multiple, slash fraction, tax, timeouts) and the pending
// objects are answered, expired (slash + refund), withdrawn, updated, disabled, enabled and refunded.
func (b *run) serviceCarry() {
	k := b.r.env.Service
	stored := k.GetParams(b.ctx)
	dp := svctypes.DefaultParams()
	if err := k.SetParams(b.ctx, dp); err != nil {
		hx.Fail("carry: default service params: %v", err)
	}
	a0, a1, a2 := hx.Acc(0).String(), hx.Acc(1).String(), hx.Acc(2).String()
	base := dp.BaseDenom
	big := hx.MustInt("100000000000000000000") // 10^20
	for _, a := range []sdk.AccAddress{hx.Acc(1), hx.Acc(2)} {
		b.r.env.Fund(b.ctx, a, sdk.NewCoins(sdk.NewCoin(base, big.MulRaw(10))))
	}
	dep := sdk.Coins{sdk.Coin{Denom: base, Amount: big}}
	capc := sdk.Coins{sdk.Coin{Denom: base, Amount: sdkmath.NewInt(1000)}}
	setup := func(m sdk.Msg) bool {
		if out := b.r.env.Deliver(b.ctx, m); out.Class != hx.OK {
			if os.Getenv("VERIF_DEBUG") != "" {
				fmt.Fprintf(os.Stderr, "debug: service carry setup -> %s %s\n", out.Class, out.Err)
			}
			b.r.Stats["carry.service.setup-failed"]++
			return false
		}
		return true
	}
	if !setup(&svctypes.MsgDefineService{Name: "csvc", Description: "d", Author: a0, AuthorDescription: "a", Schemas: okSch}) ||
		!setup(&svctypes.MsgBindService{ServiceName: "csvc", Provider: a1, Deposit: dep, Pricing: `{"price":"10` + base + `"}`, QoS: 2, Options: "{}", Owner: a1}) {
		return
	}
	b.ctx = b.ctx.WithTxBytes([]byte("ctx1"))
	if !setup(&svctypes.MsgCallService{ServiceName: "csvc", Providers: []string{a1}, Consumer: a2, Input: okInput, ServiceFeeCap: capc, Timeout: 3}) {
		return
	}
	b.ctx = b.ctx.WithTxBytes([]byte("ctx2"))
	if !setup(&svctypes.MsgCallService{ServiceName: "csvc", Providers: []string{a1}, Consumer: a2, Input: okInput, ServiceFeeCap: capc, Timeout: 3}) {
		return
	}
	if p, _ := hx.NoPanic(func() { svcmod.EndBlocker(b.ctx, k) }); p {
		b.r.Stats["carry.service.setup-failed"]++
		return
	}
	var reqs []string
	k.IterateRequests(b.ctx, func(id tmbytes.HexBytes, r svctypes.CompactRequest) bool { reqs = append(reqs, id.String()); return false })
	if len(reqs) != 2 {
		b.r.Stats["carry.service.setup-failed"]++
		return
	}
	// the stored set takes over
	if err := k.SetParams(b.ctx, stored); err != nil {
		hx.Fail("carry: stored set refused: %v", err)
	}
	b.r.Stats["carry.service.run"]++
	b.next()
	b.hook("carry_begin_block", func() { svcmod.BeginBlocker(b.ctx, k) })
	b.msg("carry_respond", &svctypes.MsgRespondService{RequestId: reqs[0], Provider: a1, Result: `{"code":200,"message":""}`, Output: okOut})
	b.hook("carry_end_block", func() { svcmod.EndBlocker(b.ctx, k) })
	for i := 0; i < 3; i++ { // the second request expires unanswered under the stored set: slash + refund
		b.next()
		b.hook("carry_begin_block", func() { svcmod.BeginBlocker(b.ctx, k) })
		b.hook("carry_expire", func() { svcmod.EndBlocker(b.ctx, k) })
	}
	b.msg("carry_withdraw", &svctypes.MsgWithdrawEarnedFees{Owner: a1, Provider: a1})
	b.msg("carry_update_binding", &svctypes.MsgUpdateServiceBinding{ServiceName: "csvc", Provider: a1, Deposit: sdk.Coins{sdk.Coin{Denom: base, Amount: sdkmath.NewInt(5)}}, Pricing: "", QoS: 2, Options: "", Owner: a1})
	b.msg("carry_disable", &svctypes.MsgDisableServiceBinding{ServiceName: "csvc", Provider: a1, Owner: a1})
	b.msg("carry_enable", &svctypes.MsgEnableServiceBinding{ServiceName: "csvc", Provider: a1, Deposit: nil, Owner: a1})
	b.msg("carry_disable2", &svctypes.MsgDisableServiceBinding{ServiceName: "csvc", Provider: a1, Owner: a1})
	b.ctx = hx.WithBlock(b.ctx, b.ctx.BlockHeight()+1, b.ctx.BlockTime().Add(400*24*time.Hour))
	b.msg("carry_refund_deposit", &svctypes.MsgRefundServiceDeposit{ServiceName: "csvc", Provider: a1, Owner: a1})
}

// ---------------------------------------------------------------- token

func (b *run) token() {
	k := b.r.env.Token
	a0, a1 := hx.Acc(0).String(), hx.Acc(1).String()
	stored := k.GetParams(b.ctx)
	if err := k.SetParams(b.ctx, tokenv1.DefaultParams()); err != nil {
		hx.Fail("%v", err)
	}
	b.must("issue kitty", &tokenv1.MsgIssueToken{Symbol: "kitty", Name: "Kitty", Scale: 6, MinUnit: "ukitty", InitialSupply: 1000, MaxSupply: 1000000, Mintable: true, Owner: a0})
	if err := k.SetParams(b.ctx, stored); err != nil {
		hx.Fail("restore: %v", err)
	}
	b.msg("issue", &tokenv1.MsgIssueToken{Symbol: "doggy", Name: "Doggy", Scale: 3, MinUnit: "udoggy", InitialSupply: 10, MaxSupply: 1000, Mintable: true, Owner: a0})
	b.msg("issue3", &tokenv1.MsgIssueToken{Symbol: "cat", Name: "Cat", Scale: 0, MinUnit: "cats", InitialSupply: 10, MaxSupply: 1000, Mintable: false, Owner: a0})
	b.msg("mint", &tokenv1.MsgMintToken{Coin: coin("ukitty", 5000000), Receiver: a1, Owner: a0})
	b.msg("burn", &tokenv1.MsgBurnToken{Coin: coin("ukitty", 1000000), Sender: a1})
	b.msg("edit", &tokenv1.MsgEditToken{Symbol: "kitty", Name: "Kitty2", MaxSupply: 2000000, Mintable: tokentypes.True, Owner: a0})
	b.msg("transfer_owner", &tokenv1.MsgTransferTokenOwner{SrcOwner: a0, DstOwner: a1, Symbol: "kitty"})
}
