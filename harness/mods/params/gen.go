package params

import (
	"fmt"
	"strings"

	"verifharness/hx"
)

const (
	p2_255  = "57896044618658097711785492504343953926634992332820282019728792003956564819968"
	p2_256m = "115792089237316195423570985008687907853269984665640564039457584007913129639935"
	one18   = "1000000000000000000"
)

func pick(g *hx.Rng, xs ...string) string { return xs[g.Intn(len(xs))] }

// decimals strictly inside (0,1)
func decIn(g *hx.Rng) string {
	return pick(g, "1", "999999999999999999", "3000000000000000", "400000000000000000", "500000000000000000", "50000000000000000",
		"1000000000000000", "333333333333333333", "100000000000000000", "999999999999999998")
}

// boundary decimals 0 and 1
func decEdge(g *hx.Rng) string { return pick(g, "0", one18) }

// decimals outside [0,1] or unset
func decOut(g *hx.Rng) string {
	return pick(g, "nil", "-1", "-"+one18, "1000000000000000001", "2000000000000000000", "-400000000000000000",
		"100000000000000000000000000000000000000000", "nil")
}

func decAny(g *hx.Rng) string {
	switch g.Pick(5, 3, 3) {
	case 0:
		return decIn(g)
	case 1:
		return decEdge(g)
	}
	return decOut(g)
}

func amtPos(g *hx.Rng) string {
	return pick(g, "1", "2", "5000", "60000", "1000003", "1000000000000000000000000000000", p2_255, p2_256m,
		"57896044618658097711785492504343953926634992332820282019728792003956564819967", "5000", "5000")
}

func amtOdd(g *hx.Rng) string { return pick(g, "0", "nil", "-1", "-5000", "0") }

func denomOk(g *hx.Rng) string  { return pick(g, "stake", "stake", "stake", "eth", "btc", "kitty") }
func denomBad(g *hx.Rng) string { return pick(g, "-", "x", "1bad", "st", "a$b") }

// module list
var modules = []string{"coinswap", "farm", "htlc", "service", "token"}

// genFields draws one parameter set for the module: about half valid (boundaries included), the
// rest with one or two fields outside the validated range, unset, of extreme magnitude or with a
// malformed denomination.
func genFields(g *hx.Rng, mod string) string {
	bad := g.Chance(1, 2)
	which := g.Intn(8)
	switch mod {
	case "coinswap":
		fee, tax, uni := decIn(g), decIn(g), pick(g, decIn(g), "0", "2000000000000000")
		den, amt := denomOk(g), amtPos(g)
		if g.Chance(1, 6) { // denomination is not validated by the module
			den = denomBad(g)
		}
		if bad {
			switch which {
			case 0, 1:
				fee = pick(g, decEdge(g), decOut(g))
			case 2, 3:
				tax = pick(g, decEdge(g), decOut(g))
			case 4:
				uni = pick(g, one18, decOut(g))
			case 5, 6:
				amt = amtOdd(g)
			default:
				fee, amt = decAny(g), pick(g, amtOdd(g), amtPos(g))
			}
		}
		return hx.KV("fee", fee, "tax", tax, "uni", uni, "pcf", den+":"+amt)
	case "farm":
		den, amt := denomOk(g), pick(g, amtPos(g), "0", "5000")
		tax := pick(g, decIn(g), decIn(g), decIn(g), decAny(g)) // the tax rate is (at the time of writing) unvalidated
		maxcat := pick(g, "2", "1", "3", "0", "4294967295")
		if bad {
			switch which {
			case 0, 1, 2:
				den = denomBad(g)
			case 3, 4:
				amt = pick(g, "nil", "-1", "-5000")
			default:
				tax = pick(g, decEdge(g), decOut(g))
			}
		}
		return hx.KV("pcf", den+":"+amt, "tax", tax, "maxcat", maxcat)
	case "htlc":
		n := g.Pick(2, 6, 2)
		var as []string
		for i := 0; i < n; i++ {
			as = append(as, genAsset(g, i, bad && i == n-1, which))
		}
		if bad && n == 2 && which == 7 {
			as[1] = strings.Replace(as[1], "htltbtc", "htltbnb", 1) // duplicate denom
		}
		if len(as) == 0 {
			return "assets=-"
		}
		return "assets=" + strings.Join(as, ";")
	case "service":
		mrt := pick(g, "100", "1", "5", "9223372036854775807", "100")
		mdm := pick(g, "1000", "1", "2", "9223372036854775807", "1000")
		mindep := pick(g, "stake:5000", "stake:5000", "-", "eth:3+stake:5000", "eth:7", "stake:1", "stake:"+p2_255)
		tax := pick(g, decIn(g), decIn(g), "0", "50000000000000000")
		slash := pick(g, decIn(g), "0", one18, "1000000000000000")
		cr := pick(g, "1296000000000000", "1", "9223372036854775807")
		atl := pick(g, "432000000000000", "1", "9223372036854775807")
		txs := pick(g, "4000", "1", "18446744073709551615")
		base := pick(g, "stake", "stake", "stake", "eth", "kitty")
		restr := pick(g, "0", "1")
		if bad {
			switch which {
			case 0:
				mrt = pick(g, "0", "-1", "-9223372036854775808")
			case 1:
				mdm = pick(g, "0", "-1")
			case 2:
				mindep = pick(g, "stake:0", "stake:5000+eth:3", "stake:1+stake:2", "x:5", "stake:nil", "stake:-1", "-:5", "x:nil", "eth:3+stake:nil")
			case 3:
				tax = pick(g, one18, decOut(g))
			case 4:
				slash = pick(g, decOut(g), "1000000000000000001")
			case 5:
				if g.Chance(1, 2) {
					cr = pick(g, "0", "-1")
				} else {
					atl = pick(g, "0", "-1")
				}
			case 6:
				txs = "0"
			default:
				base = denomBad(g)
			}
		}
		return hx.KV("mrt", mrt, "mdm", mdm, "mindep", mindep, "tax", tax, "slash", slash, "cr", cr, "atl", atl, "txsize", txs, "base", base, "restricted", restr)
	case "token":
		tax := pick(g, decIn(g), decIn(g), "0", one18)
		ratio := pick(g, decIn(g), decIn(g), "0", one18)
		den := pick(g, "stake", "stake", "stake", "stake", "eth", "kitty")
		amt := pick(g, amtPos(g), "60000", "0", "60000")
		if g.Chance(1, 6) { // denomination is not validated by the module
			den = denomBad(g)
		}
		erc := pick(g, "1", "0")
		beacon := pick(g, "-", "-", "0x00000000000000000000000000000000000000aa")
		if bad {
			switch which {
			case 0, 1:
				tax = decOut(g)
			case 2, 3:
				ratio = decOut(g)
			case 4, 5:
				amt = pick(g, "nil", "-1", "-60000")
			case 6:
				beacon = pick(g, "0x12", "zz", "0x00000000000000000000000000000000000000zz")
			default:
				tax, amt = decAny(g), pick(g, "nil", "-1", amtPos(g))
			}
		}
		return hx.KV("tax", tax, "fee", den+":"+amt, "ratio", ratio, "erc20", erc, "beacon", beacon)
	}
	hx.Fail("unknown module %s", mod)
	return ""
}

func genAsset(g *hx.Rng, idx int, bad bool, which int) string {
	denom := []string{"htltbnb", "htltbtc"}[idx%2]
	limit := pick(g, "1000000000", "1000000000000000000000000", p2_256m, p2_255, "50000", "0")
	tl := pick(g, "0", "1")
	period := pick(g, "3600000000000", "1", "0", "-1", "5000000000", "9223372036854775807")
	tbl := pick(g, "0", "1000", "50000", limit, limit)
	if tl == "0" || !intLE(tbl, limit) {
		tbl = pick(g, "0", limit)
	}
	active := pick(g, "1", "1", "1", "0")
	deputy := pick(g, "A3", "A3", "A4", "A1")
	fee := pick(g, "0", "1000", "1", p2_255, p2_256m)
	minS := pick(g, "1", "1", "100", "1000", p2_255)
	maxS := pick(g, "1000000", "1000000000000", p2_255, p2_256m, "1000")
	if !intLE(minS, maxS) {
		maxS = minS
	}
	minL := pick(g, "50", "50", "60", "220")
	maxL := pick(g, "34560", "270", "220", "34560")
	if !intLE(minL, maxL) {
		maxL = minL
	}
	if bad {
		switch which {
		case 0:
			denom = pick(g, "htlt", "bnbhtlt", "HTLTbnb", "-", "htltB", "htlt$bnb")
		case 1:
			limit = pick(g, "-1", "nil")
			tbl = "0"
		case 2:
			if g.Chance(1, 2) {
				tbl = pick(g, "-1", "nil")
			} else if limit != p2_256m && limit != "nil" {
				tbl = addOne(limit)
			} else {
				tbl = "-5"
			}
		case 3:
			deputy = pick(g, "bad", "-")
		case 4:
			fee = pick(g, "-1", "nil")
		case 5:
			if g.Chance(1, 2) {
				minL = pick(g, "49", "0")
			} else {
				maxL = pick(g, "34561", "18446744073709551615")
			}
			if g.Chance(1, 4) {
				minL, maxL = "300", "200"
			}
		case 6:
			switch g.Intn(4) {
			case 0:
				minS = pick(g, "0", "-1", "nil")
			case 1:
				maxS = pick(g, "0", "-1", "nil")
			case 2:
				minS, maxS = "1001", "1000"
			default:
				minS, maxS = "nil", "nil"
			}
		}
	}
	return strings.Join([]string{denom, limit, tl, period, tbl, active, deputy, fee, minS, maxS, minL, maxL}, ",")
}

func intLE(a, b string) bool {
	if a == "nil" || b == "nil" {
		return true
	}
	return parseInt(a).LTE(parseInt(b))
}

func addOne(a string) string { return parseInt(a).AddRaw(1).String() }

// Gen draws the next operation line.
func (r *R) Gen(ctx ctxT, g *hx.Rng) string {
	mod := modules[g.Intn(len(modules))]
	switch g.Pick(20, 40, 8, 32) {
	case 0:
		return fmt.Sprintf("params validate module=%s %s", mod, genFields(g, mod))
	case 1:
		sender := "authority"
		if g.Chance(1, 6) {
			sender = pick(g, "A1", "A0", "A2")
		}
		fields := genFields(g, mod)
		if g.Chance(1, 5) {
			fields = r.derived(ctx, g, mod) // a variation of what is stored now
		}
		direct := ""
		if g.Chance(1, 4) {
			direct = " direct=1"
		}
		if g.Chance(1, 8) {
			return fmt.Sprintf("params ghost_update module=%s sender=%s %s%s", mod, sender, fields, direct)
		}
		return fmt.Sprintf("params update module=%s sender=%s %s%s", mod, sender, fields, direct)
	case 2:
		return fmt.Sprintf("params genesis module=%s %s", mod, genFields(g, mod))
	}
	return fmt.Sprintf("params battery module=%s", mod)
}

// derived draws an update that is a small variation of the CURRENTLY STORED set: validation
// that looks only at what changed (or only at each entry on its own) passes such sets although
// the whole set is invalid. htlc: the stored asset list with a stored entry appended again
// (verbatim, or same denom with another limit), or with one entry replaced; other modules: the
// stored set with one field taken from a fresh — possibly invalid — draw.
func (r *R) derived(ctx ctxT, g *hx.Rng, mod string) string {
	cur := r.stored(ctx, mod)
	if mod == "htlc" {
		if cur == "assets=-" {
			return genFields(g, mod)
		}
		as := strings.Split(strings.TrimPrefix(cur, "assets="), ";")
		one := as[g.Intn(len(as))]
		switch g.Intn(3) {
		case 0:
			as = append(as, one)
		case 1:
			f := strings.Split(one, ",")
			if len(f) > 1 {
				f[1] = "1000000007"
			}
			as = append(as, strings.Join(f, ","))
		default:
			as[g.Intn(len(as))] = genAsset(g, g.Intn(2), g.Chance(1, 2), g.Intn(8))
		}
		return "assets=" + strings.Join(as, ";")
	}
	curF := strings.Fields(cur)
	fresh := strings.Fields(genFields(g, mod))
	if len(curF) == 0 || len(fresh) == 0 {
		return genFields(g, mod)
	}
	over := fresh[g.Intn(len(fresh))]
	key := over[:strings.Index(over, "=")+1]
	for i, kv := range curF {
		if strings.HasPrefix(kv, key) {
			curF[i] = over
		}
	}
	return strings.Join(curF, " ")
}
