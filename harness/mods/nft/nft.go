// Package nft drives the real irismod NFT module (message router + keeper wrapping the
// Cosmos SDK x/nft keeper) for C14. Observations are read back through the real query
// servers (irismod Denoms/Collection/Supply/NFTsOfOwner, SDK x/nft Owner).
package nft

import (
	"encoding/hex"
	"fmt"
	"sort"
	"strconv"
	"strings"

	storetypes "cosmossdk.io/store/types"
	sdknft "cosmossdk.io/x/nft"
	sdk "github.com/cosmos/cosmos-sdk/types"
	"github.com/cosmos/cosmos-sdk/types/query"

	nfttypes "mods.irisnet.org/modules/nft/types"

	"verifharness/hx"
)

// universe: A0..A3 act and own; A4 is a stranger that mostly only sends.
const nAcc = 5

const sentinel = "[do-not-modify]"

type R struct {
	env   *hx.Env
	names map[string]string // bech32 -> symbolic
	queue []string          // scripted follow-up lines of a scenario (generation only)
}

func New(env *hx.Env) *R {
	r := &R{env: env, names: map[string]string{}}
	for i := 0; i < 10; i++ {
		r.names[hx.Acc(i).String()] = hx.AccName(i)
	}
	return r
}

func (r *R) Module() string { return "nft" }

func (r *R) ResetLine(*hx.Rng) string { return "nft reset" }

func (r *R) Reset(ctx sdk.Context, _ string) (sdk.Context, string) {
	r.queue = nil
	return ctx, "ok " + r.state(ctx)
}

func (r *R) sym(bech string) string {
	if bech == "" {
		return "-"
	}
	if s, ok := r.names[bech]; ok {
		return s
	}
	return bech
}

// addr maps a symbolic account to its bech32 string; "-" is the empty (invalid) address.
func (r *R) addr(sym string) string {
	if sym == "-" {
		return ""
	}
	if strings.HasPrefix(sym, "A") {
		if i, err := strconv.Atoi(sym[1:]); err == nil {
			return hx.Acc(i).String()
		}
	}
	return sym
}

func hx16(s string) string { return hx.Dash(hex.EncodeToString([]byte(s))) }

func unhex(s string) string {
	s = hx.Undash(s)
	b, err := hex.DecodeString(s)
	if err != nil {
		hx.Fail("bad hex %q", s)
	}
	return string(b)
}

func b01(b bool) string {
	if b {
		return "1"
	}
	return "0"
}

type tokView struct{ class, id, owner string }
type classView struct {
	id, creator string
	mr, ur      bool
}

// view reads classes and tokens through the query servers.
func (r *R) view(ctx sdk.Context) (classes []classView, toks []tokView, classLines, tokLines []string) {
	k := r.env.NFT
	var denoms []nfttypes.Denom
	var key []byte
	for {
		res, err := k.Denoms(ctx, &nfttypes.QueryDenomsRequest{Pagination: &query.PageRequest{Key: key}})
		if err != nil {
			hx.Fail("Denoms query: %v", err)
		}
		denoms = append(denoms, res.Denoms...)
		if res.Pagination == nil || len(res.Pagination.NextKey) == 0 {
			break
		}
		key = res.Pagination.NextKey
	}
	for _, d := range denoms {
		sup, err := k.Supply(ctx, &nfttypes.QuerySupplyRequest{DenomId: d.Id})
		if err != nil {
			hx.Fail("Supply query: %v", err)
		}
		classes = append(classes, classView{d.Id, r.sym(d.Creator), d.MintRestricted, d.UpdateRestricted})
		classLines = append(classLines, strings.Join([]string{d.Id, r.sym(d.Creator), b01(d.MintRestricted), b01(d.UpdateRestricted),
			strconv.FormatUint(sup.Amount, 10), hx16(d.Name), hx16(d.Symbol), hx16(d.Schema), hx16(d.Description), hx16(d.Uri), hx16(d.UriHash), hx16(d.Data)}, ";"))
		var pk []byte
		for {
			res, err := k.Collection(ctx, &nfttypes.QueryCollectionRequest{DenomId: d.Id, Pagination: &query.PageRequest{Key: pk}})
			if err != nil {
				hx.Fail("Collection query: %v", err)
			}
			for _, t := range res.Collection.NFTs {
				// the owner as the SDK x/nft Owner query reports it (0x04 owner key)
				ow, err := k.NFTkeeper().Owner(ctx, &sdknft.QueryOwnerRequest{ClassId: d.Id, Id: t.Id})
				if err != nil {
					hx.Fail("Owner query: %v", err)
				}
				if ow.Owner != t.Owner {
					hx.Fail("Collection owner %q differs from Owner query %q", t.Owner, ow.Owner)
				}
				toks = append(toks, tokView{d.Id, t.Id, r.sym(ow.Owner)})
				tokLines = append(tokLines, strings.Join([]string{d.Id + "|" + t.Id, r.sym(ow.Owner), hx16(t.Name), hx16(t.URI), hx16(t.UriHash), hx16(t.Data)}, ";"))
			}
			if res.Pagination == nil || len(res.Pagination.NextKey) == 0 {
				break
			}
			pk = res.Pagination.NextKey
		}
	}
	return
}

// State renders the canonical module state (hx.Stater): the projection the observation lines carry.
// GhostChance: now and then an operation is executed on a context that is thrown away (hx.Ghoster).
func (r *R) GhostChance() (int, int) { return 1, 12 }

func (r *R) State(ctx sdk.Context) string { return r.state(ctx) }

// state renders the canonical observation line.
func (r *R) state(ctx sdk.Context) string {
	k := r.env.NFT
	classes, _, cl, tl := r.view(ctx)
	var idx, bals []string
	for i := 0; i < nAcc; i++ {
		a := hx.Acc(i).String()
		// owner index (0x03 keys) through NFTsOfOwner, all classes of this owner
		var pk []byte
		for {
			res, err := k.NFTsOfOwner(ctx, &nfttypes.QueryNFTsOfOwnerRequest{Owner: a, Pagination: &query.PageRequest{Key: pk}})
			if err != nil {
				hx.Fail("NFTsOfOwner query: %v", err)
			}
			for _, c := range res.Owner.IDCollections {
				for _, t := range c.TokenIds {
					idx = append(idx, hx.AccName(i)+"|"+c.DenomId+"|"+t)
				}
			}
			if res.Pagination == nil || len(res.Pagination.NextKey) == 0 {
				break
			}
			pk = res.Pagination.NextKey
		}
		for _, c := range classes {
			res, err := k.Supply(ctx, &nfttypes.QuerySupplyRequest{DenomId: c.id, Owner: a})
			if err != nil {
				hx.Fail("Supply(owner) query: %v", err)
			}
			if res.Amount != 0 {
				bals = append(bals, fmt.Sprintf("%s|%s;%d", hx.AccName(i), c.id, res.Amount))
			}
		}
	}
	sort.Strings(cl)
	sort.Strings(tl)
	sort.Strings(idx)
	sort.Strings(bals)
	return "classes=" + strings.Join(cl, ",") + " tokens=" + strings.Join(tl, ",") + " idx=" + strings.Join(idx, ",") + " bals=" + strings.Join(bals, ",")
}

// ---------------------------------------------------------------- generation

var (
	id101     = "z" + strings.Repeat("a/B9", 25)       // 101 characters: the longest legal id
	id102     = "z" + strings.Repeat("a/B9", 25) + "x" // one too long
	classPool = []string{"cla", "clax", "clb/x9", "clcC", "kk7", id101} // "clax" extends "cla": key-prefix collisions
	tokPool   = []string{"t0a", "t0ab", "t1/b", "t2C", "t3x", "t4y", "t5z", "abc", id101}
	// ids that ValidateBasic must refuse (or, for tibc-, accept syntactically)
	badIds = []string{"-", "ab", "a", id102, "Abc", "1bc", "a-bc", "ab_c", "ab:c", "ab.c", "abé", "ab#", "/ab", "aB", "tibc-xyz", "tibc-", "ibc/abc"}
	// well-formed ids that IssueDenom refuses as reserved
	keywordIds = []string{"pegabc", "ibcabc", "htltabc", "tibcabc", "peg", "ibc/x", "htlt"}
	jsonGood   = []string{"", "{}", `{"a":1}`, `[1,2]`, `"s"`, "123", "-0.5e+3", "true", ` {"k":"v"} `, `{"a":[{"b":null},false]}`, `"é\n"`, "0", "[]", `{"a":1 , "b":2}`}
	jsonBad    = []string{"{", `{"a"}`, "[1,]", "01", "abc", `{"a":1}x`, "-", `"abc`, `{"a":1,}`, `[1 2]`, "tru", "1.", "1e", `"\x"`, "\"a\tb\"", " ", sentinel + " "}
)

func (r *R) acc(g *hx.Rng) string { return hx.AccName(g.Intn(4)) }

// anyAcc includes the stranger A4 now and then.
func (r *R) anyAcc(g *hx.Rng) string {
	if g.Chance(1, 6) {
		return "A4"
	}
	return r.acc(g)
}

func uriOfLen(n int, g *hx.Rng) string {
	if n <= 0 {
		return ""
	}
	b := []byte("ipfs://")
	for len(b) < n {
		b = append(b, byte('a'+g.Intn(26)))
	}
	return string(b[:n])
}

// str draws a short free-form string (names, hashes, schema ...).
func str(g *hx.Rng) string {
	switch g.Intn(6) {
	case 0:
		return ""
	case 1:
		return "n" + strconv.Itoa(g.Intn(50))
	case 2:
		return "two words"
	case 3:
		return "héllo"
	case 4:
		return "x,y;z|w=1"
	default:
		return hex.EncodeToString(g.Bytes(2))
	}
}

func uri(g *hx.Rng) string {
	switch g.Pick(16, 1, 3, 1) {
	case 0:
		return uriOfLen(8+g.Intn(20), g)
	case 1:
		return uriOfLen(256, g) // the longest legal URI
	case 2:
		return ""
	default:
		return uriOfLen(255, g)
	}
}

func data(g *hx.Rng) string { return jsonGood[g.Intn(len(jsonGood))] }

var soupToks = []string{"{", "}", "[", "]", ",", ":", "\"", "\"a\"", "\"k\":", "\\", "\\u00e9", "\\u12", "\\n", "0", "1", "12", "-", ".", ".5", "e", "E+", "e-3", "true", "false", "null", "tru", " ", "\t", "\n", "x", "é", "\x01"}

// soup is a random concatenation of JSON fragments: mostly invalid, sometimes valid; it aims at
// the boundary of gjson.Valid.
func soup(g *hx.Rng) string {
	var sb strings.Builder
	n := 1 + g.Intn(7)
	for i := 0; i < n; i++ {
		sb.WriteString(soupToks[g.Intn(len(soupToks))])
	}
	return sb.String()
}

// change draws a field of an edit / transfer: sentinel, empty or a new value.
func change(g *hx.Rng, fresh func() string) string {
	switch g.Pick(5, 2, 4) {
	case 0:
		return sentinel
	case 1:
		return ""
	default:
		return fresh()
	}
}

func (r *R) issueLine(g *hx.Rng, sender, id string, mr, ur bool) string {
	return "nft issue " + hx.KV("sender", sender, "id", hx.Dash(id), "mr", b01(mr), "ur", b01(ur),
		"name", hx16(str(g)), "symbol", hx16(str(g)), "schema", hx16(str(g)), "desc", hx16(str(g)),
		"uri", hx16(uri(g)), "urihash", hx16(str(g)), "data", hx16(data(g)))
}

func mintLine(sender, rcpt, denom, id, name, u, uh, d string) string {
	return "nft mint " + hx.KV("sender", sender, "recipient", rcpt, "denom", hx.Dash(denom), "id", hx.Dash(id),
		"name", hx16(name), "uri", hx16(u), "urihash", hx16(uh), "data", hx16(d))
}

func editLine(sender, denom, id, name, u, uh, d string) string {
	return "nft edit " + hx.KV("sender", sender, "denom", hx.Dash(denom), "id", hx.Dash(id),
		"name", hx16(name), "uri", hx16(u), "urihash", hx16(uh), "data", hx16(d))
}

func transferLine(sender, rcpt, denom, id, name, u, uh, d string) string {
	return "nft transfer " + hx.KV("sender", sender, "recipient", rcpt, "denom", hx.Dash(denom), "id", hx.Dash(id),
		"name", hx16(name), "uri", hx16(u), "urihash", hx16(uh), "data", hx16(d))
}

func burnLine(sender, denom, id string) string {
	return "nft burn " + hx.KV("sender", sender, "denom", hx.Dash(denom), "id", hx.Dash(id))
}

func handoverLine(sender, rcpt, id string) string {
	return "nft transfer_denom " + hx.KV("sender", sender, "recipient", rcpt, "id", hx.Dash(id))
}

func (r *R) Gen(ctx sdk.Context, g *hx.Rng) string {
	if len(r.queue) > 0 {
		l := r.queue[0]
		r.queue = r.queue[1:]
		return l
	}
	classes, toks, _, _ := r.view(ctx)
	pickClass := func() classView {
		if len(classes) == 0 || g.Chance(1, 25) {
			return classView{id: "nosuch", creator: r.acc(g)}
		}
		return classes[g.Intn(len(classes))]
	}
	pickTok := func() tokView {
		if len(toks) == 0 || g.Chance(1, 20) {
			c := pickClass()
			return tokView{c.id, tokPool[g.Intn(len(tokPool))], r.acc(g)}
		}
		return toks[g.Intn(len(toks))]
	}
	freshOrUsedTok := func(c string) string {
		// small pool: burnt ids come back, live ids are hit now and then
		return tokPool[g.Intn(len(tokPool))]
	}
	if g.Chance(1, 16) { // pure conformance case for the data rule of ValidateBasic (gjson.Valid)
		d := soup(g)
		switch g.Intn(5) {
		case 0:
			d = jsonGood[g.Intn(len(jsonGood))]
		case 1:
			d = jsonBad[g.Intn(len(jsonBad))]
		}
		return "nft vjson data=" + hx16(d)
	}
	if len(classes) > 0 && g.Chance(1, 25) { // genesis round trip in the middle of a history (C12)
		if g.Chance(1, 2) {
			return "nft export"
		}
		return "nft reimport"
	}
	kind := g.Pick(3, 10, 7, 10, 5, 3, 4, 3)
	if len(classes) == 0 && g.Chance(4, 5) {
		kind = 0
	}
	if len(classes) < 3 && g.Chance(1, 3) {
		kind = 0
	}
	if kind == 0 && len(classes) >= 4 && g.Chance(2, 3) {
		kind = 1
	}
	urOf := map[string]bool{}
	for _, c := range classes {
		urOf[c.id] = c.ur
	}
	switch kind {
	case 0: // issue: every combination of the two flags; sometimes an id that exists already
		id := classPool[g.Intn(len(classPool))]
		return r.issueLine(g, r.acc(g), id, g.Chance(1, 2), g.Chance(1, 2))
	case 1: // mint: creator mostly, strangers often (mint restriction), recipient anybody incl. the sender
		c := pickClass()
		sender := c.creator
		if g.Chance(2, 5) {
			sender = r.anyAcc(g)
		}
		rc := r.acc(g)
		if g.Chance(1, 6) {
			rc = sender
		}
		return mintLine(sender, rc, c.id, freshOrUsedTok(c.id), str(g), uri(g), str(g), data(g))
	case 2: // edit: owner mostly; sentinel / empty / changed fields
		t := pickTok()
		for i := 0; i < 3 && urOf[t.class] && g.Chance(3, 4); i++ { // update-restricted classes refuse every edit: do not starve the others
			t = pickTok()
		}
		sender := t.owner
		if g.Chance(3, 10) {
			sender = r.anyAcc(g)
		}
		if g.Chance(1, 8) { // nothing to modify at all
			return editLine(sender, t.class, t.id, sentinel, sentinel, sentinel, sentinel)
		}
		return editLine(sender, t.class, t.id, change(g, func() string { return str(g) }), change(g, func() string { return uri(g) }),
			change(g, func() string { return str(g) }), change(g, func() string { return data(g) }))
	case 3: // transfer: plain or with metadata changes; to self now and then
		t := pickTok()
		sender := t.owner
		if g.Chance(1, 4) {
			sender = r.anyAcc(g)
		}
		rc := r.acc(g)
		if g.Chance(1, 6) {
			rc = sender
		}
		if g.Chance(1, 2) {
			return transferLine(sender, rc, t.class, t.id, sentinel, sentinel, sentinel, sentinel)
		}
		u := change(g, func() string { return uri(g) })
		if g.Chance(1, 10) {
			u = uriOfLen(256+g.Intn(3), g) // the URI length rule of MsgTransferNFT.ValidateBasic (F-gen-4), at and past the limit
		}
		return transferLine(sender, rc, t.class, t.id, change(g, func() string { return str(g) }), u,
			change(g, func() string { return str(g) }), change(g, func() string { return data(g) }))
	case 4: // burn: owner mostly
		t := pickTok()
		sender := t.owner
		if g.Chance(3, 10) {
			sender = r.anyAcc(g)
		}
		return burnLine(sender, t.class, t.id)
	case 5: // class handover: creator mostly, to anybody incl. itself
		c := pickClass()
		sender := c.creator
		if g.Chance(1, 3) {
			sender = r.anyAcc(g)
		}
		return handoverLine(sender, r.acc(g), c.id)
	case 6:
		return r.malformed(ctx, g, classes, toks)
	default: // scripted scenarios
		switch g.Intn(4) {
		case 3: // one owner collects more than a query page (100) of tokens of one class, then one is moved and one burnt
			c := pickClass()
			to := r.acc(g)
			n := 125 + g.Intn(4) // one in twelve lines is a ghost execution: enough to pass a page of 100 regardless
			for i := 1; i < n; i++ {
				r.queue = append(r.queue, mintLine(c.creator, to, c.id, fmt.Sprintf("b%03d", i), "", "", "", ""))
			}
			r.queue = append(r.queue,
				transferLine(to, r.acc(g), c.id, "b001", sentinel, sentinel, sentinel, sentinel),
				burnLine(to, c.id, "b002"))
			return mintLine(c.creator, to, c.id, "b000", "", "", "", "")
		case 0: // handover then mint by the old and by the new creator
			c := pickClass()
			nw := r.acc(g)
			id1, id2 := freshOrUsedTok(c.id), freshOrUsedTok(c.id)
			r.queue = append(r.queue,
				mintLine(c.creator, r.acc(g), c.id, id1, str(g), uri(g), str(g), data(g)),
				mintLine(nw, r.acc(g), c.id, id2, str(g), uri(g), str(g), data(g)))
			return handoverLine(c.creator, nw, c.id)
		case 1: // burn then re-mint the same id with other metadata, then a second mint of it
			t := pickTok()
			c := pickClass()
			for _, cc := range classes {
				if cc.id == t.class {
					c = cc
				}
			}
			r.queue = append(r.queue,
				mintLine(c.creator, r.acc(g), t.class, t.id, "reborn", uri(g), str(g), data(g)),
				mintLine(c.creator, r.acc(g), t.class, t.id, "twice", uri(g), str(g), data(g)))
			return burnLine(t.owner, t.class, t.id)
		default: // transfer, then the previous owner tries to edit, transfer back and burn
			t := pickTok()
			nw := r.acc(g)
			r.queue = append(r.queue,
				editLine(t.owner, t.class, t.id, "late", sentinel, sentinel, sentinel),
				transferLine(t.owner, t.owner, t.class, t.id, sentinel, sentinel, sentinel, sentinel),
				burnLine(t.owner, t.class, t.id))
			return transferLine(t.owner, nw, t.class, t.id, sentinel, sentinel, sentinel, sentinel)
		}
	}
}

// malformed draws from the stream ValidateBasic / the keeper must refuse (plus a few
// boundary inputs that are legal and must be accepted).
func (r *R) malformed(ctx sdk.Context, g *hx.Rng, classes []classView, toks []tokView) string {
	cid := "cla"
	creator := "A0"
	if len(classes) > 0 {
		c := classes[g.Intn(len(classes))]
		cid, creator = c.id, c.creator
	}
	tk := tokView{cid, "t0a", creator}
	if len(toks) > 0 {
		tk = toks[g.Intn(len(toks))]
	}
	bad := func() string { return badIds[g.Intn(len(badIds))] }
	switch g.Intn(12) {
	case 0: // class id at the validation boundary
		return r.issueLine(g, r.acc(g), hx.Undash(bad()), g.Chance(1, 2), g.Chance(1, 2))
	case 1: // reserved prefix
		return r.issueLine(g, r.acc(g), keywordIds[g.Intn(len(keywordIds))], false, false)
	case 2: // class data that is not JSON
		l := r.issueLine(g, r.acc(g), classPool[g.Intn(len(classPool))], false, false)
		return l[:strings.LastIndex(l, "data=")] + "data=" + hx16(jsonBad[g.Intn(len(jsonBad))])
	case 3: // token id at the boundary
		return mintLine(creator, r.acc(g), cid, hx.Undash(bad()), str(g), uri(g), str(g), data(g))
	case 4: // URI one byte too long / multi-byte characters counted in bytes
		u := uriOfLen(257, g)
		if g.Chance(1, 2) {
			u = strings.Repeat("é", 128) + strings.Repeat("a", g.Intn(2)) // 256 or 257 bytes, 128/129 characters
		}
		if g.Chance(1, 2) {
			return mintLine(creator, r.acc(g), cid, tokPool[g.Intn(len(tokPool))], str(g), u, str(g), data(g))
		}
		return editLine(tk.owner, tk.class, tk.id, sentinel, u, sentinel, sentinel)
	case 5: // data not JSON on mint (the sentinel is not JSON either)
		d := jsonBad[g.Intn(len(jsonBad))]
		if g.Chance(1, 4) {
			d = sentinel
		} else if g.Chance(2, 3) {
			d = soup(g)
		}
		return mintLine(creator, r.acc(g), cid, tokPool[g.Intn(len(tokPool))], str(g), uri(g), str(g), d)
	case 6: // data not JSON on edit / transfer
		d := jsonBad[g.Intn(len(jsonBad))]
		if g.Chance(1, 2) {
			d = soup(g)
		}
		if g.Chance(1, 2) {
			return editLine(tk.owner, tk.class, tk.id, sentinel, sentinel, sentinel, d)
		}
		return transferLine(tk.owner, r.acc(g), tk.class, tk.id, sentinel, sentinel, sentinel, d)
	case 7: // empty sender / recipient
		switch g.Intn(5) {
		case 0:
			return mintLine("-", r.acc(g), cid, tokPool[g.Intn(len(tokPool))], "", "", "", "")
		case 1:
			return mintLine(creator, "-", cid, tokPool[g.Intn(len(tokPool))], "", "", "", "")
		case 2:
			return transferLine(tk.owner, "-", tk.class, tk.id, sentinel, sentinel, sentinel, sentinel)
		case 3:
			return burnLine("-", tk.class, tk.id)
		default:
			return handoverLine(creator, "-", cid)
		}
	case 8: // bad class id on the token messages
		switch g.Intn(4) {
		case 0:
			return mintLine(creator, r.acc(g), hx.Undash(bad()), "t0a", "", "", "", "")
		case 1:
			return editLine(tk.owner, hx.Undash(bad()), tk.id, "x", sentinel, sentinel, sentinel)
		case 2:
			return transferLine(tk.owner, r.acc(g), hx.Undash(bad()), tk.id, sentinel, sentinel, sentinel, sentinel)
		default:
			return handoverLine(creator, r.acc(g), hx.Undash(bad()))
		}
	case 9: // bad token id on edit / transfer / burn
		switch g.Intn(3) {
		case 0:
			return editLine(tk.owner, tk.class, hx.Undash(bad()), "x", sentinel, sentinel, sentinel)
		case 1:
			return transferLine(tk.owner, r.acc(g), tk.class, hx.Undash(bad()), sentinel, sentinel, sentinel, sentinel)
		default:
			return burnLine(tk.owner, tk.class, hx.Undash(bad()))
		}
	case 10: // unknown class / token, well-formed
		switch g.Intn(4) {
		case 0:
			return mintLine(creator, r.acc(g), "nosuch", "t0a", "", "", "", "")
		case 1:
			return burnLine(tk.owner, tk.class, "nosuchtok")
		case 2:
			return transferLine(tk.owner, r.acc(g), "nosuch", tk.id, sentinel, sentinel, sentinel, sentinel)
		default:
			return handoverLine(creator, r.acc(g), "nosuch")
		}
	default: // legal boundary inputs: longest ids, longest URI
		if g.Chance(1, 2) {
			return r.issueLine(g, r.acc(g), id101, g.Chance(1, 2), g.Chance(1, 2))
		}
		return mintLine(creator, r.acc(g), cid, id101, str(g), uriOfLen(256, g), str(g), data(g))
	}
}

// ---------------------------------------------------------------- execution

// genesisLine renders the real exported genesis in ITS OWN order (the order is compared).
func (r *R) genesisLine(gs *nfttypes.GenesisState) string {
	var cols []string
	for _, c := range gs.Collections {
		d := c.Denom
		var ts []string
		for _, t := range c.NFTs {
			b := t
			ts = append(ts, strings.Join([]string{b.Id, r.sym(b.Owner), hx16(b.Name), hx16(b.URI), hx16(b.UriHash), hx16(b.Data)}, ";"))
		}
		cols = append(cols, strings.Join([]string{d.Id, r.sym(d.Creator), b01(d.MintRestricted), b01(d.UpdateRestricted),
			hx16(d.Name), hx16(d.Symbol), hx16(d.Schema), hx16(d.Description), hx16(d.Uri), hx16(d.UriHash), hx16(d.Data)}, ";")+"["+strings.Join(ts, "+")+"]")
	}
	return "cols=" + strings.Join(cols, ",")
}

func (r *R) Exec(ctx sdk.Context, line string) (sdk.Context, string) {
	f := strings.Fields(line)
	switch f[1] {
	case "export": // the real ExportGenesis document and the real ValidateGenesis verdict
		gs := r.env.NFT.ExportGenesis(ctx)
		v := "ok"
		if err := nfttypes.ValidateGenesis(*gs); err != nil {
			v = "err"
		}
		return ctx, "ok validate=" + v + " " + r.genesisLine(gs)
	case "reimport": // wipe the module store, then the real InitGenesis of the real export
		gs := r.env.NFT.ExportGenesis(ctx)
		class, _ := hx.Try(ctx, func(c sdk.Context) error {
			st := c.KVStore(r.env.App.UnsafeFindStoreKey(nfttypes.StoreKey))
			it := storetypes.KVStorePrefixIterator(st, nil)
			var keys [][]byte
			for ; it.Valid(); it.Next() {
				keys = append(keys, append([]byte{}, it.Key()...))
			}
			it.Close()
			for _, k := range keys {
				st.Delete(k)
			}
			r.env.NFT.InitGenesis(c, *gs)
			return nil
		})
		return ctx, class + " " + r.state(ctx)
	}
	a := hx.Args(f[2:])
	id := func(k string) string { return hx.Undash(a[k]) }
	var msg sdk.Msg
	switch f[1] {
	case "issue":
		msg = &nfttypes.MsgIssueDenom{Id: id("id"), Name: unhex(a["name"]), Schema: unhex(a["schema"]), Sender: r.addr(a["sender"]),
			Symbol: unhex(a["symbol"]), MintRestricted: a["mr"] == "1", UpdateRestricted: a["ur"] == "1",
			Description: unhex(a["desc"]), Uri: unhex(a["uri"]), UriHash: unhex(a["urihash"]), Data: unhex(a["data"])}
	case "mint":
		msg = &nfttypes.MsgMintNFT{Id: id("id"), DenomId: id("denom"), Name: unhex(a["name"]), URI: unhex(a["uri"]),
			UriHash: unhex(a["urihash"]), Data: unhex(a["data"]), Sender: r.addr(a["sender"]), Recipient: r.addr(a["recipient"])}
	case "edit":
		msg = &nfttypes.MsgEditNFT{Id: id("id"), DenomId: id("denom"), Name: unhex(a["name"]), URI: unhex(a["uri"]),
			UriHash: unhex(a["urihash"]), Data: unhex(a["data"]), Sender: r.addr(a["sender"])}
	case "transfer":
		msg = &nfttypes.MsgTransferNFT{Id: id("id"), DenomId: id("denom"), Name: unhex(a["name"]), URI: unhex(a["uri"]),
			UriHash: unhex(a["urihash"]), Data: unhex(a["data"]), Sender: r.addr(a["sender"]), Recipient: r.addr(a["recipient"])}
	case "vjson": // ValidateBasic only: an otherwise well-formed mint carrying this data
		m := &nfttypes.MsgMintNFT{Id: "t0a", DenomId: "cla", Data: unhex(a["data"]), Sender: hx.Acc(0).String(), Recipient: hx.Acc(0).String()}
		res := hx.OK
		if err := m.ValidateBasic(); err != nil {
			res = hx.Rej
		}
		return ctx, res + " " + r.state(ctx)
	case "burn":
		msg = &nfttypes.MsgBurnNFT{Id: id("id"), DenomId: id("denom"), Sender: r.addr(a["sender"])}
	case "transfer_denom":
		msg = &nfttypes.MsgTransferDenom{Id: id("id"), Sender: r.addr(a["sender"]), Recipient: r.addr(a["recipient"])}
	default:
		hx.Fail("unknown op %q", line)
	}
	out := r.env.Deliver(ctx, msg)
	return ctx, out.Class + " " + r.state(ctx)
}
