// Package token drives the real token module (message router, msg server, keeper, the pure
// LossLessSwap function) for C09 and C10.
package token

import (
	"errors"
	"fmt"
	"math/big"
	"sort"
	"strconv"
	"strings"

	sdkmath "cosmossdk.io/math"
	storetypes "cosmossdk.io/store/types"
	sdk "github.com/cosmos/cosmos-sdk/types"
	authtypes "github.com/cosmos/cosmos-sdk/x/auth/types"
	gogotypes "github.com/cosmos/gogoproto/types"
	"github.com/ethereum/go-ethereum/common"
	ethtypes "github.com/ethereum/go-ethereum/core/types"
	"github.com/ethereum/go-ethereum/crypto"

	tokenmod "mods.irisnet.org/modules/token"
	"mods.irisnet.org/modules/token/contracts"
	tokenkeeper "mods.irisnet.org/modules/token/keeper"
	tokentypes "mods.irisnet.org/modules/token/types"
	v1 "mods.irisnet.org/modules/token/types/v1"
	"mods.irisnet.org/modules/token/types/v1beta1"

	"verifharness/hx"
)

const nAcc = 4
const beaconAddr = "0x00000000000000000000000000000000000BEAC0"

var tenInt = big.NewInt(10)

func pow10(n int) *big.Int { return new(big.Int).Exp(tenInt, big.NewInt(int64(n)), nil) }

// R is the runner.
type R struct {
	env      *hx.Env
	evm      *EVM
	mix      string
	names    map[string]string // bech32 -> symbolic
	ethNames map[common.Address]string
	knames   map[common.Address]string // contract address -> K<n>
	kaddrs   map[string]common.Address
	registry v1.SwapRegistry
	regKeys  []string
	key      storetypes.StoreKey
}

// NewEnv builds the application with the transactional harness EVM.
func NewEnv() (*hx.Env, *EVM) {
	evm := NewEVM()
	env := hx.NewEnv(hx.EnvOptions{EVM: evm})
	evm.ak = &env.App.AccountKeeper
	return env, evm
}

func New(env *hx.Env, evm *EVM, mix string) *R {
	r := &R{env: env, evm: evm, mix: mix, names: map[string]string{}, ethNames: map[common.Address]string{},
		knames: map[common.Address]string{}, kaddrs: map[string]common.Address{}}
	for _, n := range []string{"A0", "A1", "A2", "A3", "FC", "TM", "GOV"} {
		a, _ := r.addr(n)
		r.names[a.String()] = n
		r.ethNames[common.BytesToAddress(a.Bytes())] = n
	}
	for i := 0; i < 16; i++ {
		r.ethNames[extEth(i)] = fmt.Sprintf("E%d", i)
	}
	tm, _ := r.addr("TM")
	evm.Owner = common.BytesToAddress(tm.Bytes())
	for n := 1; n <= 64; n++ {
		c := crypto.CreateAddress(common.BytesToAddress(tm.Bytes()), uint64(n-1))
		r.knames[c] = fmt.Sprintf("K%d", n)
		r.kaddrs[fmt.Sprintf("K%d", n)] = c
	}
	r.key = env.App.UnsafeFindStoreKey(tokentypes.StoreKey)
	if r.key == nil {
		hx.Fail("token store key not found")
	}
	return r
}

// NewFor builds a runner on any environment (the constructor the cross-cutting harnesses
// register): with the harness EVM when the environment was built with one, otherwise with a
// detached (always empty) EVM ledger and the operation mix "base", which leaves out the
// operations that need the transactional EVM (deploy, conversions, hook, faults).
func NewFor(env *hx.Env) hx.Runner {
	if e, ok := env.EVM.(*EVM); ok {
		e.ak = &env.App.AccountKeeper
		return New(env, e, "c09")
	}
	return New(env, NewEVM(), "base")
}

// State is the canonical state projection carried by the observation lines (hx.Stater).
func (r *R) State(ctx sdk.Context) string { return r.state(ctx) }

func (r *R) Module() string { return "token" }

func extEth(i int) common.Address { return common.BigToAddress(big.NewInt(int64(0xE000 + i))) }

// addr maps a symbolic account name to its address.
func (r *R) addr(sym string) (sdk.AccAddress, bool) {
	switch sym {
	case "FC":
		return authtypes.NewModuleAddress(authtypes.FeeCollectorName), true
	case "TM":
		return authtypes.NewModuleAddress(tokentypes.ModuleName), true
	case "GOV":
		return sdk.MustAccAddressFromBech32(hx.Authority()), true
	}
	if strings.HasPrefix(sym, "A") && len(sym) > 1 {
		if i, err := strconv.Atoi(sym[1:]); err == nil && i >= 0 && allDigits(sym[1:]) {
			return hx.Acc(i), true
		}
	}
	return nil, false
}

func allDigits(s string) bool {
	if s == "" {
		return false
	}
	for _, c := range s {
		if c < '0' || c > '9' {
			return false
		}
	}
	return true
}

// bech renders a symbolic name as the bech32 string put into a message.
func (r *R) bech(sym string) string {
	if sym == "" {
		return ""
	}
	if a, ok := r.addr(sym); ok {
		return a.String()
	}
	return "notanaddress-" + sym
}

// eth maps a symbolic name to an Ethereum address.
func (r *R) eth(sym string) (common.Address, bool) {
	if a, ok := r.addr(sym); ok {
		return common.BytesToAddress(a.Bytes()), true
	}
	if strings.HasPrefix(sym, "E") && allDigits(sym[1:]) {
		i, _ := strconv.Atoi(sym[1:])
		return extEth(i), true
	}
	return common.Address{}, false
}

func (r *R) symAcc(bech string) string {
	if s, ok := r.names[bech]; ok {
		return s
	}
	return bech
}

func (r *R) symEth(a common.Address) string {
	if s, ok := r.ethNames[a]; ok {
		return s
	}
	return a.Hex()
}

func (r *R) kname(hexAddr string) string {
	if hexAddr == "" {
		return "-"
	}
	if s, ok := r.knames[common.HexToAddress(hexAddr)]; ok {
		return s
	}
	return hexAddr
}

// implAddr maps the symbolic name of a new beacon implementation to the hex string put into the
// message: I<n> (implementation contracts: code), K<n> (contracts of the module account: code once
// created), B (the beacon), Z (the zero address), the Ethereum universe (no code); anything else is
// sent as a string that is not a hex address.
func (r *R) implAddr(sym string) string {
	switch {
	case sym == "B":
		return BeaconAddr.Hex()
	case sym == "Z":
		return common.Address{}.Hex()
	case strings.HasPrefix(sym, "I") && allDigits(sym[1:]):
		if i, err := strconv.Atoi(sym[1:]); err == nil && i < nImpl {
			return ImplAddr(i).Hex()
		}
		hx.Fail("implementation %q out of range", sym)
	}
	if c, ok := r.kaddrs[sym]; ok {
		return c.Hex()
	}
	if strings.HasPrefix(sym, "K") && allDigits(sym[1:]) {
		hx.Fail("contract %q out of range", sym)
	}
	if e, ok := r.eth(sym); ok {
		return e.Hex()
	}
	return "zz-not-hex-" + sym
}

// implName renders the beacon's implementation symbolically.
func (r *R) implName(a common.Address) string {
	if a == BeaconAddr {
		return "B"
	}
	if a == (common.Address{}) {
		return "Z"
	}
	for n := 0; n < nImpl; n++ {
		if a == ImplAddr(n) {
			return fmt.Sprintf("I%d", n)
		}
	}
	if s, ok := r.knames[a]; ok {
		return s
	}
	return r.symEth(a)
}

func us(s string) string {
	if s == "" {
		return "-"
	}
	return strings.ReplaceAll(s, " ", "_")
}

var universe = []string{"A0", "A1", "A2", "A3", "FC", "TM"}

// ---------------------------------------------------------------- state rendering

func b01(b bool) int {
	if b {
		return 1
	}
	return 0
}

func (r *R) tokens(ctx sdk.Context) []v1.Token {
	var out []v1.Token
	for _, t := range r.env.Token.GetTokens(ctx, nil) {
		out = append(out, *(t.(*v1.Token)))
	}
	return out
}

func (r *R) rawIndex(ctx sdk.Context, prefix []byte, f func(key []byte, val string)) {
	store := ctx.KVStore(r.key)
	it := storetypes.KVStorePrefixIterator(store, prefix)
	defer it.Close()
	for ; it.Valid(); it.Next() {
		var sv gogotypes.StringValue
		r.env.App.AppCodec().MustUnmarshal(it.Value(), &sv)
		f(it.Key()[len(prefix):], sv.Value)
	}
}

func (r *R) paramsStr(p v1.Params) string {
	return fmt.Sprintf("%s:%s:%s:%s:%d:%d", p.TokenTaxRate.BigInt(), hx.Dash(p.IssueTokenBaseFee.Denom), p.IssueTokenBaseFee.Amount,
		p.MintTokenFeeRatio.BigInt(), b01(p.EnableErc20), b01(p.Beacon != ""))
}

func (r *R) tokenStr(t v1.Token) string {
	return fmt.Sprintf("%s:%s:%d:%s:%d:%d:%d:%s:%s", t.Symbol, us(t.Name), t.Scale, t.MinUnit,
		t.InitialSupply, t.MaxSupply, b01(t.Mintable), r.symAcc(t.Owner), r.kname(t.Contract))
}

// genesisLine renders the real exported genesis in ITS OWN order (the order is compared).
func (r *R) genesisLine(gs *v1.GenesisState) string {
	var toks, burned []string
	for _, t := range gs.Tokens {
		toks = append(toks, r.tokenStr(t))
	}
	for _, c := range gs.BurnedCoins {
		burned = append(burned, fmt.Sprintf("%s:%s", c.Denom, c.Amount))
	}
	return fmt.Sprintf("params=%s toks=%s burned=%s", r.paramsStr(gs.Params), strings.Join(toks, ","), strings.Join(burned, ","))
}

// state renders the canonical observation of the module state.
func (r *R) state(ctx sdk.Context) string {
	k := r.env.Token
	var toks, mu, own, ctr, burned, bal, sup, evm []string
	seenMu := map[string]bool{}
	for _, t := range r.tokens(ctx) {
		toks = append(toks, r.tokenStr(t))
		if !seenMu[t.MinUnit] {
			seenMu[t.MinUnit] = true
			sup = append(sup, fmt.Sprintf("%s:%s", t.MinUnit, r.env.Supply(ctx, t.MinUnit)))
		}
	}
	r.rawIndex(ctx, tokentypes.PrefixTokenForMinUint, func(key []byte, val string) {
		mu = append(mu, fmt.Sprintf("%s:%s", string(key), val))
	})
	r.rawIndex(ctx, tokentypes.PrefixTokens, func(key []byte, val string) {
		if len(key) < 20 {
			own = append(own, "short-key")
			return
		}
		o := r.symAcc(sdk.AccAddress(key[:20]).String())
		if string(key[20:]) == val {
			own = append(own, fmt.Sprintf("%s/%s", o, val))
		} else {
			own = append(own, fmt.Sprintf("%s/%s!%s", o, string(key[20:]), val))
		}
	})
	r.rawIndex(ctx, tokentypes.PrefixTokenForContract, func(key []byte, val string) {
		ctr = append(ctr, fmt.Sprintf("%s:%s", r.kname(common.BytesToAddress(key).Hex()), val))
	})
	r.env.App.BankKeeper.IterateTotalSupply(ctx, func(c sdk.Coin) bool {
		if !seenMu[c.Denom] && c.Amount.IsPositive() {
			seenMu[c.Denom] = true
			sup = append(sup, fmt.Sprintf("%s:%s", c.Denom, c.Amount))
		}
		return false
	})
	for _, c := range k.GetAllBurnCoin(ctx) {
		burned = append(burned, fmt.Sprintf("%s:%s", c.Denom, c.Amount))
	}
	for _, n := range universe {
		a, _ := r.addr(n)
		for _, c := range r.env.App.BankKeeper.GetAllBalances(ctx, a) {
			bal = append(bal, fmt.Sprintf("%s/%s:%s", n, c.Denom, c.Amount))
		}
	}
	for _, e := range r.evm.Entries() {
		evm = append(evm, fmt.Sprintf("%s/%s:%s", r.kname(e.C.Hex()), r.symEth(e.H), e.V))
	}
	tm, _ := r.addr("TM")
	var nonce uint64
	if acc := r.env.App.AccountKeeper.GetAccount(ctx, tm); acc != nil {
		nonce = acc.GetSequence()
	}
	for _, l := range [][]string{toks, mu, own, ctr, burned, bal, sup, evm} {
		sort.Strings(l)
	}
	j := func(l []string) string { return strings.Join(l, ",") }
	return fmt.Sprintf("toks=%s mu=%s own=%s ctr=%s burned=%s params=%s bal=%s sup=%s nonce=%d evm=%s fault=%s impl=%s",
		j(toks), j(mu), j(own), j(ctr), j(burned), r.paramsStr(k.GetParams(ctx)), j(bal), j(sup), nonce, j(evm), r.evm.Fault,
		r.implName(r.evm.Impl))
}

// ---------------------------------------------------------------- reset

func decOfRaw(s string) sdkmath.LegacyDec {
	v, ok := new(big.Int).SetString(s, 10)
	if !ok {
		hx.Fail("bad dec raw %q", s)
	}
	return sdkmath.LegacyNewDecFromBigIntWithPrec(v, 18)
}

func bigOf(s string) *big.Int {
	v, ok := new(big.Int).SetString(s, 10)
	if !ok {
		hx.Fail("bad integer %q", s)
	}
	return v
}

func intOf(s string) sdkmath.Int { return sdkmath.NewIntFromBigInt(bigOf(s)) }

func u64(s string) uint64 {
	v, err := strconv.ParseUint(s, 10, 64)
	if err != nil {
		hx.Fail("bad uint64 %q", s)
	}
	return v
}

func (r *R) parseParams(a map[string]string) v1.Params {
	p := v1.Params{
		TokenTaxRate:      decOfRaw(a["tax"]),
		IssueTokenBaseFee: sdk.Coin{Denom: hx.Undash(a["feedenom"]), Amount: intOf(a["feeamt"])},
		MintTokenFeeRatio: decOfRaw(a["mintratio"]),
		EnableErc20:       a["erc20"] == "1",
	}
	if a["beacon"] == "1" {
		p.Beacon = beaconAddr
	}
	return p
}

var ratioPool = []string{
	"1000000000000000000", "1000000000000000000", "500000000000000000", "1500000000000000000", "700000000000000000",
	"3333333333333333333", "333333333333333333", "1000000000000000", "1000000000000000000000", "100000000000000000",
	"10000000000000000000", "999999999999999999", "1000000000000000001", "1", "2500000000000000000",
}

var symPool = []string{"abc", "abcx", "btc", "eth", "usdt", "kitty2", "longsymbol0123456789", "z23456789012345678901234567890123456789012345678901234567890123"}
var muPool = []string{"uabc", "uabcx", "ubtc", "wei", "usdt", "abc", "satoshi", "m23456789012345678901234567890123456789012345678901234567890123"}
var badDenoms = []string{"ab", "Abc", "ibcabc", "pegx", "1ab", "tibcz", "lptabc", "htltx", "a-b", "z234567890123456789012345678901234567890123456789012345678901234"}

// ResetLine draws the configuration of one history: params, initial stake balances and the swap registry.
func (r *R) ResetLine(g *hx.Rng) string {
	rate := func() string {
		switch g.Pick(2, 2, 3, 3) {
		case 0:
			return "0"
		case 1:
			return "1000000000000000000"
		case 2:
			return []string{"400000000000000000", "100000000000000000", "500000000000000000", "999999999999999999", "1"}[g.Intn(5)]
		default:
			return new(big.Int).Mod(g.BigRaw(64), pow10(18)).String()
		}
	}
	var feeamt string
	switch g.Pick(1, 1, 3, 3, 2) {
	case 0:
		feeamt = "0"
	case 1:
		feeamt = "1"
	case 2:
		feeamt = "60000"
	case 3:
		feeamt = g.Amount(40).String()
	default:
		feeamt = g.Amount(90).String()
	}
	erc20, beacon := 1, 1
	if g.Chance(1, 12) {
		erc20 = 0
	}
	if g.Chance(1, 12) {
		beacon = 0
	}
	var bals []string
	total := new(big.Int).Set(r.env.Supply(r.env.Base, "stake").BigInt())
	for _, n := range universe {
		a, _ := r.addr(n)
		cur := r.env.Bal(r.env.Base, a, "stake").BigInt()
		add := new(big.Int)
		if strings.HasPrefix(n, "A") {
			switch g.Pick(1, 2, 4, 3) {
			case 0:
			case 1:
				add = big.NewInt(g.Range(1, 100000))
			case 2:
				add = g.BigRaw(100)
			default:
				add = g.BigRaw(60)
			}
		}
		v := new(big.Int).Add(cur, add)
		total.Add(total, add)
		if v.Sign() > 0 {
			bals = append(bals, fmt.Sprintf("%s/stake:%s", n, v))
		}
	}
	// IBC vouchers (denominations the token module did not create) held by users: after DeployERC20
	// for that denom the legacy service can burn them by symbol, the v1 service cannot (its
	// ValidateBasic rejects the min unit)
	if g.Chance(1, 3) {
		d := fmt.Sprintf("ibc/DEAD%d", g.Intn(3))
		for i, n := 0, 1+g.Intn(2); i < n; i++ {
			a := acc(g)
			dup := false
			for _, b := range bals {
				if strings.HasPrefix(b, a+"/"+d+":") {
					dup = true
				}
			}
			if !dup {
				bals = append(bals, fmt.Sprintf("%s/%s:%s", a, d, new(big.Int).Add(g.BigRaw(40+g.Intn(40)), big.NewInt(1))))
			}
		}
	}
	var reg []string
	seen := map[string]bool{}
	for i, n := 0, 2+g.Intn(4); i < n; i++ {
		from := muPool[g.Intn(len(muPool))]
		if g.Chance(1, 8) {
			from = "stake"
		}
		if seen[from] {
			continue
		}
		seen[from] = true
		to := muPool[g.Intn(len(muPool))]
		if g.Chance(1, 6) {
			to = "stake"
		}
		if to == from {
			continue
		}
		ratio := ratioPool[g.Intn(len(ratioPool))]
		if g.Chance(1, 4) {
			ratio = new(big.Int).Add(g.BigRaw(1+g.Intn(70)), big.NewInt(1)).String()
		}
		reg = append(reg, fmt.Sprintf("%s:%s:%s", from, to, ratio))
	}
	var blocked []string
	for _, n := range universe {
		a, _ := r.addr(n)
		if r.env.App.BankKeeper.BlockedAddr(a) {
			blocked = append(blocked, n)
		}
	}
	return "token reset " + hx.KV("tax", rate(), "feedenom", "stake", "feeamt", feeamt, "mintratio", rate(),
		"erc20", erc20, "beacon", beacon, "stake0", total.String(), "blocked", hx.Dash(strings.Join(blocked, ",")),
		"bals", hx.Dash(strings.Join(bals, ",")), "registry", hx.Dash(strings.Join(reg, ",")))
}

func (r *R) Reset(ctx sdk.Context, line string) (sdk.Context, string) {
	a := hx.Args(strings.Fields(line)[2:])
	r.evm.Reset()
	if err := r.env.Token.SetParams(ctx, r.parseParams(a)); err != nil {
		hx.Fail("reset params: %v", err)
	}
	for _, e := range strings.Split(hx.Undash(a["bals"]), ",") {
		if e == "" {
			continue
		}
		kv := strings.Split(e, ":")
		ad := strings.SplitN(kv[0], "/", 2) // account/denom; the denom may itself contain '/' (ibc/…)
		addr, ok := r.addr(ad[0])
		if !ok {
			hx.Fail("reset: bad account %q", ad[0])
		}
		want := bigOf(kv[1])
		cur := r.env.Bal(ctx, addr, ad[1]).BigInt()
		if d := new(big.Int).Sub(want, cur); d.Sign() > 0 {
			r.env.Fund(ctx, addr, sdk.NewCoins(sdk.NewCoin(ad[1], sdkmath.NewIntFromBigInt(d))))
		} else if d.Sign() < 0 {
			hx.Fail("reset: cannot lower balance of %s", ad[0])
		}
	}
	r.registry = v1.SwapRegistry{}
	r.regKeys = nil
	for _, e := range strings.Split(hx.Undash(a["registry"]), ",") {
		if e == "" {
			continue
		}
		f := strings.Split(e, ":")
		r.registry[f[0]] = v1.SwapParams{MinUnit: f[1], Ratio: decOfRaw(f[2])}
		r.regKeys = append(r.regKeys, f[0])
	}
	if got := r.env.Supply(ctx, "stake").String(); got != a["stake0"] {
		hx.Fail("reset: stake supply %s, line says %s", got, a["stake0"])
	}
	return ctx, "ok " + r.state(ctx)
}

// ---------------------------------------------------------------- execution

func (r *R) coin(a map[string]string) sdk.Coin {
	return sdk.Coin{Denom: hx.Undash(a["denom"]), Amount: intOf(a["amount"])}
}

type vb interface{ ValidateBasic() error }

// direct runs a message through ValidateBasic and a msg-server call on a cached context
// (used where the keeper needs a configuration the application does not wire: the swap registry).
func (r *R) direct(ctx sdk.Context, msg sdk.Msg, f func(sdk.Context) error) string {
	class, _ := hx.Try(ctx, func(c sdk.Context) error {
		if v, ok := msg.(vb); ok {
			if err := v.ValidateBasic(); err != nil {
				return err
			}
		}
		return f(c)
	})
	return class
}

func lossless(a map[string]string) (s string) {
	defer func() {
		if rec := recover(); rec != nil {
			s = "panic"
		}
	}()
	b, m := tokentypes.LossLessSwap(intOf(a["input"]), decOfRaw(a["ratio"]), uint32(u64(a["si"])), uint32(u64(a["so"])))
	return fmt.Sprintf("ok burned=%s minted=%s", b, m)
}

// feeFactor observes the real calcFeeFactor through GetTokenIssueFee with a base fee of 10^30
// stake on a discarded context: fee = ⌊10^30 / factor⌋ determines the two-decimal factor.
func (r *R) feeFactor(ctx sdk.Context, n int) (s string) {
	defer func() {
		if rec := recover(); rec != nil {
			s = "panic"
		}
	}()
	c, _ := r.env.Base.CacheContext()
	p := v1.DefaultParams()
	p.IssueTokenBaseFee = sdk.NewCoin("stake", sdkmath.NewIntFromBigInt(pow10(30)))
	if err := r.env.Token.SetParams(c, p); err != nil {
		return "rej"
	}
	fee, err := r.env.Token.GetTokenIssueFee(c, strings.Repeat("a", n))
	if err != nil {
		return "rej"
	}
	return "ok fee=" + fee.Amount.String()
}

func (r *R) hookSwap(ctx sdk.Context, a map[string]string) string {
	from, okf := r.eth(a["from"])
	amt := bigOf(a["amount"])
	to := hx.Undash(a["to"])
	c, okc := r.kaddrs[a["contract"]]
	if !okf || amt.Sign() < 0 || to == "" || !okc || !r.evm.HasContract(c) {
		return hx.Rej
	}
	class, _ := hx.Try(ctx, func(cc sdk.Context) error {
		// the contract: require(bytes(to).length > 0); _burn(sender, amount); emit SwapToNative(sender, to, amount)
		if !r.evm.BurnDirect(c, from, amt) {
			return errors.New("ERC20: burn amount exceeds balance")
		}
		ev := contracts.ERC20TokenContract.ABI.Events[contracts.EventSwapToNative]
		data, err := ev.Inputs.Pack(from, r.bech(to), amt)
		if err != nil {
			return err
		}
		receipt := &ethtypes.Receipt{Logs: []*ethtypes.Log{{Address: c, Topics: []common.Hash{ev.ID}, Data: data}}}
		msg := ethtypes.NewMessage(from, &c, 0, big.NewInt(0), 3000000, big.NewInt(0), big.NewInt(0), big.NewInt(0), nil, ethtypes.AccessList{}, false)
		return r.env.Token.Hooks().PostTxProcessing(cc, msg, receipt)
	})
	return class
}

// emitter maps `K<n>` (a contract created by the module account) or `U<n>` (any other
// address: a router, a foreign contract) to an address.
func (r *R) emitter(s string) (common.Address, bool, bool) {
	if c, ok := r.kaddrs[s]; ok {
		return c, true, true
	}
	if strings.HasPrefix(s, "U") && allDigits(s[1:]) {
		i, _ := strconv.Atoi(s[1:])
		return common.BigToAddress(big.NewInt(int64(0xC000 + i))), false, true
	}
	return common.Address{}, false, false
}

// evmTx plays one EVM transaction sent to `target` whose execution made the listed contracts
// emit SwapToNative logs (a contract of ours burns the caller's balance before emitting, as
// Token.sol does; other addresses just emit), then runs the real PostTxProcessing hook on the
// receipt. Any failure reverts the transaction.
func (r *R) evmTx(ctx sdk.Context, a map[string]string) string {
	target, _, ok := r.emitter(a["target"])
	if !ok {
		hx.Fail("bad target %q", a["target"])
	}
	type lg struct {
		em     common.Address
		ours   bool
		from   common.Address
		fromOK bool
		to     string
		amt    *big.Int
	}
	var logs []lg
	for _, e := range strings.Split(hx.Undash(a["logs"]), ",") {
		if e == "" {
			continue
		}
		f := strings.Split(e, ":")
		if len(f) != 4 {
			hx.Fail("bad log %q", e)
		}
		em, ours, ok := r.emitter(f[0])
		if !ok {
			hx.Fail("bad emitter %q", f[0])
		}
		from, fok := r.eth(f[1])
		logs = append(logs, lg{em, ours, from, fok, hx.Undash(f[2]), bigOf(f[3])})
	}
	class, _ := hx.Try(ctx, func(cc sdk.Context) error {
		ev := contracts.ERC20TokenContract.ABI.Events[contracts.EventSwapToNative]
		receipt := &ethtypes.Receipt{}
		sender := common.Address{}
		for _, l := range logs {
			from, amt := l.from, l.amt
			if l.ours {
				if !l.fromOK || amt.Sign() < 0 || l.to == "" || !r.evm.HasContract(l.em) {
					return errors.New("execution reverted")
				}
				if !r.evm.BurnDirect(l.em, from, amt) {
					return errors.New("ERC20: burn amount exceeds balance")
				}
			} else if amt.Sign() < 0 {
				amt = new(big.Int)
			}
			sender = from
			data, err := ev.Inputs.Pack(from, r.bech(l.to), amt)
			if err != nil {
				return err
			}
			receipt.Logs = append(receipt.Logs, &ethtypes.Log{Address: l.em, Topics: []common.Hash{ev.ID}, Data: data})
		}
		msg := ethtypes.NewMessage(sender, &target, 0, big.NewInt(0), 3000000, big.NewInt(0), big.NewInt(0), big.NewInt(0), nil, ethtypes.AccessList{}, false)
		return r.env.Token.Hooks().PostTxProcessing(cc, msg, receipt)
	})
	return class
}

func (r *R) Exec(ctx sdk.Context, line string) (sdk.Context, string) {
	f := strings.Fields(line)
	a := hx.Args(f[2:])
	switch f[1] {
	case "export": // the real ExportGenesis document (in its own order) and the real ValidateGenesis verdict
		gs := tokenmod.ExportGenesis(ctx, r.env.Token)
		v := "ok"
		if err := v1.ValidateGenesis(*gs); err != nil {
			v = "err"
		}
		return ctx, "ok validate=" + v + " " + r.genesisLine(gs)
	case "reimport": // wipe the module store, then the real InitGenesis of the real export
		gs := tokenmod.ExportGenesis(ctx, r.env.Token)
		class, _ := hx.Try(ctx, func(c sdk.Context) error {
			st := c.KVStore(r.key)
			it := storetypes.KVStorePrefixIterator(st, nil)
			var keys [][]byte
			for ; it.Valid(); it.Next() {
				keys = append(keys, append([]byte{}, it.Key()...))
			}
			it.Close()
			for _, k := range keys {
				st.Delete(k)
			}
			tokenmod.InitGenesis(c, r.env.Token, *gs)
			return nil
		})
		return ctx, class + " " + r.state(ctx)
	case "lossless":
		return ctx, lossless(a)
	case "fee_factor":
		return ctx, r.feeFactor(ctx, int(u64(a["len"])))
	}
	snap := r.evm.Snapshot()
	var class string
	deliver := func(m sdk.Msg) { class = r.env.Deliver(ctx, m).Class }
	switch f[1] {
	case "issue":
		deliver(&v1.MsgIssueToken{Symbol: hx.Undash(a["symbol"]), Name: hx.Undash(a["name"]), Scale: uint32(u64(a["scale"])),
			MinUnit: hx.Undash(a["minunit"]), InitialSupply: u64(a["init"]), MaxSupply: u64(a["max"]),
			Mintable: a["mintable"] == "1", Owner: r.bech(a["owner"])})
	case "edit":
		deliver(&v1.MsgEditToken{Symbol: hx.Undash(a["symbol"]), Name: hx.Undash(a["name"]), MaxSupply: u64(a["max"]),
			Mintable: tokentypes.Bool(hx.Undash(a["mintable"])), Owner: r.bech(a["owner"])})
	case "mint":
		deliver(&v1.MsgMintToken{Coin: r.coin(a), Receiver: r.bech(hx.Undash(a["to"])), Owner: r.bech(a["owner"])})
	case "burn":
		deliver(&v1.MsgBurnToken{Coin: r.coin(a), Sender: r.bech(a["sender"])})
	case "transfer_owner":
		deliver(&v1.MsgTransferTokenOwner{SrcOwner: r.bech(a["src"]), DstOwner: r.bech(a["dst"]), Symbol: hx.Undash(a["symbol"])})
	case "swap_fee":
		msg := &v1.MsgSwapFeeToken{FeePaid: r.coin(a), Receiver: r.bech(hx.Undash(a["to"])), Sender: r.bech(a["sender"])}
		srv := tokenkeeper.NewMsgServerImpl(r.env.Token.WithSwapRegistry(r.registry))
		class = r.direct(ctx, msg, func(c sdk.Context) error { _, err := srv.SwapFeeToken(c, msg); return err })
	case "deploy":
		deliver(&v1.MsgDeployERC20{Symbol: hx.Undash(a["symbol"]), Name: hx.Undash(a["name"]), Scale: uint32(u64(a["scale"])),
			MinUnit: hx.Undash(a["minunit"]), Authority: r.bech(a["authority"])})
	case "swap_to_erc20":
		recv := "zz-not-hex"
		if e, ok := r.eth(a["receiver"]); ok {
			recv = e.Hex()
		}
		deliver(&v1.MsgSwapToERC20{Amount: r.coin(a), Sender: r.bech(a["sender"]), Receiver: recv})
	case "swap_from_erc20":
		deliver(&v1.MsgSwapFromERC20{WantedAmount: r.coin(a), Sender: r.bech(a["sender"]), Receiver: r.bech(a["receiver"])})
	case "hook_swap":
		class = r.hookSwap(ctx, a)
	case "evm_tx":
		class = r.evmTx(ctx, a)
	case "evm_fault":
		switch a["mode"] {
		case "none", "mint_revert", "mint_noop", "mint_short", "burn_revert", "burn_noop", "call_err":
			r.evm.Fault = a["mode"]
			class = hx.OK
		default:
			class = hx.Rej
		}
	case "update_params":
		deliver(&v1.MsgUpdateParams{Authority: r.bech(a["authority"]), Params: r.parseParams(a)})
	// the legacy (v1beta1) Msg service, through the same router
	case "legacy_issue":
		deliver(&v1beta1.MsgIssueToken{Symbol: hx.Undash(a["symbol"]), Name: hx.Undash(a["name"]), Scale: uint32(u64(a["scale"])),
			MinUnit: hx.Undash(a["minunit"]), InitialSupply: u64(a["init"]), MaxSupply: u64(a["max"]),
			Mintable: a["mintable"] == "1", Owner: r.bech(a["owner"])})
	case "legacy_edit":
		deliver(&v1beta1.MsgEditToken{Symbol: hx.Undash(a["symbol"]), Name: hx.Undash(a["name"]), MaxSupply: u64(a["max"]),
			Mintable: tokentypes.Bool(hx.Undash(a["mintable"])), Owner: r.bech(a["owner"])})
	case "legacy_mint":
		deliver(&v1beta1.MsgMintToken{Symbol: hx.Undash(a["symbol"]), Amount: u64(a["amount"]), To: r.bech(hx.Undash(a["to"])),
			Owner: r.bech(a["owner"])})
	case "legacy_burn":
		deliver(&v1beta1.MsgBurnToken{Symbol: hx.Undash(a["symbol"]), Amount: u64(a["amount"]), Sender: r.bech(a["sender"])})
	case "legacy_transfer_owner":
		deliver(&v1beta1.MsgTransferTokenOwner{SrcOwner: r.bech(a["src"]), DstOwner: r.bech(a["dst"]), Symbol: hx.Undash(a["symbol"])})
	case "upgrade_erc20":
		deliver(&v1.MsgUpgradeERC20{Authority: r.bech(a["authority"]), Implementation: r.implAddr(a["impl"])})
	default:
		hx.Fail("unknown op %q", line)
	}
	if class != hx.OK {
		r.evm.Restore(snap)
	}
	return ctx, class + " " + r.state(ctx)
}

var _ hx.Runner = (*R)(nil)
var _ hx.Stater = (*R)(nil)
