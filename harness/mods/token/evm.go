// A transactional in-memory EVM keeper for the token module (C10).
//
// It implements tokentypes.EVMKeeper with exactly the contract surface the token keeper
// uses: contract creation by the module account (address = CreateAddress(from, nonce), the
// creator's account sequence is bumped as ethermint does), and the ERC20 methods
// balanceOf / mint / burn of the bound contracts.  State lives in memory; the runner takes a
// snapshot before every message and restores it when the message is not accepted, which is
// the behaviour of an EVM whose state is committed with the transaction (environment
// assumption, stated in checks.d/C10.json).  A fault switch makes the contract misbehave
// (revert, silently do nothing, credit one unit short, fail every call) so that the keeper's
// balance re-checks and failure paths are exercised.
//
// The beacon contract of the ERC20 proxies (UpgradeableBeacon.sol) lives at BeaconAddr: it is
// owned by the token module account, `upgradeTo(newImplementation)` reverts for any other caller
// and for an implementation address without code, otherwise it records the new implementation.
// Addresses with code: the implementation contracts I<n> (ImplAddr), the contracts created by the
// module account, and the beacon itself.
package token

import (
	"context"
	"errors"
	"math/big"
	"sort"

	cryptotypes "github.com/cosmos/cosmos-sdk/crypto/types"
	sdk "github.com/cosmos/cosmos-sdk/types"
	authkeeper "github.com/cosmos/cosmos-sdk/x/auth/keeper"
	"github.com/ethereum/go-ethereum/common"
	"github.com/ethereum/go-ethereum/core"
	"github.com/ethereum/go-ethereum/core/vm"
	"github.com/ethereum/go-ethereum/crypto"

	"mods.irisnet.org/modules/token/contracts"
	tokentypes "mods.irisnet.org/modules/token/types"
)

var _ tokentypes.EVMKeeper = (*EVM)(nil)

// EVM is the harness EVM keeper.
type EVM struct {
	ak     *authkeeper.AccountKeeper
	ledger map[common.Address]map[common.Address]*big.Int // contract -> holder -> balance
	Fault  string
	Impl   common.Address // the beacon's current implementation
	Owner  common.Address // the beacon's owner (the token module account)
}

// BeaconAddr is where the harness EVM keeps the beacon contract (params.Beacon points here).
var BeaconAddr = common.HexToAddress(beaconAddr)

// ImplAddr is the n-th implementation contract (an address with code).
func ImplAddr(n int) common.Address { return common.BigToAddress(big.NewInt(int64(0x1A000 + n))) }

// nImpl bounds the implementation contracts that exist.
const nImpl = 64

func NewEVM() *EVM {
	return &EVM{ledger: map[common.Address]map[common.Address]*big.Int{}, Fault: "none", Impl: ImplAddr(0)}
}

type evmSnap struct {
	ledger map[common.Address]map[common.Address]*big.Int
	fault  string
	impl   common.Address
}

// Reset clears all contracts (a new history).
func (e *EVM) Reset() {
	e.ledger = map[common.Address]map[common.Address]*big.Int{}
	e.Fault = "none"
	e.Impl = ImplAddr(0)
}

// HasCode: is there a contract at the address?
func (e *EVM) HasCode(a common.Address) bool {
	if a == BeaconAddr || e.HasContract(a) {
		return true
	}
	for n := 0; n < nImpl; n++ {
		if a == ImplAddr(n) {
			return true
		}
	}
	return false
}

func (e *EVM) Snapshot() evmSnap {
	cp := map[common.Address]map[common.Address]*big.Int{}
	for c, m := range e.ledger {
		mm := map[common.Address]*big.Int{}
		for h, v := range m {
			mm[h] = new(big.Int).Set(v)
		}
		cp[c] = mm
	}
	return evmSnap{ledger: cp, fault: e.Fault, impl: e.Impl}
}

func (e *EVM) Restore(s evmSnap) {
	e.ledger = s.ledger
	e.Fault = s.fault
	e.Impl = s.impl
}

func (e *EVM) HasContract(c common.Address) bool { _, ok := e.ledger[c]; return ok }

func (e *EVM) Balance(c, h common.Address) *big.Int {
	if m, ok := e.ledger[c]; ok {
		if v, ok := m[h]; ok {
			return new(big.Int).Set(v)
		}
	}
	return new(big.Int)
}

// BurnDirect is the contract's own `_burn` (used by the swapToNative call of the hook op).
func (e *EVM) BurnDirect(c, h common.Address, amt *big.Int) bool {
	m, ok := e.ledger[c]
	if !ok {
		return false
	}
	cur := e.Balance(c, h)
	if cur.Cmp(amt) < 0 {
		return false
	}
	m[h] = cur.Sub(cur, amt)
	return true
}

type evmEntry struct {
	C, H common.Address
	V    *big.Int
}

// Entries lists the non-zero balances.
func (e *EVM) Entries() []evmEntry {
	var out []evmEntry
	for c, m := range e.ledger {
		for h, v := range m {
			if v.Sign() != 0 {
				out = append(out, evmEntry{c, h, new(big.Int).Set(v)})
			}
		}
	}
	sort.Slice(out, func(i, j int) bool {
		if out[i].C != out[j].C {
			return out[i].C.Hex() < out[j].C.Hex()
		}
		return out[i].H.Hex() < out[j].H.Hex()
	})
	return out
}

func (e *EVM) ChainID() *big.Int { return big.NewInt(16688) }

func (e *EVM) SupportedKey(cryptotypes.PubKey) bool { return true }

func (e *EVM) EstimateGas(context.Context, *tokentypes.EthCallRequest) (uint64, error) {
	return 3000000, nil
}

func reverted() *tokentypes.Result {
	return &tokentypes.Result{VMError: vm.ErrExecutionReverted.Error()}
}

// ApplyMessage executes a contract creation or an ERC20 call.
func (e *EVM) ApplyMessage(ctx sdk.Context, msg core.Message, _ vm.EVMLogger, commit bool) (*tokentypes.Result, error) {
	if e.Fault == "call_err" {
		return nil, errors.New("evm: injected failure")
	}
	if msg.To() == nil {
		addr := crypto.CreateAddress(msg.From(), msg.Nonce())
		if _, ok := e.ledger[addr]; ok {
			return nil, errors.New("evm: contract address collision")
		}
		e.ledger[addr] = map[common.Address]*big.Int{}
		// the creator's nonce (= account sequence) is consumed
		acc := e.ak.GetAccount(ctx, sdk.AccAddress(msg.From().Bytes()))
		if acc == nil {
			return nil, errors.New("evm: unknown creator account")
		}
		if err := acc.SetSequence(acc.GetSequence() + 1); err != nil {
			return nil, err
		}
		e.ak.SetAccount(ctx, acc)
		return &tokentypes.Result{Hash: addr.Hex()}, nil
	}
	c := *msg.To()
	if c == BeaconAddr {
		return e.beaconCall(msg)
	}
	book, ok := e.ledger[c]
	if !ok {
		return nil, errors.New("evm: no contract at address")
	}
	data := msg.Data()
	abi := contracts.ERC20TokenContract.ABI
	method, err := abi.MethodById(data[0:4])
	if err != nil {
		return nil, err
	}
	args, err := method.Inputs.Unpack(data[4:])
	if err != nil {
		return nil, err
	}
	switch method.Name {
	case contracts.MethodBalanceOf:
		ret, err := method.Outputs.Pack(e.Balance(c, args[0].(common.Address)))
		if err != nil {
			return nil, err
		}
		return &tokentypes.Result{Hash: c.Hex(), Ret: ret}, nil
	case contracts.MethodMint:
		to := args[0].(common.Address)
		amt := args[1].(*big.Int)
		switch e.Fault {
		case "mint_revert":
			return reverted(), nil
		case "mint_noop":
		case "mint_short":
			book[to] = new(big.Int).Add(e.Balance(c, to), new(big.Int).Sub(amt, big.NewInt(1)))
		default:
			book[to] = new(big.Int).Add(e.Balance(c, to), amt)
		}
		return &tokentypes.Result{Hash: c.Hex()}, nil
	case contracts.MethodBurn:
		from := args[0].(common.Address)
		amt := args[1].(*big.Int)
		switch e.Fault {
		case "burn_revert":
			return reverted(), nil
		case "burn_noop":
		default:
			cur := e.Balance(c, from)
			if cur.Cmp(amt) < 0 {
				return reverted(), nil
			}
			book[from] = cur.Sub(cur, amt)
		}
		return &tokentypes.Result{Hash: c.Hex()}, nil
	}
	return nil, errors.New("evm: unknown method " + method.Name)
}

// beaconCall executes a call of the beacon contract (UpgradeableBeacon.sol).
func (e *EVM) beaconCall(msg core.Message) (*tokentypes.Result, error) {
	data := msg.Data()
	abi := contracts.BeaconContract.ABI
	if len(data) < 4 {
		return reverted(), nil
	}
	method, err := abi.MethodById(data[0:4])
	if err != nil {
		return reverted(), nil
	}
	args, err := method.Inputs.Unpack(data[4:])
	if err != nil {
		return nil, err
	}
	switch method.Name {
	case contracts.MethodUpgradeTo:
		impl := args[0].(common.Address)
		// onlyOwner; _setImplementation: revert BeaconInvalidImplementation when code.length == 0
		if msg.From() != e.Owner || !e.HasCode(impl) {
			return reverted(), nil
		}
		e.Impl = impl
		return &tokentypes.Result{Hash: BeaconAddr.Hex()}, nil
	case "implementation":
		ret, err := method.Outputs.Pack(e.Impl)
		if err != nil {
			return nil, err
		}
		return &tokentypes.Result{Hash: BeaconAddr.Hex(), Ret: ret}, nil
	}
	return reverted(), nil
}
