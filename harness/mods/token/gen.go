package token

import (
	"fmt"
	"math/big"
	"strings"

	sdk "github.com/cosmos/cosmos-sdk/types"
	"github.com/ethereum/go-ethereum/common"

	tokentypes "mods.irisnet.org/modules/token/types"

	"verifharness/hx"
)

type tokInfo struct {
	sym, mu, owner, contract string
	scale                    int
	max                      uint64
	mintable                 bool
	supply                   *big.Int
}

var maxU64 = new(big.Int).SetUint64(^uint64(0))

func (r *R) infos(ctx sdk.Context) []tokInfo {
	var out []tokInfo
	for _, t := range r.tokens(ctx) {
		c := ""
		if t.Contract != "" {
			c = r.kname(t.Contract)
		}
		out = append(out, tokInfo{t.Symbol, t.MinUnit, r.symAcc(t.Owner), c, int(t.Scale), t.MaxSupply, t.Mintable,
			r.env.Supply(ctx, t.MinUnit).BigInt()})
	}
	return out
}

func acc(g *hx.Rng) string { return hx.AccName(g.Intn(nAcc)) }

// anyAcc: mostly a user account, sometimes a module account or a malformed address.
func anyAcc(g *hx.Rng) string {
	switch g.Pick(14, 1, 1, 1) {
	case 0:
		return acc(g)
	case 1:
		return "FC"
	case 2:
		return "TM"
	default:
		return "BAD"
	}
}

// around draws an amount at or next to a boundary value, or below it.
func around(g *hx.Rng, v *big.Int) *big.Int {
	if v.Sign() <= 0 {
		if g.Chance(1, 6) {
			return new(big.Int).Add(v, big.NewInt(g.Range(-1, 1)))
		}
		return big.NewInt(g.Range(1, 1000))
	}
	switch g.Pick(4, 2, 2, 3, 1) {
	case 0:
		return new(big.Int).Set(v)
	case 1:
		return new(big.Int).Add(v, big.NewInt(1))
	case 2:
		return new(big.Int).Sub(v, big.NewInt(1))
	case 3:
		if v.Sign() <= 0 {
			return big.NewInt(1)
		}
		x := new(big.Int).Mod(g.BigRaw(v.BitLen()+8), v)
		if x.Sign() == 0 {
			x.SetInt64(1)
		}
		return x
	default:
		return big.NewInt(g.Range(1, 20))
	}
}

func (r *R) holder(ctx sdk.Context, g *hx.Rng, denom string) (string, *big.Int) {
	var hs []string
	if sdk.ValidateDenom(denom) != nil {
		return acc(g), big.NewInt(0)
	}
	for _, n := range universe {
		a, _ := r.addr(n)
		if r.env.Bal(ctx, a, denom).IsPositive() && n != "FC" {
			hs = append(hs, n)
		}
	}
	n := acc(g)
	if len(hs) > 0 && g.Chance(11, 12) {
		n = hs[g.Intn(len(hs))]
	}
	a, _ := r.addr(n)
	return n, r.env.Bal(ctx, a, denom).BigInt()
}

func pickStr(g *hx.Rng, l []string) string { return l[g.Intn(len(l))] }

// payer: mostly an account that holds stake (fees are charged in it)
func (r *R) payer(ctx sdk.Context, g *hx.Rng) string {
	n, _ := r.holder(ctx, g, "stake")
	if n == "TM" {
		return acc(g)
	}
	return n
}

func unused(g *hx.Rng, pool []string, used map[string]bool) string {
	var free []string
	for _, p := range pool {
		if !used[p] {
			free = append(free, p)
		}
	}
	if len(free) > 0 && g.Chance(4, 5) {
		return pickStr(g, free)
	}
	return pickStr(g, pool)
}

func u64str(v *big.Int) string {
	if v.Sign() < 0 {
		return "0"
	}
	if v.Cmp(maxU64) > 0 {
		return maxU64.String()
	}
	return v.String()
}

// Gen produces the next operation line from the real state.
func (r *R) Gen(ctx sdk.Context, g *hx.Rng) string {
	if r.mix == "pure" {
		return r.genPure(g)
	}
	toks := r.infos(ctx)
	usedSym, usedMu := map[string]bool{}, map[string]bool{}
	var user []tokInfo
	for _, t := range toks {
		usedSym[t.sym] = true
		usedMu[t.mu] = true
		if t.sym != "stake" {
			user = append(user, t)
		}
	}
	pickTok := func() tokInfo {
		if len(user) == 0 || g.Chance(1, 15) {
			if g.Chance(1, 2) {
				for _, t := range toks {
					if t.sym == "stake" {
						return t
					}
				}
			}
			return tokInfo{sym: pickStr(g, symPool), mu: pickStr(g, append(muPool, badDenoms...)), owner: acc(g), scale: 6, supply: big.NewInt(0)}
		}
		return user[g.Intn(len(user))]
	}
	pickBound := func() (tokInfo, bool) {
		var b []tokInfo
		for _, t := range toks {
			if t.contract != "" {
				b = append(b, t)
			}
		}
		if len(b) == 0 || g.Chance(1, 12) {
			return pickTok(), false
		}
		return b[g.Intn(len(b))], true
	}
	if len(user) > 0 && g.Chance(1, 25) { // genesis round trip in the middle of a history (C12)
		if g.Chance(1, 2) {
			return "token export"
		}
		return "token reimport"
	}
	var kind int
	//            issue edit mint burn xfer swapfee deploy toerc fromerc hook fault params evmtx upgrade
	if r.mix == "c10" {
		kind = g.Pick(8, 2, 12, 4, 2, 16, 8, 16, 14, 6, 5, 1, 10, 5)
	} else if r.mix == "base" {
		kind = g.Pick(10, 14, 20, 20, 8, 6, 0, 0, 0, 0, 0, 2, 0, 0)
	} else {
		kind = g.Pick(10, 14, 20, 20, 8, 3, 2, 3, 2, 1, 1, 2, 1, 2)
	}
	if len(user) == 0 && g.Chance(2, 3) {
		kind = 0
	}
	// issue / edit / mint / burn / transfer-owner go through the legacy (v1beta1) Msg service
	// about as often as through the v1 service, in the same history
	legacy := kind <= 4 && g.Chance(2, 5)
	lg := func(op string) string {
		if legacy {
			return "token legacy_" + op + " "
		}
		return "token " + op + " "
	}
	// steer towards operations that can succeed in the current state
	nBound := 0
	for _, t := range toks {
		if t.contract != "" {
			nBound++
		}
	}
	var swappable []tokInfo
	for _, x := range toks {
		if sp, ok := r.registry[x.mu]; ok && r.env.Token.HasToken(ctx, sp.MinUnit) {
			swappable = append(swappable, x)
		}
	}
	if (kind == 8 || kind == 9 || kind == 12) && len(r.evm.Entries()) == 0 && g.Chance(5, 6) {
		kind = 7
	}
	if kind == 7 && nBound == 0 && g.Chance(5, 6) {
		kind = 6
	}
	if kind == 5 && len(swappable) == 0 && g.Chance(3, 4) {
		kind = 0
	}
	switch kind {
	case 0: // issue
		sym := unused(g, symPool, usedSym)
		mu := unused(g, muPool, usedMu)
		if g.Chance(2, 3) { // prefer min units the swap registry talks about
			var want []string
			for _, k := range r.regKeys {
				want = append(want, k, r.registry[k].MinUnit)
			}
			if len(want) > 0 {
				mu = unused(g, want, usedMu)
			}
		}
		// a min unit that is another token's symbol, a symbol that is another token's min unit
		if len(user) > 0 && g.Chance(1, 6) {
			o := user[g.Intn(len(user))]
			if g.Chance(1, 2) {
				if !usedMu[o.sym] {
					mu = o.sym
				}
			} else if !usedSym[o.mu] && tokentypes.ValidateSymbol(o.mu) == nil {
				sym = o.mu
			}
		}
		bad := -1
		if g.Chance(1, 7) {
			bad = g.Intn(7)
		}
		if bad == 0 {
			sym = pickStr(g, badDenoms)
		}
		if bad == 1 {
			mu = pickStr(g, badDenoms)
		}
		scale := []int{0, 1, 6, 18, g.Intn(19), g.Intn(19)}[g.Pick(2, 2, 2, 3, 4, 4)]
		if bad == 2 {
			scale = 19
		}
		var init uint64
		ik := g.Pick(1, 2, 2, 4, 2, 0, 3)
		if bad == 3 {
			ik = 5
		}
		switch ik {
		case 0:
			init = 0
		case 1:
			init = 1
		case 2:
			init = 2
		case 3:
			init = uint64(g.Range(3, 1000))
		case 4:
			init = tokentypes.MaximumInitSupply
		case 5:
			init = tokentypes.MaximumInitSupply + 1
		default:
			init = g.U64() % (tokentypes.MaximumInitSupply + 1)
		}
		var max uint64
		mk := g.Pick(3, 3, 0, 2, 3, 2)
		if bad == 4 {
			mk = 2
		}
		switch mk {
		case 0:
			max = 0
		case 1:
			max = init
		case 2:
			if init > 0 {
				max = init - 1
			}
		case 3:
			max = init + 1
		case 4:
			max = init + uint64(g.Range(1, 1000))
		default:
			max = ^uint64(0)
		}
		name := fmt.Sprintf("n%d", g.Intn(50))
		if g.Chance(1, 30) {
			name = strings.Repeat("y", 32)
		}
		if bad == 5 {
			name = []string{"-", strings.Repeat("x", 33)}[g.Intn(2)]
		}
		owner := r.payer(ctx, g)
		if bad == 6 {
			owner = []string{"FC", "TM", "BAD"}[g.Intn(3)]
		}
		return lg("issue") + hx.KV("owner", owner, "symbol", sym, "name", name, "minunit", mu, "scale", scale,
			"init", init, "max", max, "mintable", b01(g.Chance(2, 3)))
	case 1: // edit
		t := pickTok()
		sender := t.owner
		if g.Chance(1, 5) {
			sender = anyAcc(g)
		}
		name := tokentypes_DoNotModify
		if g.Chance(1, 2) {
			name = fmt.Sprintf("e%d", g.Intn(50))
		}
		if g.Chance(1, 25) {
			name = []string{"-", strings.Repeat("x", 33)}[g.Intn(2)]
		}
		q := new(big.Int).Quo(t.supply, pow10(t.scale))
		var max string
		switch g.Pick(4, 3, 2, 3, 1, 1, 2) {
		case 0:
			max = "0"
		case 1:
			max = u64str(q)
		case 2:
			max = u64str(new(big.Int).Sub(q, big.NewInt(1)))
		case 3:
			max = u64str(new(big.Int).Add(q, big.NewInt(1)))
		case 4:
			max = fmt.Sprint(t.max)
		case 5:
			max = maxU64.String()
		default:
			max = u64str(new(big.Int).Add(q, big.NewInt(g.Range(2, 1000))))
		}
		mint := []string{"-", "true", "false", "1", "x", "True"}[g.Pick(4, 3, 3, 1, 1, 1)]
		return lg("edit") + hx.KV("owner", sender, "symbol", t.sym, "name", name, "max", max, "mintable", mint)
	case 2: // mint
		t := pickTok()
		for i := 0; i < 3 && !t.mintable; i++ {
			t = pickTok()
		}
		sender := t.owner
		if g.Chance(1, 6) {
			sender = anyAcc(g)
		}
		to := "-"
		if g.Chance(2, 3) {
			to = acc(g)
			if g.Chance(1, 8) {
				to = anyAcc(g)
			}
		}
		room := new(big.Int).Sub(new(big.Int).Mul(new(big.Int).SetUint64(t.max), pow10(t.scale)), t.supply)
		for i := 0; legacy && i < 3 && (!t.mintable || room.Cmp(pow10(t.scale)) < 0); i++ { // prefer room for a main unit
			t = pickTok()
			room = new(big.Int).Sub(new(big.Int).Mul(new(big.Int).SetUint64(t.max), pow10(t.scale)), t.supply)
			if !g.Chance(1, 6) {
				sender = t.owner
			}
		}
		if legacy { // a uint64 amount of MAIN units, by symbol: at / around the cap boundary (room < 10^scale included)
			return "token legacy_mint " + hx.KV("owner", sender, "to", to, "symbol", t.sym, "amount", mainUnits(g, room, t.scale))
		}
		var amt *big.Int
		switch g.Pick(5, 3, 2, 2, 1) {
		case 0:
			amt = around(g, room)
		case 1:
			amt = new(big.Int).Mul(big.NewInt(g.Range(1, 5)), pow10(t.scale))
		case 2:
			amt = new(big.Int).Quo(pow10(t.scale), big.NewInt(2))
			if amt.Sign() == 0 {
				amt.SetInt64(1)
			}
		case 3:
			amt = big.NewInt(g.Range(1, 1000))
		default:
			amt = big.NewInt(g.Range(-1, 0))
		}
		return "token mint " + hx.KV("owner", sender, "to", to, "denom", t.mu, "amount", amt)
	case 3: // burn
		t := pickTok()
		if legacy && g.Chance(1, 4) { // a token bound to an ICS20 denom: only the legacy service can burn it
			for _, x := range user {
				if strings.Contains(x.mu, "/") {
					t = x
				}
			}
		}
		s, bal := r.holder(ctx, g, t.mu)
		if g.Chance(1, 30) {
			s = anyAcc(g)
		}
		if legacy {
			return "token legacy_burn " + hx.KV("sender", s, "symbol", t.sym, "amount", mainUnits(g, bal, t.scale))
		}
		var amt *big.Int
		switch g.Pick(5, 3, 2, 1) {
		case 0:
			amt = around(g, bal)
		case 1: // fractional amounts of a main unit
			amt = new(big.Int).Quo(pow10(t.scale), big.NewInt([]int64{2, 3, 10, 1}[g.Intn(4)]))
			if amt.Sign() == 0 {
				amt.SetInt64(1)
			}
			if g.Chance(1, 2) {
				amt.Add(amt, new(big.Int).Mul(big.NewInt(g.Range(0, 3)), pow10(t.scale)))
			}
		case 2:
			amt = big.NewInt(g.Range(1, 1000))
		default:
			amt = big.NewInt(g.Range(-1, 0))
		}
		return "token burn " + hx.KV("sender", s, "denom", t.mu, "amount", amt)
	case 4: // transfer owner
		t := pickTok()
		src := t.owner
		if g.Chance(1, 5) {
			src = anyAcc(g)
		}
		dst := anyAcc(g)
		if g.Chance(1, 15) {
			dst = src
		}
		return lg("transfer_owner") + hx.KV("src", src, "dst", dst, "symbol", t.sym)
	case 5: // swap fee token
		t := pickTok()
		if len(swappable) > 0 && g.Chance(9, 10) {
			t = swappable[g.Intn(len(swappable))]
		}
		s, bal := r.holder(ctx, g, t.mu)
		to := "-"
		if g.Chance(1, 2) {
			to = anyAcc(g)
		}
		var amt *big.Int
		switch g.Pick(4, 4, 2, 1) {
		case 0:
			amt = around(g, bal)
		case 1:
			amt = big.NewInt(g.Range(1, 40))
		case 2:
			amt = new(big.Int).Add(new(big.Int).Mul(big.NewInt(g.Range(1, 9)), pow10(g.Intn(19))), big.NewInt(g.Range(-1, 1)))
		default:
			amt = big.NewInt(g.Range(-1, 0))
		}
		return "token swap_fee " + hx.KV("sender", s, "to", to, "denom", t.mu, "amount", amt)
	case 6: // deploy
		auth := "GOV"
		if g.Chance(1, 10) {
			auth = anyAcc(g)
		}
		t := pickTok()
		if g.Chance(1, 5) { // an ICS20 denom without a token
			i := g.Intn(3)
			scale := g.Intn(20)
			if g.Chance(1, 2) {
				scale = []int{0, 6, 18}[g.Intn(3)]
			}
			return "token deploy " + hx.KV("authority", auth, "name", fmt.Sprintf("ics%d", i), "symbol", fmt.Sprintf("ics%d", i),
				"minunit", fmt.Sprintf("ibc/DEAD%d", i), "scale", scale)
		}
		var un []tokInfo
		for _, x := range toks {
			if x.contract == "" {
				un = append(un, x)
			}
		}
		if len(un) > 0 && g.Chance(5, 6) {
			t = un[g.Intn(len(un))]
		}
		return "token deploy " + hx.KV("authority", auth, "name", "erc"+t.sym[:1], "symbol", t.sym, "minunit", t.mu, "scale", t.scale)
	case 7: // native -> erc20
		t, _ := pickBound()
		s, bal := r.holder(ctx, g, t.mu)
		recv := []string{acc(g), fmt.Sprintf("E%d", g.Intn(3)), "TM", "BAD", s}[g.Pick(8, 4, 1, 1, 3)]
		amt := around(g, bal)
		if g.Chance(1, 20) {
			amt = big.NewInt(g.Range(-1, 0))
		}
		return "token swap_to_erc20 " + hx.KV("sender", s, "receiver", recv, "denom", t.mu, "amount", amt)
	case 8: // erc20 -> native
		t, bound := pickBound()
		s := acc(g)
		bal := big.NewInt(0)
		if bound {
			s, bal = r.evmHolder(g, t.contract, true)
		}
		recv := acc(g)
		if g.Chance(1, 6) {
			recv = anyAcc(g)
		}
		if g.Chance(1, 4) {
			recv = s
		}
		amt := around(g, bal)
		if g.Chance(1, 20) {
			amt = big.NewInt(g.Range(-1, 0))
		}
		return "token swap_from_erc20 " + hx.KV("sender", s, "receiver", recv, "denom", t.mu, "amount", amt)
	case 9: // swapToNative on the contract + hook
		t, bound := pickBound()
		c := "K1"
		s := acc(g)
		bal := big.NewInt(0)
		if bound {
			c = t.contract
			s, bal = r.evmHolder(g, t.contract, false)
		}
		if g.Chance(1, 12) {
			c = fmt.Sprintf("K%d", 1+g.Intn(8))
		}
		to := acc(g)
		if g.Chance(1, 6) {
			to = anyAcc(g)
		}
		if g.Chance(1, 25) {
			to = "-"
		}
		amt := around(g, bal)
		if g.Chance(1, 12) {
			amt = big.NewInt(g.Range(-1, 0))
		}
		return "token hook_swap " + hx.KV("from", s, "contract", c, "to", to, "amount", amt)
	case 12: // an EVM transaction with 1..3 SwapToNative logs; the tx target need not be the emitter
		var bound []tokInfo
		for _, t := range toks {
			if t.contract != "" {
				bound = append(bound, t)
			}
		}
		pickEm := func() string {
			switch {
			case len(bound) > 0 && g.Chance(7, 10):
				return bound[g.Intn(len(bound))].contract
			case g.Chance(1, 2):
				return fmt.Sprintf("U%d", g.Intn(3))
			default:
				return fmt.Sprintf("K%d", 1+g.Intn(8))
			}
		}
		n := 1 + g.Pick(6, 3, 1)
		if g.Chance(1, 30) {
			n = 0
		}
		var logs []string
		first := ""
		spent := map[string]*big.Int{}
		for i := 0; i < n; i++ {
			em := pickEm()
			if first == "" {
				first = em
			}
			from, bal := acc(g), big.NewInt(0)
			if strings.HasPrefix(em, "K") {
				from, bal = r.evmHolder(g, em, false)
			}
			key := em + "/" + from
			left := new(big.Int).Set(bal)
			if sp, ok := spent[key]; ok {
				left.Sub(left, sp)
			}
			var amt *big.Int
			if n > 1 && left.Sign() > 0 && g.Chance(2, 3) {
				amt = new(big.Int).Add(new(big.Int).Mod(g.BigRaw(left.BitLen()+4), left), big.NewInt(1))
			} else {
				amt = around(g, left)
			}
			if g.Chance(1, 25) {
				amt = big.NewInt(g.Range(-1, 0))
			}
			if amt.Sign() > 0 {
				if spent[key] == nil {
					spent[key] = new(big.Int)
				}
				spent[key].Add(spent[key], amt)
			}
			to := acc(g)
			if g.Chance(1, 10) {
				to = anyAcc(g)
			}
			if g.Chance(1, 40) {
				to = "-"
			}
			logs = append(logs, fmt.Sprintf("%s:%s:%s:%s", em, from, to, amt))
		}
		// the target: the (first) emitter itself, another bound contract, or an unbound router
		target := first
		if target == "" {
			target = pickEm()
		}
		switch g.Pick(4, 3, 3) {
		case 1:
			if len(bound) > 0 {
				target = bound[g.Intn(len(bound))].contract
			}
		case 2:
			target = fmt.Sprintf("U%d", g.Intn(3))
		}
		return "token evm_tx " + hx.KV("target", target, "logs", hx.Dash(strings.Join(logs, ",")))
	case 13: // UpgradeERC20: authority or a stranger; implementations with and without code
		auth := "GOV"
		if g.Chance(1, 5) {
			auth = anyAcc(g)
		}
		var impl string
		switch g.Pick(6, 2, 1, 1, 1, 1, 1, 1) {
		case 0:
			impl = fmt.Sprintf("I%d", g.Intn(4))
		case 1: // a contract of the module account: code once it exists
			impl = fmt.Sprintf("K%d", 1+g.Intn(nBound+2))
		case 2:
			impl = "Z"
		case 3:
			impl = fmt.Sprintf("E%d", g.Intn(3))
		case 4:
			impl = acc(g)
		case 5:
			impl = "B"
		case 6:
			impl = "TM"
		default:
			impl = "BAD"
		}
		return "token upgrade_erc20 " + hx.KV("authority", auth, "impl", impl)
	case 10: // contract misbehaviour
		mode := []string{"none", "mint_revert", "mint_noop", "mint_short", "burn_revert", "burn_noop", "call_err", "bogus"}[g.Pick(8, 2, 2, 2, 2, 2, 2, 1)]
		if r.evm.Fault != "none" && g.Chance(2, 3) {
			mode = "none"
		}
		return "token evm_fault " + hx.KV("mode", mode)
	default: // update params
		auth := "GOV"
		if g.Chance(1, 5) {
			auth = anyAcc(g)
		}
		rate := func() string {
			switch g.Pick(2, 2, 4, 1) {
			case 0:
				return "0"
			case 1:
				return "1000000000000000000"
			case 2:
				return new(big.Int).Mod(g.BigRaw(64), pow10(18)).String()
			default:
				return []string{"1000000000000000001", "-1"}[g.Intn(2)]
			}
		}
		denom := "stake"
		if g.Chance(1, 4) {
			denom = pickStr(g, append(append([]string{}, symPool[:4]...), muPool[:3]...)) // fresh slice: never alias symPool
		}
		if g.Chance(1, 8) { // malformed fee denoms (Params.Validate checks sdk.ValidateDenom)
			denom = []string{"-", "ab", "1ab", "a b"[:1], "Stake", "st/ake", "st!ake"}[g.Intn(7)]
		}
		amt := hx.NewRng(g.U64()).Amount(60).String()
		if g.Chance(1, 10) {
			amt = "0"
		}
		return "token update_params " + hx.KV("authority", auth, "tax", rate(), "feedenom", denom, "feeamt", amt,
			"mintratio", rate(), "erc20", b01(!g.Chance(1, 8)), "beacon", b01(!g.Chance(1, 8)))
	}
}

const tokentypes_DoNotModify = "[do-not-modify]"

// mainUnits draws a uint64 amount of main units around ⌊v / 10^scale⌋ (v in min units): the
// largest amount that fits, one more, one less, small amounts, zero, and the top of the uint64 range.
func mainUnits(g *hx.Rng, v *big.Int, scale int) string {
	q := new(big.Int)
	if v.Sign() > 0 {
		q.Quo(v, pow10(scale))
	}
	switch g.Pick(7, 3, 2, 5, 1, 1, 1) {
	case 0:
		if q.Sign() == 0 {
			return "1"
		}
		return u64str(q)
	case 1:
		return u64str(new(big.Int).Add(q, big.NewInt(1)))
	case 2:
		return u64str(new(big.Int).Sub(q, big.NewInt(1)))
	case 3:
		if q.IsInt64() && q.Int64() >= 1 && q.Int64() < 5 {
			return fmt.Sprint(g.Range(1, q.Int64()))
		}
		return fmt.Sprint(g.Range(1, 5))
	case 4:
		return "0"
	case 5:
		return new(big.Int).Sub(maxU64, big.NewInt(g.Range(0, 2))).String()
	default:
		return fmt.Sprint(g.U64())
	}
}

// evmHolder picks a holder of ERC20 balance on contract k (symbolic K name).
func (r *R) evmHolder(g *hx.Rng, k string, accountsOnly bool) (string, *big.Int) {
	c, ok := r.kaddrs[k]
	if !ok {
		return acc(g), big.NewInt(0)
	}
	type hb struct {
		n string
		v *big.Int
	}
	var hs []hb
	for _, e := range r.evm.Entries() {
		if e.C == c {
			n := r.symEth(e.H)
			if accountsOnly && !strings.HasPrefix(n, "A") && n != "TM" {
				continue
			}
			hs = append(hs, hb{n, e.V})
		}
	}
	if len(hs) == 0 || g.Chance(1, 10) {
		n := acc(g)
		e, _ := r.eth(n)
		return n, r.evm.Balance(c, e)
	}
	h := hs[g.Intn(len(hs))]
	return h.n, h.v
}

var _ = common.Address{}

// ---------------------------------------------------------------- pure stream

// genPure draws LossLessSwap cases over all 19x19 scale pairs, ratios 1 / powers of ten /
// random 18-decimal / near-boundary, amounts up to 2^128 (occasionally beyond, to reach the
// decimal overflow panic), and the fee-factor table lengths.
func (r *R) genPure(g *hx.Rng) string {
	if g.Chance(1, 40) {
		return "token fee_factor " + hx.KV("len", g.Range(3, 64))
	}
	si, so := g.Intn(19), g.Intn(19)
	if g.Chance(1, 6) {
		so = si
	}
	var x *big.Int
	switch g.Pick(4, 3, 3, 2, 1) {
	case 0:
		x = big.NewInt(g.Range(0, 50))
	case 1:
		x = g.BigRaw(1 + g.Intn(128))
	case 2: // k·10^e ± 1
		x = new(big.Int).Mul(big.NewInt(g.Range(1, 999)), pow10(g.Intn(30)))
		x.Add(x, big.NewInt(g.Range(-1, 1)))
	case 3:
		x = new(big.Int).Sub(new(big.Int).Lsh(big.NewInt(1), 128), big.NewInt(g.Range(0, 2)))
	default:
		x = g.BigRaw(129 + g.Intn(127))
	}
	if x.Sign() < 0 {
		x.SetInt64(0)
	}
	var ratio *big.Int
	switch g.Pick(4, 3, 4, 4, 2) {
	case 0:
		ratio = pow10(18)
	case 1:
		ratio = pow10(g.Intn(37))
	case 2:
		ratio = g.BigRaw(1 + g.Intn(90))
	case 3: // near a boundary: x·10^(so-si)·ratio close to an integer or a half
		t := new(big.Int).Mul(big.NewInt(g.Range(1, 1000)), pow10(18))
		if g.Chance(1, 3) {
			t.Add(t, new(big.Int).Quo(pow10(18), big.NewInt(2)))
		}
		num := new(big.Int).Mul(t, pow10(si))
		den := new(big.Int).Mul(x, pow10(so))
		if den.Sign() == 0 {
			ratio = pow10(18)
		} else {
			ratio = new(big.Int).Quo(num, den)
			ratio.Add(ratio, big.NewInt(g.Range(-2, 2)))
		}
	default:
		ratio = pickRatio(g)
	}
	if ratio.Sign() < 0 {
		ratio.SetInt64(0)
	}
	return "token lossless " + hx.KV("input", x, "ratio", ratio, "si", si, "so", so)
}

func pickRatio(g *hx.Rng) *big.Int {
	v, _ := new(big.Int).SetString(ratioPool[g.Intn(len(ratioPool))], 10)
	return v
}
