// Package coinswap drives the real coinswap module (message router + keeper + real bank)
// for C01 (share value / pricing) and C02 (settlement).
//
// Line protocol (first token "coinswap"):
//
//	reset  std= fee= tax= ufee= pcf=<amt>:<denom> now=<ns> blocked=<names> fund=<acct>/<denom>:<amt>,..
//	block  t=<unix ns>
//	swap   sender= recv= in=<amt>:<denom> out=<amt>:<denom> buy=0|1 deadline=<s>
//	add    sender= max=<amt>:<denom> std=<amt> minl=<amt> deadline=
//	remove sender= lpt=<amt>:<denom> minstd=<amt> mintok=<amt> deadline=
//	add1   sender= cp=<denom> tok=<amt>:<denom> minl=<amt> deadline=
//	rem1   sender= cp=<denom> min=<amt>:<denom> lpt=<amt> deadline=
//	donate from= to= coin=<amt>:<denom>
//	params auth= fee= tax= ufee= pcf=<amt>:<denom>
//	export                        (real ExportGenesis in its own order + ValidateGenesis verdict)
//	reimport                      (wipe the module store, InitGenesis(ExportGenesis(state)))
//	price_in  x= y= dx= fee=      (pure: keeper.GetInputPrice)
//	price_out x= y= dy= fee=      (pure: keeper.GetOutputPrice)
//
// Observation: "<ok|rej|panic> e=<err class> resp=<coins> <state>" where state is the
// canonical projection: block time, params, pool registry, every non-zero balance of every
// universe account (A0..A3, pool escrows P1..P6, module account M, fee collector FC) and
// every non-zero supply of the universe denoms (relative to the application's genesis supply).
package coinswap

import (
	"fmt"
	"math/big"
	"os"
	"sort"
	"strconv"
	"strings"
	"time"

	sdkmath "cosmossdk.io/math"
	storetypes "cosmossdk.io/store/types"
	sdk "github.com/cosmos/cosmos-sdk/types"
	authtypes "github.com/cosmos/cosmos-sdk/x/auth/types"
	banktypes "github.com/cosmos/cosmos-sdk/x/bank/types"
	"github.com/cosmos/gogoproto/proto"

	cskeeper "mods.irisnet.org/modules/coinswap/keeper"
	cstypes "mods.irisnet.org/modules/coinswap/types"

	"verifharness/hx"
)

const (
	nAcc  = 4
	nPool = 6
)

var tokens = []string{"tokA", "tokB", "tokC"}

var p18 = new(big.Int).Exp(big.NewInt(10), big.NewInt(18), nil)

type R struct {
	env    *hx.Env
	names  map[string]string // bech32 -> symbolic
	addrs  map[string]sdk.AccAddress
	order  []string // universe accounts in print order
	denoms []string // universe denoms (supply is printed for these)
	sup0   map[string]sdkmath.Int
	big    bool // the current history belongs to the overflow-magnitude stream
	Pure   bool // generate only pure price operations
}

func New(env *hx.Env) *R {
	r := &R{env: env, names: map[string]string{}, addrs: map[string]sdk.AccAddress{}, sup0: map[string]sdkmath.Int{}}
	add := func(sym string, a sdk.AccAddress) {
		r.names[a.String()] = sym
		r.addrs[sym] = a
		r.order = append(r.order, sym)
	}
	for i := 0; i < nAcc; i++ {
		add(hx.AccName(i), hx.Acc(i))
	}
	for i := 1; i <= nPool; i++ {
		add(fmt.Sprintf("P%d", i), cstypes.GetReservePoolAddr(cstypes.GetLptDenom(uint64(i))))
	}
	add("M", hx.Mod(cstypes.ModuleName))
	add("FC", hx.Mod(authtypes.FeeCollectorName))
	r.addrs["GOV"] = sdk.MustAccAddressFromBech32(hx.Authority())
	r.denoms = append([]string{"stake", "ustd", "ufee", "junk", "abc-1", "abc-2"}, tokens...) // abc-N: foreign coins spelled like a liquidity denom
	for i := 1; i <= nPool; i++ {
		r.denoms = append(r.denoms, cstypes.GetLptDenom(uint64(i)))
	}
	for _, d := range r.denoms {
		r.sup0[d] = env.Supply(env.Base, d)
	}
	for _, sym := range r.order {
		if !env.App.BankKeeper.GetAllBalances(env.Base, r.addrs[sym]).IsZero() {
			hx.Fail("universe account %s has a genesis balance", sym)
		}
	}
	return r
}

func (r *R) Module() string { return "coinswap" }

// State is the canonical state projection carried by every observation line (hx.Stater).
// GhostChance: now and then an operation is executed on a context that is thrown away (hx.Ghoster).
func (r *R) GhostChance() (int, int) { return 1, 16 }

func (r *R) State(ctx sdk.Context) string { return r.state(ctx) }

var _ hx.Runner = (*R)(nil)
var _ hx.Stater = (*R)(nil)

func (r *R) addr(sym string) string {
	if a, ok := r.addrs[sym]; ok {
		return a.String()
	}
	return hx.Undash(sym)
}

func (r *R) sym(bech string) string {
	if s, ok := r.names[bech]; ok {
		return s
	}
	return bech
}

// ---------------------------------------------------------------- parsing helpers

func parseCoin(s string) sdk.Coin {
	i := strings.IndexByte(s, ':')
	if i < 0 {
		hx.Fail("bad coin %q", s)
	}
	return sdk.Coin{Denom: hx.Undash(s[i+1:]), Amount: hx.MustInt(s[:i])}
}

func dec(raw string) sdkmath.LegacyDec {
	v, ok := new(big.Int).SetString(raw, 10)
	if !ok {
		hx.Fail("bad dec %q", raw)
	}
	return sdkmath.LegacyNewDecFromBigIntWithPrec(v, 18)
}

func i64(s string) int64 {
	v, err := strconv.ParseInt(s, 10, 64)
	if err != nil {
		hx.Fail("bad int64 %q", s)
	}
	return v
}

func coinStr(c sdk.Coin) string { return c.Amount.String() + ":" + hx.Dash(c.Denom) }

// ---------------------------------------------------------------- state rendering

func seqOf(lpt string) string { return strings.TrimPrefix(lpt, "lpt-") }

func (r *R) state(ctx sdk.Context) string {
	k := r.env.Coinswap
	gs := k.ExportGenesis(ctx)
	var pools, bals, sups []string
	for _, p := range gs.Pool {
		pools = append(pools, p.CounterpartyDenom+":"+seqOf(p.LptDenom))
	}
	sort.Strings(pools)
	seen := map[string]bool{}
	for _, d := range r.denoms {
		seen[d] = true
	}
	extra := []string{}
	for _, sym := range r.order {
		for _, c := range r.env.App.BankKeeper.GetAllBalances(ctx, r.addrs[sym]) {
			if c.Amount.IsZero() {
				continue
			}
			bals = append(bals, sym+"/"+c.Denom+":"+c.Amount.String())
			if !seen[c.Denom] {
				seen[c.Denom] = true
				extra = append(extra, c.Denom)
			}
		}
	}
	sort.Strings(bals)
	for _, d := range append(append([]string{}, r.denoms...), extra...) {
		s := r.env.Supply(ctx, d)
		if b, ok := r.sup0[d]; ok {
			s = s.Sub(b) // supply is reported relative to the application's genesis supply
		}
		if !s.IsZero() {
			sups = append(sups, d+":"+s.String())
		}
	}
	sort.Strings(sups)
	// the second index of the registry: GetPoolByLptDenom for every sequence handed out so far
	var lpts []string
	for i := uint64(1); i < gs.Sequence && i < 64; i++ {
		cp := "?"
		if pl, ok := k.GetPoolByLptDenom(ctx, cstypes.GetLptDenom(i)); ok {
			cp = pl.CounterpartyDenom
		}
		lpts = append(lpts, fmt.Sprintf("%s:%s", cstypes.GetLptDenom(i), cp))
	}
	p := gs.Params
	return fmt.Sprintf("now=%d seq=%d std=%s fee=%s tax=%s ufee=%s pcf=%s pools=%s bal=%s sup=%s lpts=%s",
		ctx.BlockTime().UnixNano(), gs.Sequence, gs.StandardDenom, p.Fee.BigInt().String(), p.TaxRate.BigInt().String(),
		p.UnilateralLiquidityFee.BigInt().String(), coinStr(p.PoolCreationFee),
		hx.Dash(strings.Join(pools, ",")), hx.Dash(strings.Join(bals, ",")), hx.Dash(strings.Join(sups, ",")),
		hx.Dash(strings.Join(lpts, ",")))
}

// genesisLine renders the real exported genesis in its own order.
func (r *R) genesisLine(gs cstypes.GenesisState) string {
	var pools []string
	for _, p := range gs.Pool {
		pools = append(pools, fmt.Sprintf("%s;%s;%s;%s;%s", p.Id, p.StandardDenom, p.CounterpartyDenom, r.sym(p.EscrowAddress), p.LptDenom))
	}
	q := gs.Params
	return fmt.Sprintf("seq=%d std=%s fee=%s tax=%s ufee=%s pcf=%s pools=%s", gs.Sequence, gs.StandardDenom, q.Fee.BigInt().String(),
		q.TaxRate.BigInt().String(), q.UnilateralLiquidityFee.BigInt().String(), coinStr(q.PoolCreationFee), hx.Dash(strings.Join(pools, "|")))
}

// ---------------------------------------------------------------- reset

var feeChoices = []string{"3000000000000000", "1", "999999999999999999", "500000000000000000", "100000000000000000", "2500000000000000", "999999999999999"}

func (r *R) pickFee(g *hx.Rng) string {
	if g.Chance(1, 5) {
		m := new(big.Int).Sub(p18, big.NewInt(1))
		return new(big.Int).Add(new(big.Int).Mod(g.BigRaw(64), m), big.NewInt(1)).String()
	}
	return feeChoices[g.Intn(len(feeChoices))]
}

func (r *R) pickUfee(g *hx.Rng) string {
	if g.Chance(1, 4) {
		return "0"
	}
	if g.Chance(1, 2) {
		return "2000000000000000"
	}
	return r.pickFee(g)
}

func (r *R) fundAmount(g *hx.Rng) sdkmath.Int {
	if r.big {
		// 2^120 .. 2^137
		b := 120 + g.Intn(18)
		v := new(big.Int).Lsh(big.NewInt(1), uint(b))
		v.Add(v, g.BigRaw(b))
		return sdkmath.NewIntFromBigInt(v)
	}
	switch g.Pick(1, 6, 3) {
	case 0:
		return sdkmath.ZeroInt()
	case 1:
		return sdkmath.NewInt(g.Range(1000, 100000000))
	default:
		return sdkmath.NewIntFromBigInt(g.BigRaw(20 + g.Intn(50))).AddRaw(1)
	}
}

func (r *R) ResetLine(g *hx.Rng) string {
	r.big = g.Chance(1, 6)
	std := "stake"
	if g.Chance(1, 3) {
		std = "ustd"
	}
	pcfDenom := std
	if g.Chance(1, 3) {
		pcfDenom = "ufee"
	}
	pcfAmt := sdkmath.NewInt(g.Range(1, 5000))
	if g.Chance(1, 4) {
		pcfAmt = sdkmath.NewInt(g.Range(1, 3))
	}
	if r.big && g.Chance(1, 2) {
		pcfAmt = sdkmath.NewIntFromBigInt(g.BigRaw(100 + g.Intn(20))).AddRaw(1)
	}
	var funds []string
	ds := append([]string{std, "junk", "abc-1", "abc-2"}, tokens...)
	if pcfDenom != std {
		ds = append(ds, pcfDenom)
	}
	for i := 0; i < nAcc; i++ {
		for _, d := range ds {
			a := r.fundAmount(g)
			if a.IsPositive() {
				funds = append(funds, fmt.Sprintf("%s/%s:%s", hx.AccName(i), d, a.String()))
			}
		}
	}
	tax := []string{"400000000000000000", "1", "999999999999999999", "333333333333333333"}[g.Pick(5, 1, 1, 2)]
	now := int64(1700000000+g.Intn(1000)) * 1000000000
	if g.Chance(1, 4) {
		now += int64(1 + g.Intn(999999999))
	}
	return "coinswap reset " + hx.KV("std", std, "fee", r.pickFee(g), "tax", tax, "ufee", r.pickUfee(g),
		"pcf", pcfAmt.String()+":"+pcfDenom, "now", now, "blocked", "FC",
		"fund", hx.Dash(strings.Join(funds, ",")))
}

func (r *R) Reset(ctx sdk.Context, line string) (sdk.Context, string) {
	f := strings.Fields(line)
	a := hx.Args(f[2:])
	k := r.env.Coinswap
	k.SetStandardDenom(ctx, a["std"])
	if err := k.SetParams(ctx, cstypes.Params{Fee: dec(a["fee"]), TaxRate: dec(a["tax"]), UnilateralLiquidityFee: dec(a["ufee"]), PoolCreationFee: parseCoin(a["pcf"])}); err != nil {
		hx.Fail("reset params: %v", err)
	}
	for _, b := range strings.Split(hx.Undash(a["blocked"]), ",") {
		if b != "" && !r.env.App.BankKeeper.BlockedAddr(r.addrs[b]) {
			hx.Fail("account %s is not blocked in the application", b)
		}
	}
	for _, sym := range r.order {
		if sym != "FC" && r.env.App.BankKeeper.BlockedAddr(r.addrs[sym]) {
			hx.Fail("account %s is blocked in the application", sym)
		}
	}
	// The coinswap module account is created lazily by the first mint/burn; a chain that has ever
	// created a pool has it.  (If a plain bank send reaches that address first, the SDK creates a
	// base account there and every later MintCoins panics "account is not a module account" - an
	// application-wiring hazard outside C01/C02, so histories start with the account in place.)
	r.env.App.AccountKeeper.GetModuleAccount(ctx, cstypes.ModuleName)
	for _, e := range strings.Split(hx.Undash(a["fund"]), ",") {
		if e == "" {
			continue
		}
		i := strings.IndexByte(e, '/')
		j := strings.IndexByte(e, ':')
		c := sdk.NewCoin(e[i+1:j], hx.MustInt(e[j+1:]))
		r.env.Fund(ctx, r.addrs[e[:i]], sdk.NewCoins(c))
	}
	ctx = hx.WithBlock(ctx, 2, time.Unix(0, i64(a["now"])).UTC())
	return ctx, "ok e=- resp=- " + r.state(ctx)
}

// ---------------------------------------------------------------- execution

func tryPrice(f func() sdkmath.Int) (s string) {
	defer func() {
		if rec := recover(); rec != nil {
			s = "panic"
		}
	}()
	return "ok v=" + f().String()
}

func respCoins(cs []sdk.Coin) string {
	var out []string
	for _, c := range cs {
		out = append(out, c.Denom+":"+c.Amount.String())
	}
	sort.Strings(out)
	return hx.Dash(strings.Join(out, ","))
}

func (r *R) Exec(ctx sdk.Context, line string) (sdk.Context, string) {
	f := strings.Fields(line)
	a := hx.Args(f[2:])
	var msg sdk.Msg
	switch f[1] {
	case "block":
		ctx = hx.WithBlock(ctx, ctx.BlockHeight()+1, time.Unix(0, i64(a["t"])).UTC())
		return ctx, "ok e=- resp=- " + r.state(ctx)
	case "export":
		gs := r.env.Coinswap.ExportGenesis(ctx)
		v := "ok"
		if err := cstypes.ValidateGenesis(gs); err != nil {
			v = "err"
		}
		return ctx, fmt.Sprintf("ok validate=%s %s", v, r.genesisLine(gs))
	case "reimport":
		gs := r.env.Coinswap.ExportGenesis(ctx)
		class, _ := hx.Try(ctx, func(c sdk.Context) error {
			st := c.KVStore(r.env.App.UnsafeFindStoreKey(cstypes.StoreKey))
			it := storetypes.KVStorePrefixIterator(st, nil)
			var keys [][]byte
			for ; it.Valid(); it.Next() {
				keys = append(keys, append([]byte{}, it.Key()...))
			}
			it.Close()
			for _, k := range keys {
				st.Delete(k)
			}
			r.env.Coinswap.InitGenesis(c, gs)
			return nil
		})
		return ctx, fmt.Sprintf("%s e=- resp=- %s", class, r.state(ctx))
	case "price_in":
		return ctx, tryPrice(func() sdkmath.Int {
			return cskeeper.GetInputPrice(hx.MustInt(a["dx"]), hx.MustInt(a["x"]), hx.MustInt(a["y"]), dec(a["fee"]))
		})
	case "price_out":
		return ctx, tryPrice(func() sdkmath.Int {
			return cskeeper.GetOutputPrice(hx.MustInt(a["dy"]), hx.MustInt(a["x"]), hx.MustInt(a["y"]), dec(a["fee"]))
		})
	case "swap":
		msg = &cstypes.MsgSwapOrder{
			Input:      cstypes.Input{Address: r.addr(a["sender"]), Coin: parseCoin(a["in"])},
			Output:     cstypes.Output{Address: r.addr(a["recv"]), Coin: parseCoin(a["out"])},
			Deadline:   i64(a["deadline"]),
			IsBuyOrder: a["buy"] == "1",
		}
	case "add":
		msg = &cstypes.MsgAddLiquidity{MaxToken: parseCoin(a["max"]), ExactStandardAmt: hx.MustInt(a["std"]),
			MinLiquidity: hx.MustInt(a["minl"]), Deadline: i64(a["deadline"]), Sender: r.addr(a["sender"])}
	case "remove":
		msg = &cstypes.MsgRemoveLiquidity{WithdrawLiquidity: parseCoin(a["lpt"]), MinToken: hx.MustInt(a["mintok"]),
			MinStandardAmt: hx.MustInt(a["minstd"]), Deadline: i64(a["deadline"]), Sender: r.addr(a["sender"])}
	case "add1":
		msg = &cstypes.MsgAddUnilateralLiquidity{CounterpartyDenom: hx.Undash(a["cp"]), ExactToken: parseCoin(a["tok"]),
			MinLiquidity: hx.MustInt(a["minl"]), Deadline: i64(a["deadline"]), Sender: r.addr(a["sender"])}
	case "rem1":
		msg = &cstypes.MsgRemoveUnilateralLiquidity{CounterpartyDenom: hx.Undash(a["cp"]), MinToken: parseCoin(a["min"]),
			ExactLiquidity: hx.MustInt(a["lpt"]), Deadline: i64(a["deadline"]), Sender: r.addr(a["sender"])}
	case "donate":
		msg = &banktypes.MsgSend{FromAddress: r.addr(a["from"]), ToAddress: r.addr(a["to"]), Amount: sdk.NewCoins(parseCoin(a["coin"]))}
	case "params":
		msg = &cstypes.MsgUpdateParams{Authority: r.addr(a["auth"]), Params: cstypes.Params{Fee: dec(a["fee"]), TaxRate: dec(a["tax"]),
			UnilateralLiquidityFee: dec(a["ufee"]), PoolCreationFee: parseCoin(a["pcf"])}}
	default:
		hx.Fail("unknown op %q", line)
	}
	out := r.env.Deliver(ctx, msg)
	if os.Getenv("VERIF_DEBUG") != "" && out.Class != hx.OK {
		fmt.Fprintf(os.Stderr, "debug: %s -> %s %s\n", line, out.Class, out.Err)
	}
	e, resp := "-", "-"
	switch out.Class {
	case hx.Rej:
		e = out.Err
		if strings.Contains(e, "other:") {
			e = "invalid" // unregistered error text (Params.Validate): only the fact is compared
		}
	case hx.OK:
		if out.Raw != nil && len(out.Raw.MsgResponses) == 1 {
			bz := out.Raw.MsgResponses[0].Value
			switch f[1] {
			case "add":
				var m cstypes.MsgAddLiquidityResponse
				if proto.Unmarshal(bz, &m) == nil && m.MintToken != nil {
					resp = respCoins([]sdk.Coin{*m.MintToken})
				}
			case "add1":
				var m cstypes.MsgAddUnilateralLiquidityResponse
				if proto.Unmarshal(bz, &m) == nil && m.MintToken != nil {
					resp = respCoins([]sdk.Coin{*m.MintToken})
				}
			case "remove":
				var m cstypes.MsgRemoveLiquidityResponse
				if proto.Unmarshal(bz, &m) == nil {
					resp = respCoins(m.WithdrawCoins)
				}
			case "rem1":
				var m cstypes.MsgRemoveUnilateralLiquidityResponse
				if proto.Unmarshal(bz, &m) == nil {
					resp = respCoins(m.WithdrawCoins)
				}
			}
		}
	}
	return ctx, fmt.Sprintf("%s e=%s resp=%s %s", out.Class, e, resp, r.state(ctx))
}
