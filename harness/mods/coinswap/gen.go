package coinswap

import (
	"fmt"
	"math"
	"math/big"

	sdkmath "cosmossdk.io/math"
	sdk "github.com/cosmos/cosmos-sdk/types"

	cskeeper "mods.irisnet.org/modules/coinswap/keeper"
	cstypes "mods.irisnet.org/modules/coinswap/types"

	"verifharness/hx"
)

type poolv struct {
	cp   string
	seq  int
	lpt  string
	addr sdk.AccAddress
	X    sdkmath.Int // standard reserve
	Y    sdkmath.Int // counterparty reserve
	L    sdkmath.Int // liquidity supply
}

type view struct {
	std   string
	fee   sdkmath.LegacyDec
	ufee  sdkmath.LegacyDec
	pcf   sdk.Coin
	tax   sdkmath.LegacyDec
	pools []poolv
	seq   uint64
	now   int64
}

func (r *R) read(ctx sdk.Context) view {
	gs := r.env.Coinswap.ExportGenesis(ctx)
	v := view{std: gs.StandardDenom, fee: gs.Params.Fee, ufee: gs.Params.UnilateralLiquidityFee, pcf: gs.Params.PoolCreationFee,
		tax: gs.Params.TaxRate, seq: gs.Sequence, now: ctx.BlockTime().UnixNano()}
	for _, p := range gs.Pool {
		a := sdk.MustAccAddressFromBech32(p.EscrowAddress)
		var n int
		fmt.Sscanf(p.LptDenom, "lpt-%d", &n)
		v.pools = append(v.pools, poolv{cp: p.CounterpartyDenom, seq: n, lpt: p.LptDenom, addr: a,
			X: r.env.Bal(ctx, a, gs.StandardDenom), Y: r.env.Bal(ctx, a, p.CounterpartyDenom), L: r.env.Supply(ctx, p.LptDenom)})
	}
	return v
}

func safe(f func() sdkmath.Int) (v sdkmath.Int, ok bool) {
	defer func() {
		if rec := recover(); rec != nil {
			v, ok = sdkmath.OneInt(), false
		}
	}()
	return f(), true
}

// dbl doubles a value, saturating inside the sdkmath.Int range
func dbl(v sdkmath.Int) sdkmath.Int {
	w, ok := safe(func() sdkmath.Int { return v.MulRaw(2) })
	if !ok {
		return v
	}
	return w
}

func pow2(b int) sdkmath.Int { return sdkmath.NewIntFromBigInt(new(big.Int).Lsh(big.NewInt(1), uint(b))) }

// amt draws an amount: small, a fraction of a hint, exactly a hint +-1, or a large magnitude.
func (r *R) amt(g *hx.Rng, hints ...sdkmath.Int) sdkmath.Int {
	return r.amtCap(g, sdkmath.ZeroInt(), hints...)
}

// amtCap is amt, but 6 times out of 7 the result is brought within cap (the payer's balance).
func (r *R) amtCap(g *hx.Rng, cap sdkmath.Int, hints ...sdkmath.Int) sdkmath.Int {
	v := r.amt0(g, hints...)
	if cap.IsPositive() && v.GT(cap) && g.Chance(6, 7) {
		switch g.Pick(2, 1, 3) {
		case 0:
			return cap
		case 1:
			if cap.GT(sdkmath.OneInt()) {
				return cap.SubRaw(1)
			}
			return cap
		default:
			w := cap.MulRaw(g.Range(1, 90)).QuoRaw(100)
			if w.IsPositive() {
				return w
			}
			return cap
		}
	}
	return v
}

func (r *R) amt0(g *hx.Rng, hints ...sdkmath.Int) sdkmath.Int {
	var hs []sdkmath.Int
	for _, h := range hints {
		if h.IsPositive() {
			hs = append(hs, h)
		}
	}
	k := g.Pick(3, 4, 3, 1)
	if len(hs) == 0 && (k == 1 || k == 2) {
		k = 0
	}
	switch k {
	case 0:
		if r.big && g.Chance(1, 2) {
			return sdkmath.NewIntFromBigInt(g.BigRaw(100 + g.Intn(30))).AddRaw(1)
		}
		return sdkmath.NewInt(g.Range(1, 2000))
	case 1:
		h := hs[g.Intn(len(hs))]
		v, ok := safe(func() sdkmath.Int { return h.MulRaw(g.Range(1, 150)).QuoRaw(100) })
		if !ok || !v.IsPositive() {
			return sdkmath.OneInt()
		}
		return v
	case 2:
		h := hs[g.Intn(len(hs))]
		v := h.AddRaw(g.Range(-1, 1))
		if !v.IsPositive() {
			return sdkmath.OneInt()
		}
		return v
	default:
		if r.big {
			return pow2(120 + g.Intn(16)).Add(g.BigBits(100))
		}
		return pow2(40 + g.Intn(60))
	}
}

// near returns v, v+1 or v-1 (never negative), or one of the fallbacks.
func near(g *hx.Rng, v sdkmath.Int, fallbacks ...sdkmath.Int) sdkmath.Int {
	switch g.Pick(6, 1, 2, 4) {
	case 0:
		return v
	case 1:
		return v.AddRaw(1)
	case 2:
		if v.IsPositive() {
			return v.SubRaw(1)
		}
		return v
	default:
		if len(fallbacks) == 0 {
			return v
		}
		return fallbacks[g.Intn(len(fallbacks))]
	}
}

func (r *R) deadline(g *hx.Rng, now int64) int64 {
	s := now / 1000000000
	switch g.Pick(86, 4, 3, 3, 1, 1, 1, 1) {
	case 0:
		return s + 100
	case 1:
		return s
	case 2:
		return s - 1
	case 3:
		return s + 1
	case 4:
		return 0
	case 5:
		return -5
	case 6:
		return math.MaxInt64
	default:
		return 1
	}
}

func (r *R) acc(g *hx.Rng) int { return g.Intn(nAcc) }

func (r *R) recipient(g *hx.Rng, sender int) string {
	switch g.Pick(46, 44, 4, 3, 2, 1) {
	case 0:
		return hx.AccName((sender + 1 + g.Intn(nAcc-1)) % nAcc)
	case 1:
		return hx.AccName(sender)
	case 2:
		return fmt.Sprintf("P%d", 1+g.Intn(4))
	case 3:
		return "FC"
	case 4:
		return "M"
	default:
		return "-"
	}
}

func (r *R) bal(ctx sdk.Context, i int, d string) sdkmath.Int { return r.env.Bal(ctx, hx.Acc(i), d) }

func (r *R) genSwap(ctx sdk.Context, g *hx.Rng, v view) string {
	sender := r.acc(g)
	recv := r.recipient(g, sender)
	buy := g.Chance(1, 2)
	dl := r.deadline(g, v.now)
	big1 := pow2(200)
	mk := func(in, out sdk.Coin) string {
		b := 0
		if buy {
			b = 1
		}
		return "coinswap swap " + hx.KV("sender", hx.AccName(sender), "recv", recv, "in", coinStr(in), "out", coinStr(out), "buy", b, "deadline", dl)
	}
	kind := g.Pick(5, 5, 6, 1)
	if len(v.pools) == 0 {
		kind = 3
		if g.Chance(1, 2) { // swap on a pool that does not exist
			return mk(sdk.Coin{Denom: v.std, Amount: sdkmath.NewInt(g.Range(1, 100))}, sdk.Coin{Denom: tokens[g.Intn(len(tokens))], Amount: sdkmath.OneInt()})
		}
	}
	if kind == 2 && len(v.pools) < 2 {
		kind = g.Intn(2)
	}
	switch kind {
	case 0, 1:
		p := v.pools[g.Intn(len(v.pools))]
		inD, outD, X, Y := v.std, p.cp, p.X, p.Y
		if kind == 1 {
			inD, outD, X, Y = p.cp, v.std, p.Y, p.X
		}
		if !buy {
			sender = r.holder(ctx, g, inD)
			dx := r.amtCap(g, r.bal(ctx, sender, inD), X, r.bal(ctx, sender, inD))
			q, _ := safe(func() sdkmath.Int { return cskeeper.GetInputPrice(dx, X, Y, v.fee) })
			min := near(g, q, sdkmath.OneInt(), sdkmath.OneInt(), sdkmath.OneInt(), sdkmath.OneInt(), sdkmath.OneInt(), big1)
			if min.IsZero() && g.Chance(4, 5) {
				min = sdkmath.OneInt()
			}
			return mk(sdk.Coin{Denom: inD, Amount: dx}, sdk.Coin{Denom: outD, Amount: min})
		}
		sender = r.holder(ctx, g, inD)
		dy := r.amtCap(g, Y.SubRaw(1), Y, Y.QuoRaw(20), Y.QuoRaw(3))
		q, _ := safe(func() sdkmath.Int { return cskeeper.GetOutputPrice(dy, X, Y, v.fee) })
		max := near(g, q, r.bal(ctx, sender, inD), big1, big1, big1, dbl(q))
		if !max.IsPositive() && g.Chance(4, 5) {
			max = sdkmath.OneInt()
		}
		return mk(sdk.Coin{Denom: inD, Amount: max}, sdk.Coin{Denom: outD, Amount: dy})
	case 2:
		i := g.Intn(len(v.pools))
		j := (i + 1 + g.Intn(len(v.pools)-1)) % len(v.pools)
		pa, pb := v.pools[i], v.pools[j]
		if !buy {
			sender = r.holder(ctx, g, pa.cp)
			dx := r.amtCap(g, r.bal(ctx, sender, pa.cp), pa.Y, r.bal(ctx, sender, pa.cp))
			q1, _ := safe(func() sdkmath.Int { return cskeeper.GetInputPrice(dx, pa.Y, pa.X, v.fee) })
			q2, _ := safe(func() sdkmath.Int { return cskeeper.GetInputPrice(q1, pb.X, pb.Y, v.fee) })
			min := near(g, q2, sdkmath.OneInt(), sdkmath.OneInt(), sdkmath.OneInt(), sdkmath.OneInt(), sdkmath.OneInt(), big1)
			if min.IsZero() && g.Chance(4, 5) {
				min = sdkmath.OneInt()
			}
			return mk(sdk.Coin{Denom: pa.cp, Amount: dx}, sdk.Coin{Denom: pb.cp, Amount: min})
		}
		sender = r.holder(ctx, g, pa.cp)
		dy := r.amtCap(g, pb.Y.SubRaw(1), pb.Y, pb.Y.QuoRaw(20), pb.Y.QuoRaw(3))
		s1, _ := safe(func() sdkmath.Int { return cskeeper.GetOutputPrice(dy, pb.X, pb.Y, v.fee) })
		s2, _ := safe(func() sdkmath.Int { return cskeeper.GetOutputPrice(s1, pa.Y, pa.X, v.fee) })
		max := near(g, s2, r.bal(ctx, sender, pa.cp), big1, big1, big1, dbl(s2))
		if !max.IsPositive() && g.Chance(4, 5) {
			max = sdkmath.OneInt()
		}
		return mk(sdk.Coin{Denom: pa.cp, Amount: max}, sdk.Coin{Denom: pb.cp, Amount: dy})
	default: // malformed
		a := sdkmath.NewInt(g.Range(1, 100))
		switch g.Intn(7) {
		case 0:
			return mk(sdk.Coin{Denom: v.std, Amount: a}, sdk.Coin{Denom: v.std, Amount: a})
		case 1:
			return mk(sdk.Coin{Denom: "junk", Amount: a}, sdk.Coin{Denom: v.std, Amount: sdkmath.OneInt()})
		case 2:
			return mk(sdk.Coin{Denom: "lpt-1", Amount: a}, sdk.Coin{Denom: v.std, Amount: sdkmath.OneInt()})
		case 3:
			return mk(sdk.Coin{Denom: v.std, Amount: a}, sdk.Coin{Denom: "lptx", Amount: sdkmath.OneInt()})
		case 4:
			return mk(sdk.Coin{Denom: "x", Amount: a}, sdk.Coin{Denom: v.std, Amount: sdkmath.OneInt()})
		case 5:
			return mk(sdk.Coin{Denom: tokens[0], Amount: sdkmath.NewInt(g.Range(-3, 0))}, sdk.Coin{Denom: v.std, Amount: sdkmath.OneInt()})
		default:
			return mk(sdk.Coin{Denom: "junk", Amount: a}, sdk.Coin{Denom: tokens[g.Intn(len(tokens))], Amount: sdkmath.OneInt()})
		}
	}
}

func (r *R) findPool(v view, cp string) *poolv {
	for i := range v.pools {
		if v.pools[i].cp == cp {
			return &v.pools[i]
		}
	}
	return nil
}

func (r *R) genAdd(ctx sdk.Context, g *hx.Rng, v view) string {
	sender := r.holder(ctx, g, v.std)
	dl := r.deadline(g, v.now)
	cp := tokens[g.Intn(len(tokens))]
	if len(v.pools) > 0 && g.Chance(7, 10) {
		cp = v.pools[g.Intn(len(v.pools))].cp
	}
	switch g.Pick(90, 3, 4, 3) {
	case 1:
		cp = v.std
	case 2:
		cp = "junk"
	case 3:
		cp = "lpt-1"
	}
	big1 := pow2(200)
	p := r.findPool(v, cp)
	if g.Chance(3, 4) { // a sender holding both coins
		for try := 0; try < 4 && !(r.bal(ctx, sender, cp).IsPositive() && r.bal(ctx, sender, v.std).IsPositive()); try++ {
			sender = r.acc(g)
		}
	}
	var dS, max, minl sdkmath.Int
	if p != nil && p.L.IsPositive() && p.X.IsPositive() {
		dS = r.amtCap(g, r.bal(ctx, sender, v.std), p.X, r.bal(ctx, sender, v.std))
		mint, _ := safe(func() sdkmath.Int { return p.L.Mul(dS).Quo(p.X) })
		dep, _ := safe(func() sdkmath.Int { return p.Y.Mul(dS).Quo(p.X).AddRaw(1) })
		max = near(g, dep, r.bal(ctx, sender, cp), big1, big1, dbl(dep))
		minl = near(g, mint, sdkmath.ZeroInt(), sdkmath.OneInt(), sdkmath.OneInt())
		if dep.GT(r.bal(ctx, sender, cp)) && r.bal(ctx, sender, cp).IsPositive() && g.Chance(5, 6) {
			// scale the standard amount down so that the token deposit is affordable
			if w, ok := safe(func() sdkmath.Int { return r.bal(ctx, sender, cp).Mul(p.X).Quo(p.Y.AddRaw(1)).MulRaw(g.Range(10, 95)).QuoRaw(100) }); ok && w.IsPositive() && w.LT(dS) {
				dS = w
				mint, _ = safe(func() sdkmath.Int { return p.L.Mul(dS).Quo(p.X) })
				dep, _ = safe(func() sdkmath.Int { return p.Y.Mul(dS).Quo(p.X).AddRaw(1) })
				max = near(g, dep, r.bal(ctx, sender, cp), big1, dbl(dep))
				minl = near(g, mint, sdkmath.ZeroInt(), sdkmath.OneInt())
			}
		}
	} else {
		capS := r.bal(ctx, sender, v.std)
		if v.pcf.Denom == v.std && p == nil {
			capS = capS.Sub(v.pcf.Amount)
		}
		dS = r.amtCap(g, capS, r.bal(ctx, sender, v.std))
		max = r.amtCap(g, r.bal(ctx, sender, cp), r.bal(ctx, sender, cp))
		minl = near(g, dS, sdkmath.ZeroInt(), sdkmath.OneInt(), sdkmath.OneInt())
	}
	if g.Chance(1, 40) {
		dS = sdkmath.NewInt(g.Range(-2, 0))
	}
	if g.Chance(1, 40) {
		max = sdkmath.ZeroInt()
	}
	if g.Chance(1, 60) {
		minl = sdkmath.NewInt(-1)
	}
	return "coinswap add " + hx.KV("sender", hx.AccName(sender), "max", coinStr(sdk.Coin{Denom: cp, Amount: max}), "std", dS, "minl", minl, "deadline", dl)
}

// holder picks an account, preferring holders of the denom
func (r *R) holder(ctx sdk.Context, g *hx.Rng, d string) int {
	if g.Chance(4, 5) {
		var hs []int
		for i := 0; i < nAcc; i++ {
			if r.bal(ctx, i, d).IsPositive() {
				hs = append(hs, i)
			}
		}
		if len(hs) > 0 {
			return hs[g.Intn(len(hs))]
		}
	}
	return r.acc(g)
}

func (r *R) genRemove(ctx sdk.Context, g *hx.Rng, v view) string {
	dl := r.deadline(g, v.now)
	if len(v.pools) == 0 || g.Chance(1, 20) {
		lpt := []string{"lpt-9", "abc-1", "abc-2", "lptx", "lpt-1-1", "lpt-x"}[g.Intn(6)]
		// a foreign coin whose denom ends like a liquidity denom, sent by an account that holds it
		return "coinswap remove " + hx.KV("sender", hx.AccName(r.holder(ctx, g, lpt)), "lpt", "5:"+lpt, "minstd", 0, "mintok", 0, "deadline", dl)
	}
	p := v.pools[g.Intn(len(v.pools))]
	sender := r.holder(ctx, g, p.lpt)
	b := r.bal(ctx, sender, p.lpt)
	w := r.amtCap(g, b, b, b, p.L)
	x, y := sdkmath.ZeroInt(), sdkmath.ZeroInt()
	if p.L.IsPositive() {
		x, _ = safe(func() sdkmath.Int { return w.Mul(p.X).Quo(p.L) })
		y, _ = safe(func() sdkmath.Int { return w.Mul(p.Y).Quo(p.L) })
	}
	minstd := near(g, x, sdkmath.ZeroInt(), sdkmath.ZeroInt(), sdkmath.OneInt())
	mintok := near(g, y, sdkmath.ZeroInt(), sdkmath.ZeroInt(), sdkmath.OneInt())
	if g.Chance(1, 50) {
		w = sdkmath.ZeroInt()
	}
	if g.Chance(1, 60) {
		minstd = sdkmath.NewInt(-1)
	}
	if g.Chance(1, 60) {
		mintok = sdkmath.NewInt(-1)
	}
	return "coinswap remove " + hx.KV("sender", hx.AccName(sender), "lpt", coinStr(sdk.Coin{Denom: p.lpt, Amount: w}), "minstd", minstd, "mintok", mintok, "deadline", dl)
}

func raw(d sdkmath.LegacyDec) sdkmath.Int { return sdkmath.NewIntFromBigInt(d.BigInt()) }

func (r *R) genAdd1(ctx sdk.Context, g *hx.Rng, v view) string {
	dl := r.deadline(g, v.now)
	sender := r.acc(g)
	cp := tokens[g.Intn(len(tokens))]
	if len(v.pools) > 0 && g.Chance(9, 10) {
		cp = v.pools[g.Intn(len(v.pools))].cp
	}
	side := cp
	switch g.Pick(10, 10, 1, 1) {
	case 1:
		side = v.std
	case 2:
		side = "junk"
	case 3:
		side = "lpt-1"
	}
	p := r.findPool(v, cp)
	a := r.amt(g, r.bal(ctx, sender, side))
	minl := sdkmath.ZeroInt()
	if p != nil {
		T := p.Y
		if side == v.std {
			T = p.X
		}
		a = r.amtCap(g, r.bal(ctx, sender, side), T, r.bal(ctx, sender, side))
		if T.IsPositive() {
			D := sdkmath.NewIntFromBigInt(p18)
			n := D.Sub(raw(v.ufee))
			exp, ok := safe(func() sdkmath.Int {
				sq := D.Mul(T).Add(n.Mul(a)).Mul(p.L).Mul(p.L).Quo(D.Mul(T))
				return sdkmath.NewIntFromBigInt(new(big.Int).Sqrt(sq.BigInt())).Sub(p.L)
			})
			if ok {
				minl = near(g, exp, sdkmath.ZeroInt(), sdkmath.ZeroInt(), sdkmath.OneInt())
			}
		}
	}
	if g.Chance(1, 50) {
		a = sdkmath.ZeroInt()
	}
	if g.Chance(1, 50) {
		cp = "-"
	}
	return "coinswap add1 " + hx.KV("sender", hx.AccName(sender), "cp", cp, "tok", coinStr(sdk.Coin{Denom: side, Amount: a}), "minl", minl, "deadline", dl)
}

func (r *R) genRem1(ctx sdk.Context, g *hx.Rng, v view) string {
	dl := r.deadline(g, v.now)
	cp := tokens[g.Intn(len(tokens))]
	if len(v.pools) > 0 && g.Chance(9, 10) {
		cp = v.pools[g.Intn(len(v.pools))].cp
	}
	side := cp
	switch g.Pick(10, 10, 1) {
	case 1:
		side = v.std
	case 2:
		side = "junk"
	}
	p := r.findPool(v, cp)
	sender := r.acc(g)
	w := sdkmath.NewInt(g.Range(0, 50))
	min := sdkmath.OneInt()
	if p != nil {
		sender = r.holder(ctx, g, p.lpt)
		b := r.bal(ctx, sender, p.lpt)
		w = r.amtCap(g, b, b, b, p.L, p.L.SubRaw(1))
		T := p.Y
		if side == v.std {
			T = p.X
		}
		if p.L.IsPositive() {
			D := sdkmath.NewIntFromBigInt(p18)
			n := D.Sub(raw(v.ufee))
			exp, ok := safe(func() sdkmath.Int {
				return p.L.Add(p.L).Sub(w).Mul(w).Mul(T).Mul(n).Quo(p.L.Mul(p.L).Mul(D))
			})
			if ok && !exp.IsNegative() {
				min = near(g, exp, sdkmath.OneInt(), sdkmath.OneInt(), T, T.AddRaw(1))
			}
		}
	}
	if g.Chance(1, 50) {
		w = sdkmath.NewInt(g.Range(-1, 0))
	}
	if g.Chance(1, 50) {
		min = sdkmath.ZeroInt()
	}
	return "coinswap rem1 " + hx.KV("sender", hx.AccName(sender), "cp", cp, "min", coinStr(sdk.Coin{Denom: side, Amount: min}), "lpt", w, "deadline", dl)
}

func (r *R) genDonate(ctx sdk.Context, g *hx.Rng, v view) string {
	from := r.acc(g)
	to := fmt.Sprintf("P%d", 1+g.Intn(int(v.seq)))
	d := v.std
	if len(v.pools) > 0 && g.Chance(4, 5) {
		p := v.pools[g.Intn(len(v.pools))]
		to = fmt.Sprintf("P%d", p.seq)
		d = []string{v.std, p.cp, p.cp, "junk", tokens[g.Intn(len(tokens))], p.lpt}[g.Intn(6)]
	} else {
		d = []string{v.std, "junk", tokens[g.Intn(len(tokens))]}[g.Intn(3)]
	}
	switch g.Pick(85, 5, 5, 3, 2) {
	case 1:
		to = "M"
	case 2:
		to = hx.AccName(r.acc(g))
	case 3:
		to = "FC"
	case 4:
		to = fmt.Sprintf("P%d", nPool)
	}
	b := r.bal(ctx, from, d)
	a := sdkmath.NewInt(g.Range(1, 500))
	switch g.Pick(5, 3, 1, 1) {
	case 1:
		if b.IsPositive() {
			a = b.MulRaw(g.Range(1, 60)).QuoRaw(100)
		}
	case 2:
		a = b
	case 3:
		a = b.AddRaw(1)
	}
	if !a.IsPositive() {
		a = sdkmath.OneInt()
	}
	return "coinswap donate " + hx.KV("from", hx.AccName(from), "to", to, "coin", coinStr(sdk.Coin{Denom: d, Amount: a}))
}

func (r *R) genBlock(g *hx.Rng, v view) string {
	t := v.now
	switch g.Pick(4, 2, 2, 1, 1) {
	case 0:
		t += 1000000000
	case 1:
		t += int64(g.Range(1, 999999999))
	case 2:
		t = (t/1000000000 + int64(g.Range(1, 3))) * 1000000000
	case 3:
		t = (t/1000000000+1)*1000000000 + 1
	case 4:
		t = (t/1000000000+1)*1000000000 - 1
	}
	return "coinswap block " + hx.KV("t", t)
}

func (r *R) genParams(g *hx.Rng, v view) string {
	auth := "GOV"
	if g.Chance(1, 5) {
		auth = hx.AccName(r.acc(g))
	}
	fee, tax, ufee := r.pickFee(g), "400000000000000000", r.pickUfee(g)
	pcf := coinStr(v.pcf)
	if g.Chance(1, 3) {
		pcf = fmt.Sprintf("%d:%s", g.Range(1, 100), v.pcf.Denom)
	}
	switch g.Pick(12, 1, 1, 1, 1, 1, 1, 1) {
	case 7:
		pcf = fmt.Sprintf("%d:%s", g.Range(1, 100), []string{"x", "1ab", "-"}[g.Intn(3)])
	case 1:
		fee = "0"
	case 2:
		fee = "1000000000000000000"
	case 3:
		ufee = "1000000000000000000"
	case 4:
		ufee = "-1"
	case 5:
		tax = "0"
	case 6:
		pcf = "0:" + v.pcf.Denom
	}
	return "coinswap params " + hx.KV("auth", auth, "fee", fee, "tax", tax, "ufee", ufee, "pcf", pcf)
}

// genPrice draws residue-targeted inputs of the two pure pricing functions.
func (r *R) genPrice(g *hx.Rng) string {
	one := big.NewInt(1)
	bits := func() int { return 1 + g.Intn(200) }
	pos := func(b int) *big.Int {
		v := g.BigRaw(b)
		if v.Sign() == 0 {
			return big.NewInt(1)
		}
		return v
	}
	var fee *big.Int
	switch g.Pick(3, 2, 2, 1, 3, 1) {
	case 0:
		fee = big.NewInt(3000000000000000)
	case 1:
		fee = big.NewInt(1)
	case 2:
		fee = new(big.Int).Sub(p18, one)
	case 3:
		fee = new(big.Int).Quo(p18, big.NewInt(2))
	case 4:
		fee = new(big.Int).Add(new(big.Int).Mod(g.BigRaw(64), new(big.Int).Sub(p18, one)), one)
	default:
		fee = []*big.Int{big.NewInt(0), new(big.Int).Set(p18)}[g.Intn(2)] // outside Params.Validate: compared, not monitored
	}
	n := new(big.Int).Sub(p18, fee)
	adj := func(v *big.Int) *big.Int { // v, v+1, v-1
		v = new(big.Int).Add(v, big.NewInt(g.Range(-1, 1)))
		if v.Sign() < 0 {
			v.SetInt64(0)
		}
		return v
	}
	if g.Chance(1, 2) {
		bx := bits()
		bdx := 1 + g.Intn(190)
		x, dx := pos(bx), pos(bdx)
		if g.Chance(1, 30) {
			x = big.NewInt(0)
		}
		if g.Chance(1, 30) {
			dx = big.NewInt(0)
		}
		by := bits()
		if g.Chance(5, 6) && by+bdx > 194 { // mostly inside the 256-bit range, the rest straddles it
			by = 1 + g.Intn(196-min(bdx, 195))
		}
		y := pos(by)
		den := new(big.Int).Add(new(big.Int).Mul(x, p18), new(big.Int).Mul(dx, n))
		if g.Chance(1, 2) && den.Sign() > 0 {
			// y a multiple of the denominator (+-1): the quotient sits on a floor boundary
			y = adj(new(big.Int).Mul(den, pos(1+g.Intn(40))))
			if g.Chance(1, 2) {
				// make dx*n*y = k*den + {0, +-small}: y = k*den/gcd-free shortcut, divide when possible
				q := new(big.Int).Quo(y, new(big.Int).Add(new(big.Int).Mul(dx, n), one))
				if q.Sign() > 0 {
					y = adj(q)
				}
			}
		}
		if y.BitLen() > 255 {
			y = pos(255)
		}
		return "coinswap price_in " + hx.KV("x", x, "y", y, "dx", dx, "fee", fee)
	}
	by := bits()
	y := pos(by)
	dy := pos(bits())
	switch g.Pick(6, 2, 1, 1) {
	case 0:
		if y.Cmp(one) > 0 {
			dy = new(big.Int).Add(new(big.Int).Mod(dy, new(big.Int).Sub(y, one)), one) // 1 <= dy < y
		} else {
			dy = big.NewInt(1)
		}
	case 1:
		dy = new(big.Int).Sub(y, one)
	case 2:
		dy = new(big.Int).Set(y) // division by zero
	default:
		dy = new(big.Int).Mod(dy, new(big.Int).Add(y, one))
	}
	bx := bits()
	if g.Chance(5, 6) && bx+dy.BitLen() > 194 {
		bx = 1 + g.Intn(196-min(dy.BitLen(), 195))
	}
	x := pos(bx)
	den := new(big.Int).Mul(new(big.Int).Sub(y, dy), n)
	if g.Chance(1, 2) && den.Sign() > 0 {
		x = adj(new(big.Int).Mul(den, pos(1+g.Intn(40))))
		if g.Chance(1, 2) {
			q := new(big.Int).Quo(x, new(big.Int).Mul(dy, p18).Add(new(big.Int).Mul(dy, p18), one))
			if q.Sign() > 0 {
				x = adj(q)
			}
		}
	}
	if x.BitLen() > 255 {
		x = pos(255)
	}
	return "coinswap price_out " + hx.KV("x", x, "y", y, "dy", dy, "fee", fee)
}

func (r *R) Gen(ctx sdk.Context, g *hx.Rng) (line string) {
	// amount arithmetic of the generator itself must never abort a run (e.g. on states only a
	// modified implementation can reach): fall back to a harmless block boundary
	defer func() {
		if rec := recover(); rec != nil {
			line = "coinswap block " + hx.KV("t", ctx.BlockTime().UnixNano()+1000000000)
		}
	}()
	if r.Pure {
		return r.genPrice(g)
	}
	v := r.read(ctx)
	w := []int{30, 14, 10, 8, 8, 11, 6, 2, 8, 1, 2}
	if len(v.pools) == 0 {
		w = []int{4, 40, 2, 2, 2, 6, 3, 1, 2, 1, 1}
	} else if len(v.pools) < 3 {
		w[1] = 22
	}
	switch g.Pick(w...) {
	case 0:
		return r.genSwap(ctx, g, v)
	case 1:
		return r.genAdd(ctx, g, v)
	case 2:
		return r.genRemove(ctx, g, v)
	case 3:
		return r.genAdd1(ctx, g, v)
	case 4:
		return r.genRem1(ctx, g, v)
	case 5:
		return r.genDonate(ctx, g, v)
	case 6:
		return r.genBlock(g, v)
	case 7:
		return r.genParams(g, v)
	case 9:
		return "coinswap export"
	case 10:
		return "coinswap reimport"
	default:
		return r.genPrice(g)
	}
}

var _ = cstypes.ModuleName
