// Package mt drives the real MT module (message router + keeper) for C15.
package mt

import (
	"fmt"
	"math"
	"sort"
	"strconv"
	"strings"

	storetypes "cosmossdk.io/store/types"
	sdk "github.com/cosmos/cosmos-sdk/types"

	mtmodule "mods.irisnet.org/modules/mt"
	mttypes "mods.irisnet.org/modules/mt/types"

	"verifharness/hx"
)

const nAcc = 4

type R struct {
	env   *hx.Env
	names map[string]string // bech32 -> symbolic
	addrs []string          // universe accounts in ascending bech32 order (index = symbolic number)
}

func New(env *hx.Env) *R {
	r := &R{env: env, names: map[string]string{}}
	// symbolic names are assigned in ascending bech32 order, so that the order of names equals
	// the order of addresses (the genesis export sorts owners by address string)
	for i := 0; i < nAcc; i++ {
		r.addrs = append(r.addrs, hx.Acc(i).String())
	}
	sort.Strings(r.addrs)
	for i, a := range r.addrs {
		r.names[a] = hx.AccName(i)
	}
	return r
}

func (r *R) Module() string { return "mt" }

func (r *R) ResetLine(*hx.Rng) string { return "mt reset" }

func (r *R) Reset(ctx sdk.Context, _ string) (sdk.Context, string) {
	return ctx, "ok " + r.state(ctx)
}

func (r *R) sym(bech string) string {
	if s, ok := r.names[bech]; ok {
		return s
	}
	return bech
}

func (r *R) addr(sym string) string {
	if strings.HasPrefix(sym, "A") {
		if i, err := strconv.Atoi(sym[1:]); err == nil && i < len(r.addrs) {
			return r.addrs[i]
		}
	}
	return sym
}

// state renders the module state from the real keeper (export + sequences), canonically.
func (r *R) state(ctx sdk.Context) string {
	k := r.env.MT
	gs := k.ExportGenesisState(ctx)
	var ds, ms, bs []string
	for _, c := range gs.Collections {
		d := c.Denom
		ds = append(ds, fmt.Sprintf("%s:%s:%s:%s:%d", d.Id, r.sym(d.Owner), hx.Dash(d.Name), hx.Dash(hx.Hex(d.Data)), k.GetDenomSupply(ctx, d.Id)))
		for _, m := range c.Mts {
			ms = append(ms, fmt.Sprintf("%s/%s:%d:%s", d.Id, m.Id, m.Supply, hx.Dash(hx.Hex(m.Data))))
		}
	}
	for _, o := range gs.Owners {
		for _, d := range o.Denoms {
			for _, b := range d.Balances {
				bs = append(bs, fmt.Sprintf("%s/%s/%s:%d", r.sym(o.Address), d.DenomId, b.MtId, b.Amount))
			}
		}
	}
	sort.Strings(ds)
	sort.Strings(ms)
	sort.Strings(bs)
	return fmt.Sprintf("dseq=%d mseq=%d denoms=%s mts=%s bals=%s",
		k.GetDenomSequence(ctx), k.GetMTSequence(ctx), strings.Join(ds, ","), strings.Join(ms, ","), strings.Join(bs, ","))
}

var edge = []uint64{0, 1, 2, 3, 1 << 31, 1 << 32, 1<<63 - 1, 1 << 63, 1<<63 + 1, math.MaxUint64 - 2, math.MaxUint64 - 1, math.MaxUint64}

func (r *R) amount(g *hx.Rng, hint uint64) uint64 {
	switch g.Pick(4, 3, 3, 2) {
	case 0:
		return uint64(g.Range(1, 1000))
	case 1:
		return edge[g.Intn(len(edge))]
	case 2: // around the hint (a balance, or the distance to overflow)
		d := uint64(g.Intn(3))
		if g.Chance(1, 2) {
			return hint + d
		}
		if hint >= d {
			return hint - d
		}
		return hint
	default:
		return g.U64()
	}
}

func (r *R) Gen(ctx sdk.Context, g *hx.Rng) string {
	k := r.env.MT
	gs := k.ExportGenesisState(ctx)
	type tok struct{ d, m, owner string }
	var toks []tok
	var denoms []string
	owners := map[string]string{}
	for _, c := range gs.Collections {
		denoms = append(denoms, c.Denom.Id)
		owners[c.Denom.Id] = c.Denom.Owner
		for _, m := range c.Mts {
			toks = append(toks, tok{c.Denom.Id, m.Id, r.sym(c.Denom.Owner)})
		}
	}
	type holding struct{ a, d, m string }
	var holdings []holding
	for _, o := range gs.Owners {
		for _, d := range o.Denoms {
			for _, b := range d.Balances {
				if b.Amount > 0 {
					holdings = append(holdings, holding{r.sym(o.Address), d.DenomId, b.MtId})
				}
			}
		}
	}
	acc := func() string { return hx.AccName(g.Intn(nAcc)) }
	pickDenom := func() (string, string) {
		if len(denoms) == 0 || g.Chance(1, 20) {
			return "deadbeef", acc()
		}
		d := denoms[g.Intn(len(denoms))]
		return d, r.sym(owners[d])
	}
	pickTok := func() tok {
		if len(toks) == 0 || g.Chance(1, 20) {
			d, o := pickDenom()
			return tok{d, "00ff", o}
		}
		return toks[g.Intn(len(toks))]
	}
	data := func() string {
		switch g.Intn(4) {
		case 0:
			return "-"
		case 1:
			return hx.Hex([]byte("[do-not-modify]"))
		default:
			return hx.Hex(g.Bytes(1 + g.Intn(3)))
		}
	}
	kind := g.Pick(3, 8, 3, 10, 7, 3)
	if len(denoms) == 0 {
		kind = 0
	} else if g.Chance(1, 25) {
		if g.Chance(1, 2) {
			return "mt export"
		}
		return "mt reimport"
	}
	switch kind {
	case 0:
		name := fmt.Sprintf("n%d", g.Intn(100))
		if g.Chance(1, 15) {
			name = "-"
		}
		return "mt issue_denom " + hx.KV("sender", acc(), "name", name, "data", data())
	case 1: // mint new or existing, by owner (mostly) or stranger
		t := pickTok()
		sender := t.owner
		if g.Chance(1, 6) {
			sender = acc()
		}
		id := t.m
		dat := "-"
		if g.Chance(2, 5) || id == "00ff" && g.Chance(3, 4) {
			id = "-"
			dat = data()
			if dat == hx.Hex([]byte("[do-not-modify]")) {
				dat = "-"
			}
		} else if g.Chance(1, 20) {
			dat = "ab"
		}
		rc := acc()
		if g.Chance(1, 4) {
			rc = "-"
		}
		var hint uint64 = 1
		if id != "-" {
			hint = math.MaxUint64 - k.GetMTSupply(ctx, t.d, id)
		}
		return "mt mint " + hx.KV("sender", sender, "denom", t.d, "id", id, "recipient", rc, "amount", r.amount(g, hint), "data", dat)
	case 2:
		t := pickTok()
		sender := t.owner
		if g.Chance(1, 4) {
			sender = acc()
		}
		return "mt edit " + hx.KV("sender", sender, "denom", t.d, "id", t.m, "data", data())
	case 3:
		t := pickTok()
		s := acc()
		if len(holdings) > 0 && g.Chance(3, 4) { // mostly a real holder of a real token
			h := holdings[g.Intn(len(holdings))]
			t, s = tok{h.d, h.m, ""}, h.a
		}
		rc := acc()
		if g.Chance(1, 8) {
			rc = s
		}
		bal := k.GetBalance(ctx, t.d, t.m, sdk.MustAccAddressFromBech32(r.addr(s)))
		return "mt transfer " + hx.KV("sender", s, "recipient", rc, "denom", t.d, "id", t.m, "amount", r.amount(g, bal))
	case 4:
		t := pickTok()
		s := acc()
		if len(holdings) > 0 && g.Chance(3, 4) {
			h := holdings[g.Intn(len(holdings))]
			t, s = tok{h.d, h.m, ""}, h.a
		}
		bal := k.GetBalance(ctx, t.d, t.m, sdk.MustAccAddressFromBech32(r.addr(s)))
		return "mt burn " + hx.KV("sender", s, "denom", t.d, "id", t.m, "amount", r.amount(g, bal))
	default:
		d, o := pickDenom()
		if g.Chance(1, 4) {
			o = acc()
		}
		return "mt transfer_denom " + hx.KV("sender", o, "recipient", acc(), "id", d)
	}
}

func u64(s string) uint64 {
	v, err := strconv.ParseUint(s, 10, 64)
	if err != nil {
		hx.Fail("bad uint64 %q", s)
	}
	return v
}

func unhex(s string) []byte {
	s = hx.Undash(s)
	if s == "" {
		return nil
	}
	b := make([]byte, len(s)/2)
	for i := range b {
		v, err := strconv.ParseUint(s[2*i:2*i+2], 16, 8)
		if err != nil {
			hx.Fail("bad hex %q", s)
		}
		b[i] = byte(v)
	}
	return b
}

// genesisLine renders the real exported genesis in its own order.
func (r *R) genesisLine(gs *mttypes.GenesisState) string {
	var cols, owners []string
	for _, c := range gs.Collections {
		var ms []string
		for _, m := range c.Mts {
			ms = append(ms, fmt.Sprintf("%s:%d:%s", m.Id, m.Supply, hx.Dash(hx.Hex(m.Data))))
		}
		cols = append(cols, fmt.Sprintf("%s:%s:%s:%s[%s]", c.Denom.Id, r.sym(c.Denom.Owner), hx.Dash(c.Denom.Name), hx.Dash(hx.Hex(c.Denom.Data)), strings.Join(ms, ";")))
	}
	for _, o := range gs.Owners {
		var ds []string
		for _, d := range o.Denoms {
			var bs []string
			for _, b := range d.Balances {
				bs = append(bs, fmt.Sprintf("%s:%d", b.MtId, b.Amount))
			}
			ds = append(ds, fmt.Sprintf("%s(%s)", d.DenomId, strings.Join(bs, ";")))
		}
		owners = append(owners, fmt.Sprintf("%s[%s]", r.sym(o.Address), strings.Join(ds, ";")))
	}
	return fmt.Sprintf("cols=%s owners=%s", strings.Join(cols, "|"), strings.Join(owners, "|"))
}

func (r *R) Exec(ctx sdk.Context, line string) (sdk.Context, string) {
	f := strings.Fields(line)
	switch f[1] {
	case "export":
		gs := r.env.MT.ExportGenesisState(ctx)
		v := "ok"
		if err := mttypes.ValidateGenesis(*gs); err != nil {
			v = "err"
		}
		return ctx, fmt.Sprintf("ok validate=%s %s", v, r.genesisLine(gs))
	case "reimport":
		gs := r.env.MT.ExportGenesisState(ctx)
		class, _ := hx.Try(ctx, func(c sdk.Context) error {
			st := c.KVStore(r.env.App.UnsafeFindStoreKey("mt"))
			it := storetypes.KVStorePrefixIterator(st, nil)
			var keys [][]byte
			for ; it.Valid(); it.Next() {
				keys = append(keys, append([]byte{}, it.Key()...))
			}
			it.Close()
			for _, k := range keys {
				st.Delete(k)
			}
			mtmodule.InitGenesis(c, r.env.MT, *gs)
			return nil
		})
		return ctx, class + " " + r.state(ctx)
	}
	a := hx.Args(f[2:])
	var msg sdk.Msg
	switch f[1] {
	case "issue_denom":
		msg = &mttypes.MsgIssueDenom{Name: hx.Undash(a["name"]), Data: unhex(a["data"]), Sender: r.addr(a["sender"])}
	case "mint":
		rc := hx.Undash(a["recipient"])
		if rc != "" {
			rc = r.addr(rc)
		}
		msg = &mttypes.MsgMintMT{Id: hx.Undash(a["id"]), DenomId: hx.Undash(a["denom"]), Amount: u64(a["amount"]), Data: unhex(a["data"]), Sender: r.addr(a["sender"]), Recipient: rc}
	case "edit":
		msg = &mttypes.MsgEditMT{Id: hx.Undash(a["id"]), DenomId: hx.Undash(a["denom"]), Data: unhex(a["data"]), Sender: r.addr(a["sender"])}
	case "transfer":
		msg = &mttypes.MsgTransferMT{Id: hx.Undash(a["id"]), DenomId: hx.Undash(a["denom"]), Amount: u64(a["amount"]), Sender: r.addr(a["sender"]), Recipient: r.addr(a["recipient"])}
	case "burn":
		msg = &mttypes.MsgBurnMT{Id: hx.Undash(a["id"]), DenomId: hx.Undash(a["denom"]), Amount: u64(a["amount"]), Sender: r.addr(a["sender"])}
	case "transfer_denom":
		msg = &mttypes.MsgTransferDenom{Id: hx.Undash(a["id"]), Sender: r.addr(a["sender"]), Recipient: r.addr(a["recipient"])}
	default:
		hx.Fail("unknown op %q", line)
	}
	out := r.env.Deliver(ctx, msg)
	return ctx, out.Class + " " + r.state(ctx)
}

// GhostChance: one operation in ten is executed on a context that is thrown away (hx.Ghoster).
func (r *R) GhostChance() (int, int) { return 1, 10 }

// State renders the canonical module state (hx.Stater).
func (r *R) State(ctx sdk.Context) string { return r.state(ctx) }
