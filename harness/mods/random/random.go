// Package random drives the real random module (message router, BeginBlocker, the keeper's
// service callbacks, the PRNG) for C18 and the random slice of C13.
package random

import (
	"encoding/hex"
	"errors"
	"fmt"
	"math"
	"os"
	"sort"
	"strconv"
	"strings"
	"time"

	sdkmath "cosmossdk.io/math"
	storetypes "cosmossdk.io/store/types"
	tmbytes "github.com/cometbft/cometbft/libs/bytes"
	sdk "github.com/cosmos/cosmos-sdk/types"

	randommod "mods.irisnet.org/modules/random"
	servicemod "mods.irisnet.org/modules/service"
	randomtypes "mods.irisnet.org/modules/random/types"
	servicetypes "mods.irisnet.org/modules/service/types"

	"verifharness/hx"
)

const nAcc = 4
const providerAcc = 5

type R struct {
	env *hx.Env
	// generator-only memory of the current history (never read by Exec)
	txs   []string
	ctxs  []string
	ended bool // the service module's EndBlocker already ran at the current height
}

// New needs only the environment (it is also registered in mods/all).
func New(env *hx.Env) *R { return &R{env: env} }

// setup prepares a history's fork: the random service definition, one provider binding (so
// that RequestService can create contexts), the per-block context index the service module's
// BeginBlocker maintains, funded consumers A0..A2 (A3 has nothing). Nothing is written to the
// shared base state.
func (r *R) setup(ctx sdk.Context) {
	env := r.env
	env.Service.SetServiceDefinition(ctx, servicetypes.GetRandomSvcDefinition())
	p := hx.Acc(providerAcc)
	env.Fund(ctx, p, sdk.NewCoins(sdk.NewCoin(sdk.DefaultBondDenom, sdkmath.NewInt(100000000))))
	if err := env.Service.AddServiceBinding(ctx, randomtypes.ServiceName, p,
		sdk.NewCoins(sdk.NewCoin(sdk.DefaultBondDenom, sdkmath.NewInt(50000))),
		fmt.Sprintf(`{"price":"50%s"}`, sdk.DefaultBondDenom), 3, "{}", p); err != nil {
		hx.Fail("bind random service: %v", err)
	}
	env.Service.SetInternalIndex(ctx, 0)
	// a short request timeout (a governance parameter) lets batches expire inside a history
	sp := env.Service.GetParams(ctx)
	sp.MaxRequestTimeout = 6
	if err := env.Service.SetParams(ctx, sp); err != nil {
		hx.Fail("service params: %v", err)
	}
	// A0, A1 rich; A2 can pay two service calls, then its contexts pause for insufficient balance
	for i, amt := range []int64{1000000, 1000000, 120} {
		env.Fund(ctx, hx.Acc(i), sdk.NewCoins(sdk.NewCoin(sdk.DefaultBondDenom, sdkmath.NewInt(amt))))
	}
}

func (r *R) Module() string { return "random" }

func (r *R) ResetLine(g *hx.Rng) string {
	var t []string
	for i := 0; i < nAcc; i++ {
		t = append(t, hx.AccName(i)+":"+hx.Acc(i).String()+":"+hex.EncodeToString(hx.Acc(i)))
	}
	h := int64(1)
	switch g.Intn(6) {
	case 0:
		h = 1000000
	case 1:
		h = g.Range(2, 300)
	case 2:
		h = math.MaxInt64 - 200 // the int64 edge is a few blocks away
	}
	tm := int64(1700000000)
	if g.Chance(1, 4) {
		tm = g.Range(1, 10)
	}
	return fmt.Sprintf("random reset h=%d t=%d hash=%s addrs=%s", h, tm, hex.EncodeToString(g.Bytes(32)), strings.Join(t, ","))
}

func header(ctx sdk.Context, h, t int64, hash []byte) sdk.Context {
	hd := ctx.BlockHeader()
	hd.Height = h
	hd.Time = time.Unix(t, 0).UTC()
	hd.AppHash = hash
	return ctx.WithBlockHeader(hd).WithEventManager(sdk.NewEventManager())
}

func i64(s string) int64 {
	v, err := strconv.ParseInt(s, 10, 64)
	if err != nil {
		hx.Fail("bad int64 %q", s)
	}
	return v
}

func unhex(s string) []byte {
	b, err := hex.DecodeString(hx.Undash(s))
	if err != nil {
		hx.Fail("bad hex %q", s)
	}
	return b
}

func (r *R) Reset(ctx sdk.Context, line string) (sdk.Context, string) {
	a := hx.Args(strings.Fields(line)[2:])
	r.txs, r.ctxs, r.ended = nil, nil, false
	r.setup(ctx)
	ctx = header(ctx, i64(a["h"]), i64(a["t"]), unhex(a["hash"]))
	return ctx, "ok " + r.State(ctx)
}

func (r *R) store(ctx sdk.Context) storetypes.KVStore {
	return ctx.KVStore(r.env.App.GetKey(randomtypes.StoreKey))
}

func dash(s string) string { return hx.Dash(s) }

func showReq(q randomtypes.Request) string {
	return fmt.Sprintf("%d:%s:%s:%t:%s:%s", q.Height, q.Consumer, dash(q.TxHash), q.Oracle,
		dash(strings.ReplaceAll(sdk.Coins(q.ServiceFeeCap).String(), ",", "+")), dash(q.ServiceContextID))
}

type qEntry struct {
	h   uint64
	id  []byte
	req randomtypes.Request
}

func (r *R) queue(ctx sdk.Context) []qEntry {
	var out []qEntry
	it := storetypes.KVStorePrefixIterator(r.store(ctx), randomtypes.RandomRequestQueueKey)
	defer it.Close()
	for ; it.Valid(); it.Next() {
		var q randomtypes.Request
		r.env.Random.GetCdc().MustUnmarshal(it.Value(), &q)
		k := it.Key()
		out = append(out, qEntry{sdk.BigEndianToUint64(k[1:9]), append([]byte{}, k[9:]...), q})
	}
	return out
}

func (r *R) oracleCtxs(ctx sdk.Context) map[string]bool {
	m := map[string]bool{}
	it := storetypes.KVStorePrefixIterator(r.store(ctx), randomtypes.OracleRandomRequestKey)
	defer it.Close()
	for ; it.Valid(); it.Next() {
		m[strings.ToUpper(hex.EncodeToString(it.Key()[1:]))] = true
	}
	return m
}

// State renders the three tables of the random store from the raw store, in canonical
// order, and cross-checks them against the keeper's iterators and the gRPC query server.
func (r *R) State(ctx sdk.Context) string {
	k := r.env.Random
	var qs, rs, os []string
	bad := ""
	for _, e := range r.queue(ctx) {
		qs = append(qs, fmt.Sprintf("%d/%s:%s", e.h, hex.EncodeToString(e.id), showReq(e.req)))
	}
	n := 0
	k.IterateRandomRequestQueue(ctx, func(h int64, id []byte, q randomtypes.Request) bool { n++; return false })
	if resp, err := k.RandomRequestQueue(ctx, &randomtypes.QueryRandomRequestQueueRequest{Height: 0}); err != nil || len(resp.Requests) != len(qs) || n != len(qs) {
		bad = "!queue-query-differs"
	}
	it := storetypes.KVStorePrefixIterator(r.store(ctx), randomtypes.RandomKey)
	for ; it.Valid(); it.Next() {
		var x randomtypes.Random
		k.GetCdc().MustUnmarshal(it.Value(), &x)
		id := hex.EncodeToString(it.Key()[1:])
		rs = append(rs, fmt.Sprintf("%s:%s:%d:%s", id, x.RequestTxHash, x.Height, x.Value))
		resp, err := k.Random(ctx, &randomtypes.QueryRandomRequest{ReqId: id})
		if err != nil || resp.Random == nil || *resp.Random != x {
			bad = "!random-query-differs"
		}
	}
	it.Close()
	it = storetypes.KVStorePrefixIterator(r.store(ctx), randomtypes.OracleRandomRequestKey)
	for ; it.Valid(); it.Next() {
		var q randomtypes.Request
		k.GetCdc().MustUnmarshal(it.Value(), &q)
		os = append(os, strings.ToUpper(hex.EncodeToString(it.Key()[1:]))+"="+showReq(q))
	}
	it.Close()
	sort.Strings(qs)
	sort.Strings(rs)
	sort.Strings(os)
	return fmt.Sprintf("h=%d q=%s r=%s o=%s%s", ctx.BlockHeight(), dash(strings.Join(qs, ",")), dash(strings.Join(rs, ",")), dash(strings.Join(os, ",")), bad)
}

// GenesisState renders what must survive an export/import round trip: the pending request queue
// (every field of every entry, oracle-flagged entries included). Generated randoms (prefix 0x01)
// and oracle requests already handed to the service module (prefix 0x03) are not part of the
// module's genesis format.
func (r *R) GenesisState(ctx sdk.Context) string {
	var qs []string
	for _, e := range r.queue(ctx) {
		qs = append(qs, fmt.Sprintf("%d/%s:%s", e.h, hex.EncodeToString(e.id), showReq(e.req)))
	}
	sort.Strings(qs)
	return "q=" + dash(strings.Join(qs, ","))
}

func (r *R) consumer(sym string) string {
	if strings.HasPrefix(sym, "A") {
		if i, err := strconv.Atoi(sym[1:]); err == nil {
			return hx.Acc(i).String()
		}
	}
	if strings.HasPrefix(sym, "X") {
		return string(unhex(sym[1:]))
	}
	hx.Fail("bad consumer %q", sym)
	return ""
}

func feeCoins(a map[string]string) sdk.Coins {
	if a["fee"] == "bad" {
		return sdk.Coins{sdk.Coin{Denom: sdk.DefaultBondDenom, Amount: sdkmath.ZeroInt()}} // not IsValid
	}
	if a["fee"] != "ok" {
		hx.Fail("bad fee flag %q", a["fee"])
	}
	s := hx.Undash(a["feecap"])
	if s == "" {
		return nil
	}
	c, err := sdk.ParseCoinsNormalized(s)
	if err != nil {
		hx.Fail("bad coins %q", s)
	}
	return c
}

func (r *R) requestMsg(a map[string]string, oracle bool) *randomtypes.MsgRequestRandom {
	n, err := strconv.ParseUint(a["interval"], 10, 64)
	if err != nil {
		hx.Fail("bad interval %q", a["interval"])
	}
	return &randomtypes.MsgRequestRandom{Consumer: r.consumer(a["consumer"]), BlockInterval: n, Oracle: oracle, ServiceFeeCap: feeCoins(a)}
}

func (r *R) beginBlock(ctx sdk.Context, a map[string]string) (sdk.Context, bool) {
	nctx := header(ctx, i64(a["h"]), i64(a["t"]), unhex(a["hash"]))
	cctx, write := nctx.CacheContext()
	// the service module's own BeginBlocker (resets the per-block context index) runs first on a chain
	r.env.Service.SetInternalIndex(cctx, 0)
	if p, _ := hx.NoPanic(func() { randommod.BeginBlocker(cctx, r.env.Random) }); p {
		return ctx, true
	}
	write()
	return nctx, false
}

func (r *R) Exec(ctx sdk.Context, line string) (sdk.Context, string) {
	f := strings.Fields(line)
	a := hx.Args(f[2:])
	switch f[1] {
	case "begin_block":
		nctx, panicked := r.beginBlock(ctx, a)
		if panicked {
			return ctx, "panic " + r.State(ctx)
		}
		return nctx, "ok " + r.State(nctx)
	case "request":
		out := r.env.Deliver(ctx.WithTxBytes(unhex(a["tx"])), r.requestMsg(a, false))
		return ctx, out.Class + " " + r.State(ctx)
	case "request_oracle":
		out := r.env.Deliver(ctx.WithTxBytes(unhex(a["tx"])), r.requestMsg(a, true))
		return ctx, out.Class + " " + r.State(ctx)
	case "cb_response":
		id := tmbytes.HexBytes(unhex(a["ctx"]))
		var outs []string
		switch a["out"] {
		case "empty":
		case "bad":
			outs = []string{`{"header":{},"body":{"seed":"zz"}}`}
		default:
			outs = []string{fmt.Sprintf(`{"header":{},"body":{"seed":"%s"}}`, a["out"])}
		}
		var e error
		if a["err"] == "1" {
			e = errors.New("batch 1 at least 1 valid outputs required, but 0 received")
		}
		class, _ := hx.Try(ctx, func(c sdk.Context) error { r.env.Random.HandlerResponse(c, id, outs, e); return nil })
		return ctx, class + " " + r.State(ctx)
	case "cb_state":
		id := tmbytes.HexBytes(unhex(a["ctx"]))
		class, _ := hx.Try(ctx, func(c sdk.Context) error { r.env.Random.HandlerStateChanged(c, id, "insufficient balances"); return nil })
		return ctx, class + " " + r.State(ctx)
	case "export":
		// the real ExportGenesis document (groups in ascending uint64 height order, requests in the
		// order the export appended them) and the verdict of the real ValidateGenesis
		gs := randommod.ExportGenesis(ctx, r.env.Random)
		v := "ok"
		if err := randomtypes.ValidateGenesis(*gs); err != nil {
			v = "err"
		}
		return ctx, fmt.Sprintf("ok validate=%s gen=%s", v, genesisLine(gs))
	case "reimport", "reimport_zero":
		// wipe the module store and run the real InitGenesis on the module's own export
		// (reimport_zero: after the real PrepForZeroHeightGenesis; the new chain is at height 1)
		class, _ := hx.Try(ctx, func(c sdk.Context) error {
			if f[1] == "reimport_zero" {
				randommod.PrepForZeroHeightGenesis(c, r.env.Random)
			}
			gs := randommod.ExportGenesis(c, r.env.Random)
			st := r.store(c)
			it := storetypes.KVStorePrefixIterator(st, nil)
			var keys [][]byte
			for ; it.Valid(); it.Next() {
				keys = append(keys, append([]byte{}, it.Key()...))
			}
			it.Close()
			for _, k := range keys {
				st.Delete(k)
			}
			randommod.InitGenesis(c, r.env.Random, *gs)
			return nil
		})
		if class == hx.OK && f[1] == "reimport_zero" {
			ctx = header(ctx, 1, ctx.BlockTime().Unix(), ctx.BlockHeader().AppHash)
		}
		return ctx, class + " " + r.State(ctx)
	case "svc_break":
		// the environment changes under a still pending oracle request: its service context is
		// removed, or is no longer paused, so that StartRequestContext will fail when it falls due
		id := tmbytes.HexBytes(unhex(a["ctx"]))
		class, _ := hx.Try(ctx, func(c sdk.Context) error {
			switch a["how"] {
			case "delete":
				r.env.Service.DeleteRequestContext(c, id)
			case "running":
				if rc, found := r.env.Service.GetRequestContext(c, id); found {
					rc.State = servicetypes.RUNNING
					r.env.Service.SetRequestContext(c, id, rc)
				}
			default:
				hx.Fail("bad svc_break %q", line)
			}
			return nil
		})
		return ctx, class + " " + r.State(ctx)
	case "genesis_pending":
		// a pending request that entered through the module's genesis (random.InitGenesis): this is
		// how a chain comes to hold an oracle request whose service context it does not know
		cap := sdk.Coins(nil)
		if c := hx.Undash(a["feecap"]); c != "" {
			cc, err := sdk.ParseCoinsNormalized(c)
			if err != nil {
				hx.Fail("bad coins %q", c)
			}
			cap = cc
		}
		req := randomtypes.Request{Height: i64(a["reqh"]), Consumer: r.consumer(a["consumer"]),
			TxHash: hx.Undash(a["txhash"]), Oracle: a["oracle"] == "1", ServiceFeeCap: cap, ServiceContextID: hx.Undash(a["ctx"])}
		gs := randomtypes.GenesisState{PendingRandomRequests: map[string]randomtypes.Requests{
			a["due"]: {Requests: []randomtypes.Request{req}}}}
		class, _ := hx.Try(ctx, func(c sdk.Context) error { randommod.InitGenesis(c, r.env.Random, gs); return nil })
		return ctx, class + " " + r.State(ctx)
	case "svc_end_block":
		// the real service module's EndBlocker at the current height: initiates the requests of
		// started contexts, expires batches (response callback with an error), pauses contexts
		// whose consumer cannot pay (state callback)
		class, info := hx.Try(ctx, func(c sdk.Context) error { servicemod.EndBlocker(c, r.env.Service); return nil })
		if class == hx.Panic {
			fmt.Fprintln(os.Stderr, "svc_end_block panic:", info)
		}
		return ctx, class + " " + r.State(ctx)
	case "svc_respond":
		// the provider answers the active request of a context through the message router; the
		// service module then calls the random module's response callback itself
		id := tmbytes.HexBytes(unhex(a["ctx"]))
		reqID := r.activeRequest(ctx, id)
		if reqID == "" {
			return ctx, "rej " + r.State(ctx)
		}
		out := r.env.Deliver(ctx.WithTxBytes([]byte("respond"+a["ctx"])), &servicetypes.MsgRespondService{
			RequestId: reqID, Provider: hx.Acc(providerAcc).String(), Result: `{"code":200,"message":""}`,
			Output: fmt.Sprintf(`{"header":{},"body":{"seed":"%s"}}`, a["seed"])})
		return ctx, out.Class + " " + r.State(ctx)
	case "prng":
		val := ""
		p, _ := hx.NoPanic(func() {
			val = randomtypes.MakePRNG(unhex(a["hash"]), i64(a["t"]), sdk.AccAddress(unhex(a["init"])), unhex(a["seed"]), a["oracle"] == "1").
				GetRand().FloatString(randomtypes.RandPrec)
		})
		if p {
			return ctx, "panic value=-"
		}
		return ctx, "ok value=" + val
	}
	hx.Fail("unknown op %q", line)
	return ctx, ""
}

// genesisLine renders the exported document: groups by ascending uint64(height), each group's
// requests in the document's own order.
func genesisLine(gs *randomtypes.GenesisState) string {
	type grp struct {
		key uint64
		h   string
	}
	var gsorted []grp
	for h := range gs.PendingRandomRequests {
		v, err := strconv.ParseInt(h, 10, 64)
		if err != nil {
			hx.Fail("exported height %q", h)
		}
		gsorted = append(gsorted, grp{uint64(v), h})
	}
	sort.Slice(gsorted, func(i, j int) bool { return gsorted[i].key < gsorted[j].key })
	var out []string
	for _, g := range gsorted {
		var rs []string
		for _, q := range gs.PendingRandomRequests[g.h].Requests {
			rs = append(rs, showReq(q))
		}
		out = append(out, g.h+"["+strings.Join(rs, ";")+"]")
	}
	return dash(strings.Join(out, "|"))
}

// activeRequest returns the id (hex) of the first active request of a context's current batch.
func (r *R) activeRequest(ctx sdk.Context, id tmbytes.HexBytes) string {
	rc, found := r.env.Service.GetRequestContext(ctx, id)
	if !found {
		return ""
	}
	res := ""
	r.env.Service.IterateActiveRequests(ctx, id, rc.BatchCounter, func(requestID tmbytes.HexBytes, _ servicetypes.Request) {
		if res == "" {
			res = requestID.String()
		}
	})
	return res
}

func (r *R) existing(ctx sdk.Context) map[string]bool {
	m := map[string]bool{}
	for _, c := range r.ctxs {
		if _, found := r.env.Service.GetRequestContext(ctx, tmbytes.HexBytes(unhex(c))); found {
			m[c] = true
		}
	}
	return m
}

func sortedKeys(m map[string]bool) []string {
	var ks []string
	for k := range m {
		ks = append(ks, k)
	}
	sort.Strings(ks)
	return ks
}

// genSvcEndBlock: the outcome of the service EndBlocker for this module (which oracle requests
// its callbacks dropped, which contexts ceased to exist) is read off a dry run.
func (r *R) genSvcEndBlock(ctx sdk.Context) string {
	r.ended = true
	before, exBefore := r.oracleCtxs(ctx), r.existing(ctx)
	cc, _ := ctx.CacheContext()
	var dropped, gone []string
	if p, _ := hx.NoPanic(func() { servicemod.EndBlocker(cc, r.env.Service) }); !p {
		after, exAfter := r.oracleCtxs(cc), r.existing(cc)
		for _, c := range sortedKeys(before) {
			if !after[c] {
				dropped = append(dropped, c)
			}
		}
		for _, c := range sortedKeys(exBefore) {
			if !exAfter[c] {
				gone = append(gone, c)
			}
		}
	}
	return "random svc_end_block dropped=" + dash(strings.Join(dropped, ",")) + " gone=" + dash(strings.Join(gone, ","))
}

// ---------------------------------------------------------------- generator

func (r *R) genTx(g *hx.Rng, reuse bool) string {
	if reuse && len(r.txs) > 0 && g.Chance(1, 4) {
		return r.txs[g.Intn(len(r.txs))]
	}
	tx := hex.EncodeToString(g.Bytes(g.Intn(40)))
	if !reuse { // transactions that create service contexts are unique (context id = tx hash ++ index)
		tx = hex.EncodeToString(g.Bytes(12 + g.Intn(20)))
	} else {
		r.txs = append(r.txs, tx)
	}
	return dash(tx)
}

func (r *R) genInterval(ctx sdk.Context, g *hx.Rng) uint64 {
	h := uint64(ctx.BlockHeight())
	switch g.Pick(45, 20, 10, 20, 5) {
	case 0:
		return uint64(g.Intn(4))
	case 1:
		return uint64(g.Range(4, 12))
	case 2:
		return uint64(g.Range(13, 50))
	case 3: // due together with an already pending request
		q := r.queue(ctx)
		if len(q) > 0 {
			e := q[g.Intn(len(q))]
			if e.h >= h && e.h < 1<<63 {
				return e.h - h
			}
		}
		return uint64(g.Intn(3))
	default: // the int64 / uint64 edges of height + interval
		edge := []uint64{math.MaxInt64 - h, math.MaxInt64 - h + 1, 1 << 63, math.MaxUint64, math.MaxUint64 - h, math.MaxUint64 - h + 1, math.MaxUint64 - 1, math.MaxInt64 - h - 1}
		return edge[g.Intn(len(edge))]
	}
}

func (r *R) genConsumer(g *hx.Rng) string {
	if g.Chance(1, 30) {
		return "X" + hex.EncodeToString([]byte([]string{"", "bad", "cosmos1qqqq"}[g.Intn(3)]))
	}
	return hx.AccName(g.Intn(nAcc))
}

func (r *R) Gen(ctx sdk.Context, g *hx.Rng) string {
	kind := g.Pick(30, 40, 8, 7, 2, 8, 8, 3, 2, 3)
	if kind == 0 && !r.ended {
		// a block ends with the service module's EndBlocker before the next one begins
		return r.genSvcEndBlock(ctx)
	}
	switch kind {
	case 9:
		// genesis round trips of the current state
		switch g.Pick(3, 2, 1) {
		case 0:
			return "random export"
		case 1:
			return "random reimport"
		default:
			return "random reimport_zero"
		}
	case 7:
		// break the service context of an oracle request that is still waiting in the queue
		var cs []string
		for _, e := range r.queue(ctx) {
			if e.req.Oracle && e.req.ServiceContextID != "" {
				cs = append(cs, e.req.ServiceContextID)
			}
		}
		if len(cs) == 0 {
			return ""
		}
		return fmt.Sprintf("random svc_break ctx=%s how=%s", cs[g.Intn(len(cs))], []string{"delete", "running"}[g.Intn(2)])
	case 8:
		// a pending request seeded through genesis; oracle ones carry a context id the service
		// module has never seen
		h := ctx.BlockHeight()
		reqh := h - g.Range(0, 3)
		if reqh < 0 {
			reqh = 0
		}
		due := h + g.Range(0, 4)
		if due < h { // int64 edge
			due = h
		}
		o, c, cap := "1", strings.ToUpper(hex.EncodeToString(g.Bytes(40))), "50stake"
		if g.Chance(1, 4) {
			o, c, cap = "0", "-", "-"
		}
		return fmt.Sprintf("random genesis_pending consumer=%s reqh=%d due=%d txhash=%s oracle=%s feecap=%s ctx=%s",
			hx.AccName(g.Intn(nAcc)), reqh, due, hex.EncodeToString(g.Bytes(32)), o, cap, c)
	case 6:
		// a provider response through the real service module, to a started oracle request
		pend := sortedKeys(r.oracleCtxs(ctx))
		if len(pend) == 0 {
			if !r.ended && g.Chance(1, 3) {
				return r.genSvcEndBlock(ctx)
			}
			return ""
		}
		c := pend[g.Intn(len(pend))]
		seed := hex.EncodeToString(g.Bytes(32))
		if g.Chance(1, 3) {
			seed = strings.ToUpper(seed)
		}
		l := fmt.Sprintf("random svc_respond ctx=%s seed=%s", c, seed)
		cb := "rej"
		cc, _ := ctx.CacheContext()
		nBefore := len(r.oracleCtxs(cc))
		_, obs := r.Exec(cc, l+" cb=0")
		switch {
		case strings.HasPrefix(obs, "panic"):
			cb = "1" // the callback ran and divided by the zero block time
		case strings.HasPrefix(obs, "ok") && len(r.oracleCtxs(cc)) < nBefore:
			cb = "1"
		case strings.HasPrefix(obs, "ok"):
			cb = "0"
		}
		return l + " cb=" + cb
	case 0:
		r.ended = false
		h := ctx.BlockHeight() + 1
		if ctx.BlockHeight() == math.MaxInt64 {
			return ""
		}
		t := ctx.BlockTime().Unix() + g.Range(1, 10)
		switch g.Pick(30, 3, 1, 1, 1) {
		case 1:
			t = g.Range(1, 5)
		case 2:
			t = 0
		case 3:
			t = -g.Range(1, 1000000)
		case 4:
			t = g.Range(1, 253402300799) // protobuf timestamps end with year 9999
		}
		hash := hex.EncodeToString(g.Bytes([]int{32, 32, 32, 0, 1, 20}[g.Intn(6)]))
		l := fmt.Sprintf("random begin_block h=%d t=%d hash=%s", h, t, dash(hash))
		// which service contexts does StartRequestContext accept? (environment outcome, read off a dry run)
		a := hx.Args(strings.Fields(l)[2:])
		before := r.oracleCtxs(ctx)
		cc, _ := ctx.CacheContext()
		var started []string
		if nctx, panicked := r.beginBlock(cc, a); !panicked {
			for c := range r.oracleCtxs(nctx) {
				if !before[c] {
					started = append(started, c)
				}
			}
		}
		sort.Strings(started)
		return l + " started=" + dash(strings.Join(started, ","))
	case 1:
		fee, cap := "ok", "-"
		if g.Chance(1, 30) {
			fee = "bad"
		} else if g.Chance(1, 8) {
			cap = "10stake"
		}
		return fmt.Sprintf("random request consumer=%s interval=%d tx=%s feecap=%s fee=%s", r.genConsumer(g), r.genInterval(ctx, g), r.genTx(g, true), cap, fee)
	case 2:
		fee := "ok"
		cap := []string{"-", "50stake", "100stake", "60stake", "1000000000stake", "1foo"}[g.Pick(1, 5, 3, 2, 1, 1)]
		if g.Chance(1, 30) {
			fee = "bad"
		}
		l := fmt.Sprintf("random request_oracle consumer=%s interval=%d tx=%s feecap=%s fee=%s", r.genConsumer(g), r.genInterval(ctx, g), r.genTx(g, false), cap, fee)
		// the outcome of RequestService (environment), read off a dry run
		a := hx.Args(strings.Fields(l)[2:])
		svc := "err"
		if fee == "ok" && !strings.HasPrefix(a["consumer"], "X") {
			cc, _ := ctx.CacheContext()
			seen := map[string]bool{}
			for _, e := range r.queue(cc) {
				seen[fmt.Sprintf("%d/%x", e.h, e.id)] = true
			}
			msg := r.requestMsg(a, true)
			out := r.env.Deliver(cc.WithTxBytes(unhex(a["tx"])), msg)
			if out.Class == hx.Panic {
				svc = "panic"
			}
			if out.Class == hx.OK {
				want := randomtypes.GenerateRequestID(randomtypes.Request{Height: cc.BlockHeight(), Consumer: msg.Consumer})
				for _, e := range r.queue(cc) {
					if string(e.id) == string(want) && e.req.Oracle && e.h == uint64(cc.BlockHeight())+msg.BlockInterval {
						svc = e.req.ServiceContextID
					}
				}
				_ = seen
			}
		}
		if svc != "err" && svc != "panic" {
			r.ctxs = append(r.ctxs, svc)
		}
		return l + " svc=" + svc
	case 3:
		c := strings.ToUpper(hex.EncodeToString(g.Bytes(40)))
		pend := r.oracleCtxs(ctx)
		if len(pend) > 0 && g.Chance(3, 4) {
			var ks []string
			for k := range pend {
				ks = append(ks, k)
			}
			sort.Strings(ks)
			c = ks[g.Intn(len(ks))]
		} else if len(r.ctxs) > 0 && g.Chance(1, 2) {
			c = r.ctxs[g.Intn(len(r.ctxs))]
		}
		switch g.Pick(6, 2, 1, 1) {
		case 0:
			return fmt.Sprintf("random cb_response ctx=%s out=%s err=0", c, hex.EncodeToString(g.Bytes(32)))
		case 1:
			return fmt.Sprintf("random cb_response ctx=%s out=empty err=1", c)
		case 2:
			return fmt.Sprintf("random cb_response ctx=%s out=%s err=1", c, hex.EncodeToString(g.Bytes(32)))
		default:
			return fmt.Sprintf("random cb_response ctx=%s out=bad err=0", c)
		}
	case 4:
		c := strings.ToUpper(hex.EncodeToString(g.Bytes(40)))
		if len(r.ctxs) > 0 && g.Chance(4, 5) {
			c = r.ctxs[g.Intn(len(r.ctxs))]
		}
		return "random cb_state ctx=" + c
	default:
		t := g.Range(1, 2000000000)
		switch g.Pick(6, 3, 1, 1, 1) {
		case 1:
			t = g.Range(1, 300)
		case 2:
			t = 0
		case 3:
			t = -g.Range(1, 2000000000)
		case 4:
			t = int64(g.U64() >> 1)
		}
		o := g.Intn(2)
		return fmt.Sprintf("random prng hash=%s t=%d init=%s oracle=%d seed=%s",
			dash(hex.EncodeToString(g.Bytes([]int{32, 32, 0, 1, 64}[g.Intn(5)]))), t,
			dash(hex.EncodeToString(g.Bytes([]int{20, 20, 0, 32}[g.Intn(4)]))), o,
			dash(hex.EncodeToString(g.Bytes([]int{32, 32, 0, 5}[g.Intn(4)]))))
	}
}
