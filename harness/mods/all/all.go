// Package all is the registry of module scenarios shared by the cross-cutting harnesses
// (C11 replicas, C12 genesis round trip, C13 block processing, C16 batteries).
package all

import (
	"verifharness/hx"
	"verifharness/mods/coinswap"
	"verifharness/mods/farm"
	"verifharness/mods/htlc"
	"verifharness/mods/mt"
	"verifharness/mods/nft"
	"verifharness/mods/oracle"
	"verifharness/mods/random"
	"verifharness/mods/record"
	"verifharness/mods/token"
)

// Entry is one module scenario.
type Entry struct {
	Module string // SDK module name (store key, genesis key)
	New    func(env *hx.Env) hx.Runner
}

// Entries lists the registered scenarios (extended as module harnesses land).
func Entries() []Entry {
	return []Entry{
		{"coinswap", func(e *hx.Env) hx.Runner { return coinswap.New(e) }},
		{"farm", func(e *hx.Env) hx.Runner { return farm.New(e) }},
		{"htlc", func(e *hx.Env) hx.Runner { return htlc.New(e) }},
		{"mt", func(e *hx.Env) hx.Runner { return mt.New(e) }},
		{"nft", func(e *hx.Env) hx.Runner { return nft.New(e) }},
		{"oracle", func(e *hx.Env) hx.Runner { return oracle.New(e) }},
		{"random", func(e *hx.Env) hx.Runner { return random.New(e) }},
		{"record", func(e *hx.Env) hx.Runner { return record.New(e) }},
		{"token", func(e *hx.Env) hx.Runner { return token.NewFor(e) }},
	}
}

// Runners instantiates every scenario on env.
func Runners(env *hx.Env) map[string]hx.Runner {
	m := map[string]hx.Runner{}
	for _, e := range Entries() {
		m[e.Module] = e.New(env)
	}
	return m
}
