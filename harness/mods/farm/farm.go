// Package farm drives the real farm module (message router, keeper, EndBlocker) for C05/C06
// and the farm slice of C13.
package farm

import (
	"fmt"
	"os"
	"sort"
	"strconv"
	"strings"
	"time"

	"cosmossdk.io/collections"
	sdkmath "cosmossdk.io/math"
	storetypes "cosmossdk.io/store/types"
	sdk "github.com/cosmos/cosmos-sdk/types"
	authtypes "github.com/cosmos/cosmos-sdk/x/auth/types"
	distrtypes "github.com/cosmos/cosmos-sdk/x/distribution/types"
	govtypes "github.com/cosmos/cosmos-sdk/x/gov/types"
	govv1 "github.com/cosmos/cosmos-sdk/x/gov/types/v1"
	govv1beta1 "github.com/cosmos/cosmos-sdk/x/gov/types/v1beta1"
	"github.com/cosmos/cosmos-sdk/x/params"
	paramproposal "github.com/cosmos/cosmos-sdk/x/params/types/proposal"

	coinswaptypes "mods.irisnet.org/modules/coinswap/types"
	farmmod "mods.irisnet.org/modules/farm"
	farmkeeper "mods.irisnet.org/modules/farm/keeper"
	farmtypes "mods.irisnet.org/modules/farm/types"

	"verifharness/hx"
)

const nAcc = 5

// Denoms is the denomination universe printed in observations.
var Denoms = []string{"btc", "eth", "lpt-1", "lpt-2", "stake"}

// module accounts printed in observations (symbolic name -> module name)
var modAccs = [][2]string{{"farm", farmtypes.ModuleName}, {"collector", farmtypes.RewardCollector}, {"fees", authtypes.FeeCollectorName},
	{"escrow", farmtypes.EscrowCollector}, {"distr", distrtypes.ModuleName}, {"gov", govtypes.ModuleName}}

type R struct {
	env   *hx.Env
	names map[string]string // bech32 -> symbolic
	// Genesis makes Gen emit `farm export` / `farm reimport` now and then (C12 runs only: the
	// C05/C06/C13 histories stay what they were)
	Genesis bool
}

func New(env *hx.Env) *R {
	r := &R{env: env, names: map[string]string{}}
	for i := 0; i < nAcc; i++ {
		r.names[hx.Acc(i).String()] = hx.AccName(i)
	}
	for _, m := range modAccs {
		r.names[hx.Mod(m[1]).String()] = m[0]
	}
	// /repo's SimApp wires neither the farm proposal handler into gov's legacy router nor the
	// farm GovHook into gov (MsgCreatePoolWithCommunityPool is rejected with "no handler exists
	// for proposal type" there).  Production applications register the route; the harness does the
	// same on the application's own gov keeper (keeping the routes the SimApp has) and calls the
	// hooks itself, in the order and context caching of gov's EndBlocker (govEnd below).
	rt := govv1beta1.NewRouter()
	rt.AddRoute(govtypes.RouterKey, govv1beta1.ProposalHandler)
	rt.AddRoute(paramproposal.RouterKey, params.NewParamChangeProposalHandler(env.App.ParamsKeeper))
	rt.AddRoute(farmtypes.RouterKey, farmmod.NewProposalHandler(env.Farm))
	env.App.GovKeeper.SetLegacyRouter(rt)
	return r
}

func (r *R) Module() string { return "farm" }

func (r *R) sym(bech string) string {
	if s, ok := r.names[bech]; ok {
		return s
	}
	return bech
}

func (r *R) addr(sym string) sdk.AccAddress {
	if strings.HasPrefix(sym, "A") {
		if i, err := strconv.Atoi(sym[1:]); err == nil {
			return hx.Acc(i)
		}
	}
	for _, m := range modAccs {
		if m[0] == sym {
			return hx.Mod(m[1])
		}
	}
	hx.Fail("unknown account %q", sym)
	return nil
}

func blockTime(h int64) time.Time { return time.Unix(1700000000+5*h%1000000007, 0).UTC() }

// ResetLine: initial height, funding of the rich accounts A0..A3 and of the poor account A4,
// module parameters (tax is the raw 18-decimal integer of the LegacyDec).
func (r *R) ResetLine(g *hx.Rng) string {
	h := g.Range(2, 40)
	rich := "1000000000000000000000000000000000000000" // 10^39
	poor := g.Range(0, 40)
	fee := []int64{5000, 5000, 1, 0, 7, 1000003}[g.Intn(6)]
	tax := []string{"400000000000000000", "400000000000000000", "1", "999999999999999999", "333333333333333333", "500000000000000000"}[g.Intn(6)]
	maxcat := []int{2, 2, 2, 1, 3}[g.Intn(5)]
	// gov: MinDeposit (bond denom) and the smallest accepted single deposit, MinDeposit × MinDepositRatio (0.01)
	govmin := []int64{10000000, 1000, 100, 250}[g.Intn(4)]
	return "farm reset " + hx.KV("h", h, "rich", rich, "poor", poor, "fee", fee, "tax", tax, "maxcat", maxcat, "govmin", govmin, "govthr", govmin/100)
}

func (r *R) Reset(ctx sdk.Context, line string) (sdk.Context, string) {
	f := strings.Fields(line)
	a := hx.Args(f[2:])
	h, _ := strconv.ParseInt(a["h"], 10, 64)
	ctx = hx.WithBlock(ctx, h, blockTime(h))
	// two coinswap pools so that lpt-1 and lpt-2 are valid LP token denoms
	setup := hx.Acc(99)
	r.env.Fund(ctx, setup, sdk.NewCoins(sdk.NewInt64Coin("stake", 1000000), sdk.NewInt64Coin("btc", 1000), sdk.NewInt64Coin("eth", 1000)))
	for _, d := range []string{"btc", "eth"} {
		out := r.env.Deliver(ctx, &coinswaptypes.MsgAddLiquidity{
			MaxToken: sdk.NewInt64Coin(d, 100), ExactStandardAmt: sdkmath.NewInt(100), MinLiquidity: sdkmath.NewInt(1),
			Deadline: blockTime(h).Unix() + 1000, Sender: setup.String(),
		})
		if out.Class != hx.OK {
			hx.Fail("coinswap setup: %s %s", out.Class, out.Err)
		}
	}
	// the setup must leave the observed module accounts empty
	tax := sdkmath.LegacyNewDecFromBigIntWithPrec(hx.MustInt(a["tax"]).BigInt(), 18)
	maxcat, _ := strconv.ParseUint(a["maxcat"], 10, 32)
	if err := r.env.Farm.SetParams(ctx, farmtypes.Params{
		PoolCreationFee: sdk.NewCoin("stake", hx.MustInt(a["fee"])), TaxRate: tax, MaxRewardCategories: uint32(maxcat),
	}); err != nil {
		hx.Fail("set params: %v", err)
	}
	// gov parameters of the history; the proposal id sequence must start at 1 (fresh fork)
	govmin := int64(10000000)
	if v, ok := a["govmin"]; ok {
		govmin, _ = strconv.ParseInt(v, 10, 64)
	}
	gp, err := r.env.App.GovKeeper.Params.Get(ctx)
	if err != nil {
		hx.Fail("gov params: %v", err)
	}
	gp.MinDeposit = sdk.NewCoins(sdk.NewInt64Coin("stake", govmin))
	gp.MinDepositRatio = "0.010000000000000000"
	gp.BurnProposalDepositPrevote = false
	if err := r.env.App.GovKeeper.Params.Set(ctx, gp); err != nil {
		hx.Fail("set gov params: %v", err)
	}
	if pid, err := r.env.App.GovKeeper.ProposalID.Peek(ctx); err != nil || pid != 1 {
		hx.Fail("gov proposal id sequence does not start at 1: %d %v", pid, err)
	}
	if fp, err := r.env.App.DistrKeeper.FeePool.Get(ctx); err != nil || !fp.CommunityPool.IsZero() {
		hx.Fail("community pool not empty at reset: %v %v", fp.CommunityPool, err)
	}
	// the fee collector may hold the coinswap pool creation tax: sweep it so that the universe starts clean
	for _, m := range modAccs {
		bal := r.env.App.BankKeeper.GetAllBalances(ctx, hx.Mod(m[1]))
		if !bal.IsZero() {
			if err := r.env.App.BankKeeper.SendCoins(ctx, hx.Mod(m[1]), hx.Acc(98), bal); err != nil {
				hx.Fail("sweep: %v", err)
			}
		}
	}
	for i := 0; i < nAcc; i++ {
		amt := hx.MustInt(a["rich"])
		if i == nAcc-1 {
			amt = hx.MustInt(a["poor"])
		}
		var cs sdk.Coins
		for _, d := range Denoms {
			cs = cs.Add(sdk.NewCoin(d, amt))
		}
		r.env.Fund(ctx, hx.Acc(i), cs)
	}
	return ctx, "ok reward=- " + r.state(ctx)
}

func coinsStr(cs sdk.Coins, sep string) string {
	if len(cs) == 0 {
		return "-"
	}
	var p []string
	for _, c := range cs {
		p = append(p, c.Denom+":"+c.Amount.String())
	}
	return strings.Join(p, sep)
}

type poolView struct {
	P     farmtypes.FarmPool
	Rules []farmtypes.RewardRule
}

func (r *R) pools(ctx sdk.Context) []poolView {
	var ps []poolView
	r.env.Farm.IteratorAllPools(ctx, func(p farmtypes.FarmPool) {
		ps = append(ps, poolView{P: p})
	})
	for i := range ps {
		ps[i].Rules = r.env.Farm.GetRewardRules(ctx, ps[i].P.Id)
	}
	return ps
}

func (r *R) farmers(ctx sdk.Context) []farmtypes.FarmInfo {
	var fs []farmtypes.FarmInfo
	r.env.Farm.IteratorAllFarmInfo(ctx, func(f farmtypes.FarmInfo) { fs = append(fs, f) })
	return fs
}

type qEntry struct {
	H  uint64
	Id string
}

// queue reads the raw active-pool queue keys (height, pool id) from the farm store.
func (r *R) queue(ctx sdk.Context) []qEntry {
	store := ctx.KVStore(r.env.App.GetKey(farmtypes.StoreKey))
	it := storetypes.KVStorePrefixIterator(store, farmtypes.ActiveFarmPoolKey)
	defer it.Close()
	var q []qEntry
	for ; it.Valid(); it.Next() {
		k := it.Key()
		if len(k) < 9 {
			hx.Fail("short queue key")
		}
		q = append(q, qEntry{H: sdk.BigEndianToUint64(k[1:9]), Id: string(k[9:])})
	}
	return q
}

// state renders the canonical projection of the farm state and of the ledgers C05/C06 talk about.
func (r *R) state(ctx sdk.Context) string {
	k := r.env.Farm
	var ps, fs, qs, bs []string
	for _, pv := range r.pools(ctx) {
		p := pv.P
		var rs []string
		for _, ru := range pv.Rules {
			rs = append(rs, fmt.Sprintf("%s:%s:%s:%s:%s", ru.Reward, ru.TotalReward, ru.RemainingReward, ru.RewardPerBlock, ru.RewardPerShare.BigInt().String()))
		}
		rules := "-"
		if len(rs) > 0 {
			rules = strings.Join(rs, ";")
		}
		ed := 0
		if p.Editable {
			ed = 1
		}
		ps = append(ps, fmt.Sprintf("%s|%s|%s|%d|%d|%d|%d|%s|%s|%s", p.Id, r.sym(p.Creator), hx.Dash(p.Description), p.StartHeight, p.EndHeight,
			p.LastHeightDistrRewards, ed, p.TotalLptLocked.Denom, p.TotalLptLocked.Amount, rules))
	}
	for _, f := range r.farmers(ctx) {
		fs = append(fs, fmt.Sprintf("%s|%s|%s|%s", r.sym(f.Address), f.PoolId, f.Locked, coinsStr(f.RewardDebt, ";")))
	}
	for _, q := range r.queue(ctx) {
		qs = append(qs, fmt.Sprintf("%d|%s", q.H, q.Id))
	}
	accs := []string{}
	for i := 0; i < nAcc; i++ {
		accs = append(accs, hx.AccName(i))
	}
	for _, m := range modAccs {
		accs = append(accs, m[0])
	}
	for _, a := range accs {
		for _, d := range Denoms {
			v := r.env.Bal(ctx, r.addr(a), d)
			if !v.IsZero() {
				bs = append(bs, fmt.Sprintf("%s|%s|%s", a, d, v))
			}
		}
	}
	// the community-pool path: escrow infos, gov proposals (status, deposits held), the community pool
	var es, prs, cps []string
	for _, e := range k.GetAllEscrowInfo(ctx) {
		es = append(es, escrowStr(r, e))
	}
	for _, p := range r.proposals(ctx) {
		prs = append(prs, fmt.Sprintf("%d|%s|%s", p.Id, statusLetter(p.Status), r.depositOf(ctx, p.Id)))
	}
	if fp, err := r.env.App.DistrKeeper.FeePool.Get(ctx); err == nil {
		for _, c := range fp.CommunityPool {
			if !c.Amount.IsZero() {
				cps = append(cps, fmt.Sprintf("%s|%s", c.Denom, c.Amount.BigInt().String()))
			}
		}
	} else {
		hx.Fail("fee pool: %v", err)
	}
	sort.Strings(ps)
	sort.Strings(fs)
	sort.Strings(qs)
	sort.Strings(bs)
	sort.Strings(es)
	sort.Strings(prs)
	sort.Strings(cps)
	j := func(x []string) string {
		if len(x) == 0 {
			return "-"
		}
		return strings.Join(x, ",")
	}
	return fmt.Sprintf("h=%d seq=%d pools=%s farmers=%s queue=%s bals=%s esc=%s props=%s cp=%s", ctx.BlockHeight(), k.GetSequence(ctx), j(ps), j(fs), j(qs), j(bs), j(es), j(prs), j(cps))
}

func escrowStr(r *R, e farmtypes.EscrowInfo) string {
	return fmt.Sprintf("%d|%s|%s|%s", e.ProposalId, r.sym(e.Proposer), coinsStr(e.FundApplied, ";"), coinsStr(e.FundSelfBond, ";"))
}

func statusLetter(st govv1.ProposalStatus) string {
	switch st {
	case govv1.StatusDepositPeriod:
		return "D"
	case govv1.StatusVotingPeriod:
		return "V"
	case govv1.StatusPassed:
		return "P"
	case govv1.StatusRejected:
		return "R"
	case govv1.StatusFailed:
		return "F"
	}
	return "?"
}

// proposals lists the gov proposals of the history (all of them are farm proposals).
func (r *R) proposals(ctx sdk.Context) []govv1.Proposal {
	var out []govv1.Proposal
	err := r.env.App.GovKeeper.Proposals.Walk(ctx, nil, func(_ uint64, p govv1.Proposal) (bool, error) {
		out = append(out, p)
		return false, nil
	})
	if err != nil {
		hx.Fail("walk proposals: %v", err)
	}
	return out
}

// depositOf is the bond-denom total of the deposit records gov still holds for a proposal.
func (r *R) depositOf(ctx sdk.Context, pid uint64) sdkmath.Int {
	ds, err := r.env.App.GovKeeper.GetDeposits(ctx, pid)
	if err != nil {
		hx.Fail("deposits: %v", err)
	}
	t := sdkmath.ZeroInt()
	for _, d := range ds {
		t = t.Add(sdk.NewCoins(d.Amount...).AmountOf("stake"))
	}
	return t
}

// govEnd does to proposal pid what gov's EndBlocker (x/gov/abci.go, SDK v0.50) does to a proposal
// whose deposit period (kind "faildeposit") or voting period (kind "pass" / "reject": the tally
// result) has ended, in the same order and with the same context caching; the farm hooks, which
// the SimApp does not register with gov, are called where gov calls its hooks.  A proposal that is
// not in that period is not due: if gov still has it in the other period nothing happens; if gov
// has finished with it (or never had it) only the hook is called again.  Returns due / panicked.
func (r *R) govEnd(ctx sdk.Context, pid uint64, kind string) (due bool, panicked bool) {
	gk := r.env.App.GovKeeper
	hook := farmkeeper.NewGovHook(r.env.Farm)
	bctx, writeBlock := ctx.CacheContext() // discarded when the block processing panics or errors
	callHook := func() {
		cacheCtx, writeCache := bctx.CacheContext()
		if kind == "faildeposit" {
			hook.AfterProposalFailedMinDeposit(cacheCtx, pid)
		} else {
			hook.AfterProposalVotingPeriodEnded(cacheCtx, pid)
		}
		writeCache() // the farm hooks return no error
	}
	abort := false
	p, _ := hx.NoPanic(func() {
		proposal, err := gk.Proposals.Get(bctx, pid)
		if err != nil {
			callHook()
			return
		}
		alive := proposal.Status == govv1.StatusDepositPeriod || proposal.Status == govv1.StatusVotingPeriod
		want := govv1.StatusVotingPeriod
		if kind == "faildeposit" {
			want = govv1.StatusDepositPeriod
		}
		if proposal.Status != want {
			if !alive {
				callHook()
			}
			return
		}
		due = true
		if kind == "faildeposit" {
			if err := gk.DeleteProposal(bctx, pid); err != nil {
				abort = true
				return
			}
			if err := gk.RefundAndDeleteDeposits(bctx, pid); err != nil {
				abort = true
				return
			}
			callHook()
			return
		}
		passes := kind == "pass"
		if err := gk.RefundAndDeleteDeposits(bctx, pid); err != nil {
			abort = true
			return
		}
		if err := gk.ActiveProposalsQueue.Remove(bctx, collections.Join(*proposal.VotingEndTime, proposal.Id)); err != nil {
			abort = true
			return
		}
		if passes {
			cacheCtx, writeCache := bctx.CacheContext()
			msgs, err := proposal.GetMsgs()
			if err == nil {
				for _, msg := range msgs {
					handler := gk.Router().Handler(msg)
					if pm, info := hx.NoPanic(func() { _, err = handler(cacheCtx, msg) }); pm {
						err = fmt.Errorf("panicked: %s", info)
					}
					if err != nil {
						break
					}
				}
			}
			if err == nil {
				proposal.Status = govv1.StatusPassed
				writeCache()
			} else {
				proposal.Status = govv1.StatusFailed
				proposal.FailedReason = err.Error()
			}
		} else {
			proposal.Status = govv1.StatusRejected
			proposal.FailedReason = "proposal did not get enough votes to pass"
		}
		if err := gk.SetProposal(bctx, proposal); err != nil {
			abort = true
			return
		}
		callHook()
	})
	if p || abort {
		return due, true
	}
	writeBlock()
	return due, false
}

// genesisLine renders the real exported genesis: pools in the document's own order, farmer
// records as a sorted set (their real order is that of the bech32 address bytes; `fiorder`
// reports whether the real list is in strictly ascending store-key order), escrow infos in the
// document's own order.
func (r *R) genesisLine(gs *farmtypes.GenesisState) string {
	var ps, fs []string
	for _, p := range gs.Pools {
		var rs []string
		for _, ru := range p.Rules {
			rs = append(rs, fmt.Sprintf("%s:%s:%s:%s:%s", ru.Reward, ru.TotalReward, ru.RemainingReward, ru.RewardPerBlock, ru.RewardPerShare.BigInt().String()))
		}
		rules := "-"
		if len(rs) > 0 {
			rules = strings.Join(rs, ";")
		}
		ed := 0
		if p.Editable {
			ed = 1
		}
		ps = append(ps, fmt.Sprintf("%s|%s|%s|%d|%d|%d|%d|%s|%s|%s", p.Id, r.sym(p.Creator), hx.Dash(p.Description), p.StartHeight, p.EndHeight,
			p.LastHeightDistrRewards, ed, p.TotalLptLocked.Denom, p.TotalLptLocked.Amount, rules))
	}
	order := "ok"
	prev := ""
	for i, f := range gs.FarmInfos {
		fs = append(fs, fmt.Sprintf("%s|%s|%s|%s", r.sym(f.Address), f.PoolId, f.Locked, coinsStr(f.RewardDebt, ";")))
		key := f.Address + f.PoolId
		if i > 0 && !(prev < key) {
			order = "bad"
		}
		prev = key
	}
	sort.Strings(fs)
	j := func(x []string) string {
		if len(x) == 0 {
			return "-"
		}
		return strings.Join(x, ",")
	}
	var es []string
	for _, e := range gs.Escrow {
		es = append(es, escrowStr(r, e))
	}
	return fmt.Sprintf("gseq=%d gfee=%s gtax=%s gmaxcat=%d gescrow=%s fiorder=%s gpools=%s gfarmers=%s", gs.Sequence, gs.Params.PoolCreationFee.Amount,
		gs.Params.TaxRate.BigInt().String(), gs.Params.MaxRewardCategories, j(es), order, j(ps), j(fs))
}

// parseCoins: "-" = nil (field absent); otherwise "d:n,d:n" kept in the given order.
func parseCoins(s string) sdk.Coins {
	if s == "-" || s == "" {
		return nil
	}
	var cs sdk.Coins
	for _, e := range strings.Split(s, ",") {
		p := strings.SplitN(e, ":", 2)
		if len(p) != 2 {
			hx.Fail("bad coin %q", e)
		}
		cs = append(cs, sdk.Coin{Denom: p[0], Amount: hx.MustInt(p[1])})
	}
	return cs
}

func parseCoin(s string) sdk.Coin {
	p := strings.SplitN(s, ":", 2)
	if len(p) != 2 {
		hx.Fail("bad coin %q", s)
	}
	return sdk.Coin{Denom: p[0], Amount: hx.MustInt(p[1])}
}

func (r *R) Exec(ctx sdk.Context, line string) (sdk.Context, string) {
	f := strings.Fields(line)
	a := hx.Args(f[2:])
	var msg sdk.Msg
	switch f[1] {
	case "export":
		// an application exports committed state: finish the current block first
		var ended bool
		ctx, ended = r.closeBlock(ctx)
		if !ended {
			return ctx, "panic validate=- gseq=- gfee=- gtax=- gmaxcat=- gescrow=- fiorder=- gpools=- gfarmers=- reward=- " + r.state(ctx)
		}
		gs := farmmod.ExportGenesis(ctx, r.env.Farm)
		v := "ok"
		if p, _ := hx.NoPanic(func() {
			if err := farmtypes.ValidateGenesis(*gs); err != nil {
				v = "err"
			}
		}); p {
			v = "panic"
		}
		return ctx, fmt.Sprintf("ok validate=%s %s reward=- %s", v, r.genesisLine(gs), r.state(ctx))
	case "reimport":
		// finish the current block, export, wipe the module store, InitGenesis at the next height
		var ended bool
		ctx, ended = r.closeBlock(ctx)
		if !ended {
			return ctx, "panic same=- reward=- " + r.state(ctx)
		}
		before := r.state(ctx)
		gs := farmmod.ExportGenesis(ctx, r.env.Farm)
		class, _ := hx.Try(ctx, func(c sdk.Context) error {
			st := c.KVStore(r.env.App.GetKey(farmtypes.StoreKey))
			it := storetypes.KVStorePrefixIterator(st, nil)
			var keys [][]byte
			for ; it.Valid(); it.Next() {
				keys = append(keys, append([]byte{}, it.Key()...))
			}
			it.Close()
			for _, k := range keys {
				st.Delete(k)
			}
			farmmod.InitGenesis(c, r.env.Farm, *gs)
			return nil
		})
		after := r.state(ctx)
		same := 0
		if before == after {
			same = 1
		}
		return ctx, fmt.Sprintf("%s same=%d reward=- %s", class, same, after)
	case "end_block":
		n, err := strconv.Atoi(a["n"])
		if err != nil || n < 1 {
			hx.Fail("bad end_block %q", line)
		}
		res := hx.OK
		for i := 0; i < n; i++ {
			// the EndBlocker writes straight into the block state (no transaction cache); only a
			// panicking one is discarded here, and the run of blocks stops (the real chain halts)
			cctx, write := ctx.CacheContext()
			if p, _ := hx.NoPanic(func() { farmmod.EndBlocker(cctx, r.env.Farm) }); p {
				res = hx.Panic
				break
			}
			write()
			h := ctx.BlockHeight() + 1
			ctx = hx.WithBlock(ctx, h, blockTime(h))
		}
		return ctx, res + " reward=- " + r.state(ctx)
	case "cp_pass", "cp_reject", "cp_faildeposit":
		pid, err := strconv.ParseUint(a["id"], 10, 64)
		if err != nil {
			hx.Fail("bad proposal id %q", line)
		}
		due, panicked := r.govEnd(ctx, pid, strings.TrimPrefix(f[1], "cp_"))
		res := hx.Rej
		if panicked {
			res = hx.Panic
		} else if due {
			res = hx.OK
		}
		return ctx, res + " reward=- " + r.state(ctx)
	case "cp_submit":
		msg = &farmtypes.MsgCreatePoolWithCommunityPool{
			Content: farmtypes.CommunityPoolCreateFarmProposal{Title: hx.Undash(a["title"]), Description: "d", PoolDescription: hx.Undash(a["desc"]), LptDenom: a["lpt"],
				RewardPerBlock: parseCoins(a["rpb"]), FundApplied: parseCoins(a["applied"]), FundSelfBond: parseCoins(a["self"])},
			InitialDeposit: parseCoins(a["deposit"]), Proposer: r.addr(a["proposer"]).String()}
	case "fund_cp":
		msg = &distrtypes.MsgFundCommunityPool{Amount: parseCoins(a["amt"]), Depositor: r.addr(a["sender"]).String()}
	case "create_pool":
		start, err := strconv.ParseInt(a["start"], 10, 64)
		if err != nil {
			hx.Fail("bad start %q", line)
		}
		msg = &farmtypes.MsgCreatePool{Description: hx.Undash(a["desc"]), LptDenom: a["lpt"], StartHeight: start,
			RewardPerBlock: parseCoins(a["rpb"]), TotalReward: parseCoins(a["total"]), Editable: a["editable"] == "1", Creator: r.addr(a["sender"]).String()}
	case "destroy_pool":
		msg = &farmtypes.MsgDestroyPool{PoolId: a["pool"], Creator: r.addr(a["sender"]).String()}
	case "adjust_pool":
		msg = &farmtypes.MsgAdjustPool{PoolId: a["pool"], AdditionalReward: parseCoins(a["add"]), RewardPerBlock: parseCoins(a["rpb"]), Creator: r.addr(a["sender"]).String()}
	case "stake":
		msg = &farmtypes.MsgStake{PoolId: a["pool"], Amount: parseCoin(a["amt"]), Sender: r.addr(a["sender"]).String()}
	case "unstake":
		msg = &farmtypes.MsgUnstake{PoolId: a["pool"], Amount: parseCoin(a["amt"]), Sender: r.addr(a["sender"]).String()}
	case "harvest":
		msg = &farmtypes.MsgHarvest{PoolId: a["pool"], Sender: r.addr(a["sender"]).String()}
	default:
		hx.Fail("unknown op %q", line)
	}
	out := r.env.Deliver(ctx, msg)
	if os.Getenv("FARM_DEBUG") != "" {
		fmt.Fprintf(os.Stderr, "debug %s %s %s\n", f[1], out.Class, out.Err)
	}
	reward := "-"
	if out.Class == hx.OK && out.Raw != nil && len(out.Raw.MsgResponses) > 0 {
		switch f[1] {
		case "stake":
			var resp farmtypes.MsgStakeResponse
			if err := resp.Unmarshal(out.Raw.MsgResponses[0].Value); err == nil {
				reward = coinsStr(resp.Reward, ";")
			}
		case "unstake":
			var resp farmtypes.MsgUnstakeResponse
			if err := resp.Unmarshal(out.Raw.MsgResponses[0].Value); err == nil {
				reward = coinsStr(resp.Reward, ";")
			}
		case "harvest":
			var resp farmtypes.MsgHarvestResponse
			if err := resp.Unmarshal(out.Raw.MsgResponses[0].Value); err == nil {
				reward = coinsStr(resp.Reward, ";")
			}
		}
	}
	return ctx, out.Class + " reward=" + reward + " " + r.state(ctx)
}

// closeBlock finishes the current block as the chain would: the farm EndBlocker at the current
// height (a panicking one is discarded and reported), then the next height.
func (r *R) closeBlock(ctx sdk.Context) (sdk.Context, bool) {
	cctx, write := ctx.CacheContext()
	if p, _ := hx.NoPanic(func() { farmmod.EndBlocker(cctx, r.env.Farm) }); p {
		return ctx, false
	}
	write()
	h := ctx.BlockHeight() + 1
	return hx.WithBlock(ctx, h, blockTime(h)), true
}

// CloseBlock implements hx.BlockCloser: exports are taken at block boundaries.
func (r *R) CloseBlock(ctx sdk.Context) sdk.Context {
	ctx, _ = r.closeBlock(ctx)
	return ctx
}

// Continuation implements hx.Continuer: block ends up to the last pool end height of ctx.
func (r *R) Continuation(ctx sdk.Context) []string {
	last := ctx.BlockHeight()
	r.env.Farm.IteratorAllPools(ctx, func(p farmtypes.FarmPool) {
		if p.EndHeight > last {
			last = p.EndHeight
		}
	})
	n := last - ctx.BlockHeight() + 2
	if n > 3000 {
		n = 3000
	}
	return []string{fmt.Sprintf("farm end_block n=%d", n)}
}

// State is the canonical projection of the farm state and the ledgers it talks about (the
// observation line without the result prefix); used by the cross-module drivers (hx.Stater).
func (r *R) State(ctx sdk.Context) string { return r.state(ctx) }
