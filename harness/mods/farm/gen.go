package farm

import (
	"fmt"
	"strconv"
	"strings"

	sdkmath "cosmossdk.io/math"
	sdk "github.com/cosmos/cosmos-sdk/types"

	farmtypes "mods.irisnet.org/modules/farm/types"

	"verifharness/hx"
)

var rewardDenoms = []string{"btc", "eth", "stake", "lpt-1"}

func acc(g *hx.Rng) string { return hx.AccName(g.Intn(nAcc)) }

// smallAmt draws reward-per-block / stake sizes: mostly tiny (so that per-share rewards have
// non-terminating decimals and floors bite), sometimes large.
func smallAmt(g *hx.Rng) sdkmath.Int {
	switch g.Pick(10, 4, 2, 1) {
	case 0:
		return sdkmath.NewInt(g.Range(1, 9))
	case 1:
		return sdkmath.NewInt(g.Range(10, 1000))
	case 2:
		return g.Amount(64)
	default:
		return g.Amount(120)
	}
}

func coinList(ds []string, amt func(d string) sdkmath.Int) string {
	var p []string
	for _, d := range ds {
		p = append(p, d+":"+amt(d).String())
	}
	if len(p) == 0 {
		return "-"
	}
	return strings.Join(p, ",")
}

// sortedSubset draws k distinct reward denoms, sorted (messages carry sorted coin lists).
func sortedSubset(g *hx.Rng, from []string, k int) []string {
	idx := map[int]bool{}
	for len(idx) < k && len(idx) < len(from) {
		idx[g.Intn(len(from))] = true
	}
	var out []string
	for i, d := range from {
		if idx[i] {
			out = append(out, d)
		}
	}
	// sort
	for i := 0; i < len(out); i++ {
		for j := i + 1; j < len(out); j++ {
			if out[j] < out[i] {
				out[i], out[j] = out[j], out[i]
			}
		}
	}
	return out
}

func (r *R) Gen(ctx sdk.Context, g *hx.Rng) string {
	h := ctx.BlockHeight()
	ps := r.pools(ctx)
	fs := r.farmers(ctx)
	var live []*poolView // started and not past their end
	var future []*poolView
	for i := range ps {
		if ps[i].P.EndHeight >= h && ps[i].P.StartHeight <= h {
			live = append(live, &ps[i])
		} else if ps[i].P.StartHeight > h {
			future = append(future, &ps[i])
		}
	}
	pickPool := func() *poolView {
		if len(ps) == 0 {
			return nil
		}
		switch {
		case len(live) > 0 && !g.Chance(1, 8):
			return live[g.Intn(len(live))]
		case len(future) > 0 && g.Chance(1, 2):
			return future[g.Intn(len(future))]
		}
		return &ps[g.Intn(len(ps))]
	}
	poolId := func(p *poolView) string {
		if p == nil || g.Chance(1, 40) {
			return []string{"farm-99", "farm-0", "pool-1"}[g.Intn(3)]
		}
		return p.P.Id
	}
	// genesis round trip inside the history (C12): the exported document, and a re-import
	if r.Genesis && len(ps) > 0 && g.Chance(1, 12) {
		if g.Chance(1, 2) {
			return "farm export"
		}
		return "farm reimport"
	}
	// the community-pool path: about one operation in five
	if g.Chance(1, 5) {
		return r.genCp(ctx, g, ps)
	}
	kind := g.Pick(7, 24, 13, 11, 9, 3, 26)
	if len(live) == 0 && g.Chance(2, 3) {
		kind = 0
		if len(future) > 0 && g.Chance(1, 2) {
			kind = 6
		}
	}
	switch kind {
	case 0: // create_pool
		lpt := []string{"lpt-1", "lpt-1", "lpt-1", "lpt-1", "lpt-1", "lpt-1", "lpt-1", "lpt-2", "lpt-2", "lpt-2", "lpt-9", "btc"}[g.Intn(12)]
		var start int64
		switch g.Pick(20, 14, 1, 1) {
		case 0:
			start = h
		case 1:
			start = h + g.Range(1, 6)
		case 2:
			start = h - 1
		default:
			start = []int64{9223372036854775807, 4611686018427387904, h + 1000, h + 30}[g.Intn(4)]
		}
		k := []int{1, 1, 1, 1, 1, 1, 2, 2, 2, 2, 2, 3}[g.Intn(12)]
		ds := sortedSubset(g, rewardDenoms, k)
		rpb := map[string]sdkmath.Int{}
		tot := map[string]sdkmath.Int{}
		for _, d := range ds {
			rpb[d] = smallAmt(g)
			blocks := g.Range(1, 24)
			t := rpb[d].MulRaw(blocks)
			if g.Chance(1, 2) {
				t = t.Add(sdkmath.NewInt(g.Range(0, 5)))
			}
			switch g.Intn(75) {
			case 0:
				t = rpb[d].SubRaw(1) // total < per block
			case 1:
				t = sdkmath.ZeroInt()
			case 2:
				rpb[d] = sdkmath.ZeroInt()
			}
			tot[d] = t
		}
		rds := ds
		if g.Chance(1, 30) && len(ds) > 1 {
			rds = ds[:1] // lengths differ
		}
		sender := []string{"A0", "A0", "A0", "A0", "A1", "A1", "A2", "A2", "A3", "A4"}[g.Intn(10)]
		desc := []string{"-", "d1", "usdt/iris"}[g.Intn(3)]
		if g.Chance(1, 60) {
			desc = strings.Repeat("x", 281)
		}
		ed := 1
		if g.Chance(1, 7) {
			ed = 0
		}
		return "farm create_pool " + hx.KV("sender", sender, "desc", desc, "lpt", lpt, "start", start,
			"rpb", coinList(rds, func(d string) sdkmath.Int { return rpb[d] }), "total", coinList(ds, func(d string) sdkmath.Int { return tot[d] }), "editable", ed)
	case 1: // stake
		p := pickPool()
		sender := acc(g)
		denom := "lpt-1"
		if p != nil {
			denom = p.P.TotalLptLocked.Denom
		}
		if g.Chance(1, 25) {
			denom = []string{"lpt-1", "lpt-2", "btc"}[g.Intn(3)]
		}
		bal := r.env.Bal(ctx, r.addr(sender), denom)
		var amt sdkmath.Int
		switch g.Pick(14, 2, 1, 1, 2) {
		case 0:
			amt = smallAmt(g)
		case 1:
			amt = bal
		case 2:
			amt = bal.AddRaw(1)
		case 3:
			amt = sdkmath.ZeroInt()
		default:
			amt = sdkmath.NewInt(g.Range(1, 3))
		}
		return "farm stake " + hx.KV("sender", sender, "pool", poolId(p), "amt", denom+":"+amt.String())
	case 2: // unstake
		if len(fs) > 0 && !g.Chance(1, 10) {
			f := fs[g.Intn(len(fs))]
			denom := "lpt-1"
			if p, ok := r.env.Farm.GetPool(ctx, f.PoolId); ok {
				denom = p.TotalLptLocked.Denom
			}
			if g.Chance(1, 30) {
				denom = "lpt-2"
			}
			var amt sdkmath.Int
			switch g.Pick(6, 1, 5, 5, 1) {
			case 0:
				amt = f.Locked
			case 1:
				amt = f.Locked.AddRaw(1)
			case 2:
				amt = sdkmath.OneInt()
			case 3:
				if f.Locked.IsPositive() {
					amt = sdkmath.NewIntFromBigInt(g.BigRaw(f.Locked.BigInt().BitLen()))
					if amt.GT(f.Locked) {
						amt = f.Locked.SubRaw(1)
					}
				} else {
					amt = sdkmath.ZeroInt()
				}
			default:
				amt = sdkmath.ZeroInt()
			}
			return "farm unstake " + hx.KV("sender", r.sym(f.Address), "pool", f.PoolId, "amt", denom+":"+amt.String())
		}
		p := pickPool()
		return "farm unstake " + hx.KV("sender", acc(g), "pool", poolId(p), "amt", "lpt-1:"+smallAmt(g).String())
	case 3: // harvest
		if len(fs) > 0 && !g.Chance(1, 8) {
			f := fs[g.Intn(len(fs))]
			return "farm harvest " + hx.KV("sender", r.sym(f.Address), "pool", f.PoolId)
		}
		return "farm harvest " + hx.KV("sender", acc(g), "pool", poolId(pickPool()))
	case 4: // adjust_pool
		p := pickPool()
		// prefer a pool that ends in this very block (the end-block top-up boundary)
		for i := range ps {
			if ps[i].P.EndHeight == h && g.Chance(2, 3) {
				p = &ps[i]
			}
		}
		sender := acc(g)
		var ruleDenoms []string
		rpbOld := map[string]sdkmath.Int{}
		if p != nil {
			if !g.Chance(1, 10) {
				sender = r.sym(p.P.Creator)
			}
			for _, ru := range p.Rules {
				ruleDenoms = append(ruleDenoms, ru.Reward)
				rpbOld[ru.Reward] = ru.RewardPerBlock
			}
		}
		pickDs := func() []string {
			if len(ruleDenoms) == 0 {
				return []string{"btc"}
			}
			switch g.Pick(5, 4, 1) {
			case 0:
				return []string{ruleDenoms[g.Intn(len(ruleDenoms))]}
			case 1:
				return ruleDenoms
			default:
				return sortedSubset(g, rewardDenoms, 1+g.Intn(2))
			}
		}
		add, rpb := "-", "-"
		mode := g.Pick(4, 3, 4)
		if mode == 0 || mode == 2 {
			add = coinList(pickDs(), func(d string) sdkmath.Int {
				if g.Chance(1, 25) {
					return sdkmath.ZeroInt()
				}
				if o, ok := rpbOld[d]; ok && g.Chance(1, 2) {
					return o.MulRaw(g.Range(1, 6)).AddRaw(g.Range(0, 2))
				}
				return smallAmt(g)
			})
		}
		if mode == 1 || mode == 2 {
			rpb = coinList(pickDs(), func(d string) sdkmath.Int {
				if g.Chance(1, 25) {
					return sdkmath.ZeroInt()
				}
				if o, ok := rpbOld[d]; ok && g.Chance(1, 2) {
					return o.AddRaw(g.Range(-1, 2)).Abs()
				}
				return smallAmt(g)
			})
		}
		if g.Chance(1, 40) {
			add, rpb = "-", "-"
		}
		return "farm adjust_pool " + hx.KV("sender", sender, "pool", poolId(p), "add", add, "rpb", rpb)
	case 5: // destroy_pool
		p := pickPool()
		sender := acc(g)
		if p != nil && !g.Chance(1, 6) {
			sender = r.sym(p.P.Creator)
		}
		return "farm destroy_pool " + hx.KV("sender", sender, "pool", poolId(p))
	default: // end_block
		n := int64(1)
		switch g.Pick(12, 3, 3) {
		case 1:
			n = g.Range(2, 4)
		case 2: // jump to just before / onto / past some pool's start or end height
			if p := pickPool(); p != nil {
				t := p.P.EndHeight
				if g.Chance(1, 4) {
					t = p.P.StartHeight
				}
				t += g.Range(-1, 1)
				if t > h && t-h <= 40 {
					n = t - h
				}
			}
		}
		return "farm end_block " + hx.KV("n", n)
	}
}

// cpDenoms are the denominations the community pool is funded in (no liquidity-pool tokens: the
// distribution module account never holds a stakeable token it did not get from a refund).
var cpDenoms = []string{"btc", "eth", "stake"}

// genCp draws one operation of the community-pool path from the real state: funding of the
// community pool, proposals (self-bond only = rejected / applied only / both, 1–3 reward denoms
// against MaxRewardCategories, applied funds above the community pool, proposers without funds,
// deposits below the first-deposit threshold, between it and MinDeposit, at MinDeposit), and what
// gov's EndBlocker does to a proposal (pass / reject / failed deposit), preferably a live one,
// sometimes one that is already settled or does not exist.
func (r *R) genCp(ctx sdk.Context, g *hx.Rng, ps []poolView) string {
	props := r.proposals(ctx)
	var liveV, liveD, done []uint64
	for _, p := range props {
		switch statusLetter(p.Status) {
		case "V":
			liveV = append(liveV, p.Id)
		case "D":
			liveD = append(liveD, p.Id)
		default:
			done = append(done, p.Id)
		}
	}
	fp, err := r.env.App.DistrKeeper.FeePool.Get(ctx)
	if err != nil {
		hx.Fail("fee pool: %v", err)
	}
	pool, _ := fp.CommunityPool.TruncateDecimal()
	gp, _ := r.env.App.GovKeeper.Params.Get(ctx)
	govmin := sdk.NewCoins(gp.MinDeposit...).AmountOf("stake")
	kind := g.Pick(5, 8, 7, 3, 3)
	if pool.IsZero() && g.Chance(2, 3) {
		kind = 0
	}
	if len(liveV)+len(liveD) == 0 && kind >= 2 && g.Chance(3, 4) {
		kind = 1
	}
	pickId := func(pref []uint64) uint64 {
		switch {
		case len(pref) > 0 && !g.Chance(1, 6):
			return pref[g.Intn(len(pref))]
		case len(done) > 0 && g.Chance(2, 3):
			return done[g.Intn(len(done))]
		case len(props) > 0 && g.Chance(4, 5):
			return props[g.Intn(len(props))].Id
		}
		return []uint64{99, 0, uint64(len(props) + 1)}[g.Intn(3)]
	}
	switch kind {
	case 0: // fund_cp
		k := 1 + g.Intn(2)
		ds := sortedSubset(g, cpDenoms, k)
		sender := []string{"A0", "A1", "A2", "A3", "A3", "A4"}[g.Intn(6)]
		amt := coinList(ds, func(d string) sdkmath.Int {
			switch g.Pick(8, 4, 2, 1, 1) {
			case 0:
				return sdkmath.NewInt(g.Range(50, 5000))
			case 1:
				return g.Amount(70)
			case 2:
				return sdkmath.NewInt(g.Range(1, 9))
			case 3: // enough for a budget whose end height overflows later (see cp_submit)
				return sdkmath.NewInt(9223372036854775807).AddRaw(g.Range(0, 1000))
			}
			return sdkmath.ZeroInt()
		})
		if g.Chance(1, 40) {
			amt = "-"
		}
		return "farm fund_cp " + hx.KV("sender", sender, "amt", amt)
	case 1: // cp_submit
		// a budget of MaxInt64 − height blocks: accepted now (the dry run of the handler passes),
		// but once the chain has moved on `ExpiredHeight` overflows and the handler of the passed
		// proposal fails (status Failed, escrow refunded)
		for _, c := range pool {
			if c.Amount.GTE(sdkmath.NewInt(9223372036854775807)) && g.Chance(1, 3) {
				return "farm cp_submit " + hx.KV("proposer", "A0", "title", "t", "desc", "late", "lpt", "lpt-1",
					"rpb", c.Denom+":1", "applied", c.Denom+":"+sdkmath.NewInt(9223372036854775807-ctx.BlockHeight()).String(), "self", "-",
					"deposit", "stake:"+govmin.String())
			}
		}
		maxcat := int(r.env.Farm.MaxRewardCategories(ctx))
		var inPool []string
		for _, c := range pool {
			inPool = append(inPool, c.Denom)
		}
		// applied part: denoms the community pool holds (mostly), 1–2 of them
		src := inPool
		if len(src) == 0 || g.Chance(1, 10) {
			src = cpDenoms
		}
		na := 1
		if len(src) > 1 && maxcat > 1 && g.Chance(1, 3) {
			na = 2
		}
		ap := sortedSubset(g, src, na)
		// self-bond part: other reward denoms, 0–2 of them, mostly within MaxRewardCategories
		var rest []string
		for _, d := range rewardDenoms {
			in := false
			for _, x := range ap {
				in = in || x == d
			}
			if !in {
				rest = append(rest, d)
			}
		}
		ns := []int{0, 0, 1, 1, 1, 2}[g.Intn(6)]
		if len(ap)+ns > maxcat && !g.Chance(1, 8) {
			ns = maxcat - len(ap)
			if ns < 0 {
				ns = 0
			}
		}
		sb := sortedSubset(g, rest, ns)
		switch g.Intn(40) {
		case 0: // self-bond only
			sb = sortedSubset(g, append(append([]string{}, ap...), sb...), len(ap)+len(sb))
			ap = nil
		case 1: // the same denom applied and self-bonded
			sb = sortedSubset(g, append(append([]string{}, sb...), ap[0]), len(sb)+1)
		}
		ds := sortedSubset(g, append(append([]string{}, ap...), sb...), len(ap)+len(sb)+1)
		if len(ds) > 1 && ds[0] == ds[1] {
			ds = ds[1:]
		}
		for i := 1; i < len(ds); i++ {
			if ds[i] == ds[i-1] {
				ds = append(ds[:i], ds[i+1:]...)
				break
			}
		}
		rpb := map[string]sdkmath.Int{}
		tot := map[string]sdkmath.Int{}
		for _, d := range ds {
			rpb[d] = smallAmt(g)
			if g.Chance(2, 3) {
				rpb[d] = sdkmath.NewInt(g.Range(1, 9))
			}
			blocks := g.Range(1, 24)
			isAp := false
			for _, x := range ap {
				isAp = isAp || x == d
			}
			if have := pool.AmountOf(d); isAp && have.IsPositive() && !g.Chance(1, 10) {
				// fit the applied budget into the community pool
				if rpb[d].GT(have) {
					rpb[d] = have
				}
				if mx := have.Quo(rpb[d]); mx.LT(sdkmath.NewInt(blocks)) {
					blocks = mx.Int64()
				}
			}
			t := rpb[d].MulRaw(blocks)
			if g.Chance(1, 3) && !isAp {
				t = t.Add(sdkmath.NewInt(g.Range(0, 5)))
			}
			switch g.Intn(90) {
			case 0:
				t = rpb[d].SubRaw(1)
			case 1:
				t = sdkmath.ZeroInt()
			case 2:
				rpb[d] = sdkmath.ZeroInt()
			case 3: // the end height overflows once the chain has moved on (handler fails at pass time)
				rpb[d] = sdkmath.OneInt()
				t = sdkmath.NewInt(9223372036854775807 - ctx.BlockHeight())
			}
			tot[d] = t
		}
		applied := coinList(ap, func(d string) sdkmath.Int { return tot[d] })
		self := coinList(sb, func(d string) sdkmath.Int { return tot[d] })
		rds := ds
		if g.Chance(1, 30) && len(ds) > 1 {
			rds = ds[:1]
		}
		proposer := []string{"A0", "A0", "A1", "A1", "A2", "A2", "A3", "A3", "A4"}[g.Intn(9)]
		thr := govmin.QuoRaw(100)
		var dep string
		switch g.Pick(10, 5, 1, 1, 1) {
		case 0:
			dep = "stake:" + govmin.String()
		case 1:
			lo := thr
			if lo.IsZero() {
				lo = sdkmath.OneInt()
			}
			dep = "stake:" + lo.Add(sdkmath.NewInt(g.Range(0, 3))).String()
		case 2:
			dep = "stake:" + thr.SubRaw(1).Abs().String()
		case 3:
			dep = "-"
		default:
			dep = "btc:" + govmin.String()
		}
		title := "t"
		if g.Chance(1, 40) {
			title = "-"
		}
		desc := []string{"-", "cp", "usdt/iris"}[g.Intn(3)]
		if g.Chance(1, 60) {
			desc = strings.Repeat("y", 281)
		}
		lpt := []string{"lpt-1", "lpt-1", "lpt-1", "lpt-1", "lpt-1", "lpt-2", "lpt-2", "lpt-2", "lpt-9"}[g.Intn(9)]
		return "farm cp_submit " + hx.KV("proposer", proposer, "title", title, "desc", desc, "lpt", lpt,
			"rpb", coinList(rds, func(d string) sdkmath.Int { return rpb[d] }), "applied", applied, "self", self, "deposit", dep)
	case 2:
		return "farm cp_pass " + hx.KV("id", pickId(liveV))
	case 3:
		return "farm cp_reject " + hx.KV("id", pickId(liveV))
	default:
		return "farm cp_faildeposit " + hx.KV("id", pickId(liveD))
	}
}

// Epilogue: every farmer withdraws everything, each at a random later height; the
// success or failure of these withdrawals is an observation (C05). Then the chain runs on
// past every pool's end so that each refund is observed (C06).
func (r *R) Epilogue(ctx sdk.Context, g *hx.Rng, emit func(line string) sdk.Context) sdk.Context {
	// gov finishes every live proposal (each escrow is settled: C06)
	for _, p := range r.proposals(ctx) {
		switch statusLetter(p.Status) {
		case "V":
			if g.Chance(1, 2) {
				ctx = emit("farm cp_pass " + hx.KV("id", p.Id, "epi", 1))
			} else {
				ctx = emit("farm cp_reject " + hx.KV("id", p.Id, "epi", 1))
			}
		case "D":
			ctx = emit("farm cp_faildeposit " + hx.KV("id", p.Id, "epi", 1))
		}
	}
	fs := r.farmers(ctx)
	// random order
	for i := len(fs) - 1; i > 0; i-- {
		j := g.Intn(i + 1)
		fs[i], fs[j] = fs[j], fs[i]
	}
	for _, f := range fs {
		if g.Chance(2, 3) {
			ctx = emit("farm end_block " + hx.KV("n", g.Range(1, 4)))
		}
		cur, ok := r.env.Farm.GetFarmInfo(ctx, f.PoolId, f.Address)
		if !ok {
			continue
		}
		p, _ := r.env.Farm.GetPool(ctx, f.PoolId)
		ctx = emit("farm unstake " + hx.KV("sender", r.sym(f.Address), "pool", f.PoolId, "amt", p.TotalLptLocked.Denom+":"+cur.Locked.String(), "epi", 1))
	}
	// run past the latest end height that is still queued (bounded)
	var last int64
	for _, q := range r.queue(ctx) {
		if int64(q.H) > last && int64(q.H)-ctx.BlockHeight() < 60 {
			last = int64(q.H)
		}
	}
	if n := last - ctx.BlockHeight() + 1; n >= 1 {
		ctx = emit("farm end_block " + hx.KV("n", n))
	}
	return ctx
}

// Run generates histories with the epilogue appended, or replays a file.
func Run(env *hx.Env, rn *R, o hx.Opts) {
	if o.Replay != "" {
		hx.RunHistories(env, rn, o)
		return
	}
	out := hx.NewOut(o.Out)
	defer out.Close()
	for i := 0; i < o.N; i++ {
		g := hx.NewRng(o.Seed*1000003 + uint64(i))
		rl := rn.ResetLine(g)
		ctx, obs := rn.Reset(env.Fork(), rl)
		out.Op(rl, obs)
		emit := func(tag string) func(l string) sdk.Context {
			return func(l string) sdk.Context {
				var ob string
				f := strings.Fields(l)
				keys := rn.branches(ctx, f)
				ctx, ob = rn.Exec(ctx, l)
				out.Op(l, ob)
				res := strings.SplitN(ob, " ", 2)[0]
				out.Count(tag + f[1] + "." + res)
				for _, k := range keys {
					out.Count(k + "." + res)
				}
				return ctx
			}
		}
		n := o.Len/2 + g.Intn(o.Len/2+1)
		for j := 0; j < n; j++ {
			emit("op.")(rn.Gen(ctx, g))
		}
		ctx = rn.Epilogue(ctx, g, emit("epilogue."))
		out.Count("histories")
	}
}

// branches names the boundary situations an operation is in (evaluated before it runs).
func (r *R) branches(pre sdk.Context, f []string) []string {
	a := hx.Args(f[2:])
	h := pre.BlockHeight()
	switch f[1] {
	case "cp_pass", "cp_reject", "cp_faildeposit":
		pid, _ := strconv.ParseUint(a["id"], 10, 64)
		st := "none"
		if p, err := r.env.App.GovKeeper.Proposals.Get(pre, pid); err == nil {
			st = statusLetter(p.Status)
		}
		_, has := r.env.Farm.GetEscrowInfo(pre, pid)
		return []string{fmt.Sprintf("branch.%s.status_%s.info_%v", f[1], st, has)}
	case "end_block":
		n, _ := strconv.ParseInt(a["n"], 10, 64)
		var keys []string
		for _, q := range r.queue(pre) {
			if p, ok := r.env.Farm.GetPool(pre, q.Id); ok && r.sym(p.Creator) == "distr" && int64(q.H) >= h && int64(q.H) < h+n {
				keys = append(keys, "branch.end_block.cp_pool_refund_due")
			}
		}
		return keys
	case "cp_submit":
		k := "applied_only"
		if a["self"] != "-" {
			k = "applied_and_self"
		}
		if a["applied"] == "-" {
			k = "self_only"
		}
		return []string{"branch.cp_submit." + k}
	}

	p, ok := r.env.Farm.GetPool(pre, a["pool"])
	if !ok {
		return nil
	}
	pos := "before_end"
	switch {
	case h > p.EndHeight:
		pos = "after_end"
	case h == p.EndHeight:
		pos = "at_end"
		if r.env.Farm.Expired(pre, p) {
			pos = "at_end_destroyed"
		}
	case h < p.StartHeight:
		pos = "before_start"
	case h == p.StartHeight:
		pos = "at_start"
	}
	keys := []string{fmt.Sprintf("branch.%s.%s", f[1], pos)}
	if r.sym(p.Creator) == "distr" {
		keys = append(keys, fmt.Sprintf("branch.cp_pool.%s.%s", f[1], pos))
	}
	if p.LastHeightDistrRewards == h && (f[1] == "stake" || f[1] == "unstake" || f[1] == "harvest") {
		keys = append(keys, "branch.same_block_interleaving")
	}
	if len(r.env.Farm.GetRewardRules(pre, p.Id)) > 1 {
		keys = append(keys, "branch.multi_denom."+f[1])
	}
	return keys
}

var _ = farmtypes.ModuleName
