package service

import (
	sdk "github.com/cosmos/cosmos-sdk/types"

	"verifharness/hx"
)

type GenState struct{}

func (r *R) ResetLine(g *hx.Rng) string { return "" }

func (r *R) Gen(ctx sdk.Context, g *hx.Rng) string { return "" }
