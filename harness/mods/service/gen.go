package service

import (
	"fmt"
	"sort"
	"strings"

	sdkmath "cosmossdk.io/math"
	sdk "github.com/cosmos/cosmos-sdk/types"
	gogotypes "github.com/cosmos/gogoproto/types"

	"mods.irisnet.org/modules/service/types"

	"verifharness/hx"
)

// GenState is generator-side memory of one history (never used by Exec).
type GenState struct {
	seenReq []string // request ids seen active at some point (for duplicate / late answers)
	seenCtx []string
	t0      int64
	pending int // remaining `next` lines of a burst
	burstDt int64
	quiesce int // C12: remaining steps of the drive towards a state whose plain export is accepted
}

var (
	provPool  = []string{"A0", "A1", "A2"}
	ownerPool = []string{"A3", "A4"}
	consPool  = []string{"A5", "A6", "A7"}
	svcPool   = []string{"s1", "s1x"} // prefix-related on purpose (BUILDING.md)
	discounts = []string{"0.5", "0.9", "0.1", "0.25", "0.333333333333333333", "0.999999999999999999", "0.000000000000000001", "0.75"}
	fractions = []string{"0", "0.05", "0.1", "0.5", "0.333333333333333333", "0.999999999999999999", "0.001", "0.01", "0.000000000000000001"}
)

func pick(g *hx.Rng, xs []string) string { return xs[g.Intn(len(xs))] }

func (r *R) ResetLine(g *hx.Rng) string {
	r.nonce = 0
	r.G = GenState{}
	h := g.Range(5, 30)
	t := g.Range(1000, 2000000000)
	r.G.t0 = t
	restricted := 0
	if g.Chance(1, 6) {
		restricted = 1
	}
	mindep := "-"
	switch g.Pick(6, 1, 1, 1) {
	case 0:
		mindep = fmt.Sprintf("%d:stake", g.Range(1, 200))
	case 1:
		mindep = "-"
	case 2:
		mindep = fmt.Sprintf("%d:dbb,%d:stake", g.Range(1, 20), g.Range(1, 100))
	default:
		mindep = fmt.Sprintf("%d:dbb", g.Range(1, 20))
	}
	tax := pick(g, fractions)
	if g.Chance(1, 4) {
		tax = fmt.Sprintf("0.%018d", g.Range(0, 999999999999999999))
	}
	slash := pick(g, fractions)
	if g.Chance(1, 5) {
		slash = "1"
	} else if g.Chance(1, 4) {
		slash = fmt.Sprintf("0.%018d", g.Range(0, 999999999999999999))
	}
	var rates []string
	if g.Chance(5, 6) {
		rates = append(rates, "dbb:"+pick(g, []string{"2.0", "0.5", "1.5", "1", "0.000000000000000001", "3.333333333333333333", "1000000"}))
	}
	if g.Chance(1, 2) {
		rates = append(rates, "dcc:"+pick(g, []string{"1.0", "0.25", "7", "0"}))
	}
	var fund []string
	for _, o := range ownerPool {
		fund = append(fund, fmt.Sprintf("%s/stake:%d", o, g.Range(0, 4)*g.Range(1000, 1000000)+g.Range(0, 20000)))
	}
	for _, c := range consPool {
		switch g.Pick(3, 3, 1) {
		case 0:
			fund = append(fund, fmt.Sprintf("%s/stake:%d", c, g.Range(0, 200)))
		case 1:
			fund = append(fund, fmt.Sprintf("%s/stake:%d", c, g.Range(100, 100000)))
		default:
			fund = append(fund, fmt.Sprintf("%s/stake:%s", c, g.Amount(100)))
		}
		if g.Chance(3, 4) {
			fund = append(fund, fmt.Sprintf("%s/dbb:%d", c, g.Range(0, 500)))
		}
		if g.Chance(1, 2) {
			fund = append(fund, fmt.Sprintf("%s/dcc:%d", c, g.Range(0, 500)))
		}
	}
	if g.Chance(1, 3) {
		fund = append(fund, fmt.Sprintf("A8/stake:%d", g.Range(1, 5000)))
	}
	return "service reset " + hx.KV("h", h, "t", t, "base", "stake", "denoms", "stake,dbb,dcc", "restricted", restricted,
		"maxto", g.Range(3, 30), "mdm", g.Range(1, 20), "mindep", mindep, "tax", tax, "slash", slash,
		"cr", g.Range(1, 100), "atl", g.Range(1, 100), "rates", hx.Dash(strings.Join(rates, ",")), "fund", strings.Join(fund, ","),
		"aord", r.AddrOrder())
}

type gBind struct {
	svc, prov, owner string
	avail            bool
	dep              sdkmath.Int
	pr               types.Pricing
	dtime            int64
}

type gCtx struct {
	id       string
	c        types.RequestContext
	consumer string
}

type gReq struct {
	id, prov string
	exp      int64
}

func (r *R) snapshot(ctx sdk.Context) (defs []string, binds []gBind, ctxs []gCtx, act []gReq, resps []string) {
	cdc := r.env.App.AppCodec()
	k := r.env.Service
	r.iter(ctx, types.ServiceDefinitionKey, func(key, v []byte) {
		var d types.ServiceDefinition
		cdc.MustUnmarshal(v, &d)
		defs = append(defs, d.Name)
	})
	r.iter(ctx, types.ServiceBindingKey, func(key, v []byte) {
		var b types.ServiceBinding
		cdc.MustUnmarshal(v, &b)
		prov, _ := sdk.AccAddressFromBech32(b.Provider)
		binds = append(binds, gBind{b.ServiceName, r.sym(b.Provider), r.sym(b.Owner), b.Available, b.Deposit.AmountOf(r.base),
			k.GetPricing(ctx, b.ServiceName, prov), b.DisabledTime.Unix()})
	})
	r.iter(ctx, types.RequestContextKey, func(key, v []byte) {
		var c types.RequestContext
		cdc.MustUnmarshal(v, &c)
		ctxs = append(ctxs, gCtx{hx.Hex(key), c, r.sym(c.Consumer)})
	})
	r.iter(ctx, types.ActiveRequestByIDKey, func(key, v []byte) {
		q, ok := k.GetCompactRequest(ctx, key)
		if ok {
			act = append(act, gReq{hx.Hex(key), r.sym(q.Provider), q.ExpirationHeight})
		}
	})
	r.iter(ctx, types.ResponseKey, func(key, v []byte) { resps = append(resps, hx.Hex(key)) })
	_ = gogotypes.BytesValue{}
	return
}

func (r *R) genPricing(g *hx.Rng, now int64) string {
	denom := "stake"
	switch g.Pick(12, 6, 2, 1) {
	case 1:
		denom = "dbb"
	case 2:
		denom = "dcc"
	case 3:
		denom = pick(g, []string{"dzz", "st", "1bad"})
	}
	if denom != "stake" && g.Chance(5, 6) {
		if _, ok := r.rates[denom]; !ok || r.env.Service.RestrictedServiceFeeDenom(r.lastCtx) {
			denom = "stake"
		}
	}
	var amt string
	switch g.Pick(8, 1, 1) {
	case 0:
		amt = fmt.Sprint(g.Range(0, 60))
	case 1:
		amt = "0"
	default:
		amt = g.Amount(90).String()
	}
	pt, pv := "-", "-"
	if g.Chance(1, 2) {
		n := 1 + g.Intn(3)
		if g.Chance(1, 100) {
			n = 6
		}
		var items []string
		cur := now - g.Range(0, 300)
		for i := 0; i < n; i++ {
			st := cur + g.Range(0, 60)
			en := st + g.Range(1, 400)
			if g.Chance(1, 120) {
				en = st - g.Range(0, 2)
			}
			d := pick(g, discounts)
			if g.Chance(1, 100) {
				d = pick(g, []string{"1.0", "0.50", "0", "1", "0.0000000000000000001"})
			}
			items = append(items, fmt.Sprintf("%d~%d~%s", st, en, d))
			cur = en
			if g.Chance(1, 100) {
				cur = st // overlapping next window
			}
		}
		pt = strings.Join(items, ";")
	}
	if g.Chance(2, 5) {
		n := 1 + g.Intn(3)
		var items []string
		v := g.Range(1, 3)
		for i := 0; i < n; i++ {
			d := pick(g, discounts)
			items = append(items, fmt.Sprintf("%d~%s", v, d))
			v += g.Range(0, 3)
			if g.Chance(1, 100) {
				v = 0
			}
		}
		pv = strings.Join(items, ";")
	}
	pj := 1
	if g.Chance(1, 100) {
		pj = 0
	}
	return hx.KV("price", amt+":"+denom, "ptime", pt, "pvol", pv, "pjson", pj)
}

func (r *R) pricingOf(a string) (types.Pricing, bool) {
	p, err := types.ParsePricing(pricingJSON(hx.Args(strings.Fields(a))))
	return p, err == nil
}

// depositFor chooses a deposit around the minimum deposit of the pricing
func (r *R) depositFor(ctx sdk.Context, g *hx.Rng, pricing string, already sdkmath.Int) string {
	if g.Chance(1, 25) {
		return pick(g, []string{"-", "5:dbb", "0:stake", "1:dbb,1:stake", "3:stake,2:dbb"})
	}
	min := sdkmath.NewInt(g.Range(1, 500))
	if p, ok := r.pricingOf(pricing); ok && len(p.Price) > 0 {
		func() {
			defer func() { _ = recover() }()
			if md, err := r.env.Service.GetMinDeposit(ctx, p); err == nil {
				min = md.AmountOf(r.base)
			}
		}()
	}
	need := min.Sub(already)
	if !need.IsPositive() {
		need = sdkmath.NewInt(g.Range(1, 50))
	}
	switch g.Pick(6, 3, 1, 1) {
	case 1:
		need = need.AddRaw(g.Range(1, 300))
	case 2:
		if need.GT(sdkmath.OneInt()) {
			need = need.SubRaw(1)
		}
	case 3:
		need = need.MulRaw(g.Range(2, 10))
	}
	return need.String() + ":stake"
}

func (r *R) Gen(ctx sdk.Context, g *hx.Rng) string {
	r.lastCtx = ctx
	if r.G.pending > 0 {
		r.G.pending--
		return "service next " + hx.KV("dt", r.G.burstDt)
	}
	defs, binds, ctxs, act, resps := r.snapshot(ctx)
	if r.Genesis && r.G.quiesce > 0 {
		// C12: drive towards a state the plain export accepts (every context paused, its batch completed):
		// pause what is running and repeated, let blocks pass until one-shot contexts and open batches are gone
		r.G.quiesce--
		live := false
		for _, c := range ctxs {
			if c.c.Repeated && c.c.State == types.RUNNING {
				if c.c.ModuleName != "" {
					return "service mpause " + hx.KV("consumer", c.consumer, "ctx", c.id)
				}
				return "service pause " + hx.KV("consumer", c.consumer, "ctx", c.id)
			}
			if c.c.State != types.PAUSED || c.c.BatchState != types.BATCHCOMPLETED {
				live = true
			}
		}
		if live && r.G.quiesce > 0 {
			return "service next " + hx.KV("dt", 5)
		}
		r.G.quiesce = 0
		if g.Chance(1, 4) {
			return "service export"
		}
		return "service reimport"
	}
	if r.Genesis && g.Chance(1, 14) {
		// C12: the genesis round trip, as-is and after the module's prepare-for-zero-height step
		switch g.Pick(2, 3, 3, 2) {
		case 0:
			return "service export"
		case 1:
			return "service reimport"
		case 2:
			return "service prep_reimport"
		default:
			r.G.quiesce = 45
			return "service export"
		}
	}
	now := ctx.BlockTime().Unix()
	acc := func() string { return hx.AccName(g.Intn(NAcc)) }
	svc := func() string {
		if g.Chance(1, 25) {
			return pick(g, []string{"s3", "1bad", "oracle-price"})
		}
		if len(defs) > 0 && g.Chance(19, 20) {
			return defs[g.Intn(len(defs))]
		}
		return pick(g, svcPool)
	}
	pickBind := func() (gBind, bool) {
		if len(binds) == 0 {
			return gBind{svc: svc(), prov: pick(g, provPool), owner: pick(g, ownerPool), dep: sdkmath.ZeroInt()}, false
		}
		return binds[g.Intn(len(binds))], true
	}
	owner := func(b gBind) string {
		if g.Chance(1, 8) {
			return acc()
		}
		return b.owner
	}
	w := []int{1, 6, 3, 1, 2, 2, 2, 8, 3, 24, 6, 5, 2, 3, 1, 10, 3}
	if len(defs) == 0 {
		w[0] = 30
		w[1], w[7], w[8] = 2, 2, 1
	} else if len(defs) < 2 {
		w[0] = 6
	}
	if len(binds) < 3 {
		w[1] = 25
	} else if len(binds) >= 5 {
		w[1] = 2
	}
	if len(act) == 0 {
		w[9] = 1
		w[7], w[8] = 12, 5
	}
	if len(ctxs) == 0 {
		w[11], w[12], w[13] = 1, 1, 1
	}
	kind := g.Pick(w...)
	switch kind {
	case 0:
		name := pick(g, svcPool)
		for i := 0; i < 4; i++ {
			dup := false
			for _, d := range defs {
				if d == name {
					dup = true
				}
			}
			if !dup || g.Chance(1, 6) {
				break
			}
			name = pick(g, []string{"s1", "s1x", "s3"})
		}
		if g.Chance(1, 10) {
			name = pick(g, []string{"1bad", "-", "s_3-x", "s3"})
		}
		sch := 1
		if g.Chance(1, 15) {
			sch = 0
		}
		return "service define " + hx.KV("sender", acc(), "name", name, "sch", sch)
	case 1:
		prov := pick(g, provPool)
		if g.Chance(1, 12) {
			prov = acc()
		}
		own := pick(g, ownerPool)
		for _, b := range binds {
			if b.prov == prov && g.Chance(9, 10) {
				own = b.owner
			}
		}
		sv := svc()
		for i := 0; i < 6; i++ {
			taken := false
			for _, b := range binds {
				if b.prov == prov && b.svc == sv {
					taken = true
				}
			}
			if !taken || g.Chance(1, 15) {
				break
			}
			prov, sv = pick(g, provPool), svc()
		}
		for _, b := range binds {
			if b.prov == prov && g.Chance(14, 15) {
				own = b.owner
			}
		}
		pr := r.genPricing(g, now)
		maxto := r.env.Service.MaxRequestTimeout(ctx)
		qos := g.Range(1, maxto)
		if g.Chance(4, 5) {
			qos = g.Range(1, 3)
		}
		if g.Chance(1, 25) {
			qos = g.Range(0, 40)
		}
		opts := 1
		if g.Chance(1, 30) {
			opts = 0
		}
		return "service bind " + hx.KV("owner", own, "provider", prov, "svc", sv, "dep", r.depositFor(ctx, g, pr, sdkmath.ZeroInt()), "qos", qos) + " " + pr + " " + hx.KV("opts", opts)
	case 2:
		b, _ := pickBind()
		pr := hx.KV("price", "-", "ptime", "-", "pvol", "-", "pjson", 1)
		dep := "-"
		if g.Chance(1, 2) {
			pr = r.genPricing(g, now)
			if g.Chance(2, 3) {
				dep = r.depositFor(ctx, g, pr, b.dep)
			}
		} else if g.Chance(1, 2) {
			dep = fmt.Sprintf("%d:stake", g.Range(1, 300))
		}
		qos := int64(0)
		if g.Chance(1, 3) {
			qos = g.Range(1, 35)
		}
		opts := "-"
		if g.Chance(1, 5) {
			opts = pick(g, []string{"1", "1", "0"})
		}
		return "service update_binding " + hx.KV("owner", owner(b), "provider", b.prov, "svc", b.svc, "dep", dep, "qos", qos) + " " + pr + " " + hx.KV("opts", opts)
	case 3:
		addr := pick(g, []string{"A8", "A9", "A3", "A4", "A0"})
		if g.Chance(1, 8) {
			addr = pick(g, []string{"Mblk", "xx"})
		}
		return "service set_withdraw " + hx.KV("owner", pick(g, ownerPool), "addr", addr)
	case 4:
		b, ok := pickBind()
		for i := 0; i < 12 && ok && b.avail; i++ {
			b, _ = pickBind()
		}
		dep := "-"
		if g.Chance(2, 3) {
			dep = r.depositFor(ctx, g, "", b.dep)
			if ok && len(b.pr.Price) > 0 {
				func() {
					defer func() { _ = recover() }()
					if md, err := r.env.Service.GetMinDeposit(ctx, b.pr); err == nil {
						need := md.AmountOf(r.base).Sub(b.dep)
						if need.IsPositive() {
							if g.Chance(1, 4) && need.GT(sdkmath.OneInt()) {
								need = need.SubRaw(1)
							}
							dep = need.String() + ":stake"
						}
					}
				}()
			}
		}
		return "service enable " + hx.KV("owner", owner(b), "provider", b.prov, "svc", b.svc, "dep", dep)
	case 5:
		b, ok := pickBind()
		for i := 0; i < 6 && ok && !b.avail; i++ {
			b, _ = pickBind()
		}
		return "service disable " + hx.KV("owner", owner(b), "provider", b.prov, "svc", b.svc)
	case 6:
		b, ok := pickBind()
		for i := 0; i < 12 && ok && (b.avail || b.dep.IsZero()); i++ {
			b, _ = pickBind()
		}
		if ok && b.avail && g.Chance(3, 4) {
			return "service disable " + hx.KV("owner", owner(b), "provider", b.prov, "svc", b.svc)
		}
		return "service refund_deposit " + hx.KV("owner", owner(b), "provider", b.prov, "svc", b.svc)
	case 7, 8:
		isMod := false
		if kind == 8 || g.Chance(1, 6) {
			isMod = true
		}
		s := svc()
		var ps []string
		for _, b := range binds {
			if b.svc == s && g.Chance(3, 4) {
				ps = append(ps, b.prov)
			}
		}
		if len(ps) == 0 || g.Chance(1, 10) {
			x := pick(g, provPool)
			dup := false
			for _, y := range ps {
				if x == y {
					dup = true
				}
			}
			if !dup {
				ps = append(ps, x)
			}
		}
		if g.Chance(1, 30) {
			ps = append(ps, ps[0])
		}
		if g.Chance(1, 40) {
			ps = nil
		}
		if g.Chance(1, 3) { // listed order matters for request indices
			sort.Sort(sort.Reverse(sort.StringSlice(ps)))
		}
		cap := fmt.Sprintf("%d:stake", g.Range(1, 120))
		if g.Chance(1, 2) {
			cap = fmt.Sprintf("%d:stake", g.Range(100, 400))
		}
		switch g.Pick(12, 3, 1, 2) {
		case 1:
			cap = g.Amount(95).String() + ":stake"
		case 2:
			cap = pick(g, []string{"-", "5:dbb", "0:stake", "1:dbb,1:stake"})
		case 3:
			for _, b := range binds {
				if b.svc == s && len(b.pr.Price) > 0 && b.pr.Price[0].Amount.IsPositive() && b.pr.Price[0].Amount.BigInt().BitLen() < 60 {
					cap = fmt.Sprintf("%d:stake", b.pr.Price[0].Amount.Int64()+g.Range(-1, 1))
					if strings.HasPrefix(cap, "0:") || strings.HasPrefix(cap, "-") {
						cap = "1:stake"
					}
				}
			}
		}
		maxto := r.env.Service.MaxRequestTimeout(ctx)
		timeout := g.Range(1, 8)
		if g.Chance(2, 3) {
			timeout = g.Range(3, 8)
		}
		if timeout > maxto {
			timeout = g.Range(1, maxto)
		}
		if g.Chance(1, 25) {
			timeout = g.Range(-1, 35)
		}
		rep, freq, total := 0, int64(0), int64(0)
		if g.Chance(1, 2) {
			rep = 1
			freq = 0
			if g.Chance(2, 3) {
				freq = timeout + g.Range(0, 4)
			}
			if g.Chance(1, 20) && timeout > 1 {
				freq = timeout - 1
			}
			total = g.Range(1, 4)
			switch g.Pick(8, 2, 1) {
			case 1:
				total = -1
			case 2:
				total = g.Range(-2, 0)
			}
			if freq < 0 {
				freq = 0
			}
		} else if g.Chance(1, 10) {
			freq, total = g.Range(0, 5), g.Range(0, 3)
		}
		in := 1
		if g.Chance(1, 30) {
			in = 0
		}
		r.nonce++
		cons := pick(g, consPool)
		if g.Chance(1, 15) {
			cons = acc()
		}
		if !isMod {
			return "service call " + hx.KV("consumer", cons, "svc", s, "providers", hx.Dash(strings.Join(ps, ",")), "cap", cap,
				"timeout", timeout, "repeated", rep, "freq", freq, "total", total, "input", in, "tx", fmt.Sprintf("n%d", r.nonce))
		}
		thr := g.Range(1, int64(len(ps)))
		if g.Chance(1, 12) {
			thr = g.Range(0, int64(len(ps))+1)
		}
		st := "running"
		if g.Chance(1, 4) {
			st = "paused"
		}
		mod := CbMod
		if g.Chance(1, 25) {
			mod = "ghost"
		}
		if ps == nil {
			ps = []string{}
		}
		return "service mcall " + hx.KV("consumer", cons, "svc", s, "providers", hx.Dash(strings.Join(ps, ",")), "cap", cap,
			"timeout", timeout, "repeated", rep, "freq", freq, "total", total, "input", in, "tx", fmt.Sprintf("n%d", r.nonce),
			"state", st, "thr", thr, "mod", mod)
	case 9:
		var q gReq
		switch {
		case len(act) > 0 && g.Chance(14, 15):
			q = act[g.Intn(len(act))]
		case len(resps) > 0 && g.Chance(1, 2):
			q = gReq{id: resps[g.Intn(len(resps))], prov: pick(g, provPool)}
			if rq, ok := r.env.Service.GetCompactRequest(ctx, unhex(q.id)); ok {
				q.prov = r.sym(rq.Provider)
			}
		case len(r.G.seenReq) > 0:
			q = gReq{id: r.G.seenReq[g.Intn(len(r.G.seenReq))], prov: pick(g, provPool)}
		default:
			q = gReq{id: strings.Repeat("ab", 58), prov: pick(g, provPool)}
		}
		prov := q.prov
		if g.Chance(1, 8) {
			prov = acc()
		}
		code, out, res := 200, "good", 1
		switch g.Pick(30, 6, 1, 1, 1, 1) {
		case 1:
			code, out = pick2(g, 400, 500), "none"
		case 2:
			code, out = 200, "none"
		case 3:
			code, out = 400, "good"
		case 4:
			out = "bad"
		case 5:
			res = 0
		}
		id := q.id
		if g.Chance(1, 40) {
			id = id[:len(id)-2]
		}
		return "service respond " + hx.KV("provider", prov, "req", id, "code", code, "out", out, "res", res)
	case 10:
		own := pick(g, ownerPool)
		if g.Chance(1, 10) {
			own = acc()
		}
		prov := pick(g, provPool)
		if len(binds) > 0 && g.Chance(9, 10) {
			b := binds[g.Intn(len(binds))]
			for i := 0; i < 8; i++ {
				if e, _ := r.env.Service.GetEarnedFees(ctx, r.addr(b.prov)); !e.IsZero() {
					break
				}
				b = binds[g.Intn(len(binds))]
			}
			own, prov = b.owner, b.prov
		}
		if g.Chance(1, 12) {
			own = acc()
		}
		if g.Chance(1, 6) {
			// keeper-level withdrawal of everything the owner earned: only when the owner-side tally is intact
			if r.talliesAgree(ctx, own) {
				return "service withdraw_k " + hx.KV("owner", own, "provider", "-")
			}
			return "service withdraw " + hx.KV("owner", own, "provider", "-")
		}
		return "service withdraw " + hx.KV("owner", own, "provider", prov)
	case 11:
		c, consumer := r.pickCtxWhere(g, ctxs, false)
		if g.Chance(1, 8) {
			consumer = acc()
		}
		op := pick(g, []string{"pause", "pause", "start", "start", "kill"})
		for _, x := range ctxs {
			if x.id == c && g.Chance(5, 6) {
				if x.c.State == types.PAUSED {
					op = "start"
				} else if x.c.State == types.RUNNING && x.c.Repeated {
					op = pick(g, []string{"pause", "pause", "pause", "kill"})
				}
			}
		}
		return "service " + op + " " + hx.KV("consumer", consumer, "ctx", c)
	case 12:
		c, consumer := r.pickCtxWhere(g, ctxs, false)
		if g.Chance(1, 8) {
			consumer = acc()
		}
		ps := "-"
		if g.Chance(1, 3) {
			ps = strings.Join(provPool[:1+g.Intn(3)], ",")
		}
		cap := "-"
		if g.Chance(1, 3) {
			cap = fmt.Sprintf("%d:stake", g.Range(1, 100))
		}
		timeout, freq, total := int64(0), int64(0), int64(0)
		if g.Chance(1, 3) {
			timeout = g.Range(0, 8)
		}
		if g.Chance(1, 3) {
			freq = g.Range(0, 12)
		}
		if g.Chance(1, 3) {
			total = g.Range(-1, 6)
		}
		return "service update_ctx " + hx.KV("consumer", consumer, "ctx", c, "providers", ps, "cap", cap, "timeout", timeout, "freq", freq, "total", total)
	case 13:
		c, consumer := r.pickCtxWhere(g, ctxs, true)
		if len(c) != 80 {
			c = strings.Repeat("0", 80)
		}
		if g.Chance(1, 8) {
			consumer = acc()
		}
		if g.Chance(1, 4) {
			return "service mupdate " + hx.KV("consumer", consumer, "ctx", c, "providers", "-", "thr", g.Range(0, 3), "cap", "-", "timeout", g.Range(0, 5), "freq", g.Range(0, 9), "total", g.Range(-1, 5))
		}
		op := pick(g, []string{"mpause", "mstart", "mstart", "mkill"})
		for _, x := range ctxs {
			if x.id == c && g.Chance(5, 6) {
				if x.c.State == types.PAUSED {
					op = "mstart"
				} else if x.c.State == types.RUNNING && x.c.Repeated {
					op = pick(g, []string{"mpause", "mpause", "mpause", "mkill"})
				}
			}
		}
		return "service " + op + " " + hx.KV("consumer", consumer, "ctx", c)
	case 14:
		d := pick(g, []string{"dbb", "dcc"})
		rate := pick(g, []string{"-", "2.0", "0.5", "1", "0", "4.25"})
		return "service set_rate " + hx.KV("denom", d, "rate", rate)
	case 15:
		return "service next " + hx.KV("dt", g.Range(1, 120))
	default:
		// a burst of consecutive blocks (one observation per block, so the monitors see every block)
		r.G.pending = int(g.Range(1, 7))
		r.G.burstDt = g.Range(1, 60)
		return "service next " + hx.KV("dt", r.G.burstDt)
	}
}

func pick2(g *hx.Rng, a, b int) int {
	if g.Chance(1, 2) {
		return a
	}
	return b
}

// pickCtxWhere prefers contexts owned by a module (or not), interesting ones (repeated / paused) first
func (r *R) pickCtxWhere(g *hx.Rng, ctxs []gCtx, module bool) (string, string) {
	var sel, hot []gCtx
	for _, c := range ctxs {
		if (len(c.c.ModuleName) > 0) == module {
			sel = append(sel, c)
			if c.c.Repeated || c.c.State == types.PAUSED {
				hot = append(hot, c)
			}
		}
	}
	if len(hot) > 0 && g.Chance(4, 5) {
		c := hot[g.Intn(len(hot))]
		return c.id, c.consumer
	}
	if len(sel) > 0 && g.Chance(7, 8) {
		c := sel[g.Intn(len(sel))]
		return c.id, c.consumer
	}
	return r.pickCtx(g, ctxs)
}

func (r *R) pickCtx(g *hx.Rng, ctxs []gCtx) (string, string) {
	for _, c := range ctxs {
		known := false
		for _, s := range r.G.seenCtx {
			if s == c.id {
				known = true
			}
		}
		if !known && len(r.G.seenCtx) < 100 {
			r.G.seenCtx = append(r.G.seenCtx, c.id)
		}
	}
	if len(ctxs) > 0 && g.Chance(9, 10) {
		c := ctxs[g.Intn(len(ctxs))]
		return c.id, c.consumer
	}
	if len(r.G.seenCtx) > 0 && g.Chance(2, 3) {
		return r.G.seenCtx[g.Intn(len(r.G.seenCtx))], pick(g, consPool)
	}
	if g.Chance(1, 3) {
		return "abc", pick(g, consPool)
	}
	return strings.Repeat("cd", 40), pick(g, consPool)
}

// talliesAgree: the owner's earned-fee entries equal the sum of its providers' entries
func (r *R) talliesAgree(ctx sdk.Context, owner string) bool {
	k := r.env.Service
	oa, ok := r.addrs[owner]
	if !ok {
		return false
	}
	oe, _ := k.GetOwnerEarnedFees(ctx, oa)
	sum := sdk.NewCoins()
	it := k.OwnerProvidersIterator(ctx, oa)
	defer it.Close()
	for ; it.Valid(); it.Next() {
		p := sdk.AccAddress(it.Key()[21:])
		e, _ := k.GetEarnedFees(ctx, p)
		sum = sum.Add(e...)
	}
	return sum.Equal(oe)
}
