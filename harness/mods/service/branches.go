package service

import (
	"strings"

	"verifharness/hx"
)

func count(s string) int {
	if s == "-" || s == "" {
		return 0
	}
	return len(strings.Split(s, ","))
}

func balOf(bals, key string) string {
	for _, e := range strings.Split(bals, ",") {
		if strings.HasPrefix(e, key+":") {
			return e[len(key)+1:]
		}
	}
	return "0"
}

// Branches names the property-relevant branches one step went through (coverage counters of
// the evidence), judged from the operation line and the observations before and after it.
func Branches(op, pre, post string) []string {
	f := strings.Fields(op)
	if len(f) < 2 {
		return nil
	}
	a, b := hx.Args(strings.Fields(pre)), hx.Args(strings.Fields(post))
	ok := strings.HasPrefix(post, "ok ")
	var out []string
	add := func(k string) { out = append(out, "br."+k) }
	switch f[1] {
	case "next":
		for _, e := range strings.Split(b["act"], ",") {
			if e != "-" && !strings.Contains(a["act"], e) {
				add("request-created")
			}
		}
		if count(a["act"]) > 0 && count(b["act"]) < count(a["act"]) {
			add("requests-expired")
		}
		if balOf(a["bals"], "Mfc/stake") != balOf(b["bals"], "Mfc/stake") {
			add("slash-moved-funds")
		}
		if strings.Contains(b["cb"], "resp/") {
			add("callback-resp")
			for _, e := range strings.Split(b["cb"], ",") {
				if strings.HasPrefix(e, "resp/") && strings.HasSuffix(e, "/1") {
					add("callback-resp-below-threshold")
				} else if strings.HasPrefix(e, "resp/") {
					add("callback-resp-threshold-met")
				}
			}
		}
		if strings.Contains(b["cb"], "state/") {
			add("callback-state-autopause")
		}
		if count(b["ctxs"]) < count(a["ctxs"]) {
			add("context-removed")
		}
		if a["newq"] != "-" && b["newq"] == a["newq"] {
			add("newq-entry-survived-block")
		}
	case "respond":
		if ok {
			add("respond-accepted")
			if b["earned"] != a["earned"] {
				add("respond-earned-fee")
			}
			if strings.Contains(b["cb"], "resp/") {
				add("callback-resp-on-respond")
				if strings.HasSuffix(b["cb"], "/0") {
					add("callback-resp-threshold-met")
				}
			}
		}
	case "withdraw", "withdraw_k":
		if ok && a["earned"] != b["earned"] {
			add("withdraw-paid")
		}
		if ok && a["earned"] != b["earned"] && count(b["oearned"]) > 0 && count(b["oearned"]) >= count(a["oearned"]) && count(b["earned"]) < count(a["earned"]) {
			add("withdraw-owner-tally-kept-entries")
		}
	case "refund_deposit", "enable", "bind":
		if ok {
			add(f[1] + "-accepted")
		}
	}
	return out
}
