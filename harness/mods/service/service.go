// Package service drives the real service module (message router, keeper, real
// Begin/EndBlocker) for C07 (ledger), C08 (request automaton / scheduler) and the
// service slice of C13 (queue hygiene).
//
// Outside the model and replaced by fixed, per-line choices (see DESIGN.md C07/C08):
//   - JSON-schema validation of schemas / inputs / outputs / results / options: every
//     payload is one of a few constants known valid or invalid, selected by a flag of the
//     op line;
//   - the exchange-rate oracle: the module service "oracle" (oracle keeper's
//     ModuleServiceRequest, host-clock dependent) is replaced through the exported
//     Keeper.SetModuleService by a table lookup (`rates=` of the reset line, `set_rate`);
//   - genesis round trips (C12), ops `export` / `reimport` / `prep_reimport`: the real ExportGenesis,
//     ValidateGenesis, InitGenesis (module store wiped first) and PrepForZeroHeightGenesis on a cache
//     context, a panic captured; the exported document is rendered in its own order;
//   - a recording callback module "verifcb" is registered with the service keeper the same
//     way the oracle and random keepers register theirs; every invocation is part of the
//     observation of the operation during which it fired.
package service

import (
	"encoding/binary"
	"fmt"
	"os"
	"sort"
	"strconv"
	"strings"
	"time"

	sdkmath "cosmossdk.io/math"
	storetypes "cosmossdk.io/store/types"
	tmbytes "github.com/cometbft/cometbft/libs/bytes"
	sdk "github.com/cosmos/cosmos-sdk/types"
	authtypes "github.com/cosmos/cosmos-sdk/x/auth/types"
	gogotypes "github.com/cosmos/gogoproto/types"

	svc "mods.irisnet.org/modules/service"
	"mods.irisnet.org/modules/service/types"

	"verifharness/hx"
)

const (
	NAcc    = 10
	CbMod   = "verifcb"
	zeroT   = int64(-62135596800) // time.Time{}.Unix()
	okInput = `{"header":{},"body":{}}`
	badInp  = `{"body":{}}`
	okOut   = `{"header":{},"body":{"v":1}}`
	badOut  = `{"body":{}}`
	okSch   = `{"input":{"type":"object"},"output":{"type":"object"}}`
)

type R struct {
	env     *hx.Env
	key     storetypes.StoreKey
	names   map[string]string // bech32 -> symbolic
	addrs   map[string]sdk.AccAddress
	rates   map[string]string // quote denom -> rate string (to the base denom)
	base    string
	den     []string
	cb      []string
	nonce   int
	lastCtx sdk.Context
	G       GenState
	Genesis bool // generate the genesis round-trip ops (C12 runs only)
}

func New(env *hx.Env) *R {
	r := &R{env: env, names: map[string]string{}, addrs: map[string]sdk.AccAddress{}, rates: map[string]string{}}
	r.key = env.App.GetKey(types.StoreKey)
	for i := 0; i < NAcc; i++ {
		r.reg(hx.AccName(i), hx.Acc(i))
	}
	r.reg("Mdep", authtypes.NewModuleAddress(types.DepositAccName))
	r.reg("Mreq", authtypes.NewModuleAddress(types.RequestAccName))
	r.reg("Mfc", authtypes.NewModuleAddress(types.FeeCollectorName))
	r.reg("Mblk", authtypes.NewModuleAddress(authtypes.FeeCollectorName))
	// one registration per application instance; the closures always talk to the latest runner built on it
	if _, seen := current[env]; !seen {
		install(env)
	}
	current[env] = r
	return r
}

// current maps an application instance to the runner its callbacks and rate table belong to
var current = map[*hx.Env]*R{}

// install registers, once per application instance, the recording callback module (the way the
// oracle and random keepers register theirs) and the exchange-rate table that stands in for the
// oracle module's module service.
func install(env *hx.Env) {
	if err := env.Service.RegisterResponseCallback(CbMod, func(ctx sdk.Context, id tmbytes.HexBytes, outs []string, err error) {
		e := 0
		if err != nil {
			e = 1
		}
		r := current[env]
		r.cb = append(r.cb, fmt.Sprintf("resp/%s/%d/%d", hx.Hex(id), len(outs), e))
	}); err != nil {
		hx.Fail("register response callback: %v", err)
	}
	if err := env.Service.RegisterStateCallback(CbMod, func(ctx sdk.Context, id tmbytes.HexBytes, cause string) {
		r := current[env]
		r.cb = append(r.cb, fmt.Sprintf("state/%s/%s", hx.Hex(id), strings.ReplaceAll(cause, " ", "_")))
	}); err != nil {
		hx.Fail("register state callback: %v", err)
	}
	env.Service.SetModuleService(types.RegisterModuleName, &types.ModuleService{
		ServiceName: types.OraclePriceServiceName,
		Provider:    types.OraclePriceServiceProvider,
		ReuquestService: func(ctx sdk.Context, input string) (string, string) {
			// input is `{"header":{},"body":{"pair":"<quote>-<base>"}` (sic, as the keeper builds it)
			i := strings.Index(input, `"pair":"`)
			if i < 0 {
				return `{"code":400,"message":"bad input"}`, ""
			}
			rest := input[i+8:]
			j := strings.Index(rest, `"`)
			pair := rest[:j]
			k := strings.LastIndex(pair, "-")
			quote := pair[:k]
			rate, ok := current[env].rates[quote]
			if !ok {
				return `{"code":400,"message":"feed not found"}`, ""
			}
			return `{"code":200,"message":""}`, fmt.Sprintf(`{"header":{},"body":{"rate":"%s"}}`, rate)
		},
	})
}

// State is the canonical projection of the module state the observation lines carry (hx.Stater).
func (r *R) State(ctx sdk.Context) string { return r.state(ctx) }

func (r *R) reg(name string, a sdk.AccAddress) {
	r.names[a.String()] = name
	r.addrs[name] = a
}

func (r *R) Module() string { return "service" }

func (r *R) sym(bech string) string {
	if s, ok := r.names[bech]; ok {
		return s
	}
	return bech
}

func (r *R) symA(a sdk.AccAddress) string { return r.sym(a.String()) }

func (r *R) addr(sym string) sdk.AccAddress {
	if a, ok := r.addrs[sym]; ok {
		return a
	}
	hx.Fail("unknown account %q", sym)
	return nil
}

func (r *R) bech(sym string) string {
	if sym == "-" || sym == "" {
		return ""
	}
	if a, ok := r.addrs[sym]; ok {
		return a.String()
	}
	return sym // malformed address on purpose
}

// ---------------------------------------------------------------- parsing helpers

func i64(s string) int64 {
	v, err := strconv.ParseInt(s, 10, 64)
	if err != nil {
		hx.Fail("bad int %q", s)
	}
	return v
}

func u64(s string) uint64 {
	v, err := strconv.ParseUint(s, 10, 64)
	if err != nil {
		hx.Fail("bad uint %q", s)
	}
	return v
}

// coins parses `-` | `amt:denom,amt:denom` into a literal (unsanitised) sdk.Coins
func coins(s string) sdk.Coins {
	if s == "-" || s == "" {
		return nil
	}
	var out sdk.Coins
	for _, e := range strings.Split(s, ",") {
		p := strings.SplitN(e, ":", 2)
		if len(p) != 2 {
			hx.Fail("bad coin %q", e)
		}
		out = append(out, sdk.Coin{Denom: p[1], Amount: hx.MustInt(p[0])})
	}
	return out
}

func coinsStr(c sdk.Coins) string {
	if len(c) == 0 {
		return "-"
	}
	var p []string
	for _, x := range c {
		p = append(p, x.Amount.String()+"/"+x.Denom)
	}
	return strings.Join(p, "+")
}

func rfc(sec int64) string { return time.Unix(sec, 0).UTC().Format(time.RFC3339) }

// pricingJSON builds the pricing document from the structured fields of the op line
func pricingJSON(a map[string]string) string {
	if a["price"] == "-" || a["price"] == "" {
		return ""
	}
	if a["pjson"] == "0" {
		return `{"price":`
	}
	p := strings.SplitN(a["price"], ":", 2)
	var sb strings.Builder
	fmt.Fprintf(&sb, `{"price":"%s%s"`, p[0], p[1])
	if pt := a["ptime"]; pt != "" && pt != "-" {
		sb.WriteString(`,"promotions_by_time":[`)
		for i, e := range strings.Split(pt, ";") {
			f := strings.Split(e, "~")
			if i > 0 {
				sb.WriteByte(',')
			}
			fmt.Fprintf(&sb, `{"start_time":"%s","end_time":"%s","discount":"%s"}`, rfc(i64(f[0])), rfc(i64(f[1])), f[2])
		}
		sb.WriteString("]")
	}
	if pv := a["pvol"]; pv != "" && pv != "-" {
		sb.WriteString(`,"promotions_by_volume":[`)
		for i, e := range strings.Split(pv, ";") {
			f := strings.Split(e, "~")
			if i > 0 {
				sb.WriteByte(',')
			}
			fmt.Fprintf(&sb, `{"volume":%s,"discount":"%s"}`, f[0], f[1])
		}
		sb.WriteString("]")
	}
	sb.WriteString("}")
	return sb.String()
}

func (r *R) provList(s string) []string {
	if s == "-" || s == "" {
		return nil
	}
	var out []string
	for _, p := range strings.Split(s, ",") {
		out = append(out, r.bech(p))
	}
	return out
}

func (r *R) provAddrs(s string) []sdk.AccAddress {
	if s == "-" || s == "" {
		return nil
	}
	var out []sdk.AccAddress
	for _, p := range strings.Split(s, ",") {
		out = append(out, r.addr(p))
	}
	return out
}

// ---------------------------------------------------------------- reset

func (r *R) Reset(ctx sdk.Context, line string) (sdk.Context, string) {
	f := strings.Fields(line)
	a := hx.Args(f[2:])
	ctx = hx.WithBlock(ctx, i64(a["h"]), time.Unix(i64(a["t"]), 0).UTC())
	r.base = a["base"]
	r.den = strings.Split(a["denoms"], ",")
	r.rates = map[string]string{}
	if a["rates"] != "-" && a["rates"] != "" {
		for _, e := range strings.Split(a["rates"], ",") {
			p := strings.SplitN(e, ":", 2)
			r.rates[p[0]] = p[1]
		}
	}
	p := types.Params{
		MaxRequestTimeout:         i64(a["maxto"]),
		MinDepositMultiple:        i64(a["mdm"]),
		MinDeposit:                coins(a["mindep"]),
		ServiceFeeTax:             sdkmath.LegacyMustNewDecFromStr(a["tax"]),
		SlashFraction:             sdkmath.LegacyMustNewDecFromStr(a["slash"]),
		ComplaintRetrospect:       time.Duration(i64(a["cr"])) * time.Second,
		ArbitrationTimeLimit:      time.Duration(i64(a["atl"])) * time.Second,
		TxSizeLimit:               4000,
		BaseDenom:                 r.base,
		RestrictedServiceFeeDenom: a["restricted"] == "1",
	}
	if err := r.env.Service.SetParams(ctx, p); err != nil {
		hx.Fail("reset: SetParams rejected %v", err)
	}
	if a["fund"] != "-" && a["fund"] != "" {
		for _, e := range strings.Split(a["fund"], ",") {
			p := strings.SplitN(e, ":", 2)
			q := strings.SplitN(p[0], "/", 2)
			r.env.Fund(ctx, r.addr(q[0]), sdk.NewCoins(sdk.NewCoin(q[1], hx.MustInt(p[1]))))
		}
	}
	svc.BeginBlocker(ctx, r.env.Service)
	r.cb = nil
	return ctx, "ok " + r.state(ctx)
}

// ---------------------------------------------------------------- state rendering

func (r *R) iter(ctx sdk.Context, prefix []byte, f func(k, v []byte)) {
	st := ctx.KVStore(r.key)
	it := storetypes.KVStorePrefixIterator(st, prefix)
	defer it.Close()
	for ; it.Valid(); it.Next() {
		f(it.Key()[len(prefix):], it.Value())
	}
}

func decStr(d sdkmath.LegacyDec) string { return d.String() }

func (r *R) pricingStr(p types.Pricing) string {
	var pt, pv []string
	for _, x := range p.PromotionsByTime {
		pt = append(pt, fmt.Sprintf("%d~%d~%s", x.StartTime.Unix(), x.EndTime.Unix(), decStr(x.Discount)))
	}
	for _, x := range p.PromotionsByVolume {
		pv = append(pv, fmt.Sprintf("%d~%s", x.Volume, decStr(x.Discount)))
	}
	price := "-"
	if len(p.Price) > 0 {
		var q []string
		for _, c := range p.Price {
			q = append(q, c.Amount.String()+"/"+c.Denom)
		}
		price = strings.Join(q, "+")
	}
	return price + ":" + hx.Dash(strings.Join(pt, ";")) + ":" + hx.Dash(strings.Join(pv, ";"))
}

func splitStrs(k []byte) []string { return strings.Split(string(k), "\x00") }

func join(xs []string) string {
	sort.Strings(xs)
	return hx.Dash(strings.Join(xs, ","))
}

func b2i(b bool) int {
	if b {
		return 1
	}
	return 0
}

func (r *R) state(ctx sdk.Context) string {
	k := r.env.Service
	cdc := r.env.App.AppCodec()
	var defs, binds, own, ownp, wd, ctxs, reqs, act, actb, resps, vols, earned, oearned, newq, newh, expq, exph, bals []string

	r.iter(ctx, types.ServiceDefinitionKey, func(key, v []byte) {
		var d types.ServiceDefinition
		cdc.MustUnmarshal(v, &d)
		defs = append(defs, d.Name+":"+r.sym(d.Author))
	})
	r.iter(ctx, types.ServiceBindingKey, func(key, v []byte) {
		var b types.ServiceBinding
		cdc.MustUnmarshal(v, &b)
		prov, _ := sdk.AccAddressFromBech32(b.Provider)
		pr := k.GetPricing(ctx, b.ServiceName, prov)
		binds = append(binds, fmt.Sprintf("%s/%s:%s:%s:%d:%d:%d:%s", b.ServiceName, r.sym(b.Provider), r.sym(b.Owner),
			coinsStr(b.Deposit), b2i(b.Available), b.DisabledTime.Unix(), b.QoS, r.pricingStr(pr)))
	})
	r.iter(ctx, types.OwnerKey, func(key, v []byte) {
		var bv gogotypes.BytesValue
		cdc.MustUnmarshal(v, &bv)
		own = append(own, r.symA(key)+":"+r.symA(bv.Value))
	})
	r.iter(ctx, types.OwnerProviderKey, func(key, v []byte) {
		if len(key) < 40 {
			ownp = append(ownp, "?"+hx.Hex(key))
			return
		}
		ownp = append(ownp, r.symA(key[:20])+"/"+r.symA(key[20:]))
	})
	r.iter(ctx, types.WithdrawAddrKey, func(key, v []byte) {
		wd = append(wd, r.symA(key)+":"+r.symA(v))
	})
	r.iter(ctx, types.RequestContextKey, func(key, v []byte) {
		var c types.RequestContext
		cdc.MustUnmarshal(v, &c)
		var ps []string
		for _, p := range c.Providers {
			ps = append(ps, r.sym(p))
		}
		ctxs = append(ctxs, fmt.Sprintf("%s:%s:%s:%s:%s:%d:%d:%d:%d:%d:%d:%d:%d:%d:%d:%d:%s", hx.Hex(key), c.ServiceName, r.sym(c.Consumer),
			hx.Dash(strings.Join(ps, "+")), coinsStr(c.ServiceFeeCap), c.Timeout, b2i(c.Repeated), c.RepeatedFrequency, c.RepeatedTotal,
			c.BatchCounter, c.BatchRequestCount, c.BatchResponseCount, c.BatchResponseThreshold, int(c.BatchState), int(c.State),
			c.ResponseThreshold, hx.Dash(c.ModuleName)))
	})
	r.iter(ctx, types.RequestKey, func(key, v []byte) {
		var q types.CompactRequest
		cdc.MustUnmarshal(v, &q)
		reqs = append(reqs, fmt.Sprintf("%s:%s:%s:%d:%d:%s/%d", hx.Hex(key), r.sym(q.Provider), coinsStr(q.ServiceFee), q.RequestHeight, q.ExpirationHeight,
			strings.ToLower(q.RequestContextId), q.RequestContextBatchCounter))
	})
	r.iter(ctx, types.ActiveRequestByIDKey, func(key, v []byte) {
		var bv gogotypes.BytesValue
		cdc.MustUnmarshal(v, &bv)
		if hx.Hex(bv.Value) != hx.Hex(key) {
			act = append(act, "?"+hx.Hex(key)+"="+hx.Hex(bv.Value))
			return
		}
		act = append(act, hx.Hex(key))
	})
	r.iter(ctx, types.ActiveRequestKey, func(key, v []byte) {
		// svc 0x00 provider(bech32) 0x00 height(8) requestID(58)
		n := len(key)
		if n < 68 {
			actb = append(actb, "?"+hx.Hex(key))
			return
		}
		rid := key[n-58:]
		h := binary.BigEndian.Uint64(key[n-66 : n-58])
		ss := splitStrs(key[:n-67])
		actb = append(actb, fmt.Sprintf("%s/%s/%d/%s", ss[0], r.sym(ss[1]), h, hx.Hex(rid)))
	})
	r.iter(ctx, types.ResponseKey, func(key, v []byte) {
		var p types.Response
		cdc.MustUnmarshal(v, &p)
		resps = append(resps, fmt.Sprintf("%s:%s:%s:%d:%s/%d", hx.Hex(key), r.sym(p.Provider), r.sym(p.Consumer), b2i(len(p.Output) > 0),
			strings.ToLower(p.RequestContextId), p.RequestContextBatchCounter))
	})
	r.iter(ctx, types.RequestVolumeKey, func(key, v []byte) {
		var u gogotypes.UInt64Value
		cdc.MustUnmarshal(v, &u)
		ss := splitStrs(key)
		vols = append(vols, fmt.Sprintf("%s/%s/%s:%d", r.sym(ss[0]), ss[1], r.sym(ss[2]), u.Value))
	})
	r.iter(ctx, types.EarnedFeesKey, func(key, v []byte) {
		var c sdk.Coin
		cdc.MustUnmarshal(v, &c)
		if len(key) < 20 || string(key[20:]) != c.Denom {
			earned = append(earned, fmt.Sprintf("?%s/%s:%s", hx.Hex(key), c.Denom, c.Amount))
			return
		}
		earned = append(earned, fmt.Sprintf("%s/%s:%s", r.symA(key[:20]), c.Denom, c.Amount))
	})
	r.iter(ctx, types.OwnerEarnedFeesKey, func(key, v []byte) {
		var c sdk.Coin
		cdc.MustUnmarshal(v, &c)
		if len(key) < 20 {
			oearned = append(oearned, fmt.Sprintf("?%s/%s:%s", hx.Hex(key), c.Denom, c.Amount))
			return
		}
		oearned = append(oearned, fmt.Sprintf("%s/%s:%s", r.symA(key[:20]), c.Denom, c.Amount))
	})
	r.iter(ctx, types.NewRequestBatchKey, func(key, v []byte) {
		newq = append(newq, fmt.Sprintf("%d/%s", binary.BigEndian.Uint64(key[:8]), hx.Hex(key[8:])))
	})
	r.iter(ctx, types.NewRequestBatchHeightKey, func(key, v []byte) {
		var u gogotypes.Int64Value
		cdc.MustUnmarshal(v, &u)
		newh = append(newh, fmt.Sprintf("%s:%d", hx.Hex(key), u.Value))
	})
	r.iter(ctx, types.ExpiredRequestBatchKey, func(key, v []byte) {
		expq = append(expq, fmt.Sprintf("%d/%s", binary.BigEndian.Uint64(key[:8]), hx.Hex(key[8:])))
	})
	r.iter(ctx, types.ExpiredRequestBatchHeightKey, func(key, v []byte) {
		var u gogotypes.Int64Value
		cdc.MustUnmarshal(v, &u)
		exph = append(exph, fmt.Sprintf("%s:%d", hx.Hex(key), u.Value))
	})
	names := make([]string, 0, NAcc+3)
	for i := 0; i < NAcc; i++ {
		names = append(names, hx.AccName(i))
	}
	names = append(names, "Mdep", "Mreq", "Mfc")
	for _, n := range names {
		for _, d := range r.den {
			if b := r.env.Bal(ctx, r.addrs[n], d); !b.IsZero() {
				bals = append(bals, fmt.Sprintf("%s/%s:%s", n, d, b))
			}
		}
	}
	var idx gogotypes.Int64Value
	if bz := ctx.KVStore(r.key).Get(types.InternalCounterKey); bz != nil {
		cdc.MustUnmarshal(bz, &idx)
	}
	var rs []string
	for q, v := range r.rates {
		rs = append(rs, q+":"+v)
	}
	return fmt.Sprintf("h=%d t=%d idx=%d rates=%s defs=%s binds=%s own=%s ownp=%s wd=%s ctxs=%s reqs=%s act=%s actb=%s resps=%s vols=%s earned=%s oearned=%s newq=%s newh=%s expq=%s exph=%s bals=%s cb=%s",
		ctx.BlockHeight(), ctx.BlockTime().Unix(), idx.Value, join(rs), join(defs), join(binds), join(own), join(ownp), join(wd), join(ctxs),
		join(reqs), join(act), join(actb), join(resps), join(vols), join(earned), join(oearned), join(newq), join(newh), join(expq),
		join(exph), join(bals), hx.Dash(strings.Join(r.cb, ",")))
}

// genesisLine renders the real exported document: definitions and bindings in the document's own order,
// the two Go maps (withdraw addresses, request contexts) by key symbol / id.
func (r *R) genesisLine(gs *types.GenesisState) string {
	p := gs.Params
	var defs, binds, wd, ctxs []string
	for _, d := range gs.Definitions {
		defs = append(defs, d.Name+":"+r.sym(d.Author))
	}
	for _, b := range gs.Bindings {
		pr := "?"
		if q, err := types.ParsePricing(b.Pricing); err == nil {
			pr = r.pricingStr(q)
		}
		binds = append(binds, fmt.Sprintf("%s/%s:%s:%s:%d:%d:%d:%s", b.ServiceName, r.sym(b.Provider), r.sym(b.Owner),
			coinsStr(b.Deposit), b2i(b.Available), b.DisabledTime.Unix(), b.QoS, pr))
	}
	for o, a := range gs.WithdrawAddresses {
		wd = append(wd, r.sym(o)+":"+r.sym(a))
	}
	sort.Strings(wd)
	for id, c := range gs.RequestContexts {
		var ps []string
		for _, q := range c.Providers {
			ps = append(ps, r.sym(q))
		}
		ctxs = append(ctxs, fmt.Sprintf("%s:%s:%s:%s:%s:%d:%d:%d:%d:%d:%d:%d:%d:%d:%d:%d:%s", strings.ToLower(id), c.ServiceName, r.sym(c.Consumer),
			hx.Dash(strings.Join(ps, "+")), coinsStr(c.ServiceFeeCap), c.Timeout, b2i(c.Repeated), c.RepeatedFrequency, c.RepeatedTotal,
			c.BatchCounter, c.BatchRequestCount, c.BatchResponseCount, c.BatchResponseThreshold, int(c.BatchState), int(c.State),
			c.ResponseThreshold, hx.Dash(c.ModuleName)))
	}
	sort.Strings(ctxs)
	return fmt.Sprintf("gparams=%d:%d:%s:%s:%s:%d:%d:%s:%d gdefs=%s gbinds=%s gwd=%s gctxs=%s",
		p.MaxRequestTimeout, p.MinDepositMultiple, coinsStr(p.MinDeposit), decStr(p.ServiceFeeTax), decStr(p.SlashFraction),
		int64(p.ComplaintRetrospect/time.Second), int64(p.ArbitrationTimeLimit/time.Second), p.BaseDenom, b2i(p.RestrictedServiceFeeDenom),
		hx.Dash(strings.Join(defs, ",")), hx.Dash(strings.Join(binds, ",")), hx.Dash(strings.Join(wd, ",")), hx.Dash(strings.Join(ctxs, ",")))
}

// AddrOrder lists the symbols of the account universe in the order of their bech32 strings (the order of
// binding keys in the store); the reset line carries it to the model.
func (r *R) AddrOrder() string {
	var names []string
	for n := range r.addrs {
		names = append(names, n)
	}
	sort.Slice(names, func(i, j int) bool { return r.addrs[names[i]].String() < r.addrs[names[j]].String() })
	return strings.Join(names, ",")
}

// ---------------------------------------------------------------- execution

func (r *R) nextBlock(ctx sdk.Context, dt int64) (sdk.Context, bool) {
	panicked, info := hx.NoPanic(func() { svc.EndBlocker(ctx, r.env.Service) })
	if panicked {
		r.cb = append(r.cb, "PANIC:"+strings.ReplaceAll(info, " ", "_"))
		return ctx, true
	}
	ctx = hx.WithBlock(ctx, ctx.BlockHeight()+1, ctx.BlockTime().Add(time.Duration(dt)*time.Second))
	panicked, _ = hx.NoPanic(func() { svc.BeginBlocker(ctx, r.env.Service) })
	return ctx, panicked
}

// GenesisState implements hx.GenesisStater: the part of the projection C12 says must survive an export /
// import round trip (definitions, bindings with pricing, owner indexes, withdraw addresses, request contexts);
// requests, responses, volumes, earned-fee tallies and the batch queues are documented as not exported.
func (r *R) GenesisState(ctx sdk.Context) string {
	var keep []string
	for _, f := range strings.Fields(r.state(ctx)) {
		for _, k := range []string{"defs=", "binds=", "own=", "ownp=", "wd=", "ctxs="} {
			if strings.HasPrefix(f, k) {
				keep = append(keep, f)
			}
		}
	}
	return strings.Join(keep, " ")
}

// CloseBlock implements hx.BlockCloser: exports are taken at block boundaries (the real end blocker at the
// current height, then the begin blocker of the next one).
func (r *R) CloseBlock(ctx sdk.Context) sdk.Context {
	ctx, _ = r.nextBlock(ctx, 5)
	return ctx
}

func (r *R) Exec(ctx sdk.Context, line string) (sdk.Context, string) {
	f := strings.Fields(line)
	a := hx.Args(f[2:])
	r.cb = nil
	k := r.env.Service
	var msg sdk.Msg
	class := ""
	try := func(fn func(c sdk.Context) error) {
		class, _ = hx.Try(ctx, fn)
	}
	switch f[1] {
	case "next":
		var p bool
		ctx, p = r.nextBlock(ctx, i64(a["dt"]))
		class = hx.OK
		if p {
			class = hx.Panic
		}
	case "skip":
		class = hx.OK
		n := int(i64(a["n"]))
		for i := 0; i < n; i++ {
			var p bool
			ctx, p = r.nextBlock(ctx, i64(a["dt"]))
			if p {
				class = hx.Panic
				break
			}
		}
	case "export":
		gs := svc.ExportGenesis(ctx, k)
		v := "ok"
		if err := types.ValidateGenesis(*gs); err != nil {
			v = "err"
		}
		return ctx, fmt.Sprintf("ok validate=%s %s", v, r.genesisLine(gs))
	case "reimport", "prep_reimport":
		// the real functions on a cache context: a panic (InitGenesis on an invalid document, a failed
		// refund in the prepare step) leaves the state as it was
		try(func(c sdk.Context) error {
			if f[1] == "prep_reimport" {
				svc.PrepForZeroHeightGenesis(c, k)
			}
			gs := svc.ExportGenesis(c, k)
			st := c.KVStore(r.key)
			it := storetypes.KVStorePrefixIterator(st, nil)
			var keys [][]byte
			for ; it.Valid(); it.Next() {
				keys = append(keys, append([]byte{}, it.Key()...))
			}
			it.Close()
			for _, key := range keys {
				st.Delete(key)
			}
			svc.InitGenesis(c, k, *gs)
			svc.BeginBlocker(c, k) // the re-imported chain begins its first block (as `reset` does)
			return nil
		})
	case "set_rate":
		if a["rate"] == "-" {
			delete(r.rates, a["denom"])
		} else {
			r.rates[a["denom"]] = a["rate"]
		}
		class = hx.OK
	case "define":
		sch := okSch
		if a["sch"] == "0" {
			sch = `{"input":1`
		}
		msg = &types.MsgDefineService{Name: hx.Undash(a["name"]), Description: "d", Tags: nil, Author: r.bech(a["sender"]), AuthorDescription: "a", Schemas: sch}
	case "bind":
		opts := "{}"
		if a["opts"] == "0" {
			opts = "{"
		}
		msg = &types.MsgBindService{ServiceName: hx.Undash(a["svc"]), Provider: r.bech(a["provider"]), Deposit: coins(a["dep"]),
			Pricing: pricingJSON(a), QoS: u64(a["qos"]), Options: opts, Owner: r.bech(a["owner"])}
	case "update_binding":
		opts := ""
		if a["opts"] == "0" {
			opts = "{"
		} else if a["opts"] == "1" {
			opts = `{"a":1}`
		}
		msg = &types.MsgUpdateServiceBinding{ServiceName: hx.Undash(a["svc"]), Provider: r.bech(a["provider"]), Deposit: coins(a["dep"]),
			Pricing: pricingJSON(a), QoS: u64(a["qos"]), Options: opts, Owner: r.bech(a["owner"])}
	case "set_withdraw":
		msg = &types.MsgSetWithdrawAddress{Owner: r.bech(a["owner"]), WithdrawAddress: r.bech(a["addr"])}
	case "enable":
		msg = &types.MsgEnableServiceBinding{ServiceName: hx.Undash(a["svc"]), Provider: r.bech(a["provider"]), Deposit: coins(a["dep"]), Owner: r.bech(a["owner"])}
	case "disable":
		msg = &types.MsgDisableServiceBinding{ServiceName: hx.Undash(a["svc"]), Provider: r.bech(a["provider"]), Owner: r.bech(a["owner"])}
	case "refund_deposit":
		msg = &types.MsgRefundServiceDeposit{ServiceName: hx.Undash(a["svc"]), Provider: r.bech(a["provider"]), Owner: r.bech(a["owner"])}
	case "call":
		in := okInput
		if a["input"] == "0" {
			in = badInp
		}
		ctx = ctx.WithTxBytes([]byte(a["tx"]))
		msg = &types.MsgCallService{ServiceName: hx.Undash(a["svc"]), Providers: r.provList(a["providers"]), Consumer: r.bech(a["consumer"]), Input: in,
			ServiceFeeCap: coins(a["cap"]), Timeout: i64(a["timeout"]), Repeated: a["repeated"] == "1", RepeatedFrequency: u64(a["freq"]), RepeatedTotal: i64(a["total"])}
	case "mcall": // a module (verifcb) creates a context through the keeper, as oracle/random do
		in := okInput
		if a["input"] == "0" {
			in = badInp
		}
		st := types.RUNNING
		if a["state"] == "paused" {
			st = types.PAUSED
		}
		ctx = ctx.WithTxBytes([]byte(a["tx"]))
		mod := CbMod
		if a["mod"] != "" {
			mod = a["mod"]
		}
		try(func(c sdk.Context) error {
			_, err := k.CreateRequestContext(c, hx.Undash(a["svc"]), r.provAddrs(a["providers"]), r.addr(a["consumer"]), in, coins(a["cap"]),
				i64(a["timeout"]), a["repeated"] == "1", u64(a["freq"]), i64(a["total"]), st, uint32(u64(a["thr"])), mod)
			return err
		})
	case "respond":
		res := `{"code":` + a["code"] + `,"message":""}`
		if a["res"] == "0" {
			res = `{"code":201,"message":""}`
		}
		out := ""
		switch a["out"] {
		case "good":
			out = okOut
		case "bad":
			out = badOut
		}
		msg = &types.MsgRespondService{RequestId: hx.Undash(a["req"]), Provider: r.bech(a["provider"]), Result: res, Output: out}
	case "withdraw":
		msg = &types.MsgWithdrawEarnedFees{Owner: r.bech(a["owner"]), Provider: r.bech(a["provider"])}
	case "withdraw_k": // the keeper entry point with an empty provider (the message path cannot express it)
		var prov sdk.AccAddress
		if a["provider"] != "-" {
			prov = r.addr(a["provider"])
		}
		try(func(c sdk.Context) error { return k.WithdrawEarnedFees(c, r.addr(a["owner"]), prov) })
	case "pause":
		msg = &types.MsgPauseRequestContext{RequestContextId: hx.Undash(a["ctx"]), Consumer: r.bech(a["consumer"])}
	case "start":
		msg = &types.MsgStartRequestContext{RequestContextId: hx.Undash(a["ctx"]), Consumer: r.bech(a["consumer"])}
	case "kill":
		msg = &types.MsgKillRequestContext{RequestContextId: hx.Undash(a["ctx"]), Consumer: r.bech(a["consumer"])}
	case "update_ctx":
		msg = &types.MsgUpdateRequestContext{RequestContextId: hx.Undash(a["ctx"]), Providers: r.provList(a["providers"]), Consumer: r.bech(a["consumer"]),
			ServiceFeeCap: coins(a["cap"]), Timeout: i64(a["timeout"]), RepeatedFrequency: u64(a["freq"]), RepeatedTotal: i64(a["total"])}
	case "mpause", "mstart", "mkill":
		id := unhex(a["ctx"])
		try(func(c sdk.Context) error {
			switch f[1] {
			case "mpause":
				return k.PauseRequestContext(c, id, r.addr(a["consumer"]))
			case "mstart":
				return k.StartRequestContext(c, id, r.addr(a["consumer"]))
			default:
				return k.KillRequestContext(c, id, r.addr(a["consumer"]))
			}
		})
	case "mupdate":
		id := unhex(a["ctx"])
		try(func(c sdk.Context) error {
			return k.UpdateRequestContext(c, id, r.provAddrs(a["providers"]), uint32(u64(a["thr"])), coins(a["cap"]), i64(a["timeout"]), u64(a["freq"]), i64(a["total"]), r.addr(a["consumer"]))
		})
	default:
		hx.Fail("unknown op %q", line)
	}
	if msg != nil {
		o := r.env.Deliver(ctx, msg)
		class = o.Class
		if os.Getenv("VERIF_DEBUG") != "" && class != hx.OK {
			fmt.Fprintf(os.Stderr, "DBG %s -> %s %s\n", line, class, o.Err)
		}
	}
	if class != hx.OK && f[1] != "next" && f[1] != "skip" {
		r.cb = nil // callbacks of a reverted transaction did not happen
	}
	return ctx, class + " " + r.state(ctx)
}

func unhex(s string) []byte {
	s = hx.Undash(s)
	b := make([]byte, len(s)/2)
	for i := range b {
		v, err := strconv.ParseUint(s[2*i:2*i+2], 16, 8)
		if err != nil {
			hx.Fail("bad hex %q", s)
		}
		b[i] = byte(v)
	}
	return b
}
