package oracle

import (
	"fmt"
	"math/big"
	"strings"

	sdk "github.com/cosmos/cosmos-sdk/types"

	stypes "mods.irisnet.org/modules/service/types"

	"verifharness/hx"
)

// ---------------------------------------------------------------- decimal values

const unit = 100000000 // 10^8

// fmtUnits renders k * 10^-8 as a JSON number; trim decides whether trailing zeros are dropped.
func fmtUnits(k int64, trim bool) string {
	neg := k < 0
	if neg {
		k = -k
	}
	s := fmt.Sprintf("%d.%08d", k/unit, k%unit)
	if trim {
		s = strings.TrimRight(s, "0")
		s = strings.TrimSuffix(s, ".")
	}
	if neg {
		s = "-" + s
	}
	return s
}

// maxExact is the bound of the proved-exact domain in units of 10^-8: |v| < 4.5e7.
const maxExact = 45000000*unit - 1

var edgeUnits = []int64{0, 1, 2, 99999999, unit, unit + 1, 12, 250 * unit, 123456789, maxExact, maxExact - 1, 3 * unit / 2}

// exactUnits draws a value of the exact domain (<= 8 fractional digits, |v| < 4.5e7), either sign.
// negBias in [0,100] is the probability of a negative sign.
func exactUnits(g *hx.Rng, negBias int, lim int64) int64 {
	var k int64
	switch g.Pick(3, 3, 2, 2) {
	case 0:
		k = edgeUnits[g.Intn(len(edgeUnits))]
	case 1:
		k = g.Range(0, 1000) * unit / 100 // prices with two decimals
	case 2:
		k = int64(g.U64() % uint64(lim))
	default:
		k = int64(g.U64() % (1 << uint(1+g.Intn(50))))
	}
	if k > lim {
		k = k % (lim + 1)
	}
	if k != 0 && g.Intn(100) < negBias {
		k = -k
	}
	return k
}

// valueSpec draws one output spec for a feed with the given aggregate function.
// For avg every numeric value is a multiple of 12 * 10^-8 (and `true` is never used), so that the
// exact average of any 1..4 of them (invalid ones counting as 0) has at most 8 decimals.
func valueSpec(g *hx.Rng, agg string, negBias int) string {
	num := func() string {
		if agg == "avg" {
			k := exactUnits(g, negBias, 1000000*unit/12) * 12
			return fmtUnits(k, g.Chance(2, 3))
		}
		return fmtUnits(exactUnits(g, negBias, maxExact), g.Chance(2, 3))
	}
	switch g.Pick(24, 3, 2, 1, 1, 1, 1, 1, 1) {
	case 0:
		return "n" + num()
	case 1:
		return "s" + num()
	case 2:
		return "w" + num()
	case 3:
		if agg == "avg" {
			return "f"
		}
		return "t"
	case 4:
		return "f"
	case 5:
		return "u"
	case 6:
		return "o"
	case 7:
		return "bxyz"
	default:
		return "m"
	}
}

// ---------------------------------------------------------------- generator

func (r *R) acc(g *hx.Rng) string { return hx.AccName(g.Intn(nAcc)) }

func provSubset(g *hx.Rng) []string {
	n := 1 + g.Intn(nProv)
	idx := []int{0, 1, 2, 3}
	for i := len(idx) - 1; i > 0; i-- {
		j := g.Intn(i + 1)
		idx[i], idx[j] = idx[j], idx[i]
	}
	var out []string
	for _, i := range idx[:n] {
		out = append(out, fmt.Sprintf("P%d", i))
	}
	return out
}

func (r *R) genCreate(ctx sdk.Context, g *hx.Rng, have map[string]bool) string {
	// names that extend one another: values of one feed must not leak into (or be trimmed by)
	// a feed whose name is a prefix of it
	name := "f1"
	if have["f1"] {
		name = "f1x"
	}
	if have["f1"] && have["f1x"] {
		name = "f1xy"
	}
	switch g.Pick(30, 2, 1, 1) {
	case 1:
		name = "f1"
	case 2:
		name = "1bad"
	case 3:
		name = "-"
	}
	agg := []string{"max", "min", "avg"}[g.Intn(3)]
	if g.Chance(1, 25) {
		agg = []string{"median", "-", "averageofall"}[g.Intn(3)]
	}
	path := []string{"last", "data.price", "last", "-"}[g.Pick(5, 3, 1, 1)]
	hist := g.Range(1, 10)
	if g.Chance(1, 20) {
		hist = []int64{0, 100, 101}[g.Intn(3)]
	}
	svc := svcName
	if g.Chance(1, 25) {
		svc = []string{"nosvc", "bad!name"}[g.Intn(2)]
	}
	provs := provSubset(g)
	if g.Chance(1, 30) {
		provs = append(provs, provs[0])
	}
	pl := strings.Join(provs, ",")
	if g.Chance(1, 40) {
		pl = "-"
		provs = nil
	}
	thr := g.Range(1, int64(len(provs)))
	if g.Chance(1, 15) {
		thr = []int64{0, int64(len(provs)) + 1}[g.Intn(2)]
	}
	timeout := g.Range(1, 3)
	if g.Chance(1, 20) {
		timeout = []int64{0, -1, 100, 101}[g.Intn(4)]
	}
	freq := timeout + g.Range(0, 2)
	if g.Chance(1, 20) {
		freq = timeout - 1
	}
	if freq < 0 {
		freq = 0
	}
	capS := []string{"100", "2", "1", "5:foo", "-", "0"}[g.Pick(12, 3, 1, 1, 1, 1)]
	desc := []string{"-", "d1"}[g.Intn(2)]
	input := []string{"ok", "nohdr", "empty"}[g.Pick(20, 1, 1)]
	return "oracle create_feed " + hx.KV("name", name, "creator", r.acc(g), "agg", agg, "path", path, "hist", hist, "desc", desc,
		"service", svc, "providers", pl, "thr", thr, "timeout", timeout, "freq", freq, "cap", capS, "input", input)
}

func (r *R) genEdit(g *hx.Rng, fi feedInfo) string {
	sender := r.sym(fi.feed.Creator)
	if g.Chance(1, 5) {
		sender = r.acc(g)
	}
	hist := int64(0)
	switch g.Pick(3, 4, 4, 1) {
	case 1: // shrink
		hist = g.Range(1, int64(fi.feed.LatestHistory))
	case 2: // grow or any
		hist = g.Range(1, 10)
	case 3:
		hist = []int64{100, 101}[g.Intn(2)]
	}
	pl := "-"
	np := len(fi.rc.Providers)
	if g.Chance(1, 4) {
		ps := provSubset(g)
		if g.Chance(1, 15) {
			ps = append(ps, ps[0])
		}
		pl = strings.Join(ps, ",")
		np = len(ps)
	}
	thr := int64(0)
	if g.Chance(1, 3) {
		thr = g.Range(1, int64(np))
		if g.Chance(1, 6) {
			thr = int64(np) + 1
		}
	}
	timeout := int64(0)
	if g.Chance(1, 5) {
		timeout = []int64{1, 2, 3, 4, 101, -1}[g.Pick(4, 4, 3, 2, 1, 1)]
	}
	freq := int64(0)
	if g.Chance(1, 5) {
		freq = g.Range(1, 5)
	}
	capS := []string{"-", "100", "2", "5:foo"}[g.Pick(10, 2, 2, 1)]
	desc := []string{"do-not-modify", "d2", "-"}[g.Pick(6, 2, 1)]
	return "oracle edit_feed " + hx.KV("name", fi.feed.FeedName, "sender", sender, "hist", hist, "providers", pl, "thr", thr,
		"timeout", timeout, "freq", freq, "cap", capS, "desc", desc)
}

// withEnv completes an environment-driven operation line with what the real service module
// decides, obtained by a dry run on a cached context.
func (r *R) withEnv(ctx sdk.Context, line string) string {
	cctx, _ := ctx.CacheContext()
	_, obs := r.Exec(cctx, line)
	t := strings.Fields(obs)
	a := hx.Args(t[1:])
	if strings.HasPrefix(line, "oracle respond ") {
		return line + " res=" + t[0] + " cbs=" + a["cbs"]
	}
	return line + " cbs=" + a["cbs"]
}

func (r *R) Gen(ctx sdk.Context, g *hx.Rng) string {
	fis := r.feeds(ctx)
	have := map[string]bool{}
	for _, fi := range fis {
		have[fi.feed.FeedName] = true
	}
	// feeds with an open batch and the providers that still owe a response
	type pend struct {
		fi    feedInfo
		provs []string
	}
	var open []pend
	for _, fi := range fis {
		if !fi.found || fi.rc.BatchState != stypes.BATCHRUNNING {
			continue
		}
		var ps []string
		it := r.env.Service.RequestsIteratorByReqCtx(ctx, fi.id, fi.rc.BatchCounter)
		for ; it.Valid(); it.Next() {
			rid := it.Key()[1:]
			if req, ok := r.env.Service.GetRequest(ctx, rid); ok && r.env.Service.IsRequestActive(ctx, rid) {
				ps = append(ps, r.sym(req.Provider))
			}
		}
		it.Close()
		if len(ps) > 0 {
			open = append(open, pend{fi, ps})
		}
	}
	wCreate, wFeedOp, wRespond := 1, 0, 0
	if len(fis) < 2 {
		wCreate = 12
	}
	if len(fis) > 0 {
		wFeedOp = 1
	}
	wBlock := 14
	if len(open) > 0 {
		wRespond = 40
		wBlock = 7
	}
	if len(fis) == 0 {
		if g.Chance(1, 8) {
			return r.genPure(g)
		}
		return r.genCreate(ctx, g, have)
	}
	// genesis round trip inside the history (C12): the exported document, and a re-import after which
	// the rest of the history runs on the imported state. Drawn only with the flag: without it the
	// histories (C17) are what they were.
	if r.Genesis {
		// a re-import collapses every history to one value: make it rarer while no feed holds two
		// values yet, so that collapsing imports are reached
		wRe := 2
		for _, fi := range fis {
			if len(r.env.Oracle.GetFeedValues(ctx, fi.feed.FeedName)) >= 2 {
				wRe = 5
			}
		}
		switch g.Pick(3, wRe, 40) {
		case 0:
			return "oracle export"
		case 1:
			return "oracle reimport batches=" + r.batches(ctx)
		}
	}
	pickFeed := func() feedInfo { return fis[g.Intn(len(fis))] }
	switch g.Pick(wCreate, 5*wFeedOp, 3*wFeedOp, 5*wFeedOp, wRespond, wBlock, 1, 1, 3) {
	case 0:
		return r.genCreate(ctx, g, have)
	case 1, 2:
		fi := pickFeed()
		op := "start_feed"
		if fi.found && fi.rc.State == stypes.RUNNING {
			switch g.Pick(7, 3, 10) {
			case 0:
				op = "pause_feed"
			case 2: // keep feeds running most of the time so that batches happen
				if len(open) > 0 {
					return r.genEdit(g, fi)
				}
				return r.withEnv(ctx, "oracle block "+hx.KV("dt", g.Range(1, 10)))
			}
		} else if g.Chance(3, 20) {
			op = "pause_feed"
		}
		sender := r.sym(fi.feed.Creator)
		if g.Chance(1, 5) {
			sender = r.acc(g)
		}
		name := fi.feed.FeedName
		if g.Chance(1, 30) {
			name = "nofeed"
		}
		return "oracle " + op + " " + hx.KV("name", name, "sender", sender)
	case 3:
		return r.genEdit(g, pickFeed())
	case 4:
		p := open[g.Intn(len(open))]
		prov := p.provs[g.Intn(len(p.provs))]
		if g.Chance(1, 20) {
			prov = fmt.Sprintf("P%d", g.Intn(nProv)) // possibly not asked / already answered
		}
		spec := "err"
		if g.Chance(1, 25) {
			spec = []string{"x", "h"}[g.Intn(2)]
		} else if !g.Chance(1, 12) {
			// per feed and batch a sign bias, so that all-negative, all-positive and mixed batches all occur
			bias := []int{0, 100, 50, 100}[(p.fi.rc.BatchCounter+uint64(len(p.fi.feed.FeedName)))%4]
			if g.Chance(1, 6) {
				bias = 50
			}
			spec = valueSpec(g, p.fi.feed.AggregateFunc, bias)
		}
		return r.withEnv(ctx, "oracle respond "+hx.KV("feed", p.fi.feed.FeedName, "prov", prov, "out", spec))
	case 5:
		return r.withEnv(ctx, "oracle block "+hx.KV("dt", g.Range(1, 10)))
	case 6:
		return "oracle fund " + hx.KV("who", r.acc(g), "amt", g.Range(1, 300))
	case 7:
		return "oracle drain " + hx.KV("who", r.acc(g), "keep", g.Range(0, 5))
	default:
		return r.genPure(g)
	}
}

// genPure draws a call of the aggregate functions themselves: `agg` inside the exact domain (diffed
// against the model), `aggtol` outside it (the model echoes the recorded result; the monitor
// checks it against the exact aggregate with the stated tolerance).
func (r *R) genPure(g *hx.Rng) string {
	fn := []string{"max", "min", "avg"}[g.Intn(3)]
	if g.Chance(1, 40) {
		fn = "median"
	}
	n := g.Intn(7)
	if g.Chance(1, 3) { // out-of-domain stream
		var vs []string
		for i := 0; i < n+1; i++ {
			vs = append(vs, "n"+wildDecimal(g))
		}
		vals := strings.Join(vs, "|")
		impl := strings.TrimPrefix(aggregate(fn, vals), "ok ")
		if impl == "rej" || impl == "panic" {
			impl = "-"
		}
		return "oracle aggtol " + hx.KV("fn", fn, "vals", vals, "impl", impl)
	}
	bias := []int{0, 100, 50, 30}[g.Intn(4)]
	var ks []int64
	var vs []string
	sum := int64(0)
	lim := int64(maxExact)
	if fn == "avg" {
		lim = 1000000 * unit
	}
	for i := 0; i < n; i++ {
		k := exactUnits(g, bias, lim)
		kind := g.Pick(16, 2, 1, 1, 1)
		if fn == "avg" && i == n-1 {
			// make the exact average representable with 8 decimals
			kind = 0
			m := ((sum+k)%int64(n) + int64(n)) % int64(n)
			k -= m
			if k == 0 && m != 0 {
				k = 0
			}
		}
		switch kind {
		case 0:
			vs = append(vs, "n"+fmtUnits(k, g.Chance(2, 3)))
			sum += k
			ks = append(ks, k)
		case 1:
			vs = append(vs, "s"+fmtUnits(k, g.Chance(2, 3)))
			sum += k
		case 2:
			vs = append(vs, "t")
			sum += unit
		case 3:
			vs = append(vs, "u")
		default:
			vs = append(vs, "w"+fmtUnits(k, true))
		}
	}
	vals := hx.Dash(strings.Join(vs, "|"))
	return "oracle agg " + hx.KV("fn", fn, "vals", vals)
}

// wildDecimal draws a decimal outside the exact domain: up to 15 fractional digits and/or a
// magnitude up to 10^15 (never negative zero).
func wildDecimal(g *hx.Rng) string {
	ip := new(big.Int)
	switch g.Pick(3, 2, 2) {
	case 0:
		ip = g.BigRaw(1 + g.Intn(20))
	case 1:
		ip = g.BigRaw(26 + g.Intn(24)) // beyond 4.5e7, up to ~10^15
	default:
		ip.SetInt64(g.Range(0, 3))
	}
	s := ip.String()
	nf := g.Intn(16)
	if nf > 0 {
		f := ""
		for i := 0; i < nf; i++ {
			f += string(rune('0' + g.Intn(10)))
		}
		s += "." + f
	}
	nonzero := strings.Trim(s, "0.") != ""
	if nonzero && g.Chance(2, 5) {
		s = "-" + s
	}
	return s
}
