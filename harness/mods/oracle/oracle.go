// Package oracle drives the real oracle module for C17.
//
// Path used for the batch flow: the FULL real service flow. Feeds are created through the
// oracle msg server (which creates the request context through the real service keeper),
// providers answer through the real service msg server (MsgRespondService), blocks advance with
// the real service Begin/EndBlocker, and the service keeper itself invokes the oracle keeper's
// registered callbacks (HandlerResponse / HandlerStateChanged). The harness never calls the
// callbacks directly.
//
// The Lean model treats the service module abstractly: what the service module decided during
// an operation (result of a MsgRespondService, which batches completed with which outputs and
// batch threshold, which contexts were paused automatically) is carried on the operation line
// (`res=`, `cbs=`). Gen obtains those by a dry run on a cached context; Exec re-derives them
// from the real run (service events, context records, stored responses) and prints them in the
// observation, so a replayed file whose recorded decisions no longer match the code is a diff.
package oracle

import (
	"fmt"
	"sort"
	"strconv"
	"strings"
	"time"

	sdkmath "cosmossdk.io/math"
	storetypes "cosmossdk.io/store/types"
	abci "github.com/cometbft/cometbft/abci/types"
	sdk "github.com/cosmos/cosmos-sdk/types"
	"github.com/tidwall/gjson"

	oraclemod "mods.irisnet.org/modules/oracle"
	otypes "mods.irisnet.org/modules/oracle/types"
	"mods.irisnet.org/modules/service"
	stypes "mods.irisnet.org/modules/service/types"

	"verifharness/hx"
)

const (
	nAcc     = 4 // creators / strangers A0..A3
	nProv    = 4 // providers P0..P3 (accounts 10..13)
	svcName  = "price"
	baseDen  = "stake"
	provDep  = 1000000000
	okInput  = `{"header":{},"body":{}}`
	badInput = `{"body":{}}`
)

var provPrice = []int64{1, 2, 3, 50}

type R struct {
	env   *hx.Env
	names map[string]string
	// Genesis makes Gen emit `oracle export` / `oracle reimport` now and then (C12 runs only: the
	// C17 histories stay what they were)
	Genesis bool
}

func New(env *hx.Env) *R {
	r := &R{env: env, names: map[string]string{}}
	for i := 0; i < nAcc; i++ {
		r.names[hx.Acc(i).String()] = hx.AccName(i)
	}
	for i := 0; i < nProv; i++ {
		r.names[hx.Acc(10+i).String()] = fmt.Sprintf("P%d", i)
	}
	return r
}

func (r *R) Module() string { return "oracle" }

func (r *R) sym(bech string) string {
	if s, ok := r.names[bech]; ok {
		return s
	}
	return bech
}

func (r *R) addr(sym string) string {
	if len(sym) >= 2 && (sym[0] == 'A' || sym[0] == 'P') {
		if i, err := strconv.Atoi(sym[1:]); err == nil {
			if sym[0] == 'P' {
				i += 10
			}
			return hx.Acc(i).String()
		}
	}
	return sym
}

func coins(n int64) sdk.Coins { return sdk.NewCoins(sdk.NewCoin(baseDen, sdkmath.NewInt(n))) }

// ---------------------------------------------------------------- reset

func (r *R) ResetLine(g *hx.Rng) string {
	// hx seeds history i with NewRng(seed*1000003+i); splitmix streams of adjacent seeds are the same
	// sequence shifted by one draw, so re-seed from a mixed value to decorrelate histories
	*g = *hx.NewRng(g.U64())
	// creators' funds decide when a feed's consumer runs out of service fees
	var b []string
	for i := 0; i < nAcc; i++ {
		var amt int64
		switch g.Pick(3, 3, 2, 2) {
		case 0:
			amt = 1000000
		case 1:
			amt = g.Range(0, 40)
		case 2:
			amt = g.Range(40, 400)
		default:
			amt = g.Range(0, 7)
		}
		b = append(b, fmt.Sprintf("%s:%d", hx.AccName(i), amt))
	}
	return "oracle reset t=1700000000000000000 bal=" + strings.Join(b, ",")
}

func (r *R) Reset(ctx sdk.Context, line string) (sdk.Context, string) {
	a := hx.Args(strings.Fields(line)[2:])
	for _, e := range strings.Split(a["bal"], ",") {
		p := strings.SplitN(e, ":", 2)
		if len(p) != 2 {
			continue
		}
		n, err := strconv.ParseInt(p[1], 10, 64)
		if err != nil {
			hx.Fail("bad reset line %q", line)
		}
		addr := sdk.MustAccAddressFromBech32(r.addr(p[0]))
		// the account may already hold coins of the base denom from genesis: normalise to exactly n
		cur := r.env.Bal(ctx, addr, baseDen)
		if cur.IsPositive() {
			if err := r.env.App.BankKeeper.SendCoins(ctx, addr, hx.Acc(99), sdk.NewCoins(sdk.NewCoin(baseDen, cur))); err != nil {
				hx.Fail("reset: %v", err)
			}
		}
		r.env.Fund(ctx, addr, coins(n))
	}
	ns, err := strconv.ParseInt(a["t"], 10, 64)
	if err != nil {
		hx.Fail("bad reset time %q", line)
	}
	ctx = hx.WithBlock(ctx, 1, time.Unix(0, ns).UTC())
	service.BeginBlocker(ctx, r.env.Service)
	schemas := `{"input":{"type":"object"},"output":{"type":"object"}}`
	def := &stypes.MsgDefineService{Name: svcName, Description: "d", Author: hx.Acc(20).String(), AuthorDescription: "a", Schemas: schemas}
	if out := r.env.Deliver(ctx, def); out.Class != hx.OK {
		hx.Fail("define service: %s %s", out.Class, out.Err)
	}
	for i := 0; i < nProv; i++ {
		p := hx.Acc(10 + i)
		r.env.Fund(ctx, p, coins(provDep))
		bind := &stypes.MsgBindService{ServiceName: svcName, Provider: p.String(), Owner: p.String(), Deposit: coins(provDep),
			Pricing: fmt.Sprintf(`{"price":"%d%s"}`, provPrice[i], baseDen), QoS: 1, Options: "{}"}
		if out := r.env.Deliver(ctx, bind); out.Class != hx.OK {
			hx.Fail("bind service: %s %s", out.Class, out.Err)
		}
	}
	return ctx, "ok " + r.state(ctx)
}

// ---------------------------------------------------------------- observation

func stateName(s stypes.RequestContextState) string {
	switch s {
	case stypes.RUNNING:
		return "running"
	case stypes.PAUSED:
		return "paused"
	case stypes.COMPLETED:
		return "completed"
	}
	return "unknown"
}

type feedInfo struct {
	feed  otypes.Feed
	id    []byte
	rc    stypes.RequestContext
	found bool
}

func (r *R) feeds(ctx sdk.Context) []feedInfo {
	var out []feedInfo
	r.env.Oracle.IteratorFeeds(ctx, func(f otypes.Feed) {
		id := unhexStr(f.RequestContextID)
		rc, ok := r.env.Service.GetRequestContext(ctx, id)
		out = append(out, feedInfo{f, id, rc, ok})
	})
	return out
}

func unhexStr(s string) []byte {
	b := make([]byte, len(s)/2)
	for i := range b {
		v, err := strconv.ParseUint(s[2*i:2*i+2], 16, 8)
		if err != nil {
			hx.Fail("bad hex %q", s)
		}
		b[i] = byte(v)
	}
	return b
}

// State is the canonical projection of the oracle state carried by every observation line
// (hx.Stater): block time, feeds, the feeds' request contexts, the feed-state index, feed values.
func (r *R) State(ctx sdk.Context) string { return r.state(ctx) }

func (r *R) state(ctx sdk.Context) string {
	k := r.env.Oracle
	var fs, cs, vs, run, pau []string
	for _, fi := range r.feeds(ctx) {
		f := fi.feed
		fs = append(fs, fmt.Sprintf("%s:%s:%s:%s:%d:%s", f.FeedName, r.sym(f.Creator), f.AggregateFunc, hx.Dash(f.ValueJsonPath), f.LatestHistory, hx.Dash(f.Description)))
		if fi.found {
			cs = append(cs, fmt.Sprintf("%s:%s:%d:%d:%d:%d", f.FeedName, stateName(fi.rc.State), fi.rc.ResponseThreshold, len(fi.rc.Providers), fi.rc.Timeout, fi.rc.RepeatedFrequency))
		} else {
			cs = append(cs, f.FeedName+":none")
		}
		var vv []string
		for _, v := range k.GetFeedValues(ctx, f.FeedName) {
			vv = append(vv, fmt.Sprintf("%s@%d", v.Data, v.Timestamp.UnixNano()))
		}
		if len(vv) > 0 {
			vs = append(vs, f.FeedName+":"+strings.Join(vv, "|"))
		}
	}
	k.IteratorFeedsByState(ctx, stypes.RUNNING, func(f otypes.Feed) { run = append(run, f.FeedName) })
	k.IteratorFeedsByState(ctx, stypes.PAUSED, func(f otypes.Feed) { pau = append(pau, f.FeedName) })
	sort.Strings(fs)
	sort.Strings(cs)
	sort.Strings(vs)
	sort.Strings(run)
	sort.Strings(pau)
	return fmt.Sprintf("t=%d feeds=%s ctx=%s run=%s pau=%s vals=%s", ctx.BlockTime().UnixNano(),
		strings.Join(fs, ","), strings.Join(cs, ","), strings.Join(run, ","), strings.Join(pau, ","), strings.Join(vs, ","))
}

// ---------------------------------------------------------------- genesis (C12)

// genesisLine renders the real exported genesis document, entries in the document's own order:
// name:creator:agg:path:hist:desc:state:v1@t1|v2@t2 (values in the document's order).
func (r *R) genesisLine(gs *otypes.GenesisState) string {
	var es []string
	for _, e := range gs.Entries {
		f := e.Feed
		var vv []string
		for _, v := range e.Values {
			vv = append(vv, fmt.Sprintf("%s@%d", v.Data, v.Timestamp.UnixNano()))
		}
		es = append(es, fmt.Sprintf("%s:%s:%s:%s:%d:%s:%s:%s", hx.Dash(f.FeedName), hx.Dash(r.sym(f.Creator)), hx.Dash(f.AggregateFunc),
			hx.Dash(f.ValueJsonPath), f.LatestHistory, hx.Dash(f.Description), stateName(e.State), hx.Dash(strings.Join(vv, "|"))))
	}
	return hx.Dash(strings.Join(es, ","))
}

// batches lists the current batch counter of every feed's request context (store order of the
// feeds; feeds without a context are skipped): the key InitGenesis writes the feed's values under.
func (r *R) batches(ctx sdk.Context) string {
	var b []string
	for _, fi := range r.feeds(ctx) {
		if fi.found {
			b = append(b, fmt.Sprintf("%s:%d", fi.feed.FeedName, fi.rc.BatchCounter))
		}
	}
	return hx.Dash(strings.Join(b, ","))
}

// ---------------------------------------------------------------- outputs

// buildOutput renders an output spec as the (result, output) pair of a MsgRespondService.
// The spec is echoed in the header so that the outputs a batch completed with can be read
// back from the responses stored by the service keeper.
//
//	n<dec> number at the feed's path   s<dec> the same as a JSON string   w<dec> number under another key
//	t true  f false  u null  o {}  b<word> non-numeric string  m no body at all   err = result code 500, no output
//	x truncated (invalid) JSON   h valid JSON without header  (both refused by the service module)
func buildOutput(path, spec string) (string, string) {
	if spec == "err" {
		return `{"code":500,"message":"failed"}`, ""
	}
	var v string
	key := path
	switch spec[0] {
	case 'n':
		v = spec[1:]
	case 's':
		v = `"` + spec[1:] + `"`
	case 'w':
		v = spec[1:]
		key = "zz"
	case 't':
		v = "true"
	case 'f':
		v = "false"
	case 'u':
		v = "null"
	case 'o':
		v = "{}"
	case 'b':
		v = `"` + spec[1:] + `"`
	case 'm':
		return `{"code":200,"message":""}`, fmt.Sprintf(`{"header":{"spec":"%s"}}`, spec)
	case 'x': // not JSON: refused by MsgRespondService.ValidateBasic, never reaches a batch
		return `{"code":200,"message":""}`, `{"header":{"spec":"x"},"body":`
	case 'h': // JSON without the mandatory header: refused as well
		return `{"code":200,"message":""}`, `{"body":{"last":1}}`
	default:
		hx.Fail("bad output spec %q", spec)
	}
	parts := strings.Split(key, ".")
	body := v
	for i := len(parts) - 1; i >= 0; i-- {
		body = fmt.Sprintf(`{"%s":%s}`, parts[i], body)
	}
	return `{"code":200,"message":""}`, fmt.Sprintf(`{"header":{"spec":"%s"},"body":%s}`, spec, body)
}

func specsOf(outputs []string) string {
	var s []string
	for _, o := range outputs {
		s = append(s, gjson.Get(o, "header.spec").String())
	}
	return hx.Dash(strings.Join(s, "|"))
}

// argOf turns a value spec into the argument the aggregate functions receive.
func argOf(spec string) otypes.ArgsType {
	_, out := buildOutput("v", spec)
	return gjson.Get(out, stypes.PATH_BODY).Get("v")
}

// ---------------------------------------------------------------- callbacks derived from the real run

func hasCompleteBatch(evs []abci.Event, ctxID string) bool {
	for _, e := range evs {
		if e.Type != stypes.EventTypeCompleteBatch {
			continue
		}
		for _, a := range e.Attributes {
			if a.Key == stypes.AttributeKeyRequestContextID && strings.EqualFold(a.Value, ctxID) {
				return true
			}
		}
	}
	return false
}

type snap struct {
	name  string
	id    []byte
	idStr string
	rc    stypes.RequestContext
	outs  []string
}

func (r *R) snapshot(ctx sdk.Context) []snap {
	var out []snap
	for _, fi := range r.feeds(ctx) {
		if !fi.found {
			continue
		}
		out = append(out, snap{fi.feed.FeedName, fi.id, fi.feed.RequestContextID, fi.rc,
			r.env.Service.GetResponseOutputs(ctx, fi.id, fi.rc.BatchCounter)})
	}
	return out
}

func doneCb(name string, batch uint64, thr uint32, outs []string) string {
	return fmt.Sprintf("done/%s/%d/%d/%s", name, batch, thr, specsOf(outs))
}

// ---------------------------------------------------------------- exec

func i64(s string) int64 {
	v, err := strconv.ParseInt(s, 10, 64)
	if err != nil {
		hx.Fail("bad int %q", s)
	}
	return v
}

func (r *R) provList(s string) []string {
	s = hx.Undash(s)
	if s == "" {
		return nil
	}
	var out []string
	for _, p := range strings.Split(s, ",") {
		out = append(out, r.addr(p))
	}
	return out
}

// cap: "-" empty, "<n>" base denom, "<n>:<denom>" other denom
func capCoins(s string) sdk.Coins {
	s = hx.Undash(s)
	if s == "" {
		return sdk.Coins{}
	}
	p := strings.SplitN(s, ":", 2)
	den := baseDen
	if len(p) == 2 {
		den = p[1]
	}
	return sdk.Coins{sdk.NewCoin(den, sdkmath.NewInt(i64(p[0])))}
}

func inputOf(s string) string {
	switch s {
	case "ok":
		return okInput
	case "nohdr":
		return badInput
	}
	return ""
}

func (r *R) Exec(ctx sdk.Context, line string) (sdk.Context, string) {
	f := strings.Fields(line)
	a := hx.Args(f[2:])
	tctx := ctx.WithTxBytes([]byte(fmt.Sprintf("%s|%d", line, ctx.BlockHeight())))
	switch f[1] {
	case "create_feed":
		msg := &otypes.MsgCreateFeed{
			FeedName: hx.Undash(a["name"]), LatestHistory: uint64(i64(a["hist"])), Description: hx.Undash(a["desc"]),
			Creator: r.addr(a["creator"]), ServiceName: hx.Undash(a["service"]), Providers: r.provList(a["providers"]),
			Input: inputOf(a["input"]), Timeout: i64(a["timeout"]), ServiceFeeCap: capCoins(a["cap"]),
			RepeatedFrequency: uint64(i64(a["freq"])), AggregateFunc: hx.Undash(a["agg"]), ValueJsonPath: hx.Undash(a["path"]),
			ResponseThreshold: uint32(i64(a["thr"])),
		}
		out := r.env.Deliver(tctx, msg)
		return ctx, out.Class + " " + r.state(ctx)
	case "start_feed":
		out := r.env.Deliver(tctx, &otypes.MsgStartFeed{FeedName: hx.Undash(a["name"]), Creator: r.addr(a["sender"])})
		return ctx, out.Class + " " + r.state(ctx)
	case "pause_feed":
		out := r.env.Deliver(tctx, &otypes.MsgPauseFeed{FeedName: hx.Undash(a["name"]), Creator: r.addr(a["sender"])})
		return ctx, out.Class + " " + r.state(ctx)
	case "edit_feed":
		msg := &otypes.MsgEditFeed{
			FeedName: hx.Undash(a["name"]), Description: hx.Undash(a["desc"]), LatestHistory: uint64(i64(a["hist"])),
			Providers: r.provList(a["providers"]), Timeout: i64(a["timeout"]), ServiceFeeCap: capCoins(a["cap"]),
			RepeatedFrequency: uint64(i64(a["freq"])), ResponseThreshold: uint32(i64(a["thr"])), Creator: r.addr(a["sender"]),
		}
		out := r.env.Deliver(tctx, msg)
		return ctx, out.Class + " " + r.state(ctx)
	case "respond":
		res, cbs := r.respond(tctx, a["feed"], a["prov"], a["out"])
		return ctx, fmt.Sprintf("%s cbs=%s %s", res, hx.Dash(strings.Join(cbs, ";")), r.state(ctx))
	case "block":
		nctx, cbs, panicked := r.block(ctx, i64(a["dt"]))
		if panicked {
			return nctx, "panic " + r.state(nctx)
		}
		return nctx, fmt.Sprintf("ok cbs=%s %s", hx.Dash(strings.Join(cbs, ";")), r.state(nctx))
	case "fund":
		r.env.Fund(ctx, sdk.MustAccAddressFromBech32(r.addr(a["who"])), coins(i64(a["amt"])))
		return ctx, "ok " + r.state(ctx)
	case "drain":
		addr := sdk.MustAccAddressFromBech32(r.addr(a["who"]))
		keep := sdkmath.NewInt(i64(a["keep"]))
		if cur := r.env.Bal(ctx, addr, baseDen); cur.GT(keep) {
			if err := r.env.App.BankKeeper.SendCoins(ctx, addr, hx.Acc(99), sdk.NewCoins(sdk.NewCoin(baseDen, cur.Sub(keep)))); err != nil {
				hx.Fail("drain: %v", err)
			}
		}
		return ctx, "ok " + r.state(ctx)
	case "agg", "aggtol":
		return ctx, aggregate(hx.Undash(a["fn"]), a["vals"])
	case "export":
		// real ExportGenesis of the current state, the verdict of the real ValidateGenesis, the document
		gs := oraclemod.ExportGenesis(ctx, r.env.Oracle)
		v := "ok"
		if p, _ := hx.NoPanic(func() {
			if err := otypes.ValidateGenesis(*gs); err != nil {
				v = "err"
			}
		}); p {
			v = "panic"
		}
		return ctx, fmt.Sprintf("ok validate=%s gen=%s %s", v, r.genesisLine(gs), r.state(ctx))
	case "reimport":
		// export, wipe the oracle module's own store (the service module's request contexts stay),
		// real InitGenesis; the rest of the history runs on the re-imported state
		before := r.state(ctx)
		batches := r.batches(ctx)
		gs := oraclemod.ExportGenesis(ctx, r.env.Oracle)
		class, _ := hx.Try(ctx, func(c sdk.Context) error {
			st := c.KVStore(r.env.App.GetKey(otypes.StoreKey))
			it := storetypes.KVStorePrefixIterator(st, nil)
			var keys [][]byte
			for ; it.Valid(); it.Next() {
				keys = append(keys, append([]byte{}, it.Key()...))
			}
			it.Close()
			for _, k := range keys {
				st.Delete(k)
			}
			oraclemod.InitGenesis(c, r.env.Oracle, *gs)
			return nil
		})
		after := r.state(ctx)
		same := 0
		if before == after {
			same = 1
		}
		return ctx, fmt.Sprintf("%s same=%d batches=%s %s", class, same, batches, after)
	}
	hx.Fail("unknown op %q", line)
	return ctx, ""
}

// aggregate calls the real aggregate function on the values described by specs.
func aggregate(fn, vals string) (obs string) {
	defer func() {
		if rec := recover(); rec != nil {
			obs = "panic"
		}
	}()
	agg, err := otypes.GetAggregateFunc(fn)
	if err != nil {
		return "rej"
	}
	var args []otypes.ArgsType
	if v := hx.Undash(vals); v != "" {
		for _, s := range strings.Split(v, "|") {
			args = append(args, argOf(s))
		}
	}
	return "ok " + agg(args)
}

// respond delivers a real MsgRespondService from the provider for its request in the feed's
// current batch (an unknown request id if there is none) and reports what the service did.
func (r *R) respond(ctx sdk.Context, feedName, prov, spec string) (string, []string) {
	k := r.env.Service
	feed, found := r.env.Oracle.GetFeed(ctx, feedName)
	reqID := strings.Repeat("0", stypes.RequestIDLen)
	path := "last"
	var id []byte
	if found {
		path = feed.ValueJsonPath
		id = unhexStr(feed.RequestContextID)
		if rc, ok := k.GetRequestContext(ctx, id); ok {
			it := k.RequestsIteratorByReqCtx(ctx, id, rc.BatchCounter)
			for ; it.Valid(); it.Next() {
				rid := it.Key()[1:]
				if req, ok := k.GetRequest(ctx, rid); ok && req.Provider == r.addr(prov) {
					reqID = strings.ToUpper(hx.Hex(rid))
				}
			}
			it.Close()
		}
	}
	result, output := buildOutput(path, spec)
	out := r.env.Deliver(ctx, &stypes.MsgRespondService{RequestId: reqID, Provider: r.addr(prov), Result: result, Output: output})
	if out.Class != hx.OK {
		return out.Class, nil
	}
	var cbs []string
	if found && out.Raw != nil && hasCompleteBatch(out.Raw.Events, feed.RequestContextID) {
		rc, _ := k.GetRequestContext(ctx, id)
		cbs = append(cbs, doneCb(feedName, rc.BatchCounter, rc.BatchResponseThreshold, k.GetResponseOutputs(ctx, id, rc.BatchCounter)))
	}
	return hx.OK, cbs
}

// block runs the service EndBlocker of the current height, then opens the next block.
func (r *R) block(ctx sdk.Context, dt int64) (sdk.Context, []string, bool) {
	before := r.snapshot(ctx)
	ectx := ctx.WithEventManager(sdk.NewEventManager())
	if p, _ := hx.NoPanic(func() { service.EndBlocker(ectx, r.env.Service) }); p {
		return ctx, nil, true
	}
	evs := ectx.EventManager().ABCIEvents()
	var cbs []string
	for _, s := range before {
		if hasCompleteBatch(evs, s.idStr) {
			cbs = append(cbs, doneCb(s.name, s.rc.BatchCounter, s.rc.BatchResponseThreshold, s.outs))
		}
	}
	for _, s := range before {
		if rc, ok := r.env.Service.GetRequestContext(ctx, s.id); ok && s.rc.State == stypes.RUNNING && rc.State == stypes.PAUSED {
			cbs = append(cbs, fmt.Sprintf("state/%s/paused", s.name))
		}
	}
	nctx := hx.WithBlock(ctx, ctx.BlockHeight()+1, ctx.BlockTime().Add(time.Duration(dt)*time.Second))
	service.BeginBlocker(nctx, r.env.Service)
	return nctx, cbs, false
}
