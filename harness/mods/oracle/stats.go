package oracle

import (
	"fmt"
	"os"
	"sort"
	"strings"

	"verifharness/hx"
)

// AppendStats adds branch counters (which situations the generated histories reached) to
// <prefix>.stats, computed from the written operation and observation streams.
func AppendStats(prefix string) {
	ops := hx.ReadLines(prefix + ".ops")
	obs := hx.ReadLines(prefix + ".impl")
	if len(ops) != len(obs) {
		return
	}
	c := map[string]int{}
	type feed struct {
		creator, agg string
		hist, nvals  int
	}
	parse := func(line string) map[string]feed {
		a := hx.Args(strings.Fields(line))
		m := map[string]feed{}
		for _, e := range strings.Split(a["feeds"], ",") {
			p := strings.Split(e, ":")
			if len(p) == 6 {
				var h int
				fmt.Sscanf(p[4], "%d", &h)
				m[p[0]] = feed{creator: p[1], agg: p[2], hist: h}
			}
		}
		for _, e := range strings.Split(a["vals"], ",") {
			p := strings.SplitN(e, ":", 2)
			if len(p) == 2 {
				f := m[p[0]]
				f.nvals = strings.Count(p[1], "|") + 1
				m[p[0]] = f
			}
		}
		return m
	}
	pre := map[string]feed{}
	reimported := false           // a re-import happened earlier in the current history
	impKey := map[string]string{} // feed -> batch counter its imported value sits under
	for i, l := range ops {
		t := strings.Fields(l)
		a := hx.Args(t[2:])
		res := strings.SplitN(obs[i], " ", 2)[0]
		if t[1] == "reset" {
			reimported = false
			impKey = map[string]string{}
		}
		if reimported && res == "ok" && t[1] != "export" && t[1] != "reimport" && t[1] != "agg" && t[1] != "aggtol" {
			c["branch.after-reimport.ok."+t[1]]++
		}
		switch t[1] {
		case "export":
			c["branch.export.validate-"+hx.Args(strings.Fields(obs[i]))["validate"]]++
		case "reimport":
			if res == "ok" {
				reimported = true
				impKey = map[string]string{}
				for _, e := range strings.Split(hx.Args(strings.Fields(obs[i]))["batches"], ",") {
					if p := strings.SplitN(e, ":", 2); len(p) == 2 && pre[p[0]].nvals > 0 {
						impKey[p[0]] = p[1]
					}
				}
			}
			c["branch.reimport.same-"+hx.Args(strings.Fields(obs[i]))["same"]]++
			for _, f := range pre {
				switch {
				case f.nvals >= 2:
					c["branch.reimport.feed-with-2plus-values"]++
				case f.nvals == 1:
					c["branch.reimport.feed-with-1-value"]++
				default:
					c["branch.reimport.feed-without-value"]++
				}
			}
		case "start_feed", "pause_feed", "edit_feed":
			if f, ok := pre[a["name"]]; ok && f.creator != a["sender"] {
				c["branch.stranger."+t[1]+"."+res]++
			}
			if t[1] == "edit_feed" && res == "ok" {
				f := pre[a["name"]]
				var h int
				fmt.Sscanf(a["hist"], "%d", &h)
				switch {
				case h == 0:
					c["branch.edit.hist-kept"]++
				case h < f.nvals:
					c["branch.edit.shrink-trims-values"]++
				case h < f.hist:
					c["branch.edit.shrink-no-trim"]++
				case h > f.hist:
					c["branch.edit.grow"]++
				default:
					c["branch.edit.hist-same"]++
				}
			}
		case "respond":
			if a["out"] == "err" {
				c["branch.respond.error-result"]++
			}
		case "agg", "aggtol":
			c["branch."+t[1]+"."+a["fn"]]++
		}
		if cb := hx.Args(strings.Fields(obs[i]))["cbs"]; cb != "" && cb != "-" {
			for _, e := range strings.Split(cb, ";") {
				p := strings.Split(e, "/")
				if p[0] == "state" {
					c["branch.cb.auto-pause"]++
					continue
				}
				var thr int
				fmt.Sscanf(p[3], "%d", &thr)
				outs := []string{}
				if p[4] != "-" {
					outs = strings.Split(p[4], "|")
				}
				switch {
				case len(outs) == 0:
					c["branch.cb.batch-no-output"]++
				case len(outs) < thr:
					c["branch.cb.batch-below-threshold"]++
				default:
					c["branch.cb.batch-stored"]++
					if reimported {
						c["branch.cb.batch-stored-after-reimport"]++
					}
					if k, ok := impKey[p[1]]; ok {
						if k == p[2] {
							// the batch that was open at the import completes under the imported value's key
							c["branch.cb.batch-overwrites-imported-value"]++
						} else {
							c["branch.cb.batch-appends-to-imported-value"]++
						}
						delete(impKey, p[1])
					}
					f := pre[p[1]]
					neg, pos, inv := 0, 0, 0
					for _, o := range outs {
						switch {
						case strings.HasPrefix(o, "n-") || strings.HasPrefix(o, "s-"):
							neg++
						case o[0] == 'n' || o[0] == 's' || o[0] == 't':
							pos++
						default:
							inv++
						}
					}
					switch {
					case neg == len(outs):
						c["branch.batch."+f.agg+".all-negative"]++
					case neg > 0:
						c["branch.batch."+f.agg+".mixed-sign"]++
					default:
						c["branch.batch."+f.agg+".non-negative"]++
					}
					if inv > 0 {
						c["branch.batch.with-non-numeric-output"]++
					}
					if f.nvals >= f.hist {
						c["branch.batch.trims-oldest"]++
					}
				}
			}
		}
		if t[1] != "agg" && t[1] != "aggtol" {
			pre = parse(obs[i])
		}
	}
	f, err := os.OpenFile(prefix+".stats", os.O_APPEND|os.O_WRONLY, 0o644)
	if err != nil {
		return
	}
	defer f.Close()
	keys := make([]string, 0, len(c))
	for k := range c {
		keys = append(keys, k)
	}
	sort.Strings(keys)
	for _, k := range keys {
		fmt.Fprintf(f, "%s=%d\n", k, c[k])
	}
}
