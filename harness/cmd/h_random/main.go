package main

import (
	"verifharness/hx"
	"verifharness/mods/random"
)

func main() {
	o := hx.ParseOpts()
	env := hx.NewEnv()
	hx.RunHistories(env, random.New(env), o)
}
