package main

import (
	"verifharness/hx"
	"verifharness/mods/nft"
)

func main() {
	o := hx.ParseOpts()
	env := hx.NewEnv()
	hx.RunHistories(env, nft.New(env), o)
}
