// h_sdk: conformance of the Lean SDK substrate with cosmossdk.io/math and crypto/sha256.
package main

import (
	"crypto/sha256"
	"fmt"
	"math/big"

	sdkmath "cosmossdk.io/math"

	"verifharness/hx"
)

func dec(raw *big.Int) sdkmath.LegacyDec { return sdkmath.LegacyNewDecFromBigIntWithPrec(raw, 18) }

func try(f func() string) (s string) {
	defer func() {
		if r := recover(); r != nil {
			s = "panic"
		}
	}()
	return f()
}

func rawOf(d sdkmath.LegacyDec) string { return d.BigInt().String() }

func main() {
	o := hx.ParseOpts()
	out := hx.NewOut(o.Out)
	defer out.Close()
	g := hx.NewRng(o.Seed)
	p18 := new(big.Int).Exp(big.NewInt(10), big.NewInt(18), nil)
	operand := func(maxBits int) *big.Int {
		var v *big.Int
		switch g.Pick(5, 2, 2, 2) {
		case 0:
			v = g.BigRaw(1 + g.Intn(maxBits))
		case 1: // multiples of 10^18 ± small
			v = new(big.Int).Mul(g.BigBits(1+g.Intn(70)).BigInt(), p18)
			v.Add(v, big.NewInt(g.Range(-2, 2)))
		case 2: // half-way residues
			v = new(big.Int).Mul(g.BigBits(1+g.Intn(70)).BigInt(), p18)
			v.Add(v, new(big.Int).Quo(p18, big.NewInt(2)))
			v.Add(v, big.NewInt(g.Range(-1, 1)))
		default: // range edges
			e := []int{255, 256, 314, 315, 316}[g.Intn(5)]
			v = new(big.Int).Lsh(big.NewInt(1), uint(e))
			v.Add(v, big.NewInt(g.Range(-2, 2)))
		}
		if g.Chance(1, 4) {
			v.Neg(v)
		}
		return v
	}
	dops := []string{"dadd", "dsub", "dmul", "dmultrunc", "dmulroundup", "dmulint", "dquo", "dquotrunc", "dquoroundup", "dquoint", "dtruncint", "droundint", "dstr"}
	iops := []string{"iadd", "isub", "imul", "iquo"}
	n := o.N * o.Len
	for i := 0; i < n; i++ {
		switch g.Pick(8, 3, 1) {
		case 0:
			op := dops[g.Intn(len(dops))]
			a, b := operand(315), operand(260)
			if g.Chance(1, 30) {
				b = big.NewInt(0)
			}
			if a.BitLen() > 315 || (b.BitLen() > 315) {
				// operands themselves must be representable
				a = new(big.Int).Rsh(a, 2)
				b = new(big.Int).Rsh(b, 2)
			}
			res := try(func() string {
				x, y := dec(a), dec(b)
				switch op {
				case "dadd":
					return rawOf(x.Add(y))
				case "dsub":
					return rawOf(x.Sub(y))
				case "dmul":
					return rawOf(x.Mul(y))
				case "dmultrunc":
					return rawOf(x.MulTruncate(y))
				case "dmulroundup":
					return rawOf(x.MulRoundUp(y))
				case "dmulint":
					return rawOf(x.MulInt(sdkmath.NewIntFromBigInt(b)))
				case "dquo":
					return rawOf(x.Quo(y))
				case "dquotrunc":
					return rawOf(x.QuoTruncate(y))
				case "dquoroundup":
					return rawOf(x.QuoRoundUp(y))
				case "dquoint":
					return rawOf(x.QuoInt(sdkmath.NewIntFromBigInt(b)))
				case "dtruncint":
					return x.TruncateInt().String()
				case "droundint":
					return x.RoundInt().String()
				default:
					return x.String()
				}
			})
			if (op == "dmulint" || op == "dquoint") && b.BitLen() > 256 {
				continue // NewIntFromBigInt would panic on the operand itself
			}
			out.Op(fmt.Sprintf("sdk %s %s %s", op, a, b), res)
			out.Count(op)
		case 1:
			op := iops[g.Intn(len(iops))]
			a, b := operand(256), operand(256)
			if a.BitLen() > 256 || b.BitLen() > 256 {
				a = new(big.Int).Rsh(a, 61)
				b = new(big.Int).Rsh(b, 61)
			}
			if g.Chance(1, 30) {
				b = big.NewInt(0)
			}
			res := try(func() string {
				x, y := sdkmath.NewIntFromBigInt(a), sdkmath.NewIntFromBigInt(b)
				switch op {
				case "iadd":
					return x.Add(y).String()
				case "isub":
					return x.Sub(y).String()
				case "imul":
					return x.Mul(y).String()
				default:
					return x.Quo(y).String()
				}
			})
			out.Op(fmt.Sprintf("sdk %s %s %s", op, a, b), res)
			out.Count(op)
		default:
			b := g.Bytes(g.Intn(200))
			h := sha256.Sum256(b)
			out.Op("sdk sha256 "+hx.Dash(hx.Hex(b)), hx.Hex(h[:]))
			out.Count("sha256")
		}
	}
}
