// h_chain: whole-application experiments on a real chain (signed transactions through
// FinalizeBlock + Commit): one generated multi-module history is executed
//   - on replica X, and again on replica Y which is restarted (fresh application instance over
//     the same database) at a block boundary: per-block app hashes and transaction results
//     (code, codespace, data, gas used) must be byte-identical                    (C11)
//   - every FinalizeBlock / Commit must complete: a returned error or a panic is a halt   (C13)
//   - at the end the application's own export is re-imported with InitChain into a fresh
//     chain; both chains then execute one more identical empty block and the irismod sections
//     of their exports must be equal                                               (C12)
package main

import (
	"bytes"
	"crypto/sha256"
	"encoding/hex"
	"encoding/json"
	"fmt"
	"os"
	"sort"
	"strings"
	"time"

	sdkmath "cosmossdk.io/math"
	sdk "github.com/cosmos/cosmos-sdk/types"
	banktypes "github.com/cosmos/cosmos-sdk/x/bank/types"

	coinswaptypes "mods.irisnet.org/modules/coinswap/types"
	farmkeeper "mods.irisnet.org/modules/farm/keeper"
	farmtypes "mods.irisnet.org/modules/farm/types"
	htlctypes "mods.irisnet.org/modules/htlc/types"
	mttypes "mods.irisnet.org/modules/mt/types"
	nfttypes "mods.irisnet.org/modules/nft/types"
	oracletypes "mods.irisnet.org/modules/oracle/types"
	randomtypes "mods.irisnet.org/modules/random/types"
	recordtypes "mods.irisnet.org/modules/record/types"
	servicetypes "mods.irisnet.org/modules/service/types"
	tokenv1 "mods.irisnet.org/modules/token/types/v1"

	"verifharness/hx"
)

const nAcc = 5

var irismods = []string{"coinswap", "farm", "htlc", "mt", "nft", "oracle", "random", "record", "service", "token"}

// plan is a history: per block a list of message constructors evaluated against the chain
// they run on (ids are looked up in that chain's own state, so replicas resolve them alike).
type step func(c *hx.Chain, st *state) *hx.SignedMsg

type state struct {
	secrets map[string]string // htlc id -> secret (hex)
}

func addr(i int) string { return hx.KeyAddr(i).String() }

func coin(d string, n int64) sdk.Coin { return sdk.NewCoin(d, sdkmath.NewInt(n)) }

// genPlan draws a history of `blocks` blocks from the seed. Every random choice is made here,
// so the plan is identical for every replica; lookups of ids happen at execution time.
func genPlan(seed uint64, blocks int) [][]step {
	g := hx.NewRng(seed)
	var plan [][]step
	symbols := []string{}
	nftClasses := []string{}
	for b := 0; b < blocks; b++ {
		var blk []step
		for k := g.Intn(4); k > 0; k-- {
			who := g.Intn(nAcc)
			other := g.Intn(nAcc)
			r1, r2, r3 := g.U64(), g.U64(), g.U64()
			switch g.Pick(3, 4, 4, 4, 3, 4, 4, 3, 3, 4) {
			case 0: // bank send
				amt := int64(1 + r1%1000)
				blk = append(blk, func(c *hx.Chain, st *state) *hx.SignedMsg {
					return &hx.SignedMsg{Msg: &banktypes.MsgSend{FromAddress: addr(who), ToAddress: addr(other), Amount: sdk.NewCoins(coin("stake", amt))}, Signer: who}
				})
			case 1: // token
				if len(symbols) == 0 || r1%4 == 0 {
					sym := fmt.Sprintf("tk%c%c%c", 'a'+byte(r2%26), 'a'+byte(r2/26%26), 'a'+byte(len(symbols)%26))
					symbols = append(symbols, sym)
					blk = append(blk, func(c *hx.Chain, st *state) *hx.SignedMsg {
						return &hx.SignedMsg{Msg: &tokenv1.MsgIssueToken{Symbol: sym, Name: "n" + sym, Scale: uint32(r3 % 7), MinUnit: "u" + sym, InitialSupply: 1000 + r3%1000, MaxSupply: 1000000, Mintable: true, Owner: addr(who)}, Signer: who}
					})
				} else {
					sym := symbols[r2%uint64(len(symbols))]
					switch r3 % 3 {
					case 0:
						blk = append(blk, func(c *hx.Chain, st *state) *hx.SignedMsg {
							return &hx.SignedMsg{Msg: &tokenv1.MsgMintToken{Coin: coin("u"+sym, int64(1+r1%5000)), Receiver: addr(other), Owner: addr(who)}, Signer: who}
						})
					case 1:
						blk = append(blk, func(c *hx.Chain, st *state) *hx.SignedMsg {
							return &hx.SignedMsg{Msg: &tokenv1.MsgBurnToken{Coin: coin("u"+sym, int64(1+r1%500)), Sender: addr(who)}, Signer: who}
						})
					default:
						blk = append(blk, func(c *hx.Chain, st *state) *hx.SignedMsg {
							return &hx.SignedMsg{Msg: &tokenv1.MsgTransferTokenOwner{SrcOwner: addr(who), DstOwner: addr(other), Symbol: sym}, Signer: who}
						})
					}
				}
			case 2: // mt
				blk = append(blk, func(c *hx.Chain, st *state) *hx.SignedMsg {
					ctx := c.QueryCtx()
					ds := c.Env.MT.GetDenoms(ctx)
					if len(ds) == 0 || r1%5 == 0 {
						return &hx.SignedMsg{Msg: &mttypes.MsgIssueDenom{Name: "d", Sender: addr(who)}, Signer: who}
					}
					d := ds[r2%uint64(len(ds))]
					mts := c.Env.MT.GetMTs(ctx, d.Id)
					owner := who
					for i := 0; i < nAcc; i++ {
						if addr(i) == d.Owner {
							owner = i
						}
					}
					if len(mts) == 0 || r3%3 == 0 {
						return &hx.SignedMsg{Msg: &mttypes.MsgMintMT{DenomId: d.Id, Amount: 1 + r3%1000, Sender: addr(owner), Recipient: addr(other)}, Signer: owner}
					}
					m := mts[r3%uint64(len(mts))]
					if r1%2 == 0 {
						return &hx.SignedMsg{Msg: &mttypes.MsgTransferMT{Id: m.GetID(), DenomId: d.Id, Amount: 1 + r1%50, Sender: addr(who), Recipient: addr(other)}, Signer: who}
					}
					return &hx.SignedMsg{Msg: &mttypes.MsgBurnMT{Id: m.GetID(), DenomId: d.Id, Amount: 1 + r1%20, Sender: addr(who)}, Signer: who}
				})
			case 3: // nft
				if len(nftClasses) == 0 || r1%5 == 0 {
					id := fmt.Sprintf("cls%c%c%d", 'a'+byte(r2%26), 'a'+byte(r2/26%26), len(nftClasses))
					nftClasses = append(nftClasses, id)
					blk = append(blk, func(c *hx.Chain, st *state) *hx.SignedMsg {
						return &hx.SignedMsg{Msg: &nfttypes.MsgIssueDenom{Id: id, Name: "n" + id, Sender: addr(who), Symbol: "sym", MintRestricted: r3%2 == 0, UpdateRestricted: r3%4 < 2}, Signer: who}
					})
				} else {
					cls := nftClasses[r2%uint64(len(nftClasses))]
					tok := fmt.Sprintf("tok%d", r3%6)
					switch r1 % 4 {
					case 0:
						blk = append(blk, func(c *hx.Chain, st *state) *hx.SignedMsg {
							return &hx.SignedMsg{Msg: &nfttypes.MsgMintNFT{Id: tok, DenomId: cls, Name: "t", URI: "uri", Sender: addr(who), Recipient: addr(other)}, Signer: who}
						})
					case 1:
						blk = append(blk, func(c *hx.Chain, st *state) *hx.SignedMsg {
							return &hx.SignedMsg{Msg: &nfttypes.MsgTransferNFT{Id: tok, DenomId: cls, Name: "[do-not-modify]", URI: "[do-not-modify]", Data: "[do-not-modify]", UriHash: "[do-not-modify]", Sender: addr(who), Recipient: addr(other)}, Signer: who}
						})
					case 2:
						blk = append(blk, func(c *hx.Chain, st *state) *hx.SignedMsg {
							return &hx.SignedMsg{Msg: &nfttypes.MsgEditNFT{Id: tok, DenomId: cls, Name: "e", URI: "[do-not-modify]", Data: "[do-not-modify]", UriHash: "[do-not-modify]", Sender: addr(who)}, Signer: who}
						})
					default:
						blk = append(blk, func(c *hx.Chain, st *state) *hx.SignedMsg {
							return &hx.SignedMsg{Msg: &nfttypes.MsgBurnNFT{Id: tok, DenomId: cls, Sender: addr(who)}, Signer: who}
						})
					}
				}
			case 4: // record
				blk = append(blk, func(c *hx.Chain, st *state) *hx.SignedMsg {
					return &hx.SignedMsg{Msg: &recordtypes.MsgCreateRecord{Contents: []recordtypes.Content{{Digest: fmt.Sprintf("%x", r1%8), DigestAlgo: "sha256", URI: "u", Meta: "m"}}, Creator: addr(who)}, Signer: who}
				})
			case 5: // htlc create / claim
				if r1%3 != 0 {
					secret := sha256.Sum256([]byte(fmt.Sprintf("s%d", r2)))
					ts := uint64(0)
					if r3%2 == 0 {
						ts = 1700000000 + r3%1000
					}
					amt := sdk.NewCoins(coin("stake", int64(1+r1%500)))
					lock := uint64(50 + r2%10)
					blk = append(blk, func(c *hx.Chain, st *state) *hx.SignedMsg {
						hl := htlctypes.GetHashLock(secret[:], ts)
						id := htlctypes.GetID(hx.KeyAddr(who), hx.KeyAddr(other), amt, hl)
						st.secrets[hex.EncodeToString(id)] = hex.EncodeToString(secret[:])
						return &hx.SignedMsg{Msg: &htlctypes.MsgCreateHTLC{Sender: addr(who), To: addr(other), Amount: amt, HashLock: hex.EncodeToString(hl), Timestamp: ts, TimeLock: lock}, Signer: who}
					})
				} else {
					blk = append(blk, func(c *hx.Chain, st *state) *hx.SignedMsg {
						ids := make([]string, 0, len(st.secrets))
						for id := range st.secrets {
							ids = append(ids, id)
						}
						if len(ids) == 0 {
							return nil
						}
						sort.Strings(ids)
						id := ids[r2%uint64(len(ids))]
						sec := st.secrets[id]
						if r3%5 == 0 {
							sec = strings.Repeat("ab", 32)
						}
						return &hx.SignedMsg{Msg: &htlctypes.MsgClaimHTLC{Sender: addr(who), Id: id, Secret: sec}, Signer: who}
					})
				}
			case 6: // coinswap: add liquidity for a token (creates pool), swap, remove
				if len(symbols) == 0 {
					continue
				}
				sym := symbols[r2%uint64(len(symbols))]
				denom := "u" + sym
				switch r1 % 4 {
				case 0, 1:
					blk = append(blk, func(c *hx.Chain, st *state) *hx.SignedMsg {
						return &hx.SignedMsg{Msg: &coinswaptypes.MsgAddLiquidity{MaxToken: coin(denom, int64(100+r3%900)), ExactStandardAmt: sdkmath.NewInt(int64(100 + r1%900)), MinLiquidity: sdkmath.NewInt(1), Deadline: c.Time.Unix() + 1000, Sender: addr(who)}, Signer: who}
					})
				case 2:
					blk = append(blk, func(c *hx.Chain, st *state) *hx.SignedMsg {
						return &hx.SignedMsg{Msg: &coinswaptypes.MsgSwapOrder{Input: coinswaptypes.Input{Address: addr(who), Coin: coin("stake", int64(10+r3%100))}, Output: coinswaptypes.Output{Address: addr(other), Coin: coin(denom, 1)}, Deadline: c.Time.Unix() + 1000, IsBuyOrder: false}, Signer: who}
					})
				default:
					blk = append(blk, func(c *hx.Chain, st *state) *hx.SignedMsg {
						ctx := c.QueryCtx()
						pool, ok := c.Env.Coinswap.GetPool(ctx, coinswaptypes.GetPoolId(denom))
						if !ok {
							return nil
						}
						return &hx.SignedMsg{Msg: &coinswaptypes.MsgRemoveLiquidity{WithdrawLiquidity: coin(pool.LptDenom, int64(1+r3%50)), MinToken: sdkmath.NewInt(0), MinStandardAmt: sdkmath.NewInt(0), Deadline: c.Time.Unix() + 1000, Sender: addr(who)}, Signer: who}
					})
				}
			case 7: // farm over an existing lpt denom
				blk = append(blk, func(c *hx.Chain, st *state) *hx.SignedMsg {
					ctx := c.QueryCtx()
					pools := c.Env.Coinswap.GetAllPools(ctx)
					if len(pools) == 0 {
						return nil
					}
					lpt := pools[r2%uint64(len(pools))].LptDenom
					var fps []farmtypes.FarmPool
					c.Env.Farm.IteratorAllPools(ctx, func(p farmtypes.FarmPool) { fps = append(fps, p) })
					if len(fps) == 0 || r1%5 == 0 {
						return &hx.SignedMsg{Msg: &farmtypes.MsgCreatePool{Description: "f", LptDenom: lpt, StartHeight: c.Height + 2 + int64(r3%3), RewardPerBlock: sdk.NewCoins(coin("stake", int64(1+r3%7))), TotalReward: sdk.NewCoins(coin("stake", int64(20+r3%60))), Editable: true, Creator: addr(who)}, Signer: who}
					}
					fp := fps[r3%uint64(len(fps))]
					switch r1 % 4 {
					case 0, 1:
						return &hx.SignedMsg{Msg: &farmtypes.MsgStake{PoolId: fp.Id, Amount: coin(fp.TotalLptLocked.Denom, int64(1+r2%30)), Sender: addr(who)}, Signer: who}
					case 2:
						return &hx.SignedMsg{Msg: &farmtypes.MsgUnstake{PoolId: fp.Id, Amount: coin(fp.TotalLptLocked.Denom, int64(1+r2%10)), Sender: addr(who)}, Signer: who}
					default:
						return &hx.SignedMsg{Msg: &farmtypes.MsgHarvest{PoolId: fp.Id, Sender: addr(who)}, Signer: who}
					}
				})
			case 8: // random request
				blk = append(blk, func(c *hx.Chain, st *state) *hx.SignedMsg {
					return &hx.SignedMsg{Msg: &randomtypes.MsgRequestRandom{BlockInterval: 1 + r1%6, Consumer: addr(who)}, Signer: who}
				})
			default: // service: define / bind / call / respond
				blk = append(blk, func(c *hx.Chain, st *state) *hx.SignedMsg {
					ctx := c.QueryCtx()
					name := fmt.Sprintf("svc%d", r2%2)
					if _, ok := c.Env.Service.GetServiceDefinition(ctx, name); !ok {
						return &hx.SignedMsg{Msg: &servicetypes.MsgDefineService{Name: name, Description: "d", Author: addr(who), Schemas: `{"input":{"type":"object"},"output":{"type":"object"},"error":{"type":"object"}}`}, Signer: who}
					}
					prov := int(r3 % 2)
					if _, ok := c.Env.Service.GetServiceBinding(ctx, name, hx.KeyAddr(prov)); !ok {
						return &hx.SignedMsg{Msg: &servicetypes.MsgBindService{ServiceName: name, Provider: addr(prov), Deposit: sdk.NewCoins(coin("stake", 50000)), Pricing: `{"price": "5stake"}`, QoS: 5, Options: "{}", Owner: addr(prov)}, Signer: prov}
					}
					// oracle feeds on top of the service: create / start / pause / edit
					if r1%5 == 1 {
						fname := fmt.Sprintf("feed%d", r2%2)
						feed, ok := c.Env.Oracle.GetFeed(ctx, fname)
						if !ok {
							return &hx.SignedMsg{Msg: &oracletypes.MsgCreateFeed{FeedName: fname, LatestHistory: 3, Description: "d", Creator: addr(who), ServiceName: name,
								Providers: []string{addr(prov)}, Input: `{"header":{},"body":{}}`, Timeout: 3, ServiceFeeCap: sdk.NewCoins(coin("stake", 10)),
								RepeatedFrequency: 5, AggregateFunc: []string{"avg", "max", "min"}[r3%3], ValueJsonPath: "last", ResponseThreshold: 1}, Signer: who}
						}
						creator := who
						for i := 0; i < nAcc; i++ {
							if addr(i) == feed.Creator {
								creator = i
							}
						}
						switch r3 % 3 {
						case 0:
							return &hx.SignedMsg{Msg: &oracletypes.MsgStartFeed{FeedName: fname, Creator: addr(creator)}, Signer: creator}
						case 1:
							return &hx.SignedMsg{Msg: &oracletypes.MsgPauseFeed{FeedName: fname, Creator: addr(creator)}, Signer: creator}
						default:
							return &hx.SignedMsg{Msg: &oracletypes.MsgEditFeed{FeedName: fname, Description: "e", LatestHistory: 1 + r2%4, Creator: addr(creator)}, Signer: creator}
						}
					}
					// respond to a pending request of this provider if there is one
					if r1%2 == 0 {
						var reqID string
						it := c.Env.Service.ActiveRequestsIterator(ctx, name, hx.KeyAddr(prov))
						if it.Valid() {
							reqID = hex.EncodeToString(it.Key()[len(it.Key())-58:])
						}
						it.Close()
						if reqID != "" {
							return &hx.SignedMsg{Msg: &servicetypes.MsgRespondService{RequestId: strings.ToUpper(reqID), Provider: addr(prov), Result: `{"code":200,"message":""}`, Output: fmt.Sprintf(`{"header":{},"body":{"last":"%d.5"}}`, r3%90)}, Signer: prov}
						}
					}
					return &hx.SignedMsg{Msg: &servicetypes.MsgCallService{ServiceName: name, Providers: []string{addr(prov)}, Consumer: addr(who), Input: `{"header":{},"body":{}}`, ServiceFeeCap: sdk.NewCoins(coin("stake", 10)), Timeout: 3 + int64(r3%3), Repeated: r1%3 == 0, RepeatedFrequency: 6, RepeatedTotal: 2}, Signer: who}
				})
			}
		}
		plan = append(plan, blk)
	}
	return plan
}

type blockRec struct {
	hash    string
	results string
}

func fmtResults(rs []hx.TxResult) string {
	var sb strings.Builder
	for _, r := range rs {
		fmt.Fprintf(&sb, "%s/%d/%x/%d;", r.Codespace, r.Code, r.Data, r.GasUsed)
	}
	return sb.String()
}

// one genesis for all replicas of a run: the property is about the SAME genesis (a default
// genesis built twice differs: fresh validator key, htlc's time.Now() default)
var sharedGenesis json.RawMessage

func newChain() (*hx.Chain, error) {
	funds := sdk.NewCoins(coin("stake", 1_000_000_000))
	c, err := hx.NewChain(nAcc, funds, time.Unix(1700000000, 0).UTC(), sharedGenesis)
	if err == nil && sharedGenesis == nil {
		sharedGenesis = c.Genesis
	}
	return c, err
}

// runPlan executes the plan; restartAt < 0 means never restart.
func runPlan(plan [][]step, restartAt int) (*hx.Chain, []blockRec, map[string]int, error) {
	c, err := newChain()
	if err != nil {
		return nil, nil, nil, fmt.Errorf("genesis: %v", err)
	}
	st := &state{secrets: map[string]string{}}
	var recs []blockRec
	codes := map[string]int{}
	for i, blk := range plan {
		if i == restartAt {
			if err := c.Restart(); err != nil {
				return c, recs, codes, err
			}
		}
		var msgs []hx.SignedMsg
		for _, s := range blk {
			if m := s(c, st); m != nil {
				msgs = append(msgs, *m)
			}
		}
		rs, err := c.Block(msgs, 5*time.Second)
		if err != nil {
			return c, recs, codes, err
		}
		for j, r := range rs {
			k := fmt.Sprintf("%T", msgs[j].Msg)
			k = k[strings.LastIndex(k, ".")+1:]
			if r.Code == 0 {
				codes[k+".ok"]++
			} else {
				codes[k+".rej"]++
			}
		}
		recs = append(recs, blockRec{hex.EncodeToString(c.AppHash()), fmtResults(rs)})
	}
	return c, recs, codes, nil
}

func irisSections(appState json.RawMessage) (map[string]json.RawMessage, error) {
	var all map[string]json.RawMessage
	if err := json.Unmarshal(appState, &all); err != nil {
		return nil, err
	}
	out := map[string]json.RawMessage{}
	for _, m := range irismods {
		out[m] = all[m]
	}
	return out, nil
}

func clean(s string) string {
	s = strings.ReplaceAll(s, " ", "_")
	s = strings.ReplaceAll(s, "\n", "_")
	if len(s) > 160 {
		s = s[:160]
	}
	return s
}

func experiment(seed uint64, blocks int, zero bool, out *hx.Out) string {
	plan := genPlan(seed, blocks)
	x, rx, codes, err := runPlan(plan, -1)
	for k, v := range codes {
		out.Hist["tx."+k] += v
	}
	if err != nil {
		return "ok halted=true where=" + clean(err.Error())
	}
	restartAt := 1 + int(seed%uint64(blocks-1))
	y, ry, _, err := runPlan(plan, restartAt)
	if err != nil {
		return "ok halted=true where=replica:" + clean(err.Error())
	}
	hashSame, resSame := true, true
	firstDiff := -1
	for i := range rx {
		if i >= len(ry) || rx[i].hash != ry[i].hash {
			hashSame = false
		}
		if i >= len(ry) || rx[i].results != ry[i].results {
			resSame = false
		}
		if (!hashSame || !resSame) && firstDiff < 0 {
			firstDiff = i
		}
	}
	res := fmt.Sprintf("ok halted=false apphash_same=%v results_same=%v", hashSame, resSame)
	// process-local registries and caches held by the keepers (map-typed fields): a node that was
	// restarted must hold the same entries as one that ran through — anything filled lazily at run
	// time (instead of at wiring or from the store) differs here before it differs in state
	regX, regY := hx.RegistryDigest(x.Env), hx.RegistryDigest(y.Env)
	res += fmt.Sprintf(" registries_same=%v", regX == regY)
	if regX != regY {
		res += " regdiff=" + clean(hx.FirstDiff(regX, regY))
	}
	if firstDiff >= 0 {
		res += fmt.Sprintf(" first_diff_block=%d", firstDiff)
	}
	// the modules' own registered invariants must hold on the chain that produced the export
	if msg, broken := farmkeeper.RewardInvariant(x.Env.Farm)(x.QueryCtx()); broken {
		res += " invariant_before_export=broken:" + clean(msg)
	}
	// export -> InitChain -> one identical empty block on both -> compare irismod sections
	exp, err := x.Export(zero)
	if os.Getenv("VERIF_DEBUG_EXPORT") != "" {
		secs, _ := irisSections(exp)
		fmt.Fprintf(os.Stderr, "FARM EXPORT: %s\n", secs["farm"])
	}
	if err != nil {
		return res + " export=" + clean(err.Error())
	}
	funds := sdk.NewCoins()
	initial := x.Height + 1
	if zero {
		initial = 1 // a zero-height export restarts the chain from the beginning
	}
	z, err := hx.NewChainAt(nAcc, funds, x.Time, exp, initial)
	if err != nil {
		return res + " export=ok import=" + clean(err.Error())
	}
	if zero {
		// heights restart, so the two chains are not comparable block by block: the re-imported
		// chain must simply keep running for a while
		for i := 0; i < 40; i++ {
			if _, err := z.Block(nil, 5*time.Second); err != nil {
				return res + " export=ok import=ok reimported_halted=true where=" + clean(err.Error())
			}
		}
		return res + " export=ok import=ok reimported_halted=false"
	}
	if _, err := x.Block(nil, 5*time.Second); err != nil {
		return res + " halted_after_export=true where=" + clean(err.Error())
	}
	ex, err1 := x.Export(false)
	ez, err2 := z.Export(false)
	if err1 != nil || err2 != nil {
		return res + " export=ok import=ok reexport=err"
	}
	sx, _ := irisSections(ex)
	sz, _ := irisSections(ez)
	var diffs []string
	for _, m := range irismods {
		if !bytes.Equal(sx[m], sz[m]) {
			diffs = append(diffs, m)
		}
	}
	res += fmt.Sprintf(" export=ok import=ok fixpoint=%v", len(diffs) == 0)
	if len(diffs) > 0 {
		res += " differing=" + strings.Join(diffs, ",")
	}
	// the re-imported chain must keep running
	for i := 0; i < 8; i++ {
		if _, err := z.Block(nil, 5*time.Second); err != nil {
			return res + " reimported_halted=true where=" + clean(err.Error())
		}
	}
	return res + " reimported_halted=false"
}

func main() {
	o := hx.ParseOpts()
	out := hx.NewOut(o.Out)
	defer out.Close()
	run := func(line string) string {
		a := hx.Args(strings.Fields(line)[2:])
		var seed uint64
		var blocks int
		fmt.Sscan(a["seed"], &seed)
		fmt.Sscan(a["blocks"], &blocks)
		return experiment(seed, blocks, a["zero"] == "1", out)
	}
	if o.Replay != "" {
		for _, l := range hx.ReadLines(o.Replay) {
			out.Op(l, run(l))
		}
		return
	}
	g := hx.NewRng(o.Seed)
	for i := 0; i < o.N; i++ {
		l := fmt.Sprintf("chain hist seed=%d blocks=%d zero=%d", g.U64()%10000000, 10+g.Intn(o.Len), g.Intn(2))
		out.Op(l, run(l))
		out.Count("experiments")
	}
}
