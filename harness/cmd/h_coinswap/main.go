// h_coinswap: correspondence harness of the coinswap module (C01, C02).
//
//	-pure   generate only pure GetInputPrice/GetOutputPrice cases (n*len lines)
package main

import (
	"flag"

	"verifharness/hx"
	"verifharness/mods/coinswap"
)

func main() {
	pure := flag.Bool("pure", false, "only pure price_in/price_out operations")
	o := hx.ParseOpts()
	env := hx.NewEnv()
	r := coinswap.New(env)
	r.Pure = *pure
	hx.RunHistories(env, r, o)
}
