package main

import (
	"flag"

	"verifharness/hx"
	"verifharness/mods/record"
)

func main() {
	genesis := flag.Bool("genesis", false, "also generate `record export` / `record reimport` operations inside histories (C12)")
	o := hx.ParseOpts()
	env := hx.NewEnv()
	rn := record.NewLen(env, o.Len)
	rn.Genesis = *genesis
	hx.RunHistories(env, rn, o)
}
