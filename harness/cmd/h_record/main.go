package main

import (
	"verifharness/hx"
	"verifharness/mods/record"
)

func main() {
	o := hx.ParseOpts()
	env := hx.NewEnv()
	hx.RunHistories(env, record.NewLen(env, o.Len), o)
}
