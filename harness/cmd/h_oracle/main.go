package main

import (
	"verifharness/hx"
	"verifharness/mods/oracle"
)

func main() {
	o := hx.ParseOpts()
	env := hx.NewEnv()
	hx.RunHistories(env, oracle.New(env), o)
	oracle.AppendStats(o.Out)
}
