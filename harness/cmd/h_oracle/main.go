package main

import (
	"flag"

	"verifharness/hx"
	"verifharness/mods/oracle"
)

func main() {
	genesis := flag.Bool("genesis", false, "also generate `oracle export` / `oracle reimport` operations inside histories (C12)")
	o := hx.ParseOpts()
	env := hx.NewEnv()
	rn := oracle.New(env)
	rn.Genesis = *genesis
	hx.RunHistories(env, rn, o)
	oracle.AppendStats(o.Out)
}
