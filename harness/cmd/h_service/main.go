package main

import (
	"verifharness/hx"
	"verifharness/mods/service"
)

func main() {
	o := hx.ParseOpts()
	env := hx.NewEnv()
	hx.RunHistories(env, service.New(env), o)
}
