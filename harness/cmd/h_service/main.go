package main

import (
	"flag"
	"strings"

	"verifharness/hx"
	"verifharness/mods/service"
)

// the generic history loop of hx.RunHistories, plus branch-coverage counters
func main() {
	genesis := flag.Int("genesis", 0, "1: also generate the genesis round-trip ops `export` / `reimport` / `prep_reimport` (C12)")
	o := hx.ParseOpts()
	env := hx.NewEnv()
	rn := service.New(env)
	rn.Genesis = *genesis == 1
	if o.Replay != "" {
		hx.RunHistories(env, rn, o)
		return
	}
	out := hx.NewOut(o.Out)
	defer out.Close()
	for i := 0; i < o.N; i++ {
		r := hx.NewRng(o.Seed*1000003 + uint64(i))
		rl := rn.ResetLine(r)
		ctx, obs := rn.Reset(env.Fork(), rl)
		out.Op(rl, obs)
		for j := 0; j < o.Len; j++ {
			l := rn.Gen(ctx, r)
			if l == "" {
				continue
			}
			pre := obs
			ctx, obs = rn.Exec(ctx, l)
			out.Op(l, obs)
			f := strings.Fields(l)
			out.Count("op." + f[1] + "." + strings.SplitN(obs, " ", 2)[0])
			for _, b := range service.Branches(l, pre, obs) {
				out.Count(b)
			}
		}
		out.Count("histories")
	}
}
