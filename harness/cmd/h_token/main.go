// h_token: correspondence harness of the token module (C09, C10).
//   -mix c09   issue / edit / mint / burn / transfer-owner histories (default)
//   -mix c10   conversion histories: deploy, native<->ERC20, hook, fee-token swaps
//   -mix pure  LossLessSwap and fee-factor cases (no state)
//   -mix base  default environment (mock EVM of /repo), operations that do not need the harness EVM
package main

import (
	"flag"

	"verifharness/hx"
	"verifharness/mods/token"
)

func main() {
	mix := flag.String("mix", "c09", "operation mix: c09 | c10 | pure")
	o := hx.ParseOpts()
	if *mix == "base" {
		env := hx.NewEnv()
		hx.RunHistories(env, token.NewFor(env), o)
		return
	}
	env, evm := token.NewEnv()
	hx.RunHistories(env, token.New(env, evm, *mix), o)
}
