package main

import (
	"fmt"

	sdkmath "cosmossdk.io/math"
	sdk "github.com/cosmos/cosmos-sdk/types"
	distrtypes "github.com/cosmos/cosmos-sdk/x/distribution/types"
	govtypes "github.com/cosmos/cosmos-sdk/x/gov/types"
	govv1 "github.com/cosmos/cosmos-sdk/x/gov/types/v1"

	govv1beta1 "github.com/cosmos/cosmos-sdk/x/gov/types/v1beta1"
	farmmod "mods.irisnet.org/modules/farm"
	coinswaptypes "mods.irisnet.org/modules/coinswap/types"
	farmtypes "mods.irisnet.org/modules/farm/types"

	"verifharness/hx"
)

func main() {
	env := hx.NewEnv()
	ctx := env.Fork()
	fmt.Println("legacy router has farm:", env.App.GovKeeper.LegacyRouter().HasRoute("farm"), "gov:", env.App.GovKeeper.LegacyRouter().HasRoute("gov"))
	for _, r := range []string{"params", "distribution", "upgrade", "gov", "farm", "ibc"} {
		fmt.Println("route", r, env.App.GovKeeper.LegacyRouter().HasRoute(r))
	}
	rt := govv1beta1.NewRouter()
	rt.AddRoute(govtypes.RouterKey, govv1beta1.ProposalHandler)
	rt.AddRoute(farmtypes.RouterKey, farmmod.NewProposalHandler(env.Farm))
	env.App.GovKeeper.SetLegacyRouter(rt)
	fp, err := env.App.DistrKeeper.FeePool.Get(ctx)
	fmt.Println("feepool", fp.CommunityPool, err)
	fmt.Println("distr bal", env.App.BankKeeper.GetAllBalances(ctx, hx.Mod(distrtypes.ModuleName)))
	fmt.Println("gov bal", env.App.BankKeeper.GetAllBalances(ctx, hx.Mod(govtypes.ModuleName)))
	fmt.Println("escrow bal", env.App.BankKeeper.GetAllBalances(ctx, hx.Mod(farmtypes.EscrowCollector)))
	pid, err := env.App.GovKeeper.ProposalID.Peek(ctx)
	fmt.Println("next pid", pid, err)
	gp, _ := env.App.GovKeeper.Params.Get(ctx)
	fmt.Println("gov params mindep", gp.MinDeposit, "ratio", gp.MinDepositRatio, "burnprevote", gp.BurnProposalDepositPrevote, gp.BurnVoteQuorum, gp.BurnVoteVeto)
	fmt.Printf("hooks: %T\n", env.App.GovKeeper.Hooks())

	a0 := hx.Acc(0)
	env.Fund(ctx, a0, sdk.NewCoins(sdk.NewInt64Coin("stake", 100000000000), sdk.NewInt64Coin("btc", 1000000), sdk.NewInt64Coin("eth", 1000000)))
	out := env.Deliver(ctx, &coinswaptypes.MsgAddLiquidity{MaxToken: sdk.NewInt64Coin("btc", 100), ExactStandardAmt: sdkmath.NewInt(100), MinLiquidity: sdkmath.NewInt(1), Deadline: ctx.BlockTime().Unix() + 1000, Sender: a0.String()})
	fmt.Println("addliq", out.Class, out.Err)
	out = env.Deliver(ctx, &distrtypes.MsgFundCommunityPool{Amount: sdk.NewCoins(sdk.NewInt64Coin("btc", 5000)), Depositor: a0.String()})
	fmt.Println("fundcp", out.Class, out.Err)
	fp, _ = env.App.DistrKeeper.FeePool.Get(ctx)
	fmt.Println("feepool", fp.CommunityPool)
	msg := &farmtypes.MsgCreatePoolWithCommunityPool{
		Content: farmtypes.CommunityPoolCreateFarmProposal{Title: "t", Description: "d", PoolDescription: "pd", LptDenom: "lpt-1",
			RewardPerBlock: sdk.NewCoins(sdk.NewInt64Coin("btc", 10), sdk.NewInt64Coin("eth", 1)), FundApplied: sdk.NewCoins(sdk.NewInt64Coin("btc", 1000)), FundSelfBond: sdk.NewCoins(sdk.NewInt64Coin("eth", 50))},
		InitialDeposit: sdk.NewCoins(sdk.NewInt64Coin("stake", 10000000)), Proposer: a0.String()}
	out = env.Deliver(ctx, msg)
	fmt.Println("cp submit", out.Class, out.Err)
	fmt.Println("escrow bal", env.App.BankKeeper.GetAllBalances(ctx, hx.Mod(farmtypes.EscrowCollector)))
	fmt.Println("gov bal", env.App.BankKeeper.GetAllBalances(ctx, hx.Mod(govtypes.ModuleName)))
	fmt.Println("infos", env.Farm.GetAllEscrowInfo(ctx))
	p, err := env.App.GovKeeper.Proposals.Get(ctx, pid)
	fmt.Println("proposal", p.Status, err)
	_ = govv1.StatusPassed
	fmt.Println("pools", len(env.Farm.GetAllEscrowInfo(ctx)), env.Farm.GetSequence(ctx))
	msgs, err := p.GetMsgs()
	fmt.Println("msgs", len(msgs), err)
	h := env.App.GovKeeper.Router().Handler(msgs[0])
	cctx, write := ctx.CacheContext()
	_, err = h(cctx, msgs[0])
	fmt.Println("handler", err)
	write()
	env.Farm.IteratorAllPools(ctx, func(pl farmtypes.FarmPool) { fmt.Println("pool", pl) })
	fmt.Println("escrow bal", env.App.BankKeeper.GetAllBalances(ctx, hx.Mod(farmtypes.EscrowCollector)))
	fmt.Println("farm bal", env.App.BankKeeper.GetAllBalances(ctx, hx.Mod(farmtypes.ModuleName)))
	fmt.Println("seq", env.Farm.GetSequence(ctx))
}
