// h_api: C20 correspondence. For every message type under irismod.* it generates
// descriptor-driven values (empty, default, maximal, nested, Any-typed), encodes them with the
// pulsar family (google.golang.org/protobuf), decodes those bytes with the gogoproto family,
// re-encodes, decodes back, and prints both byte strings; the Lean wire model parses and
// re-encodes the same bytes.
package main

import (
	"fmt"
	"reflect"
	"sort"
	"strings"

	gogoproto "github.com/cosmos/gogoproto/proto"
	"google.golang.org/protobuf/encoding/protowire"
	"google.golang.org/protobuf/proto"
	"google.golang.org/protobuf/reflect/protoreflect"
	"google.golang.org/protobuf/reflect/protoregistry"
	"google.golang.org/protobuf/types/descriptorpb"

	_ "mods.irisnet.org/api/irismod/coinswap"
	_ "mods.irisnet.org/api/irismod/farm"
	_ "mods.irisnet.org/api/irismod/htlc"
	_ "mods.irisnet.org/api/irismod/mt"
	_ "mods.irisnet.org/api/irismod/nft"
	_ "mods.irisnet.org/api/irismod/oracle"
	_ "mods.irisnet.org/api/irismod/random"
	_ "mods.irisnet.org/api/irismod/record"
	_ "mods.irisnet.org/api/irismod/service"
	_ "mods.irisnet.org/api/irismod/token/v1"
	_ "mods.irisnet.org/api/irismod/token/v1beta1"

	"verifharness/hx"
)

// gogoproto field option numbers
const (
	optNullable    = 65001
	optCustomType  = 65003
	optStdTime     = 65010
	optStdDuration = 65011
)

type fopts struct {
	nonNullable bool
	customType  string
	stdTime     bool
	stdDuration bool
}

func fieldOpts(fd protoreflect.FieldDescriptor) fopts {
	var o fopts
	fo, ok := fd.Options().(*descriptorpb.FieldOptions)
	if !ok || fo == nil {
		return o
	}
	// read from both known extension fields and unknown bytes
	scan := func(b []byte) {
		for len(b) > 0 {
			num, typ, n := protowire.ConsumeTag(b)
			if n < 0 {
				return
			}
			b = b[n:]
			switch typ {
			case protowire.VarintType:
				v, m := protowire.ConsumeVarint(b)
				if m < 0 {
					return
				}
				b = b[m:]
				switch num {
				case optNullable:
					o.nonNullable = v == 0
				case optStdTime:
					o.stdTime = v != 0
				case optStdDuration:
					o.stdDuration = v != 0
				}
			case protowire.BytesType:
				v, m := protowire.ConsumeBytes(b)
				if m < 0 {
					return
				}
				b = b[m:]
				if num == optCustomType {
					o.customType = string(v)
				}
			default:
				m := protowire.ConsumeFieldValue(num, typ, b)
				if m < 0 {
					return
				}
				b = b[m:]
			}
		}
	}
	raw, err := proto.Marshal(fo)
	if err == nil {
		scan(raw)
	}
	return o
}

type gen struct {
	g    *hx.Rng
	mode int // 0 random, 1 empty, 2 maximal, 3 long (every string / bytes field crosses a length-prefix boundary)
}

// boundary lengths of the varint length prefix (1 -> 2 bytes at 128, 2 -> 3 bytes at 16384)
var boundaryLens = []int{60, 100, 127, 128, 129, 200, 300}

func (c *gen) long() string {
	n := boundaryLens[c.g.Intn(len(boundaryLens))]
	if c.g.Chance(1, 200) {
		n = 16383 + c.g.Intn(3)
	}
	b := make([]byte, n)
	for i := range b {
		b[i] = byte('a' + (i*7+n)%26)
	}
	return string(b)
}

func (c *gen) str() string {
	if c.mode == 3 || (c.mode == 0 && c.g.Chance(1, 6)) {
		return c.long()
	}
	switch c.g.Intn(4) {
	case 0:
		return "a"
	case 1:
		return "iaa1qqqsyqcyq5rqwzqfpg9scrgwpugpzysn4ndu7z"
	default:
		return fmt.Sprintf("s%x", c.g.U64()&0xffffff)
	}
}

func (c *gen) intStr() string {
	switch c.g.Intn(4) {
	case 0:
		return "0"
	case 1:
		return "1"
	default:
		return c.g.BigRaw(1 + c.g.Intn(120)).String()
	}
}

func (c *gen) scalar(fd protoreflect.FieldDescriptor, o fopts) protoreflect.Value {
	switch fd.Kind() {
	case protoreflect.BoolKind:
		return protoreflect.ValueOfBool(c.mode == 2 || c.g.Chance(1, 2))
	case protoreflect.Int32Kind, protoreflect.Sint32Kind, protoreflect.Sfixed32Kind:
		if c.mode == 2 {
			return protoreflect.ValueOfInt32(-2147483648)
		}
		return protoreflect.ValueOfInt32(int32(c.g.U64()))
	case protoreflect.Int64Kind, protoreflect.Sint64Kind, protoreflect.Sfixed64Kind:
		if c.mode == 2 {
			return protoreflect.ValueOfInt64(-9223372036854775808)
		}
		return protoreflect.ValueOfInt64(int64(c.g.U64()) >> uint(c.g.Intn(64)))
	case protoreflect.Uint32Kind, protoreflect.Fixed32Kind:
		if c.mode == 2 {
			return protoreflect.ValueOfUint32(4294967295)
		}
		return protoreflect.ValueOfUint32(uint32(c.g.U64()))
	case protoreflect.Uint64Kind, protoreflect.Fixed64Kind:
		if c.mode == 2 {
			return protoreflect.ValueOfUint64(18446744073709551615)
		}
		return protoreflect.ValueOfUint64(c.g.U64() >> uint(c.g.Intn(64)))
	case protoreflect.FloatKind:
		return protoreflect.ValueOfFloat32(float32(c.g.Intn(1000)) / 8)
	case protoreflect.DoubleKind:
		return protoreflect.ValueOfFloat64(float64(c.g.Intn(100000)) / 16)
	case protoreflect.StringKind:
		if o.customType != "" { // math.Int / LegacyDec / Uint custom types: decimal integer strings
			return protoreflect.ValueOfString(c.intStr())
		}
		return protoreflect.ValueOfString(c.str())
	case protoreflect.BytesKind:
		if o.customType != "" {
			return protoreflect.ValueOfBytes([]byte(c.intStr()))
		}
		if c.mode == 3 || (c.mode == 0 && c.g.Chance(1, 8)) {
			return protoreflect.ValueOfBytes([]byte(c.long()))
		}
		return protoreflect.ValueOfBytes(c.g.Bytes(1 + c.g.Intn(24)))
	case protoreflect.EnumKind:
		vs := fd.Enum().Values()
		return protoreflect.ValueOfEnum(vs.Get(c.g.Intn(vs.Len())).Number())
	}
	panic("unhandled kind " + fd.Kind().String())
}

func (c *gen) fill(m protoreflect.Message, depth int) {
	fields := m.Descriptor().Fields()
	switch m.Descriptor().FullName() {
	case "google.protobuf.Timestamp":
		m.Set(fields.ByName("seconds"), protoreflect.ValueOfInt64(c.g.Range(0, 4102444800)))
		m.Set(fields.ByName("nanos"), protoreflect.ValueOfInt32(int32(c.g.Range(0, 999999999))))
		return
	case "google.protobuf.Duration":
		m.Set(fields.ByName("seconds"), protoreflect.ValueOfInt64(c.g.Range(0, 1000000)))
		m.Set(fields.ByName("nanos"), protoreflect.ValueOfInt32(int32(c.g.Range(0, 999999999))))
		return
	case "google.protobuf.Any":
		m.Set(fields.ByName("type_url"), protoreflect.ValueOfString("/irismod.token.v1.Token"))
		m.Set(fields.ByName("value"), protoreflect.ValueOfBytes([]byte{0x0a, 0x01, 0x61}))
		return
	}
	for i := 0; i < fields.Len(); i++ {
		fd := fields.Get(i)
		o := fieldOpts(fd)
		must := o.nonNullable && (fd.Kind() == protoreflect.MessageKind || o.customType != "") && !fd.IsList() && !fd.IsMap()
		if !must {
			if c.mode == 1 {
				continue
			}
			if c.mode == 0 && c.g.Chance(1, 4) {
				continue
			}
		}
		if depth > 4 && fd.Kind() == protoreflect.MessageKind && !must {
			continue
		}
		switch {
		case fd.IsMap():
			mp := m.Mutable(fd).Map()
			n := 1 // a single entry: map order is not part of the property
			for j := 0; j < n; j++ {
				// map entries and list elements, unlike singular fields, are written even when
				// they hold the default value ("" / 0 / empty message): generate those too
				k := c.scalar(fd.MapKey(), fopts{}).MapKey()
				if c.g.Chance(1, 6) {
					k = fd.MapKey().Default().MapKey()
				}
				if fd.MapValue().Kind() == protoreflect.MessageKind {
					v := mp.NewValue()
					if !c.g.Chance(1, 4) {
						c.fill(v.Message(), depth+1)
					}
					mp.Set(k, v)
				} else if c.g.Chance(1, 3) {
					mp.Set(k, defaultOf(fd.MapValue()))
				} else {
					mp.Set(k, c.scalar(fd.MapValue(), fopts{}))
				}
			}
		case fd.IsList():
			l := m.Mutable(fd).List()
			n := 1 + c.g.Intn(3)
			for j := 0; j < n; j++ {
				if fd.Kind() == protoreflect.MessageKind {
					v := l.NewElement()
					c.fill(v.Message(), depth+1)
					l.Append(v)
				} else if o.customType == "" && c.g.Chance(1, 5) {
					l.Append(defaultOf(fd))
				} else {
					l.Append(c.scalar(fd, o))
				}
			}
		case fd.Kind() == protoreflect.MessageKind:
			v := m.Mutable(fd)
			c.fill(v.Message(), depth+1)
		default:
			v := c.scalar(fd, o)
			m.Set(fd, v)
		}
	}
}

// defaultOf is the zero value of a scalar field kind ("" / 0 / false / first enum value).
func defaultOf(fd protoreflect.FieldDescriptor) protoreflect.Value {
	switch fd.Kind() {
	case protoreflect.StringKind:
		return protoreflect.ValueOfString("")
	case protoreflect.BytesKind:
		return protoreflect.ValueOfBytes([]byte{})
	case protoreflect.EnumKind:
		return protoreflect.ValueOfEnum(0)
	}
	return fd.Default()
}

// suspect reports whether values of md cannot be expected to cross-decode because some
// (transitively) contained message-typed field carries a scalar gogoproto customtype: the
// gogoproto family then writes a scalar where the descriptor (and the other family) has a message.
func suspect(md protoreflect.MessageDescriptor, seen map[protoreflect.FullName]bool) bool {
	if seen[md.FullName()] {
		return false
	}
	seen[md.FullName()] = true
	fs := md.Fields()
	for i := 0; i < fs.Len(); i++ {
		fd := fs.Get(i)
		if fd.Kind() != protoreflect.MessageKind {
			continue
		}
		if ct := fieldOpts(fd).customType; strings.HasSuffix(ct, ".Int") || strings.HasSuffix(ct, ".LegacyDec") || strings.HasSuffix(ct, ".Dec") || strings.HasSuffix(ct, ".Uint") {
			return true
		}
		if fd.IsMap() {
			if fd.MapValue().Kind() == protoreflect.MessageKind && suspect(fd.MapValue().Message(), seen) {
				return true
			}
			continue
		}
		if suspect(fd.Message(), seen) {
			return true
		}
	}
	return false
}

// the message types recorded under finding F-api-1 (known_findings.json)
var knownApi1 = map[string]bool{
	"irismod.coinswap.Params":              true,
	"irismod.coinswap.GenesisState":        true,
	"irismod.coinswap.QueryParamsResponse": true,
	"irismod.coinswap.MsgUpdateParams":     true,
}

func main() {
	o := hx.ParseOpts()
	out := hx.NewOut(o.Out)
	defer out.Close()
	g := hx.NewRng(o.Seed)
	var names []string
	protoregistry.GlobalFiles.RangeFiles(func(f protoreflect.FileDescriptor) bool {
		if !strings.HasPrefix(f.Path(), "irismod/") || strings.Contains(f.Path(), "/module/v1/") {
			return true
		}
		var walk func(ms protoreflect.MessageDescriptors)
		walk = func(ms protoreflect.MessageDescriptors) {
			for i := 0; i < ms.Len(); i++ {
				md := ms.Get(i)
				if md.IsMapEntry() {
					continue
				}
				names = append(names, string(md.FullName()))
				walk(md.Messages())
			}
		}
		walk(f.Messages())
		return true
	})
	sort.Strings(names)
	perMsg := o.N
	for _, name := range names {
		mt, err := protoregistry.GlobalTypes.FindMessageByName(protoreflect.FullName(name))
		if err != nil {
			hx.Fail("pulsar type %s: %v", name, err)
		}
		// recorded finding F-api-1 is identified by the message types that fail on the unchanged tree (they
		// all embed coinswap Params.fee); the structural test alone would also excuse a NEW customtype
		// mismatch somewhere else
		sus := 0
		if suspect(mt.Descriptor(), map[protoreflect.FullName]bool{}) {
			out.Count("suspect-message-types")
			if knownApi1[name] {
				sus = 1
			} else {
				out.Count("suspect-message-types-not-recorded")
			}
		}
		gt := gogoproto.MessageType(name)
		if gt == nil {
			out.Op(fmt.Sprintf("api msg name=%s bytes=- suspect=%d", name, sus), "rej")
			out.Count("missing-gogo-type")
			continue
		}
		for k := 0; k < perMsg; k++ {
			c := &gen{g: g, mode: 0}
			if k == 0 {
				c.mode = 1
			} else if k == 1 {
				c.mode = 2
			} else if k == 2 || k == 3 {
				c.mode = 3
			}
			m := mt.New()
			c.fill(m, 0)
			pb, err := proto.MarshalOptions{Deterministic: true}.Marshal(m.Interface())
			if err != nil {
				hx.Fail("marshal %s: %v", name, err)
			}
			gm := reflect.New(gt.Elem()).Interface().(gogoproto.Message)
			obs := ""
			if err := gogoproto.Unmarshal(pb, gm); err != nil {
				obs = "rej"
				out.Count("gogo-unmarshal-error")
			} else {
				var gb []byte
				var err error
				if p, info := hx.NoPanic(func() { gb, err = gogoproto.Marshal(gm) }); p {
					obs = "panic gogo-marshal " + strings.ReplaceAll(info, " ", "_")
					out.Count("gogo-marshal-panic")
				} else if err != nil {
					obs = "rej"
				} else {
					m2 := mt.New()
					back := false
					if err := proto.Unmarshal(gb, m2.Interface()); err == nil {
						pb2, _ := proto.MarshalOptions{Deterministic: true}.Marshal(m2.Interface())
						back = proto.Equal(m.Interface(), m2.Interface()) && string(pb2) == string(pb)
					}
					obs = fmt.Sprintf("ok g=%s back=%v", hx.Dash(hx.Hex(gb)), back)
				}
			}
			out.Op(fmt.Sprintf("api msg name=%s bytes=%s suspect=%d", name, hx.Dash(hx.Hex(pb)), sus), obs)
			out.Count("values")
			if len(pb) > 0 {
				out.Count("nonempty")
			}
		}
		out.Count("message-types")
	}
}
