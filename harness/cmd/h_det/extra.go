package main

import (
	sdk "github.com/cosmos/cosmos-sdk/types"
	protov2 "google.golang.org/protobuf/proto"

)

// mockTx is the minimal sdk.Tx the token-fee ante decorator needs.
type mockTx struct{ msgs []sdk.Msg }

func (t mockTx) GetMsgs() []sdk.Msg                    { return t.msgs }
func (t mockTx) GetMsgsV2() ([]protov2.Message, error) { return nil, nil }
