// h_det: C11 replica correspondence. Every op runs the same chain data on independent
// replicas (two application instances in one process, so Go re-randomises map order per
// iteration and per instance; replicas separated in wall-clock time by the op's delay) and
// reports whether observations, the ordered KV dump of the module store and the exported
// genesis are byte-identical. The model (a pure function of chain data) predicts `same` always.
package main

import (
	"crypto/sha256"
	"encoding/json"
	"fmt"
	"strings"
	"time"

	storetypes "cosmossdk.io/store/types"
	sdk "github.com/cosmos/cosmos-sdk/types"

	oracletypes "mods.irisnet.org/modules/oracle/types"
	tokenkeeper "mods.irisnet.org/modules/token/keeper"
	tokenv1 "mods.irisnet.org/modules/token/types/v1"

	"verifharness/hx"
	"verifharness/mods/all"
	"verifharness/mods/service"
)

type replica struct {
	env *hx.Env
	rn  map[string]hx.Runner
}

func newReplica() *replica {
	env := hx.NewEnv()
	return &replica{env: env, rn: runners(env)}
}

// runners lists the module scenarios replicated by `det hist`; extended as modules are modelled.
func runners(env *hx.Env) map[string]hx.Runner {
	m := all.Runners(env)
	m["service"] = service.New(env) // not in the genesis registry (own C12 slice), but replicated here
	return m
}

func kvDigest(env *hx.Env, ctx sdk.Context, store string) string {
	key := env.App.UnsafeFindStoreKey(store)
	if key == nil {
		return "nostore"
	}
	it := storetypes.KVStorePrefixIterator(ctx.KVStore(key), nil)
	defer it.Close()
	h := sha256.New()
	n := 0
	for ; it.Valid(); it.Next() {
		fmt.Fprintf(h, "%d:%x=%d:%x;", len(it.Key()), it.Key(), len(it.Value()), it.Value())
		n++
	}
	return fmt.Sprintf("%d:%x", n, h.Sum(nil)[:8])
}

func exportJSON(env *hx.Env, ctx sdk.Context, module string) string {
	var out string
	panicked, info := hx.NoPanic(func() {
		gs, err := env.App.ModuleManager.ExportGenesisForModules(ctx, env.App.AppCodec(), []string{module})
		if err != nil {
			out = "err:" + err.Error()
			return
		}
		b, _ := json.Marshal(gs[module])
		out = string(b)
	})
	if panicked {
		return "panic:" + info
	}
	return out
}

func main() {
	o := hx.ParseOpts()
	out := hx.NewOut(o.Out)
	defer out.Close()
	a, b := newReplica(), newReplica()
	exec := func(line string) string {
		f := strings.Fields(line)
		args := hx.Args(f[2:])
		switch f[1] {
		case "hist":
			return hist(a, b, args, out)
		case "export":
			return exportReps(a, args, out)
		case "clock":
			return clock(a, b, args)
		case "ante_feemap":
			return anteFeeMap(a, args)
		}
		hx.Fail("unknown op %s", line)
		return ""
	}
	if o.Replay != "" {
		for _, l := range hx.ReadLines(o.Replay) {
			out.Op(l, exec(l))
		}
		return
	}
	g := hx.NewRng(o.Seed)
	names := []string{}
	for k := range a.rn {
		names = append(names, k)
	}
	sortStrings(names)
	for i := 0; i < o.N; i++ {
		var l string
		switch g.Pick(10, 2, 1, 1) {
		case 0:
			l = fmt.Sprintf("det hist runner=%s seed=%d len=%d", names[g.Intn(len(names))], g.U64()%1000000, o.Len)
		case 1:
			l = fmt.Sprintf("det export module=mt seed=%d reps=12", g.U64()%1000000)
		case 2:
			l = fmt.Sprintf("det clock delay_ms=%d margin_ms=%d", 1200, 500)
		default:
			l = fmt.Sprintf("det ante_feemap reps=24 owners=%d", 2+g.Intn(3))
		}
		out.Op(l, exec(l))
		out.Count("op." + strings.Fields(l)[1])
	}
}

func sortStrings(s []string) {
	for i := range s {
		for j := i + 1; j < len(s); j++ {
			if s[j] < s[i] {
				s[i], s[j] = s[j], s[i]
			}
		}
	}
}

// hist: generate a history on replica A, replay the same op lines on replica B.
func hist(a, b *replica, args map[string]string, out *hx.Out) string {
	name := args["runner"]
	ra, rb := a.rn[name], b.rn[name]
	if ra == nil {
		hx.Fail("no runner %s", name)
	}
	var seed uint64
	var n int
	fmt.Sscan(args["seed"], &seed)
	fmt.Sscan(args["len"], &n)
	g := hx.NewRng(seed)
	rl := ra.ResetLine(g)
	ca, oa := ra.Reset(a.env.Fork(), rl)
	cb, ob := rb.Reset(b.env.Fork(), rl)
	obsSame := oa == ob
	firstDiff := ""
	for i := 0; i < n; i++ {
		l := ra.Gen(ca, g)
		if l == "" {
			continue
		}
		ca, oa = ra.Exec(ca, l)
		cb, ob = rb.Exec(cb, l)
		if oa != ob && obsSame {
			obsSame = false
			firstDiff = strings.ReplaceAll(l, " ", "_")
		}
		out.Count("replicated-ops")
	}
	kvSame := kvDigest(a.env, ca, name) == kvDigest(b.env, cb, name)
	ea, eb := exportJSON(a.env, ca, name), exportJSON(b.env, cb, name)
	res := fmt.Sprintf("ok obs_same=%v kv_same=%v export_same=%v", obsSame, kvSame, ea == eb)
	if firstDiff != "" {
		res += " first_diff=" + firstDiff
	}
	return res
}

// exportReps: one state, exported repeatedly in one process (map order is re-randomised per range).
func exportReps(a *replica, args map[string]string, out *hx.Out) string {
	module := args["module"]
	r := a.rn[module]
	var seed uint64
	var reps int
	fmt.Sscan(args["seed"], &seed)
	fmt.Sscan(args["reps"], &reps)
	g := hx.NewRng(seed)
	ctx, _ := r.Reset(a.env.Fork(), r.ResetLine(g))
	for i := 0; i < 60; i++ {
		if l := r.Gen(ctx, g); l != "" {
			ctx, _ = r.Exec(ctx, l)
		}
	}
	first := exportJSON(a.env, ctx, module)
	distinct := map[string]bool{first: true}
	for i := 1; i < reps; i++ {
		distinct[exportJSON(a.env, ctx, module)] = true
	}
	return fmt.Sprintf("ok export_same=%v module=%s", len(distinct) == 1, module)
}

// clock: the same chain data evaluated on two replicas separated in wall-clock time by
// delay_ms, with the feed value's block timestamp placed so that now-timestamp straddles the
// 5-minute constant used by the oracle price module service.
func clock(a, b *replica, args map[string]string) string {
	var delay, margin int
	fmt.Sscan(args["delay_ms"], &delay)
	fmt.Sscan(args["margin_ms"], &margin)
	ts := time.Now().Add(-5*time.Minute + time.Duration(margin)*time.Millisecond).UTC()
	prep := func(r *replica) sdk.Context {
		ctx := hx.WithBlock(r.env.Fork(), 10, ts.Add(time.Second))
		r.env.Oracle.SetFeed(ctx, oracletypes.Feed{FeedName: "pair", AggregateFunc: "avg", ValueJsonPath: "rate", LatestHistory: 5, RequestContextID: "00", Creator: hx.Acc(0).String()})
		r.env.Oracle.SetFeedValue(ctx, "pair", 1, 5, oracletypes.FeedValue{Data: "1.5", Timestamp: ts})
		return ctx
	}
	input := `{"header":{},"body":{"pair":"pair"}}`
	ca := prep(a)
	ra, oa := a.env.Oracle.ModuleServiceRequest(ca, input)
	time.Sleep(time.Duration(delay) * time.Millisecond)
	cb := prep(b)
	rb, ob := b.env.Oracle.ModuleServiceRequest(cb, input)
	return fmt.Sprintf("ok result_same=%v", ra == rb && oa == ob)
}

// anteFeeMap: one failing multi-owner token-fee transaction evaluated repeatedly; the gas
// consumed when the ante handler rejects it is part of the transaction result.
func anteFeeMap(a *replica, args map[string]string) string {
	var reps, owners int
	fmt.Sscan(args["reps"], &reps)
	fmt.Sscan(args["owners"], &owners)
	ctx := a.env.Fork()
	fee, err := a.env.Token.GetTokenIssueFee(ctx, "abc")
	if err != nil {
		return "rej " + err.Error()
	}
	var msgs []sdk.Msg
	for i := 0; i < owners; i++ {
		owner := hx.Acc(10 + i)
		if i != owners-1 { // every owner but one can pay
			a.env.Fund(ctx, owner, sdk.NewCoins(fee))
		}
		msgs = append(msgs, &tokenv1.MsgIssueToken{Symbol: "abc", Name: "n", Scale: 6, MinUnit: "uabc", InitialSupply: 1, MaxSupply: 10, Mintable: true, Owner: owner.String()})
	}
	dec := tokenkeeper.NewValidateTokenFeeDecorator(a.env.Token, a.env.App.BankKeeper)
	gas := map[uint64]bool{}
	errs := map[bool]bool{}
	for i := 0; i < reps; i++ {
		c, _ := ctx.CacheContext()
		c = c.WithGasMeter(storetypes.NewGasMeter(10_000_000))
		_, err := dec.AnteHandle(c, mockTx{msgs}, false, func(ctx sdk.Context, tx sdk.Tx, simulate bool) (sdk.Context, error) { return ctx, nil })
		gas[c.GasMeter().GasConsumed()] = true
		errs[err != nil] = true
	}
	return fmt.Sprintf("ok gas_same=%v outcome_same=%v", len(gas) == 1, len(errs) == 1)
}
