// h_params: C16 harness — parameter validation, authority-gated updates, genesis import and
// per-module message batteries under generated parameter sets, on the real SimApp.
package main

import (
	"strings"

	"verifharness/hx"
	"verifharness/mods/params"
)

func main() {
	o := hx.ParseOpts()
	env := hx.NewEnv()
	rn := params.New(env)
	out := hx.NewOut(o.Out)
	defer func() {
		for k, v := range rn.Stats {
			out.Hist[k] += v
		}
		out.Close()
	}()
	if o.Replay != "" {
		ctx := env.Fork()
		for _, l := range hx.ReadLines(o.Replay) {
			f := strings.Fields(l)
			var obs string
			if len(f) >= 2 && f[1] == "reset" {
				ctx, obs = rn.Reset(env.Fork(), l)
			} else {
				ctx, obs = rn.Exec(ctx, l)
			}
			out.Op(l, obs)
		}
		return
	}
	for i := 0; i < o.N; i++ {
		r := hx.NewRng(o.Seed*1000003 + uint64(i))
		rl := rn.ResetLine(r)
		ctx, obs := rn.Reset(env.Fork(), rl)
		out.Op(rl, obs)
		for j := 0; j < o.Len; j++ {
			l := rn.Gen(ctx, r)
			ctx, obs = rn.Exec(ctx, l)
			out.Op(l, obs)
			f := strings.Fields(l)
			m := hx.Args(f[2:])["module"]
			out.Count("op." + f[1] + "." + m + "." + strings.SplitN(obs, " ", 2)[0])
		}
		out.Count("histories")
	}
}
