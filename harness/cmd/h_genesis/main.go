// h_genesis: C12 correspondence. For a generated history of one module on the real
// application: export the module's genesis, validate it with the module's own
// ValidateGenesis, wipe the module's store, import it (panic captured), export again and
// compare (fixpoint), and compare the module's query-level state projection before and after.
// For the four modules that have one, the prepare-for-zero-height step is applied first in
// half of the round trips.
package main

import (
	"encoding/json"
	"fmt"
	"os"
	"sort"
	"strings"

	storetypes "cosmossdk.io/store/types"
	sdk "github.com/cosmos/cosmos-sdk/types"
	"github.com/cosmos/cosmos-sdk/types/module"

	"mods.irisnet.org/modules/htlc"
	"mods.irisnet.org/modules/oracle"
	"mods.irisnet.org/modules/random"
	"mods.irisnet.org/modules/service"

	"verifharness/hx"
	"verifharness/mods/all"
)

func export(env *hx.Env, ctx sdk.Context, mod string) (string, string) {
	var out, status string
	panicked, info := hx.NoPanic(func() {
		gs, err := env.App.ModuleManager.ExportGenesisForModules(ctx, env.App.AppCodec(), []string{mod})
		if err != nil {
			status = "err"
			return
		}
		out = string(gs[mod])
		status = "ok"
	})
	if panicked {
		return "", "panic:" + strings.ReplaceAll(info, " ", "_")
	}
	return out, status
}

func wipe(env *hx.Env, ctx sdk.Context, mod string) {
	key := env.App.UnsafeFindStoreKey(mod)
	st := ctx.KVStore(key)
	it := storetypes.KVStorePrefixIterator(st, nil)
	var keys [][]byte
	for ; it.Valid(); it.Next() {
		keys = append(keys, append([]byte{}, it.Key()...))
	}
	it.Close()
	for _, k := range keys {
		st.Delete(k)
	}
}

// prep applies the modules' prepare-for-zero-height steps the way an application does before a
// restart export: all of them together (oracle's exported feed state is read from the service
// module's request contexts, so preparing one module alone would be an artefact).
func prep(env *hx.Env, ctx sdk.Context, mod string) bool {
	htlc.PrepForZeroHeightGenesis(ctx, env.HTLC)
	service.PrepForZeroHeightGenesis(ctx, env.Service)
	oracle.PrepForZeroHeightGenesis(ctx, env.Oracle)
	random.PrepForZeroHeightGenesis(ctx, env.Random)
	return true
}

func roundtrip(env *hx.Env, ctx sdk.Context, rn hx.Runner, mod string, doPrep bool) string {
	st, _ := rn.(hx.Stater)
	if gs, ok := rn.(hx.GenesisStater); ok {
		st = genesisView{gs}
	}
	if doPrep {
		if p, info := hx.NoPanic(func() { prep(env, ctx, mod) }); p {
			return "ok prep=panic:" + strings.ReplaceAll(info, " ", "_")
		}
	}
	before := ""
	if st != nil {
		before = st.State(ctx)
	}
	g1, s1 := export(env, ctx, mod)
	if s1 != "ok" {
		return "ok export=" + s1
	}
	// runners that can render the exported document canonically (htlc): printed next to a failed
	// import, for the model's own verdict on the same document (Driver/Genesis.lean: modelConfirms)
	doc := ""
	if gd, ok := rn.(interface{ GenesisDoc(sdk.Context) string }); ok {
		doc = " " + gd.GenesisDoc(ctx)
	}
	validate := "ok"
	mm := env.App.ModuleManager.Modules[mod]
	if hb, ok := mm.(module.HasGenesisBasics); ok {
		p, info := hx.NoPanic(func() {
			if err := hb.ValidateGenesis(env.App.AppCodec(), env.App.TxConfig(), json.RawMessage(g1)); err != nil {
				validate = "err:" + strings.ReplaceAll(err.Error(), " ", "_")
			}
		})
		if p {
			validate = "panic:" + strings.ReplaceAll(info, " ", "_")
		}
	}
	// two sibling branches of ctx: the original state (octx) and the one the export is imported
	// into (cctx). A cache context reads through to its parent, so ctx itself is never written
	// from here on.
	octx, _ := ctx.CacheContext()
	cctx, _ := ctx.CacheContext()
	wipe(env, cctx, mod)
	imp := "ok"
	p, info := hx.NoPanic(func() {
		if hg, ok := mm.(module.HasGenesis); ok {
			hg.InitGenesis(cctx, env.App.AppCodec(), json.RawMessage(g1))
		} else if hg, ok := mm.(module.HasABCIGenesis); ok {
			hg.InitGenesis(cctx, env.App.AppCodec(), json.RawMessage(g1))
		} else {
			imp = "nogenesis"
		}
	})
	if p {
		imp = "panic:" + strings.ReplaceAll(info, " ", "_")
		if len(imp) > 160 {
			imp = imp[:160]
		}
		return fmt.Sprintf("ok export=ok validate=%s import=%s%s", trunc(validate), imp, doc)
	}
	ctx = cctx // from here on: the re-imported branch
	g2, s2 := export(env, ctx, mod)
	after := ""
	if st != nil {
		after = st.State(ctx)
	}
	res := fmt.Sprintf("ok export=ok validate=%s import=%s fixpoint=%v queries_same=%v", trunc(validate), imp, s2 == "ok" && g1 == g2, before == after)
	if before != after {
		res += " qdiff=" + firstDiff(before, after)
	}
	// continuation: an as-is export continues at the same heights, so the original and the
	// re-imported state must stay equal (durable projection) while both run the blocks in which
	// their pending items fall due. (A zero-height export rebases heights: not comparable.)
	cont := "true"
	if cn, ok := rn.(hx.Continuer); ok && !doPrep && st != nil && before == after && s2 == "ok" && g1 == g2 {
		for i, l := range cn.Continuation(octx) {
			octx, _ = rn.Exec(octx, l)
			ctx, _ = rn.Exec(ctx, l)
			if a, b := st.State(octx), st.State(ctx); a != b {
				cont = fmt.Sprintf("false cstep=%d cop=%s cdiff=%s", i, strings.ReplaceAll(l, " ", "_"), firstDiff(a, b))
				break
			}
		}
	}
	res += " continuation=" + cont
	return res
}

type genesisView struct{ g hx.GenesisStater }

func (v genesisView) State(ctx sdk.Context) string { return v.g.GenesisState(ctx) }

func trunc(s string) string {
	if len(s) > 120 {
		return s[:120]
	}
	return s
}

func firstDiff(a, b string) string {
	fa, fb := strings.Fields(a), strings.Fields(b)
	for i := 0; i < len(fa) && i < len(fb); i++ {
		if fa[i] != fb[i] {
			x, y := fa[i], fb[i]
			if len(x) > 100 {
				x = x[:100]
			}
			if len(y) > 100 {
				y = y[:100]
			}
			return x + "|" + y
		}
	}
	return fmt.Sprintf("len%d|len%d", len(fa), len(fb))
}

func main() {
	o := hx.ParseOpts()
	out := hx.NewOut(o.Out)
	defer out.Close()
	env := hx.NewEnv()
	rns := all.Runners(env)
	var names []string
	for k := range rns {
		names = append(names, k)
	}
	sort.Strings(names)
	run := func(line string) string {
		f := strings.Fields(line)
		a := hx.Args(f[2:])
		rn := rns[a["module"]]
		if rn == nil {
			hx.Fail("no runner for %s", a["module"])
		}
		var seed uint64
		var n int
		fmt.Sscan(a["seed"], &seed)
		fmt.Sscan(a["len"], &n)
		g := hx.NewRng(seed)
		ctx, _ := rn.Reset(env.Fork(), rn.ResetLine(g))
		for i := 0; i < n; i++ {
			if l := rn.Gen(ctx, g); l != "" {
				var obs string
				ctx, obs = rn.Exec(ctx, l)
				if os.Getenv("VERIF_DEBUG_OPS") != "" {
					fmt.Fprintf(os.Stderr, "%s\n   -> %.300s\n", l, obs)
				}
			}
		}
		if bc, ok := rn.(hx.BlockCloser); ok {
			ctx = bc.CloseBlock(ctx) // export at a block boundary, as a chain does
		}
		return roundtrip(env, ctx, rn, a["module"], a["prep"] == "1")
	}
	if o.Replay != "" {
		for _, l := range hx.ReadLines(o.Replay) {
			out.Op(l, run(l))
		}
		return
	}
	g := hx.NewRng(o.Seed)
	for i := 0; i < o.N; i++ {
		mod := names[g.Intn(len(names))]
		p := 0
		if (mod == "htlc" || mod == "oracle" || mod == "random" || mod == "service") && g.Chance(1, 2) {
			p = 1
		}
		l := fmt.Sprintf("genesis roundtrip module=%s seed=%d len=%d prep=%d", mod, g.U64()%1000000, 1+g.Intn(o.Len), p)
		obs := run(l)
		out.Op(l, obs)
		out.Count("module." + mod)
	}
}
