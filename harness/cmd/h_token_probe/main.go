package main

import (
	"fmt"
	"math"
	"strconv"

	sdkmath "cosmossdk.io/math"
	tokentypes "mods.irisnet.org/modules/token/types"
)

func ll(in int64, ratio string, si, so uint32) {
	defer func() {
		if r := recover(); r != nil {
			fmt.Println("panic", r)
		}
	}()
	b, m := tokentypes.LossLessSwap(sdkmath.NewInt(in), sdkmath.LegacyMustNewDecFromStr(ratio), si, so)
	fmt.Printf("LossLessSwap(%d, %s, %d, %d) = (%s, %s)\n", in, ratio, si, so, b, m)
}

func main() {
	ll(3, "3.333333333333333333", 1, 0)
	ll(1, "1.5", 0, 0)
	ll(3, "1.5", 0, 0)
	ll(7, "1.5", 0, 0)
	ll(3, "0.7", 0, 0)
	ll(1, "1500.5", 3, 0)
	ll(10, "0.33", 0, 0)
	ll(1, "0.5", 0, 0)
	for n := 1; n <= 66; n++ {
		f := math.Pow(math.Log(float64(n))/math.Log(3), 4)
		fmt.Printf("%d %s %.17g\n", n, strconv.FormatFloat(f, 'f', 2, 64), f)
	}
}
