// x_api regenerates lean/Irismod/Gen/Api.lean from /repo's current sources (C20):
// the descriptors of every message / enum / service under proto/irismod as carried by the
// gogoproto-generated module code and by the pulsar-generated api/ code, normalised (file
// options and source info dropped, everything else kept, canonical deterministic bytes),
// plus the Msg-service facts (interface-registry registration, signer field resolution).
// It also writes a JSON copy used by the check to name the differing item.
package main

import (
	"bytes"
	"compress/gzip"
	"encoding/hex"
	"encoding/json"
	"fmt"
	"io"
	"os"
	"sort"
	"strings"

	appv1alpha1 "cosmossdk.io/api/cosmos/app/v1alpha1"
	msgv1 "cosmossdk.io/api/cosmos/msg/v1"
	gogoproto "github.com/cosmos/gogoproto/proto"
	"google.golang.org/protobuf/encoding/protowire"
	"google.golang.org/protobuf/proto"
	"google.golang.org/protobuf/reflect/protodesc"
	"google.golang.org/protobuf/reflect/protoreflect"
	"google.golang.org/protobuf/reflect/protoregistry"
	"google.golang.org/protobuf/types/descriptorpb"

	_ "mods.irisnet.org/api/irismod/coinswap"
	_ "mods.irisnet.org/api/irismod/coinswap/module/v1"
	_ "mods.irisnet.org/api/irismod/farm"
	_ "mods.irisnet.org/api/irismod/farm/module/v1"
	_ "mods.irisnet.org/api/irismod/htlc"
	_ "mods.irisnet.org/api/irismod/htlc/module/v1"
	_ "mods.irisnet.org/api/irismod/mt"
	_ "mods.irisnet.org/api/irismod/mt/module/v1"
	_ "mods.irisnet.org/api/irismod/nft"
	_ "mods.irisnet.org/api/irismod/nft/module/v1"
	_ "mods.irisnet.org/api/irismod/oracle"
	_ "mods.irisnet.org/api/irismod/oracle/module/v1"
	_ "mods.irisnet.org/api/irismod/random"
	_ "mods.irisnet.org/api/irismod/random/module/v1"
	_ "mods.irisnet.org/api/irismod/record"
	_ "mods.irisnet.org/api/irismod/record/module/v1"
	_ "mods.irisnet.org/api/irismod/service"
	_ "mods.irisnet.org/api/irismod/service/module/v1"
	_ "mods.irisnet.org/api/irismod/token/module/v1"
	_ "mods.irisnet.org/api/irismod/token/v1"
	_ "mods.irisnet.org/api/irismod/token/v1beta1"

	codectypes "github.com/cosmos/cosmos-sdk/codec/types"
	sdk "github.com/cosmos/cosmos-sdk/types"

	"verifharness/hx"
)

type item struct {
	Name string `json:"name"`
	Kind string `json:"kind"`
	File string `json:"file"`
	Hex  string `json:"hex"`
}

type msgFact struct {
	Name       string `json:"name"`
	Service    string `json:"service"`
	Method     string `json:"method"`
	Registered bool   `json:"registered"`
	Signer     string `json:"signer"`
	SignerKind string `json:"signer_kind"` // address-string | message-with-signer | missing | not-a-field | not-address
}

func det(m proto.Message) []byte {
	b, err := proto.MarshalOptions{Deterministic: true}.Marshal(m)
	if err != nil {
		panic(err)
	}
	return b
}

// items splits one normalised file descriptor into comparable items.
func items(fd *descriptorpb.FileDescriptorProto) []item {
	fd = proto.Clone(fd).(*descriptorpb.FileDescriptorProto)
	fd.Options = nil
	fd.SourceCodeInfo = nil
	pkg := fd.GetPackage()
	var out []item
	for _, m := range fd.MessageType {
		out = append(out, item{pkg + "." + m.GetName(), "message", fd.GetName(), hex.EncodeToString(det(m))})
	}
	for _, e := range fd.EnumType {
		out = append(out, item{pkg + "." + e.GetName(), "enum", fd.GetName(), hex.EncodeToString(det(e))})
	}
	for _, s := range fd.Service {
		out = append(out, item{pkg + "." + s.GetName(), "service", fd.GetName(), hex.EncodeToString(det(s))})
	}
	for _, x := range fd.Extension {
		out = append(out, item{pkg + "." + x.GetName(), "extension", fd.GetName(), hex.EncodeToString(det(x))})
	}
	hdr := &descriptorpb.FileDescriptorProto{Name: fd.Name, Package: fd.Package, Dependency: fd.Dependency,
		PublicDependency: fd.PublicDependency, WeakDependency: fd.WeakDependency, Syntax: fd.Syntax}
	out = append(out, item{"file:" + fd.GetName(), "file", fd.GetName(), hex.EncodeToString(det(hdr))})
	return out
}

func gogoFiles() map[string]*descriptorpb.FileDescriptorProto {
	res := map[string]*descriptorpb.FileDescriptorProto{}
	for name, gz := range gogoproto.AllFileDescriptors() {
		if !strings.HasPrefix(name, "irismod/") {
			continue
		}
		zr, err := gzip.NewReader(bytes.NewReader(gz))
		if err != nil {
			panic(err)
		}
		raw, err := io.ReadAll(zr)
		if err != nil {
			panic(err)
		}
		fd := &descriptorpb.FileDescriptorProto{}
		if err := proto.Unmarshal(raw, fd); err != nil {
			panic(err)
		}
		res[name] = fd
	}
	return res
}

func pulsarFiles() map[string]*descriptorpb.FileDescriptorProto {
	res := map[string]*descriptorpb.FileDescriptorProto{}
	protoregistry.GlobalFiles.RangeFiles(func(f protoreflect.FileDescriptor) bool {
		if strings.HasPrefix(f.Path(), "irismod/") {
			res[f.Path()] = protodesc.ToFileDescriptorProto(f)
		}
		return true
	})
	return res
}

// signer resolution over the pulsar descriptors (protoreflect view)
func signerKind(md protoreflect.MessageDescriptor, depth int) (string, string) {
	opts := md.Options()
	if opts == nil {
		return "", "missing"
	}
	signers, _ := proto.GetExtension(opts, msgv1.E_Signer).([]string)
	if len(signers) == 0 {
		return "", "missing"
	}
	kinds := []string{}
	for _, s := range signers {
		fd := md.Fields().ByName(protoreflect.Name(s))
		if fd == nil {
			kinds = append(kinds, "not-a-field")
			continue
		}
		switch fd.Kind() {
		case protoreflect.StringKind:
			kinds = append(kinds, "address-string")
		case protoreflect.MessageKind:
			if depth > 3 {
				kinds = append(kinds, "not-address")
				continue
			}
			_, k := signerKind(fd.Message(), depth+1)
			if k == "address-string" || k == "message-with-signer" {
				kinds = append(kinds, "message-with-signer")
			} else {
				kinds = append(kinds, "not-address")
			}
		default:
			kinds = append(kinds, "not-address")
		}
	}
	k := kinds[0]
	for _, x := range kinds {
		if x != "address-string" && x != "message-with-signer" {
			k = x
		}
	}
	return strings.Join(signers, ","), k
}

// scalarCustomType: the gogoproto.customtype option (65003) names one of the SDK's scalar
// number types, which marshal as a decimal string, not as a message.
func scalarCustomType(b []byte) bool {
	for len(b) > 0 {
		num, typ, n := protowire.ConsumeTag(b)
		if n < 0 {
			return false
		}
		b = b[n:]
		if num == 65003 && typ == protowire.BytesType {
			v, m := protowire.ConsumeBytes(b)
			if m < 0 {
				return false
			}
			ct := string(v)
			for _, suf := range []string{".Int", ".LegacyDec", ".Dec", ".Uint"} {
				if strings.HasSuffix(ct, suf) {
					return true
				}
			}
			b = b[m:]
			continue
		}
		m := protowire.ConsumeFieldValue(num, typ, b)
		if m < 0 {
			return false
		}
		b = b[m:]
	}
	return false
}

func leanStr(s string) string { return "\"" + s + "\"" }

func main() {
	outLean := "/verif/lean/Irismod/Gen/Api.lean"
	outJSON := "/verif/work/api_facts.json"
	if len(os.Args) > 1 {
		outLean = os.Args[1]
	}
	if len(os.Args) > 2 {
		outJSON = os.Args[2]
	}
	env := hx.NewEnv()
	reg := env.App.InterfaceRegistry()

	g, p := gogoFiles(), pulsarFiles()
	var gi, pi []item
	var gnames, pnames []string
	for n := range g {
		gnames = append(gnames, n)
	}
	for n := range p {
		pnames = append(pnames, n)
	}
	sort.Strings(gnames)
	sort.Strings(pnames)
	var pulsarOnly, gogoOnly []string
	for _, n := range gnames {
		if _, ok := p[n]; !ok {
			gogoOnly = append(gogoOnly, n)
		}
		gi = append(gi, items(g[n])...)
	}
	// files present only in the pulsar family: allowed iff they are app-wiring module configs
	// (carry the cosmos.app.v1alpha1.module option); recorded as a fact and checked in Lean.
	type onlyFact struct {
		File        string `json:"file"`
		IsModuleCfg bool   `json:"is_module_config"`
	}
	var onlyFacts []onlyFact
	for _, n := range pnames {
		if _, ok := g[n]; !ok {
			pulsarOnly = append(pulsarOnly, n)
			isCfg := len(p[n].MessageType) > 0
			for _, m := range p[n].MessageType {
				if m.GetOptions() == nil || !proto.HasExtension(m.GetOptions(), appv1alpha1.E_Module) {
					isCfg = false
				}
			}
			onlyFacts = append(onlyFacts, onlyFact{n, isCfg})
			continue
		}
		pi = append(pi, items(p[n])...)
	}
	sort.Slice(gi, func(i, j int) bool { return gi[i].Name < gi[j].Name })
	sort.Slice(pi, func(i, j int) bool { return pi[i].Name < pi[j].Name })

	// Msg-service facts
	var facts []msgFact
	protoregistry.GlobalFiles.RangeFiles(func(f protoreflect.FileDescriptor) bool {
		if !strings.HasPrefix(f.Path(), "irismod/") {
			return true
		}
		for i := 0; i < f.Services().Len(); i++ {
			sd := f.Services().Get(i)
			if sd.Name() != "Msg" {
				continue
			}
			for j := 0; j < sd.Methods().Len(); j++ {
				md := sd.Methods().Get(j)
				in := md.Input()
				// registered = the type URL resolves AND it is registered as an implementation of
				// sdk.Msg (cosmos.base.v1beta1.Msg) AND an Any carrying it unpacks as sdk.Msg
				// (what tx decoding does). Resolve alone also succeeds for a type registered
				// under some other interface.
				url := "/" + string(in.FullName())
				_, err := reg.Resolve(url)
				isMsg := false
				for _, u := range reg.ListImplementations(sdk.MsgInterfaceProtoName) {
					if u == url {
						isMsg = true
					}
				}
				var asMsg sdk.Msg
				uerr := reg.UnpackAny(&codectypes.Any{TypeUrl: url}, &asMsg)
				s, k := signerKind(in, 0)
				facts = append(facts, msgFact{string(in.FullName()), string(sd.FullName()), string(md.Name()), err == nil && isMsg && uerr == nil && asMsg != nil, s, k})
			}
		}
		return true
	})
	sort.Slice(facts, func(i, j int) bool { return facts[i].Name < facts[j].Name })

	// message-typed fields that carry a scalar gogoproto customtype (field option 65003): the
	// gogoproto family writes a scalar there while the descriptor and the pulsar family have a message
	var suspects []string
	protoregistry.GlobalFiles.RangeFiles(func(f protoreflect.FileDescriptor) bool {
		if !strings.HasPrefix(f.Path(), "irismod/") {
			return true
		}
		var walk func(ms protoreflect.MessageDescriptors)
		walk = func(ms protoreflect.MessageDescriptors) {
			for i := 0; i < ms.Len(); i++ {
				md := ms.Get(i)
				for j := 0; j < md.Fields().Len(); j++ {
					fd := md.Fields().Get(j)
					if fd.Kind() != protoreflect.MessageKind {
						continue
					}
					raw, _ := proto.Marshal(fd.Options())
					if scalarCustomType(raw) {
						suspects = append(suspects, string(md.FullName())+"."+string(fd.Name()))
					}
				}
				walk(md.Messages())
			}
		}
		walk(f.Messages())
		return true
	})
	sort.Strings(suspects)

	// ---- JSON copy
	js, _ := json.MarshalIndent(map[string]interface{}{"gogo": gi, "pulsar": pi, "pulsar_only": onlyFacts, "gogo_only": gogoOnly, "msgs": facts, "suspect_fields": suspects, "services": grpcFacts()}, "", " ")
	os.MkdirAll("/verif/work", 0o755)
	if err := os.WriteFile(outJSON, js, 0o644); err != nil {
		panic(err)
	}

	// ---- Lean
	var sb strings.Builder
	sb.WriteString("/- REGENERATED on every run by harness/cmd/x_api from /repo's working tree. Do not edit. -/\n")
	sb.WriteString("namespace Irismod.Gen.Api\n\n")
	emit := func(prefix string, its []item) {
		for i, it := range its {
			fmt.Fprintf(&sb, "def %s_%d : String := %s\n", prefix, i, leanStr(it.Hex))
		}
		fmt.Fprintf(&sb, "\ndef %sNames : List String := [", prefix)
		for i, it := range its {
			if i > 0 {
				sb.WriteString(", ")
			}
			sb.WriteString(leanStr(it.Kind + ":" + it.Name))
		}
		sb.WriteString("]\n")
		fmt.Fprintf(&sb, "def %sBytes : List String := [", prefix)
		for i := range its {
			if i > 0 {
				sb.WriteString(", ")
			}
			fmt.Fprintf(&sb, "%s_%d", prefix, i)
		}
		sb.WriteString("]\n\n")
	}
	emit("gogo", gi)
	emit("pulsar", pi)
	sb.WriteString("/-- files that exist in one family only: (path, carries the app-wiring module option) -/\n")
	sb.WriteString("def pulsarOnly : List (String × Bool) := [")
	for i, f := range onlyFacts {
		if i > 0 {
			sb.WriteString(", ")
		}
		fmt.Fprintf(&sb, "(%s, %v)", leanStr(f.File), f.IsModuleCfg)
	}
	sb.WriteString("]\n")
	sb.WriteString("def gogoOnly : List String := [")
	for i, f := range gogoOnly {
		if i > 0 {
			sb.WriteString(", ")
		}
		sb.WriteString(leanStr(f))
	}
	sb.WriteString("]\n\n")
	// grpc service tables of both families
	leanList := func(l []string) string {
		var q []string
		for _, x := range l {
			q = append(q, leanStr(x))
		}
		return "[" + strings.Join(q, ", ") + "]"
	}
	sb.WriteString("structure SvcFact where\n  name : String\n  desc : List String\n  gogo : List String\n  pulsar : List String\n  deriving Repr\n\n")
	sb.WriteString("/-- per service: methods in the file descriptor, in the modules/ family's grpc.ServiceDesc, in the api/ family's -/\ndef svcFacts : List SvcFact := [\n")
	for i, f := range grpcFacts() {
		if i > 0 {
			sb.WriteString(",\n")
		}
		fmt.Fprintf(&sb, "  { name := %s, desc := %s, gogo := %s, pulsar := %s }", leanStr(f.Name), leanList(f.Desc), leanList(f.Gogo), leanList(f.Pulsar))
	}
	sb.WriteString("]\n\n")
	sb.WriteString("/-- message-typed fields declared with a scalar gogoproto customtype -/\ndef suspectFields : List String := [")
	for i, f := range suspects {
		if i > 0 {
			sb.WriteString(", ")
		}
		sb.WriteString(leanStr(f))
	}
	sb.WriteString("]\n\n")
	sb.WriteString("structure MsgFact where\n  name : String\n  registered : Bool\n  signer : String\n  signerKind : String\n  deriving Repr\n\n")
	sb.WriteString("def msgs : List MsgFact := [\n")
	for i, f := range facts {
		if i > 0 {
			sb.WriteString(",\n")
		}
		fmt.Fprintf(&sb, "  { name := %s, registered := %v, signer := %s, signerKind := %s }", leanStr(f.Name), f.Registered, leanStr(f.Signer), leanStr(f.SignerKind))
	}
	sb.WriteString("]\n\nend Irismod.Gen.Api\n")
	if err := os.WriteFile(outLean, []byte(sb.String()), 0o644); err != nil {
		panic(err)
	}
	fmt.Printf("x_api: gogo items=%d pulsar items=%d pulsar-only files=%d gogo-only files=%d msgs=%d\n", len(gi), len(pi), len(pulsarOnly), len(gogoOnly), len(facts))
}
