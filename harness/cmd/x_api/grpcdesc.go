package main

// grpc service descriptors (the hand-off tables `grpc.ServiceDesc` of both generated families):
// the method list a server registered through either family actually serves. They are separate
// Go values from the embedded file descriptors, so a method dropped from one of them compiles,
// leaves every descriptor equal, and only shows as "unknown method" at run time.

import (
	"sort"

	"google.golang.org/grpc"
	"google.golang.org/protobuf/reflect/protoreflect"
	"google.golang.org/protobuf/reflect/protoregistry"

	acoinswap "mods.irisnet.org/api/irismod/coinswap"
	afarm "mods.irisnet.org/api/irismod/farm"
	ahtlc "mods.irisnet.org/api/irismod/htlc"
	amt "mods.irisnet.org/api/irismod/mt"
	anft "mods.irisnet.org/api/irismod/nft"
	aoracle "mods.irisnet.org/api/irismod/oracle"
	arandom "mods.irisnet.org/api/irismod/random"
	arecord "mods.irisnet.org/api/irismod/record"
	aservice "mods.irisnet.org/api/irismod/service"
	atokenv1 "mods.irisnet.org/api/irismod/token/v1"
	atokenv1beta1 "mods.irisnet.org/api/irismod/token/v1beta1"

	gcoinswap "mods.irisnet.org/modules/coinswap/types"
	gfarm "mods.irisnet.org/modules/farm/types"
	ghtlc "mods.irisnet.org/modules/htlc/types"
	gmt "mods.irisnet.org/modules/mt/types"
	gnft "mods.irisnet.org/modules/nft/types"
	goracle "mods.irisnet.org/modules/oracle/types"
	grandom "mods.irisnet.org/modules/random/types"
	grecord "mods.irisnet.org/modules/record/types"
	gservice "mods.irisnet.org/modules/service/types"
	gtokenv1 "mods.irisnet.org/modules/token/types/v1"
	gtokenv1beta1 "mods.irisnet.org/modules/token/types/v1beta1"
)

type svcFact struct {
	Name   string   `json:"name"`
	Desc   []string `json:"desc"`   // methods of the service in the file descriptor
	Gogo   []string `json:"gogo"`   // methods in the modules/ family's grpc.ServiceDesc
	Pulsar []string `json:"pulsar"` // methods in the api/ family's grpc.ServiceDesc
}

type capReg struct{ descs map[string][]string }

func (c *capReg) RegisterService(d *grpc.ServiceDesc, _ interface{}) {
	var ms []string
	for _, m := range d.Methods {
		ms = append(ms, m.MethodName)
	}
	for _, s := range d.Streams {
		ms = append(ms, s.StreamName+"!stream")
	}
	sort.Strings(ms)
	c.descs[d.ServiceName] = ms
}

func grpcFacts() []svcFact {
	g := &capReg{descs: map[string][]string{}}
	gcoinswap.RegisterMsgServer(g, nil)
	gcoinswap.RegisterQueryServer(g, nil)
	gfarm.RegisterMsgServer(g, nil)
	gfarm.RegisterQueryServer(g, nil)
	ghtlc.RegisterMsgServer(g, nil)
	ghtlc.RegisterQueryServer(g, nil)
	gmt.RegisterMsgServer(g, nil)
	gmt.RegisterQueryServer(g, nil)
	gnft.RegisterMsgServer(g, nil)
	gnft.RegisterQueryServer(g, nil)
	goracle.RegisterMsgServer(g, nil)
	goracle.RegisterQueryServer(g, nil)
	grandom.RegisterMsgServer(g, nil)
	grandom.RegisterQueryServer(g, nil)
	grecord.RegisterMsgServer(g, nil)
	grecord.RegisterQueryServer(g, nil)
	gservice.RegisterMsgServer(g, nil)
	gservice.RegisterQueryServer(g, nil)
	gtokenv1.RegisterMsgServer(g, nil)
	gtokenv1.RegisterQueryServer(g, nil)
	gtokenv1beta1.RegisterMsgServer(g, nil)
	gtokenv1beta1.RegisterQueryServer(g, nil)

	a := &capReg{descs: map[string][]string{}}
	acoinswap.RegisterMsgServer(a, nil)
	acoinswap.RegisterQueryServer(a, nil)
	afarm.RegisterMsgServer(a, nil)
	afarm.RegisterQueryServer(a, nil)
	ahtlc.RegisterMsgServer(a, nil)
	ahtlc.RegisterQueryServer(a, nil)
	amt.RegisterMsgServer(a, nil)
	amt.RegisterQueryServer(a, nil)
	anft.RegisterMsgServer(a, nil)
	anft.RegisterQueryServer(a, nil)
	aoracle.RegisterMsgServer(a, nil)
	aoracle.RegisterQueryServer(a, nil)
	arandom.RegisterMsgServer(a, nil)
	arandom.RegisterQueryServer(a, nil)
	arecord.RegisterMsgServer(a, nil)
	arecord.RegisterQueryServer(a, nil)
	aservice.RegisterMsgServer(a, nil)
	aservice.RegisterQueryServer(a, nil)
	atokenv1.RegisterMsgServer(a, nil)
	atokenv1.RegisterQueryServer(a, nil)
	atokenv1beta1.RegisterMsgServer(a, nil)
	atokenv1beta1.RegisterQueryServer(a, nil)

	// every service the descriptors define must have a table in both families: a service that
	// is not in the lists above shows up with empty method lists and fails the theorem
	var out []svcFact
	protoregistry.GlobalFiles.RangeFiles(func(f protoreflect.FileDescriptor) bool {
		if len(f.Path()) < 8 || f.Path()[:8] != "irismod/" {
			return true
		}
		for i := 0; i < f.Services().Len(); i++ {
			sd := f.Services().Get(i)
			var ms []string
			for j := 0; j < sd.Methods().Len(); j++ {
				m := sd.Methods().Get(j)
				n := string(m.Name())
				if m.IsStreamingClient() || m.IsStreamingServer() {
					n += "!stream"
				}
				ms = append(ms, n)
			}
			sort.Strings(ms)
			name := string(sd.FullName())
			out = append(out, svcFact{name, ms, g.descs[name], a.descs[name]})
		}
		return true
	})
	sort.Slice(out, func(i, j int) bool { return out[i].Name < out[j].Name })
	return out
}
