package main

import (
	"flag"

	"verifharness/hx"
	"verifharness/mods/farm"
)

func main() {
	genesis := flag.Bool("genesis", false, "also generate `farm export` / `farm reimport` operations inside histories (C12)")
	o := hx.ParseOpts()
	env := hx.NewEnv()
	rn := farm.New(env)
	rn.Genesis = *genesis
	farm.Run(env, rn, o)
}
