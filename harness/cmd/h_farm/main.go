package main

import (
	"verifharness/hx"
	"verifharness/mods/farm"
)

func main() {
	o := hx.ParseOpts()
	env := hx.NewEnv()
	farm.Run(env, farm.New(env), o)
}
