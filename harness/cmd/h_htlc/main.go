package main

import (
	"flag"

	"verifharness/hx"
	"verifharness/mods/htlc"
)

func main() {
	genesis := flag.Bool("genesis", false, "also generate `htlc export` / `htlc reimport` operations inside histories (C12)")
	o := hx.ParseOpts()
	env := hx.NewEnv()
	r := htlc.New(env)
	r.Genesis = *genesis
	hx.RunHistories(env, r, o)
	r.WriteStats(o.Out + ".stats")
}
