package main

import (
	"verifharness/hx"
	"verifharness/mods/htlc"
)

func main() {
	o := hx.ParseOpts()
	env := hx.NewEnv()
	r := htlc.New(env)
	hx.RunHistories(env, r, o)
	r.WriteStats(o.Out + ".stats")
}
