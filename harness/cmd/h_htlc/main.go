package main

import (
	"verifharness/hx"
	"verifharness/mods/htlc"
)

func main() {
	o := hx.ParseOpts()
	env := hx.NewEnv()
	hx.RunHistories(env, htlc.New(env), o)
}
