package main

import (
	"verifharness/hx"
	"verifharness/mods/mt"
)

func main() {
	o := hx.ParseOpts()
	env := hx.NewEnv()
	hx.RunHistories(env, mt.New(env), o)
}
