package hx

import (
	"encoding/json"
	"fmt"
	"math/rand"
	"time"

	"cosmossdk.io/log"
	sdkmath "cosmossdk.io/math"
	abci "github.com/cometbft/cometbft/abci/types"
	cmtproto "github.com/cometbft/cometbft/proto/tendermint/types"
	tmtypes "github.com/cometbft/cometbft/types"
	dbm "github.com/cosmos/cosmos-db"
	"github.com/cosmos/cosmos-sdk/baseapp"
	"github.com/cosmos/cosmos-sdk/client/flags"
	"github.com/cosmos/cosmos-sdk/crypto/keys/secp256k1"
	cryptotypes "github.com/cosmos/cosmos-sdk/crypto/types"
	"github.com/cosmos/cosmos-sdk/server"
	"github.com/cosmos/cosmos-sdk/testutil/mock"
	simtestutil "github.com/cosmos/cosmos-sdk/testutil/sims"
	sdk "github.com/cosmos/cosmos-sdk/types"
	authtypes "github.com/cosmos/cosmos-sdk/x/auth/types"
	banktypes "github.com/cosmos/cosmos-sdk/x/bank/types"

	"mods.irisnet.org/e2e"
	tokenkeeper "mods.irisnet.org/modules/token/keeper"
	"mods.irisnet.org/simapp"
)

// Chain is a real application driven the way a node drives it: signed transactions through
// FinalizeBlock + Commit over a database that survives a restart. It complements Env (which
// delivers messages through the router on forks): ante handlers, gas, per-transaction
// atomicity, begin/end-block ordering, app hashes, restarts and the application's own
// export / InitChain are the production code paths here.
type Chain struct {
	App     *simapp.SimApp
	Env     *Env // keepers of the current application instance
	DB      dbm.DB
	Keys    []cryptotypes.PrivKey
	Height  int64
	Time    time.Time
	ChainID string
	Genesis json.RawMessage // the application state the chain was started from
	rnd     *rand.Rand
}

const ChainID = "verif-chain"

// Key returns the deterministic private key of universe account i.
func Key(i int) cryptotypes.PrivKey {
	return secp256k1.GenPrivKeyFromSecret([]byte(fmt.Sprintf("verif-chain-acc-%d", i)))
}

// KeyAddr is the address of Key(i).
func KeyAddr(i int) sdk.AccAddress { return sdk.AccAddress(Key(i).PubKey().Address()) }

func newApp(db dbm.DB, env *Env) *simapp.SimApp {
	appOptions := make(simtestutil.AppOptionsMap, 0)
	appOptions[flags.FlagHome] = simapp.DefaultNodeHome
	appOptions[server.FlagInvCheckPeriod] = uint(0)
	dep := simapp.DepinjectOptions{
		Config:    e2e.AppConfig,
		Providers: []interface{}{tokenkeeper.ProvideMockEVM(), tokenkeeper.ProvideMockICS20()},
		Consumers: []interface{}{
			&env.Coinswap, &env.Farm, &env.HTLC, &env.MT, &env.NFT, &env.Oracle,
			&env.Random, &env.Record, &env.Service, &env.Token,
		},
	}
	app := simapp.NewSimApp(log.NewNopLogger(), db, nil, true, dep, appOptions, baseapp.SetChainID(ChainID))
	env.App = app
	return app
}

// NewChain starts a chain whose genesis funds nAcc universe accounts with the given coins.
// If appState is non-nil it is used as the genesis application state instead (re-import).
func NewChain(nAcc int, funds sdk.Coins, genesisTime time.Time, appState json.RawMessage) (*Chain, error) {
	return NewChainAt(nAcc, funds, genesisTime, appState, 1)
}

// NewChainAt is NewChain with an explicit initial height (re-import of an export taken at
// height h continues at h+1, as CometBFT does with the exported `initial_height`).
func NewChainAt(nAcc int, funds sdk.Coins, genesisTime time.Time, appState json.RawMessage, initialHeight int64) (*Chain, error) {
	c := &Chain{DB: dbm.NewMemDB(), ChainID: ChainID, Time: genesisTime, rnd: rand.New(rand.NewSource(1))}
	for i := 0; i < nAcc; i++ {
		c.Keys = append(c.Keys, Key(i))
	}
	c.Env = &Env{}
	c.App = newApp(c.DB, c.Env)
	if appState == nil {
		privVal := mock.NewPV()
		pubKey, err := privVal.GetPubKey()
		if err != nil {
			return nil, err
		}
		valSet := tmtypes.NewValidatorSet([]*tmtypes.Validator{tmtypes.NewValidator(pubKey, 1)})
		var accs []authtypes.GenesisAccount
		var bals []banktypes.Balance
		for i, k := range c.Keys {
			acc := authtypes.NewBaseAccount(sdk.AccAddress(k.PubKey().Address()), k.PubKey(), uint64(i), 0)
			accs = append(accs, acc)
			bals = append(bals, banktypes.Balance{Address: acc.GetAddress().String(), Coins: funds})
		}
		// the validator's delegator is the first account; give it the bond on top
		bals[0].Coins = bals[0].Coins.Add(sdk.NewCoin(sdk.DefaultBondDenom, sdkmath.NewInt(0)))
		gs, err := simtestutil.GenesisStateWithValSet(c.App.AppCodec(), c.App.DefaultGenesis(), valSet, accs, bals...)
		if err != nil {
			return nil, err
		}
		bz, err := json.MarshalIndent(gs, "", " ")
		if err != nil {
			return nil, err
		}
		appState = bz
	}
	c.Genesis = appState
	var initErr error
	if p, info := NoPanic(func() {
		_, initErr = c.App.InitChain(&abci.RequestInitChain{
			ChainId:         c.ChainID,
			Time:            genesisTime,
			Validators:      []abci.ValidatorUpdate{},
			ConsensusParams: simtestutil.DefaultConsensusParams,
			AppStateBytes:   appState,
			InitialHeight:   initialHeight,
		})
	}); p {
		return nil, fmt.Errorf("InitChain panic: %s", info)
	}
	if initErr != nil {
		return nil, initErr
	}
	// the InitChain state is committed with the first block
	c.Height = initialHeight - 1
	if _, err := c.Block(nil, 5*time.Second); err != nil {
		return nil, err
	}
	return c, nil
}

// SignedMsg is one single-message transaction and the index of its signer.
type SignedMsg struct {
	Msg    sdk.Msg
	Signer int
}

// TxResult is the consensus-relevant part of a transaction result.
type TxResult struct {
	Code      uint32
	Codespace string
	Data      []byte
	GasUsed   int64
	Log       string
}

// QueryCtx is a read-only context over the last committed state.
func (c *Chain) QueryCtx() sdk.Context {
	return c.App.NewUncachedContext(false, cmtproto.Header{Height: c.Height, Time: c.Time, ChainID: c.ChainID})
}

// Block delivers the transactions in one block at Time+dt and commits it. A FinalizeBlock
// error or panic (a halted chain) is returned as error.
func (c *Chain) Block(msgs []SignedMsg, dt time.Duration) ([]TxResult, error) {
	var txs [][]byte
	qctx := sdk.Context{}
	if len(msgs) > 0 {
		qctx = c.QueryCtx()
	}
	seqBump := map[int]uint64{}
	for _, m := range msgs {
		addr := sdk.AccAddress(c.Keys[m.Signer].PubKey().Address())
		acc := c.App.AccountKeeper.GetAccount(qctx, addr)
		if acc == nil {
			return nil, fmt.Errorf("signer %d has no account", m.Signer)
		}
		seq := acc.GetSequence() + seqBump[m.Signer]
		seqBump[m.Signer]++
		tx, err := simtestutil.GenSignedMockTx(c.rnd, c.App.TxConfig(), []sdk.Msg{m.Msg}, sdk.NewCoins(), 50_000_000,
			c.ChainID, []uint64{acc.GetAccountNumber()}, []uint64{seq}, c.Keys[m.Signer])
		if err != nil {
			return nil, err
		}
		bz, err := c.App.TxConfig().TxEncoder()(tx)
		if err != nil {
			return nil, err
		}
		txs = append(txs, bz)
	}
	h := c.Height + 1
	t := c.Time.Add(dt)
	var resp *abci.ResponseFinalizeBlock
	var err error
	if p, info := NoPanic(func() {
		resp, err = c.App.FinalizeBlock(&abci.RequestFinalizeBlock{Height: h, Time: t, Txs: txs})
	}); p {
		return nil, fmt.Errorf("FinalizeBlock panic at height %d: %s", h, info)
	}
	if err != nil {
		return nil, fmt.Errorf("FinalizeBlock error at height %d: %v", h, err)
	}
	if p, info := NoPanic(func() { _, err = c.App.Commit() }); p {
		return nil, fmt.Errorf("Commit panic at height %d: %s", h, info)
	}
	if err != nil {
		return nil, err
	}
	c.Height, c.Time = h, t
	var out []TxResult
	for _, r := range resp.TxResults {
		out = append(out, TxResult{r.Code, r.Codespace, r.Data, r.GasUsed, r.Log})
	}
	return out, nil
}

// AppHash of the last committed block.
func (c *Chain) AppHash() []byte { return c.App.LastCommitID().Hash }

// Restart replaces the application instance by a fresh one over the same database,
// as a node restart between blocks does.
func (c *Chain) Restart() error {
	env := &Env{}
	var app *simapp.SimApp
	if p, info := NoPanic(func() { app = newApp(c.DB, env) }); p {
		return fmt.Errorf("restart panic: %s", info)
	}
	if app.LastBlockHeight() != c.Height {
		return fmt.Errorf("restart: height %d, expected %d", app.LastBlockHeight(), c.Height)
	}
	c.App, c.Env = app, env
	return nil
}

// Export runs the application's own export (optionally with the zero-height preparation).
func (c *Chain) Export(forZeroHeight bool) (json.RawMessage, error) {
	var out json.RawMessage
	var err error
	if p, info := NoPanic(func() {
		exp, e := c.App.ExportAppStateAndValidators(forZeroHeight, nil, nil)
		out, err = exp.AppState, e
	}); p {
		return nil, fmt.Errorf("export panic: %s", info)
	}
	return out, err
}
