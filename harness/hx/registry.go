package hx

import (
	"fmt"
	"reflect"
	"sort"
	"strings"
	"sync"
	"unsafe"
)

// RegistryDigest renders the key sets of every map-typed (or sync.Map) field found in the
// module keepers of env, down to two levels of nested structs / pointers: the process-local
// registries (callbacks, module services, blocked addresses) and any cache a keeper holds.
// Unexported fields are read through their address; nothing is modified.
func RegistryDigest(env *Env) string {
	var out []string
	ev := reflect.ValueOf(env).Elem()
	for i := 0; i < ev.NumField(); i++ {
		f := ev.Field(i)
		name := ev.Type().Field(i).Name
		if name == "App" {
			continue
		}
		walkRegistry(name, open(f), 0, &out)
	}
	sort.Strings(out)
	return strings.Join(out, " ")
}

func open(v reflect.Value) reflect.Value {
	if v.CanAddr() {
		return reflect.NewAt(v.Type(), unsafe.Pointer(v.UnsafeAddr())).Elem()
	}
	return v
}

var syncMapType = reflect.TypeOf(sync.Map{})

func walkRegistry(path string, v reflect.Value, depth int, out *[]string) {
	switch v.Kind() {
	case reflect.Ptr, reflect.Interface:
		if v.IsNil() || depth > 2 {
			return
		}
		if v.Kind() == reflect.Ptr {
			walkRegistry(path, open(v.Elem()), depth+1, out)
		}
	case reflect.Map:
		var ks []string
		for _, k := range v.MapKeys() {
			ks = append(ks, fmt.Sprint(k))
		}
		sort.Strings(ks)
		*out = append(*out, fmt.Sprintf("%s=[%s]", path, strings.Join(ks, ",")))
	case reflect.Struct:
		if v.Type() == syncMapType && v.CanAddr() {
			var ks []string
			(*sync.Map)(unsafe.Pointer(v.UnsafeAddr())).Range(func(k, _ any) bool {
				ks = append(ks, fmt.Sprint(k))
				return true
			})
			sort.Strings(ks)
			*out = append(*out, fmt.Sprintf("%s=[%s]", path, strings.Join(ks, ",")))
			return
		}
		if depth > 2 {
			return
		}
		for i := 0; i < v.NumField(); i++ {
			walkRegistry(path+"."+v.Type().Field(i).Name, open(v.Field(i)), depth+1, out)
		}
	}
}

// FirstDiff shows the first differing region of two strings.
func FirstDiff(a, b string) string {
	i := 0
	for i < len(a) && i < len(b) && a[i] == b[i] {
		i++
	}
	lo := i - 30
	if lo < 0 {
		lo = 0
	}
	cut := func(s string) string {
		hi := i + 60
		if hi > len(s) {
			hi = len(s)
		}
		if lo > len(s) {
			return ""
		}
		return s[lo:hi]
	}
	return cut(a) + "|" + cut(b)
}
