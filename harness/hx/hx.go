// Package hx is the shared library of the correspondence harness: it builds the
// real SimApp (all ten irismod modules, real bank/auth/baseapp, real message
// router) from /repo's working tree and offers deterministic generators,
// message delivery with per-message atomicity and panic capture, and the
// canonical line writer shared with the Lean driver.
package hx

import (
	"bufio"
	"encoding/hex"
	"fmt"
	"math/big"
	"os"
	"sort"
	"strings"
	"testing"
	"time"

	sdkmath "cosmossdk.io/math"
	"github.com/cometbft/cometbft/crypto/tmhash"
	cmtproto "github.com/cometbft/cometbft/proto/tendermint/types"
	"github.com/cosmos/cosmos-sdk/baseapp"
	sdk "github.com/cosmos/cosmos-sdk/types"
	authtypes "github.com/cosmos/cosmos-sdk/x/auth/types"
	govtypes "github.com/cosmos/cosmos-sdk/x/gov/types"
	minttypes "github.com/cosmos/cosmos-sdk/x/mint/types"

	"mods.irisnet.org/e2e"
	coinswapkeeper "mods.irisnet.org/modules/coinswap/keeper"
	farmkeeper "mods.irisnet.org/modules/farm/keeper"
	htlckeeper "mods.irisnet.org/modules/htlc/keeper"
	mtkeeper "mods.irisnet.org/modules/mt/keeper"
	nftkeeper "mods.irisnet.org/modules/nft/keeper"
	oraclekeeper "mods.irisnet.org/modules/oracle/keeper"
	randomkeeper "mods.irisnet.org/modules/random/keeper"
	recordkeeper "mods.irisnet.org/modules/record/keeper"
	servicekeeper "mods.irisnet.org/modules/service/keeper"
	tokenkeeper "mods.irisnet.org/modules/token/keeper"
	tokentypes "mods.irisnet.org/modules/token/types"
	"mods.irisnet.org/simapp"
)

// Env is one real application instance plus the keepers of every irismod module.
type Env struct {
	App      *simapp.SimApp
	Base     sdk.Context // context over the deliver state after InitChain; never written by histories
	Coinswap coinswapkeeper.Keeper
	Farm     farmkeeper.Keeper
	HTLC     htlckeeper.Keeper
	MT       mtkeeper.Keeper
	NFT      nftkeeper.Keeper
	Oracle   oraclekeeper.Keeper
	Random   randomkeeper.Keeper
	Record   recordkeeper.Keeper
	Service  servicekeeper.Keeper
	Token    tokenkeeper.Keeper
	EVM      tokentypes.EVMKeeper
}

// EnvOptions lets a harness replace the EVM keeper (C10 uses a transactional one).
type EnvOptions struct {
	EVM tokentypes.EVMKeeper
}

// NewEnv builds the application from the current /repo tree.
func NewEnv(opts ...EnvOptions) *Env {
	e := &Env{}
	var evm tokentypes.EVMKeeper = tokenkeeper.ProvideMockEVM()
	if len(opts) > 0 && opts[0].EVM != nil {
		evm = opts[0].EVM
	}
	e.EVM = evm
	dep := simapp.DepinjectOptions{
		Config:    e2e.AppConfig,
		Providers: []interface{}{evm, tokenkeeper.ProvideMockICS20()},
		Consumers: []interface{}{
			&e.Coinswap, &e.Farm, &e.HTLC, &e.MT, &e.NFT, &e.Oracle,
			&e.Random, &e.Record, &e.Service, &e.Token,
		},
	}
	e.App = simapp.Setup(&testing.T{}, false, dep)
	e.Base = e.App.BaseApp.NewContext(false).WithBlockHeader(cmtproto.Header{
		Height: 1, Time: time.Unix(1700000000, 0).UTC(), ChainID: "verif",
	}).WithBlockGasMeter(nil)
	return e
}

// Fork returns a context whose writes never reach the base state: every history
// runs on its own fork, so one application instance serves a whole run.
func (e *Env) Fork() sdk.Context {
	c, _ := e.Base.CacheContext()
	return c
}

// Authority is the governance module account address, the authority of every module.
func Authority() string { return authtypes.NewModuleAddress(govtypes.ModuleName).String() }

// Acc returns the i-th universe account (deterministic, 20 bytes).
func Acc(i int) sdk.AccAddress {
	return sdk.AccAddress(tmhash.SumTruncated([]byte(fmt.Sprintf("verif-acc-%d", i))))
}

// AccName is the symbolic name used in the line protocol.
func AccName(i int) string { return fmt.Sprintf("A%d", i) }

// Mod returns a module account address.
func Mod(name string) sdk.AccAddress { return authtypes.NewModuleAddress(name) }

// Fund mints coins through the mint module and sends them to addr.
func (e *Env) Fund(ctx sdk.Context, addr sdk.AccAddress, coins sdk.Coins) {
	if coins.IsZero() {
		return
	}
	if err := e.App.BankKeeper.MintCoins(ctx, minttypes.ModuleName, coins); err != nil {
		panic(err)
	}
	if err := e.App.BankKeeper.SendCoinsFromModuleToAccount(ctx, minttypes.ModuleName, addr, coins); err != nil {
		panic(err)
	}
}

// Bal is the balance of one denom as a decimal string.
func (e *Env) Bal(ctx sdk.Context, addr sdk.AccAddress, denom string) sdkmath.Int {
	return e.App.BankKeeper.GetBalance(ctx, addr, denom).Amount
}

// Supply is the bank supply of one denom.
func (e *Env) Supply(ctx sdk.Context, denom string) sdkmath.Int {
	return e.App.BankKeeper.GetSupply(ctx, denom).Amount
}

// Result classes compared with the model.
const (
	OK    = "ok"
	Rej   = "rej"
	Panic = "panic"
)

// Outcome of one delivered message.
type Outcome struct {
	Class string  // ok | rej | panic
	Err   string  // codespace/code or panic text (annotation, not compared)
	Resp  sdk.Msg // typed response when ok (proto message)
	Raw   *sdk.Result
}

type validateBasic interface{ ValidateBasic() error }

// Deliver runs one message the way a transaction with that single message would:
// ValidateBasic, then the application's message router on a cached context that is
// written only on success; a panic is captured and reverts like the tx runner does.
func (e *Env) Deliver(ctx sdk.Context, msg sdk.Msg) (out Outcome) {
	cctx, write := ctx.CacheContext()
	defer func() {
		if r := recover(); r != nil {
			out = Outcome{Class: Panic, Err: fmt.Sprint(r)}
		}
	}()
	if vb, ok := msg.(validateBasic); ok {
		if err := vb.ValidateBasic(); err != nil {
			return Outcome{Class: Rej, Err: "vb:" + ErrClass(err)}
		}
	}
	h := e.App.MsgServiceRouter().Handler(msg)
	if h == nil {
		return Outcome{Class: Rej, Err: "noroute"}
	}
	res, err := h(cctx, msg)
	if err != nil {
		return Outcome{Class: Rej, Err: ErrClass(err)}
	}
	write()
	out = Outcome{Class: OK, Raw: res}
	return out
}

// Try runs f on a cached context written only when f returns nil; panics captured.
func Try(ctx sdk.Context, f func(sdk.Context) error) (class string, info string) {
	cctx, write := ctx.CacheContext()
	defer func() {
		if r := recover(); r != nil {
			class, info = Panic, fmt.Sprint(r)
		}
	}()
	if err := f(cctx); err != nil {
		return Rej, ErrClass(err)
	}
	write()
	return OK, ""
}

// NoPanic runs f (begin/end blockers) directly on ctx and reports a panic.
func NoPanic(f func()) (panicked bool, info string) {
	defer func() {
		if r := recover(); r != nil {
			panicked, info = true, fmt.Sprint(r)
		}
	}()
	f()
	return false, ""
}

// ErrClass maps an error to codespace/code.
func ErrClass(err error) string {
	if err == nil {
		return ""
	}
	type abci interface {
		Codespace() string
		ABCICode() uint32
	}
	cur := err
	for cur != nil {
		if a, ok := cur.(abci); ok {
			return fmt.Sprintf("%s/%d", a.Codespace(), a.ABCICode())
		}
		type unw interface{ Unwrap() error }
		type cause interface{ Cause() error }
		if u, ok := cur.(unw); ok {
			cur = u.Unwrap()
		} else if c, ok := cur.(cause); ok {
			cur = c.Cause()
		} else {
			break
		}
	}
	s := err.Error()
	if len(s) > 40 {
		s = s[:40]
	}
	return "other:" + strings.ReplaceAll(s, " ", "_")
}

// WithBlock returns ctx at a new height/time (event manager reset).
func WithBlock(ctx sdk.Context, height int64, t time.Time) sdk.Context {
	h := ctx.BlockHeader()
	h.Height = height
	h.Time = t
	return ctx.WithBlockHeader(h).WithEventManager(sdk.NewEventManager())
}

var _ = baseapp.Paramspace

// ---------------------------------------------------------------- PRNG

// Rng is splitmix64; every random choice of a run derives from VERIF_SEED.
type Rng struct{ s uint64 }

func NewRng(seed uint64) *Rng {
	// mix the seed through the splitmix64 finaliser so that consecutive seeds give unrelated
	// streams (a plain multiple of the increment would only shift the stream by one draw)
	z := seed + 0x9E3779B97F4A7C15
	z = (z ^ (z >> 30)) * 0xBF58476D1CE4E5B9
	z = (z ^ (z >> 27)) * 0x94D049BB133111EB
	z ^= z >> 31
	return &Rng{s: z ^ 0x1234567}
}

func (r *Rng) U64() uint64 {
	r.s += 0x9E3779B97F4A7C15
	z := r.s
	z = (z ^ (z >> 30)) * 0xBF58476D1CE4E5B9
	z = (z ^ (z >> 27)) * 0x94D049BB133111EB
	return z ^ (z >> 31)
}

// Intn returns a value in [0,n).
func (r *Rng) Intn(n int) int {
	if n <= 0 {
		return 0
	}
	return int(r.U64() % uint64(n))
}

// Range returns a value in [lo,hi].
func (r *Rng) Range(lo, hi int64) int64 {
	if hi <= lo {
		return lo
	}
	return lo + int64(r.U64()%uint64(hi-lo+1))
}

// Chance is true with probability num/den.
func (r *Rng) Chance(num, den int) bool { return r.Intn(den) < num }

// Pick chooses an index by weight.
func (r *Rng) Pick(weights ...int) int {
	t := 0
	for _, w := range weights {
		t += w
	}
	x := r.Intn(t)
	for i, w := range weights {
		if x < w {
			return i
		}
		x -= w
	}
	return len(weights) - 1
}

// BigRaw returns a uniformly random non-negative big integer below 2^bits.
func (r *Rng) BigRaw(bits int) *big.Int {
	if bits <= 0 {
		return new(big.Int)
	}
	nb := (bits + 7) / 8
	b := make([]byte, nb)
	for i := range b {
		b[i] = byte(r.U64())
	}
	extra := nb*8 - bits
	b[0] &= 0xff >> uint(extra)
	return new(big.Int).SetBytes(b)
}

// BigBits returns a uniformly random non-negative sdkmath.Int below 2^bits (bits <= 256).
func (r *Rng) BigBits(bits int) sdkmath.Int {
	return sdkmath.NewIntFromBigInt(r.BigRaw(bits))
}

// Amount draws an amount with a log-uniform bit length in [1,maxBits], at least 1.
func (r *Rng) Amount(maxBits int) sdkmath.Int {
	a := r.BigBits(1 + r.Intn(maxBits))
	if a.IsZero() {
		return sdkmath.OneInt()
	}
	return a
}

// Bytes returns n pseudo-random bytes.
func (r *Rng) Bytes(n int) []byte {
	b := make([]byte, n)
	for i := range b {
		b[i] = byte(r.U64())
	}
	return b
}

// ---------------------------------------------------------------- line output

// Out writes the two streams of a run: operation lines (fed to the Lean driver)
// and the implementation's observation lines (compared with the driver's output).
type Out struct {
	ops  *bufio.Writer
	obs  *bufio.Writer
	fo   *os.File
	fb   *os.File
	Hist map[string]int // op-kind / branch histogram, written to the stats file
	path string
}

// NewOut creates <prefix>.ops and <prefix>.impl.
func NewOut(prefix string) *Out {
	fo, err := os.Create(prefix + ".ops")
	if err != nil {
		panic(err)
	}
	fb, err := os.Create(prefix + ".impl")
	if err != nil {
		panic(err)
	}
	return &Out{ops: bufio.NewWriterSize(fo, 1<<20), obs: bufio.NewWriterSize(fb, 1<<20), fo: fo, fb: fb, Hist: map[string]int{}, path: prefix}
}

// Op writes one operation line and its observation line.
func (o *Out) Op(op string, obs string) {
	o.ops.WriteString(op)
	o.ops.WriteByte('\n')
	o.obs.WriteString(obs)
	o.obs.WriteByte('\n')
}

// Count bumps a histogram key.
func (o *Out) Count(k string) { o.Hist[k]++ }

// Close flushes both streams and writes <prefix>.stats (sorted key=value lines).
func (o *Out) Close() {
	o.ops.Flush()
	o.obs.Flush()
	o.fo.Close()
	o.fb.Close()
	keys := make([]string, 0, len(o.Hist))
	for k := range o.Hist {
		keys = append(keys, k)
	}
	sort.Strings(keys)
	f, err := os.Create(o.path + ".stats")
	if err != nil {
		panic(err)
	}
	for _, k := range keys {
		fmt.Fprintf(f, "%s=%d\n", k, o.Hist[k])
	}
	f.Close()
}

// Hex encodes bytes.
func Hex(b []byte) string { return hex.EncodeToString(b) }

// KV formats key=value pairs.
func KV(parts ...interface{}) string {
	var sb strings.Builder
	for i := 0; i+1 < len(parts); i += 2 {
		if i > 0 {
			sb.WriteByte(' ')
		}
		fmt.Fprintf(&sb, "%v=%v", parts[i], parts[i+1])
	}
	return sb.String()
}

// Args parses "k=v k=v" tokens of an op line (after the op name) into a map.
func Args(fields []string) map[string]string {
	m := map[string]string{}
	for _, f := range fields {
		if i := strings.IndexByte(f, '='); i > 0 {
			m[f[:i]] = f[i+1:]
		}
	}
	return m
}

// ReadLines reads a replay file.
func ReadLines(path string) []string {
	b, err := os.ReadFile(path)
	if err != nil {
		panic(err)
	}
	var out []string
	for _, l := range strings.Split(string(b), "\n") {
		if strings.TrimSpace(l) != "" {
			out = append(out, l)
		}
	}
	return out
}

// MustInt parses a decimal big integer.
func MustInt(s string) sdkmath.Int {
	v, ok := sdkmath.NewIntFromString(s)
	if !ok {
		panic("bad int " + s)
	}
	return v
}
