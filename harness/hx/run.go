package hx

import (
	"flag"
	"fmt"
	"os"
	"strconv"
	"strings"

	sdk "github.com/cosmos/cosmos-sdk/types"
)

// Runner is one module scenario: it generates operation lines from the current real
// state, executes a line on the real keepers and renders the canonical observation.
// Exec must depend only on the line and the context, so that a written .ops file
// replays exactly.
type Runner interface {
	// Module is the first token of every line this runner owns.
	Module() string
	// Reset starts a new history on a fresh fork and returns the observation of the reset line.
	Reset(ctx sdk.Context, resetLine string) (sdk.Context, string)
	// ResetLine produces the reset line for a new history (may carry initial balances, params).
	ResetLine(r *Rng) string
	// Gen produces the next operation line.
	Gen(ctx sdk.Context, r *Rng) string
	// Exec executes one operation line and returns (possibly advanced) context and observation.
	Exec(ctx sdk.Context, line string) (sdk.Context, string)
}

// Opts are the common command-line options of every harness binary.
type Opts struct {
	Seed   uint64
	N      int
	Len    int
	Out    string
	Replay string
}

func ParseOpts() Opts {
	var o Opts
	flag.Uint64Var(&o.Seed, "seed", 1, "PRNG seed")
	flag.IntVar(&o.N, "n", 50, "number of histories")
	flag.IntVar(&o.Len, "len", 40, "operations per history")
	flag.StringVar(&o.Out, "out", "out", "output prefix (<out>.ops, <out>.impl, <out>.stats)")
	flag.StringVar(&o.Replay, "replay", "", "replay an .ops file instead of generating")
	flag.Parse()
	if s := os.Getenv("VERIF_SEED"); s != "" && !isFlagSet("seed") {
		if v, err := strconv.ParseUint(s, 10, 64); err == nil {
			o.Seed = v
		}
	}
	return o
}

func isFlagSet(name string) bool {
	set := false
	flag.Visit(func(f *flag.Flag) {
		if f.Name == name {
			set = true
		}
	})
	return set
}

// Ghoster is implemented by runners whose operations may also be executed on a context that is thrown
// away (what a simulation, a CheckTx or a node one block behind does): the line `<module> ghost <op…>`
// runs the operation on a cache context that is never written; its observation is `ghost` followed by
// the canonical state of the real context, which has to be what it was. Process-local state that such
// an execution leaves behind (caches, registries) is what these lines are after.
type Ghoster interface {
	Stater
	GhostChance() (num, den int)
}

// ghost executes a `<module> ghost <op…>` line.
func ghost(rn Runner, ctx sdk.Context, l string) string {
	f := strings.Fields(l)
	st, ok := rn.(Stater)
	if !ok || len(f) < 3 {
		Fail("ghost line for a runner without State: %q", l)
	}
	gctx, _ := ctx.CacheContext()
	rn.Exec(gctx, f[0]+" "+strings.Join(f[2:], " "))
	return "ghost " + st.State(ctx)
}

// RunHistories generates and executes histories, or replays a file.
func RunHistories(env *Env, rn Runner, o Opts) {
	out := NewOut(o.Out)
	defer out.Close()
	if o.Replay != "" {
		ctx := env.Fork()
		for _, l := range ReadLines(o.Replay) {
			f := strings.Fields(l)
			var obs string
			if len(f) >= 2 && f[1] == "reset" {
				ctx, obs = rn.Reset(env.Fork(), l)
			} else if len(f) >= 2 && f[1] == "ghost" {
				obs = ghost(rn, ctx, l)
			} else {
				ctx, obs = rn.Exec(ctx, l)
			}
			out.Op(l, obs)
		}
		return
	}
	for i := 0; i < o.N; i++ {
		r := NewRng(o.Seed*1000003 + uint64(i))
		rl := rn.ResetLine(r)
		ctx, obs := rn.Reset(env.Fork(), rl)
		out.Op(rl, obs)
		for j := 0; j < o.Len; j++ {
			l := rn.Gen(ctx, r)
			if l == "" {
				continue
			}
			f := strings.Fields(l)
			if gh, ok := rn.(Ghoster); ok && len(f) >= 2 && f[1] != "export" && f[1] != "reimport" {
				if num, den := gh.GhostChance(); r.Chance(num, den) {
					l = f[0] + " ghost " + strings.Join(f[1:], " ")
					out.Op(l, ghost(rn, ctx, l))
					out.Count("op.ghost")
					continue
				}
			}
			ctx, obs = rn.Exec(ctx, l)
			out.Op(l, obs)
			if len(f) >= 2 {
				res := strings.SplitN(obs, " ", 2)[0]
				out.Count("op." + f[1] + "." + res)
			}
		}
		out.Count("histories")
	}
}

// Dash renders an empty string as "-" (tokens are never empty in the line protocol).
func Dash(s string) string {
	if s == "" {
		return "-"
	}
	return s
}

// Undash is the inverse of Dash.
func Undash(s string) string {
	if s == "-" {
		return ""
	}
	return s
}

// Fail aborts the harness with a message (harness-internal error, never a verdict).
func Fail(format string, a ...interface{}) {
	fmt.Fprintf(os.Stderr, "harness error: "+format+"\n", a...)
	os.Exit(3)
}

// Stater is implemented by runners whose canonical state projection (what their observation
// lines carry, read through queries/getters) can be rendered on demand; the cross-cutting
// harnesses (genesis round trip, replicas) compare it before and after.
type Stater interface {
	State(ctx sdk.Context) string
}

// GenesisStater is implemented by runners whose query projection contains objects the module
// documents as dropped on export (closed HTLCs, in-flight requests, …): GenesisState renders
// only what the property C12 says must survive an export/import round trip.
type GenesisStater interface {
	GenesisState(ctx sdk.Context) string
}

// BlockCloser is implemented by runners of modules with begin/end-block processing: CloseBlock
// finishes the current block the way the chain would (runs the module's end blocker at the
// current height) and returns the context of the next height. An application exports only
// committed state, i.e. at a block boundary; the genesis round trip uses this so that it never
// exports a mid-block state (e.g. a farm pool still queued at its own end height, or destroyed
// in the current block) that no chain could export.
// Continuer is implemented by runners whose module has time-driven items (expiry queues, pool
// ends, pending requests): Continuation returns block-processing operation lines (no user
// messages) that drive the chain through every height at which an item pending in ctx falls
// due. h_genesis executes them on the original and on the re-imported state and compares.
type Continuer interface {
	Continuation(ctx sdk.Context) []string
}

type BlockCloser interface {
	CloseBlock(ctx sdk.Context) sdk.Context
}
