#!/usr/bin/env python3
"""Every Lean target / audit file / driver / harness a check configuration names must exist in the tree (run before committing)."""
import json, glob, os, re, sys
root = os.path.dirname(os.path.dirname(os.path.abspath(__file__)))
lf = open(os.path.join(root, "lean/lakefile.toml")).read()
exes = dict(re.findall(r'name = "([^"]+)"\s*\nroot = "([^"]+)"', lf))
bad = []
def need(path, why):
    if not os.path.exists(os.path.join(root, path)):
        bad.append("%s: missing %s" % (why, path))
for f in sorted(glob.glob(os.path.join(root, "checks.d/*.json"))):
    c = json.load(open(f)); n = os.path.basename(f)
    for t in c.get("lean_targets", []):
        need("lean/" + t.replace(".", "/") + ".lean", n)
    a = c.get("audit") or []
    for x in ([a] if isinstance(a, str) else a):
        need("lean/" + x, n)
        for imp in re.findall(r"^import\s+(Irismod\S+)", open(os.path.join(root, "lean", x)).read(), flags=re.M) if os.path.exists(os.path.join(root, "lean", x)) else []:
            need("lean/" + imp.replace(".", "/") + ".lean", n + " via " + x)
    for d in c.get("drivers", []):
        if d not in exes: bad.append("%s: driver %s not in lakefile" % (n, d))
        else: need("lean/" + exes[d].replace(".", "/") + ".lean", n)
    for h in c.get("harness", []):
        need("harness/cmd/" + h, n)
    for tier in ("quick", "thorough"):
        for r in c.get("runs", {}).get(tier, []):
            if r["harness"] not in c.get("harness", []): bad.append("%s: run uses unlisted harness %s" % (n, r["harness"]))
            if r["driver"] not in c.get("drivers", []): bad.append("%s: run uses unlisted driver %s" % (n, r["driver"]))
for l in bad: print("LINT", l)
sys.exit(1 if bad else 0)
