#!/usr/bin/env python3
"""Assemble /verif/MANIFEST.json from manifest.d/<Cnn>.json (one check entry per claimed
property) and properties.jsonl; every property without an entry goes to not_applicable with
the reason given in manifest.d/not_applicable.json (or a default)."""
import glob, json, os
R = os.path.dirname(os.path.dirname(os.path.abspath(__file__)))
props = [json.loads(l)["id"] for l in open(os.path.join(R, "properties.jsonl"))]
entries = {}
claimed = set(json.load(open(os.path.join(R, "manifest.d", "claimed.json"))))  # checks verified green on the unchanged tree
for f in sorted(glob.glob(os.path.join(R, "manifest.d", "C*.json"))):
    e = json.load(open(f))
    if e["property_id"] in claimed:
        entries[e["property_id"]] = e
na_file = os.path.join(R, "manifest.d", "not_applicable.json")
na_reasons = json.load(open(na_file)) if os.path.exists(na_file) else {}
checks, na = [], []
for p in props:
    if p in entries:
        e = entries[p]
        e.setdefault("quick_cmd", "./check %s --tier quick" % p)
        e.setdefault("thorough_cmd", "./check %s --tier thorough" % p)
        e.setdefault("evidence_file", "/verif/evidence/%s.json" % p)
        e.setdefault("replay_cmd_template", "./check %s --replay {path}" % p)
        e.setdefault("engine", "lean-proof+correspondence")
        checks.append(e)
    else:
        na.append({"property_id": p, "reason": na_reasons.get(p, "not yet claimed: the model and proofs for this property are still being built (the technique applies; see DESIGN.md section 5)")})
m = {
    "version": 1,
    "setup_cmd": "./setup.sh",
    "hooks": {"guard": "verif",
              "enable": "go build -tags verif (harness module /verif/harness, replace mods.irisnet.org/* => /repo/*)",
              "baseline_off_cmd": "for m in $(cat /w/out/gomods.txt); do (cd /repo/$m && go test -mod=mod -vet=off -count=1 -timeout 25m ./...); done",
              "source_commits": json.load(open(os.path.join(R, "manifest.d", "hooks.json")))["source_commits"] if os.path.exists(os.path.join(R, "manifest.d", "hooks.json")) else [],
              "add_only": True},
    "engines": [{"name": "lean-proof+correspondence", "path": "/verif/check", "serves_properties": [c["property_id"] for c in checks],
                 "kind_free_text": "Lean 4 theorems about an executable model (hand-written, or regenerated from source where stated); model tied to /repo on every run by a differential correspondence run (Go harness on the real SimApp vs compiled Lean driver) and by the property's executable monitor evaluated on the implementation trace"}],
    "checks": checks,
    "not_applicable": na,
    "notes": "See DESIGN.md. ./check <id> [--tier quick|thorough] [--replay file]; VERIF_SEED and VERIF_TIER are honoured.",
}
json.dump(m, open(os.path.join(R, "MANIFEST.json"), "w"), indent=1)
print("MANIFEST.json: %d checks, %d not_applicable" % (len(checks), len(na)))
