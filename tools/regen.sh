#!/bin/sh
# Regenerates every Irismod/Gen/*.lean file from /repo's working tree (the same commands the checks run).
cd "$(dirname "$0")/.."
export GOFLAGS=-mod=mod GOPROXY=off GOSUMDB=off GOTOOLCHAIN=local
mkdir -p work extract/bin harness/bin
python3 - <<'PY'
import json, glob, subprocess
for f in sorted(glob.glob('checks.d/*.json')):
    for cmd in json.load(open(f)).get('extract') or []:
        r = subprocess.run(cmd, shell=isinstance(cmd, str))
        print('regen', f, 'rc=%d' % r.returncode)
PY
