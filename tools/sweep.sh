#!/bin/bash
# sweep.sh <tier> <seed>...   — unchanged-tree sweep of every check over several seeds (run from a snapshot: vp run -- tools/sweep.sh quick 2 3 4)
tier=$1; shift
./setup.sh > sweep-setup.log 2>&1
for seed in "$@"; do
  for i in 01 02 03 04 05 06 07 08 09 10 11 12 13 14 15 16 17 18 19 20; do
    s=$(date +%s); out=$(VERIF_SEED=$seed ./check C$i --tier $tier 2>&1 | grep -v "^KNOWN-FINDING" | tail -2 | tr '\n' ' ' | cut -c1-400); 
    echo "SWEEP seed=$seed C$i $(( $(date +%s)-s ))s :: $out"
  done
done
