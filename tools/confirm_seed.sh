#!/bin/bash
# confirm_seed.sh <worktree> <patch> <test-dir-rel> <demo-dir-rel> <demo-run-regex>
# Confirms a seeded change: without it the demo passes; with it the repository builds, the
# existing tests of <test-dir-rel> pass (demo excluded by -run filter on the demo regex), and the demo fails.
export GOFLAGS=-mod=mod GOPROXY=off GOSUMDB=off GOTOOLCHAIN=local
W=$1; P=$2; T=$3; D=$4; R=$5
cd $W && git checkout -q -- . || exit 9
echo "--- demo without change (must pass)"; (cd $W/$D && go test -vet=off -count=1 -run "$R" . 2>&1 | tail -3)
git apply $P || { echo "patch does not apply"; exit 9; }
echo "--- build + existing tests with change (must pass)"; (cd $W/$T && go build ./... && go test -vet=off -count=1 -skip "TestSeeded" ./... 2>&1 | grep -v "no test files" | tail -8)
echo "--- demo with change (must fail)"; (cd $W/$D && go test -vet=off -count=1 -run "$R" . 2>&1 | tail -4)
git checkout -q -- .
