#!/usr/bin/env python3
"""C20: when a regenerated-fact theorem no longer checks, name the concrete item on which the
property fails (a message/enum/service whose descriptors differ between the families, a Msg
that is not registered or has no address signer, a new scalar-customtype message field)."""
import json, os
R = os.path.dirname(os.path.dirname(os.path.abspath(__file__)))
d = json.load(open(os.path.join(R, "work/api_facts.json")))
g = {i["kind"] + ":" + i["name"]: i["hex"] for i in d["gogo"]}
p = {i["kind"] + ":" + i["name"]: i["hex"] for i in d["pulsar"]}
found = False
for k in sorted(set(g) | set(p)):
    if k not in g:
        print("FAILING-INPUT descriptor only in the api/ (pulsar) family:", k); found = True
    elif k not in p:
        print("FAILING-INPUT descriptor only in the modules (gogoproto) family:", k); found = True
    elif g[k] != p[k]:
        print("FAILING-INPUT descriptors differ:", k, "\n  gogo  =", g[k][:400], "\n  pulsar=", p[k][:400]); found = True
for f in d["pulsar_only"]:
    if not f["is_module_config"]:
        print("FAILING-INPUT file exists in one family only and is not an app-wiring module config:", f["file"]); found = True
for f in d.get("gogo_only") or []:
    print("FAILING-INPUT file exists only in the gogoproto family:", f); found = True
for m in d["msgs"]:
    if not m["registered"]:
        print("FAILING-INPUT Msg not registered with the interface registry:", m["name"]); found = True
    if m["signer_kind"] not in ("address-string", "message-with-signer"):
        print("FAILING-INPUT Msg signer does not resolve to an address field:", m["name"], m["signer"], m["signer_kind"]); found = True
for s in d.get("suspect_fields") or []:
    if s != "irismod.coinswap.Params.fee":
        print("FAILING-INPUT message-typed field with scalar customtype (families encode it differently):", s); found = True
for sv in d.get("services") or []:
    for fam in ("gogo", "pulsar"):
        if (sv.get(fam) or []) != sv["desc"]:
            missing = sorted(set(sv["desc"]) - set(sv.get(fam) or []))
            extra = sorted(set(sv.get(fam) or []) - set(sv["desc"]))
            print("FAILING-INPUT grpc.ServiceDesc of the %s family for %s differs from the descriptor: missing %s extra %s" % (fam, sv["name"], missing, extra)); found = True
if not found:
    print("no concrete failing item found in the regenerated facts")
