#!/bin/bash
# seed_pipeline.sh <outdir> <worktree> <module-rel-dir> <demo-rel-dir> <go-test-run-pattern> <Cnn> [more Cnn...]
# 1. confirms a seeded change (demo passes without it; with it: builds, module tests + e2e tests of the module pass, demo fails)
# 2. runs ./check Cnn (quick) against the worktree with the change applied (VERIF_REPO), /repo untouched
export GOFLAGS=-mod=mod GOPROXY=off GOSUMDB=off GOTOOLCHAIN=local
O=$1; W=$2; T=$3; D=$4; R=$5; shift 5
cd $W && git checkout -q -- . && git clean -fdq
mkdir -p $W/$D; cp $O/*_test.go $W/$D/ 2>/dev/null
echo "--- demo without change (must pass)"; (cd $W/$D && go test -vet=off -count=1 -run "$R" . 2>&1 | tail -3)
git -C $W apply $O/patch.diff || { echo "PATCH DOES NOT APPLY"; exit 9; }
echo "--- build + existing tests with change (must pass)"
mv $W/$D/seeded_*_test.go /tmp/ 2>/dev/null
(cd $W/$T && go build ./... && go test -vet=off -count=1 ./... 2>&1 | grep -v "no test files" | tail -6)
m=$(basename $T); [ -d $W/e2e/$m ] && (cd $W/e2e && go test -vet=off -count=1 ./$m/... 2>&1 | tail -3)
cp $O/*_test.go $W/$D/
echo "--- demo with change (must fail)"; (cd $W/$D && go test -vet=off -count=1 -run "$R" . 2>&1 | tail -4)
rm -f $W/$D/seeded_*_test.go
for p in "$@"; do
  echo "--- ./check $p against the changed tree"
  (cd ${VERIF_ROOT:-/verif} && VERIF_REPO=$W ./check $p --tier quick 2>&1 | tail -4)
done
git -C $W checkout -q -- . ; git -C $W clean -fdq
