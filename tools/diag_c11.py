#!/usr/bin/env python3
"""C11: name the regenerated nondeterminism sites that are not on the reviewed allow-list."""
import re, os
R = os.path.dirname(os.path.dirname(os.path.abspath(__file__)))
src = open(os.path.join(R, "lean/Irismod/Spec/C11.lean")).read()
allow = set(re.findall(r'⟨"([^"]*)", "([^"]*)", "([^"]*)", "([^"]*)",', src))
m = re.search(r"def wiringFields : List String := \[(.*?)\]\n", src, flags=re.S)
wiring = set(re.findall(r'"([^"]*)"', m.group(1)))
found = False
for l in open(os.path.join(R, "work/nondet_sites.txt")):
    f, fn, kind, callee, _ = l.rstrip("\n").split("\t")
    ok = (callee in wiring) if kind == "keeper-field" else ((f, fn, kind, callee) in allow)
    if not ok:
        found = True
        print("UNREVIEWED-SITE (the allow-list theorem no longer checks; the replica experiments decide whether outcomes actually diverge) nondeterminism site: kind=%s callee=%s in %s (%s)" % (kind, callee, f, fn))
if not found:
    print("no unreviewed site in the regenerated table")
