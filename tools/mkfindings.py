#!/usr/bin/env python3
"""Merge findings.d/*.json into known_findings.json (the committed known-findings file)."""
import glob, json, os
R = os.path.dirname(os.path.dirname(os.path.abspath(__file__)))
p = os.path.join(R, "known_findings.json")
d = json.load(open(p))
by = {k["key"]: k for k in d["findings"]}
for f in sorted(glob.glob(os.path.join(R, "findings.d", "*.json"))):
    e = json.load(open(f))
    by[e["key"]] = e
d["findings"] = [by[k] for k in sorted(by)]
json.dump(d, open(p, "w"), indent=1)
print(len(d["findings"]), "findings")
