#!/usr/bin/env python3
"""C16: name the parameter-update handler whose regenerated source facts no longer hold
(authority comparison before SetParams, Validate before store.Set, ValidateBasic validating,
genesis import through SetParams)."""
need = ["updateChecksAuthorityFirst", "setParamsValidatesFirst", "validateBasicValidates", "initGenesisUsesSetParams"]
where = {
    "updateChecksAuthorityFirst": "keeper/msg_server.go UpdateParams: `if <keeper>.authority != msg.Authority { return nil, err }` must be the first statement and the parameters must be stored through SetParams",
    "setParamsValidatesFirst": "keeper/params.go SetParams: `if err := params.Validate(); err != nil { return err }` must precede the store write",
    "validateBasicValidates": "types msgs.go MsgUpdateParams.ValidateBasic must call Params.Validate",
    "initGenesisUsesSetParams": "InitGenesis must store the parameters through SetParams and panic on its error",
}
found = False
mods = []
for l in open(__import__("os").path.join(__import__("os").path.dirname(__import__("os").path.dirname(__import__("os").path.abspath(__file__))), "work/handler_facts.txt")):
    f = l.rstrip("\n").split("\t")
    facts = dict(x.split("=", 1) for x in f[1:])
    if "farmValidatesTaxRate" in facts or "coinswapValidatesFeeDenom" in facts:
        continue
    mods.append(f[0])
    for k in need:
        if facts.get(k) != "true":
            found = True
            print("BROKEN-FACT (syntactic source fact; the harness run decides whether an input fails) handler fact %s=false for module %s: %s" % (k, f[0], where[k]))
if mods != ["coinswap", "farm", "htlc", "service", "token"]:
    found = True
    print("BROKEN-FACT handler table lists %s" % mods)
if not found:
    print("every regenerated handler fact holds; the broken obligation is elsewhere")
