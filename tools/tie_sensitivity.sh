#!/bin/bash
# For each saved seed: apply its patch to a scratch worktree of /repo's HEAD, regenerate Gen/Pure*.lean from it into a
# temporary directory (VERIF_REPO) and list the regenerated files that differ from /verif/lean/Irismod/Gen (= the ties a
# change breaks without any generated input having to hit it). Needs extract/bin/x_pure built from the unchanged tree and
# Gen regenerated from it; start several workers a few seconds apart (git worktree add races otherwise).
# usage: tiesens.sh <worker> <seed ids...>   -> prints "<seed> <changed Gen files>"
w=$1; shift
export GOFLAGS=-mod=mod GOPROXY=off GOSUMDB=off GOTOOLCHAIN=local
wt=/tmp/tiesens-wt-$w; out=/tmp/tiesens-out-$w
git -C /repo worktree remove --force $wt >/dev/null 2>&1
git -C /repo worktree add -q --detach $wt HEAD || exit 2
for id in "$@"; do
  if git -C $wt apply /verif/seeded/$id/patch.diff 2>/dev/null; then
    rm -rf $out; mkdir -p $out
    VERIF_REPO=$wt /verif/extract/bin/x_pure $out >/dev/null 2>&1
    ch=""
    for f in $out/Pure*.lean; do b=$(basename $f); cmp -s $f /verif/lean/Irismod/Gen/$b || ch="$ch $b"; done
    echo "$id:$ch"
    git -C $wt checkout -q -- . ; git -C $wt clean -fdq
  else echo "$id: APPLY-FAILED"; fi
done
git -C /repo worktree remove --force $wt; rm -rf $out
