#!/bin/bash
# confirm_one.sh <worktree> <patch-rel> <module-rel> <pkg-rel> <demo-rel> <run-pattern>
wt=${1:?}; patch=${2:?}; mod=${3:?}; pkg=${4:?}; demo=${5:?}; pat=${6:?}
cd "$wt" && git checkout -q -- . && git clean -fdq -- "$pkg" && cp "$demo" "$pkg"/ && /verif/tools/confirm_seed2.sh "$wt" "$patch" "$mod" "$pkg" "$pat" 'TestSeeded|.*/TestSeeded' 2>&1 | grep -E "^(---|ok|FAIL)" | tr '\n' ' '; echo
cd "$wt" && git clean -fdq -- "$pkg"
