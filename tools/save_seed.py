#!/usr/bin/env python3
"""save_seed.py <id> <srcdir> <property> <needs> <confirmed> <caught_by>  — store a confirmed seeded change under seeded/<id>/"""
import json, os, shutil, sys, glob
id_, src, prop, needs, confirmed, caught = sys.argv[1:7]
d = os.path.join(os.path.dirname(os.path.dirname(os.path.abspath(__file__))), "seeded", id_)
os.makedirs(d, exist_ok=True)
for f in glob.glob(os.path.join(src, "*")):
    if os.path.isfile(f) and (f.endswith(".diff") or f.endswith("_test.go") or f.endswith("README.md")):
        shutil.copy(f, d)
json.dump({"id": id_, "breaks_property": prop, "needs_to_manifest": needs, "confirmed": confirmed, "caught_by": caught},
          open(os.path.join(d, "meta.json"), "w"), indent=1)
print("saved", d)
