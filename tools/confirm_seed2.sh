#!/bin/bash
# confirm_seed2.sh <worktree> <patch> <module-dir-rel> <demo-pkg-rel> <run-pattern> <skip-pattern>
export GOFLAGS=-mod=mod GOPROXY=off GOSUMDB=off GOTOOLCHAIN=local
W=$1; P=$2; T=$3; D=$4; R=$5; S=$6
cd $W && git checkout -q -- . || exit 9
echo "--- demo without change (must pass)"; (cd $W/$D && go test -vet=off -count=1 -run "$R" . 2>&1 | tail -2)
git apply $P || { echo "patch does not apply"; exit 9; }
echo "--- build + existing tests with change (must pass)"; (cd $W/$T && go build ./... && go test -vet=off -count=1 -skip "$S" ./... 2>&1 | grep -v "no test files" | tail -8)
echo "--- demo with change (must fail)"; (cd $W/$D && go test -vet=off -count=1 -run "$R" . 2>&1 | tail -3)
git checkout -q -- .
