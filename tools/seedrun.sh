#!/bin/bash
# seedrun.sh <seed-id> <patch> <Cnn> [tier]
# Applies the patch to a fresh scratch worktree of /repo's HEAD (/tmp/seedtest-<seed-id>), runs ./check Cnn against it
# (VERIF_REPO), removes the worktree. /repo itself is never touched. Seeds of one property must run one after another
# (they share work/<Cnn>).
id=${1:?}; patch=${2:?}; prop=${3:?}; tier=${4:-quick}
wt=/tmp/seedtest-$id
git -C /repo worktree remove --force $wt >/dev/null 2>&1
git -C /repo worktree add -q --detach $wt HEAD || exit 2
if ! git -C $wt apply "$patch"; then echo "SEEDRUN $id $prop APPLY-FAILED"; git -C /repo worktree remove --force $wt; exit 2; fi
cd /verif && VERIF_REPO=$wt ./check $prop --tier $tier > /verif/work/seedrun-$id-$prop.log 2>&1
rc=$?
git -C /repo worktree remove --force $wt
echo "SEEDRUN $id $prop rc=$rc $(grep -m3 -E '^VIOLATION' /verif/work/seedrun-$id-$prop.log | tr '\n' ' ')"
