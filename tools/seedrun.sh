#!/bin/bash
# seedrun.sh <seed-id> <patch> <Cnn> [tier]  — apply patch to scratch worktree /tmp/seedtest, run ./check Cnn against it, restore.
id=${1:?}; patch=${2:?}; prop=${3:?}; tier=${4:-quick}
wt=/tmp/seedtest
git -C $wt checkout -q -- . || exit 2
if ! git -C $wt apply "$patch"; then echo "SEEDRUN $id $prop APPLY-FAILED"; exit 2; fi
cd /verif && VERIF_REPO=$wt ./check $prop --tier $tier > /verif/work/seedrun-$id-$prop.log 2>&1
rc=$?
git -C $wt checkout -q -- .
echo "SEEDRUN $id $prop rc=$rc $(grep -m3 -E '^VIOLATION' /verif/work/seedrun-$id-$prop.log | tr '\n' ' ')"
