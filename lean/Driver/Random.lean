/-
Line-protocol driver for the random model and the C18 monitor.
  model   <ops>            : one observation line per op line
  monitor C18 <ops> <obs>  : evaluates Spec.C18 on the implementation's observation stream
  monitor C12 <ops> <obs>  : the random slice of C12 (export / reimport / zero-height clauses only)
  monitor C13 <ops> <obs>  : the random slice of C13 (begin-block totality, queue hygiene, exactly-once)

ops:
  random reset h=<int> t=<unix> hash=<hex|-> addrs=A0:<bech32>:<hex raw>,...
  random begin_block h=<int> t=<unix> hash=<hex|-> started=<ctxid,..|->
  random request consumer=<A_i|X<hex>> interval=<uint64> tx=<hex|-> fee=<ok|bad>
  random request_oracle consumer=.. interval=.. tx=.. feecap=<coins|-> fee=<ok|bad> svc=<ctxid|err|panic>
  random cb_response ctx=<ctxid> out=<empty|bad|<hex seed>> err=<0|1>
  random cb_state ctx=<ctxid>
  random svc_end_block dropped=<ctxid,..|-> gone=<ctxid,..|->   (real service EndBlocker; environment outcome)
  random svc_respond ctx=<ctxid> seed=<hex32> cb=<1|0|rej>          (provider response through the real service module)
  random svc_break ctx=<ctxid> how=<delete|running>                 (environment: the context of a pending oracle request breaks)
  random genesis_pending consumer=<A_i> reqh=<int> due=<uint64> txhash=<hex> oracle=<0|1> feecap=<coins|-> ctx=<ctxid|->   (random.InitGenesis)
  random export                                                     (real ExportGenesis + ValidateGenesis)
  random reimport                                                   (wipe the module store, real InitGenesis of the export)
  random reimport_zero                                              (PrepForZeroHeightGenesis first; the new chain is at height 1)
  random prng hash=<hex|-> t=<int> init=<hex|-> oracle=<0|1> seed=<hex|->        (pure)
-/
import Irismod.Spec.C18
import Irismod.Spec.C12_Random

namespace Driver.Random
open Irismod Irismod.Random Irismod.Line

abbrev Table := List (String × String × ByteArray)     -- name, bech32, raw

def undashS (s : String) : String := if s = "-" then "" else s
def dashS (s : String) : String := if s = "" then "-" else s

def hexArg (t : List String) (k : String) : Option ByteArray := do
  let v ← arg? t k
  bytesOfHex (undashS v)

def strOfHex (h : String) : Option String := do
  let b ← bytesOfHex h
  String.fromUTF8? b

def parseTable (t : List String) : Option Table :=
  (listOf (arg t "addrs")).mapM fun e =>
    match e.splitOn ":" with
    | [n, b, raw] => do some (n, b, ← bytesOfHex raw)
    | _ => none

/-- consumer token -> (bech32 string, AccAddressFromBech32 succeeds) -/
def consumerOf (tbl : Table) (who : String) : Option (String × Bool) :=
  if who.startsWith "X" then do
    let raw ← strOfHex (who.drop 1).toString
    some (raw, false)
  else do
    let (b, _) ← tbl.lookup who
    some (b, true)

def u64Arg (t : List String) (k : String) : Option Nat := do
  let n ← natArg? t k
  if n < 2^64 then some n else none

def parseOp (tbl : Table) (t : List String) : Option Op :=
  match t with
  | "random" :: "begin_block" :: r => do
    let h ← intArg? r "h"
    let tm ← intArg? r "t"
    let hash ← hexArg r "hash"
    let st ← arg? r "started"
    some (.beginBlock h tm hash (listOf (undashS st)))
  | "random" :: "request" :: r => do
    let (c, ok) ← consumerOf tbl (arg r "consumer")
    let n ← u64Arg r "interval"
    let tx ← hexArg r "tx"
    let fee ← arg? r "fee"
    if fee ≠ "ok" ∧ fee ≠ "bad" then none else
    some (.request c ok n tx (fee == "ok"))
  | "random" :: "request_oracle" :: r => do
    let (c, ok) ← consumerOf tbl (arg r "consumer")
    let n ← u64Arg r "interval"
    let tx ← hexArg r "tx"
    let fee ← arg? r "fee"
    let cap ← arg? r "feecap"
    let svc ← arg? r "svc"
    if fee ≠ "ok" ∧ fee ≠ "bad" then none else
    some (.requestOracle c ok n tx (undashS cap) (fee == "ok") (if svc = "err" then Svc.err else if svc = "panic" then Svc.panic else Svc.ok svc))
  | "random" :: "cb_response" :: r => do
    let ctx ← arg? r "ctx"
    let o ← arg? r "out"
    let e ← arg? r "err"
    if e ≠ "0" ∧ e ≠ "1" then none else
    let out ← (if o = "empty" then some Output.empty else if o = "bad" then some Output.invalidBody
               else (bytesOfHex o).bind fun b => if b.size = 32 then some (Output.valid b) else none)
    some (.cbResponse ctx out (e == "1"))
  | "random" :: "cb_state" :: r => do
    let ctx ← arg? r "ctx"
    some (.cbState ctx)
  | _ => none

def hexOfId (i : Id) : String := hexOfBytes (ByteArray.mk i)

def showReq (r : Request) : String :=
  s!"{r.height}:{r.consumer}:{dashS r.txHash}:{r.oracle}:{dashS (r.feeCap.replace "," "+")}:{dashS r.ctxId}"

def parseReq (p : List String) : Option Request :=
  match p with
  | [h, c, tx, o, fee, ctx] => do
    let hh ← h.toInt?
    some { height := hh, consumer := c, txHash := undashS tx, oracle := o == "true",
           feeCap := (undashS fee).replace "+" ",", ctxId := undashS ctx }
  | _ => none

def showState (s : State) : String :=
  let q := sortStrings (s.queue.map fun ((k, id), r) => s!"{k}/{hexOfId id}:{showReq r}")
  let rs := sortStrings (s.randoms.map fun (id, x) => s!"{hexOfId id}:{x.txHash}:{x.height}:{x.value}")
  let os := sortStrings (s.oracleReqs.map fun (c, r) => s!"{c}={showReq r}")
  s!"h={s.height} q={dashS (joinWith "," q)} r={dashS (joinWith "," rs)} o={dashS (joinWith "," os)}"

/-- parse an observation into a state (header time/hash, addrs and ctxs are carried by the caller) -/
def parseState (t : List String) : Option State := do
  let h ← intArg? t "h"
  let mut s : State := { height := h }
  for e in listOf (undashS (arg t "q")) do
    match e.splitOn ":" with
    | key :: rest =>
      match key.splitOn "/" with
      | [k, id] =>
        let kk ← k.toNat?
        let i ← bytesOfHex id
        let r ← parseReq rest
        s := { s with queue := s.queue ++ [((kk, i.data), r)] }
      | _ => none
    | _ => none
  for e in listOf (undashS (arg t "r")) do
    match e.splitOn ":" with
    | [id, tx, hh, v] =>
      let i ← bytesOfHex id
      let hi ← hh.toInt?
      s := { s with randoms := s.randoms ++ [(i.data, { txHash := tx, height := hi, value := v })] }
    | _ => none
  for e in listOf (undashS (arg t "o")) do
    match e.splitOn "=" with
    | [c, rq] =>
      let r ← parseReq (rq.splitOn ":")
      s := { s with oracleReqs := s.oracleReqs ++ [(c, r)] }
    | _ => none
  return s

def showGenesis (g : RandomGenesis.Genesis) : String :=
  if g.isEmpty then "-" else
  joinWith "|" (g.map fun (h, rs) => s!"{h}[{joinWith ";" (rs.map showReq)}]")

def parseGenesis (s : String) : Option RandomGenesis.Genesis :=
  if s = "-" then some [] else
  (s.splitOn "|").mapM fun grp =>
    match grp.splitOn "[" with
    | [h, rest] => do
      let hh ← h.toInt?
      let body ← (match rest.splitOn "]" with | [b, ""] => some b | _ => none)
      let rs ← (if body = "" then [] else body.splitOn ";").mapM fun r => parseReq (r.splitOn ":")
      some (hh, rs)
    | _ => none

def resWord : Except Err State → String
  | .ok _ => "ok"
  | .error (.reject _) => "rej"
  | .error (.panic _) => "panic"

def prngLine (t : List String) : Option String := do
  let hash ← hexArg t "hash"
  let tm ← intArg? t "t"
  let ini ← hexArg t "init"
  let o ← arg? t "oracle"
  let seed ← hexArg t "seed"
  match prngValue hash tm ini (o == "1") seed with
  | some v => some s!"ok value={v}"
  | none => some "panic value=-"

def resetState (tbl : Table) (r : List String) : Option State := do
  let h ← intArg? r "h"
  let tm ← intArg? r "t"
  let hash ← hexArg r "hash"
  some { height := h, unix := tm, hash := hash, addrs := tbl.map fun (_, b, raw) => (b, raw) }

/-- the service module's EndBlocker as seen by this module: for every dropped oracle request one
    failing response callback (an expired batch reports an error; a paused context reports a state
    change — both only erase the pending oracle request); contexts that ceased to exist leave
    the environment mirror `ctxs` -/
def applySvcEnd (s : State) (dropped gone : List String) : State :=
  let s1 := dropped.foldl (fun st c => apply st (.cbResponse c .empty true)) s
  { s1 with ctxs := s1.ctxs.filter fun c => !(gone.contains c) }

inductive SvcLine where
  | endBlock (dropped gone : List String)
  | respond (ctx : String) (seed : ByteArray) (cb : String)
  | breakCtx (ctx : String) (delete : Bool)
  | genesisPending (due : Nat) (req : Request)

def parseSvc (tbl : Table) (t : List String) : Option SvcLine :=
  match t with
  | "random" :: "svc_break" :: r => do
    let c ← arg? r "ctx"
    let how ← arg? r "how"
    if how ≠ "delete" ∧ how ≠ "running" then none else
    some (.breakCtx c (how == "delete"))
  | "random" :: "genesis_pending" :: r => do
    let (c, ok) ← consumerOf tbl (arg r "consumer")
    if !ok then none else
    let reqh ← intArg? r "reqh"
    let due ← u64Arg r "due"
    let tx ← arg? r "txhash"
    let o ← arg? r "oracle"
    let cap ← arg? r "feecap"
    let cx ← arg? r "ctx"
    if o ≠ "0" ∧ o ≠ "1" then none else
    some (.genesisPending due { height := reqh, consumer := c, txHash := undashS tx, oracle := o == "1",
                                feeCap := undashS cap, ctxId := undashS cx })
  | "random" :: "svc_end_block" :: r => do
    let d ← arg? r "dropped"
    let g ← arg? r "gone"
    some (.endBlock (listOf (undashS d)) (listOf (undashS g)))
  | "random" :: "svc_respond" :: r => do
    let c ← arg? r "ctx"
    let sd ← (arg? r "seed").bind bytesOfHex
    let cb ← arg? r "cb"
    if sd.size ≠ 32 then none else
    if cb ≠ "1" ∧ cb ≠ "0" ∧ cb ≠ "rej" then none else
    some (.respond c sd cb)
  | _ => none

def modelSvc (s : State) : SvcLine → State × String
  | .endBlock dropped gone => (applySvcEnd s dropped gone, "ok")
  | .respond c seed cb =>
    if cb == "1" then
      let r := step s (.cbResponse c (.valid seed) false)
      ((match r with | .ok s' => s' | .error _ => s), resWord r)
    else (s, if cb == "0" then "ok" else "rej")
  -- the environment mirror: a deleted context no longer exists; a running one still does
  | .breakCtx c delete => ((if delete then { s with ctxs := s.ctxs.filter (· != c) } else s), "ok")
  -- `InitGenesis`: EnqueueRandomRequest(height, GenerateRequestID(request), request)
  | .genesisPending due req =>
    ({ s with queue := AMap.set s.queue (due, requestId req.height req.consumer) req }, "ok")

def modelLine (tbl : Table) (s : State) (line : String) : Table × State × String :=
  let t := tokens line
  match t with
  | "random" :: "reset" :: r =>
    match parseTable r with
    | some tb =>
      match resetState tb r with
      | some s0 => (tb, s0, "ok " ++ showState s0)
      | none => (tbl, s, "bad-op")
    | none => (tbl, s, "bad-op")
  | "random" :: "prng" :: r => (tbl, s, (prngLine r).getD "bad-op")
  | ["random", "export"] =>
    let g := RandomGenesis.exportGenesis s
    let v := match RandomGenesis.validateGenesis g with | .ok _ => "ok" | .error _ => "err"
    (tbl, s, s!"ok validate={v} gen={showGenesis g}")
  | ["random", "reimport"] =>
    let r := RandomGenesis.importGenesis s (RandomGenesis.exportGenesis s)
    let s' := match r with | .ok s' => s' | .error _ => s
    (tbl, s', resWord r ++ " " ++ showState s')
  | ["random", "reimport_zero"] =>
    let r := RandomGenesis.restartZeroHeight s
    let s' := match r with | .ok s' => s' | .error _ => s
    (tbl, s', resWord r ++ " " ++ showState s')
  | _ =>
    match parseSvc tbl t with
    | some sl => let (s', w) := modelSvc s sl; (tbl, s', w ++ " " ++ showState s')
    | none =>
    match parseOp tbl t with
    | none => (tbl, s, "bad-op")
    | some op =>
      let r := step s op
      let s' := match r with | .ok s' => s' | .error _ => s
      (tbl, s', resWord r ++ " " ++ showState s')

def runModel (ops : Array String) : IO Unit := do
  let mut s : State := {}
  let mut tbl : Table := []
  let out ← IO.getStdout
  for l in ops do
    let (tb, s', o) := modelLine tbl s l
    s := s'
    tbl := tb
    out.putStrLn o

def runMonitor (prop : String) (ops obs : Array String) : IO Unit := do
  let out ← IO.getStdout
  if ops.size ≠ obs.size then
    out.putStrLn s!"mon {prop} FAIL clause=stream-length ops={ops.size} obs={obs.size}"
    return
  let mut pre : State := {}
  let mut tbl : Table := []
  let mut fails := 0
  let mut steps := 0
  for i in [0:ops.size] do
    let t := tokens ops[i]!
    let o := tokens obs[i]!
    match t with
    | "random" :: "reset" :: r =>
      match parseTable r with
      | some tb =>
        match resetState tb r, parseState o with
        | some s0, some p => tbl := tb; pre := { p with unix := s0.unix, hash := s0.hash, addrs := s0.addrs }
        | _, _ => out.putStrLn s!"mon {prop} FAIL clause=parse line={i+1}"; fails := fails + 1
      | none => out.putStrLn s!"mon {prop} FAIL clause=parse line={i+1}"; fails := fails + 1
    | "random" :: "prng" :: r =>
      -- the pure PRNG: the value printed by the implementation is in [0,1) with 20 fractional
      -- digits (or the call panicked, which only the zero block time may cause)
      steps := steps + 1
      let word := o.head?.getD ""
      if prop != "C18" then
        pure ()
      else if word == "ok" then
        if !(Spec.C18.isDigits20 (arg o "value")) then
          out.putStrLn s!"mon {prop} FAIL clause=value-range line={i+1}"; fails := fails + 1
      else if word == "panic" then
        if intArg? r "t" != some 0 then
          out.putStrLn s!"mon {prop} FAIL clause=prng-panic line={i+1}"; fails := fails + 1
      else
        out.putStrLn s!"mon {prop} FAIL clause=parse line={i+1}"; fails := fails + 1
    | "random" :: "svc_end_block" :: _ =>
      match parseSvc tbl t, parseState o with
      | some (.endBlock dropped gone), some p =>
        steps := steps + 1
        let word := o.head?.getD ""
        let post : State := { p with unix := pre.unix, hash := pre.hash, addrs := pre.addrs,
                                      ctxs := pre.ctxs.filter fun c => !(gone.contains c) }
        -- the service end block never halts, and for this module it may only drop pending oracle requests
        if word != "ok" then
          out.putStrLn s!"mon {prop} FAIL clause=service-end-block-panic line={i+1}"; fails := fails + 1
        else if !(Spec.C18.sameMap pre.queue post.queue (fun _ => false) && Spec.C18.sameMap pre.randoms post.randoms (fun _ => false) &&
                  pre.height == post.height && Spec.C18.sameMap pre.oracleReqs post.oracleReqs (fun c => dropped.contains c) &&
                  dropped.all (fun c => (AMap.get? post.oracleReqs c).isNone)) then
          out.putStrLn s!"mon {prop} FAIL clause=service-end-block-frame line={i+1}"; fails := fails + 1
        pre := post
      | _, _ => out.putStrLn s!"mon {prop} FAIL clause=parse line={i+1}"; fails := fails + 1
    | ["random", "export"] =>
      steps := steps + 1
      if prop != "C13" then
        match parseGenesis (arg o "gen") with
        | none => out.putStrLn s!"mon {prop} FAIL clause=parse line={i+1}"; fails := fails + 1
        | some g =>
          if arg o "validate" != "ok" then
            out.putStrLn s!"mon {prop} FAIL clause=export-does-not-validate line={i+1}"; fails := fails + 1
          if !(Spec.C12Random.exportOk pre g) then
            out.putStrLn s!"mon {prop} FAIL clause=export-lost-or-altered-request line={i+1}"; fails := fails + 1
    | ["random", "reimport"] =>
      match parseState o with
      | some p =>
        steps := steps + 1
        let post : State := { p with unix := pre.unix, hash := pre.hash, addrs := pre.addrs, ctxs := pre.ctxs }
        if prop != "C13" then
          if o.head? != some "ok" then
            out.putStrLn s!"mon {prop} FAIL clause=reimport-failed line={i+1}"; fails := fails + 1
          else if !(Spec.C12Random.queueSame pre.queue post.queue && pre.height == post.height) then
            out.putStrLn s!"mon {prop} FAIL clause=reimport-changed-queue line={i+1}"; fails := fails + 1
        pre := post
      | none => out.putStrLn s!"mon {prop} FAIL clause=parse line={i+1}"; fails := fails + 1
    | ["random", "reimport_zero"] =>
      match parseState o with
      | some p =>
        steps := steps + 1
        let post : State := { p with unix := pre.unix, hash := pre.hash, addrs := pre.addrs, ctxs := pre.ctxs }
        if prop != "C13" then
          if o.head? != some "ok" then
            out.putStrLn s!"mon {prop} FAIL clause=reimport-failed line={i+1}"; fails := fails + 1
          else if !(Spec.C12Random.queueSame (Spec.C12Random.rebased pre) post.queue && post.height == 1) then
            out.putStrLn s!"mon {prop} FAIL clause=zero-height-rebase line={i+1}"; fails := fails + 1
        pre := post
      | none => out.putStrLn s!"mon {prop} FAIL clause=parse line={i+1}"; fails := fails + 1
    | "random" :: "svc_break" :: _ =>
      match parseSvc tbl t, parseState o with
      | some (.breakCtx c delete), some p =>
        steps := steps + 1
        let post : State := { p with unix := pre.unix, hash := pre.hash, addrs := pre.addrs,
                                      ctxs := if delete then pre.ctxs.filter (· != c) else pre.ctxs }
        if o.head? != some "ok" || !(Spec.C18.sameObs pre post) then
          out.putStrLn s!"mon {prop} FAIL clause=environment-op-changed-state line={i+1}"; fails := fails + 1
        pre := post
      | _, _ => out.putStrLn s!"mon {prop} FAIL clause=parse line={i+1}"; fails := fails + 1
    | "random" :: "genesis_pending" :: _ =>
      match parseSvc tbl t, parseState o with
      | some (.genesisPending due req), some p =>
        steps := steps + 1
        let post : State := { p with unix := pre.unix, hash := pre.hash, addrs := pre.addrs, ctxs := pre.ctxs }
        let key := (due, requestId req.height req.consumer)
        -- genesis import enqueues exactly the given request under (height, id of the request)
        if o.head? != some "ok" || !(AMap.get? post.queue key == some req) ||
           !(Spec.C18.sameMap pre.queue post.queue (· == key) && Spec.C18.sameMap pre.randoms post.randoms (fun _ => false) &&
             Spec.C18.sameMap pre.oracleReqs post.oracleReqs (fun _ => false) && pre.height == post.height) then
          out.putStrLn s!"mon {prop} FAIL clause=genesis-pending-import line={i+1}"; fails := fails + 1
        pre := post
      | _, _ => out.putStrLn s!"mon {prop} FAIL clause=parse line={i+1}"; fails := fails + 1
    | "random" :: "svc_respond" :: _ =>
      match parseSvc tbl t, parseState o with
      | some (.respond c seed cb), some p =>
        steps := steps + 1
        let word := o.head?.getD ""
        let post : State := { p with unix := pre.unix, hash := pre.hash, addrs := pre.addrs, ctxs := pre.ctxs }
        if prop == "C18" then
          let fs := if cb == "1" then Spec.C18.check pre (.cbResponse c (.valid seed) false) word post
                    else Spec.C18.failIf (!(Spec.C18.sameObs pre post)) "response-without-callback-changed-state"
          for f in fs do
            let cls := match f.cls with | some c => s!" class={c}" | none => ""
            out.putStrLn s!"mon {prop} FAIL clause={f.clause} line={i+1}{cls}"
            fails := fails + 1
        pre := post
      | _, _ => out.putStrLn s!"mon {prop} FAIL clause=parse line={i+1}"; fails := fails + 1
    | _ =>
      match parseOp tbl t, parseState o with
      | some op, some p =>
        steps := steps + 1
        let word := o.head?.getD ""
        -- header fields and the set of service contexts are not part of the observation
        let (ux, hs) := match op, word with
          | .beginBlock _ tm hash _, "ok" => (tm, hash)
          | _, _ => (pre.unix, pre.hash)
        let ctxs := match op, word with
          | .requestOracle _ _ _ _ _ _ (.ok c), "ok" => c :: pre.ctxs
          | _, _ => pre.ctxs
        let post : State := { p with unix := ux, hash := hs, addrs := pre.addrs, ctxs := ctxs }
        for f in (if prop == "C13" then Spec.C18.checkC13 pre op word post
                  else if prop == "C12" then [] else Spec.C18.check pre op word post) do
          let cls := match f.cls with | some c => s!" class={c}" | none => ""
          out.putStrLn s!"mon {prop} FAIL clause={f.clause} line={i+1}{cls}"
          fails := fails + 1
        pre := post
      | _, _ => out.putStrLn s!"mon {prop} FAIL clause=parse line={i+1}"; fails := fails + 1
  out.putStrLn s!"mon {prop} done steps={steps} fails={fails}"

def readLines (p : String) : IO (Array String) := do
  let c ← IO.FS.readFile p
  return (c.splitOn "\n").toArray.filter (· ≠ "")

def main (args : List String) : IO UInt32 := do
  match args with
  | ["model", ops] => runModel (← readLines ops); return 0
  | ["monitor", "C18", ops, obs] => runMonitor "C18" (← readLines ops) (← readLines obs); return 0
  | ["monitor", "C12", ops, obs] => runMonitor "C12" (← readLines ops) (← readLines obs); return 0
  | ["monitor", "C13", ops, obs] => runMonitor "C13" (← readLines ops) (← readLines obs); return 0
  | _ => IO.eprintln "usage: model <ops> | monitor C18|C13 <ops> <obs>"; return 2

end Driver.Random

def main (args : List String) : IO UInt32 := Driver.Random.main args
