/-
Line-protocol driver for the random model and the C18 monitor.
  model   <ops>            : one observation line per op line (Spec.C18Mon.modelObs)
  monitor C18 <ops> <obs>  : evaluates Spec.C18 on the implementation's observation stream
                             (every clause through Spec.C18Mon.stepFails / postOf, the functions
                             Proofs/RandomMonitor.lean proves sound; this file only parses and prints)
  monitor C12 <ops> <obs>  : the random slice of C12 (export / reimport / zero-height clauses only)
  monitor C13 <ops> <obs>  : the random slice of C13 (begin-block totality, queue hygiene, exactly-once)

ops:
  random reset h=<int> t=<unix> hash=<hex|-> addrs=A0:<bech32>:<hex raw>,...
  random begin_block h=<int> t=<unix> hash=<hex|-> started=<ctxid,..|->
  random request consumer=<A_i|X<hex>> interval=<uint64> tx=<hex|-> fee=<ok|bad>
  random request_oracle consumer=.. interval=.. tx=.. feecap=<coins|-> fee=<ok|bad> svc=<ctxid|err|panic>
  random cb_response ctx=<ctxid> out=<empty|bad|<hex seed>> err=<0|1>
  random cb_state ctx=<ctxid>
  random svc_end_block dropped=<ctxid,..|-> gone=<ctxid,..|->   (real service EndBlocker; environment outcome)
  random svc_respond ctx=<ctxid> seed=<hex32> cb=<1|0|rej>          (provider response through the real service module)
  random svc_break ctx=<ctxid> how=<delete|running>                 (environment: the context of a pending oracle request breaks)
  random genesis_pending consumer=<A_i> reqh=<int> due=<uint64> txhash=<hex> oracle=<0|1> feecap=<coins|-> ctx=<ctxid|->   (random.InitGenesis)
  random export                                                     (real ExportGenesis + ValidateGenesis)
  random reimport                                                   (wipe the module store, real InitGenesis of the export)
  random reimport_zero                                              (PrepForZeroHeightGenesis first; the new chain is at height 1)
  random prng hash=<hex|-> t=<int> init=<hex|-> oracle=<0|1> seed=<hex|->        (pure)
-/
import Irismod.Spec.C18Mon

namespace Driver.Random
open Irismod Irismod.Random Irismod.Line

abbrev Table := List (String × String × ByteArray)     -- name, bech32, raw

def undashS (s : String) : String := if s = "-" then "" else s
def dashS (s : String) : String := if s = "" then "-" else s

def hexArg (t : List String) (k : String) : Option ByteArray := do
  let v ← arg? t k
  bytesOfHex (undashS v)

def strOfHex (h : String) : Option String := do
  let b ← bytesOfHex h
  String.fromUTF8? b

def parseTable (t : List String) : Option Table :=
  (listOf (arg t "addrs")).mapM fun e =>
    match e.splitOn ":" with
    | [n, b, raw] => do some (n, b, ← bytesOfHex raw)
    | _ => none

/-- consumer token -> (bech32 string, AccAddressFromBech32 succeeds) -/
def consumerOf (tbl : Table) (who : String) : Option (String × Bool) :=
  if who.startsWith "X" then do
    let raw ← strOfHex (who.drop 1).toString
    some (raw, false)
  else do
    let (b, _) ← tbl.lookup who
    some (b, true)

def u64Arg (t : List String) (k : String) : Option Nat := do
  let n ← natArg? t k
  if n < 2^64 then some n else none

def parseOp (tbl : Table) (t : List String) : Option Op :=
  match t with
  | "random" :: "begin_block" :: r => do
    let h ← intArg? r "h"
    let tm ← intArg? r "t"
    let hash ← hexArg r "hash"
    let st ← arg? r "started"
    some (.beginBlock h tm hash (listOf (undashS st)))
  | "random" :: "request" :: r => do
    let (c, ok) ← consumerOf tbl (arg r "consumer")
    let n ← u64Arg r "interval"
    let tx ← hexArg r "tx"
    let fee ← arg? r "fee"
    if fee ≠ "ok" ∧ fee ≠ "bad" then none else
    some (.request c ok n tx (fee == "ok"))
  | "random" :: "request_oracle" :: r => do
    let (c, ok) ← consumerOf tbl (arg r "consumer")
    let n ← u64Arg r "interval"
    let tx ← hexArg r "tx"
    let fee ← arg? r "fee"
    let cap ← arg? r "feecap"
    let svc ← arg? r "svc"
    if fee ≠ "ok" ∧ fee ≠ "bad" then none else
    some (.requestOracle c ok n tx (undashS cap) (fee == "ok") (if svc = "err" then Svc.err else if svc = "panic" then Svc.panic else Svc.ok svc))
  | "random" :: "cb_response" :: r => do
    let ctx ← arg? r "ctx"
    let o ← arg? r "out"
    let e ← arg? r "err"
    if e ≠ "0" ∧ e ≠ "1" then none else
    let out ← (if o = "empty" then some Output.empty else if o = "bad" then some Output.invalidBody
               else (bytesOfHex o).bind fun b => if b.size = 32 then some (Output.valid b) else none)
    some (.cbResponse ctx out (e == "1"))
  | "random" :: "cb_state" :: r => do
    let ctx ← arg? r "ctx"
    some (.cbState ctx)
  | _ => none

def hexOfId (i : Id) : String := hexOfBytes (ByteArray.mk i)

def showReq (r : Request) : String :=
  s!"{r.height}:{r.consumer}:{dashS r.txHash}:{r.oracle}:{dashS (r.feeCap.replace "," "+")}:{dashS r.ctxId}"

def parseReq (p : List String) : Option Request :=
  match p with
  | [h, c, tx, o, fee, ctx] => do
    let hh ← h.toInt?
    some { height := hh, consumer := c, txHash := undashS tx, oracle := o == "true",
           feeCap := (undashS fee).replace "+" ",", ctxId := undashS ctx }
  | _ => none

def showState (s : State) : String :=
  let q := sortStrings (s.queue.map fun ((k, id), r) => s!"{k}/{hexOfId id}:{showReq r}")
  let rs := sortStrings (s.randoms.map fun (id, x) => s!"{hexOfId id}:{x.txHash}:{x.height}:{x.value}")
  let os := sortStrings (s.oracleReqs.map fun (c, r) => s!"{c}={showReq r}")
  s!"h={s.height} q={dashS (joinWith "," q)} r={dashS (joinWith "," rs)} o={dashS (joinWith "," os)}"

/-- parse an observation into a state (header time/hash, addrs and ctxs are carried by the caller) -/
def parseState (t : List String) : Option State := do
  let h ← intArg? t "h"
  let mut s : State := { height := h }
  for e in listOf (undashS (arg t "q")) do
    match e.splitOn ":" with
    | key :: rest =>
      match key.splitOn "/" with
      | [k, id] =>
        let kk ← k.toNat?
        let i ← bytesOfHex id
        let r ← parseReq rest
        s := { s with queue := s.queue ++ [((kk, i.data), r)] }
      | _ => none
    | _ => none
  for e in listOf (undashS (arg t "r")) do
    match e.splitOn ":" with
    | [id, tx, hh, v] =>
      let i ← bytesOfHex id
      let hi ← hh.toInt?
      s := { s with randoms := s.randoms ++ [(i.data, { txHash := tx, height := hi, value := v })] }
    | _ => none
  for e in listOf (undashS (arg t "o")) do
    match e.splitOn "=" with
    | [c, rq] =>
      let r ← parseReq (rq.splitOn ":")
      s := { s with oracleReqs := s.oracleReqs ++ [(c, r)] }
    | _ => none
  return s

def showGenesis (g : RandomGenesis.Genesis) : String :=
  if g.isEmpty then "-" else
  joinWith "|" (g.map fun (h, rs) => s!"{h}[{joinWith ";" (rs.map showReq)}]")

def parseGenesis (s : String) : Option RandomGenesis.Genesis :=
  if s = "-" then some [] else
  (s.splitOn "|").mapM fun grp =>
    match grp.splitOn "[" with
    | [h, rest] => do
      let hh ← h.toInt?
      let body ← (match rest.splitOn "]" with | [b, ""] => some b | _ => none)
      let rs ← (if body = "" then [] else body.splitOn ";").mapM fun r => parseReq (r.splitOn ":")
      some (hh, rs)
    | _ => none

def parsePrng (t : List String) : Option Spec.C18Mon.MonLine := do
  let hash ← hexArg t "hash"
  let tm ← intArg? t "t"
  let ini ← hexArg t "init"
  let o ← arg? t "oracle"
  let seed ← hexArg t "seed"
  some (.prng hash tm ini (o == "1") seed)

def resetState (tbl : Table) (r : List String) : Option State := do
  let h ← intArg? r "h"
  let tm ← intArg? r "t"
  let hash ← hexArg r "hash"
  some { height := h, unix := tm, hash := hash, addrs := tbl.map fun (_, b, raw) => (b, raw) }

def parseSvc (tbl : Table) (t : List String) : Option Spec.C18Mon.MonLine :=
  match t with
  | "random" :: "svc_break" :: r => do
    let c ← arg? r "ctx"
    let how ← arg? r "how"
    if how ≠ "delete" ∧ how ≠ "running" then none else
    some (.svcBreak c (how == "delete"))
  | "random" :: "genesis_pending" :: r => do
    let (c, ok) ← consumerOf tbl (arg r "consumer")
    if !ok then none else
    let reqh ← intArg? r "reqh"
    let due ← u64Arg r "due"
    let tx ← arg? r "txhash"
    let o ← arg? r "oracle"
    let cap ← arg? r "feecap"
    let cx ← arg? r "ctx"
    if o ≠ "0" ∧ o ≠ "1" then none else
    some (.genesisPending due { height := reqh, consumer := c, txHash := undashS tx, oracle := o == "1",
                                feeCap := undashS cap, ctxId := undashS cx })
  | "random" :: "svc_end_block" :: r => do
    let d ← arg? r "dropped"
    let g ← arg? r "gone"
    some (.svcEnd (listOf (undashS d)) (listOf (undashS g)))
  | "random" :: "svc_respond" :: r => do
    let c ← arg? r "ctx"
    let sd ← (arg? r "seed").bind bytesOfHex
    let cb ← arg? r "cb"
    if sd.size ≠ 32 then none else
    if cb ≠ "1" ∧ cb ≠ "0" ∧ cb ≠ "rej" then none else
    some (.svcRespond c sd cb)
  | _ => none

/-- every line but `reset` as a `MonLine` (the line kinds of `Spec.C18Mon`) -/
def parseLine (tbl : Table) (t : List String) : Option Spec.C18Mon.MonLine :=
  match t with
  | "random" :: "prng" :: r => parsePrng r
  | ["random", "export"] => some .export
  | ["random", "reimport"] => some .reimport
  | ["random", "reimport_zero"] => some .reimportZero
  | _ =>
    match parseSvc tbl t with
    | some sl => some sl
    | none => (parseOp tbl t).map .op

/-- the observation line the model prints (`Spec.C18Mon.modelObs`) -/
def showObs (line : Spec.C18Mon.MonLine) (o : Spec.C18Mon.Obs) : String :=
  match line with
  | .prng _ _ _ _ _ => s!"{o.word} value={o.value}"
  | .export => s!"{o.word} validate={o.validate} gen={showGenesis o.gen}"
  | _ => o.word ++ " " ++ showState o.p

def modelLine (tbl : Table) (s : State) (line : String) : Table × State × String :=
  let t := tokens line
  match t with
  | "random" :: "reset" :: r =>
    match parseTable r with
    | some tb =>
      match resetState tb r with
      | some s0 => (tb, s0, "ok " ++ showState s0)
      | none => (tbl, s, "bad-op")
    | none => (tbl, s, "bad-op")
  | _ =>
    match parseLine tbl t with
    | none => (tbl, s, "bad-op")
    | some ml =>
      let o := Spec.C18Mon.modelObs s ml
      (tbl, o.p, showObs ml o)

def runModel (ops : Array String) : IO Unit := do
  let mut s : State := {}
  let mut tbl : Table := []
  let out ← IO.getStdout
  for l in ops do
    let (tb, s', o) := modelLine tbl s l
    s := s'
    tbl := tb
    out.putStrLn o

/-- the parsed observation of a line (`none`: the observation line is malformed) -/
def parseObs (prop : String) (line : Spec.C18Mon.MonLine) (o : List String) : Option Spec.C18Mon.Obs :=
  let word := o.head?.getD ""
  match line with
  | .prng _ _ _ _ _ => some { word := word, value := arg o "value" }
  | .export =>
    -- the C13 monitor evaluates nothing on an export line and does not read the document
    if prop == "C13" then some { word := word, validate := arg o "validate" }
    else (parseGenesis (arg o "gen")).map fun g => { word := word, validate := arg o "validate", gen := g }
  | _ => (parseState o).map fun p => { word := word, p := p }

/-- lines counted as monitor steps even when their observation does not parse -/
def countsUnparsed : Spec.C18Mon.MonLine → Bool
  | .export => true
  | _ => false

def runMonitor (prop : String) (ops obs : Array String) : IO Unit := do
  let out ← IO.getStdout
  if ops.size ≠ obs.size then
    out.putStrLn s!"mon {prop} FAIL clause=stream-length ops={ops.size} obs={obs.size}"
    return
  let mut pre : State := {}
  let mut tbl : Table := []
  let mut fails := 0
  let mut steps := 0
  for i in [0:ops.size] do
    let t := tokens ops[i]!
    let o := tokens obs[i]!
    match t with
    | "random" :: "reset" :: r =>
      match parseTable r with
      | some tb =>
        match resetState tb r, parseState o with
        | some s0, some p => tbl := tb; pre := Spec.C18Mon.resetPost s0 p
        | _, _ => out.putStrLn s!"mon {prop} FAIL clause=parse line={i+1}"; fails := fails + 1
      | none => out.putStrLn s!"mon {prop} FAIL clause=parse line={i+1}"; fails := fails + 1
    | _ =>
      match parseLine tbl t with
      | none => out.putStrLn s!"mon {prop} FAIL clause=parse line={i+1}"; fails := fails + 1
      | some ml =>
        match parseObs prop ml o with
        | none =>
          if countsUnparsed ml then steps := steps + 1
          out.putStrLn s!"mon {prop} FAIL clause=parse line={i+1}"; fails := fails + 1
        | some ob =>
          steps := steps + 1
          -- every clause is evaluated by the Spec-level function the soundness theorem is about
          -- (Proofs/RandomMonitor.lean: monitor_sound, line_inv)
          for f in Spec.C18Mon.stepFails prop pre ml ob do
            let cls := match f.cls with | some c => s!" class={c}" | none => ""
            out.putStrLn s!"mon {prop} FAIL clause={f.clause} line={i+1}{cls}"
            fails := fails + 1
          pre := Spec.C18Mon.postOf pre ml ob.word ob.p
  out.putStrLn s!"mon {prop} done steps={steps} fails={fails}"

def readLines (p : String) : IO (Array String) := do
  let c ← IO.FS.readFile p
  return (c.splitOn "\n").toArray.filter (· ≠ "")

def main (args : List String) : IO UInt32 := do
  match args with
  | ["model", ops] => runModel (← readLines ops); return 0
  | ["monitor", "C18", ops, obs] => runMonitor "C18" (← readLines ops) (← readLines obs); return 0
  | ["monitor", "C12", ops, obs] => runMonitor "C12" (← readLines ops) (← readLines obs); return 0
  | ["monitor", "C13", ops, obs] => runMonitor "C13" (← readLines ops) (← readLines obs); return 0
  | _ => IO.eprintln "usage: model <ops> | monitor C18|C13 <ops> <obs>"; return 2

end Driver.Random

def main (args : List String) : IO UInt32 := Driver.Random.main args
