/-
Line-protocol driver for the NFT model and the C14 monitor.
  model   <ops>              : prints one observation line per op line
  monitor C14 <ops> <obs>    : evaluates Spec.C14 on the implementation's observation stream
Op lines: ids and accounts are plain tokens (`-` = empty), free-form strings are hex (`-` = empty).
-/
import Irismod.Spec.C14
import Irismod.Model.NftGenesis

namespace Driver.Nft
open Irismod Irismod.Nft Irismod.Line Irismod.Spec.C14

def dash (s : String) : String := if s = "-" then "" else s
def undash (s : String) : String := if s = "" then "-" else s

def isHexStr (s : String) : Bool :=
  s.length % 2 == 0 && s.toList.all fun c => ('0' ≤ c && c ≤ '9') || ('a' ≤ c && c ≤ 'f')

/-- a hex argument: present, and lowercase hex (or `-`) -/
def hexArg (r : List String) (k : String) : Option String :=
  match arg? r k with
  | none => none
  | some v => let h := dash v; if isHexStr h then some h else none

def strArg (r : List String) (k : String) : Option String := (arg? r k).map dash

def boolArg (r : List String) (k : String) : Option Bool :=
  match arg? r k with
  | some "1" => some true
  | some "0" => some false
  | _ => none

/-- parse an op line; `none` = malformed (never defaulted) -/
def parseOp (t : List String) : Option Op :=
  match t with
  | "nft" :: "issue" :: r => do
    some (.issue (← strArg r "sender") (← strArg r "id") (← boolArg r "mr") (← boolArg r "ur")
      (← hexArg r "name") (← hexArg r "symbol") (← hexArg r "schema") (← hexArg r "desc")
      (← hexArg r "uri") (← hexArg r "urihash") (← hexArg r "data"))
  | "nft" :: "mint" :: r => do
    some (.mint (← strArg r "sender") (← strArg r "recipient") (← strArg r "denom") (← strArg r "id")
      (← hexArg r "name") (← hexArg r "uri") (← hexArg r "urihash") (← hexArg r "data"))
  | "nft" :: "edit" :: r => do
    some (.edit (← strArg r "sender") (← strArg r "denom") (← strArg r "id")
      (← hexArg r "name") (← hexArg r "uri") (← hexArg r "urihash") (← hexArg r "data"))
  | "nft" :: "transfer" :: r => do
    some (.transfer (← strArg r "sender") (← strArg r "recipient") (← strArg r "denom") (← strArg r "id")
      (← hexArg r "name") (← hexArg r "uri") (← hexArg r "urihash") (← hexArg r "data"))
  | "nft" :: "burn" :: r => do
    some (.burn (← strArg r "sender") (← strArg r "denom") (← strArg r "id"))
  | "nft" :: "transfer_denom" :: r => do
    some (.transferDenom (← strArg r "sender") (← strArg r "recipient") (← strArg r "id"))
  | _ => none

def b01 (b : Bool) : String := if b then "1" else "0"

/-- distinct elements, first occurrence kept -/
def dedup [BEq α] (xs : List α) : List α := xs.foldl (fun acc x => if acc.contains x then acc else acc ++ [x]) []

/-- canonical state line (sorted entries), as the harness renders it from the query servers -/
def showState (s : State) : String :=
  let cs := sortStrings (s.classes.map fun (id, r) =>
    ";".intercalate [id, undash r.creator, b01 r.mintRestricted, b01 r.updateRestricted, toString (supplyOf s id),
      undash r.name, undash r.symbol, undash r.schema, undash r.description, undash r.uri, undash r.uriHash, undash r.data])
  let ts := sortStrings ((Tbl.live s.tokens).map fun ((c, t), r) =>
    ";".intercalate [c ++ "|" ++ t, undash ((ownerOf s c t).getD ""), undash r.name, undash r.uri, undash r.uriHash, undash r.data])
  let is := sortStrings ((Tbl.live s.idx).map fun ((a, c, t), _) => a ++ "|" ++ c ++ "|" ++ t)
  let pairs := dedup ((Tbl.live s.idx).map fun ((a, c, _), _) => (a, c))
  let bs := sortStrings ((pairs.filter fun (a, c) => balanceOf s a c != 0).map fun (a, c) =>
    a ++ "|" ++ c ++ ";" ++ toString (balanceOf s a c))
  s!"classes={joinWith "," cs} tokens={joinWith "," ts} idx={joinWith "," is} bals={joinWith "," bs}"

/-- parse an observation line back into tables -/
def parseObs (t : List String) : Option Obs := do
  let mut s : State := {}
  let mut bals : AMap (Addr × ClassId) Nat := []
  for e in listOf (arg t "classes") do
    match e.splitOn ";" with
    | [id, creator, mr, ur, sup, name, symbol, schema, desc, uri, urihash, data] =>
      let n ← sup.toNat?
      let mrb ← (if mr = "1" then some true else if mr = "0" then some false else none)
      let urb ← (if ur = "1" then some true else if ur = "0" then some false else none)
      s := { s with classes := AMap.set s.classes id
                      (newClass (dash creator) mrb urb (dash name) (dash symbol) (dash schema) (dash desc)
                        (dash uri) (dash urihash) (dash data)),
                    supply := AMap.set s.supply id n }
    | _ => none
  for e in listOf (arg t "tokens") do
    match e.splitOn ";" with
    | [key, owner, name, uri, urihash, data] =>
      match key.splitOn "|" with
      | [c, tk] =>
        s := { s with tokens := Tbl.put s.tokens (c, tk)
                        { name := dash name, uri := dash uri, uriHash := dash urihash, data := dash data } }
        if owner ≠ "-" then s := { s with owners := Tbl.put s.owners (c, tk) owner }
      | _ => none
    | _ => none
  for e in listOf (arg t "idx") do
    match e.splitOn "|" with
    | [a, c, tk] => s := { s with idx := Tbl.put s.idx (a, c, tk) () }
    | _ => none
  for e in listOf (arg t "bals") do
    match e.splitOn ";" with
    | [key, v] =>
      match key.splitOn "|" with
      | [a, c] => bals := AMap.set bals (a, c) (← v.toNat?)
      | _ => none
    | _ => none
  return { st := s, bals := bals }

/-- the exported genesis document in ITS OWN order (no sorting here: the order is part of what is compared) -/
def showGenesis (g : NftGenesis.Genesis) : String :=
  let cols := g.map fun c =>
    let ts := c.nfts.map fun n =>
      ";".intercalate [n.id, undash n.owner, undash n.tok.name, undash n.tok.uri, undash n.tok.uriHash, undash n.tok.data]
    ";".intercalate [c.id, undash c.cls.creator, b01 c.cls.mintRestricted, b01 c.cls.updateRestricted,
      undash c.cls.name, undash c.cls.symbol, undash c.cls.schema, undash c.cls.description, undash c.cls.uri,
      undash c.cls.uriHash, undash c.cls.data] ++ "[" ++ joinWith "+" ts ++ "]"
  s!"cols={joinWith "," cols}"

def resWord : Except Err State → String
  | .ok _ => "ok"
  | .error (.reject _) => "rej"
  | .error (.panic _) => "panic"

def modelLine (s : State) (line : String) : State × String :=
  let t := tokens line
  match t with
  | ["nft", "reset"] => ({}, "ok " ++ showState {})
  | ["nft", "export"] =>
    let g := NftGenesis.exportGenesis s
    (s, s!"ok validate={if NftGenesis.validateGenesis g then "ok" else "err"} {showGenesis g}")
  | ["nft", "reimport"] =>
    -- InitGenesis(ExportGenesis(state)) on an emptied module store
    match NftGenesis.importGenesis (NftGenesis.exportGenesis s) with
    | .ok s' => (s', "ok " ++ showState s')
    | .error _ => (s, "panic " ++ showState s)
  | "nft" :: "ghost" :: _ =>
    -- an execution on a context that is thrown away: the state is what it was
    (s, "ghost " ++ showState s)
  | ["nft", "vjson", d] =>
    -- pure conformance case: ValidateBasic of an otherwise well-formed mint carrying this data
    match hexArg [d] "data" with
    | none => (s, "bad-op")
    | some h => (s, (if mintVB "A0" "A0" "cla" "t0a" "" (dataOkPlain h) then "ok " else "rej ") ++ showState s)
  | _ =>
    match parseOp t with
    | none => (s, "bad-op")
    | some op =>
      let r := step s op
      let s' := match r with | .ok s' => s' | .error _ => s
      (s', resWord r ++ " " ++ showState s')

def runModel (ops : Array String) : IO Unit := do
  let mut s : State := {}
  let out ← IO.getStdout
  for l in ops do
    let (s', o) := modelLine s l
    s := s'
    out.putStrLn o

/-- monitor: the pre-state is the previous *implementation* observation -/
def runMonitor (prop : String) (ops obs : Array String) : IO Unit := do
  let out ← IO.getStdout
  if ops.size ≠ obs.size then
    out.putStrLn s!"mon {prop} FAIL clause=stream-length ops={ops.size} obs={obs.size}"
    return
  let mut pre : Obs := {}
  let mut fails := 0
  let mut steps := 0
  for i in [0:ops.size] do
    let t := tokens ops[i]!
    let o := tokens obs[i]!
    match t with
    | ["nft", "reset"] =>
      match parseObs o with
      | some s => pre := s
      | none => out.putStrLn s!"mon {prop} FAIL clause=obs-parse line={i+1}"; fails := fails + 1
    | ["nft", "export"] =>
      -- the exported document must pass the module's own ValidateGenesis (C12)
      for c in exportFails (o.contains "validate=ok") do
        out.putStrLn s!"mon {prop} FAIL clause={c} line={i+1}"; fails := fails + 1
    | ["nft", "reimport"] =>
      -- InitGenesis of the export must not panic and must preserve every owner, supply, balance,
      -- class record (creator, restriction flags, metadata) and token record (C12 for nft)
      match parseObs o with
      | some post =>
        for c in reimportFails pre (o.head? == some "ok") post do
          out.putStrLn s!"mon {prop} FAIL clause={c} line={i+1}"; fails := fails + 1
        pre := post
      | none => out.putStrLn s!"mon {prop} FAIL clause=obs-parse line={i+1}"; fails := fails + 1
    | "nft" :: "ghost" :: _ =>
      match parseObs o with
      | some post =>
        for c in pureFails pre post do
          out.putStrLn s!"mon {prop} FAIL clause=ghost-{c} line={i+1}"; fails := fails + 1
        pre := post
      | none => out.putStrLn s!"mon {prop} FAIL clause=obs-parse line={i+1}"; fails := fails + 1
    | ["nft", "vjson", _] =>
      -- a pure ValidateBasic case: no message is delivered, the state must not move
      match parseObs o with
      | some post =>
        for c in pureFails pre post do
          out.putStrLn s!"mon {prop} FAIL clause={c} line={i+1}"; fails := fails + 1
        pre := post
      | none => out.putStrLn s!"mon {prop} FAIL clause=obs-parse line={i+1}"; fails := fails + 1
    | _ =>
      match parseOp t, parseObs o with
      | some op, some post =>
        steps := steps + 1
        for c in stepFails pre op (o.head? == some "ok") (o.head? == some "panic") post do
          out.putStrLn s!"mon {prop} FAIL clause={c} line={i+1}"; fails := fails + 1
        pre := post
      | _, _ => out.putStrLn s!"mon {prop} FAIL clause=parse line={i+1}"; fails := fails + 1
  out.putStrLn s!"mon {prop} done steps={steps} fails={fails}"

/-- diagnostic: op kind + the model's verdict with its reason, one per line -/
def runExplain (ops : Array String) : IO Unit := do
  let mut s : State := {}
  let out ← IO.getStdout
  for l in ops do
    let t := tokens l
    match t with
    | ["nft", "reset"] => s := {}
    | ["nft", "vjson", _] => pure ()
    | "nft" :: "ghost" :: _ => pure ()
    | ["nft", "export"] => pure ()
    | ["nft", "reimport"] =>
      match NftGenesis.importGenesis (NftGenesis.exportGenesis s) with
      | .ok s' => s := s'; out.putStrLn "reimport ok"
      | .error _ => out.putStrLn "reimport panic"
    | _ =>
      match parseOp t with
      | none => out.putStrLn "bad-op"
      | some op =>
        match step s op with
        | .ok s' => s := s'; out.putStrLn s!"{t.getD 1 ""} ok"
        | .error (.reject w) => out.putStrLn s!"{t.getD 1 ""} rej {w}"
        | .error (.panic w) => out.putStrLn s!"{t.getD 1 ""} panic {w}"

def readLines (p : String) : IO (Array String) := do
  let c ← IO.FS.readFile p
  return (c.splitOn "\n").toArray.filter (· ≠ "")

def main (args : List String) : IO UInt32 := do
  match args with
  | ["model", ops] => runModel (← readLines ops); return 0
  | ["explain", ops] => runExplain (← readLines ops); return 0
  | ["monitor", "C14", ops, obs] => runMonitor "C14" (← readLines ops) (← readLines obs); return 0
  | ["monitor", "C12", ops, obs] => runMonitor "C12" (← readLines ops) (← readLines obs); return 0
  | _ => IO.eprintln "usage: model <ops> | monitor C14|C12 <ops> <obs> | explain <ops>"; return 2

end Driver.Nft

def main (args : List String) : IO UInt32 := Driver.Nft.main args
