/-
Line-protocol driver for the token model and the C09 / C10 monitors.
  model   <ops>              : prints one observation line per op line
  monitor C09|C10 <ops> <obs>: evaluates the property on the implementation's observation stream
-/
import Irismod.Spec.C10
import Irismod.Spec.C12_Token

namespace Driver.Token
open Irismod Irismod.Sdk Irismod.Token Irismod.Line

def dash (s : String) : String := if s = "-" then "" else s
def undash (s : String) : String := if s = "" then "-" else s

def u64? (s : String) : Option Nat :=
  match s.toNat? with
  | some n => if n < 2^64 then some n else none
  | none => none

def u32? (s : String) : Option Nat :=
  match s.toNat? with
  | some n => if n < 2^32 then some n else none
  | none => none

def bool01? (s : String) : Option Bool :=
  if s = "1" then some true else if s = "0" then some false else none

def kOf? (s : String) : Option Nat :=
  if s = "-" then some 0
  else if s.startsWith "K" then (s.drop 1).toString.toNat? else none

/-- `K<c>` (a contract of ours) or `U<n>` (any other address) -/
def emitterOf? (s : String) : Option Emitter :=
  if s.startsWith "K" then (s.drop 1).toString.toNat? |>.map Emitter.k
  else if s.startsWith "U" then (s.drop 1).toString.toNat? |>.map Emitter.u
  else none

def kName (n : Nat) : String := if n = 0 then "-" else s!"K{n}"

def parseParams (r : List String) : Option Params := do
  let tax ← intArg? r "tax"
  let amt ← intArg? r "feeamt"
  let ratio ← intArg? r "mintratio"
  let e ← bool01? (arg r "erc20")
  let b ← bool01? (arg r "beacon")
  some { taxRate := ⟨tax⟩, feeDenom := dash (arg r "feedenom"), feeAmt := amt, mintRatio := ⟨ratio⟩, erc20 := e, beacon := b }

/-- parse an op line; `none` = malformed (never defaulted) -/
def parseOp (t : List String) : Option Op :=
  match t with
  | "token" :: "issue" :: r => do
    let scale ← u32? (arg r "scale")
    let init ← u64? (arg r "init")
    let max ← u64? (arg r "max")
    let m ← bool01? (arg r "mintable")
    some (.issue (arg r "owner") (dash (arg r "symbol")) (dash (arg r "name")) (dash (arg r "minunit")) scale init max m)
  | "token" :: "edit" :: r => do
    let max ← u64? (arg r "max")
    some (.edit (arg r "owner") (dash (arg r "symbol")) (dash (arg r "name")) max (dash (arg r "mintable")))
  | "token" :: "mint" :: r => do
    let n ← intArg? r "amount"
    some (.mint (arg r "owner") (dash (arg r "to")) (dash (arg r "denom")) n)
  | "token" :: "burn" :: r => do
    let n ← intArg? r "amount"
    some (.burn (arg r "sender") (dash (arg r "denom")) n)
  | "token" :: "transfer_owner" :: r => some (.transferOwner (arg r "src") (arg r "dst") (dash (arg r "symbol")))
  | "token" :: "swap_fee" :: r => do
    let n ← intArg? r "amount"
    some (.swapFee (arg r "sender") (dash (arg r "to")) (dash (arg r "denom")) n)
  | "token" :: "deploy" :: r => do
    let scale ← u32? (arg r "scale")
    some (.deploy (arg r "authority") (dash (arg r "name")) (dash (arg r "symbol")) (dash (arg r "minunit")) scale)
  | "token" :: "swap_to_erc20" :: r => do
    let n ← intArg? r "amount"
    some (.swapToErc20 (arg r "sender") (arg r "receiver") (dash (arg r "denom")) n)
  | "token" :: "swap_from_erc20" :: r => do
    let n ← intArg? r "amount"
    some (.swapFromErc20 (arg r "sender") (arg r "receiver") (dash (arg r "denom")) n)
  | "token" :: "hook_swap" :: r => do
    let n ← intArg? r "amount"
    let c ← kOf? (arg r "contract")
    some (.hookSwap (arg r "from") c (dash (arg r "to")) n)
  | "token" :: "evm_tx" :: r => do
    let target ← emitterOf? (arg r "target")
    let mut logs : List SwapLog := []
    for e in listOf (dash (arg r "logs")) do
      match e.splitOn ":" with
      | [em, src, to, amt] =>
        let em' ← emitterOf? em
        let n ← amt.toInt?
        logs := logs ++ [{ emitter := em', src := src, rcv := dash to, amount := n }]
      | _ => none
    some (.evmTx target logs)
  | "token" :: "evm_fault" :: r => some (.evmFault (arg r "mode"))
  | "token" :: "update_params" :: r => do
    let p ← parseParams r
    some (.updateParams (arg r "authority") p)
  | "token" :: "legacy_issue" :: r => do
    let scale ← u32? (arg r "scale")
    let init ← u64? (arg r "init")
    let max ← u64? (arg r "max")
    let m ← bool01? (arg r "mintable")
    some (.legacyIssue (arg r "owner") (dash (arg r "symbol")) (dash (arg r "name")) (dash (arg r "minunit")) scale init max m)
  | "token" :: "legacy_edit" :: r => do
    let max ← u64? (arg r "max")
    some (.legacyEdit (arg r "owner") (dash (arg r "symbol")) (dash (arg r "name")) max (dash (arg r "mintable")))
  | "token" :: "legacy_mint" :: r => do
    let n ← u64? (arg r "amount")
    some (.legacyMint (arg r "owner") (dash (arg r "to")) (dash (arg r "symbol")) n)
  | "token" :: "legacy_burn" :: r => do
    let n ← u64? (arg r "amount")
    some (.legacyBurn (arg r "sender") (dash (arg r "symbol")) n)
  | "token" :: "legacy_transfer_owner" :: r =>
    some (.legacyTransferOwner (arg r "src") (arg r "dst") (dash (arg r "symbol")))
  | "token" :: "upgrade_erc20" :: r => some (.upgradeErc20 (arg r "authority") (arg r "impl"))
  | _ => none

def accounts : List String := ["A0", "A1", "A2", "A3", "FC", "TM"]

def dedup (xs : List String) : List String := xs.eraseDups

def showToken (t : Token) : String :=
  s!"{t.symbol}:{undash t.name}:{t.scale}:{t.minUnit}:{t.initialSupply}:{t.maxSupply}:{if t.mintable then 1 else 0}:{t.owner}:{kName t.contract}"

def showParams (p : Params) : String :=
  s!"{p.taxRate.raw}:{undash p.feeDenom}:{p.feeAmt}:{p.mintRatio.raw}:{if p.erc20 then 1 else 0}:{if p.beacon then 1 else 0}"

/-- the exported genesis document in ITS OWN order (no sorting: the order is part of what is compared) -/
def showGenesis (g : TokenGenesis.Genesis) : String :=
  s!"params={showParams g.params} toks={joinWith "," (g.tokens.map showToken)} " ++
  s!"burned={joinWith "," (g.burned.map fun (d, n) => s!"{d}:{n}")}"

/-- canonical state line (sorted entries), the same projection the harness prints -/
def showState (s : State) : String :=
  let toks := sortStrings (s.tokens.map fun (_, t) => showToken t)
  let mu := sortStrings (s.minUnits.map fun (m, sym) => s!"{m}:{sym}")
  let own := sortStrings (s.owners.map fun ((o, sym), v) => if v = sym then s!"{o}/{sym}" else s!"{o}/{sym}!{v}")
  let ctr := sortStrings (s.contracts.map fun (c, sym) => s!"{kName c}:{sym}")
  let burned := sortStrings (s.burned.map fun (d, n) => s!"{d}:{n}")
  let p := s.params
  let bal := sortStrings ((s.bank.bal.filter fun ((a, _), v) => accounts.contains a && v != 0).map
    fun ((a, d), v) => s!"{a}/{d}:{v}")
  let sup := sortStrings (dedup ((s.tokens.map fun (_, t) => s!"{t.minUnit}:{supplyOf s t.minUnit}") ++
    ((s.bank.supply.filter fun (_, v) => v != 0).map fun (d, v) => s!"{d}:{v}")))
  let evm := sortStrings ((s.evm.filter fun (_, v) => v != 0).map fun ((c, h), v) => s!"{kName c}/{h}:{v}")
  s!"toks={joinWith "," toks} mu={joinWith "," mu} own={joinWith "," own} ctr={joinWith "," ctr} " ++
  s!"burned={joinWith "," burned} params={p.taxRate.raw}:{undash p.feeDenom}:{p.feeAmt}:{p.mintRatio.raw}:{if p.erc20 then 1 else 0}:{if p.beacon then 1 else 0} " ++
  s!"bal={joinWith "," bal} sup={joinWith "," sup} nonce={s.nonce} evm={joinWith "," evm} fault={s.fault} impl={s.impl}"

def parseBals (e : String) : Option (AMap (Addr × Denom) Nat) := do
  let mut m : AMap (Addr × Denom) Nat := []
  for x in listOf (dash e) do
    match x.splitOn ":" with
    | [key, v] =>
      match key.splitOn "/" with
      | a :: rest =>
        let n ← v.toNat?
        m := AMap.set m (a, joinWith "/" rest) n
      | _ => none
    | _ => none
  return m

/-- the state and configuration a reset line describes -/
def parseReset (r : List String) : Option State := do
  let p ← parseParams r
  let stake0 ← natArg? r "stake0"
  let bal ← parseBals (arg r "bals")
  let mut reg : AMap String (String × Dec) := []
  for x in listOf (dash (arg r "registry")) do
    match x.splitOn ":" with
    | [src, dst, ratio] =>
      let q ← ratio.toInt?
      reg := AMap.set reg src (dst, ⟨q⟩)
    | _ => none
  -- supplies: the native token as given; any other funded denomination (IBC vouchers) is what was funded
  let mut sup : AMap Denom Nat := [("stake", stake0)]
  for ((_, d), v) in bal do
    if d ≠ "stake" then sup := AMap.set sup d (AMap.getD sup d 0 + v)
  return genesis { bal := bal, supply := sup } p
    { blocked := listOf (dash (arg r "blocked")), registry := reg }

/-- parse an observation line of the implementation into a state (configuration from `env`) -/
def parseState (env : Env) (t : List String) : Option State := do
  let mut s : State := { env := env }
  for e in listOf (arg t "toks") do
    match e.splitOn ":" with
    | [sym, name, scale, mu, init, max, mint, owner, k] =>
      let sc ← scale.toNat?
      let i ← init.toNat?
      let mx ← max.toNat?
      let mt ← bool01? mint
      let c ← kOf? k
      s := { s with tokens := AMap.set s.tokens sym (Token.mk sym (dash name) sc mu i mx mt owner c) }
    | _ => none
  for e in listOf (arg t "mu") do
    match e.splitOn ":" with
    | [m, sym] => s := { s with minUnits := AMap.set s.minUnits m sym }
    | _ => none
  for e in listOf (arg t "own") do
    match e.splitOn "/" with
    | [o, rest] =>
      match rest.splitOn "!" with
      | [sym] => s := { s with owners := AMap.set s.owners (o, sym) sym }
      | [sym, v] => s := { s with owners := AMap.set s.owners (o, sym) v }
      | _ => none
    | _ => none
  for e in listOf (arg t "ctr") do
    match e.splitOn ":" with
    | [k, sym] =>
      let c ← kOf? k
      s := { s with contracts := AMap.set s.contracts c sym }
    | _ => none
  for e in listOf (arg t "burned") do
    match e.splitOn ":" with
    | [d, v] =>
      let n ← v.toNat?
      s := { s with burned := AMap.set s.burned d n }
    | _ => none
  match (arg t "params").splitOn ":" with
  | [tax, fd, fa, mr, e, b] =>
    let tx ← tax.toInt?
    let a ← fa.toInt?
    let r ← mr.toInt?
    let eb ← bool01? e
    let bb ← bool01? b
    s := { s with params := { taxRate := ⟨tx⟩, feeDenom := dash fd, feeAmt := a, mintRatio := ⟨r⟩, erc20 := eb, beacon := bb } }
  | _ => none
  let bal ← parseBals (arg t "bal")
  let mut sup : AMap Denom Nat := []
  for e in listOf (arg t "sup") do
    match e.splitOn ":" with
    | [d, v] =>
      let n ← v.toNat?
      sup := AMap.set sup d n
    | _ => none
  s := { s with bank := { bal := bal, supply := sup } }
  let nonce ← natArg? t "nonce"
  let impl ← arg? t "impl"
  s := { s with nonce := nonce, fault := arg t "fault", impl := impl }
  for e in listOf (arg t "evm") do
    match e.splitOn ":" with
    | [key, v] =>
      match key.splitOn "/" with
      | [k, h] =>
        let c ← kOf? k
        let n ← v.toNat?
        s := { s with evm := AMap.set s.evm (c, h) n }
      | _ => none
    | _ => none
  return s

def resWord : Except Err State → String
  | .ok _ => "ok"
  | .error (.reject _) => "rej"
  | .error (.panic _) => "panic"

/-- the pure operations: `lossless`, `fee_factor` -/
def pureLine (t : List String) : Option String :=
  match t with
  | "token" :: "lossless" :: r =>
    match intArg? r "input", intArg? r "ratio", natArg? r "si", natArg? r "so" with
    | some x, some q, some si, some so =>
      match lossLess x ⟨q⟩ si so with
      | some (b, m) => some s!"ok burned={b} minted={m}"
      | none => some "panic"
    | _, _, _, _ => some "bad-op"
  | "token" :: "fee_factor" :: r =>
    match natArg? r "len" with
    | some n =>
      match calcIssueFee { feeAmt := 1000000000000000000000000000000 } n with
      | .ok f => some s!"ok fee={f}"
      | .error (.reject _) => some "rej"
      | .error (.panic _) => some "panic"
    | none => some "bad-op"
  | _ => none

def modelLine (s : State) (line : String) : State × String :=
  let t := tokens line
  match t with
  | "token" :: "reset" :: r =>
    match parseReset r with
    | some s0 => (s0, "ok " ++ showState s0)
    | none => (s, "bad-op")
  | _ =>
    match pureLine t with
    | some o => (s, o)
    | none =>
      match t with
      | ["token", "export"] =>
        let g := TokenGenesis.exportGenesis s
        (s, s!"ok validate={if TokenGenesis.validateGenesis g then "ok" else "err"} " ++ showGenesis g)
      | ["token", "reimport"] =>
        match TokenGenesis.reimport s with
        | .ok s' => (s', "ok " ++ showState s')
        | .error (.panic _) => (s, "panic " ++ showState s)
        | .error (.reject _) => (s, "rej " ++ showState s)
      | _ =>
      match parseOp t with
      | none => (s, "bad-op")
      | some op =>
        let r := step s op
        let s' := match r with | .ok s' => s' | .error _ => s
        (s', resWord r ++ " " ++ showState s')

def runModel (ops : Array String) : IO Unit := do
  let mut s : State := {}
  let out ← IO.getStdout
  for l in ops do
    let (s', o) := modelLine s l
    s := s'
    out.putStrLn o

def failLine (prop : String) (i : Nat) (f : Spec.C09.Fail) : String :=
  s!"mon {prop} FAIL clause={f.clause} line={i+1}" ++ (if f.cls = "" then "" else s!" class={f.cls}")

/-- the clauses of C10 on a pure `lossless` line -/
def pureFails (t o : List String) : Option (List Spec.C09.Fail) :=
  match t with
  | "token" :: "lossless" :: r =>
    match intArg? r "input", intArg? r "ratio", natArg? r "si", natArg? r "so" with
    | some x, some q, some si, some so =>
      if o.head? == some "panic" then some []
      else match intArg? o "burned", intArg? o "minted" with
        | some b, some m => some (Spec.C10.swapFails x q si so b m)
        | _, _ => some [{ clause := "obs-parse" }]
    | _, _, _, _ => some [{ clause := "parse" }]
  | "token" :: "fee_factor" :: _ => some []
  | _ => none

/-- monitor: the pre-state is the previous *implementation* observation -/
def runMonitor (prop : String) (ops obs : Array String) : IO Unit := do
  let out ← IO.getStdout
  if ops.size ≠ obs.size then
    out.putStrLn s!"mon {prop} FAIL clause=stream-length ops={ops.size} obs={obs.size}"
    return
  let mut pre : State := {}
  let mut fails := 0
  let mut steps := 0
  for i in [0:ops.size] do
    let t := tokens ops[i]!
    let o := tokens obs[i]!
    match t with
    | "token" :: "reset" :: r =>
      match parseReset r with
      | some s0 =>
        match parseState s0.env o with
        | some s => pre := s
        | none => out.putStrLn s!"mon {prop} FAIL clause=obs-parse line={i+1}"; fails := fails + 1
      | none => out.putStrLn s!"mon {prop} FAIL clause=parse line={i+1}"; fails := fails + 1
    | _ =>
      if t == ["token", "export"] then
        steps := steps + 1
        if prop = "C12" then
          for f in Spec.C12.Token.exportFails pre (arg o "validate" == "ok") do
            out.putStrLn (failLine prop i f); fails := fails + 1
      else if t == ["token", "reimport"] then
        match parseState pre.env o with
        | some post =>
          steps := steps + 1
          let fs := if prop = "C12" then Spec.C12.Token.reimportFails pre (o.head? == some "ok") post else []
          for f in fs do
            out.putStrLn (failLine prop i f); fails := fails + 1
          pre := post
        | none => out.putStrLn s!"mon {prop} FAIL clause=parse line={i+1}"; fails := fails + 1
      else
      match pureFails t o with
      | some fs =>
        steps := steps + 1
        if prop = "C10" then
          for f in fs do
            out.putStrLn (failLine prop i f); fails := fails + 1
      | none =>
        match parseOp t, parseState pre.env o with
        | some op, some post =>
          steps := steps + 1
          let accepted := o.head? == some "ok"
          let fs := if prop = "C09" then Spec.C09.stepFails pre op accepted post
                    else if prop = "C10" then Spec.C10.stepFails pre op accepted post
                    else []
          for f in fs do
            out.putStrLn (failLine prop i f); fails := fails + 1
          pre := post
        | _, _ => out.putStrLn s!"mon {prop} FAIL clause=parse line={i+1}"; fails := fails + 1
  out.putStrLn s!"mon {prop} done steps={steps} fails={fails}"

/-- debugging aid: the model's reason for every rejection -/
def runExplain (ops : Array String) : IO Unit := do
  let mut s : State := {}
  let out ← IO.getStdout
  for l in ops do
    let t := tokens l
    match parseOp t with
    | some op =>
      match step s op with
      | .ok _ => out.putStrLn s!"{t.getD 1 ""} ok"
      | .error (.reject w) => out.putStrLn s!"{t.getD 1 ""} rej {w}"
      | .error (.panic w) => out.putStrLn s!"{t.getD 1 ""} panic {w}"
    | none => pure ()
    s := (modelLine s l).1

def readLines (p : String) : IO (Array String) := do
  let c ← IO.FS.readFile p
  return (c.splitOn "\n").toArray.filter (· ≠ "")

def main (args : List String) : IO UInt32 := do
  match args with
  | ["model", ops] => runModel (← readLines ops); return 0
  | ["explain", ops] => runExplain (← readLines ops); return 0
  | ["monitor", "C09", ops, obs] => runMonitor "C09" (← readLines ops) (← readLines obs); return 0
  | ["monitor", "C10", ops, obs] => runMonitor "C10" (← readLines ops) (← readLines obs); return 0
  | ["monitor", "C12", ops, obs] => runMonitor "C12" (← readLines ops) (← readLines obs); return 0
  | _ => IO.eprintln "usage: model <ops> | monitor C09|C10|C12 <ops> <obs>"; return 2

end Driver.Token

def main (args : List String) : IO UInt32 := Driver.Token.main args
