/-
Line-protocol driver for the MT model and the C15 monitor.
  model   <ops>          : prints one observation line per op line
  monitor <ops> <obs>    : evaluates Spec.C15 on the implementation's observation stream
-/
import Irismod.Spec.C15
import Irismod.Model.MtGenesis

namespace Driver.Mt
open Irismod Irismod.Mt Irismod.Line

def u64 (s : String) : Option UInt64 :=
  match s.toNat? with
  | some n => if n < 2^64 then some (UInt64.ofNat n) else none
  | none => none

def dash (s : String) : String := if s = "-" then "" else s
def undash (s : String) : String := if s = "" then "-" else s

/-- parse an op line; `none` = malformed (never defaulted) -/
def parseOp (t : List String) : Option Op :=
  match t with
  | "mt" :: "issue_denom" :: r => some (.issueDenom (arg r "sender") (dash (arg r "name")) (dash (arg r "data")))
  | "mt" :: "mint" :: r => do
    let n ← u64 (arg r "amount")
    some (.mint (arg r "sender") (dash (arg r "denom")) (dash (arg r "id")) (dash (arg r "recipient")) n (dash (arg r "data")))
  | "mt" :: "edit" :: r => some (.edit (arg r "sender") (dash (arg r "denom")) (dash (arg r "id")) (dash (arg r "data")))
  | "mt" :: "transfer" :: r => do
    let n ← u64 (arg r "amount")
    some (.transfer (arg r "sender") (arg r "recipient") (dash (arg r "denom")) (dash (arg r "id")) n)
  | "mt" :: "burn" :: r => do
    let n ← u64 (arg r "amount")
    some (.burn (arg r "sender") (dash (arg r "denom")) (dash (arg r "id")) n)
  | "mt" :: "transfer_denom" :: r => some (.transferDenom (arg r "sender") (arg r "recipient") (dash (arg r "id")))
  | _ => none

/-- canonical state line (sorted entries) -/
def showState (s : State) : String :=
  let ds := sortStrings (s.denoms.map fun (id, r) =>
    s!"{id}:{r.owner}:{undash r.name}:{undash r.data}:{(AMap.getD s.denomSupply id 0).toNat}")
  let ms := sortStrings (s.mts.map fun ((d, m), data) =>
    s!"{d}/{m}:{(supplyOf s d m).toNat}:{undash data}")
  let bs := sortStrings (s.bal.map fun ((a, d, m), v) => s!"{a}/{d}/{m}:{v.toNat}")
  s!"dseq={s.denomSeq.toNat} mseq={s.mtSeq.toNat} denoms={joinWith "," ds} mts={joinWith "," ms} bals={joinWith "," bs}"

def parseState (t : List String) : Option State := do
  let dseq ← u64 (arg t "dseq")
  let mseq ← u64 (arg t "mseq")
  let mut s : State := { denomSeq := dseq, mtSeq := mseq }
  for e in listOf (arg t "denoms") do
    match e.splitOn ":" with
    | [id, owner, name, data, dsup] =>
      let n ← u64 dsup
      s := { s with denoms := AMap.set s.denoms id { name := dash name, owner := owner, data := dash data },
                    denomSupply := AMap.set s.denomSupply id n }
    | _ => none
  for e in listOf (arg t "mts") do
    match e.splitOn ":" with
    | [key, sup, data] =>
      match key.splitOn "/" with
      | [d, m] =>
        let n ← u64 sup
        s := { s with mts := AMap.set s.mts (d, m) (dash data), supply := AMap.set s.supply (d, m) n }
      | _ => none
    | _ => none
  for e in listOf (arg t "bals") do
    match e.splitOn ":" with
    | [key, v] =>
      match key.splitOn "/" with
      | [a, d, m] =>
        let n ← u64 v
        s := { s with bal := AMap.set s.bal (a, d, m) n }
      | _ => none
    | _ => none
  return s

/-- the exported genesis document in ITS OWN order (no sorting here: the order is part of what is compared) -/
def showGenesis (g : MtGenesis.Genesis) : String :=
  let cols := g.collections.map fun c =>
    let mts := c.mts.map fun m => s!"{m.id}:{m.supply.toNat}:{undash m.data}"
    s!"{c.id}:{c.denom.owner}:{undash c.denom.name}:{undash c.denom.data}[{joinWith ";" mts}]"
  let owners := g.owners.map fun o =>
    let ds := o.denoms.map fun d =>
      let bs := d.balances.map fun b => s!"{b.mtId}:{b.amount.toNat}"
      s!"{d.denomId}({joinWith ";" bs})"
    s!"{o.address}[{joinWith ";" ds}]"
  s!"cols={joinWith "|" cols} owners={joinWith "|" owners}"

def validateWord (g : MtGenesis.Genesis) : String :=
  match MtGenesis.validateGenesis g with
  | .ok _ => "ok"
  | .error _ => "err"

def resWord : Except Err State → String
  | .ok _ => "ok"
  | .error (.reject _) => "rej"
  | .error (.panic _) => "panic"

def modelLine (s : State) (line : String) : State × String :=
  let t := tokens line
  match t with
  | ["mt", "reset"] => ({}, "ok " ++ showState {})
  | ["mt", "export"] =>
    let g := MtGenesis.exportGenesis s
    (s, s!"ok validate={validateWord g} {showGenesis g}")
  | ["mt", "reimport"] =>
    -- InitGenesis(ExportGenesis(state)) on an emptied module store
    match MtGenesis.importGenesis (MtGenesis.exportGenesis s) with
    | .ok s' => (s', "ok " ++ showState s')
    | .error _ => (s, "panic " ++ showState s)
  | "mt" :: "ghost" :: _ =>
    -- an execution on a context that is thrown away: the state is what it was
    (s, "ghost " ++ showState s)
  | _ =>
    match parseOp t with
    | none => (s, "bad-op")
    | some op =>
      let r := step s op
      let s' := match r with | .ok s' => s' | .error _ => s
      (s', resWord r ++ " " ++ showState s')

def runModel (ops : Array String) : IO Unit := do
  let mut s : State := {}
  let out ← IO.getStdout
  for l in ops do
    let (s', o) := modelLine s l
    s := s'
    out.putStrLn o

/-- monitor: pre-state is the previous *implementation* observation -/
def runMonitor (ops obs : Array String) : IO Unit := do
  let out ← IO.getStdout
  if ops.size ≠ obs.size then
    out.putStrLn s!"mon C15 FAIL clause=stream-length ops={ops.size} obs={obs.size}"
    return
  let mut pre : State := {}
  let mut fails := 0
  let mut steps := 0
  for i in [0:ops.size] do
    let t := tokens ops[i]!
    let o := tokens obs[i]!
    match t with
    | ["mt", "reset"] =>
      match parseState o with
      | some s => pre := s
      | none => out.putStrLn s!"mon C15 FAIL clause=obs-parse line={i+1}"; fails := fails + 1
    | ["mt", "export"] => pure ()
    | "mt" :: "ghost" :: _ =>
      match parseState o with
      | some post =>
        if !(Spec.C15.sameState pre post) then
          out.putStrLn s!"mon C15 FAIL clause=ghost-visible line={i+1}"; fails := fails + 1
        pre := post
      | none => out.putStrLn s!"mon C15 FAIL clause=obs-parse line={i+1}"; fails := fails + 1
    | ["mt", "reimport"] =>
      -- a re-import must preserve every balance, supply, class and token (C12 for MT; C15's invariant again)
      match parseState o with
      | some post =>
        if !(Spec.C15.sameState pre post) || o.head? != some "ok" then
          out.putStrLn s!"mon C15 FAIL clause=reimport-changed-state line={i+1}"; fails := fails + 1
        pre := post
      | none => out.putStrLn s!"mon C15 FAIL clause=obs-parse line={i+1}"; fails := fails + 1
    | _ =>
      match parseOp t, parseState o with
      | some op, some post =>
        steps := steps + 1
        let accepted := o.head? == some "ok"
        let panicked := o.head? == some "panic"
        if panicked then
          out.putStrLn s!"mon C15 FAIL clause=panic line={i+1}"; fails := fails + 1
        if !(Spec.C15.stepOk pre op accepted post) then
          out.putStrLn s!"mon C15 FAIL clause=step line={i+1}"; fails := fails + 1
        if !(Spec.C15.invB post) then
          out.putStrLn s!"mon C15 FAIL clause=sum-eq-supply line={i+1}"; fails := fails + 1
        pre := post
      | _, _ => out.putStrLn s!"mon C15 FAIL clause=parse line={i+1}"; fails := fails + 1
  out.putStrLn s!"mon C15 done steps={steps} fails={fails}"

def readLines (p : String) : IO (Array String) := do
  let c ← IO.FS.readFile p
  return (c.splitOn "\n").toArray.filter (· ≠ "")

def main (args : List String) : IO UInt32 := do
  match args with
  | ["model", ops] => runModel (← readLines ops); return 0
  | ["monitor", "C15", ops, obs] => runMonitor (← readLines ops) (← readLines obs); return 0
  | _ => IO.eprintln "usage: model <ops> | monitor C15 <ops> <obs>"; return 2

end Driver.Mt

def main (args : List String) : IO UInt32 := Driver.Mt.main args
