/-
Line-protocol driver for the oracle model and the C17 monitor.
  model   <ops>              : prints one observation line per op line
  monitor C17 <ops> <obs>    : evaluates Spec.C17 on the implementation's observation stream
  monitor C12 <ops> <obs>    : judges the `oracle export` / `oracle reimport` lines (genesis round trip)

`oracle export` / `oracle reimport batches=<feed>:<counter>,…` are answered by `Irismod.OracleGen`
(Model/OracleGenesis.lean): the literal ExportGenesis / ValidateGenesis / InitGenesis.
-/
import Irismod.Spec.C17
import Irismod.Spec.C12_Oracle
import Irismod.Sdk.Line

namespace Driver.Oracle
open Irismod Irismod.Oracle Irismod.Line

def dash (s : String) : String := if s = "-" then "" else s
def undash (s : String) : String := if s = "" then "-" else s

def nat? (s : String) : Option Nat := s.toNat?
def int? (s : String) : Option Int := s.toInt?

def splitList (sep : String) (s : String) : List String :=
  if s = "" ∨ s = "-" then [] else s.splitOn sep

def parseCap (s : String) : Option Cap :=
  if s = "-" ∨ s = "" then some .empty else
  match s.splitOn ":" with
  | [a] => (nat? a).map fun n => .coin n "stake"
  | [a, d] => (nat? a).map fun n => .coin n d
  | _ => none

def parseCtxState (s : String) : Option CtxState :=
  if s = "running" then some .running else if s = "paused" then some .paused
  else if s = "completed" then some .completed else none

def showCtxState : CtxState → String
  | .running => "running" | .paused => "paused" | .completed => "completed"

/-- `done/<feed>/<batch>/<thr>/<o1|o2…>` or `state/<feed>/<to>` -/
def parseCb (s : String) : Option Cb :=
  match s.splitOn "/" with
  | ["done", f, b, t, o] => do
    let b ← nat? b
    let t ← nat? t
    some (.done f b t (splitList "|" o))
  | ["state", f, to] => (parseCtxState to).map fun st => .state f st
  | _ => none

def parseCbs (s : String) : Option (List Cb) :=
  (splitList ";" s).mapM parseCb

/-- parse an op line; `none` = malformed (never defaulted) -/
def parseOp (t : List String) : Option Op :=
  match t with
  | "oracle" :: "create_feed" :: r => do
    let hist ← nat? (arg r "hist")
    let thr ← nat? (arg r "thr")
    let timeout ← int? (arg r "timeout")
    let freq ← nat? (arg r "freq")
    let cap ← parseCap (arg r "cap")
    some (.create { name := dash (arg r "name"), creator := arg r "creator", agg := dash (arg r "agg"),
                    path := dash (arg r "path"), hist := hist, desc := dash (arg r "desc"),
                    service := dash (arg r "service"), providers := splitList "," (arg r "providers"),
                    thr := thr, timeout := timeout, freq := freq, cap := cap, input := arg r "input" })
  | "oracle" :: "start_feed" :: r => some (.start (dash (arg r "name")) (arg r "sender"))
  | "oracle" :: "pause_feed" :: r => some (.pause (dash (arg r "name")) (arg r "sender"))
  | "oracle" :: "edit_feed" :: r => do
    let hist ← nat? (arg r "hist")
    let thr ← nat? (arg r "thr")
    let timeout ← int? (arg r "timeout")
    let freq ← nat? (arg r "freq")
    let cap ← parseCap (arg r "cap")
    some (.edit { name := dash (arg r "name"), sender := arg r "sender", hist := hist,
                  providers := splitList "," (arg r "providers"), thr := thr, timeout := timeout,
                  freq := freq, cap := cap, desc := dash (arg r "desc") })
  | "oracle" :: "respond" :: r => do
    let cbs ← parseCbs (arg r "cbs")
    let res := arg r "res"
    if res = "ok" then some (.respond true cbs)
    else if res = "rej" ∨ res = "panic" then (if cbs.isEmpty then some (.respond false []) else none)
    else none
  | "oracle" :: "block" :: r => do
    let dt ← nat? (arg r "dt")
    let cbs ← parseCbs (arg r "cbs")
    some (.block dt cbs)
  | "oracle" :: "fund" :: r => (nat? (arg r "amt")).map fun _ => .bank
  | "oracle" :: "drain" :: r => (nat? (arg r "keep")).map fun _ => .bank
  | _ => none

/-- canonical state line (sorted entries), the same projection the harness prints -/
def showState (s : State) : String :=
  let fs := sortStrings (s.feeds.map fun (n, f) =>
    s!"{n}:{f.creator}:{f.agg}:{undash f.path}:{f.hist}:{undash f.desc}")
  let cs := sortStrings (s.feeds.map fun (n, _) =>
    match AMap.get? s.ctxs n with
    | some c => s!"{n}:{showCtxState c.state}:{c.thr}:{c.providers.length}:{c.timeout}:{c.freq}"
    | none => s!"{n}:none")
  -- the index iterators of the keeper skip names without a feed
  let run := sortStrings ((s.running.filter fun n => AMap.contains s.feeds n).eraseDups)
  let pau := sortStrings ((s.paused.filter fun n => AMap.contains s.feeds n).eraseDups)
  let vs := sortStrings ((s.feeds.filter fun (n, _) => !(viewOf s n).isEmpty).map fun (n, _) =>
    n ++ ":" ++ joinWith "|" ((viewOf s n).map fun v => s!"{v.data}@{v.time}"))
  s!"t={s.now} feeds={joinWith "," fs} ctx={joinWith "," cs} run={joinWith "," run} pau={joinWith "," pau} vals={joinWith "," vs}"

/-- parse an observation line back into a state (providers as placeholders, keys 1..n) -/
def parseState (t : List String) : Option State := do
  let now ← nat? (arg t "t")
  let mut s : State := { now := now }
  for e in listOf (arg t "feeds") do
    match e.splitOn ":" with
    | [n, creator, agg, path, hist, desc] =>
      let h ← nat? hist
      s := { s with feeds := AMap.set s.feeds n { desc := dash desc, agg := agg, path := dash path, hist := h, creator := creator } }
    | _ => none
  for e in listOf (arg t "ctx") do
    match e.splitOn ":" with
    | [n, st, thr, np, timeout, freq] =>
      let st ← parseCtxState st
      let thr ← nat? thr
      let np ← nat? np
      let timeout ← int? timeout
      let freq ← nat? freq
      s := { s with ctxs := AMap.set s.ctxs n { state := st, thr := thr, providers := List.replicate np "P", timeout := timeout, freq := freq } }
    | [_, "none"] => pure ()
    | _ => none
  s := { s with running := listOf (arg t "run"), paused := listOf (arg t "pau") }
  for e in listOf (arg t "vals") do
    match e.splitOn ":" with
    | [n, vs] =>
      let mut l : List Value := []
      for v in vs.splitOn "|" do
        match v.splitOn "@" with
        | [d, tm] =>
          let tm ← nat? tm
          l := l ++ [{ data := d, time := tm }]
        | _ => none
      -- newest first in the line; store order is ascending
      let asc := l.reverse
      s := { s with values := AMap.set s.values n ((List.range asc.length).zip asc) }
    | _ => none
  return s

def resWord : Except Err State → String
  | .ok _ => "ok"
  | .error (.reject _) => "rej"
  | .error (.panic _) => "panic"

def aggLine (fn vals : String) : String :=
  match aggregateSpecs (dash fn) (splitList "|" vals) with
  | none => "rej"
  | some r => "ok " ++ r

/-- `batches=<feed>:<counter>,…|-`: the current batch counter of every feed's request context -/
def parseBatches (a : String) : Option (AMap Name Nat) :=
  (splitList "," a).foldlM (fun m e =>
    match e.splitOn ":" with
    | [n, b] => (nat? b).map fun b => AMap.set m n b
    | _ => none) ([] : AMap Name Nat)

def exportLine (s : State) : String :=
  let g := OracleGen.exportGenesis s
  let v := if OracleGen.validateGenesis Spec.C12Oracle.symbolicAddr g then "ok" else "err"
  s!"ok validate={v} gen={Spec.C12Oracle.showGenesis g} {showState s}"

def reimportLine (s : State) (batches : String) : State × String :=
  match parseBatches batches with
  | none => (s, "bad-op")
  | some m =>
    match OracleGen.reimport Spec.C12Oracle.symbolicAddr (fun n => AMap.getD m n 0) s with
    | .ok s' =>
      let same := if showState s == showState s' then 1 else 0
      (s', s!"ok same={same} batches={batches} {showState s'}")
    | .error (.panic _) => (s, s!"panic same=1 batches={batches} {showState s}")
    | .error (.reject _) => (s, s!"rej same=1 batches={batches} {showState s}")

def modelLine (s : State) (line : String) : State × String :=
  let t := tokens line
  match t with
  | ["oracle", "export"] => (s, exportLine s)
  | ["oracle", "reimport", b] =>
    if b.startsWith "batches=" then reimportLine s (arg t "batches") else (s, "bad-op")
  | "oracle" :: "reset" :: r =>
    match nat? (arg r "t") with
    | some now => ({ now := now }, "ok " ++ showState { now := now })
    | none => (s, "bad-op")
  | "oracle" :: "agg" :: r => (s, aggLine (arg r "fn") (arg r "vals"))
  | "oracle" :: "aggtol" :: r =>
    -- outside the exact domain the model adopts the recorded result; the monitor checks it with tolerance
    (s, if arg r "impl" = "-" then "rej" else "ok " ++ arg r "impl")
  | _ =>
    match parseOp t with
    | none => (s, "bad-op")
    | some op =>
      let r := step s op
      let s' := match r with | .ok s' => s' | .error _ => s
      let pre := match op with
        | .respond _ _ => s!"{resWord r} cbs={undash (arg t "cbs")} "
        | .block _ _ => s!"{resWord r} cbs={undash (arg t "cbs")} "
        | _ => resWord r ++ " "
      (s', pre ++ showState s')

def runModel (ops : Array String) : IO Unit := do
  let mut s : State := {}
  let out ← IO.getStdout
  for l in ops do
    let (s', o) := modelLine s l
    s := s'
    out.putStrLn o

def showVerdict (line : Nat) : Spec.C17.Verdict → Option String
  | .ok => none
  | .fail c cls => some (s!"mon C17 FAIL clause={c} line={line}" ++ (if cls = "" then "" else s!" class={cls}"))

/-- monitor: pre-state is the previous *implementation* observation; the callbacks are the ones the
implementation reports in its observation (what the real service module did) -/
def runMonitor (ops obs : Array String) : IO Unit := do
  let out ← IO.getStdout
  if ops.size ≠ obs.size then
    out.putStrLn s!"mon C17 FAIL clause=stream-length ops={ops.size} obs={obs.size}"
    return
  let mut pre : State := {}
  let mut hi : Spec.C17.Hi := []
  -- batch counter of every feed at the last re-import (the batch that was in flight then stores its value under
  -- the key the import used for the one value it kept: recorded finding F-ora-2)
  let mut imp : List (String × Nat) := []
  let mut fails := 0
  let mut steps := 0
  for i in [0:ops.size] do
    let t := tokens ops[i]!
    let o := tokens obs[i]!
    match t with
    | "oracle" :: "reset" :: _ =>
      match parseState o with
      | some s => pre := s; hi := []; imp := []
      | none => out.putStrLn s!"mon C17 FAIL clause=obs-parse line={i+1}"; fails := fails + 1
    | ["oracle", "export"] =>
      match parseState o with
      | some s => pre := s
      | none => out.putStrLn s!"mon C17 FAIL clause=obs-parse line={i+1}"; fails := fails + 1
    | "oracle" :: "reimport" :: _ =>
      -- restart from the module's own exported genesis (judged by `monitor C12`): the history continues from the
      -- state the implementation shows now; the feeds it holds have to behave like feeds from then on
      match parseState o with
      | some s =>
        pre := s; hi := []
        imp := (splitList "," (arg o "batches")).filterMap fun e =>
          match e.splitOn ":" with
          | [f, c] => c.toNat?.map fun n => (f, n)
          | _ => none
      | none => out.putStrLn s!"mon C17 FAIL clause=obs-parse line={i+1}"; fails := fails + 1
    | "oracle" :: "agg" :: r =>
      steps := steps + 1
      match o with
      | ["ok", res] =>
        match showVerdict (i+1) (Spec.C17.aggVerdict (dash (arg r "fn")) (splitList "|" (arg r "vals")) res) with
        | some m => out.putStrLn m; fails := fails + 1
        | none => pure ()
      | ["rej"] => if knownAgg (dash (arg r "fn")) then
                     out.putStrLn s!"mon C17 FAIL clause=agg-rejected line={i+1}"; fails := fails + 1
      | _ => out.putStrLn s!"mon C17 FAIL clause=agg-obs line={i+1}"; fails := fails + 1
    | "oracle" :: "aggtol" :: r =>
      steps := steps + 1
      match o with
      | ["ok", res] =>
        match showVerdict (i+1) (Spec.C17.aggTolVerdict (dash (arg r "fn")) (splitList "|" (arg r "vals")) res) with
        | some m => out.putStrLn m; fails := fails + 1
        | none => pure ()
      | ["rej"] => if knownAgg (dash (arg r "fn")) then
                     out.putStrLn s!"mon C17 FAIL clause=agg-rejected line={i+1}"; fails := fails + 1
      | _ => out.putStrLn s!"mon C17 FAIL clause=agg-obs line={i+1}"; fails := fails + 1
    | _ =>
      match parseOp t, parseState o with
      | some op, some post =>
        steps := steps + 1
        let accepted := o.head? == some "ok"
        if o.head? == some "panic" then
          out.putStrLn s!"mon C17 FAIL clause=panic line={i+1}"; fails := fails + 1
        -- the callbacks actually made by the implementation
        let op' : Option Op := match op with
          | .respond _ _ => (parseCbs (arg o "cbs")).map fun cbs => .respond accepted cbs
          | .block dt _ => (parseCbs (arg o "cbs")).map fun cbs => .block dt cbs
          | x => some x
        match op' with
        | none => out.putStrLn s!"mon C17 FAIL clause=obs-cbs line={i+1}"; fails := fails + 1
        | some op' =>
          -- guard of the value clauses: batch counters reported by the service module grow per feed
          match Spec.C17.guardOp hi op' with
          | some hi' => hi := hi'
          | none => out.putStrLn s!"mon C17 FAIL clause=batch-counter line={i+1}"; fails := fails + 1
          -- a batch that was in flight at the last re-import completes on this line
          let cbs : List Cb := match op' with
            | .respond _ cbs => cbs
            | .block _ cbs => cbs
            | _ => []
          let inflight := cbs.any fun cb => match cb with
            | .done f b _ _ => imp.any fun (e : String × Nat) => e.1 == f && e.2 == b
            | _ => false
          for v0 in Spec.C17.stepVerdicts pre op' accepted post do
            let v := match v0 with
              | .fail "history" "" => if inflight then Spec.C17.Verdict.fail "history" "F-ora-2" else v0
              | x => x
            match showVerdict (i+1) v with
            | some m => out.putStrLn m; fails := fails + 1
            | none => pure ()
        pre := post
      | _, _ => out.putStrLn s!"mon C17 FAIL clause=parse line={i+1}"; fails := fails + 1
  out.putStrLn s!"mon C17 done steps={steps} fails={fails}"

/-- C12 (oracle slice): judges the `export` / `reimport` lines of the implementation's stream;
`pre` is the state of the previous implementation observation -/
def runMonitorC12 (ops obs : Array String) : IO Unit := do
  let out ← IO.getStdout
  if ops.size ≠ obs.size then
    out.putStrLn s!"mon C12 FAIL clause=stream-length ops={ops.size} obs={obs.size}"
    return
  let mut pre : State := {}
  let mut preObs : List String := []
  let mut fails := 0
  let mut steps := 0
  for i in [0:ops.size] do
    let t := tokens ops[i]!
    let o := tokens obs[i]!
    -- the state part of an observation line: from the `t=` token on
    let stateToks := o.dropWhile fun x => !x.startsWith "t="
    match t with
    | "oracle" :: "agg" :: _ => pure ()
    | "oracle" :: "aggtol" :: _ => pure ()
    | ["oracle", "export"] =>
      steps := steps + 1
      match parseState o with
      | some post =>
        for f in Spec.C12Oracle.checkExport pre (o.head?.getD "") (arg o "validate") (arg o "gen") post (stateToks == preObs) do
          out.putStrLn (Spec.C12Oracle.failLine f (i+1)); fails := fails + 1
        pre := post; preObs := stateToks
      | none => out.putStrLn s!"mon C12 FAIL clause=obs-parse line={i+1}"; fails := fails + 1
    | "oracle" :: "reimport" :: _ =>
      steps := steps + 1
      match parseState o with
      | some post =>
        for f in Spec.C12Oracle.checkReimport pre (o.head?.getD "") (arg o "same") post do
          out.putStrLn (Spec.C12Oracle.failLine f (i+1)); fails := fails + 1
        pre := post; preObs := stateToks
      | none => out.putStrLn s!"mon C12 FAIL clause=obs-parse line={i+1}"; fails := fails + 1
    | _ =>
      match parseState o with
      | some post => pre := post; preObs := stateToks
      | none => out.putStrLn s!"mon C12 FAIL clause=obs-parse line={i+1}"; fails := fails + 1
  out.putStrLn s!"mon C12 done steps={steps} fails={fails}"

def readLines (p : String) : IO (Array String) := do
  let c ← IO.FS.readFile p
  return (c.splitOn "\n").toArray.filter (· ≠ "")

def main (args : List String) : IO UInt32 := do
  match args with
  | ["model", ops] => runModel (← readLines ops); return 0
  | ["monitor", "C17", ops, obs] => runMonitor (← readLines ops) (← readLines obs); return 0
  | ["monitor", "C12", ops, obs] => runMonitorC12 (← readLines ops) (← readLines obs); return 0
  | _ => IO.eprintln "usage: model <ops> | monitor C17|C12 <ops> <obs>"; return 2

end Driver.Oracle

def main (args : List String) : IO UInt32 := Driver.Oracle.main args
