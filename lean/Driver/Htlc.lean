/-
Line-protocol driver for the HTLC model and the C03 / C04 monitors.
  model   <ops>              : prints one observation line per op line
  monitor <C03|C04|C13> <ops> <obs> : evaluates the Spec on the implementation's observation stream
                               (C13 = the HTLC slice: begin block completes, due contracts handled exactly once, queue hygiene)
`htlc export` / `htlc reimport` lines (genesis round trip, C12; a restart point for the C03 / C04 / C13 monitors) are answered by `Irismod.HtlcGen`
(Model/HtlcGenesis.lean); `monitor C12` judges them (Spec/C12_Htlc.lean).
-/
import Irismod.Spec.C03
import Irismod.Spec.C04
import Irismod.Spec.C12_Htlc

namespace Driver.Htlc
open Irismod Irismod.Sdk Irismod.Htlc Irismod.Line

def knownAddr (a : String) : Bool :=
  a == "M" || a == "F" || a == "G" ||
    (a.startsWith "A" && a.length ≥ 2 && ((a.drop 1).toString.toNat?).isSome)

def dash (s : String) : String := if s = "-" then "" else s
def undash (s : String) : String := if s = "" then "-" else s

def bool? (s : String) : Option Bool := if s = "1" then some true else if s = "0" then some false else none
def showBool (b : Bool) : String := if b then "1" else "0"

def alnumLower (s : String) : Bool := s.length > 0 && s.toList.all isLowerAlnum

/-- `denom*amt;denom*amt`, `-` = empty -/
def parseCoins (s : String) : Option Coins :=
  if s = "-" then some [] else
  (s.splitOn ";").mapM fun e =>
    match e.splitOn "*" with
    | [d, n] => do
      let v ← n.toNat?
      if alnumLower d then some (d, v) else none
    | _ => none

def showCoins (cs : Coins) : String :=
  if cs.isEmpty then "-" else joinWith ";" (cs.map fun c => s!"{c.1}*{c.2}")

def parseAsset (e : String) : Option Asset :=
  match e.splitOn ":" with
  | [denom, limit, tl, period, tbl, active, deputy, fee, mn, mx, minLock, maxLock] => do
    let limit ← limit.toNat?
    let tl ← bool? tl
    let period ← period.toInt?
    let tbl ← tbl.toNat?
    let active ← bool? active
    let fee ← fee.toNat?
    let mn ← mn.toNat?
    let mx ← mx.toNat?
    let minLock ← minLock.toNat?
    let maxLock ← maxLock.toNat?
    if !(alnumLower denom && knownAddr deputy) then none else
    some { denom := denom, limit := limit, timeLimited := tl, period := period, tbLimit := tbl,
           active := active, deputy := deputy, fixedFee := fee, minSwap := mn, maxSwap := mx,
           minLock := minLock, maxLock := maxLock }
  | _ => none

def parseAssets (s : String) : Option (List Asset) :=
  if s = "-" then some [] else (s.splitOn ",").mapM parseAsset

def showAsset (a : Asset) : String :=
  s!"{a.denom}:{a.limit}:{showBool a.timeLimited}:{a.period}:{a.tbLimit}:{showBool a.active}:{a.deputy}:{a.fixedFee}:{a.minSwap}:{a.maxSwap}:{a.minLock}:{a.maxLock}"

def showAssets (ps : List Asset) : String := if ps.isEmpty then "-" else joinWith "," (ps.map showAsset)

def lowerHex (s : String) : Bool := s.toList.all fun c => ('0' ≤ c && c ≤ '9') || ('a' ≤ c && c ≤ 'z')

/-- parse an op line; `none` = malformed (never defaulted) -/
def parseOp (t : List String) : Option Op :=
  match t with
  | "htlc" :: "create" :: r => do
    let coins ← parseCoins (← arg? r "coins")
    let ts ← natArg? r "ts"
    let tl ← natArg? r "tl"
    let tr ← bool? (← arg? r "transfer")
    let sender ← arg? r "sender"
    -- `X^` is the upper-case bech32 spelling of `X`: the same address
    let to0 ← arg? r "to"
    let to := if to0.endsWith "^" then (to0.dropRight 1) else to0
    let lock ← arg? r "lock"
    if !(knownAddr sender && knownAddr to && lowerHex lock) then none else
    some (.create sender to coins (dash lock) ts tl tr)
  | "htlc" :: "claim" :: r => do
    let sender ← arg? r "sender"
    let id ← arg? r "id"
    let secret ← arg? r "secret"
    if !(knownAddr sender && lowerHex id && lowerHex secret) then none else
    some (.claim sender (dash id) (dash secret))
  | "htlc" :: "begin_block" :: r => do
    some (.beginBlock (← natArg? r "h") (← natArg? r "t"))
  | "htlc" :: "advance" :: r => do
    some (.advance (← natArg? r "n") (← natArg? r "dt"))
  | "htlc" :: "set_params" :: r => do
    let a ← arg? r "authority"
    let ps ← parseAssets (← arg? r "params")
    if !knownAddr a then none else some (.setParams a ps)
  | _ => none

def showHState : HState → String
  | .open => "o" | .completed => "c" | .refunded => "r"
def parseHState : String → Option HState
  | "o" => some .open | "c" => some .completed | "r" => some .refunded | _ => none
def showDir : Dir → String
  | .none => "n" | .incoming => "i" | .outgoing => "o"
def parseDir : String → Option Dir
  | "n" => some .none | "i" => some .incoming | "o" => some .outgoing | _ => none

def htltDenom (d : String) : Bool := d.startsWith "htlt"

/-- canonical state line (sorted entries) -/
def showState (s : State) : String :=
  let hs := sortStrings (s.htlcs.map fun (id, c) =>
    s!"{id}:{c.sender}:{c.to}:{showCoins c.amount}:{c.hashLock}:{undash c.secret}:{c.timestamp}:{c.expiration}:{showHState c.state}:{c.closedBlock}:{showBool c.transfer}:{showDir c.direction}")
  let qs := sortStrings (s.queue.map fun (h, id) => s!"{h}/{id}")
  let ss := sortStrings (s.supplies.map fun (d, p) =>
    s!"{d}:{p.incoming}:{p.outgoing}:{p.current}:{p.tlCurrent}:{p.elapsed}")
  let bs := sortStrings ((s.bank.bal.filter (fun e => e.2 != 0)).map fun ((a, d), v) => s!"{a}/{d}:{v}")
  let us := sortStrings ((s.bank.supply.filter (fun e => e.2 != 0 && htltDenom e.1)).map fun (d, v) => s!"{d}:{v}")
  let prev := match s.prevTime with | some p => toString p | none => "-"
  s!"h={s.height} t={s.time} prev={prev} params={showAssets s.params} htlcs={undash (joinWith "," hs)} queue={undash (joinWith "," qs)} sup={undash (joinWith "," ss)} bals={undash (joinWith "," bs)} bsup={undash (joinWith "," us)}"

def listOfD (s : String) : List String := if s = "-" || s = "" then [] else s.splitOn ","

def parseState (t : List String) : Option State := do
  let h ← natArg? t "h"
  let tm ← natArg? t "t"
  let prevS ← arg? t "prev"
  let prev ← if prevS = "-" then some none else (prevS.toNat?).map some
  let ps ← parseAssets (← arg? t "params")
  let mut s : State := { height := h, time := tm, prevTime := prev, params := ps }
  for e in listOfD (← arg? t "htlcs") do
    match e.splitOn ":" with
    | [id, sender, to, coins, lock, secret, ts, exp, st, closed, tr, dir] =>
      let c : Contract := {
        sender := sender, to := to, amount := (← parseCoins coins), hashLock := lock, secret := dash secret,
        timestamp := (← ts.toNat?), expiration := (← exp.toNat?), state := (← parseHState st),
        closedBlock := (← closed.toNat?), transfer := (← bool? tr), direction := (← parseDir dir) }
      s := { s with htlcs := s.htlcs ++ [(id, c)] }
    | _ => none
  for e in listOfD (← arg? t "queue") do
    match e.splitOn "/" with
    | [hh, id] => s := { s with queue := s.queue ++ [((← hh.toNat?), id)] }
    | _ => none
  for e in listOfD (← arg? t "sup") do
    match e.splitOn ":" with
    | [d, i, o, c, tl, el] =>
      let i ← i.toNat?
      let o ← o.toNat?
      let c ← c.toNat?
      let tl ← tl.toNat?
      let el ← el.toInt?
      let sup : Supply := { incoming := i, outgoing := o, current := c, tlCurrent := tl, elapsed := el }
      s := { s with supplies := s.supplies ++ [(d, sup)] }
    | _ => none
  for e in listOfD (← arg? t "bals") do
    match e.splitOn ":" with
    | [key, v] =>
      match key.splitOn "/" with
      | [a, d] => s := { s with bank := { s.bank with bal := s.bank.bal ++ [((a, d), (← v.toNat?))] } }
      | _ => none
    | _ => none
  for e in listOfD (← arg? t "bsup") do
    match e.splitOn ":" with
    | [d, v] => s := { s with bank := { s.bank with supply := s.bank.supply ++ [(d, (← v.toNat?))] } }
    | _ => none
  return s

/-- `htlc reset h= t= params= bals=`: the initial state of a history -/
def parseReset (t : List String) : Option State := do
  let h ← natArg? t "h"
  let tm ← natArg? t "t"
  let ps ← parseAssets (← arg? t "params")
  let mut b : Bank := {}
  for e in listOfD (← arg? t "bals") do
    match e.splitOn ":" with
    | [key, v] =>
      match key.splitOn "/" with
      | [a, d] =>
        let n ← v.toNat?
        if !(knownAddr a && alnumLower d) then none
        b := { Bank.setBal b a d (Bank.balOf b a d + n) with
               supply := AMap.set b.supply d (Bank.supplyOf b d + n) }
      | _ => none
    | _ => none
  -- the harness stores the params through the keeper (invalid params: stored nothing) and the
  -- previous block time
  return { height := h, time := tm, prevTime := some tm, params := if paramsValid ps then ps else [], bank := b }

def resWord : Except Err State → String
  | .ok _ => "ok"
  | .error (.reject _) => "rej"
  | .error (.panic _) => "panic"

/-- `DefaultPreviousBlockTime` (a process-start `time.Now()`) is exported only when the store has
no previous block time; every history starts with one (reset line), so the value is never shown -/
def defaultPrev : Nat := 0

/-- the exported genesis document, contracts and supplies as sorted sets -/
def showGenesis (g : HtlcGen.Genesis) : String :=
  let hs := sortStrings (g.htlcs.map fun (id, c) =>
    s!"{id}:{c.sender}:{c.to}:{showCoins c.amount}:{c.hashLock}:{undash c.secret}:{c.timestamp}:{c.expiration}:{showHState c.state}:{c.closedBlock}:{showBool c.transfer}:{showDir c.direction}")
  let ss := sortStrings (g.supplies.map fun (d, p) =>
    s!"{d}:{p.incoming}:{p.outgoing}:{p.current}:{p.tlCurrent}:{p.elapsed}")
  s!"gprev={g.prevTime} gparams={showAssets g.params} ghtlcs={undash (joinWith "," hs)} gsup={undash (joinWith "," ss)}"

/-- the part of the observation a round trip must preserve (what the harness compares for `same=`) -/
def viewString (s : State) : String :=
  let v := Spec.C12Htlc.openView s
  showState { v with height := 0, time := 0 }

def modelLine (s : State) (line : String) : State × String :=
  let t := tokens line
  match t with
  | "htlc" :: "reset" :: r =>
    match parseReset r with
    | some s0 => (s0, "ok " ++ showState s0)
    | none => (s, "bad-op")
  | "htlc" :: "ghost" :: _ =>
    -- an execution on a context that is thrown away: the state is what it was
    (s, "ghost " ++ showState s)
  | ["htlc", "export"] =>
    let g := HtlcGen.exportGenesis defaultPrev s
    (s, s!"ok validate={if HtlcGen.validateGenesis g then "ok" else "err"} {showGenesis g} {showState s}")
  | ["htlc", "reimport"] =>
    match HtlcGen.importGenesis s (HtlcGen.exportGenesis defaultPrev s) with
    | .ok s' => (s', s!"ok same={if viewString s' == viewString s then 1 else 0} {showState s'}")
    | .error _ => (s, s!"panic same=1 {showState s}")
  | _ =>
    match parseOp t with
    | none => (s, "bad-op")
    | some op =>
      let r := step s op
      let s' := match r with | .ok s' => s' | .error _ => s
      (s', resWord r ++ " " ++ showState s')

def runModel (ops : Array String) : IO Unit := do
  let mut s : State := {}
  let out ← IO.getStdout
  for l in ops do
    let (s', o) := modelLine s l
    s := s'
    out.putStrLn o

/-- monitor: pre-state is the previous *implementation* observation; every clause is evaluated by
`Spec.C03.stepFails` / `Spec.C03.stepFails13` / `Spec.C04.stepFails` (proved to return `[]` on
every model step: Proofs/HtlcMonitor.lean) -/
def runMonitor (prop : String) (ops obs : Array String) : IO Unit := do
  let out ← IO.getStdout
  if ops.size ≠ obs.size then
    out.putStrLn s!"mon {prop} FAIL clause=stream-length ops={ops.size} obs={obs.size}"
    return
  let mut pre : State := {}
  let mut s0 : State := {}
  let mut consecutive := true
  let mut restarted := false
  let mut fails := 0
  let mut steps := 0
  for i in [0:ops.size] do
    let t := tokens ops[i]!
    let o := tokens obs[i]!
    let fail := fun (clause : String) => out.putStrLn s!"mon {prop} FAIL clause={clause} line={i+1}"
    match t with
    | "htlc" :: "reset" :: _ =>
      match parseState o with
      | some s =>
        pre := s; s0 := s; consecutive := true; restarted := false
        let fs := if prop == "C04" then Spec.C04.resetFails s else Spec.C03.resetFails s
        for c in fs do
          fail c; fails := fails + 1
      | none => fail "obs-parse"; fails := fails + 1
    | "htlc" :: "ghost" :: _ =>
      match parseState o with
      | some s =>
        if showState s != showState pre then
          fail "ghost-visible"; fails := fails + 1
        pre := s
      | none => fail "obs-parse"; fails := fails + 1
    | ["htlc", "export"] =>
      -- a genesis export reads the state; the next line's pre-state is whatever the implementation shows now
      match parseState o with
      | some s => pre := s
      | none => fail "obs-parse"; fails := fails + 1
    | ["htlc", "reimport"] =>
      -- restart from the module's own exported genesis: the re-imported state is a fresh starting point and has to
      -- satisfy what a reset state satisfies (Props/C12_HtlcRestart: it does, in the model); the history continues
      -- from it.  A rejected import leaves the state as it was (classified by `monitor C12`).
      match parseState o with
      | some s =>
        if o.head? == some "ok" then
          pre := s; s0 := s; consecutive := true; restarted := true
          let fs := if prop == "C04" then Spec.C04.restartFails s else Spec.C03.resetFails s
          for c in fs do
            fail ("reimport-" ++ c); fails := fails + 1
        else pre := s
      | none => fail "obs-parse"; fails := fails + 1
    | _ =>
      match parseOp t, parseState o with
      | some op, some post =>
        steps := steps + 1
        let accepted := o.head? == some "ok"
        let panicked := o.head? == some "panic"
        consecutive := consecutive && Spec.C03.chainOpB pre op
        let fs :=
          if prop == "C13" then Spec.C03.stepFails13 consecutive pre op accepted panicked post
          else if prop == "C03" then Spec.C03.stepFails consecutive pre op accepted panicked post
          else if restarted then Spec.C04.stepFailsAfterRestart s0 pre op accepted panicked post
          else Spec.C04.stepFails s0 pre op accepted panicked post
        for c in fs do
          fail c; fails := fails + 1
        pre := post
      | _, _ => fail "parse"; fails := fails + 1
  out.putStrLn s!"mon {prop} done steps={steps} fails={fails}"

/-- C12 (htlc slice): judges the `export` / `reimport` lines of the implementation's stream; the
pre-state of a line is the previous observation of the implementation -/
def runMonitorC12 (ops obs : Array String) : IO Unit := do
  let out ← IO.getStdout
  if ops.size ≠ obs.size then
    out.putStrLn s!"mon C12 FAIL clause=stream-length ops={ops.size} obs={obs.size}"
    return
  let mut pre : State := {}
  let mut fails := 0
  let mut steps := 0
  for i in [0:ops.size] do
    let t := tokens ops[i]!
    let o := tokens obs[i]!
    match parseState o with
    | none => out.putStrLn s!"mon C12 FAIL clause=obs-parse line={i+1}"; fails := fails + 1
    | some post =>
      match t with
      | ["htlc", "export"] =>
        steps := steps + 1
        let doc := s!"gprev={arg o "gprev"} gparams={arg o "gparams"} ghtlcs={arg o "ghtlcs"} gsup={arg o "gsup"}"
        let docOk := doc == showGenesis (HtlcGen.exportGenesis ((natArg? o "gprev").getD 0) post)
        for f in Spec.C12Htlc.checkExport (o.head?.getD "") (arg o "validate") docOk pre post do
          out.putStrLn s!"mon C12 FAIL {f} line={i+1}"; fails := fails + 1
      | ["htlc", "reimport"] =>
        steps := steps + 1
        for f in Spec.C12Htlc.checkReimport pre (o.head?.getD "") (arg o "same") post do
          out.putStrLn s!"mon C12 FAIL {f} line={i+1}"; fails := fails + 1
      | _ => pure ()
      pre := post
  out.putStrLn s!"mon C12 done steps={steps} fails={fails}"

def readLines (p : String) : IO (Array String) := do
  let c ← IO.FS.readFile p
  return (c.splitOn "\n").toArray.filter (· ≠ "")

def main (args : List String) : IO UInt32 := do
  match args with
  | ["model", ops] => runModel (← readLines ops); return 0
  | ["monitor", "C03", ops, obs] => runMonitor "C03" (← readLines ops) (← readLines obs); return 0
  | ["monitor", "C04", ops, obs] => runMonitor "C04" (← readLines ops) (← readLines obs); return 0
  | ["monitor", "C13", ops, obs] => runMonitor "C13" (← readLines ops) (← readLines obs); return 0
  | ["monitor", "C12", ops, obs] => runMonitorC12 (← readLines ops) (← readLines obs); return 0
  | _ => IO.eprintln "usage: model <ops> | monitor <C03|C04|C12|C13> <ops> <obs>"; return 2

end Driver.Htlc

def main (args : List String) : IO UInt32 := Driver.Htlc.main args
