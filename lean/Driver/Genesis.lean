/-
Driver for C12 (generic genesis round trip). The prediction for every reachable state is
"export validates, imports, is a fixpoint, the query projection is preserved, and (as-is
exports) the original and the re-imported state stay equal while both are driven through the
blocks in which their pending time-driven items fall due"; the
per-module theorems live in Props/C12*.lean. The monitor attributes a failing round trip to a
recorded finding only by its exact symptom (module + failing clause + message), so any other
failure of the same module is still a violation.
-/
import Irismod.Sdk.Line
import Driver.HtlcDoc

open Irismod.Line

def genesisModel (line : String) : String :=
  match tokens line with
  | "genesis" :: "roundtrip" :: _ => "ok export=ok validate=ok import=ok fixpoint=true queries_same=true continuation=true"
  | _ => "bad-op"

/-- recorded findings: (module, clause, substring of the observation) ↦ key -/
def knownClasses : List (String × String × String × String) := [
  ("htlc", "validate", "timestamp", "F-gen-1"),
  ("htlc", "import", "timestamp", "F-gen-1"),
  ("htlc", "import", "asset_not_found", "F-gen-5"),
  ("htlc", "import", "asset_is_currently_inactive", "F-gen-5"),
  ("htlc", "import", "over_the_supply_limit", "F-gen-5"),
  ("oracle", "fixpoint", "vals=", "F-gen-2"),
  ("oracle", "queries_same", "vals=", "F-gen-2"),
  ("random", "validate", "ParseUint", "F-rnd-2"),
  ("random", "import", "ParseUint", "F-rnd-2"),
  ("token", "validate", "invalid_token_max_supply", "F-gen-9"),
  ("token", "import", "invalid_token_max_supply", "F-gen-9"),
  ("token", "import", "does_not_exist", "F-gen-10"),
  ("record", "fixpoint", "recs=", "F-gen-3"),
  ("record", "queries_same", "recs=", "F-gen-3"),
  -- same finding, first visible difference = the intra-tx counter (not exported; ids are re-derived from 0,1,2,…)
  ("record", "fixpoint", "ctr=", "F-gen-3"),
  ("record", "queries_same", "ctr=", "F-gen-3")]

/-- F-gen-5 (htlc import refused after a parameter update made the parameters inconsistent with the
state) is attributed only when the Lean model's `InitGenesis` (Model/HtlcGenesis.lean) panics on the
SAME exported document, which the harness prints next to the failed import: a panic of the real
`InitGenesis` that the model does not predict is unclassified, whatever its message says. -/
def modelConfirms (module key obs : String) : Bool :=
  if module = "htlc" && key = "F-gen-5" then
    match Driver.HtlcDoc.parseDoc (tokens obs) with
    | some g => Driver.HtlcDoc.modelRefuses g
    | none => false
  else true

def classify (module clause obs : String) : String :=
  match knownClasses.find? (fun (m, c, sub, _) => m = module && c = clause && (sub = "" || (obs.splitOn sub).length > 1)) with
  | some (_, _, _, k) => if modelConfirms module k obs then " class=" ++ k else ""
  | none => ""

def readLines (p : String) : IO (Array String) := do
  let c ← IO.FS.readFile p
  return (c.splitOn "\n").toArray.filter (· ≠ "")

def main (args : List String) : IO UInt32 := do
  let out ← IO.getStdout
  match args with
  | ["model", ops] =>
    for l in (← readLines ops) do out.putStrLn (genesisModel l)
    return 0
  | ["monitor", "C12", ops, obs] =>
    let o ← readLines ops
    let b ← readLines obs
    let mut fails := 0
    for i in [0:b.size] do
      let t := tokens b[i]!
      let module := arg (tokens (o[i]?.getD "")) "module"
      -- a failed stage leaves the later keys absent: only the first failing clause is reported
      let clauses := [("export", "ok"), ("validate", "ok"), ("import", "ok"), ("fixpoint", "true"), ("queries_same", "true"), ("continuation", "true")]
      match clauses.find? (fun (c, want) => arg t c ≠ want) with
      | some (c, _) =>
        out.putStrLn s!"mon C12 FAIL clause={c} line={i+1} module={module} got={arg t c}{classify module c b[i]!}"
        fails := fails + 1
      | none => pure ()
    out.putStrLn s!"mon C12 done steps={b.size} fails={fails}"
    return 0
  | _ => IO.eprintln "usage: model <ops> | monitor C12 <ops> <obs>"; return 2
