/-
Conformance driver for the SDK substrate (`Irismod.Sdk.Dec18`, `Irismod.Sha256`): one result
line per operation line; the Go side (`harness/cmd/h_sdk`) prints what cosmossdk.io/math and
crypto/sha256 return for the same operands.
-/
import Irismod.Sdk.Dec18
import Irismod.Sdk.Sha256
import Irismod.Sdk.Line

open Irismod Irismod.Sdk Irismod.Line

def showO (o : Option Int) : String := match o with | some v => toString v | none => "panic"
def showD (o : Option Dec) : String := match o with | some v => toString v.raw | none => "panic"

def evalLine (line : String) : String :=
  match tokens line with
  | ["sdk", op, a, b] =>
    match a.toInt?, b.toInt? with
    | some x, some y =>
      match op with
      | "dadd" => showD (Dec.add ⟨x⟩ ⟨y⟩)
      | "dsub" => showD (Dec.sub ⟨x⟩ ⟨y⟩)
      | "dmul" => showD (Dec.mul ⟨x⟩ ⟨y⟩)
      | "dmultrunc" => showD (Dec.mulTruncate ⟨x⟩ ⟨y⟩)
      | "dmulroundup" => showD (Dec.mulRoundUp ⟨x⟩ ⟨y⟩)
      | "dmulint" => showD (Dec.mulInt ⟨x⟩ y)
      | "dquo" => showD (Dec.quo ⟨x⟩ ⟨y⟩)
      | "dquotrunc" => showD (Dec.quoTruncate ⟨x⟩ ⟨y⟩)
      | "dquoroundup" => showD (Dec.quoRoundUp ⟨x⟩ ⟨y⟩)
      | "dquoint" => showD (Dec.quoInt ⟨x⟩ y)
      | "dtruncint" => showO (Dec.truncateInt ⟨x⟩)
      | "droundint" => showO (Dec.roundInt ⟨x⟩)
      | "dstr" => Dec.toStr ⟨x⟩
      | "iadd" => showO (I256.add x y)
      | "isub" => showO (I256.sub x y)
      | "imul" => showO (I256.mul x y)
      | "iquo" => showO (I256.quo x y)
      | _ => "bad-op"
    | _, _ => "bad-op"
  | ["sdk", "sha256", h] =>
    match bytesOfHex (if h = "-" then "" else h) with
    | some b => hexOfBytes (Sha256.sum b)
    | none => "bad-op"
  | _ => "bad-op"

def main (args : List String) : IO UInt32 := do
  match args with
  | ["model", ops] =>
    let c ← IO.FS.readFile ops
    let out ← IO.getStdout
    for l in c.splitOn "\n" do
      if l ≠ "" then out.putStrLn (evalLine l)
    return 0
  | ["monitor", _, _, _] => IO.println "mon SDK done steps=0 fails=0"; return 0
  | _ => IO.eprintln "usage: model <ops>"; return 2
