/-
Line-protocol driver for the parameter model and the C16 monitor.
  model   <ops>            : prints one observation line per op line
  monitor C16 <ops> <obs>  : evaluates Spec.C16 on the implementation's observation stream
-/
import Irismod.Spec.C16
import Irismod.Sdk.Line

namespace Driver.Params
open Irismod Irismod.Sdk Irismod.Params Irismod.Line

def dash (s : String) : String := if s = "-" then "" else s
def undash (s : String) : String := if s = "" then "-" else s

def parseODec (s : String) : Option (Option Dec) :=
  if s = "nil" then some none else s.toInt?.map fun i => some ⟨i⟩
def showODec : Option Dec → String
  | none => "nil"
  | some d => toString d.raw

def parseOInt (s : String) : Option (Option Int) :=
  if s = "nil" then some none else s.toInt?.map some
def showOInt : Option Int → String
  | none => "nil"
  | some i => toString i

def parseCoin (s : String) : Option Coin :=
  match s.splitOn ":" with
  | [d, a] => (parseOInt a).map fun x => ⟨dash d, x⟩
  | _ => none
def showCoin (c : Coin) : String := undash c.denom ++ ":" ++ showOInt c.amount

def parseCoins (s : String) : Option (List Coin) :=
  if s = "-" || s = "" then some [] else (s.splitOn "+").mapM parseCoin
def showCoins (cs : List Coin) : String :=
  if cs.isEmpty then "-" else "+".intercalate (cs.map showCoin)

def parseBool (s : String) : Option Bool :=
  if s = "1" then some true else if s = "0" then some false else none
def showBool (b : Bool) : String := if b then "1" else "0"

def parseAsset (e : String) : Option AssetParam :=
  match e.splitOn "," with
  | [denom, limit, tl, period, tbl, active, deputy, fee, mn, mx, minL, maxL] => do
    let limit ← parseOInt limit
    let tl ← parseBool tl
    let period ← period.toInt?
    let tbl ← parseOInt tbl
    let active ← parseBool active
    let fee ← parseOInt fee
    let mn ← parseOInt mn
    let mx ← parseOInt mx
    let minL ← minL.toNat?
    let maxL ← maxL.toNat?
    some {
      denom := dash denom, supplyLimit := ⟨limit, tl, period, tbl⟩, active := active, deputy := deputy,
      fixedFee := fee, minSwapAmount := mn, maxSwapAmount := mx, minBlockLock := minL, maxBlockLock := maxL }
  | _ => none

def showAsset (a : AssetParam) : String :=
  ",".intercalate [undash a.denom, showOInt a.supplyLimit.limit, showBool a.supplyLimit.timeLimited,
    toString a.supplyLimit.timePeriod, showOInt a.supplyLimit.timeBasedLimit, showBool a.active, a.deputy,
    showOInt a.fixedFee, showOInt a.minSwapAmount, showOInt a.maxSwapAmount, toString a.minBlockLock, toString a.maxBlockLock]

/-- the parameter fields of an op line (or of a `stored=` value split on `|`) -/
def parseFields (mod : String) (t : List String) : Option AnyParams :=
  match mod with
  | "coinswap" => do
    let fee ← parseODec (arg t "fee")
    let tax ← parseODec (arg t "tax")
    let uni ← parseODec (arg t "uni")
    let pcf ← parseCoin (arg t "pcf")
    some (.coinswap { fee := fee, taxRate := tax, poolCreationFee := pcf, unilateralLiquidityFee := uni })
  | "farm" => do
    let pcf ← parseCoin (arg t "pcf")
    let tax ← parseODec (arg t "tax")
    let mc ← (arg t "maxcat").toNat?
    some (.farm { poolCreationFee := pcf, taxRate := tax, maxRewardCategories := mc })
  | "htlc" =>
    let a := arg t "assets"
    if a = "-" then some (.htlc [])
    else if a = "" then none
    else ((a.splitOn ";").mapM parseAsset).map .htlc
  | "service" => do
    let mrt ← (arg t "mrt").toInt?
    let mdm ← (arg t "mdm").toInt?
    let md ← parseCoins (arg t "mindep")
    let tax ← parseODec (arg t "tax")
    let slash ← parseODec (arg t "slash")
    let cr ← (arg t "cr").toInt?
    let atl ← (arg t "atl").toInt?
    let txs ← (arg t "txsize").toNat?
    let restr ← parseBool (arg t "restricted")
    if arg t "base" = "" then none else
    some (.service {
      maxRequestTimeout := mrt, minDepositMultiple := mdm, minDeposit := md, serviceFeeTax := tax,
      slashFraction := slash, complaintRetrospect := cr, arbitrationTimeLimit := atl, txSizeLimit := txs,
      baseDenom := dash (arg t "base"), restrictedServiceFeeDenom := restr })
  | "token" => do
    let tax ← parseODec (arg t "tax")
    let fee ← parseCoin (arg t "fee")
    let ratio ← parseODec (arg t "ratio")
    let erc ← parseBool (arg t "erc20")
    if arg t "beacon" = "" then none else
    some (.token {
      tokenTaxRate := tax, issueTokenBaseFee := fee, mintTokenFeeRatio := ratio, enableErc20 := erc,
      beacon := dash (arg t "beacon") })
  | _ => none

def showFields : AnyParams → List String
  | .coinswap p => [s!"fee={showODec p.fee}", s!"tax={showODec p.taxRate}", s!"uni={showODec p.unilateralLiquidityFee}",
      s!"pcf={showCoin p.poolCreationFee}"]
  | .farm p => [s!"pcf={showCoin p.poolCreationFee}", s!"tax={showODec p.taxRate}", s!"maxcat={p.maxRewardCategories}"]
  | .htlc p => [if p.isEmpty then "assets=-" else "assets=" ++ ";".intercalate (p.map showAsset)]
  | .service p => [s!"mrt={p.maxRequestTimeout}", s!"mdm={p.minDepositMultiple}", s!"mindep={showCoins p.minDeposit}",
      s!"tax={showODec p.serviceFeeTax}", s!"slash={showODec p.slashFraction}", s!"cr={p.complaintRetrospect}",
      s!"atl={p.arbitrationTimeLimit}", s!"txsize={p.txSizeLimit}", s!"base={undash p.baseDenom}",
      s!"restricted={showBool p.restrictedServiceFeeDenom}"]
  | .token p => [s!"tax={showODec p.tokenTaxRate}", s!"fee={showCoin p.issueTokenBaseFee}", s!"ratio={showODec p.mintTokenFeeRatio}",
      s!"erc20={showBool p.enableErc20}", s!"beacon={undash p.beacon}"]

def showStored (p : AnyParams) : String := "|".intercalate (showFields p)

open Irismod.Spec.C16 (Mod MonOp MonObs getMod setMod allMods verdict resWord modelObs modelNext stepFails track)

def modName : Mod → String
  | .coinswap => "coinswap" | .farm => "farm" | .htlc => "htlc" | .service => "service" | .token => "token"

def parseMod (s : String) : Option Mod :=
  allMods.find? fun m => modName m == s

def showAll (s : Store) : String :=
  " ".intercalate (allMods.map fun m => modName m ++ "{" ++ showStored (getMod s m) ++ "}")

/-- an op line as a monitor operation (and its module, needed to read the observation) -/
def parseOp (t : List String) : Option (MonOp × Option Mod) :=
  match t with
  | ["params", "reset"] => some (.reset, none)
  | "params" :: op :: r =>
    match parseMod (arg r "module") with
    | none => none
    | some m =>
      match op with
      | "validate" => (parseFields (modName m) r).map fun p => (.validate p, some m)
      | "update" =>
        match parseFields (modName m) r, arg? r "sender" with
        | some p, some sender =>
          if arg r "direct" = "1" then some (.updateDirect sender p, some m) else some (.update sender p, some m)
        | _, _ => none
      | "genesis" => (parseFields (modName m) r).map fun p => (.genesis p, some m)
      | "battery" => some (.battery m, some m)
      | _ => none
  | _ => none

def showObs : MonObs → String
  | .reset s => "ok " ++ showAll s
  | .validate v => v
  | .update cls post sv => s!"{cls} stored={showStored post} sv={sv}"
  | .genesis vg ig pv post => s!"vg={vg} ig={ig} pv={pv} stored={showStored post}"
  | .battery ps dflt => (if ps.isEmpty then "nopanic" else "panic:" ++ ",".intercalate ps) ++ " dflt=" ++ dflt

/-- `params ghost_update …`: the same line as an `update`, executed on a context that is thrown away. The stored
set and its verdict are what they were: they are read off the observation of an update that cannot be accepted
(a sender that is not the authority), which shows exactly that. -/
def ghostOf (t : List String) : Option (MonOp × Option Mod) :=
  match t with
  | "params" :: "ghost_update" :: r =>
    match parseOp ("params" :: "update" :: r) with
    | some (.update _ p, m) => some (.update "ghost-nobody" p, m)
    | some (.updateDirect _ p, m) => some (.updateDirect "ghost-nobody" p, m)
    | _ => none
  | _ => none

def ghostLine (s : Store) (op : MonOp) : String :=
  match modelObs s op with
  | .update _ post sv => s!"ghost stored={showStored post} sv={sv}"
  | _ => "bad-op"

def modelLine (s : Store) (line : String) : Store × String :=
  match ghostOf (tokens line) with
  | some (op, _) => (s, ghostLine s op)
  | none =>
  match parseOp (tokens line) with
  | none => (s, "bad-op")
  | some (op, _) => (modelNext s op, showObs (modelObs s op))

def runModel (ops : Array String) : IO Unit := do
  let mut s : Store := {}
  let out ← IO.getStdout
  for l in ops do
    let (s', o) := modelLine s l
    s := s'
    out.putStrLn o

/-- `coinswap{k=v|k=v}` tokens of a reset observation -/
def parseAll (o : List String) : Option Store := do
  let mut s : Store := {}
  for m in allMods do
    let tok ← o.find? (fun x => x.startsWith (modName m ++ "{"))
    let body := String.ofList ((tok.toList.drop ((modName m).length + 1)).dropLast)
    let p ← parseFields (modName m) (body.splitOn "|")
    s := setMod s p
  return s

def storedOf (m : Mod) (o : List String) : Option AnyParams :=
  (arg? o "stored").bind fun v => parseFields (modName m) (v.splitOn "|")

/-- an observation line of the kind the operation expects -/
def parseObs (op : MonOp) (m : Option Mod) (o : List String) : Option MonObs :=
  match op, m with
  | .reset, _ => (parseAll o).map .reset
  | .validate _, _ => o.head?.map .validate
  | .update _ _, some m | .updateDirect _ _, some m =>
    match o.head?, storedOf m o, arg? o "sv" with
    | some cls, some post, some sv => some (.update cls post sv)
    | _, _, _ => none
  | .genesis _, some m =>
    match arg? o "vg", arg? o "ig", arg? o "pv", storedOf m o with
    | some vg, some ig, some pv, some post => some (.genesis vg ig pv post)
    | _, _, _, _ => none
  | .battery _, _ =>
    match o.head?, arg? o "dflt" with
    | some w, some dflt =>
      if w = "nopanic" then some (.battery [] dflt)
      else if w.startsWith "panic:" && w.length > 6 then
        some (.battery ((String.ofList (w.toList.drop 6)).splitOn ",") dflt)
      else none
    | _, _ => none
  | _, none => none

/-- monitor: every clause is `Spec.C16.stepFails`; the stored sets are tracked from the
    *implementation's* observations with `Spec.C16.track` -/
def runMonitor (ops obs : Array String) : IO Unit := do
  let out ← IO.getStdout
  if ops.size ≠ obs.size then
    out.putStrLn s!"mon C16 FAIL clause=stream-length ops={ops.size} obs={obs.size}"
    return
  let mut st : Store := {}
  let mut fails := 0
  let mut steps := 0
  for i in [0:ops.size] do
    match ghostOf (tokens ops[i]!) with
    | some (op, _) =>
      -- a discarded update: the set the module uses is the one the monitor has tracked so far
      if "ghost " ++ ((ghostLine st op).drop 6).toString != obs[i]! then
        out.putStrLn s!"mon C16 FAIL clause=ghost-update-visible line={i+1}"; fails := fails + 1
    | none =>
    match parseOp (tokens ops[i]!) with
    | none => out.putStrLn s!"mon C16 FAIL clause=parse line={i+1}"; fails := fails + 1
    | some (op, m) =>
      match op with
      | .reset => pure ()
      | _ => steps := steps + 1
      match parseObs op m (tokens obs[i]!) with
      | none => out.putStrLn s!"mon C16 FAIL clause=obs-parse line={i+1}"; fails := fails + 1
      | some o =>
        for (c, cl) in stepFails st op o do
          let tag := match cl with | some k => s!" class={k}" | none => ""
          out.putStrLn s!"mon C16 FAIL clause={c} line={i+1}{tag}"; fails := fails + 1
        st := track st op o
  out.putStrLn s!"mon C16 done steps={steps} fails={fails}"

def readLines (p : String) : IO (Array String) := do
  let c ← IO.FS.readFile p
  return (c.splitOn "\n").toArray.filter (· ≠ "")

def main (args : List String) : IO UInt32 := do
  match args with
  | ["model", ops] => runModel (← readLines ops); return 0
  | ["monitor", "C16", ops, obs] => runMonitor (← readLines ops) (← readLines obs); return 0
  | _ => IO.eprintln "usage: model <ops> | monitor C16 <ops> <obs>"; return 2

end Driver.Params

def main (args : List String) : IO UInt32 := Driver.Params.main args
