/-
Line-protocol driver for the parameter model and the C16 monitor.
  model   <ops>            : prints one observation line per op line
  monitor C16 <ops> <obs>  : evaluates Spec.C16 on the implementation's observation stream
-/
import Irismod.Spec.C16
import Irismod.Sdk.Line

namespace Driver.Params
open Irismod Irismod.Sdk Irismod.Params Irismod.Line

def dash (s : String) : String := if s = "-" then "" else s
def undash (s : String) : String := if s = "" then "-" else s

def parseODec (s : String) : Option (Option Dec) :=
  if s = "nil" then some none else s.toInt?.map fun i => some ⟨i⟩
def showODec : Option Dec → String
  | none => "nil"
  | some d => toString d.raw

def parseOInt (s : String) : Option (Option Int) :=
  if s = "nil" then some none else s.toInt?.map some
def showOInt : Option Int → String
  | none => "nil"
  | some i => toString i

def parseCoin (s : String) : Option Coin :=
  match s.splitOn ":" with
  | [d, a] => (parseOInt a).map fun x => ⟨dash d, x⟩
  | _ => none
def showCoin (c : Coin) : String := undash c.denom ++ ":" ++ showOInt c.amount

def parseCoins (s : String) : Option (List Coin) :=
  if s = "-" || s = "" then some [] else (s.splitOn "+").mapM parseCoin
def showCoins (cs : List Coin) : String :=
  if cs.isEmpty then "-" else "+".intercalate (cs.map showCoin)

def parseBool (s : String) : Option Bool :=
  if s = "1" then some true else if s = "0" then some false else none
def showBool (b : Bool) : String := if b then "1" else "0"

def parseAsset (e : String) : Option AssetParam :=
  match e.splitOn "," with
  | [denom, limit, tl, period, tbl, active, deputy, fee, mn, mx, minL, maxL] => do
    let limit ← parseOInt limit
    let tl ← parseBool tl
    let period ← period.toInt?
    let tbl ← parseOInt tbl
    let active ← parseBool active
    let fee ← parseOInt fee
    let mn ← parseOInt mn
    let mx ← parseOInt mx
    let minL ← minL.toNat?
    let maxL ← maxL.toNat?
    some {
      denom := dash denom, supplyLimit := ⟨limit, tl, period, tbl⟩, active := active, deputy := deputy,
      fixedFee := fee, minSwapAmount := mn, maxSwapAmount := mx, minBlockLock := minL, maxBlockLock := maxL }
  | _ => none

def showAsset (a : AssetParam) : String :=
  ",".intercalate [undash a.denom, showOInt a.supplyLimit.limit, showBool a.supplyLimit.timeLimited,
    toString a.supplyLimit.timePeriod, showOInt a.supplyLimit.timeBasedLimit, showBool a.active, a.deputy,
    showOInt a.fixedFee, showOInt a.minSwapAmount, showOInt a.maxSwapAmount, toString a.minBlockLock, toString a.maxBlockLock]

/-- the parameter fields of an op line (or of a `stored=` value split on `|`) -/
def parseFields (mod : String) (t : List String) : Option AnyParams :=
  match mod with
  | "coinswap" => do
    let fee ← parseODec (arg t "fee")
    let tax ← parseODec (arg t "tax")
    let uni ← parseODec (arg t "uni")
    let pcf ← parseCoin (arg t "pcf")
    some (.coinswap { fee := fee, taxRate := tax, poolCreationFee := pcf, unilateralLiquidityFee := uni })
  | "farm" => do
    let pcf ← parseCoin (arg t "pcf")
    let tax ← parseODec (arg t "tax")
    let mc ← (arg t "maxcat").toNat?
    some (.farm { poolCreationFee := pcf, taxRate := tax, maxRewardCategories := mc })
  | "htlc" =>
    let a := arg t "assets"
    if a = "-" then some (.htlc [])
    else if a = "" then none
    else ((a.splitOn ";").mapM parseAsset).map .htlc
  | "service" => do
    let mrt ← (arg t "mrt").toInt?
    let mdm ← (arg t "mdm").toInt?
    let md ← parseCoins (arg t "mindep")
    let tax ← parseODec (arg t "tax")
    let slash ← parseODec (arg t "slash")
    let cr ← (arg t "cr").toInt?
    let atl ← (arg t "atl").toInt?
    let txs ← (arg t "txsize").toNat?
    let restr ← parseBool (arg t "restricted")
    if arg t "base" = "" then none else
    some (.service {
      maxRequestTimeout := mrt, minDepositMultiple := mdm, minDeposit := md, serviceFeeTax := tax,
      slashFraction := slash, complaintRetrospect := cr, arbitrationTimeLimit := atl, txSizeLimit := txs,
      baseDenom := dash (arg t "base"), restrictedServiceFeeDenom := restr })
  | "token" => do
    let tax ← parseODec (arg t "tax")
    let fee ← parseCoin (arg t "fee")
    let ratio ← parseODec (arg t "ratio")
    let erc ← parseBool (arg t "erc20")
    if arg t "beacon" = "" then none else
    some (.token {
      tokenTaxRate := tax, issueTokenBaseFee := fee, mintTokenFeeRatio := ratio, enableErc20 := erc,
      beacon := dash (arg t "beacon") })
  | _ => none

def showFields : AnyParams → List String
  | .coinswap p => [s!"fee={showODec p.fee}", s!"tax={showODec p.taxRate}", s!"uni={showODec p.unilateralLiquidityFee}",
      s!"pcf={showCoin p.poolCreationFee}"]
  | .farm p => [s!"pcf={showCoin p.poolCreationFee}", s!"tax={showODec p.taxRate}", s!"maxcat={p.maxRewardCategories}"]
  | .htlc p => [if p.isEmpty then "assets=-" else "assets=" ++ ";".intercalate (p.map showAsset)]
  | .service p => [s!"mrt={p.maxRequestTimeout}", s!"mdm={p.minDepositMultiple}", s!"mindep={showCoins p.minDeposit}",
      s!"tax={showODec p.serviceFeeTax}", s!"slash={showODec p.slashFraction}", s!"cr={p.complaintRetrospect}",
      s!"atl={p.arbitrationTimeLimit}", s!"txsize={p.txSizeLimit}", s!"base={undash p.baseDenom}",
      s!"restricted={showBool p.restrictedServiceFeeDenom}"]
  | .token p => [s!"tax={showODec p.tokenTaxRate}", s!"fee={showCoin p.issueTokenBaseFee}", s!"ratio={showODec p.mintTokenFeeRatio}",
      s!"erc20={showBool p.enableErc20}", s!"beacon={undash p.beacon}"]

def showStored (p : AnyParams) : String := "|".intercalate (showFields p)

def getMod (s : Store) (mod : String) : Option AnyParams :=
  match mod with
  | "coinswap" => some (.coinswap s.coinswap)
  | "farm" => some (.farm s.farm)
  | "htlc" => some (.htlc s.htlc)
  | "service" => some (.service s.service)
  | "token" => some (.token s.token)
  | _ => none

def setMod (s : Store) : AnyParams → Store
  | .coinswap p => { s with coinswap := p }
  | .farm p => { s with farm := p }
  | .htlc p => { s with htlc := p }
  | .service p => { s with service := p }
  | .token p => { s with token := p }

def modNames : List String := ["coinswap", "farm", "htlc", "service", "token"]

def showAll (s : Store) : String :=
  " ".intercalate (modNames.filterMap fun m => (getMod s m).map fun p => m ++ "{" ++ showStored p ++ "}")

def verdict : Res Unit → String
  | .ok _ => "valid"
  | .error .reject => "invalid"
  | .error (.panic _) => "panic"

def resWord {α : Type} : Res α → String
  | .ok _ => "ok"
  | .error .reject => "rej"
  | .error (.panic _) => "panic"

def batteryOf : AnyParams → List String
  | .coinswap p => batteryCoinswap p
  | .farm p => batteryFarm p
  | .htlc p => batteryHtlc p
  | .service p => batteryService p
  | .token p => batteryToken p

def modelLine (s : Store) (line : String) : Store × String :=
  let t := tokens line
  match t with
  | ["params", "reset"] => ({}, "ok " ++ showAll {})
  | "params" :: op :: r =>
    let mod := arg r "module"
    match op with
    | "validate" =>
      match parseFields mod r with
      | some p => (s, verdict (validateAny p))
      | none => (s, "bad-op")
    | "update" =>
      match parseFields mod r, arg? r "sender" with
      | some p, some sender =>
        let res := stepUpdate s sender p
        let s' := match res with | .ok s' => s' | .error _ => s
        match getMod s' mod with
        | some q => (s', s!"{resWord res} stored={showStored q} sv={verdict (validateAny q)}")
        | none => (s, "bad-op")
      | _, _ => (s, "bad-op")
    | "genesis" =>
      match parseFields mod r, getMod s mod with
      | some p, some cur =>
        let (vg, ig) := genesisAny p
        let after := match ig with | .ok q => q | .error _ => cur
        (s, s!"vg={resWord vg} ig={resWord ig} pv={verdict (validateAny p)} stored={showStored after}")
      | _, _ => (s, "bad-op")
    | "battery" =>
      match getMod s mod with
      | some cur =>
        let ps := batteryOf cur
        (s, (if ps.isEmpty then "nopanic" else "panic:" ++ ",".intercalate ps) ++ " dflt=ok")
      | none => (s, "bad-op")
    | _ => (s, "bad-op")
  | _ => (s, "bad-op")

def runModel (ops : Array String) : IO Unit := do
  let mut s : Store := {}
  let out ← IO.getStdout
  for l in ops do
    let (s', o) := modelLine s l
    s := s'
    out.putStrLn o

/-- `coinswap{k=v|k=v}` tokens of a reset observation -/
def parseAll (o : List String) : Option Store := do
  let mut s : Store := {}
  for m in modNames do
    let tok ← o.find? (fun x => x.startsWith (m ++ "{"))
    let body := String.ofList ((tok.toList.drop (m.length + 1)).dropLast)
    let p ← parseFields m (body.splitOn "|")
    s := setMod s p
  return s

def storedOf (mod : String) (o : List String) : Option AnyParams :=
  (arg? o "stored").bind fun v => parseFields mod (v.splitOn "|")

/-- monitor: the stored sets are tracked from the *implementation's* observations -/
def runMonitor (ops obs : Array String) : IO Unit := do
  let out ← IO.getStdout
  if ops.size ≠ obs.size then
    out.putStrLn s!"mon C16 FAIL clause=stream-length ops={ops.size} obs={obs.size}"
    return
  let mut st : Store := {}
  let mut fails := 0
  let mut steps := 0
  for i in [0:ops.size] do
    let t := tokens ops[i]!
    let o := tokens obs[i]!
    match t with
    | ["params", "reset"] =>
      match parseAll o with
      | some s =>
        st := s
        if !(modNames.all fun m => match getMod s m with | some p => Spec.C16.isValid p | none => false) then
          out.putStrLn s!"mon C16 FAIL clause=initial-params-fail-validate line={i+1}"; fails := fails + 1
      | none => out.putStrLn s!"mon C16 FAIL clause=obs-parse line={i+1}"; fails := fails + 1
    | "params" :: op :: r =>
      let mod := arg r "module"
      steps := steps + 1
      match op with
      | "validate" => pure ()
      | "update" =>
        match parseFields mod r, arg? r "sender", storedOf mod o, getMod st mod, o.head? with
        | some p, some sender, some post, some pre, some cls =>
          for c in Spec.C16.updateFails pre sender p cls post (arg o "sv") do
            out.putStrLn s!"mon C16 FAIL clause={c} line={i+1}"; fails := fails + 1
          st := setMod st post
        | _, _, _, _, _ => out.putStrLn s!"mon C16 FAIL clause=parse line={i+1}"; fails := fails + 1
      | "genesis" =>
        match storedOf mod o with
        | some post =>
          for c in Spec.C16.genesisFails (arg o "pv") (arg o "ig") post do
            out.putStrLn s!"mon C16 FAIL clause={c} line={i+1}"; fails := fails + 1
        | none => out.putStrLn s!"mon C16 FAIL clause=parse line={i+1}"; fails := fails + 1
      | "battery" =>
        match getMod st mod, o.head? with
        | some cur, some w =>
          let panics := if w.startsWith "panic:" then ((String.ofList (w.toList.drop 6)).splitOn ",") else []
          if w ≠ "nopanic" && panics.isEmpty then
            out.putStrLn s!"mon C16 FAIL clause=parse line={i+1}"; fails := fails + 1
          for (c, cl) in Spec.C16.batteryFails cur panics (arg o "dflt") do
            let tag := match cl with | some k => s!" class={k}" | none => ""
            out.putStrLn s!"mon C16 FAIL clause={c} line={i+1}{tag}"; fails := fails + 1
        | _, _ => out.putStrLn s!"mon C16 FAIL clause=parse line={i+1}"; fails := fails + 1
      | _ => out.putStrLn s!"mon C16 FAIL clause=parse line={i+1}"; fails := fails + 1
    | _ => out.putStrLn s!"mon C16 FAIL clause=parse line={i+1}"; fails := fails + 1
  out.putStrLn s!"mon C16 done steps={steps} fails={fails}"

def readLines (p : String) : IO (Array String) := do
  let c ← IO.FS.readFile p
  return (c.splitOn "\n").toArray.filter (· ≠ "")

def main (args : List String) : IO UInt32 := do
  match args with
  | ["model", ops] => runModel (← readLines ops); return 0
  | ["monitor", "C16", ops, obs] => runMonitor (← readLines ops) (← readLines obs); return 0
  | _ => IO.eprintln "usage: model <ops> | monitor C16 <ops> <obs>"; return 2

end Driver.Params

def main (args : List String) : IO UInt32 := Driver.Params.main args
