/-
Line-protocol driver for the service model and the C07 / C08 / C13 (service slice) / C12 (service slice:
genesis ops `export` / `reimport` / `prep_reimport`) monitors.
  model   <ops>              : prints one observation line per op line
  monitor <Cnn> <ops> <obs>  : evaluates the property's monitor on the implementation's observation stream
-/
import Irismod.Model.ServiceGenesis
import Irismod.Spec.C12_Service
import Irismod.Spec.C07
import Irismod.Spec.C08
import Irismod.Spec.C13_Service
import Irismod.Spec.ServiceMon

namespace Driver.Service
open Irismod Irismod.Sdk Irismod.Service Irismod.Line

def undash (s : String) : String := if s = "" then "-" else s
def dash (s : String) : String := if s = "-" then "" else s

def splitList (sep : String) (s : String) : List String := if s = "" ∨ s = "-" then [] else s.splitOn sep

/-- a decimal literal with at most 18 fractional digits -/
def parseDec (s : String) : Option Dec :=
  let (neg, body) := if s.startsWith "-" then (true, (s.drop 1).toString) else (false, s)
  match body.splitOn "." with
  | [ip] => ip.toNat?.map fun n => ⟨(if neg then -1 else 1) * (n : Int) * precision⟩
  | [ip, fp] =>
    match ip.toNat?, fp.toNat? with
    | some n, some f =>
      if fp.length = 0 ∨ 18 < fp.length then none
      else some ⟨(if neg then -1 else 1) * ((n : Int) * precision + ((f * 10 ^ (18 - fp.length) : Nat) : Int))⟩
    | _, _ => none
  | _ => none

def parseCoins (s : String) : Option Coins :=
  mapM' (fun e => match e.splitOn ":" with
    | [a, d] => a.toNat?.map (fun n => (d, n))
    | _ => none) (splitList "," s)

def parseBool (s : String) : Option Bool := if s = "1" then some true else if s = "0" then some false else none

def parsePricingIn (t : List String) : Option (Option PricingIn) :=
  let price := arg t "price"
  if price = "-" ∨ price = "" then some none else
  match price.splitOn ":" with
  | [a, d] => do
    let n ← a.toNat?
    let pt ← mapM' (fun e => match e.splitOn "~" with
      | [s, en, d] => match s.toInt?, en.toInt? with
        | some x, some y => some (x, y, d)
        | _, _ => none
      | _ => none) (splitList ";" (arg t "ptime"))
    let pv ← mapM' (fun e => match e.splitOn "~" with
      | [v, d] => v.toNat?.map (fun x => (x, d))
      | _ => none) (splitList ";" (arg t "pvol"))
    some (some { jsonOk := arg t "pjson" ≠ "0", amount := n, denom := d, ptime := pt, pvol := pv })
  | _ => none

def provs (s : String) : List Addr := splitList "," s

def hexNat (s : String) : Option Nat :=
  s.toList.foldl (fun acc c => match acc, hexVal c with
    | some a, some v => some (a * 16 + v)
    | _, _ => none) (some 0)

/-- a well-formed request id: 116 hex digits = context id (80) ‖ batch (16) ‖ height (16) ‖ index (4) -/
def parseRid (s : String) : Option ReqId :=
  if s.length = 116 && isHex s then
    let l := s.toLower
    match hexNat ((l.drop 80).take 16).toString, hexNat ((l.drop 96).take 16).toString, hexNat ((l.drop 112).take 4).toString with
    | some b, some h, some i => some ⟨(l.take 80).toString, b, (h : Int), i⟩
    | _, _, _ => none
  else none

def parseOp (t : List String) : Option Op :=
  match t with
  | "service" :: "define" :: r => do
    some (.define (arg r "sender") (dash (arg r "name")) (arg r "sch" ≠ "0"))
  | "service" :: "bind" :: r => do
    let dep ← parseCoins (arg r "dep")
    let qos ← natArg? r "qos"
    let pin ← parsePricingIn r
    let p := pin.getD { jsonOk := false, amount := 0, denom := "", ptime := [], pvol := [] }
    some (.bind (arg r "owner") (arg r "provider") (dash (arg r "svc")) dep qos p (arg r "opts" ≠ "0"))
  | "service" :: "update_binding" :: r => do
    let dep ← parseCoins (arg r "dep")
    let qos ← natArg? r "qos"
    let pin ← parsePricingIn r
    let opts := if arg r "opts" = "0" then some false else if arg r "opts" = "1" then some true else none
    some (.updateBinding (arg r "owner") (arg r "provider") (dash (arg r "svc")) dep qos pin opts)
  | "service" :: "set_withdraw" :: r => some (.setWithdraw (arg r "owner") (arg r "addr"))
  | "service" :: "enable" :: r => do
    let dep ← parseCoins (arg r "dep")
    some (.enable (arg r "owner") (arg r "provider") (dash (arg r "svc")) dep)
  | "service" :: "disable" :: r => some (.disable (arg r "owner") (arg r "provider") (dash (arg r "svc")))
  | "service" :: "refund_deposit" :: r => some (.refundDeposit (arg r "owner") (arg r "provider") (dash (arg r "svc")))
  | "service" :: "call" :: r => do
    let cap ← parseCoins (arg r "cap")
    let timeout ← intArg? r "timeout"
    let freq ← natArg? r "freq"
    let total ← intArg? r "total"
    let rep ← parseBool (arg r "repeated")
    some (.call (arg r "tx") (arg r "consumer") (dash (arg r "svc")) (provs (arg r "providers")) cap timeout rep freq total
      (arg r "input" ≠ "0"))
  | "service" :: "mcall" :: r => do
    let cap ← parseCoins (arg r "cap")
    let timeout ← intArg? r "timeout"
    let freq ← natArg? r "freq"
    let total ← intArg? r "total"
    let rep ← parseBool (arg r "repeated")
    let thr ← natArg? r "thr"
    some (.mcall (arg r "tx") (arg r "consumer") (dash (arg r "svc")) (provs (arg r "providers")) cap timeout rep freq total
      (arg r "input" ≠ "0") (arg r "state" = "paused") thr (if arg r "mod" = "" then cbModule else arg r "mod"))
  | "service" :: "respond" :: r => do
    let code ← natArg? r "code"
    let out ← match arg r "out" with
      | "good" => some OutKind.good
      | "bad" => some OutKind.bad
      | "none" => some OutKind.none
      | _ => none
    some (.respond (arg r "provider") (parseRid (dash (arg r "req"))) code out (arg r "res" ≠ "0"))
  | "service" :: "withdraw" :: r => some (.withdraw (arg r "owner") (arg r "provider"))
  | "service" :: "withdraw_k" :: r =>
    some (.withdrawK (arg r "owner") (if arg r "provider" = "-" then none else some (arg r "provider")))
  | "service" :: "pause" :: r => some (.pause (arg r "consumer") (dash (arg r "ctx")))
  | "service" :: "start" :: r => some (.start (arg r "consumer") (dash (arg r "ctx")))
  | "service" :: "kill" :: r => some (.kill (arg r "consumer") (dash (arg r "ctx")))
  | "service" :: "update_ctx" :: r => do
    let cap ← parseCoins (arg r "cap")
    let timeout ← intArg? r "timeout"
    let freq ← natArg? r "freq"
    let total ← intArg? r "total"
    some (.updateCtx (arg r "consumer") (dash (arg r "ctx")) (provs (arg r "providers")) cap timeout freq total)
  | "service" :: "mpause" :: r => some (.mpause (arg r "consumer") (dash (arg r "ctx")))
  | "service" :: "mstart" :: r => some (.mstart (arg r "consumer") (dash (arg r "ctx")))
  | "service" :: "mkill" :: r => some (.mkill (arg r "consumer") (dash (arg r "ctx")))
  | "service" :: "mupdate" :: r => do
    let cap ← parseCoins (arg r "cap")
    let timeout ← intArg? r "timeout"
    let freq ← natArg? r "freq"
    let total ← intArg? r "total"
    let thr ← natArg? r "thr"
    some (.mupdate (arg r "consumer") (dash (arg r "ctx")) (provs (arg r "providers")) thr cap timeout freq total)
  | "service" :: "set_rate" :: r =>
    if arg r "rate" = "-" then some (.setRate (arg r "denom") none)
    else (parseDec (arg r "rate")).map (fun d => .setRate (arg r "denom") (some (arg r "rate", d)))
  | "service" :: "next" :: r => (intArg? r "dt").map .next
  | "service" :: "skip" :: r => do
    let n ← natArg? r "n"
    let dt ← intArg? r "dt"
    some (.skip n dt)
  | _ => none

/-- the reset line: params, rate table, initial balances; returns the state and the printed denoms -/
def parseReset (t : List String) : Option (State × List Denom × List Addr) := do
  let h ← intArg? t "h"
  let tm ← intArg? t "t"
  let maxto ← intArg? t "maxto"
  let mdm ← natArg? t "mdm"
  let mindep ← parseCoins (arg t "mindep")
  let tax ← parseDec (arg t "tax")
  let sl ← parseDec (arg t "slash")
  let cr ← intArg? t "cr"
  let atl ← intArg? t "atl"
  let rates ← mapM' (fun e => match e.splitOn ":" with
    | [d, r] => (parseDec r).map (fun x => (d, (r, x)))
    | _ => none) (splitList "," (arg t "rates"))
  let funds ← mapM' (fun e => match e.splitOn ":" with
    | [k, a] => match k.splitOn "/" with
      | [acc, d] => a.toNat?.map (fun n => (acc, d, n))
      | _ => none
    | _ => none) (splitList "," (arg t "fund"))
  let bank : Bank := funds.foldl (fun b e => Bank.setBal b e.1 e.2.1 (Bank.balOf b e.1 e.2.1 + e.2.2)) {}
  let supplied := "stake" :: (funds.filter (fun e => e.2.2 ≠ 0)).map (·.2.1)
  let s : State :=
    { params := { maxTimeout := maxto, minDepMult := mdm, minDeposit := mindep, tax := tax, slash := sl, complaint := cr,
                  arbitration := atl, base := arg t "base", restricted := arg t "restricted" = "1" },
      height := h, time := tm, idx := 0, supplied := supplied,
      rates := rates.foldl (fun m e => AMap.set m e.1 e.2) [], bank := bank }
  return (s, splitList "," (arg t "denoms"), splitList "," (arg t "aord"))

def coinStr (d : Denom) (n : Nat) : String := if n = 0 then "-" else s!"{n}/{d}"
def b2s (b : Bool) : String := if b then "1" else "0"
def joinS (xs : List String) : String := undash (joinWith "," (sortStrings xs))

def pricingStr (p : Pricing) : String :=
  let pt := p.ptime.map fun e => s!"{e.1}~{e.2.1}~{e.2.2.toStr}"
  let pv := p.pvol.map fun e => s!"{e.1}~{e.2.toStr}"
  s!"{p.amount}/{p.denom}:{undash (joinWith ";" pt)}:{undash (joinWith ";" pv)}"

def ctxStateNum : CtxState → Nat
  | .running => 0 | .paused => 1 | .completed => 2
def batchStateNum : BatchState → Nat
  | .running => 0 | .completed => 1

def cbStr : CbEvent → String
  | .resp id _ n e => s!"resp/{id}/{n}/{if e then 1 else 0}"
  | .state id cause => s!"state/{id}/{cause.replace " " "_"}"

def printAccts : List Addr := ["A0", "A1", "A2", "A3", "A4", "A5", "A6", "A7", "A8", "A9", depAcc, reqAcc, fcAcc]

def showState (s : State) (denoms : List Denom) : String :=
  let base := s.params.base
  let rates := s.rates.map fun e => s!"{e.1}:{e.2.1}"
  let defs := s.defs.map fun e => s!"{e.1}:{e.2}"
  let binds := s.binds.map fun e =>
    s!"{e.1.1}/{e.1.2}:{e.2.owner}:{coinStr base e.2.deposit}:{b2s e.2.available}:{e.2.disabledTime}:{e.2.qos}:{pricingStr e.2.pricing}"
  let own := s.owners.map fun e => s!"{e.1}:{e.2}"
  let ownp := s.ownerProv.map fun e => s!"{e.1}/{e.2}"
  let wd := s.wd.map fun e => s!"{e.1}:{e.2}"
  let ctxs := s.ctxs.map fun e =>
    let c := e.2
    s!"{e.1}:{c.svc}:{c.consumer}:{undash (joinWith "+" c.providers)}:{coinStr base c.cap}:{c.timeout}:{b2s c.repeated}:{c.freq}:{c.total}:{c.batchCounter}:{c.batchReqCount}:{c.batchRespCount}:{c.batchRespThreshold}:{batchStateNum c.batchState}:{ctxStateNum c.state}:{c.respThreshold}:{undash c.moduleName}"
  let reqs := s.reqs.map fun e =>
    s!"{e.1.toHex}:{e.2.provider}:{coinStr e.2.feeDenom e.2.feeAmt}:{e.2.reqH}:{e.2.expH}:{e.2.ctx}/{e.2.batch}"
  let actb := s.active.map fun rid =>
    match AMap.get? s.reqs rid with
    | none => s!"?/?/?/{rid.toHex}"
    | some rq => s!"{(getCtx s rq.ctx).svc}/{rq.provider}/{rq.expH}/{rid.toHex}"
  let resps := s.resps.map fun e =>
    s!"{e.1.toHex}:{e.2.provider}:{e.2.consumer}:{b2s e.2.hasOut}:{e.2.ctx}/{e.2.batch}"
  let vols := s.vols.map fun e => s!"{e.1.1}/{e.1.2.1}/{e.1.2.2}:{e.2}"
  let earned := s.earned.map fun e => s!"{e.1.1}/{e.1.2}:{e.2}"
  let oearned := s.oearned.map fun e => s!"{e.1.1}/{e.1.2}:{e.2}"
  let newq := s.newQ.map fun e => s!"{e.1}/{e.2}"
  let newh := s.newH.map fun e => s!"{e.1}:{e.2}"
  let expq := s.expQ.map fun e => s!"{e.1}/{e.2}"
  let exph := s.expH.map fun e => s!"{e.1}:{e.2}"
  let bals := (printAccts.flatMap fun a => denoms.filterMap fun d =>
    let b := Bank.balOf s.bank a d
    if b = 0 then none else some s!"{a}/{d}:{b}")
  s!"h={s.height} t={s.time} idx={s.idx} rates={joinS rates} defs={joinS defs} binds={joinS binds} own={joinS own} ownp={joinS ownp} wd={joinS wd} ctxs={joinS ctxs} reqs={joinS reqs} act={joinS (s.active.map ReqId.toHex)} actb={joinS actb} resps={joinS resps} vols={joinS vols} earned={joinS earned} oearned={joinS oearned} newq={joinS newq} newh={joinS newh} expq={joinS expq} exph={joinS exph} bals={joinS bals} cb={undash (joinWith "," (s.cb.map cbStr))}"

def resWord : Except Err State → String
  | .ok _ => "ok"
  | .error (.reject _) => "rej"
  | .error (.panic _) => "panic"

/-- the order of bech32 strings of the harness universe (`aord=` of the reset line) -/
def rankOf (aord : List Addr) (a : Addr) : Nat := aord.idxOf a

def showCtx (base : Denom) (e : CtxId × Ctx) : String :=
  let c := e.2
  s!"{e.1}:{c.svc}:{c.consumer}:{undash (joinWith "+" c.providers)}:{coinStr base c.cap}:{c.timeout}:{b2s c.repeated}:{c.freq}:{c.total}:{c.batchCounter}:{c.batchReqCount}:{c.batchRespCount}:{c.batchRespThreshold}:{batchStateNum c.batchState}:{ctxStateNum c.state}:{c.respThreshold}:{undash c.moduleName}"

def coinsStrL (c : Coins) : String := undash (joinWith "+" (c.map fun e => s!"{e.2}/{e.1}"))

/-- the exported genesis document in ITS OWN order (the order is part of what is compared) -/
def showGenesis (g : ServiceGenesis.Genesis) : String :=
  let p := g.params
  let base := p.base
  let defs := g.defs.map fun e => s!"{e.1}:{e.2}"
  let binds := g.binds.map fun e =>
    s!"{e.1.1}/{e.1.2}:{e.2.owner}:{coinStr base e.2.deposit}:{b2s e.2.available}:{e.2.disabledTime}:{e.2.qos}:{pricingStr e.2.pricing}"
  let wd := g.wd.map fun e => s!"{e.1}:{e.2}"
  let ctxs := g.ctxs.map (showCtx base)
  s!"gparams={p.maxTimeout}:{p.minDepMult}:{coinsStrL p.minDeposit}:{p.tax.toStr}:{p.slash.toStr}:{p.complaint}:{p.arbitration}:{p.base}:{b2s p.restricted} gdefs={undash (joinWith "," defs)} gbinds={undash (joinWith "," binds)} gwd={undash (joinWith "," wd)} gctxs={undash (joinWith "," ctxs)}"

/-- driver environment of one history: printed denoms, bech32 order -/
structure Env where
  denoms : List Denom := []
  aord   : List Addr := []

def modelLine (s : State) (env : Env) (line : String) : State × Env × String :=
  let t := tokens line
  let denoms := env.denoms
  match t with
  | "service" :: "reset" :: r =>
    match parseReset r with
    | some (s0, ds, ao) => (s0, { denoms := ds, aord := ao }, "ok " ++ showState s0 ds)
    | none => (s, env, "bad-op")
  | ["service", "export"] =>
    let g := ServiceGenesis.exportGenesis (rankOf env.aord) s
    (s, env, s!"ok validate={if ServiceGenesis.genesisValid g then "ok" else "err"} {showGenesis g}")
  | ["service", "reimport"] =>
    match ServiceGenesis.reimport (rankOf env.aord) { s with cb := [] } with
    | .ok s' => (s', env, "ok " ++ showState s' denoms)
    | .error _ => ({ s with cb := [] }, env, "panic " ++ showState { s with cb := [] } denoms)
  | ["service", "prep_reimport"] =>
    match ServiceGenesis.prepReimport (rankOf env.aord) { s with cb := [] } with
    | .ok s' => (s', env, "ok " ++ showState s' denoms)
    | .error _ => ({ s with cb := [] }, env, "panic " ++ showState { s with cb := [] } denoms)
  | _ =>
    match parseOp t with
    | none => (s, env, "bad-op")
    | some op =>
      let r := step s op
      let s' := match r with | .ok s' => s' | .error _ => { s with cb := [] }
      (s', env, resWord r ++ " " ++ showState s' denoms)

def runModel (ops : Array String) : IO Unit := do
  let mut s : State := {}
  let mut env : Env := {}
  let out ← IO.getStdout
  for l in ops do
    let (s', env', o) := modelLine s env l
    s := s'
    env := env'
    out.putStrLn o


/-! ### parsing the observation line back into a state (monitor mode) -/

def coinOf (s : String) : Option (Denom × Nat) :=
  if s = "-" then some ("", 0) else
  match s.splitOn "/" with
  | [a, d] => a.toNat?.map (fun n => (d, n))
  | _ => none

def entries (t : List String) (key : String) : List String := splitList "," (arg t key)

def parsePromosT (s : String) : Option (List (Int × Int × Dec)) :=
  mapM' (fun e => match e.splitOn "~" with
    | [a, b, d] => match a.toInt?, b.toInt?, parseDec d with
      | some x, some y, some z => some (x, y, z)
      | _, _, _ => none
    | _ => none) (splitList ";" s)

def parsePromosV (s : String) : Option (List (Nat × Dec)) :=
  mapM' (fun e => match e.splitOn "~" with
    | [a, d] => match a.toNat?, parseDec d with
      | some x, some z => some (x, z)
      | _, _ => none
    | _ => none) (splitList ";" s)

def parseCtxState (s : String) : Option CtxState :=
  match s with | "0" => some .running | "1" => some .paused | "2" => some .completed | _ => none
def parseBatchState (s : String) : Option BatchState :=
  match s with | "0" => some .running | "1" => some .completed | _ => none

def splitKey (s : String) : Option (String × Nat) :=
  match s.splitOn "/" with
  | [a, b] => b.toNat?.map (fun n => (a, n))
  | _ => none

/-- rebuild the state an observation line describes; params, supplied denoms come from the reset line -/
def parseState (base : State) (t : List String) : Option State := do
  let h ← intArg? t "h"
  let tm ← intArg? t "t"
  let idx ← natArg? t "idx"
  let rates ← mapM' (fun e => match e.splitOn ":" with
    | [d, r] => (parseDec r).map (fun x => (d, (r, x)))
    | _ => none) (entries t "rates")
  let defs ← mapM' (fun e => match e.splitOn ":" with
    | [n, a] => some (n, a)
    | _ => none) (entries t "defs")
  let binds ← mapM' (fun e => match e.splitOn ":" with
    | [k, owner, dep, av, dt, qos, price, pt, pv] => do
      let (svc, prov) ← (match k.splitOn "/" with | [a, b] => some (a, b) | _ => none)
      let d ← coinOf dep
      let a ← parseBool av
      let dti ← dt.toInt?
      let q ← qos.toNat?
      let pc ← coinOf price
      let ptl ← parsePromosT pt
      let pvl ← parsePromosV pv
      let pr : Pricing := { denom := pc.1, amount := pc.2, ptime := ptl, pvol := pvl }
      let b : Binding := { owner := owner, deposit := d.2, pricing := pr, qos := q, available := a, disabledTime := dti }
      some ((svc, prov), b)
    | _ => none) (entries t "binds")
  let own ← mapM' (fun e => match e.splitOn ":" with | [p, o] => some (p, o) | _ => none) (entries t "own")
  let ownp ← mapM' (fun e => match e.splitOn "/" with | [o, p] => some (o, p) | _ => none) (entries t "ownp")
  let wd ← mapM' (fun e => match e.splitOn ":" with | [o, a] => some (o, a) | _ => none) (entries t "wd")
  let ctxs ← mapM' (fun e => match e.splitOn ":" with
    | [id, svc, cons, ps, cap, to, rep, fr, tot, bc, brq, brs, bth, bst, st, thr, md] => do
      let c ← coinOf cap
      let toI ← to.toInt?
      let r ← parseBool rep
      let f ← fr.toNat?
      let tt ← tot.toInt?
      let bcN ← bc.toNat?
      let brqN ← brq.toNat?
      let brsN ← brs.toNat?
      let bthN ← bth.toNat?
      let bs ← parseBatchState bst
      let cs ← parseCtxState st
      let th ← thr.toNat?
      some (id, ({ svc := svc, providers := splitList "+" ps, consumer := cons, cap := c.2, timeout := toI, repeated := r, freq := f,
                   total := tt, batchCounter := bcN, batchReqCount := brqN, batchRespCount := brsN, batchRespThreshold := bthN,
                   batchState := bs, state := cs, respThreshold := th, moduleName := dash md } : Ctx))
    | _ => none) (entries t "ctxs")
  let reqs ← mapM' (fun e => match e.splitOn ":" with
    | [rid, prov, fee, rh, eh, cb] => do
      let r ← parseRid rid
      let f ← coinOf fee
      let rhI ← rh.toInt?
      let ehI ← eh.toInt?
      let (c, b) ← splitKey cb
      some (r, ({ ctx := c, batch := b, provider := prov, feeDenom := f.1, feeAmt := f.2, reqH := rhI, expH := ehI } : Req))
    | _ => none) (entries t "reqs")
  let act ← mapM' parseRid (entries t "act")
  let resps ← mapM' (fun e => match e.splitOn ":" with
    | [rid, prov, cons, out, cb] => do
      let r ← parseRid rid
      let o ← parseBool out
      let (c, b) ← splitKey cb
      some (r, ({ provider := prov, consumer := cons, hasOut := o, ctx := c, batch := b } : Resp))
    | _ => none) (entries t "resps")
  let vols ← mapM' (fun e => match e.splitOn ":" with
    | [k, n] => match k.splitOn "/", n.toNat? with
      | [c, s, p], some v => some ((c, s, p), v)
      | _, _ => none
    | _ => none) (entries t "vols")
  let pairNat := fun (e : String) => match e.splitOn ":" with
    | [k, n] => match k.splitOn "/", n.toNat? with
      | [a, d], some v => some ((a, d), v)
      | _, _ => none
    | _ => none
  let earned ← mapM' pairNat (entries t "earned")
  let oearned ← mapM' pairNat (entries t "oearned")
  let qEntry := fun (e : String) => match e.splitOn "/" with
    | [h, id] => h.toInt?.map (fun x => (x, id))
    | _ => none
  let hEntry := fun (e : String) => match e.splitOn ":" with
    | [id, h] => h.toInt?.map (fun x => (id, x))
    | _ => none
  let newq ← mapM' qEntry (entries t "newq")
  let newh ← mapM' hEntry (entries t "newh")
  let expq ← mapM' qEntry (entries t "expq")
  let exph ← mapM' hEntry (entries t "exph")
  let bals ← mapM' pairNat (entries t "bals")
  let cb ← mapM' (fun e => match e.splitOn "/" with
    | ["resp", id, n, er] => match n.toNat?, parseBool er with
      | some x, some y => some (CbEvent.resp id 0 x y)
      | _, _ => none
    | ["state", id, cause] => some (CbEvent.state id (cause.replace "_" " "))
    | _ => none) (entries t "cb")
  return { base with height := h, time := tm, idx := idx, rates := rates, defs := defs, binds := binds, owners := own, ownerProv := ownp,
                     wd := wd, ctxs := ctxs, reqs := reqs, active := act, resps := resps, vols := vols, earned := earned,
                     oearned := oearned, newQ := newq, newH := newh, expQ := expq, expH := exph,
                     bank := { bal := bals }, cb := cb }

structure MonOut where
  fails : Nat := 0
  steps : Nat := 0

def failLine (prop : String) (clause : String) (cls : String) (line : Nat) : String :=
  s!"mon {prop} FAIL clause={clause} line={line}" ++ (if cls = "" then "" else s!" class={cls}")

/-- strip the result word and the callback field: what a rejected message must leave untouched -/
def obsBody (o : List String) : List String := (o.drop 1).filter (fun x => !(x.startsWith "cb="))

/-- monitor mode: every clause evaluated on an (operation, observation) pair is a function of
`Irismod.Spec.ServiceMon` (`opLine` / `exportLine` / `reimportLine`, which dispatch to `Spec.C07.check`,
`Spec.C08.check`, `Spec.C13S.check`, `Spec.C12S.check*`) — the functions the theorems of
`Irismod/Proofs/ServiceMonitor.lean` prove sound with respect to the model; only parsing and the
reset line's self-check stay here -/
def runMonitor (prop : String) (ops obs : Array String) : IO Unit := do
  let out ← IO.getStdout
  if ops.size ≠ obs.size then
    out.putStrLn s!"mon {prop} FAIL clause=stream-length ops={ops.size} obs={obs.size}"
    return
  let mut base : State := {}
  let mut ds : List Denom := []
  let mut pre : State := {}
  let mut preTok : List String := []
  let mut ms : Spec.ServiceMon.Mons := {}
  let mut fails := 0
  let mut steps := 0
  let mut havePre := false
  for i in [0:ops.size] do
    let t := tokens ops[i]!
    let o := tokens obs[i]!
    match t with
    | "service" :: "reset" :: r =>
      match parseReset r with
      | some (s0, dl, _) =>
        match parseState s0 o with
        | some s =>
          base := s0; ds := dl; pre := s; preTok := o; havePre := true
          ms := {}
          -- the reset line's own observation must be what the reset line says
          if showState s0 dl ≠ joinWith " " (o.drop 1) then
            out.putStrLn (failLine prop "reset-state" "" (i+1)); fails := fails + 1
        | none => out.putStrLn (failLine prop "obs-parse" "" (i+1)); fails := fails + 1; havePre := false
      | none => out.putStrLn (failLine prop "reset-parse" "" (i+1)); fails := fails + 1; havePre := false
    | ["service", "export"] =>
      -- the state does not change; C12 judges the verdict of the real ValidateGenesis on the real document
      if prop = "C12" then
        if !havePre then
          out.putStrLn (failLine prop "no-pre-state" "" (i+1)); fails := fails + 1
        else
          steps := steps + 1
          for f in Spec.ServiceMon.exportLine prop pre (arg o "validate" = "ok") do
            out.putStrLn (failLine prop f.clause f.cls (i+1)); fails := fails + 1
    | ["service", "reimport"] | ["service", "prep_reimport"] =>
      let kind := t.getD 1 ""
      match parseState base o with
      | some post =>
        if !havePre then
          out.putStrLn (failLine prop "no-pre-state" "" (i+1)); fails := fails + 1
        else
          let accepted := o.head? == some "ok"
          if prop = "C12" then steps := steps + 1
          let (ms', fl) := Spec.ServiceMon.reimportLine prop (kind != "reimport") ds ms pre accepted
            (obsBody o == obsBody preTok) post
          ms := ms'
          for f in fl do
            out.putStrLn (failLine prop f.clause f.cls (i+1)); fails := fails + 1
          pre := post; preTok := o
      | none => out.putStrLn (failLine prop "obs-parse" "" (i+1)); fails := fails + 1
    | _ =>
      match parseOp t, parseState base o with
      | some op, some post =>
        if !havePre then
          out.putStrLn (failLine prop "no-pre-state" "" (i+1)); fails := fails + 1
        else
          if prop ≠ "C12" then steps := steps + 1
          let (ms', fl) := Spec.ServiceMon.opLine prop ds ms pre op (o.head?.getD "") (obsBody o == obsBody preTok) post
          ms := ms'
          for f in fl do
            out.putStrLn (failLine prop f.clause f.cls (i+1)); fails := fails + 1
          -- what makes a schedule a schedule (C08, C13): every stored context has a positive timeout and, when
          -- repeated, a frequency that is not below it — `CtxOk` of Proofs/ServiceNoStale, an invariant of every
          -- reachable model state (`CQ` / `NS`, preserved by every step: `NS_stepCore`); a context for which the next batch would be queued in the past
          -- is never processed again
          if prop = "C08" ∨ prop = "C13" then
            if !(post.ctxs.all fun (e : CtxId × Ctx) =>
                  decide (0 < e.2.timeout) && (!e.2.repeated || decide (e.2.timeout ≤ (e.2.freq : Int)))) then
              out.putStrLn (failLine prop "ctx-schedule-illformed" "" (i+1)); fails := fails + 1
          pre := post; preTok := o
      | _, _ => out.putStrLn (failLine prop "parse" "" (i+1)); fails := fails + 1
  out.putStrLn s!"mon {prop} done steps={steps} fails={fails}"

def readLines (p : String) : IO (Array String) := do
  let c ← IO.FS.readFile p
  return (c.splitOn "\n").toArray.filter (· ≠ "")

def main (args : List String) : IO UInt32 := do
  match args with
  | ["model", ops] => runModel (← readLines ops); return 0
  | ["monitor", prop, ops, obs] =>
    if prop = "C07" ∨ prop = "C08" ∨ prop = "C13" ∨ prop = "C12" then
      runMonitor prop (← readLines ops) (← readLines obs); return 0
    else IO.eprintln "unknown property"; return 2
  | _ => IO.eprintln "usage: model <ops> | monitor <C07|C08|C12|C13> <ops> <obs>"; return 2

end Driver.Service

def main (args : List String) : IO UInt32 := Driver.Service.main args
