/-
Driver for C11 replicas: the model of every module is a function of chain data only, so the
model's prediction for each replica experiment is "identical"; the monitor fails on any
divergence the implementation's replicas showed.
-/
import Irismod.Sdk.Line

open Irismod.Line

def detModel (line : String) : String :=
  match tokens line with
  | "det" :: "hist" :: _ => "ok obs_same=true kv_same=true export_same=true"
  | "det" :: "export" :: r => s!"ok export_same=true module={arg r "module"}"
  | "det" :: "clock" :: _ => "ok result_same=true"
  | "det" :: "ante_feemap" :: _ => "ok gas_same=true outcome_same=true"
  | _ => "bad-op"

def readLines (p : String) : IO (Array String) := do
  let c ← IO.FS.readFile p
  return (c.splitOn "\n").toArray.filter (· ≠ "")

def main (args : List String) : IO UInt32 := do
  let out ← IO.getStdout
  match args with
  | ["model", ops] =>
    for l in (← readLines ops) do out.putStrLn (detModel l)
    return 0
  | ["monitor", "C11", ops, obs] =>
    let o ← readLines ops
    let b ← readLines obs
    let mut fails := 0
    for i in [0:b.size] do
      let t := tokens b[i]!
      if t.any (fun x => x.endsWith "=false") || t.head? ≠ some "ok" then
        fails := fails + 1
        out.putStrLn s!"mon C11 FAIL clause=replicas-diverge line={i+1} op={(tokens (o[i]?.getD "")).take 3} obs={b[i]!}"
    out.putStrLn s!"mon C11 done steps={b.size} fails={fails}"
    return 0
  | _ => IO.eprintln "usage: model <ops> | monitor C11 <ops> <obs>"; return 2
