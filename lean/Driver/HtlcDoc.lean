/-
Parser of the canonical rendering of an exported HTLC genesis document
(`gprev= gparams= ghtlcs= gsup=`, printed by `htlc export` of h_htlc and, on a failed import, by the
htlc round trips of h_genesis) into `Irismod.HtlcGen.Genesis`, and the model's verdict on it.
Used by `Driver/Genesis.lean` to attribute a failed import to the recorded class F-gen-5 only when
the model's `InitGenesis` panics on the same document.  Core Lean only.
-/
import Irismod.Spec.C12_Htlc
import Irismod.Sdk.Line

namespace Driver.HtlcDoc
open Irismod Irismod.Sdk Irismod.Htlc Irismod.Line

def bool? (s : String) : Option Bool := if s = "1" then some true else if s = "0" then some false else none

def parseCoins (s : String) : Option Coins :=
  if s = "-" then some [] else
  (s.splitOn ";").mapM fun e =>
    match e.splitOn "*" with
    | [d, n] => n.toNat?.map fun v => (d, v)
    | _ => none

def parseAsset (e : String) : Option Asset :=
  match e.splitOn ":" with
  | [denom, limit, tl, period, tbl, active, deputy, fee, mn, mx, minLock, maxLock] => do
    some { denom := denom, limit := ← limit.toNat?, timeLimited := ← bool? tl, period := ← period.toInt?,
           tbLimit := ← tbl.toNat?, active := ← bool? active, deputy := deputy, fixedFee := ← fee.toNat?,
           minSwap := ← mn.toNat?, maxSwap := ← mx.toNat?, minLock := ← minLock.toNat?, maxLock := ← maxLock.toNat? }
  | _ => none

def parseAssets (s : String) : Option (List Asset) :=
  if s = "-" then some [] else (s.splitOn ",").mapM parseAsset

def parseHState : String → Option HState
  | "o" => some .open | "c" => some .completed | "r" => some .refunded | _ => none

def parseDir : String → Option Dir
  | "n" => some .none | "i" => some .incoming | "o" => some .outgoing | _ => none

def items (s : String) : List String := if s = "-" || s = "" then [] else s.splitOn ","

def parseContract (e : String) : Option (Id × Contract) :=
  match e.splitOn ":" with
  | [id, sender, to, coins, lock, secret, ts, exp, st, closed, tr, dir] => do
    some (id, { sender := sender, to := to, amount := ← parseCoins coins, hashLock := lock,
                secret := if secret = "-" then "" else secret, timestamp := ← ts.toNat?, expiration := ← exp.toNat?,
                state := ← parseHState st, closedBlock := ← closed.toNat?, transfer := ← bool? tr,
                direction := ← parseDir dir })
  | _ => none

def parseSupply (e : String) : Option (Denom × Supply) :=
  match e.splitOn ":" with
  | [d, i, o, c, tl, el] => do
    some (d, { incoming := ← i.toNat?, outgoing := ← o.toNat?, current := ← c.toNat?, tlCurrent := ← tl.toNat?,
               elapsed := ← el.toInt? })
  | _ => none

/-- the document among the tokens of an observation line; `none` when absent or malformed -/
def parseDoc (t : List String) : Option HtlcGen.Genesis := do
  let prev ← natArg? t "gprev"
  let ps ← parseAssets (← arg? t "gparams")
  let hs ← (items (← arg? t "ghtlcs")).mapM parseContract
  let ss ← (items (← arg? t "gsup")).mapM parseSupply
  some { params := ps, htlcs := hs, supplies := ss, prevTime := prev }

/-- does the model's `InitGenesis` (on a wiped store) panic on this VALID document — i.e. is the
document one that the parameters do not fit (class F-gen-5)? -/
def modelRefuses (g : HtlcGen.Genesis) : Bool :=
  HtlcGen.validateGenesis g &&
  match HtlcGen.importGenesis {} g with
  | .ok _ => false
  | .error _ => true

end Driver.HtlcDoc
