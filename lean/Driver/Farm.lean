/-
Line-protocol driver for the farm model and the C05 / C06 / C13(farm) monitors.
  model   <ops>              : prints one observation line per op line
  monitor <Cnn> <ops> <obs>  : evaluates Spec.Cnn on the implementation's observation stream
`farm export` / `farm reimport` lines (genesis round trip, C12) are answered by
`Irismod.FarmGenesis`; `monitor C12` judges them.
-/
import Irismod.Spec.C05
import Irismod.Spec.C06
import Irismod.Spec.C13Farm
import Irismod.Spec.C12Farm

namespace Driver.Farm
open Irismod Irismod.Sdk Irismod.Farm Irismod.Line

def accounts : List Addr := ["A0", "A1", "A2", "A3", "A4", "collector", "distr", "escrow", "farm", "fees", "gov"]
def denoms : List Denom := ["btc", "eth", "lpt-1", "lpt-2", "stake"]

/-- strictly increasing by denom (what every client produces; anything else is not in the alphabet) -/
def strictlySorted : CoinList → Bool
  | (a, _) :: (b, y) :: t => decide (a < b) && strictlySorted ((b, y) :: t)
  | _ => true

def parseCoin (s : String) : Option (Denom × Nat) :=
  match s.splitOn ":" with
  | [d, n] => if d = "" then none else n.toNat?.map fun v => (d, v)
  | _ => none

/-- `d:n<sep>d:n…`; `-` is the empty list -/
def parseCoinsSep (sep : String) (s : String) : Option CoinList :=
  if s = "-" then some [] else (s.splitOn sep).mapM parseCoin

/-- message coin lists: `-` = absent (nil) -/
def parseMsgCoins (s : String) : Option (Option CoinList) :=
  if s = "-" then some none else
  match (s.splitOn ",").mapM parseCoin with
  | some cs => if strictlySorted cs then some (some cs) else none
  | none => none

def parseOp (t : List String) : Option Op :=
  match t with
  | "farm" :: "create_pool" :: r => do
    let start ← intArg? r "start"
    let rpb ← parseMsgCoins (arg r "rpb")
    let total ← parseMsgCoins (arg r "total")
    let ed ← natArg? r "editable"
    some (.createPool (arg r "sender") (if arg r "desc" = "-" then "" else arg r "desc") (arg r "lpt") start
      (rpb.getD []) (total.getD []) (ed = 1))
  | "farm" :: "destroy_pool" :: r => some (.destroyPool (arg r "sender") (arg r "pool"))
  | "farm" :: "adjust_pool" :: r => do
    let add ← parseMsgCoins (arg r "add")
    let rpb ← parseMsgCoins (arg r "rpb")
    some (.adjustPool (arg r "sender") (arg r "pool") add rpb)
  | "farm" :: "stake" :: r => do
    let c ← parseCoin (arg r "amt")
    some (.stake (arg r "sender") (arg r "pool") c.1 c.2)
  | "farm" :: "unstake" :: r => do
    let c ← parseCoin (arg r "amt")
    some (.unstake (arg r "sender") (arg r "pool") c.1 c.2)
  | "farm" :: "harvest" :: r => some (.harvest (arg r "sender") (arg r "pool"))
  | "farm" :: "end_block" :: r => do
    let n ← natArg? r "n"
    if n = 0 then none else some (.endBlocks n)
  | "farm" :: "cp_submit" :: r => do
    let rpb ← parseMsgCoins (arg r "rpb")
    let applied ← parseMsgCoins (arg r "applied")
    let self ← parseMsgCoins (arg r "self")
    let dep ← parseMsgCoins (arg r "deposit")
    some (.cpSubmit (arg r "proposer") (if arg r "title" = "-" then "" else arg r "title")
      { desc := if arg r "desc" = "-" then "" else arg r "desc", lpt := arg r "lpt", rpb := rpb.getD [],
        applied := applied.getD [], selfBond := self.getD [] } (dep.getD []))
  | "farm" :: "cp_pass" :: r => (natArg? r "id").map .cpPass
  | "farm" :: "cp_reject" :: r => (natArg? r "id").map .cpReject
  | "farm" :: "cp_faildeposit" :: r => (natArg? r "id").map .cpFailDeposit
  | "farm" :: "fund_cp" :: r => do
    let amt ← parseMsgCoins (arg r "amt")
    some (.fundCp (arg r "sender") (amt.getD []))
  | _ => none

/-- the state a reset line describes -/
def parseReset (r : List String) : Option State := do
  let h ← intArg? r "h"
  let rich ← natArg? r "rich"
  let poor ← natArg? r "poor"
  let fee ← natArg? r "fee"
  let tax ← intArg? r "tax"
  let maxcat ← natArg? r "maxcat"
  let govmin := (natArg? r "govmin").getD 10000000
  let govthr := (natArg? r "govthr").getD 100000
  let mut b : Bank := {}
  for a in ["A0", "A1", "A2", "A3"] do
    for d in denoms do
      b := b.setBal a d rich
  for d in denoms do
    b := b.setBal "A4" d poor
  some { height := h, params := { fee := fee, tax := ⟨tax⟩, maxcat := maxcat }, bank := b,
         cp := { minDeposit := govmin, minFirst := govthr } }

def showCoins (sep : String) (cs : CoinList) : String :=
  if cs = [] then "-" else joinWith sep (cs.map fun c => s!"{c.1}:{c.2}")

def showRule (r : Rule) : String := s!"{r.denom}:{r.total}:{r.remaining}:{r.rpb}:{r.rps.raw}"

def showList (xs : List String) : String := if xs = [] then "-" else joinWith "," (sortStrings xs)

def showStatus : PStatus → String
  | .deposit => "D" | .voting => "V" | .passed => "P" | .rejected => "R" | .failed => "F"

def parseStatus : String → Option PStatus
  | "D" => some .deposit | "V" => some .voting | "P" => some .passed | "R" => some .rejected | "F" => some .failed
  | _ => none

def showState (s : State) : String :=
  let ps := s.pools.map fun (id, p) =>
    s!"{id}|{p.creator}|{if p.desc = "" then "-" else p.desc}|{p.start}|{p.endH}|{p.last}|{if p.editable then 1 else 0}|{p.lpt}|{p.locked}|{if p.rules = [] then "-" else joinWith ";" (p.rules.map showRule)}"
  let fs := s.farmers.map fun ((a, id), f) => s!"{a}|{id}|{f.locked}|{showCoins ";" f.debt}"
  let qs := s.queue.map fun (h, id) => s!"{if h < 0 then h + pow64 else h}|{id}"
  let bs := accounts.flatMap fun a => denoms.filterMap fun d =>
    if s.bank.balOf a d = 0 then none else some s!"{a}|{d}|{s.bank.balOf a d}"
  let es := s.cp.escrow.map fun (pid, e) => s!"{pid}|{e.proposer}|{showCoins ";" e.applied}|{showCoins ";" e.selfBond}"
  let prs := s.cp.props.map fun (pid, pr) => s!"{pid}|{showStatus pr.status}|{pr.deposit}"
  let cps := s.cp.pool.filterMap fun (d, v) => if v = 0 then none else some s!"{d}|{v}"
  s!"h={s.height} seq={s.seq} pools={showList ps} farmers={showList fs} queue={showList qs} bals={showList bs} esc={showList es} props={showList prs} cp={showList cps}"

def parseRule (s : String) : Option Rule :=
  match s.splitOn ":" with
  | [d, tot, rem, rpb, rps] => do
    let tot ← tot.toNat?
    let rem ← rem.toNat?
    let rpb ← rpb.toNat?
    let rps ← rps.toInt?
    some { denom := d, total := tot, remaining := rem, rpb := rpb, rps := ⟨rps⟩ }
  | _ => none

def items (s : String) : List String := if s = "-" then [] else s.splitOn ","

/-- the state an observation line shows (params are not observed: kept from `base`) -/
def parseState (base : State) (t : List String) : Option State := do
  let h ← intArg? t "h"
  let seq ← natArg? t "seq"
  let mut s : State := { base with height := h, seq := seq, pools := [], farmers := [], queue := [], bank := {}, resp := [],
                                   cp := { base.cp with pool := [], escrow := [], props := [] } }
  for e in items (arg t "pools") do
    match e.splitOn "|" with
    | [id, creator, desc, start, endH, last, ed, lpt, locked, rules] =>
      let rs ← (if rules = "-" then some [] else (rules.splitOn ";").mapM parseRule)
      let start ← start.toInt?
      let endH ← endH.toInt?
      let last ← last.toInt?
      let locked ← locked.toNat?
      let p : Pool := { creator := creator, desc := if desc = "-" then "" else desc, start := start, endH := endH,
                        last := last, editable := ed = "1", lpt := lpt, locked := locked, rules := rs }
      s := { s with pools := s.pools ++ [(id, p)] }
    | _ => none
  for e in items (arg t "farmers") do
    match e.splitOn "|" with
    | [a, id, locked, debt] =>
      let locked ← locked.toNat?
      let debt ← parseCoinsSep ";" debt
      s := { s with farmers := s.farmers ++ [((a, id), { locked := locked, debt := debt })] }
    | _ => none
  for e in items (arg t "queue") do
    match e.splitOn "|" with
    | [h, id] =>
      let h ← h.toNat?
      s := { s with queue := s.queue ++ [((h : Int), id)] }
    | _ => none
  for e in items (arg t "bals") do
    match e.splitOn "|" with
    | [a, d, v] =>
      let v ← v.toNat?
      s := { s with bank := s.bank.setBal a d v }
    | _ => none
  for e in items (arg t "esc") do
    match e.splitOn "|" with
    | [pid, proposer, applied, self] =>
      let pid ← pid.toNat?
      let applied ← parseCoinsSep ";" applied
      let self ← parseCoinsSep ";" self
      s := { s with cp := { s.cp with escrow := s.cp.escrow ++ [(pid, { proposer := proposer, applied := applied, selfBond := self })] } }
    | _ => none
  for e in items (arg t "props") do
    match e.splitOn "|" with
    | [pid, st, dep] =>
      let pid ← pid.toNat?
      let st ← parseStatus st
      let dep ← dep.toNat?
      -- the content is not observed: kept from the pre-state when the proposal is known
      let old := AMap.get? base.cp.props pid
      let pr : Proposal := { proposer := (old.map (·.proposer)).getD "", status := st, deposit := dep,
                             content := (old.map (·.content)).getD default }
      s := { s with cp := { s.cp with props := s.cp.props ++ [(pid, pr)] } }
    | _ => none
  for e in items (arg t "cp") do
    match e.splitOn "|" with
    | [d, v] =>
      let v ← v.toNat?
      s := { s with cp := { s.cp with pool := s.cp.pool ++ [(d, v)] } }
    | _ => none
  let rw ← parseCoinsSep ";" (arg t "reward")
  return { s with resp := rw }

/-- the exported genesis document: pools in ITS OWN order, farmer records as a sorted set -/
def showGenesis (g : FarmGenesis.Genesis) : String :=
  let ps := g.pools.map fun (id, p) =>
    s!"{id}|{p.creator}|{if p.desc = "" then "-" else p.desc}|{p.start}|{p.endH}|{p.last}|{if p.editable then 1 else 0}|{p.lpt}|{p.locked}|{if p.rules = [] then "-" else joinWith ";" (p.rules.map showRule)}"
  let fs := g.farmers.map fun ((a, id), f) => s!"{a}|{id}|{f.locked}|{showCoins ";" f.debt}"
  let es := g.escrow.map fun (pid, e) => s!"{pid}|{e.proposer}|{showCoins ";" e.applied}|{showCoins ";" e.selfBond}"
  s!"gseq={g.seq} gfee={g.params.fee} gtax={g.params.tax.raw} gmaxcat={g.params.maxcat} gescrow={if es = [] then "-" else joinWith "," es} fiorder=ok " ++
  s!"gpools={if ps = [] then "-" else joinWith "," ps} gfarmers={showList fs}"

/-- the escrow infos of an exported document, in the document's order -/
def parseGEscrow (s : String) : Option (List (Nat × Escrow)) :=
  (items s).mapM fun e =>
    match e.splitOn "|" with
    | [pid, proposer, applied, self] => do
      let pid ← pid.toNat?
      let applied ← parseCoinsSep ";" applied
      let self ← parseCoinsSep ";" self
      some (pid, { proposer := proposer, applied := applied, selfBond := self })
    | _ => none

def validateWord (g : FarmGenesis.Genesis) : String :=
  match FarmGenesis.validateGenesis g with
  | .ok _ => "ok"
  | .error (.reject _) => "err"
  | .error (.panic _) => "panic"

def obsLine (res : String) (s : State) (withReward : Bool) : String :=
  s!"{res} reward={if withReward then showCoins ";" s.resp else "-"} {showState s}"

def isReward : Op → Bool
  | .stake .. | .unstake .. | .harvest .. => true
  | _ => false

def modelLine (s : State) (line : String) : State × String :=
  let t := tokens line
  match t with
  | "farm" :: "reset" :: r =>
    match parseReset r with
    | some s0 => (s0, obsLine "ok" s0 false)
    | none => (s, "bad-op")
  | _ =>
    match t with
    | ["farm", "export"] =>
      -- an application exports committed state: the current block is finished first
      let r := endBlocks 1 s
      if r.2 then
        (r.1, "panic validate=- gseq=- gfee=- gtax=- gmaxcat=- gescrow=- fiorder=- gpools=- gfarmers=- " ++ "reward=- " ++ showState r.1)
      else
        let g := FarmGenesis.exportGenesis r.1
        (r.1, s!"ok validate={validateWord g} {showGenesis g} reward=- {showState r.1}")
    | ["farm", "reimport"] =>
      let r := endBlocks 1 s
      if r.2 then (r.1, "panic same=- reward=- " ++ showState r.1)
      else
        match FarmGenesis.importGenesis r.1 (FarmGenesis.exportGenesis r.1) with
        | .ok s' => (s', s!"ok same={if showState s' == showState r.1 then 1 else 0} reward=- {showState s'}")
        | .error _ => (r.1, s!"panic same=1 reward=- {showState r.1}")
    | _ =>
    match parseOp t with
    | none => (s, "bad-op")
    | some (.endBlocks n) =>
      let r := endBlocks n s
      (r.1, obsLine (if r.2 then "panic" else "ok") r.1 false)
    | some (.cpPass pid) =>
      let r := govVote s pid true
      (if r.2 then s else r.1, obsLine (if r.2 then "panic" else if govDue s pid false then "ok" else "rej") (if r.2 then s else r.1) false)
    | some (.cpReject pid) =>
      let r := govVote s pid false
      (if r.2 then s else r.1, obsLine (if r.2 then "panic" else if govDue s pid false then "ok" else "rej") (if r.2 then s else r.1) false)
    | some (.cpFailDeposit pid) =>
      let r := govFailDeposit s pid
      (if r.2 then s else r.1, obsLine (if r.2 then "panic" else if govDue s pid true then "ok" else "rej") (if r.2 then s else r.1) false)
    | some op =>
      match step s op with
      | .ok s' => (s', obsLine "ok" s' (isReward op))
      | .error (.reject _) => (s, obsLine "rej" s false)
      | .error (.panic _) => (s, obsLine "panic" s false)

def runModel (ops : Array String) : IO Unit := do
  let mut s : State := {}
  let out ← IO.getStdout
  for l in ops do
    let (s', o) := modelLine s l
    s := s'
    out.putStrLn o

/-- shared monitor loop: `check pre op res post line` returns the failure descriptions
(`clause=… [class=…]`) of one step; `st` is the monitor's own accumulator -/
def runMonitor {σ : Type} (name : String) (init : State → σ)
    (check : σ → State → Op → String → State → σ × List String)
    (ops obs : Array String) : IO Unit := do
  let out ← IO.getStdout
  if ops.size ≠ obs.size then
    out.putStrLn s!"mon {name} FAIL clause=stream-length ops={ops.size} obs={obs.size}"
    return
  let mut pre : State := {}
  let mut st : σ := init {}
  let mut fails := 0
  let mut steps := 0
  for i in [0:ops.size] do
    let t := tokens ops[i]!
    let o := tokens obs[i]!
    match t with
    | "farm" :: "reset" :: r =>
      match parseReset r, parseState {} o with
      | some s0, some s =>
        pre := { s with params := s0.params }
        st := init pre
      | _, _ => out.putStrLn s!"mon {name} FAIL clause=obs-parse line={i+1}"; fails := fails + 1
    | _ =>
      -- `farm export` / `farm reimport` finish the current block first: for C05/C06/C13 they are a block end
      let t := match t with
        | ["farm", "export"] | ["farm", "reimport"] => ["farm", "end_block", "n=1"]
        | _ => t
      match parseOp t, parseState pre o with
      | some op, some post =>
        steps := steps + 1
        let (st', fs) := check st pre op (o.head?.getD "") post
        st := st'
        for f in fs do
          out.putStrLn s!"mon {name} FAIL {f} line={i+1}"
          fails := fails + 1
        pre := post
      | _, _ => out.putStrLn s!"mon {name} FAIL clause=parse line={i+1}"; fails := fails + 1
  out.putStrLn s!"mon {name} done steps={steps} fails={fails}"

/-- C12 (farm slice): judges the `export` / `reimport` lines of the implementation's stream -/
def runMonitorC12 (ops obs : Array String) : IO Unit := do
  let out ← IO.getStdout
  if ops.size ≠ obs.size then
    out.putStrLn s!"mon C12 FAIL clause=stream-length ops={ops.size} obs={obs.size}"
    return
  let mut pre : State := {}
  let mut fails := 0
  let mut steps := 0
  for i in [0:ops.size] do
    let t := tokens ops[i]!
    let o := tokens obs[i]!
    match t with
    | "farm" :: "reset" :: r =>
      match parseReset r, parseState {} o with
      | some s0, some s => pre := { s with params := s0.params }
      | _, _ => out.putStrLn s!"mon C12 FAIL clause=obs-parse line={i+1}"; fails := fails + 1
    | ["farm", "export"] =>
      match parseState pre o with
      | some post =>
        steps := steps + 1
        for f in Spec.C12Farm.checkExport (o.head?.getD "") (arg o "validate") (parseGEscrow (arg o "gescrow")) (arg o "fiorder") post do
          out.putStrLn s!"mon C12 FAIL {f} line={i+1}"; fails := fails + 1
        pre := post
      | none => out.putStrLn s!"mon C12 FAIL clause=obs-parse line={i+1}"; fails := fails + 1
    | ["farm", "reimport"] =>
      match parseState pre o with
      | some post =>
        steps := steps + 1
        for f in Spec.C12Farm.checkReimport pre (o.head?.getD "") (arg o "same") post do
          out.putStrLn s!"mon C12 FAIL {f} line={i+1}"; fails := fails + 1
        pre := post
      | none => out.putStrLn s!"mon C12 FAIL clause=obs-parse line={i+1}"; fails := fails + 1
    | _ =>
      match parseState pre o with
      | some post => pre := post
      | none => out.putStrLn s!"mon C12 FAIL clause=parse line={i+1}"; fails := fails + 1
  out.putStrLn s!"mon C12 done steps={steps} fails={fails}"

def readLines (p : String) : IO (Array String) := do
  let c ← IO.FS.readFile p
  return (c.splitOn "\n").toArray.filter (· ≠ "")

def main (args : List String) : IO UInt32 := do
  match args with
  | ["model", ops] => runModel (← readLines ops); return 0
  | ["monitor", "C05", ops, obs] =>
    runMonitor "C05" Spec.C05.Mon.init Spec.C05.check (← readLines ops) (← readLines obs); return 0
  | ["monitor", "C06", ops, obs] =>
    runMonitor "C06" Spec.C06.Mon.init Spec.C06.check (← readLines ops) (← readLines obs); return 0
  | ["monitor", "C13", ops, obs] =>
    runMonitor "C13" Spec.C13Farm.Mon.init Spec.C13Farm.check (← readLines ops) (← readLines obs); return 0
  | ["monitor", "C12", ops, obs] => runMonitorC12 (← readLines ops) (← readLines obs); return 0
  | _ => IO.eprintln "usage: model <ops> | monitor C05|C06|C12|C13 <ops> <obs>"; return 2

end Driver.Farm

def main (args : List String) : IO UInt32 := Driver.Farm.main args
