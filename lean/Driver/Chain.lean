/-
Driver for the whole-application chain experiments (harness/cmd/h_chain): the prediction is
that replicas agree (C11), no block halts (C13) and the application's own export re-imports
to a fixpoint (C12). Each property's monitor reads only its own keys of the observation.
-/
import Irismod.Sdk.Line

open Irismod.Line

def chainModel (line : String) : String :=
  match tokens line with
  | "chain" :: "hist" :: r =>
    if arg r "zero" = "1" then
      "ok halted=false apphash_same=true results_same=true registries_same=true export=ok import=ok reimported_halted=false"
    else
      "ok halted=false apphash_same=true results_same=true registries_same=true export=ok import=ok fixpoint=true reimported_halted=false"
  | _ => "bad-op"

def contains (s sub : String) : Bool := (s.splitOn sub).length > 1

/-- recorded C12 findings, by exact symptom -/
def classC12 (obs : String) : String :=
  if contains obs "import=InitChain_panic:_invalid_request_context_state" then " class=F-gen-6"
  else if contains obs "fixpoint=false differing=record " then " class=F-gen-3"
  else ""

def readLines (p : String) : IO (Array String) := do
  let c ← IO.FS.readFile p
  return (c.splitOn "\n").toArray.filter (· ≠ "")

def main (args : List String) : IO UInt32 := do
  let out ← IO.getStdout
  match args with
  | ["model", ops] =>
    for l in (← readLines ops) do out.putStrLn (chainModel l)
    return 0
  | ["monitor", prop, _ops, obs] =>
    let b ← readLines obs
    let mut fails := 0
    for i in [0:b.size] do
      let t := tokens b[i]!
      let bad (k want : String) : Bool := (arg? t k).isSome && arg t k ≠ want
      let missing (k : String) : Bool := (arg? t k).isNone
      if prop = "C11" then
        if bad "apphash_same" "true" || bad "results_same" "true" || bad "registries_same" "true" then
          fails := fails + 1
          out.putStrLn s!"mon C11 FAIL clause=replicas-diverge line={i+1} obs={b[i]!}"
      else if prop = "C13" then
        if bad "halted" "false" || bad "reimported_halted" "false" || bad "halted_after_export" "false" then
          fails := fails + 1
          out.putStrLn s!"mon C13 FAIL clause=block-processing-halted line={i+1} obs={b[i]!}"
      else if prop = "C12" then
        -- only experiments whose history ran to the export stage are judged
        if arg t "halted" = "false" then
          if bad "export" "ok" || bad "import" "ok" || bad "fixpoint" "true" || missing "import" then
            fails := fails + 1
            out.putStrLn s!"mon C12 FAIL clause=app-export-import line={i+1} obs={(b[i]!).take 300}{classC12 (b[i]! ++ " ")}"
    out.putStrLn s!"mon {prop} done steps={b.size} fails={fails}"
    return 0
  | _ => IO.eprintln "usage: model <ops> | monitor C11|C12|C13 <ops> <obs>"; return 2
