/-
Driver for C20: the wire model parses and re-encodes the bytes each family produced, and the
monitor checks every implementation observation against the property (cross-decode equality,
identical re-encoding) and against the regenerated descriptor of the message.
-/
import Irismod.Spec.C20
import Irismod.Sdk.Line

namespace Driver.Api
open Irismod Irismod.Line Irismod.Wire Irismod.Gen.Api

def natsOfBytes (b : ByteArray) : List Nat := b.toList.map (·.toNat)
def bytesOfNats (l : List Nat) : ByteArray := ByteArray.mk (l.map UInt8.ofNat).toArray

def dash (s : String) : String := if s = "-" then "" else s
def undash (s : String) : String := if s = "" then "-" else s

def modelLine (line : String) : String :=
  let t := tokens line
  match t with
  | "api" :: "msg" :: r =>
    if arg r "suspect" = "1" then "rej" else
    match bytesOfHex (dash (arg r "bytes")) with
    | none => "bad-op"
    | some b =>
      match decodeFields (natsOfBytes b) with
      | none => "rej"
      | some fs => s!"ok g={undash (hexOfBytes (bytesOfNats (encodeFields fs)))} back=true"
  | _ => "bad-op"

/-- descriptor of a top-level message from the regenerated table (gogo family; equal to pulsar by theorem) -/
def descriptorOf (name : String) : Option (List Field) :=
  let rec find : List String → List String → Option String
    | n :: ns, b :: bs => if n = "message:" ++ name then some b else find ns bs
    | _, _ => none
  match find gogoNames gogoBytes with
  | none => none
  | some hex => (bytesOfHex hex).bind fun b => decodeFields (natsOfBytes b)

def varintOf (fs : List Field) (num : Nat) : Option Nat :=
  fs.findSome? fun f => if f.num = num then (match f.val with | .varint n => some n | _ => none) else none

/-- (number, type, label) of every declared field -/
def declaredFields (desc : List Field) : List (Nat × Nat × Nat) :=
  desc.filterMap fun f =>
    if f.num = 2 then
      match f.val with
      | .bytes bs =>
        match decodeFields bs with
        | some ff => some ((varintOf ff 3).getD 0, (varintOf ff 5).getD 0, (varintOf ff 4).getD 0)
        | none => none
      | _ => none
    else none

def expectedWire (ty : Nat) : Nat :=
  if ty = 1 ∨ ty = 6 ∨ ty = 16 then 1
  else if ty = 2 ∨ ty = 7 ∨ ty = 15 then 5
  else if ty = 9 ∨ ty = 11 ∨ ty = 12 then 2
  else 0

/-- every field present in the bytes is declared, with the declared wire type (packed allowed for repeated scalars) -/
def conforms (decl : List (Nat × Nat × Nat)) (fs : List Field) : Bool :=
  fs.all fun f =>
    match decl.find? (fun d => d.1 = f.num) with
    | none => false
    | some (_, ty, label) =>
      wireType f.val = expectedWire ty || (label = 3 && wireType f.val = 2)

def runModel (ops : Array String) : IO Unit := do
  let out ← IO.getStdout
  for l in ops do out.putStrLn (modelLine l)

def runMonitor (ops obs : Array String) : IO Unit := do
  let out ← IO.getStdout
  let mut fails := 0
  let mut steps := 0
  let mut checkedDesc := 0
  if ops.size ≠ obs.size then
    out.putStrLn s!"mon C20 FAIL clause=stream-length"
    return
  for i in [0:ops.size] do
    let t := tokens ops[i]!
    let o := tokens obs[i]!
    match t with
    | "api" :: "msg" :: r =>
      steps := steps + 1
      let suspect := arg r "suspect" = "1"
      let cls := if suspect then " class=F-api-1" else ""
      let bytes := arg r "bytes"
      match o with
      | "ok" :: rest =>
        if arg rest "g" ≠ bytes then
          out.putStrLn s!"mon C20 FAIL clause=reencode-differs line={i+1} msg={arg r "name"}{cls}"; fails := fails + 1
        if arg rest "back" ≠ "true" then
          out.putStrLn s!"mon C20 FAIL clause=decode-back-differs line={i+1} msg={arg r "name"}{cls}"; fails := fails + 1
        match descriptorOf (arg r "name"), (bytesOfHex (dash bytes)).bind (fun b => decodeFields (natsOfBytes b)) with
        | some desc, some fs =>
          checkedDesc := checkedDesc + 1
          if !(conforms (declaredFields desc) fs) then
            out.putStrLn s!"mon C20 FAIL clause=bytes-vs-descriptor line={i+1} msg={arg r "name"}{cls}"; fails := fails + 1
        | _, _ => pure ()
      | _ =>
        out.putStrLn s!"mon C20 FAIL clause=cross-decode line={i+1} msg={arg r "name"}{cls}"; fails := fails + 1
    | _ => out.putStrLn s!"mon C20 FAIL clause=parse line={i+1}"; fails := fails + 1
  out.putStrLn s!"mon C20 done steps={steps} fails={fails} descriptor_checked={checkedDesc}"

def readLines (p : String) : IO (Array String) := do
  let c ← IO.FS.readFile p
  return (c.splitOn "\n").toArray.filter (· ≠ "")

end Driver.Api

def main (args : List String) : IO UInt32 := do
  match args with
  | ["model", ops] => Driver.Api.runModel (← Driver.Api.readLines ops); return 0
  | ["monitor", "C20", ops, obs] => Driver.Api.runMonitor (← Driver.Api.readLines ops) (← Driver.Api.readLines obs); return 0
  | _ => IO.eprintln "usage: model <ops> | monitor C20 <ops> <obs>"; return 2
