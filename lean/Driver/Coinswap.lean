/-
Line-protocol driver for the coinswap model and the C01 / C02 monitors.
  model   <ops>               : prints one observation line per op line
  monitor <C01|C02|C12> <ops> <obs> : evaluates Spec.C01 / Spec.C02 on the implementation's observation
                                stream; C12 judges the `export` / `reimport` lines (genesis round trip)
-/
import Irismod.Spec.C01
import Irismod.Spec.C02
import Irismod.Model.CoinswapGenesis
import Irismod.Spec.C12_Coinswap
import Irismod.Sdk.Line

namespace Driver.Coinswap
open Irismod Irismod.Sdk Irismod.Coinswap Irismod.Line

def dash (s : String) : String := if s = "-" then "" else s
def undash (s : String) : String := if s = "" then "-" else s

/-- a decimal integer inside the `sdkmath.Int` range -/
def int256? (s : String) : Option Int :=
  match s.toInt? with
  | some v => if v.natAbs < pow2_256 then some v else none
  | none => none

def nat256? (s : String) : Option Nat :=
  match s.toNat? with
  | some v => if v < pow2_256 then some v else none
  | none => none

def int64? (s : String) : Option Int :=
  match s.toInt? with
  | some v => if -9223372036854775808 ≤ v ∧ v < 9223372036854775808 then some v else none
  | none => none

/-- `amt:denom` -/
def coin? (s : String) : Option (Int × Denom) :=
  match s.splitOn ":" with
  | [a, d] => (int256? a).map fun v => (v, dash d)
  | _ => none

def bool? (s : String) : Option Bool := if s = "1" then some true else if s = "0" then some false else none

/-- parse a state-changing op line; `none` = malformed (never defaulted) -/
def parseOp (t : List String) : Option Op :=
  match t with
  | "coinswap" :: "block" :: r => (natArg? r "t").map Op.block
  | "coinswap" :: "swap" :: r => do
    let i ← coin? (arg r "in")
    let o ← coin? (arg r "out")
    let b ← bool? (arg r "buy")
    let dl ← int64? (arg r "deadline")
    some (.swap (dash (arg r "sender")) (dash (arg r "recv")) i.2 i.1 o.2 o.1 b dl)
  | "coinswap" :: "add" :: r => do
    let m ← coin? (arg r "max")
    let sa ← int256? (arg r "std")
    let ml ← int256? (arg r "minl")
    let dl ← int64? (arg r "deadline")
    some (.add (dash (arg r "sender")) m.2 m.1 sa ml dl)
  | "coinswap" :: "remove" :: r => do
    let l ← coin? (arg r "lpt")
    let ms ← int256? (arg r "minstd")
    let mt ← int256? (arg r "mintok")
    let dl ← int64? (arg r "deadline")
    some (.remove (dash (arg r "sender")) l.2 l.1 ms mt dl)
  | "coinswap" :: "add1" :: r => do
    let k ← coin? (arg r "tok")
    let ml ← int256? (arg r "minl")
    let dl ← int64? (arg r "deadline")
    some (.add1 (dash (arg r "sender")) (dash (arg r "cp")) k.2 k.1 ml dl)
  | "coinswap" :: "rem1" :: r => do
    let k ← coin? (arg r "min")
    let l ← int256? (arg r "lpt")
    let dl ← int64? (arg r "deadline")
    some (.rem1 (dash (arg r "sender")) (dash (arg r "cp")) k.2 k.1 l dl)
  | "coinswap" :: "donate" :: r => do
    let c ← coin? (arg r "coin")
    if c.1 ≤ 0 then none else
    some (.donate (arg r "from") (arg r "to") c.2 c.1.toNat)
  | "coinswap" :: "params" :: r => do
    let fee ← (arg r "fee").toInt?
    let tax ← (arg r "tax").toInt?
    let ufee ← (arg r "ufee").toInt?
    let p ← coin? (arg r "pcf")
    some (.setParams (dash (arg r "auth")) fee tax ufee p.2 p.1)
  | _ => none

/-- the pure pricing ops: `some (some v)` value, `some none` panic, `none` malformed -/
def parsePrice (t : List String) : Option (Bool × Nat × Nat × Nat × Nat) :=
  match t with
  | "coinswap" :: "price_in" :: r => do
    let x ← nat256? (arg r "x"); let y ← nat256? (arg r "y"); let dx ← nat256? (arg r "dx")
    let fee ← (arg r "fee").toNat?
    if fee ≤ D then some (true, dx, x, y, fee) else none
  | "coinswap" :: "price_out" :: r => do
    let x ← nat256? (arg r "x"); let y ← nat256? (arg r "y"); let dy ← nat256? (arg r "dy")
    let fee ← (arg r "fee").toNat?
    if fee ≤ D ∧ dy ≤ y then some (false, dy, x, y, fee) else none
  | _ => none

def priceLine (p : Bool × Nat × Nat × Nat × Nat) : String :=
  let r := if p.1 then inputPrice p.2.1 p.2.2.1 p.2.2.2.1 p.2.2.2.2 else outputPrice p.2.1 p.2.2.1 p.2.2.2.1 p.2.2.2.2
  match r with
  | some v => s!"ok v={v}"
  | none => "panic"

def showCoins (l : CoinList) : String :=
  undash (joinWith "," (sortStrings (l.map fun c => s!"{c.1}:{c.2}")))

/-- `GetPoolByLptDenom(lpt-i)` for every sequence handed out so far -/
def showLpts (s : State) : String :=
  undash (joinWith "," ((Spec.C12.Coinswap.lptIndex s).map fun e => s!"{e.1}:{e.2}"))

/-- the index as an observation line reports it -/
def parseLpts (t : List String) : Option (List (Denom × String)) :=
  (listOf (dash (arg t "lpts"))).mapM fun e =>
    match e.splitOn ":" with
    | [l, cp] => some (l, cp)
    | _ => none

def indexFails (o : List String) (post : State) : List String :=
  match parseLpts o with
  | some r => Spec.C12.Coinswap.indexFails r post
  | none => ["obs-parse"]

/-- canonical state line (sorted entries, zero entries omitted) -/
def showState (s : State) : String :=
  let ps := sortStrings (s.pools.map fun (cp, n) => s!"{cp}:{n}")
  let bs := sortStrings ((s.bank.bal.filter fun e => e.2 != 0).map fun ((a, d), v) => s!"{a}/{d}:{v}")
  let ss := sortStrings ((s.bank.supply.filter fun e => e.2 != 0).map fun (d, v) => s!"{d}:{v}")
  s!"now={s.now} seq={s.seq} std={s.std} fee={s.params.fee} tax={s.params.tax} ufee={s.params.ufee} " ++
  s!"pcf={s.params.pcfAmt}:{s.params.pcfDenom} pools={undash (joinWith "," ps)} bal={undash (joinWith "," bs)} " ++
  s!"sup={undash (joinWith "," ss)} lpts={showLpts s}"

/-- parse the state part of an observation line (`blocked` is carried over from the reset op) -/
def parseState (t : List String) (blocked : List Addr) : Option State := do
  let now ← natArg? t "now"
  let seq ← natArg? t "seq"
  let fee ← natArg? t "fee"
  let tax ← natArg? t "tax"
  let ufee ← natArg? t "ufee"
  let pcf ← coin? (arg t "pcf")
  if pcf.1 < 0 then none
  let mut s : State := { now := now, seq := seq, std := arg t "std", blocked := blocked,
                         params := { fee := fee, tax := tax, ufee := ufee, pcfDenom := pcf.2, pcfAmt := pcf.1.toNat } }
  for e in listOf (dash (arg t "pools")) do
    match e.splitOn ":" with
    | [cp, n] => s := { s with pools := AMap.set s.pools cp (← n.toNat?) }
    | _ => none
  for e in listOf (dash (arg t "bal")) do
    match e.splitOn ":" with
    | [key, v] =>
      match key.splitOn "/" with
      | [a, d] => s := { s with bank := s.bank.setBal a d (← v.toNat?) }
      | _ => none
    | _ => none
  for e in listOf (dash (arg t "sup")) do
    match e.splitOn ":" with
    | [d, v] => s := { s with bank := { s.bank with supply := AMap.set s.bank.supply d (← v.toNat?) } }
    | _ => none
  return s

/-- the initial state described by a reset line -/
def parseReset (t : List String) : Option State := do
  let now ← natArg? t "now"
  let fee ← natArg? t "fee"
  let tax ← natArg? t "tax"
  let ufee ← natArg? t "ufee"
  let pcf ← coin? (arg t "pcf")
  if pcf.1 < 0 then none
  let mut s : State := { now := now, seq := 1, std := arg t "std", blocked := listOf (dash (arg t "blocked")),
                         params := { fee := fee, tax := tax, ufee := ufee, pcfDenom := pcf.2, pcfAmt := pcf.1.toNat } }
  for e in listOf (dash (arg t "fund")) do
    match e.splitOn ":" with
    | [key, v] =>
      match key.splitOn "/" with
      | [a, d] => s := { s with bank := s.bank.mint a d (← v.toNat?) }
      | _ => none
    | _ => none
  return s

/-- the exported genesis document in ITS OWN order (the order is part of what is compared) -/
def showGenesis (g : CoinswapGenesis.Genesis) : String :=
  let ps := g.pools.map fun p => s!"{p.id};{p.std};{p.cp};{p.escrow};{p.lpt}"
  s!"seq={g.seq} std={g.std} fee={g.params.fee} tax={g.params.tax} ufee={g.params.ufee} " ++
  s!"pcf={g.params.pcfAmt}:{g.params.pcfDenom} pools={undash (joinWith "|" ps)}"

def validateWord (g : CoinswapGenesis.Genesis) : String :=
  match CoinswapGenesis.validateGenesis g with
  | .ok _ => "ok"
  | .error _ => "err"

def resWord : R → String
  | .ok _ => "ok e=-"
  | .error (.reject c) => "rej e=" ++ c
  | .error (.panic _) => "panic e=-"

def modelLine (s : State) (line : String) : State × String :=
  let t := tokens line
  match t with
  | "coinswap" :: "reset" :: r =>
    match parseReset r with
    | some s0 => (s0, "ok e=- resp=- " ++ showState s0)
    | none => (s, "bad-op")
  | "coinswap" :: "ghost" :: _ =>
    -- an execution on a context that is thrown away: the state is what it was
    (s, "ghost " ++ showState s)
  | ["coinswap", "export"] =>
    let g := CoinswapGenesis.exportGenesis s
    (s, s!"ok validate={validateWord g} {showGenesis g}")
  | ["coinswap", "reimport"] =>
    -- InitGenesis(ExportGenesis(state)) on an emptied module store
    match CoinswapGenesis.importGenesis s (CoinswapGenesis.exportGenesis s) with
    | .ok s' => (s', "ok e=- resp=- " ++ showState s')
    | .error _ => (s, "panic e=- resp=- " ++ showState s)
  | _ =>
    match parsePrice t with
    | some p => (s, priceLine p)
    | none =>
      match parseOp t with
      | none => (s, "bad-op")
      | some op =>
        let r := step s op
        match r with
        | .ok (s', resp) => (s', resWord r ++ " resp=" ++ showCoins resp ++ " " ++ showState s')
        | .error _ => (s, resWord r ++ " resp=- " ++ showState s)

def runModel (ops : Array String) : IO Unit := do
  let mut s : State := {}
  let out ← IO.getStdout
  for l in ops do
    let (s', o) := modelLine s l
    s := s'
    out.putStrLn o

/-- monitors: the pre-state of each step is the previous *implementation* observation -/
def runMonitor (prop : String) (ops obs : Array String) : IO Unit := do
  let out ← IO.getStdout
  if ops.size ≠ obs.size then
    out.putStrLn s!"mon {prop} FAIL clause=stream-length ops={ops.size} obs={obs.size}"
    return
  let mut pre : State := {}
  let mut blocked : List Addr := []
  let mut fails := 0
  let mut steps := 0
  for i in [0:ops.size] do
    let t := tokens ops[i]!
    let o := tokens obs[i]!
    match t with
    | "coinswap" :: "reset" :: r =>
      blocked := listOf (dash (arg r "blocked"))
      match parseState o blocked with
      | some s =>
        pre := s
        if prop == "C12" then
          for c in indexFails o s do
            out.putStrLn s!"mon {prop} FAIL clause={c} line={i+1}"; fails := fails + 1
      | none => out.putStrLn s!"mon {prop} FAIL clause=obs-parse line={i+1}"; fails := fails + 1
    | "coinswap" :: "ghost" :: _ =>
      match parseState o blocked with
      | some post =>
        if showState post != showState pre then
          out.putStrLn s!"mon {prop} FAIL clause=ghost-visible line={i+1}"; fails := fails + 1
        pre := post
      | none => out.putStrLn s!"mon {prop} FAIL clause=obs-parse line={i+1}"; fails := fails + 1
    | ["coinswap", "export"] =>
      -- C12: the exported genesis of a reachable state passes ValidateGenesis
      if prop == "C12" then
        steps := steps + 1
        for c in Spec.C12.Coinswap.exportFails (arg o "validate" == "ok") do
          out.putStrLn s!"mon {prop} FAIL clause={c} line={i+1}"; fails := fails + 1
    | ["coinswap", "reimport"] =>
      -- C12: the re-import succeeds and preserves every query of the projection (pools, sequence,
      -- parameters, standard denom) and leaves the bank alone
      match parseState o blocked with
      | some post =>
        if prop == "C12" then
          steps := steps + 1
          for c in Spec.C12.Coinswap.reimportFails pre post (o.head? == some "ok") ++ indexFails o post do
            out.putStrLn s!"mon {prop} FAIL clause={c} line={i+1}"; fails := fails + 1
        pre := post
      | none => out.putStrLn s!"mon {prop} FAIL clause=obs-parse line={i+1}"; fails := fails + 1
    | _ =>
      match parsePrice t with
      | some p =>
        if prop != "C12" then steps := steps + 1
        if prop == "C01" then
          let v : Option (Option Nat) := match o with
            | ["panic"] => some none
            | ["ok", w] => (natArg? [w] "v").map some
            | _ => none
          match v with
          | none => out.putStrLn s!"mon {prop} FAIL clause=obs-parse line={i+1}"; fails := fails + 1
          | some res =>
            for c in Spec.C01.priceFails p.1 p.2.1 p.2.2.1 p.2.2.2.1 p.2.2.2.2 res do
              out.putStrLn s!"mon {prop} FAIL clause={c} line={i+1}"; fails := fails + 1
      | none =>
        match parseOp t, parseState o blocked with
        | some op, some post =>
          if prop != "C12" then steps := steps + 1
          let accepted := o.head? == some "ok"
          let cs := if prop == "C01" then Spec.C01.stepFails pre op accepted post
                    else if prop == "C02" then Spec.C02.stepFails pre op accepted post
                    else []
          for c in cs do
            out.putStrLn s!"mon {prop} FAIL clause={c.1} line={i+1}{if c.2 = "" then "" else " class=" ++ c.2}"
            fails := fails + 1
          -- C12: the lpt-denom index of the registry agrees with the pool list after every message
          if prop == "C12" then
            for c in indexFails o post do
              out.putStrLn s!"mon {prop} FAIL clause={c} line={i+1}"; fails := fails + 1
          pre := post
        | _, _ => out.putStrLn s!"mon {prop} FAIL clause=parse line={i+1}"; fails := fails + 1
  out.putStrLn s!"mon {prop} done steps={steps} fails={fails}"

def readLines (p : String) : IO (Array String) := do
  let c ← IO.FS.readFile p
  return (c.splitOn "\n").toArray.filter (· ≠ "")

def main (args : List String) : IO UInt32 := do
  match args with
  | ["model", ops] => runModel (← readLines ops); return 0
  | ["monitor", "C01", ops, obs] => runMonitor "C01" (← readLines ops) (← readLines obs); return 0
  | ["monitor", "C02", ops, obs] => runMonitor "C02" (← readLines ops) (← readLines obs); return 0
  | ["monitor", "C12", ops, obs] => runMonitor "C12" (← readLines ops) (← readLines obs); return 0
  | _ => IO.eprintln "usage: model <ops> | monitor C01|C02|C12 <ops> <obs>"; return 2

end Driver.Coinswap

def main (args : List String) : IO UInt32 := Driver.Coinswap.main args
