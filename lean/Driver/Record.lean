/-
Line-protocol driver for the record model and the C19 monitor.
  model   <ops>            : one observation line per op line
  monitor C19 <ops> <obs>  : evaluates Spec.C19 on the implementation's observation stream

ops:
  record reset addrs=A0:<bech32>,A1:<bech32>,...
  record tx tx=<hex tx bytes> msgs=<msg>;<msg>...      msg = <creator>:<content>,<content>...
        creator = a name of the reset table, or X<hex of an invalid creator string>
        content = <hex digest>~<hex algo>~<hex uri>~<hex meta>
  record query id=<hex>
  record query_all
  record next_block
-/
import Irismod.Spec.C19

namespace Driver.Record
open Irismod Irismod.Record Irismod.Line

abbrev Table := List (String × String)

def strOfHex (h : String) : Option String := do
  let b ← bytesOfHex h
  String.fromUTF8? b

def hexOfStr (s : String) : String := hexOfBytes s.toUTF8

def parseContent (s : String) : Option Content :=
  match s.splitOn "~" with
  | [a, b, c, d] => do
    some { digest := ← strOfHex a, algo := ← strOfHex b, uri := ← strOfHex c, metadata := ← strOfHex d }
  | _ => none

def parseMsg (tbl : Table) (s : String) : Option Msg :=
  match s.splitOn ":" with
  | [who, cs] => do
    let contents ← (listOf cs).mapM parseContent
    if who.startsWith "X" then
      let raw ← strOfHex (who.drop 1).toString
      some { creator := raw, creatorOk := false, contents := contents }
    else
      let b ← tbl.lookup who
      some { creator := b, creatorOk := true, contents := contents }
  | _ => none

def idOfHex (h : String) : Option Id := (bytesOfHex h).map (·.data)
def hexOfId (i : Id) : String := hexOfBytes (ByteArray.mk i)

def parseOp (tbl : Table) (t : List String) : Option Op :=
  match t with
  | "record" :: "tx" :: r => do
    let b ← bytesOfHex (if arg r "tx" = "-" then "" else arg r "tx")
    let ms := arg r "msgs"
    let msgs ← (if ms = "" then [] else ms.splitOn ";").mapM (parseMsg tbl)
    some (.tx b msgs)
  | ["record", "query", a] => do
    let h ← arg? [a] "id"
    some (.query (← idOfHex h))
  | ["record", "query_all"] => some .queryAll
  | ["record", "next_block"] => some .nextBlock
  | _ => none

def parseTable (t : List String) : Option Table :=
  (listOf (arg t "addrs")).mapM fun e =>
    match e.splitOn ":" with
    | [n, b] => some (n, b)
    | _ => none

def showContent (c : Content) : String :=
  s!"{hexOfStr c.digest}~{hexOfStr c.algo}~{hexOfStr c.uri}~{hexOfStr c.metadata}"

def showRec (r : Rec) : String :=
  s!"{r.txHash}|{r.creator}|{joinWith "," (r.contents.map showContent)}"

def parseRec (s : String) : Option Rec :=
  match s.splitOn "|" with
  | [h, c, cs] => do
    let contents ← (listOf cs).mapM parseContent
    some { txHash := h, creator := c, contents := contents }
  | _ => none

def emptyRec : Rec := { txHash := "", contents := [], creator := "" }

def showPairs (ps : List (String × Rec)) : String :=
  if ps.isEmpty then "-" else joinWith ";" (ps.map fun p => s!"{p.1}={showRec p.2}")

def parsePairs (s : String) : Option (List (String × Rec)) :=
  if s = "-" then some [] else
  (s.splitOn ";").mapM fun e =>
    match e.splitOn "=" with
    | [i, r] => do some (i, ← parseRec r)
    | _ => none

def counts (s : State) : String := s!"ctr={s.counter.toNat} n={s.recs.length}"

def dump (s : State) : String :=
  let es := sortStrings (s.recs.map fun (i, r) => s!"{hexOfId i}={showRec r}")
  if es.isEmpty then "-" else joinWith ";" es

def resWord : Except Err State → String
  | .ok _ => "ok"
  | .error (.reject _) => "rej"
  | .error (.panic _) => "panic"

def modelLine (tbl : Table) (s : State) (line : String) : Table × State × String :=
  let t := tokens line
  match t with
  | "record" :: "reset" :: r =>
    match parseTable r with
    | some tb => (tb, {}, "ok " ++ counts {})
    | none => (tbl, s, "bad-op")
  | _ =>
    match parseOp tbl t with
    | none => (tbl, s, "bad-op")
    | some op =>
      let r := step s op
      let s' := match r with | .ok s' => s' | .error _ => s
      let extra :=
        match op with
        | .tx _ _ =>
          -- the records stored by this transaction, in creation order, read back from the new state
          let es := Spec.C19.opEntries s op
          "new=" ++ showPairs (es.map fun (e : Spec.C19.Entry) => (hexOfId e.id, (getRecord s' e.id).getD emptyRec))
        | .query id =>
          match getRecord s' id with
          | some rc => s!"found=true rec={showRec rc}"
          | none => s!"found=false rec={showRec emptyRec}"
        | .queryAll => "recs=" ++ dump s'
        | .nextBlock => "-"
      (tbl, s', s!"{resWord r} {counts s'} {extra}")

def runModel (ops : Array String) : IO Unit := do
  let mut s : State := {}
  let mut tbl : Table := []
  let out ← IO.getStdout
  for l in ops do
    let (tb, s', o) := modelLine tbl s l
    s := s'
    tbl := tb
    out.putStrLn o

def runMonitor (ops obs : Array String) : IO Unit := do
  let out ← IO.getStdout
  if ops.size ≠ obs.size then
    out.putStrLn s!"mon C19 FAIL clause=stream-length ops={ops.size} obs={obs.size}"
    return
  let mut known : Spec.C19.Known := []
  let mut tbl : Table := []
  let mut n : Nat := 0
  let mut fails := 0
  let mut steps := 0
  for i in [0:ops.size] do
    let t := tokens ops[i]!
    let o := tokens obs[i]!
    match t with
    | "record" :: "reset" :: r =>
      match parseTable r with
      | some tb => tbl := tb; known := []; n := (natArg? o "n").getD 0
      | none => out.putStrLn s!"mon C19 FAIL clause=parse line={i+1}"; fails := fails + 1
    | _ =>
      match parseOp tbl t, natArg? o "n" with
      | some op, some n' =>
        steps := steps + 1
        let word := o.head?.getD ""
        if word == "panic" then
          out.putStrLn s!"mon C19 FAIL clause=panic line={i+1}"; fails := fails + 1
        match op with
        | .tx b msgs =>
          match parsePairs (arg o "new") with
          | none => out.putStrLn s!"mon C19 FAIL clause=obs-parse line={i+1}"; fails := fails + 1
          | some ret =>
            if word == "ok" then
              if !(Spec.C19.createOk known (txHashOf b) msgs ret) then
                out.putStrLn s!"mon C19 FAIL clause=create-readback-unique line={i+1}"; fails := fails + 1
              known := Spec.C19.learn known ret
            else
              if !(ret.isEmpty && n' == n) then
                out.putStrLn s!"mon C19 FAIL clause=rejected-but-stored line={i+1}"; fails := fails + 1
        | .query id =>
          match parseRec (arg o "rec") with
          | none => out.putStrLn s!"mon C19 FAIL clause=obs-parse line={i+1}"; fails := fails + 1
          | some rc =>
            if !(Spec.C19.readOk known (hexOfId id) (arg o "found" == "true") rc) then
              out.putStrLn s!"mon C19 FAIL clause=read-differs line={i+1}"; fails := fails + 1
        | .queryAll =>
          match parsePairs (arg o "recs") with
          | none => out.putStrLn s!"mon C19 FAIL clause=obs-parse line={i+1}"; fails := fails + 1
          | some d =>
            if !(Spec.C19.dumpOk known d) then
              out.putStrLn s!"mon C19 FAIL clause=record-lost-or-altered line={i+1}"; fails := fails + 1
        | .nextBlock => pure ()
        -- the store never shrinks
        if n' < n then
          out.putStrLn s!"mon C19 FAIL clause=store-shrank line={i+1}"; fails := fails + 1
        n := n'
      | _, _ => out.putStrLn s!"mon C19 FAIL clause=parse line={i+1}"; fails := fails + 1
  out.putStrLn s!"mon C19 done steps={steps} fails={fails}"

def readLines (p : String) : IO (Array String) := do
  let c ← IO.FS.readFile p
  return (c.splitOn "\n").toArray.filter (· ≠ "")

def main (args : List String) : IO UInt32 := do
  match args with
  | ["model", ops] => runModel (← readLines ops); return 0
  | ["monitor", "C19", ops, obs] => runMonitor (← readLines ops) (← readLines obs); return 0
  | _ => IO.eprintln "usage: model <ops> | monitor C19 <ops> <obs>"; return 2

end Driver.Record

def main (args : List String) : IO UInt32 := Driver.Record.main args
