/-
Line-protocol driver for the record model and the C19 / C12 monitors.
  model   <ops>            : one observation line per op line
  monitor C19 <ops> <obs>  : evaluates Spec.C19 on the implementation's observation stream
  monitor C12 <ops> <obs>  : evaluates Spec.C12Record on the `export` / `reimport` lines (and the reads
                             after a re-import) of the implementation's observation stream

ops:
  record reset addrs=A0:<bech32>,A1:<bech32>,...
  record tx tx=<hex tx bytes> msgs=<msg>;<msg>...      msg = <creator>:<content>,<content>...
        creator = a name of the reset table, or X<hex of an invalid creator string>
        content = <hex digest>~<hex algo>~<hex uri>~<hex meta>
  record query id=<hex>
  record query_all
  record next_block
  record export        (C12) real ExportGenesis + ValidateGenesis; answered from `RecordGenesis`
        obs: ok <counts> validate=<ok|err|panic> grecs=<records of the document in its own order>
  record reimport      (C12) export, wipe the module store, InitGenesis; the history continues on the
        imported store.  obs: <ok|panic> <counts> same=<0|1> recs=<dump after>
-/
import Irismod.Spec.C19
import Irismod.Spec.C12_Record

namespace Driver.Record
open Irismod Irismod.Record Irismod.Line

abbrev Table := List (String × String)

def strOfHex (h : String) : Option String := do
  let b ← bytesOfHex h
  String.fromUTF8? b

def hexOfStr (s : String) : String := hexOfBytes s.toUTF8

def parseContent (s : String) : Option Content :=
  match s.splitOn "~" with
  | [a, b, c, d] => do
    some { digest := ← strOfHex a, algo := ← strOfHex b, uri := ← strOfHex c, metadata := ← strOfHex d }
  | _ => none

def parseMsg (tbl : Table) (s : String) : Option Msg :=
  match s.splitOn ":" with
  | [who, cs] => do
    let contents ← (listOf cs).mapM parseContent
    if who.startsWith "X" then
      let raw ← strOfHex (who.drop 1).toString
      some { creator := raw, creatorOk := false, contents := contents }
    else
      let b ← tbl.lookup who
      some { creator := b, creatorOk := true, contents := contents }
  | _ => none

def idOfHex (h : String) : Option Id := (bytesOfHex h).map (·.data)
def hexOfId (i : Id) : String := Spec.C19.hexId i

def parseOp (tbl : Table) (t : List String) : Option Op :=
  match t with
  | "record" :: "tx" :: r => do
    let b ← bytesOfHex (if arg r "tx" = "-" then "" else arg r "tx")
    let ms := arg r "msgs"
    let msgs ← (if ms = "" then [] else ms.splitOn ";").mapM (parseMsg tbl)
    some (.tx b msgs)
  | ["record", "query", a] => do
    let h ← arg? [a] "id"
    some (.query (← idOfHex h))
  | ["record", "query_all"] => some .queryAll
  | ["record", "next_block"] => some .nextBlock
  | _ => none

def parseTable (t : List String) : Option Table :=
  (listOf (arg t "addrs")).mapM fun e =>
    match e.splitOn ":" with
    | [n, b] => some (n, b)
    | _ => none

def showContent (c : Content) : String :=
  s!"{hexOfStr c.digest}~{hexOfStr c.algo}~{hexOfStr c.uri}~{hexOfStr c.metadata}"

def showRec (r : Rec) : String :=
  s!"{r.txHash}|{r.creator}|{joinWith "," (r.contents.map showContent)}"

def parseRec (s : String) : Option Rec :=
  match s.splitOn "|" with
  | [h, c, cs] => do
    let contents ← (listOf cs).mapM parseContent
    some { txHash := h, creator := c, contents := contents }
  | _ => none

def emptyRec : Rec := { txHash := "", contents := [], creator := "" }

def showPairs (ps : List (String × Rec)) : String :=
  if ps.isEmpty then "-" else joinWith ";" (ps.map fun p => s!"{p.1}={showRec p.2}")

def parsePairs (s : String) : Option (List (String × Rec)) :=
  if s = "-" then some [] else
  (s.splitOn ";").mapM fun e =>
    match e.splitOn "=" with
    | [i, r] => do some (i, ← parseRec r)
    | _ => none

def counts (s : State) : String := s!"ctr={s.counter.toNat} n={s.recs.length}"

def dump (s : State) : String :=
  let es := sortStrings (s.recs.map fun (i, r) => s!"{hexOfId i}={showRec r}")
  if es.isEmpty then "-" else joinWith ";" es

def showRecs (rs : List Rec) : String :=
  if rs.isEmpty then "-" else joinWith ";" (rs.map showRec)

def parseRecs (s : String) : Option (List Rec) :=
  if s = "-" then some [] else (s.splitOn ";").mapM parseRec

/-- the harness's canonical state string: counts and dump -/
def stateStr (s : State) : String := s!"{counts s} recs={dump s}"

def resWord : Except Err State → String
  | .ok _ => "ok"
  | .error (.reject _) => "rej"
  | .error (.panic _) => "panic"

def modelLine (tbl : Table) (s : State) (line : String) : Table × State × String :=
  let t := tokens line
  match t with
  | "record" :: "reset" :: r =>
    match parseTable r with
    | some tb => (tb, {}, "ok " ++ counts {})
    | none => (tbl, s, "bad-op")
  | ["record", "export"] =>
    -- the real `ExportGenesis` document and the verdict of the real `ValidateGenesis` on it
    let g := RecordGenesis.exportGenesis s
    let v := match RecordGenesis.validateGenesis g with
      | .ok _ => "ok"
      | .error (.reject _) => "err"
      | .error (.panic _) => "panic"
    (tbl, s, s!"ok {counts s} validate={v} grecs={showRecs g.records}")
  | ["record", "reimport"] =>
    -- export, wipe the whole module store (records and counter), `InitGenesis` on the empty store;
    -- a panicking `InitGenesis` is discarded with its cache
    match RecordGenesis.importGenesis (RecordGenesis.exportGenesis s) with
    | .ok s' =>
      let same := if stateStr s == stateStr s' then 1 else 0
      (tbl, s', s!"ok {counts s'} same={same} recs={dump s'}")
    | .error (.panic _) => (tbl, s, s!"panic {counts s} same=1 recs={dump s}")
    | .error (.reject _) => (tbl, s, s!"rej {counts s} same=1 recs={dump s}")
  | "record" :: "ghost_tx" :: r =>
    -- the transaction executed on a context that is thrown away: the ids it would hand out, the state as it was
    match parseOp tbl ("record" :: "tx" :: r) with
    | none => (tbl, s, "bad-op")
    | some op =>
      let res := step s op
      let ids := match res with
        | .ok _ => (Spec.C19.opEntries s op).map fun (e : Spec.C19.Entry) => hexOfId e.id
        | .error _ => []
      (tbl, s, s!"{resWord res} {counts s} ghost={if ids.isEmpty then "-" else joinWith ";" ids}")
  | _ =>
    match parseOp tbl t with
    | none => (tbl, s, "bad-op")
    | some op =>
      let r := step s op
      let s' := match r with | .ok s' => s' | .error _ => s
      let extra :=
        match op with
        | .tx _ _ =>
          -- the records stored by this transaction, in creation order, read back from the new state
          let es := Spec.C19.opEntries s op
          "new=" ++ showPairs (es.map fun (e : Spec.C19.Entry) => (hexOfId e.id, (getRecord s' e.id).getD emptyRec))
        | .query id =>
          match getRecord s' id with
          | some rc => s!"found=true rec={showRec rc}"
          | none => s!"found=false rec={showRec emptyRec}"
        | .queryAll => "recs=" ++ dump s'
        | .nextBlock => "-"
      (tbl, s', s!"{resWord r} {counts s'} {extra}")

def runModel (ops : Array String) : IO Unit := do
  let mut s : State := {}
  let mut tbl : Table := []
  let out ← IO.getStdout
  for l in ops do
    let (tb, s', o) := modelLine tbl s l
    s := s'
    tbl := tb
    out.putStrLn o

/-- monitor: parses each op / observation line and evaluates `Spec.C19.stepFails` (proved to return
`[]` on every model step: Proofs/RecordMonitor.lean); the memory carried from line to line is
`Spec.C19.Mon`, advanced by `Spec.C19.advance` -/
def runMonitor (ops obs : Array String) : IO Unit := do
  let out ← IO.getStdout
  if ops.size ≠ obs.size then
    out.putStrLn s!"mon C19 FAIL clause=stream-length ops={ops.size} obs={obs.size}"
    return
  let mut mon : Spec.C19.Mon := {}
  let mut tbl : Table := []
  let mut fails := 0
  let mut steps := 0
  for i in [0:ops.size] do
    let t := tokens ops[i]!
    let o := tokens obs[i]!
    match t with
    | "record" :: "reset" :: r =>
      match parseTable r with
      | some tb => tbl := tb; mon := Spec.C19.resetMon ((natArg? o "n").getD 0)
      | none => out.putStrLn s!"mon C19 FAIL clause=parse line={i+1}"; fails := fails + 1
    | "record" :: "ghost_tx" :: _ =>
      -- a discarded execution: the number of stored records is what it was
      if natArg? o "n" != some mon.n then
        out.putStrLn s!"mon C19 FAIL clause=ghost-visible line={i+1}"; fails := fails + 1
    | _ =>
      match parseOp tbl t, natArg? o "n" with
      | some op, some n' =>
        steps := steps + 1
        let word := o.head?.getD ""
        -- the payload of the observation line; one that does not parse is `Obs.none` (clause obs-parse)
        let payload : Spec.C19.Obs :=
          match op with
          | .tx _ _ => match parsePairs (arg o "new") with
            | some ret => .tx ret
            | none => .none
          | .query _ => match parseRec (arg o "rec") with
            | some rc => .query (arg o "found" == "true") rc
            | none => .none
          | .queryAll => match parsePairs (arg o "recs") with
            | some d => .dump d
            | none => .none
          | .nextBlock => .none
        for c in Spec.C19.stepFails mon op word n' payload do
          out.putStrLn s!"mon C19 FAIL clause={c} line={i+1}"; fails := fails + 1
        mon := Spec.C19.advance mon op word n' payload
      | _, _ => out.putStrLn s!"mon C19 FAIL clause=parse line={i+1}"; fails := fails + 1
  out.putStrLn s!"mon C19 done steps={steps} fails={fails}"

/-- C12 (record slice): judges the `export` / `reimport` lines of the implementation's stream and the
reads that follow them, against the store the implementation itself has shown so far -/
def runMonitorC12 (ops obs : Array String) : IO Unit := do
  let out ← IO.getStdout
  if ops.size ≠ obs.size then
    out.putStrLn s!"mon C12 FAIL clause=stream-length ops={ops.size} obs={obs.size}"
    return
  let mut known : Spec.C12Record.Store := []
  let mut issued : List String := []
  let mut ctr : Nat := 0
  let mut tbl : Table := []
  let mut fails := 0
  let mut steps := 0
  for i in [0:ops.size] do
    let t := tokens ops[i]!
    let o := tokens obs[i]!
    let word := o.head?.getD ""
    match t with
    | "record" :: "reset" :: r =>
      match parseTable r with
      | some tb => tbl := tb; known := []; issued := []; ctr := (natArg? o "ctr").getD 0
      | none => out.putStrLn s!"mon C12 FAIL clause=parse line={i+1}"; fails := fails + 1
    | ["record", "export"] =>
      steps := steps + 1
      match natArg? o "ctr", natArg? o "n", parseRecs (arg o "grecs") with
      | some c, some n, some doc =>
        for f in Spec.C12Record.checkExport known ctr word (arg o "validate") c n doc do
          out.putStrLn s!"mon C12 FAIL {f} line={i+1}"; fails := fails + 1
      | _, _, _ => out.putStrLn s!"mon C12 FAIL clause=obs-parse line={i+1}"; fails := fails + 1
    | ["record", "reimport"] =>
      steps := steps + 1
      match natArg? o "ctr", natArg? o "n", parsePairs (arg o "recs") with
      | some c, some n, some post =>
        for f in Spec.C12Record.checkReimport known ctr word c n post do
          out.putStrLn s!"mon C12 FAIL {f} line={i+1}"; fails := fails + 1
        known := post; ctr := c
      | _, _, _ => out.putStrLn s!"mon C12 FAIL clause=obs-parse line={i+1}"; fails := fails + 1
    | "record" :: "ghost_tx" :: _ =>
      if natArg? o "n" != some known.length then
        out.putStrLn s!"mon C12 FAIL clause=count-differs line={i+1}"; fails := fails + 1
    | _ =>
      match parseOp tbl t, natArg? o "ctr", natArg? o "n" with
      | some op, some c, some n =>
        steps := steps + 1
        if word == "panic" then
          out.putStrLn s!"mon C12 FAIL clause=panic line={i+1}"; fails := fails + 1
        match op with
        | .tx _ _ =>
          match parsePairs (arg o "new") with
          | none => out.putStrLn s!"mon C12 FAIL clause=obs-parse line={i+1}"; fails := fails + 1
          | some ret =>
            if word == "ok" then
              known := Spec.C12Record.learn known ret
              issued := issued ++ ret.map (·.1)
        | .query id =>
          match parseRec (arg o "rec") with
          | none => out.putStrLn s!"mon C12 FAIL clause=obs-parse line={i+1}"; fails := fails + 1
          | some rc =>
            for f in Spec.C12Record.checkQuery known issued (hexOfId id) (arg o "found" == "true") rc do
              out.putStrLn s!"mon C12 FAIL {f} line={i+1}"; fails := fails + 1
        | .queryAll =>
          match parsePairs (arg o "recs") with
          | none => out.putStrLn s!"mon C12 FAIL clause=obs-parse line={i+1}"; fails := fails + 1
          | some d =>
            for f in Spec.C12Record.checkDump known n d do
              out.putStrLn s!"mon C12 FAIL {f} line={i+1}"; fails := fails + 1
            known := d
        | .nextBlock => pure ()
        -- between genesis lines the store size and the counter follow the observed store
        if n != known.length then
          out.putStrLn s!"mon C12 FAIL clause=count-differs line={i+1}"; fails := fails + 1
        ctr := c
      | _, _, _ => out.putStrLn s!"mon C12 FAIL clause=parse line={i+1}"; fails := fails + 1
  out.putStrLn s!"mon C12 done steps={steps} fails={fails}"

def readLines (p : String) : IO (Array String) := do
  let c ← IO.FS.readFile p
  return (c.splitOn "\n").toArray.filter (· ≠ "")

def main (args : List String) : IO UInt32 := do
  match args with
  | ["model", ops] => runModel (← readLines ops); return 0
  | ["monitor", "C19", ops, obs] => runMonitor (← readLines ops) (← readLines obs); return 0
  | ["monitor", "C12", ops, obs] => runMonitorC12 (← readLines ops) (← readLines obs); return 0
  | _ => IO.eprintln "usage: model <ops> | monitor C12|C19 <ops> <obs>"; return 2

end Driver.Record

def main (args : List String) : IO UInt32 := Driver.Record.main args
