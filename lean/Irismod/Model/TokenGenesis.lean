/-
Model of the token module's genesis export / validation / import (modules/token/genesis.go,
types/v1/genesis.go, types/v1/token.go `Validate`, types/v1/params.go `Validate`), on top of
`Irismod.Token`.

* `ExportGenesis`: params, every token in store order of prefix 0x01 (ascending symbol bytes),
  every burned-coin tally in store order of prefix 0x04 (ascending min-unit bytes).
* `ValidateGenesis`: `Params.Validate`; `Token.Validate` for every token (owner parses unless
  empty, name length, symbol, min unit, initial supply ≤ 10^11, **max supply ≥ initial supply**,
  scale ≤ 18); `Coin.Validate` for every burned coin.
* `InitGenesis`: panics on an invalid document; `SetParams`; `AddToken(token, false)` for each
  token in document order (panics when the symbol, the min unit or the contract is already
  bound; writes the symbol table, the min-unit index, the owner index when the owner is not
  empty and the contract index when a contract is bound); `AddBurnCoin` for each burned coin;
  finally panics unless `IssueTokenBaseFee.Denom` is the **symbol** of a token just loaded.

Not in the module's genesis (so not part of the round trip): bank balances / supplies / denom
metadata (bank genesis), the module account's sequence (auth genesis), the ERC20 ledger (EVM
module), and the keeper's swap registry (application wiring, process state).
Core Lean only.
-/
import Irismod.Model.Token
import Irismod.Model.MtGenesis

namespace Irismod.TokenGenesis
open Irismod Irismod.Sdk Irismod.Token
open Irismod.MtGenesis (sortDedup)

/-- the genesis document of the token module -/
structure Genesis where
  params : Params
  tokens : List Token
  burned : List (String × Nat)
  deriving Repr, Inhabited

/-- the tokens in store order (ascending symbol) -/
def exportTokens (s : State) : List Token :=
  (sortDedup (AMap.keys s.tokens)).filterMap (AMap.get? s.tokens)

/-- the burned tallies in store order (ascending min unit) -/
def exportBurned (s : State) : List (String × Nat) :=
  (sortDedup (AMap.keys s.burned)).map fun d => (d, burnedOf s d)

/-- `ExportGenesis` -/
def exportGenesis (s : State) : Genesis :=
  { params := s.params, tokens := exportTokens s, burned := exportBurned s }

/-- `Token.Validate` -/
def validateToken (t : Token) : Bool :=
  (t.owner = "" || isAddr t.owner) && validName t.name && validSymbol t.symbol && validSymbol t.minUnit &&
  decide (t.initialSupply ≤ maxInit) && decide (t.initialSupply ≤ t.maxSupply) && decide (t.scale ≤ 18)

/-- `ValidateGenesis` -/
def validateGenesis (g : Genesis) : Bool :=
  paramsValid g.params && g.tokens.all validateToken && g.burned.all (fun c => validDenom c.1)

/-- the four tables `AddToken` writes -/
structure Tables where
  tokens    : AMap String Token := []
  minUnits  : AMap String String := []
  owners    : AMap (Addr × String) String := []
  contracts : AMap Nat String := []
  deriving Repr, Inhabited

/-- `AddToken(token, false)`: `assertTokenValid`, then `upsertToken`; `none` = error (a panic of
`InitGenesis`) -/
def addToken (tb : Tables) (t : Token) : Option Tables :=
  if AMap.contains tb.tokens t.symbol then none else
  if AMap.contains tb.minUnits t.minUnit then none else
  if t.contract ≠ 0 ∧ AMap.contains tb.contracts t.contract then none else
  some { tokens := AMap.set tb.tokens t.symbol t,
         minUnits := AMap.set tb.minUnits t.minUnit t.symbol,
         owners := if t.owner = "" then tb.owners else AMap.set tb.owners (t.owner, t.symbol) t.symbol,
         contracts := if t.contract = 0 then tb.contracts else AMap.set tb.contracts t.contract t.symbol }

def addTokens (tb : Tables) : List Token → Option Tables
  | [] => some tb
  | t :: rest =>
    match addToken tb t with
    | none => none
    | some tb1 => addTokens tb1 rest

/-- `AddBurnCoin` for each coin of the document (a tally already present is added to) -/
def addBurned (m : AMap String Nat) : List (String × Nat) → AMap String Nat
  | [] => m
  | (d, n) :: rest => addBurned (AMap.set m d (AMap.getD m d 0 + n)) rest

/-- `InitGenesis` on a wiped module store; everything that is not token-module state (bank,
account sequence, EVM ledger, configuration) is kept from `base` -/
def importGenesis (base : State) (g : Genesis) : R :=
  if !validateGenesis g then .error (.panic "invalid genesis") else
  match addTokens {} g.tokens with
  | none => .error (.panic "AddToken failed")
  | some tb =>
    if !(AMap.contains tb.tokens g.params.feeDenom) then .error (.panic "base fee token does not exist") else
    .ok { base with tokens := tb.tokens, minUnits := tb.minUnits, owners := tb.owners, contracts := tb.contracts,
                    burned := addBurned [] g.burned, params := g.params }

/-- export, wipe, import -/
def reimport (s : State) : R := importGenesis s (exportGenesis s)

end Irismod.TokenGenesis
