/-
Executable model of the coinswap module: modules/coinswap/keeper/{swap,keeper,fees,pool,msg_server}.go
and the ValidateBasic rules of modules/coinswap/types/{msgs,validation,params}.go.

* A pool is not a record with reserves: its reserves are the bank balances of the escrow address
  (`poolAddr n`, the account of liquidity denom `lpt-n`) and its share supply is the bank supply
  of `lpt-n`, exactly as in the code.  Donations (plain bank sends to the escrow address, also
  of unrelated denoms) therefore change reserves, and "pool has no balances" means *no denom at
  all* (`Coins.IsZero` of `GetAllBalances`).
* `sdkmath.Int` arithmetic panics when an intermediate reaches 2^256 (`Irismod.Sdk.pow2_256`);
  every formula site lists its intermediates in a `…Fits` guard and a failed guard is a panic,
  which reverts the transaction.  All operands are non-negative at these sites, so the guards
  are written over ℕ (`ck_eq_chkInt` ties them to `Irismod.Sdk.I256`).
* The model follows the code as it is.  A routed (token→token) swap is two `swapCoins` legs: the
  first pays the intermediate standard coin back to the *sender* (`swapCoins sender sender …`,
  swap.go:129 / 263, since fix f20f96d), the second takes it from the sender and pays the bought
  coin to the recipient (`swapCoins sender recipient …`, swap.go:144 / 266).
* Error classes are the ABCI `codespace/code` pairs the real message router returns
  (`vb:` prefix = rejected by `ValidateBasic`).
-/
import Irismod.Sdk.Map
import Irismod.Sdk.Bank
import Irismod.Sdk.Dec18

namespace Irismod.Coinswap
open Irismod Irismod.Sdk

/-- 10^18 = `sdkmath.NewIntWithDecimal(1, LegacyPrecision)` -/
def D : Nat := 1000000000000000000

/-- `sdkmath.Int` range check on a non-negative value -/
def ck (n : Nat) : Option Nat := if n < pow2_256 then some n else none

/-- integer square root (`big.Int.Sqrt`), digit-by-digit on base 4 -/
def isqrt (n : Nat) : Nat :=
  if h : n = 0 then 0
  else
    let r := 2 * isqrt (n / 4)
    if (r + 1) * (r + 1) ≤ n then r + 1 else r
termination_by n
decreasing_by omega

/-! ### pricing (keeper/swap.go:271-286) -/

def inputPriceFits (dx X Y fee : Nat) : Bool :=
  decide (dx * (D - fee) < pow2_256) && decide (dx * (D - fee) * Y < pow2_256) &&
  decide (X * D < pow2_256) && decide (X * D + dx * (D - fee) < pow2_256) &&
  decide (X * D + dx * (D - fee) ≠ 0)

/-- `GetInputPrice(inputAmt, inputReserve, outputReserve, fee)`; `none` = panic -/
def inputPrice (dx X Y fee : Nat) : Option Nat :=
  if inputPriceFits dx X Y fee then some (dx * (D - fee) * Y / (X * D + dx * (D - fee))) else none

def outputPriceFits (dy X Y fee : Nat) : Bool :=
  decide (X * dy < pow2_256) && decide (X * dy * D < pow2_256) &&
  decide ((Y - dy) * (D - fee) < pow2_256) && decide ((Y - dy) * (D - fee) ≠ 0) &&
  decide (X * dy * D / ((Y - dy) * (D - fee)) + 1 < pow2_256)

/-- `GetOutputPrice(outputAmt, inputReserve, outputReserve, fee)` for `outputAmt ≤ outputReserve` -/
def outputPrice (dy X Y fee : Nat) : Option Nat :=
  if outputPriceFits dy X Y fee then some (X * dy * D / ((Y - dy) * (D - fee)) + 1) else none

/-! ### state -/

structure Params where
  fee      : Nat := 3000000000000000      -- raw ×10^18
  tax      : Nat := 400000000000000000
  ufee     : Nat := 2000000000000000
  pcfDenom : Denom := "stake"
  pcfAmt   : Nat := 5000
  deriving Repr, Inhabited, DecidableEq

structure State where
  bank    : Bank := {}
  std     : Denom := "stake"
  params  : Params := {}
  pools   : AMap Denom Nat := []           -- counterparty denom ↦ sequence n (liquidity denom lpt-n)
  seq     : Nat := 1
  now     : Nat := 0                        -- block time, unix nanoseconds
  blocked : List Addr := []                 -- bank-blocked addresses (application configuration)
  deriving Repr, Inhabited

inductive Err where
  | reject (code : String)
  | panic (why : String)
  deriving Repr, Inhabited

/-- new state and the message response (minted coin / withdrawn coins) -/
abbrev R := Except Err (State × CoinList)

def lptDenom (n : Nat) : Denom := "lpt-" ++ toString n
/-- symbolic name of `GetReservePoolAddr(lpt-n)` -/
def poolAddr (n : Nat) : Addr := "P" ++ toString n
/-- the coinswap module account -/
def modAddr : Addr := "M"
/-- the fee collector -/
def fcAddr : Addr := "FC"
/-- the module authority -/
def govAddr : Addr := "GOV"

/-- pool view: (standard reserve, counterparty reserve, share supply) of pool `n` on `cp` -/
def resX (s : State) (n : Nat) : Nat := s.bank.balOf (poolAddr n) s.std
def resY (s : State) (n : Nat) (cp : Denom) : Nat := s.bank.balOf (poolAddr n) cp
def shares (s : State) (n : Nat) : Nat := s.bank.supplyOf (lptDenom n)

/-- `GetAllBalances(addr).IsZero()` -/
def addrEmpty (b : Bank) (a : Addr) : Bool := b.bal.all fun e => e.1.1 != a || e.2 == 0

def findByLpt : AMap Denom Nat → Denom → Option (Denom × Nat)
  | [], _ => none
  | (cp, n) :: t, d => if lptDenom n = d then some (cp, n) else findByLpt t d

/-- `ctx.BlockHeader().Time.After(time.Unix(deadline, 0))`, including the int64 wrap of
`time.Unix` (`sec + unixToInternal`) for absurdly large deadlines -/
def expired (now : Nat) (deadline : Int) : Bool :=
  let ext : Int := if deadline + 62135596800 ≥ 9223372036854775808
    then deadline + 62135596800 - 18446744073709551616 else deadline + 62135596800
  decide (((now / 1000000000 : Nat) : Int) + 62135596800 > ext) ||
  (decide (((now / 1000000000 : Nat) : Int) + 62135596800 = ext) && decide (now % 1000000000 > 0))

def rej (code : String) {α : Type} : Except Err α := .error (.reject code)
def pnc (why : String) {α : Type} : Except Err α := .error (.panic why)

/-- `BurnCoins`: "insufficient funds" if the holder lacks the coins; the supply update
(`supply.Sub`) panics on a negative result -/
def burnCk (b : Bank) (src : Addr) (d : Denom) (n : Nat) : Except Err Bank :=
  match b.burn src d n with
  | none => rej "sdk/5"
  | some b' => if b.supplyOf d < n then pnc "negative supply" else .ok b'

/-- zero coins are dropped by `sdk.NewCoins` -/
def coins (l : CoinList) : CoinList := l.filter fun c => c.2 != 0

/-! ### swaps (keeper/swap.go) -/

/-- `GetLptDenomFromDenoms` (returns the pool sequence) -/
def lookupLpt (s : State) (d1 d2 : Denom) : Except Err Nat :=
  if d1 = d2 then rej "coinswap/3"
  else if d1 ≠ s.std ∧ d2 ≠ s.std then rej "coinswap/4"
  else match AMap.get? s.pools (if d1 = s.std then d2 else d1) with
    | none => rej "coinswap/2"
    | some n => .ok n

/-- `calculateWithExactInput` -/
def calcIn (s : State) (soldD : Denom) (soldA : Nat) (boughtD : Denom) : Except Err Nat :=
  match lookupLpt s soldD boughtD with
  | .error e => .error e
  | .ok n =>
    if s.bank.balOf (poolAddr n) soldD = 0 then rej "coinswap/9"
    else if s.bank.balOf (poolAddr n) boughtD = 0 then rej "coinswap/9"
    else match inputPrice soldA (s.bank.balOf (poolAddr n) soldD) (s.bank.balOf (poolAddr n) boughtD) s.params.fee with
      | none => pnc "int overflow"
      | some v => .ok v

/-- `calculateWithExactOutput` -/
def calcOut (s : State) (boughtD : Denom) (boughtA : Nat) (soldD : Denom) : Except Err Nat :=
  match lookupLpt s boughtD soldD with
  | .error e => .error e
  | .ok n =>
    if s.bank.balOf (poolAddr n) soldD = 0 then rej "coinswap/9"
    else if s.bank.balOf (poolAddr n) boughtD = 0 then rej "coinswap/9"
    else if s.bank.balOf (poolAddr n) boughtD ≤ boughtA then rej "coinswap/9"
    else match outputPrice boughtA (s.bank.balOf (poolAddr n) soldD) (s.bank.balOf (poolAddr n) boughtD) s.params.fee with
      | none => pnc "int overflow"
      | some v => .ok v

/-- `swapCoins`: sender → pool, then pool → recipient -/
def swapCoins (s : State) (sender rcpt : Addr) (soldD : Denom) (soldA : Nat) (boughtD : Denom) (boughtA : Nat) :
    Except Err State :=
  match lookupLpt s soldD boughtD with
  | .error e => .error e
  | .ok n =>
    match s.bank.send sender (poolAddr n) soldD soldA with
    | none => rej "sdk/5"
    | some b1 =>
      match b1.send (poolAddr n) rcpt boughtD boughtA with
      | none => rej "sdk/5"
      | some b2 => .ok { s with bank := b2 }

/-- `TradeExactInputForOutput` -/
def tradeIn (s : State) (sender rcpt : Addr) (inD : Denom) (inA : Nat) (outD : Denom) (minOut : Nat) : Except Err State :=
  match calcIn s inD inA outD with
  | .error e => .error e
  | .ok bought =>
    if bought < minOut then rej "coinswap/8" else swapCoins s sender rcpt inD inA outD bought

/-- `TradeInputForExactOutput` -/
def tradeOut (s : State) (sender rcpt : Addr) (inD : Denom) (maxIn : Nat) (outD : Denom) (outA : Nat) : Except Err State :=
  match calcOut s outD outA inD with
  | .error e => .error e
  | .ok sold =>
    if maxIn < sold then rej "coinswap/8" else swapCoins s sender rcpt inD sold outD outA

/-- `doubleTradeExactInputForOutput`: first leg back to the sender, second leg to the recipient -/
def doubleIn (s : State) (sender rcpt : Addr) (inD : Denom) (inA : Nat) (outD : Denom) (minOut : Nat) : Except Err State :=
  match calcIn s inD inA s.std with
  | .error e => .error e
  | .ok k =>
    match swapCoins s sender sender inD inA s.std k with
    | .error e => .error e
    | .ok s1 =>
      match calcIn s1 s.std k outD with
      | .error e => .error e
      | .ok bought =>
        if bought < minOut then rej "coinswap/8" else swapCoins s1 sender rcpt s.std k outD bought

/-- `doubleTradeInputForExactOutput` -/
def doubleOut (s : State) (sender rcpt : Addr) (inD : Denom) (maxIn : Nat) (outD : Denom) (outA : Nat) : Except Err State :=
  match calcOut s outD outA s.std with
  | .error e => .error e
  | .ok k =>
    match calcOut s s.std k inD with
    | .error e => .error e
    | .ok sold =>
      if maxIn < sold then rej "coinswap/8"
      else match swapCoins s sender sender inD sold s.std k with
        | .error e => .error e
        | .ok s1 => swapCoins s1 sender rcpt s.std k outD outA

/-- is the order routed through the standard denom (two legs)? -/
def isDouble (s : State) (inD outD : Denom) : Bool := inD != s.std && outD != s.std

/-- `msgServer.SwapCoin` + `Keeper.Swap` (after ValidateBasic) -/
def stepSwap (s : State) (sender rcpt : Addr) (inD : Denom) (inA : Nat) (outD : Denom) (outA : Nat) (buy : Bool)
    (deadline : Int) : Except Err State :=
  if expired s.now deadline then rej "coinswap/7"
  else if s.blocked.contains rcpt then rej "sdk/4"
  else if buy then
    (if isDouble s inD outD then doubleOut s sender rcpt inD inA outD outA else tradeOut s sender rcpt inD inA outD outA)
  else
    (if isDouble s inD outD then doubleIn s sender rcpt inD inA outD outA else tradeIn s sender rcpt inD inA outD outA)

/-! ### liquidity (keeper/keeper.go, keeper/fees.go) -/

/-- `DeductPoolCreationFee`: all to the module account, tax to the fee collector, rest burned -/
def deductFee (s : State) (sender : Addr) : Except Err State :=
  if ¬ (s.params.pcfAmt * s.params.tax < pow2_315) then pnc "dec overflow"
  else
    match s.bank.send sender modAddr s.params.pcfDenom s.params.pcfAmt with
    | none => rej "sdk/5"
    | some b1 =>
      match b1.send modAddr fcAddr s.params.pcfDenom (s.params.pcfAmt * s.params.tax / D) with
      | none => rej "sdk/5"
      | some b2 =>
        match burnCk b2 modAddr s.params.pcfDenom (s.params.pcfAmt - s.params.pcfAmt * s.params.tax / D) with
        | .error e => .error e
        | .ok b3 => .ok { s with bank := b3 }

/-- mint `m` shares of pool `n` to the sender on top of bank `b`; the response is the minted coin -/
def minted (s : State) (b : Bank) (sender : Addr) (n m : Nat) : State × CoinList :=
  ({ s with bank := b.mint sender (lptDenom n) m }, [(lptDenom n, m)])

/-- `addLiquidity`: deposit both coins, mint shares to the sender -/
def addLiq (s : State) (sender : Addr) (n : Nat) (cp : Denom) (dS tokA mint : Nat) : R :=
  match s.bank.send sender (poolAddr n) s.std dS with
  | none => rej "sdk/5"
  | some b1 =>
    match b1.send sender (poolAddr n) cp tokA with
    | none => rej "sdk/5"
    | some b2 => .ok (minted s b2 sender n mint)

def addFits (X Y dS : Nat) : Bool :=
  decide (Y * dS < pow2_256) && decide (Y * dS / X + 1 < pow2_256)

/-- `AddLiquidity` on an existing pool with balances -/
def addExisting (s : State) (sender : Addr) (n : Nat) (cp : Denom) (maxA dS minL : Nat) : R :=
  if resX s n = 0 ∨ resY s n cp = 0 ∨ shares s n = 0 then rej "coinswap/8"
  else if ¬ (shares s n * dS < pow2_256) then pnc "int overflow"
  else if shares s n * dS / resX s n < minL then rej "coinswap/8"
  else if ¬ addFits (resX s n) (resY s n cp) dS then pnc "int overflow"
  else if maxA < resY s n cp * dS / resX s n + 1 then rej "coinswap/8"
  else addLiq s sender n cp dS (resY s n cp * dS / resX s n + 1) (shares s n * dS / resX s n)

/-- `msgServer.AddLiquidity` + `Keeper.AddLiquidity` -/
def stepAdd (s : State) (sender : Addr) (cp : Denom) (maxA dS minL : Nat) (deadline : Int) : R :=
  if expired s.now deadline then rej "coinswap/7"
  else if cp = s.std then rej "coinswap/6"
  else match AMap.get? s.pools cp with
    | none =>
      match deductFee s sender with
      | .error e => .error e
      | .ok s1 =>
        if dS < minL then rej "coinswap/8"
        else addLiq { s1 with pools := AMap.set s1.pools cp s1.seq, seq := s1.seq + 1 } sender s1.seq cp dS maxA dS
    | some n =>
      if addrEmpty s.bank (poolAddr n) then
        (if dS < minL then rej "coinswap/8" else addLiq s sender n cp dS maxA dS)
      else addExisting s sender n cp maxA dS minL

def add1Fits (T L a nn : Nat) : Bool :=
  decide (D * T < pow2_256) && decide (nn * a < pow2_256) && decide (D * T + nn * a < pow2_256) &&
  decide ((D * T + nn * a) * L < pow2_256) && decide ((D * T + nn * a) * L * L < pow2_256) &&
  decide (D * T ≠ 0)

/-- shares minted by a one-sided deposit of `a` on a side holding `T` -/
def add1Mint (T L a nn : Nat) : Nat := isqrt ((D * T + nn * a) * L * L / (D * T)) - L

/-- `msgServer.AddUnilateralLiquidity` + `Keeper.AddUnilateralLiquidity` -/
def stepAdd1 (s : State) (sender : Addr) (cp tokD : Denom) (a minL : Nat) (deadline : Int) : R :=
  if expired s.now deadline then rej "coinswap/7"
  else match AMap.get? s.pools cp with
    | none => rej "coinswap/2"
    | some n =>
      if tokD ≠ cp ∧ tokD ≠ s.std then rej "coinswap/6"
      else if addrEmpty s.bank (poolAddr n) then rej "sdk/18"
      else if ¬ add1Fits (s.bank.balOf (poolAddr n) tokD) (shares s n) a (D - s.params.ufee) then pnc "int overflow"
      else if add1Mint (s.bank.balOf (poolAddr n) tokD) (shares s n) a (D - s.params.ufee) < minL then rej "coinswap/8"
      else match s.bank.send sender (poolAddr n) tokD a with
        | none => rej "sdk/5"
        | some b1 =>
          .ok (minted s b1 sender n (add1Mint (s.bank.balOf (poolAddr n) tokD) (shares s n) a (D - s.params.ufee)))

/-- `removeLiquidity`: burn the shares (via the module account), pay both coins from the pool -/
def removeLiq (s : State) (sender : Addr) (n : Nat) (cp : Denom) (w x y : Nat) : R :=
  match burnCk s.bank sender (lptDenom n) w with
  | .error e => .error e
  | .ok b1 =>
    match b1.send (poolAddr n) sender s.std x with
    | none => rej "sdk/5"
    | some b2 =>
      match b2.send (poolAddr n) sender cp y with
      | none => rej "sdk/5"
      | some b3 => .ok ({ s with bank := b3 }, coins [(s.std, x), (cp, y)])

/-- `msgServer.RemoveLiquidity` + `Keeper.RemoveLiquidity` -/
def stepRemove (s : State) (sender : Addr) (lptD : Denom) (w minStd minTok : Nat) (deadline : Int) : R :=
  if expired s.now deadline then rej "coinswap/7"
  else match findByLpt s.pools lptD with
    | none => rej "coinswap/2"
    | some (cp, n) =>
      if resX s n < minStd then rej "coinswap/9"
      else if resY s n cp < minTok then rej "coinswap/9"
      else if shares s n < w then rej "coinswap/9"
      else if ¬ (w * resX s n < pow2_256 ∧ shares s n ≠ 0 ∧ w * resY s n cp < pow2_256) then pnc "int overflow"
      else if w * resX s n / shares s n < minStd then rej "coinswap/8"
      else if w * resY s n cp / shares s n < minTok then rej "coinswap/8"
      else removeLiq s sender n cp w (w * resX s n / shares s n) (w * resY s n cp / shares s n)

def rem1Fits (T L w nn : Nat) : Bool :=
  decide (L + L < pow2_256) && decide ((L + L - w) * w < pow2_256) && decide ((L + L - w) * w * T < pow2_256) &&
  decide ((L + L - w) * w * T * nn < pow2_256) && decide (L * L < pow2_256) && decide (L * L * D < pow2_256) &&
  decide (L * L * D ≠ 0)

/-- coins paid by a one-sided withdrawal of `w` shares from a side holding `T` -/
def rem1Out (T L w nn : Nat) : Nat := (L + L - w) * w * T * nn / (L * L * D)

/-- `removeUnilateralLiquidity`: burn the shares, pay the one coin from the pool -/
def rem1Liq (s : State) (sender : Addr) (n : Nat) (minD : Denom) (w out : Nat) : R :=
  match burnCk s.bank sender (lptDenom n) w with
  | .error e => .error e
  | .ok b1 =>
    match b1.send (poolAddr n) sender minD out with
    | none => rej "sdk/5"
    | some b2 => .ok ({ s with bank := b2 }, coins [(minD, out)])

/-- `msgServer.RemoveUnilateralLiquidity` + `Keeper.RemoveUnilateralLiquidity` -/
def stepRem1 (s : State) (sender : Addr) (cp minD : Denom) (minA w : Nat) (deadline : Int) : R :=
  if expired s.now deadline then rej "coinswap/7"
  else match AMap.get? s.pools cp with
    | none => rej "coinswap/2"
    | some n =>
      if minD ≠ cp ∧ minD ≠ s.std then rej "coinswap/6"
      else if shares s n < w then rej "coinswap/9"
      else if shares s n = w then rej "coinswap/8"
      else if s.bank.balOf (poolAddr n) minD < minA then rej "coinswap/9"
      else if ¬ rem1Fits (s.bank.balOf (poolAddr n) minD) (shares s n) w (D - s.params.ufee) then pnc "int overflow"
      else if rem1Out (s.bank.balOf (poolAddr n) minD) (shares s n) w (D - s.params.ufee) < minA then rej "coinswap/8"
      else rem1Liq s sender n minD w (rem1Out (s.bank.balOf (poolAddr n) minD) (shares s n) w (D - s.params.ufee))

/-- a plain `bank.MsgSend` of one coin (donations to escrow addresses included) -/
def stepDonate (s : State) (src dst : Addr) (d : Denom) (a : Nat) : R :=
  if s.blocked.contains dst then rej "sdk/4"
  else match s.bank.send src dst d a with
    | none => rej "sdk/5"
    | some b => .ok ({ s with bank := b }, [])

/-- `msgServer.UpdateParams` (after ValidateBasic = `Params.Validate`) -/
def stepParams (s : State) (auth : Addr) (p : Params) : R :=
  if auth ≠ govAddr then rej "sdk/4" else .ok ({ s with params := p }, [])

/-! ### messages and their `ValidateBasic` -/

inductive Op where
  | block (t : Nat)
  | swap (sender rcpt : Addr) (inD : Denom) (inA : Int) (outD : Denom) (outA : Int) (buy : Bool) (deadline : Int)
  | add (sender : Addr) (maxD : Denom) (maxA : Int) (stdA : Int) (minL : Int) (deadline : Int)
  | remove (sender : Addr) (lptD : Denom) (lptA : Int) (minStd minTok : Int) (deadline : Int)
  | add1 (sender : Addr) (cp tokD : Denom) (tokA : Int) (minL : Int) (deadline : Int)
  | rem1 (sender : Addr) (cp minD : Denom) (minA : Int) (lptA : Int) (deadline : Int)
  | donate (src dst : Addr) (d : Denom) (a : Nat)
  | setParams (auth : Addr) (fee tax ufee : Int) (pcfD : Denom) (pcfA : Int)
  deriving Repr, Inhabited

def denomChar (c : Char) : Bool :=
  c.isAlphanum || c == '/' || c == ':' || c == '.' || c == '_' || c == '-'

/-- `sdk.ValidateDenom`: `[a-zA-Z][a-zA-Z0-9/:._-]{2,127}` -/
def validDenom (d : Denom) : Bool :=
  match d.toList with
  | [] => false
  | c :: rest => c.isAlpha && decide (2 ≤ rest.length) && decide (rest.length ≤ 127) && rest.all denomChar

/-- `Params.Validate` on stored parameters -/
def validParams (p : Params) : Bool :=
  decide (0 < p.fee) && decide (p.fee < D) && decide (0 < p.pcfAmt) && validDenom p.pcfDenom &&
  decide (0 < p.tax) && decide (p.tax < D) && decide (p.ufee < D)

/-- `strings.HasPrefix(denom, "lpt")` -/
def lptPrefixed (d : Denom) : Bool := "lpt".toList.isPrefixOf d.toList

/-- `ParseLptDenom` without the uint64 bound: exactly one `-`, followed by a non-empty string of
decimal digits (`strings.Split(d, "-")` has two parts and `strconv.ParseUint` accepts the second) -/
def lptSeq? (d : Denom) : Option Nat :=
  match d.toList.span (fun c => c != '-') with
  | (_, '-' :: rest) =>
    if rest ≠ [] ∧ rest.all Char.isDigit = true then (String.ofList rest).toNat? else none
  | _ => none

/-- `ParseLptDenom` succeeds (the sequence fits a uint64) -/
def validLpt (d : Denom) : Bool :=
  match lptSeq? d with
  | some v => decide (v < 18446744073709551616)
  | none => false

/-- the harness universe renders an invalid / empty bech32 address as `-` (empty) -/
def validAddr (a : Addr) : Bool := a != ""

/-- `ValidateInput` / `ValidateOutput` -/
def vbSide (a : Addr) (d : Denom) (amt : Int) : Option String :=
  if !(validDenom d && decide (0 < amt)) then some "vb:sdk/10"
  else if lptPrefixed d then some "vb:sdk/18"
  else if !validAddr a then some "vb:sdk/7"
  else none

/-- `ValidateToken` -/
def vbToken (d : Denom) (amt : Int) : Option String :=
  if !(validDenom d && decide (0 < amt)) then some "vb:sdk/10"
  else if lptPrefixed d then some "vb:sdk/18"
  else none

def vbDeadline (dl : Int) : Option String := if dl ≤ 0 then some "vb:sdk/18" else none
def vbSender (a : Addr) : Option String := if !validAddr a then some "vb:sdk/7" else none

/-- first failing check wins -/
def firstErr : List (Option String) → Option String
  | [] => none
  | some e :: _ => some e
  | none :: t => firstErr t

def vb : Op → Option String
  | .block _ => none
  | .donate _ _ _ _ => none
  | .swap sender rcpt inD inA outD outA _ dl =>
    firstErr [vbSide sender inD inA, vbSide rcpt outD outA,
              (if inD = outD then some "vb:coinswap/3" else none), vbDeadline dl]
  | .add sender maxD maxA stdA minL dl =>
    firstErr [vbToken maxD maxA, (if stdA ≤ 0 then some "vb:sdk/18" else none),
              (if minL < 0 then some "vb:sdk/18" else none), vbDeadline dl, vbSender sender]
  | .remove sender lptD lptA minStd minTok dl =>
    firstErr [(if minTok < 0 then some "vb:sdk/10" else none),
              (if !(validDenom lptD && decide (0 < lptA)) then some "vb:sdk/10" else none),
              (if !validLpt lptD then some "vb:coinswap/6" else none),
              (if minStd < 0 then some "vb:sdk/18" else none), vbDeadline dl, vbSender sender]
  | .add1 sender cp tokD tokA minL dl =>
    firstErr [(if cp = "" then some "vb:sdk/18" else none), vbToken tokD tokA,
              (if minL < 0 then some "vb:sdk/18" else none), vbDeadline dl, vbSender sender]
  | .rem1 sender cp minD minA lptA dl =>
    firstErr [(if cp = "" then some "vb:sdk/18" else none), vbToken minD minA,
              (if lptA < 0 then some "vb:sdk/18" else none), vbDeadline dl, vbSender sender]
  | .setParams auth fee tax ufee pcfD pcfA =>
    -- `Params.Validate`: fee, tax in (0,1), one-sided fee in [0,1), creation fee positive with a valid denom
    if validAddr auth ∧ 0 < fee ∧ fee < D ∧ 0 < pcfA ∧ validDenom pcfD = true ∧ 0 < tax ∧ tax < D ∧ 0 ≤ ufee ∧ ufee < D
    then none else some "invalid"

/-- one delivered message: `ValidateBasic`, then the handler -/
def step (s : State) (op : Op) : R :=
  match vb op with
  | some e => rej e
  | none =>
    match op with
    | .block t => .ok ({ s with now := t }, [])
    | .swap sender rcpt inD inA outD outA buy dl =>
      match stepSwap s sender rcpt inD inA.toNat outD outA.toNat buy dl with
      | .error e => .error e
      | .ok s' => .ok (s', [])
    | .add sender maxD maxA stdA minL dl => stepAdd s sender maxD maxA.toNat stdA.toNat minL.toNat dl
    | .remove sender lptD lptA minStd minTok dl => stepRemove s sender lptD lptA.toNat minStd.toNat minTok.toNat dl
    | .add1 sender cp tokD tokA minL dl => stepAdd1 s sender cp tokD tokA.toNat minL.toNat dl
    | .rem1 sender cp minD minA lptA dl => stepRem1 s sender cp minD minA.toNat lptA.toNat dl
    | .donate src dst d a => stepDonate s src dst d a
    | .setParams auth fee tax ufee pcfD pcfA =>
      stepParams s auth { fee := fee.toNat, tax := tax.toNat, ufee := ufee.toNat, pcfDenom := pcfD, pcfAmt := pcfA.toNat }

/-- the chain-level step: a rejected or panicking message leaves the state unchanged -/
def apply (s : State) (op : Op) : State :=
  match step s op with
  | .ok (s', _) => s'
  | .error _ => s

def run (s : State) (ops : List Op) : State := ops.foldl apply s

end Irismod.Coinswap
