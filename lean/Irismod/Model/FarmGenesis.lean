/-
Model of the farm module's genesis export / validation / import (modules/farm/genesis.go
ExportGenesis / InitGenesis, types/genesis.go ValidateGenesis), on top of `Irismod.Farm`.

The document carries the parameters, every pool with its reward rules, every farmer record,
the pool sequence and the escrow infos of pending community-pool proposals.

* `ExportGenesis` iterates the pool store (key `0x06 ++ id`: ascending pool id bytes), attaches
  `GetRewardRules`, then iterates the farmer store (key `0x03 ++ address ++ poolId`).
* `ValidateGenesis`: every pool id parses (`farm-<n>`), description length, per rule
  `total > 0`, `remaining ≥ 0`, `rewardPerBlock > 0`, `rewardPerShare ≥ 0` (commit 815496d:
  the accumulator is truncated to 18 decimals and may stay zero after a release);
  `sequence ≥ max id`; every farmer record has a valid pool id, `locked > 0` and a valid debt.
* `InitGenesis` panics on an invalid document; then, per pool in document order, `SetRewardRule`
  for every rule, `SetPool`, and `EnqueueActivePool` iff `ctx.BlockHeight() ≤ pool.EndHeight`
  (commit 0c5f83b; before, `!Expired(ctx, pool)` consulted the very queue being rebuilt and
  dropped a pool ending at the import height); per farmer record, panic unless its pool exists, `SetFarmInfo`;
  per escrow info `SetEscrowInfo` (key `0x07 ++ bigendian(proposal id)`; `ValidateGenesis` does not
  look at the escrow infos); `SetSequence`; `SetParams` (panics on an invalid tax rate).
* `ExportGenesis` appends `GetAllEscrowInfo`: the escrow store in key order = ascending proposal id.

Abstractions: the ghost fields of `Rule` (history variables, not module state) travel with the
record; the order of the farmer records in the real document is that of the bech32 address
bytes, which symbolic account names do not determine — the model orders them by (name, pool
id) and the comparison with the real document is order-insensitive for this list (the harness
checks separately that the real list is in strictly ascending store-key order).
Core Lean only.
-/
import Irismod.Model.Farm
import Irismod.Model.MtGenesis

namespace Irismod.FarmGenesis
open Irismod Irismod.Sdk Irismod.Farm
open Irismod.MtGenesis (sortDedup heads tail)

structure Genesis where
  params  : Params := {}
  pools   : List (PoolId × Pool) := []
  farmers : List ((Addr × PoolId) × Farmer) := []
  seq     : Nat := 0
  escrow  : List (Nat × Escrow) := []
  deriving Repr, Inhabited

/-- `ValidatepPoolId`: the sequence number of a pool id -/
def poolSeq? (id : PoolId) : Option Nat :=
  match poolNum? id with
  | some n => if n ≠ 0 ∧ n < 18446744073709551616 then some n else none
  | none => none

/-! ### ExportGenesis -/

def exportPools (s : State) : List (PoolId × Pool) :=
  (sortDedup (AMap.keys s.pools)).filterMap fun id => (AMap.get? s.pools id).map fun p => (id, p)

def exportFarmers (s : State) : List ((Addr × PoolId) × Farmer) :=
  (heads (AMap.keys s.farmers)).flatMap fun a =>
    (sortDedup (tail (AMap.keys s.farmers) a)).filterMap fun id =>
      (AMap.get? s.farmers (a, id)).map fun f => ((a, id), f)

/-- insertion into an ascending duplicate-free list of proposal ids -/
def insNat (x : Nat) : List Nat → List Nat
  | [] => [x]
  | y :: ys => if x < y then x :: y :: ys else if x = y then y :: ys else y :: insNat x ys

/-- the distinct members of `l` in ascending order (the escrow store's iteration order) -/
def sortNat (l : List Nat) : List Nat := l.foldr insNat []

/-- `GetAllEscrowInfo` -/
def exportEscrow (s : State) : List (Nat × Escrow) :=
  (sortNat (AMap.keys s.cp.escrow)).filterMap fun pid => (AMap.get? s.cp.escrow pid).map fun e => (pid, e)

def exportGenesis (s : State) : Genesis :=
  { params := s.params, pools := exportPools s, farmers := exportFarmers s, seq := s.seq, escrow := exportEscrow s }

/-! ### types.ValidateGenesis -/

def rej {α : Type} (why : String) : Except Err α := .error (.reject why)
def pnc {α : Type} (why : String) : Except Err α := .error (.panic why)

/-- the per-rule checks of one pool -/
def validateRules (p : Pool) : List Rule → Except Err Unit
  | [] => .ok ()
  | r :: rs =>
    if r.total = 0 then rej "totalReward must be positive"
    else if r.rpb = 0 then rej "rewardPerBlock must be positive"
    else if r.rps.raw < 0 then rej "rewardPerShare must not be negative"
    else validateRules p rs

/-- the loop over `data.Pools`; returns `maxSeq` -/
def validatePools : List (PoolId × Pool) → Nat → Except Err Nat
  | [], mx => .ok mx
  | (id, p) :: t, mx =>
    match poolSeq? id with
    | none => rej "invalid pool id"
    | some n =>
      if p.desc.utf8ByteSize > 280 then rej "invalid description"
      else match validateRules p p.rules with
        | .error e => .error e
        | .ok _ => validatePools t (if n > mx then n else mx)

def validateFarmers : List ((Addr × PoolId) × Farmer) → Except Err Unit
  | [] => .ok ()
  | ((_, id), f) :: t =>
    if (poolSeq? id).isNone then rej "invalid pool id"
    else if f.locked = 0 then rej "locked must be positive"
    else if !((nonzero f.debt).map (·.1)).Nodup then pnc "invalid coin set: duplicate denomination"
    else validateFarmers t

def validateGenesis (g : Genesis) : Except Err Unit :=
  match validatePools g.pools 0 with
  | .error e => .error e
  | .ok mx =>
    if g.seq < mx then rej "sequence must be equal or greater than maxSeq"
    else validateFarmers g.farmers

/-! ### InitGenesis -/

/-- `SetRewardRule`s, `SetPool`, and `EnqueueActivePool` iff the end height has not passed
(heights alone, commit 0c5f83b) -/
def importPool (s : State) (id : PoolId) (p : Pool) : State :=
  if s.height ≤ p.endH then enqueue (setPool s id p) id p.endH else setPool s id p

def importPools (s : State) : List (PoolId × Pool) → State
  | [] => s
  | (id, p) :: t => importPools (importPool s id p) t

def importFarmers (s : State) : List ((Addr × PoolId) × Farmer) → Except Err State
  | [] => .ok s
  | ((a, id), f) :: t =>
    match getPool s id with
    | none => pnc "the farm pool does not exist"
    | some _ => importFarmers { s with farmers := AMap.set s.farmers (a, id) f } t

/-- `Params.Validate` as called by `SetParams` (fee coin valid; tax rate strictly inside (0,1)) -/
def validParams (p : Params) : Bool := decide (0 < p.tax.raw) && decide (p.tax.raw < precision)

/-- `SetEscrowInfo` for every escrow info of the document -/
def importEscrow (s : State) (l : List (Nat × Escrow)) : State :=
  { s with cp := { s.cp with escrow := l.foldl (fun m e => AMap.set m e.1 e.2) s.cp.escrow } }

/-- the emptied module store -/
def wiped (env : State) : State :=
  { env with pools := [], farmers := [], queue := [], seq := 0, resp := [], cp := { env.cp with escrow := [] } }

/-- `InitGenesis` on an emptied module store at the height of `env`; `env` supplies what the
module genesis does not touch (bank, block height, the ghost ledger, the community pool and the
gov proposals) -/
def importGenesis (env : State) (g : Genesis) : Except Err State :=
  match validateGenesis g with
  | .error _ => pnc "invalid genesis"
  | .ok _ =>
    match importFarmers (importPools (wiped env) g.pools) g.farmers with
    | .error e => .error e
    | .ok s1 =>
      if !validParams g.params then pnc "invalid params"
      else .ok { (importEscrow s1 g.escrow) with seq := g.seq, params := g.params }

/-- the state after `InitGenesis(ExportGenesis(s))` on an emptied store (`s` itself if the
import aborts: the harness discards a panicking import) -/
def reimport (s : State) : State :=
  match importGenesis s (exportGenesis s) with
  | .ok s' => s'
  | .error _ => s

end Irismod.FarmGenesis
