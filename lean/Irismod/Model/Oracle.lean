/-
Executable model of the oracle module (modules/oracle/keeper/{keeper,feed,msg_server}.go,
types/{aggregate,validation,msgs}.go).

The service module is modelled abstractly, at the interface the oracle keeper actually uses:

* per feed one request-context record `Ctx` (state running/paused/completed and the four fields
  `UpdateRequestContext` validates against: response threshold, providers, timeout, frequency),
  created by `CreateRequestContext`, changed by `Start/Pause/UpdateRequestContext`;
* the two callbacks the oracle keeper registers with the service keeper
  (`RegisterResponseCallback` → `HandlerResponse`, `RegisterStateCallback` → `HandlerStateChanged`).
  What the service module decides (which batch completed with which outputs and which batch
  threshold, which context it paused because the consumer ran out of funds) arrives as `Cb` events
  carried by the operation (`respond`, `block`). The theorems quantify over all such events.

Aggregation (`types/aggregate.go`) is modelled in exact decimal arithmetic: a value is an `Int`
in units of `10^-S` (S ≥ 8). The float64 implementation agrees with it on the *exact domain*
(decimal inputs with ≤ 8 fractional digits and |v| < 4.5·10^7, see `Props/C17.lean`,
`float_domain_roundtrip`); `math.MaxFloat64`, the initial accumulator of `Min`, is the `none`
accumulator below.
-/
import Irismod.Sdk.Map

namespace Irismod.Oracle
open Irismod

abbrev Name := String
abbrev Addr := String

inductive CtxState where
  | running | paused | completed
  deriving DecidableEq, Repr, Inhabited

/-- the part of the feed's service request context the oracle keeper depends on -/
structure Ctx where
  state     : CtxState
  thr       : Nat
  providers : List String
  timeout   : Int
  freq      : Nat
  deriving DecidableEq, Repr, Inhabited

structure Feed where
  desc    : String
  agg     : String
  path    : String
  hist    : Nat
  creator : Addr
  deriving DecidableEq, Repr, Inhabited

/-- `FeedValue{Data, Timestamp}`; time in unix nanoseconds -/
structure Value where
  data : String
  time : Nat
  deriving DecidableEq, Repr, Inhabited

structure State where
  now     : Nat := 0                                   -- block time (unix ns)
  feeds   : AMap Name Feed := []
  ctxs    : AMap Name Ctx := []
  running : List Name := []                            -- feed-state index, prefix 0x04
  paused  : List Name := []                            -- feed-state index, prefix 0x05 (every non-running state)
  values  : AMap Name (List (Nat × Value)) := []       -- per feed, ascending batch counter (store order)
  deriving Repr, Inhabited

inductive Err where
  | reject (why : String)
  | panic (why : String)
  deriving Repr, Inhabited

abbrev R := Except Err State

/-! ### aggregation over exact decimals -/

def pow10 (n : Nat) : Nat := 10 ^ n

/-- round `p / q` to the nearest integer, ties to even (`q > 0`) -/
def roundHalfEven (p : Int) (q : Nat) : Int :=
  if 2 * (p % (q : Int)) < (q : Int) then p / (q : Int)
  else if (q : Int) < 2 * (p % (q : Int)) then p / (q : Int) + 1
  else if (p / (q : Int)) % 2 = 0 then p / (q : Int) else p / (q : Int) + 1

def pad8 (n : Nat) : String :=
  String.ofList (List.replicate (8 - (toString n).length) '0') ++ toString n

/-- `strconv.FormatFloat(x, 'f', 8, 64)` of the number `u · 10^-8` -/
def fmtUnits8 (u : Int) : String :=
  (if u < 0 then "-" else "") ++ toString (u.natAbs / 100000000) ++ "." ++ pad8 (u.natAbs % 100000000)

/-- the rational `p / q` printed with 8 decimals -/
def fmtRat (p : Int) (q : Nat) : String := fmtUnits8 (roundHalfEven (p * 100000000) q)

/-- `Max`: the accumulator is seeded with the first value (`none` = nothing seen yet) and is
replaced by `f` iff `acc < f`. -/
def maxAcc : Option Int → List Int → Option Int
  | acc, [] => acc
  | none, x :: t => maxAcc (some x) t
  | some m, x :: t => if m < x then maxAcc (some x) t else maxAcc (some m) t

/-- the value `Max` formats, in units (0 for an empty input) -/
def litMax (xs : List Int) : Int := (maxAcc none xs).getD 0

/-- `Min`: the accumulator starts at `math.MaxFloat64` (`none`), above every value. -/
def minAcc : Option Int → List Int → Option Int
  | acc, [] => acc
  | none, x :: t => minAcc (some x) t
  | some m, x :: t => if x < m then minAcc (some x) t else minAcc (some m) t

def litMin (xs : List Int) : Option Int := minAcc none xs

def sumInts : List Int → Int
  | [] => 0
  | x :: t => x + sumInts t

/-- `strconv.FormatFloat(math.MaxFloat64, 'f', 8, 64)` -/
def maxFloatStr : String := toString (2 ^ 1024 - 2 ^ 971) ++ ".00000000"

/-- the three registered aggregate functions over values in units of `10^-S`; `none` = not registered -/
def aggregate (S : Nat) (fn : String) (xs : List Int) : Option String :=
  if fn = "max" then some (fmtRat (litMax xs) (pow10 S))
  else if fn = "min" then
    match litMin xs with
    | none => some maxFloatStr
    | some m => some (fmtRat m (pow10 S))
  else if fn = "avg" then
    if xs.length = 0 then some "NaN" else some (fmtRat (sumInts xs) (xs.length * pow10 S))
  else none

/-! ### value extraction (`gjson.Get(output, "body").Get(path).Float()`)

An output is described by a spec (the harness renders it as JSON): `n<dec>` number at the feed's
path, `s<dec>` the same as a JSON string, `t` true (→ 1); everything else (`w…` other key, `f`, `u`
null, `o` object, `b…` non-numeric string, `m` no body) extracts to 0. -/

def digitVal (c : Char) : Option Nat :=
  if '0' ≤ c ∧ c ≤ '9' then some (c.toNat - 48) else none

def digitsVal : List Char → Option Nat
  | [] => none
  | cs => cs.foldl (fun acc c => match acc, digitVal c with
                                  | some a, some d => some (a * 10 + d)
                                  | _, _ => none) (some 0)

def splitDot : List Char → List Char × Option (List Char)
  | [] => ([], none)
  | '.' :: t => ([], some t)
  | c :: t => let (a, b) := splitDot t; (c :: a, b)

/-- `[-]digits[.digits]` → (numerator, number of fractional digits) -/
def parseDec (cs : List Char) : Option (Int × Nat) :=
  let (neg, body) := match cs with
    | '-' :: t => (true, t)
    | _ => (false, cs)
  match splitDot body with
  | (ip, none) => (digitsVal ip).map fun n => (if neg then -(n : Int) else (n : Int), 0)
  | (ip, some fp) =>
    match digitsVal ip, digitsVal fp with
    | some a, some b => some ((if neg then -1 else 1) * ((a * pow10 fp.length + b : Nat) : Int), fp.length)
    | _, _ => none

/-- extracted value of one output spec as (numerator, scale) -/
def extract (spec : String) : Int × Nat :=
  match spec.toList with
  | 'n' :: d => (parseDec d).getD (0, 0)
  | 's' :: d => (parseDec d).getD (0, 0)
  | 't' :: _ => (1, 0)
  | _ => (0, 0)

def maxScale : List (Int × Nat) → Nat
  | [] => 8
  | (_, s) :: t => max s (maxScale t)

def toUnits (S : Nat) (v : Int × Nat) : Int := v.1 * (pow10 (S - v.2) : Nat)

/-- the aggregate of a list of output specs -/
def aggregateSpecs (fn : String) (outs : List String) : Option String :=
  let vs := outs.map extract
  aggregate (maxScale vs) fn (vs.map (toUnits (maxScale vs)))

/-! ### feed values (`SetFeedValue`, `deleteOldestFeedValue`, `GetFeedValues`) -/

def valuesOf (s : State) (n : Name) : List (Nat × Value) := AMap.getD s.values n []

/-- `store.Set(GetFeedValueKey(feed, batchCounter), v)` in key order -/
def insertKey (k : Nat) (v : Value) : List (Nat × Value) → List (Nat × Value)
  | [] => [(k, v)]
  | (k', v') :: t =>
    if k < k' then (k, v) :: (k', v') :: t
    else if k = k' then (k, v) :: t
    else (k', v') :: insertKey k v t

/-- `SetFeedValue`: delete the `cnt - latestHistory + 1` oldest entries (if positive), then set -/
def setFeedValue (vals : List (Nat × Value)) (batch hist : Nat) (v : Value) : List (Nat × Value) :=
  insertKey batch v (vals.drop (vals.length + 1 - hist))

/-- `GetFeedValues`: reverse key order, newest first -/
def view (vals : List (Nat × Value)) : List Value := vals.reverse.map (·.2)

def viewOf (s : State) (n : Name) : List Value := view (valuesOf s n)

/-! ### feed-state index -/

def enqueue (l : List Name) (n : Name) : List Name := if l.contains n then l else n :: l
def dequeue (l : List Name) (n : Name) : List Name := l.filter (· ≠ n)

/-! ### validation helpers -/

def isAlpha (c : Char) : Bool := ('a' ≤ c && c ≤ 'z') || ('A' ≤ c && c ≤ 'Z')
def isDigit (c : Char) : Bool := '0' ≤ c && c ≤ '9'

/-- `^[a-zA-Z][a-zA-Z0-9/_-]*$` -/
def feedNameValid (n : String) : Bool :=
  match n.toList with
  | [] => false
  | c :: t => isAlpha c && t.all fun x => isAlpha x || isDigit x || x = '/' || x = '_' || x = '-'

/-- `^[a-zA-Z][a-zA-Z0-9_-]*$`, at most 70 bytes -/
def serviceNameValid (n : String) : Bool :=
  match n.toList with
  | [] => false
  | c :: t => isAlpha c && (t.all fun x => isAlpha x || isDigit x || x = '_' || x = '-') && n.length ≤ 70

/-- `sdk.ValidateDenom`: `[a-zA-Z][a-zA-Z0-9/:._-]{2,127}` -/
def denomValid (d : String) : Bool :=
  match d.toList with
  | [] => false
  | c :: t => isAlpha c && 2 ≤ t.length && t.length ≤ 127 &&
      t.all fun x => isAlpha x || isDigit x || x = '/' || x = ':' || x = '.' || x = '_' || x = '-'

/-- service fee cap as sent: nothing, or one coin -/
inductive Cap where
  | empty
  | coin (amt : Nat) (denom : String)
  deriving DecidableEq, Repr, Inhabited

/-- `sdk.Coins.IsValid` for at most one coin -/
def capValid : Cap → Bool
  | .empty => true
  | .coin a d => decide (0 < a) && denomValid d

/-- keeper `validateServiceFeeCap`: exactly one coin of the base denom -/
def capIsBase : Cap → Bool
  | .empty => false
  | .coin _ d => d = "stake"

def knownAgg (fn : String) : Bool := fn = "max" || fn = "min" || fn = "avg"

def hasDup : List String → Bool
  | [] => false
  | x :: t => t.contains x || hasDup t

def maxProviders : Nat := 10
def maxRequestTimeout : Int := 100
def knownService (n : String) : Bool := n = "price"
def doNotModify : String := "do-not-modify"

/-- `uint64(timeout)` -/
def u64OfInt (t : Int) : Nat := (t % 18446744073709551616).toNat

structure CreateMsg where
  name : String
  creator : Addr
  agg : String
  path : String
  hist : Nat
  desc : String
  service : String
  providers : List String
  thr : Nat
  timeout : Int
  freq : Nat
  cap : Cap
  input : String          -- "ok" | "nohdr" (valid JSON failing the input schema) | "empty"
  deriving Repr, Inhabited

structure EditMsg where
  name : String
  sender : Addr
  hist : Nat
  providers : List String
  thr : Nat
  timeout : Int
  freq : Nat
  cap : Cap
  desc : String
  deriving Repr, Inhabited

/-- `MsgCreateFeed.ValidateBasic` -/
def createBasicOk (m : CreateMsg) : Bool :=
  feedNameValid m.name && decide (m.desc.length ≤ 280) && serviceNameValid m.service &&
  decide (1 ≤ m.hist) && decide (m.hist ≤ 100) && !(decide (m.freq < u64OfInt m.timeout)) &&
  !m.providers.isEmpty && decide (1 ≤ m.agg.length) && decide (m.agg.length ≤ 10) && knownAgg m.agg &&
  capValid m.cap && decide (1 ≤ m.thr) && decide (m.thr ≤ m.providers.length)

/-- the checks of `CreateRequestContext` (module caller) not already implied by `ValidateBasic` -/
def createContextOk (m : CreateMsg) : Bool :=
  decide (m.providers.length ≤ maxProviders) && !hasDup m.providers && m.input = "ok" &&
  decide (0 < m.timeout) && knownService m.service && capIsBase m.cap && decide (m.timeout ≤ maxRequestTimeout)

/-- `CreateFeed` -/
def stepCreate (s : State) (m : CreateMsg) : R :=
  if !createBasicOk m then .error (.reject "invalid message") else
  if AMap.contains s.feeds m.name then .error (.reject "feed exists") else
  if !createContextOk m then .error (.reject "request context refused") else
  .ok { s with
    feeds := AMap.set s.feeds m.name { desc := m.desc, agg := m.agg, path := m.path, hist := m.hist, creator := m.creator },
    ctxs := AMap.set s.ctxs m.name { state := .paused, thr := m.thr, providers := m.providers, timeout := m.timeout,
                                     freq := if m.freq = 0 then m.timeout.toNat else m.freq },
    paused := enqueue s.paused m.name }

def setCtxState (s : State) (n : Name) (c : Ctx) (st : CtxState) : State :=
  { s with ctxs := AMap.set s.ctxs n { c with state := st } }

/-- `dequeueAndEnqueue(feed, from, to)` for `to = running` -/
def indexRunning (s : State) (n : Name) : State :=
  { s with paused := dequeue s.paused n, running := enqueue s.running n }

/-- `dequeueAndEnqueue(feed, from, to)` for `to = paused` -/
def indexPaused (s : State) (n : Name) : State :=
  { s with running := dequeue s.running n, paused := enqueue s.paused n }

/-- `StartFeed` -/
def stepStart (s : State) (name : Name) (sender : Addr) : R :=
  if !feedNameValid name then .error (.reject "invalid name") else
  match AMap.get? s.feeds name with
  | none => .error (.reject "unknown feed")
  | some f =>
    if sender ≠ f.creator then .error (.reject "unauthorized") else
    match AMap.get? s.ctxs name with
    | none => .error (.reject "unknown feed")
    | some c =>
      if c.state = .running then .error (.reject "invalid feed state") else
      if c.state ≠ .paused then .error (.reject "request context not paused") else
      .ok (indexRunning (setCtxState s name c .running) name)

/-- `PauseFeed` -/
def stepPause (s : State) (name : Name) (sender : Addr) : R :=
  if !feedNameValid name then .error (.reject "invalid name") else
  match AMap.get? s.feeds name with
  | none => .error (.reject "unknown feed")
  | some f =>
    if sender ≠ f.creator then .error (.reject "unauthorized") else
    match AMap.get? s.ctxs name with
    | none => .error (.reject "unknown feed")
    | some c =>
      if c.state ≠ .running then .error (.reject "invalid feed state") else
      .ok (indexPaused (setCtxState s name c .paused) name)

/-- `MsgEditFeed.ValidateBasic` -/
def editBasicOk (m : EditMsg) : Bool :=
  feedNameValid m.name && decide (m.desc.length ≤ 280) &&
  (m.hist = 0 || (decide (1 ≤ m.hist) && decide (m.hist ≤ 100))) && capValid m.cap &&
  (m.timeout = 0 || m.freq = 0 || !(decide (m.freq < u64OfInt m.timeout))) &&
  (m.thr = 0 || !(decide (m.providers.length ≠ 0 ∧ m.providers.length < m.thr)))

/-- `UpdateRequestContext` for a module-owned context whose consumer is the sender: the updated
record, or `none` when refused -/
def updateContext (c : Ctx) (m : EditMsg) : Option Ctx :=
  if c.state = .completed then none else
  if maxProviders < m.providers.length then none else
  if hasDup m.providers then none else
  if m.timeout < 0 then none else
  if (if m.providers.isEmpty then c.providers else m.providers).length < (if m.thr = 0 then c.thr else m.thr) then none else
  if m.cap ≠ .empty ∧ !capIsBase m.cap then none else
  if maxRequestTimeout < m.timeout then none else
  if (if m.freq = 0 then c.freq else m.freq) < u64OfInt (if m.timeout = 0 then c.timeout else m.timeout) then none else
  some { c with
    thr := if m.thr = 0 then c.thr else m.thr,
    providers := if m.providers.isEmpty then c.providers else m.providers,
    timeout := if m.timeout = 0 then c.timeout else m.timeout,
    freq := if m.freq = 0 then c.freq else m.freq }

/-- the `LatestHistory` part of `EditFeed`: trims immediately when shrinking -/
def trimTo (vals : List (Nat × Value)) (hist : Nat) : List (Nat × Value) :=
  if hist < vals.length then vals.drop (vals.length - hist) else vals

/-- `EditFeed` -/
def stepEdit (s : State) (m : EditMsg) : R :=
  if !editBasicOk m then .error (.reject "invalid message") else
  match AMap.get? s.feeds m.name with
  | none => .error (.reject "unknown feed")
  | some f =>
    if m.sender ≠ f.creator then .error (.reject "unauthorized") else
    match AMap.get? s.ctxs m.name with
    | none => .error (.reject "unknown request context")
    | some c =>
      match updateContext c m with
      | none => .error (.reject "update refused")
      | some c' =>
        .ok { s with
          ctxs := AMap.set s.ctxs m.name c',
          values := if 0 < m.hist then AMap.set s.values m.name (trimTo (valuesOf s m.name) m.hist) else s.values,
          feeds := AMap.set s.feeds m.name
            { f with hist := if 0 < m.hist then m.hist else f.hist,
                     desc := if m.desc ≠ doNotModify then m.desc else f.desc } }

/-! ### callbacks from the service module -/

inductive Cb where
  /-- the batch `batch` of the feed's context completed (`CompleteBatch` → `Callback`) with these
  valid (non-empty) outputs while the batch threshold was `thr` -/
  | done (feed : Name) (batch thr : Nat) (outs : List String)
  /-- the service module moved the feed's context to state `to` and invoked the state callback -/
  | state (feed : Name) (to : CtxState)
  deriving Repr, Inhabited

/-- `HandlerResponse(ctx, id, outs, nil)` -/
def handlerResponse (s : State) (feed : Name) (batch : Nat) (outs : List String) : State :=
  if outs.length = 0 then s else
  match AMap.get? s.feeds feed with
  | none => s
  | some f =>
    if !(AMap.contains s.ctxs feed) then s else
    match aggregateSpecs f.agg outs with
    | none => s
    | some data =>
      { s with values := AMap.set s.values feed (setFeedValue (valuesOf s feed) batch f.hist { data := data, time := s.now }) }

/-- service `Callback`: error iff fewer outputs than the batch threshold; the oracle ignores failed batches -/
def cbDone (s : State) (feed : Name) (batch thr : Nat) (outs : List String) : State :=
  if thr ≤ outs.length then handlerResponse s feed batch outs else s

/-- the service module sets the context state, then `HandlerStateChanged` re-indexes the feed -/
def cbState (s : State) (feed : Name) (to : CtxState) : State :=
  match AMap.get? s.ctxs feed with
  | none => s
  | some c =>
    match AMap.get? s.feeds feed with
    | none => setCtxState s feed c to
    | some _ =>
      match to with
      | .paused => indexPaused (setCtxState s feed c to) feed
      | .running => indexRunning (setCtxState s feed c to) feed
      | .completed => setCtxState s feed c to

def applyCb (s : State) : Cb → State
  | .done f b t o => cbDone s f b t o
  | .state f to => cbState s f to

def applyCbs (s : State) (cbs : List Cb) : State := cbs.foldl applyCb s

inductive Op where
  | create (m : CreateMsg)
  | start (name : Name) (sender : Addr)
  | pause (name : Name) (sender : Addr)
  | edit (m : EditMsg)
  /-- a `MsgRespondService` handled by the service module: accepted or not, and the callbacks it made -/
  | respond (accepted : Bool) (cbs : List Cb)
  /-- end of block (service `EndBlocker`) with the callbacks it made, then the next block `dt` seconds later -/
  | block (dt : Nat) (cbs : List Cb)
  /-- bank traffic of the consumers (funding, draining): no oracle state involved -/
  | bank
  deriving Repr, Inhabited

def step (s : State) : Op → R
  | .create m => stepCreate s m
  | .start n a => stepStart s n a
  | .pause n a => stepPause s n a
  | .edit m => stepEdit s m
  | .respond acc cbs => if acc then .ok (applyCbs s cbs) else .error (.reject "service refused the response")
  | .block dt cbs => .ok { applyCbs s cbs with now := (applyCbs s cbs).now + 1000000000 * dt }
  | .bank => .ok s

/-- the chain-level step: a rejected message leaves the state unchanged -/
def apply (s : State) (op : Op) : State :=
  match step s op with
  | .ok s' => s'
  | .error _ => s

def run (s : State) (ops : List Op) : State := ops.foldl apply s

end Irismod.Oracle
