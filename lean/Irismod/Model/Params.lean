/-
Executable model of the parameter surface of the five irismod modules that have parameters
(C16): the `Params.Validate` functions of

  modules/coinswap/types/params.go, modules/farm/types/params.go, modules/htlc/types/params.go,
  modules/service/types/params.go, modules/token/types/v1/params.go

copied check by check in the order the Go code performs them (including the fields that are
NOT checked), the `UpdateParams` message path (ValidateBasic → authority comparison →
keeper.SetParams), the genesis import path (ValidateGenesis → InitGenesis/SetParams), and the
handler fragments that consume parameters (fee/tax splits, price denominators, deposit and slash
amounts, HTLT supply counters).

Go's `LegacyDec` and `sdkmath.Int` fields can be unset (nil pointer inside the struct — this is
what an absent protobuf field decodes to); they are `Option` here, and every method call on an
unset value is the nil-pointer panic of the Go code.  Panics carry their kind so that the
theorems can say *which* aborts a validated parameter set excludes.

Farm: whether `Params.Validate` checks the tax rate is a REGENERATED fact
(`Irismod.Gen.Handlers.farmValidatesTaxRate`); `farmValidate` consults it.
Core Lean only.
-/
import Irismod.Sdk.Dec18
import Irismod.Gen.Handlers

namespace Irismod.Params
open Irismod.Sdk

inductive PanicKind where
  | nilDeref   -- method call on an unset LegacyDec / Int
  | negCoin    -- "negative coin amount"
  | badDenom   -- "invalid denom"
  | overflow   -- sdkmath "Int overflow" (256 bits) / LegacyDec 315 bits
  | divZero    -- big.Int division by zero
  | genesis    -- InitGenesis refusing a genesis state (the documented abort)
  deriving DecidableEq, Repr, Inhabited

inductive Err where
  | reject
  | panic (k : PanicKind)
  deriving DecidableEq, Repr, Inhabited

abbrev Res (α : Type) := Except Err α

def isPanic {α : Type} : Res α → Bool
  | .error (.panic _) => true
  | _ => false

/-! ## denominations, coins -/

def denomTailOk (c : Char) : Bool :=
  c.isAlphanum || c == '/' || c == ':' || c == '.' || c == '_' || c == '-'

/-- `sdk.ValidateDenom`: `[a-zA-Z][a-zA-Z0-9/:._-]{2,127}` -/
def validDenom (s : String) : Bool :=
  match s.toList with
  | [] => false
  | h :: t => h.isAlpha && t.all denomTailOk && decide (2 ≤ t.length) && decide (t.length ≤ 127)

structure Coin where
  denom : String
  amount : Option Int
  deriving DecidableEq, Repr, Inhabited

/-- `Coin.IsValid` (= `Validate() == nil`): denom, then nil amount, then sign; never panics -/
def coinIsValid (c : Coin) : Bool :=
  validDenom c.denom && (match c.amount with | none => false | some a => decide (0 ≤ a))

/-- `!coin.IsPositive()` guard: `Amount.Sign()` on an unset Int panics -/
def coinPositive (c : Coin) : Res Unit :=
  match c.amount with
  | none => .error (.panic .nilDeref)
  | some a => if 0 < a then .ok () else .error .reject

/-- `Coins.Validate` on the elements after the first (`low` = previous denom) -/
def coinsValidateTail : String → List Coin → Res Unit
  | _, [] => .ok ()
  | low, c :: rest =>
    if !validDenom c.denom then .error .reject
    else if c.denom < low then .error .reject
    else if c.denom = low then .error .reject
    else match coinPositive c with
      | .error e => .error e
      | .ok _ => coinsValidateTail c.denom rest

/-- `Coins.Validate` (`IsValid`): sorted, no duplicates, valid denoms, strictly positive -/
def coinsValidate : List Coin → Res Unit
  | [] => .ok ()
  | c :: rest =>
    if !validDenom c.denom then .error .reject
    else match coinPositive c with
      | .error e => .error e
      | .ok _ => coinsValidateTail c.denom rest

/-! ## decimal range checks (each is one `if` of the Go code; nil → nil-pointer panic) -/

/-- `!v.GT(0) || !v.LT(1)` -/
def decOpenOpen (d : Option Dec) : Res Unit :=
  match d with
  | none => .error (.panic .nilDeref)
  | some x => if 0 < x.raw ∧ x.raw < precision then .ok () else .error .reject

/-- `!v.GTE(0) || !v.LT(1)`  /  `v.LT(0) || v.GTE(1)` -/
def decClosedOpen (d : Option Dec) : Res Unit :=
  match d with
  | none => .error (.panic .nilDeref)
  | some x => if 0 ≤ x.raw ∧ x.raw < precision then .ok () else .error .reject

/-- `v.LT(0) || v.GT(1)` -/
def decClosedClosed (d : Option Dec) : Res Unit :=
  match d with
  | none => .error (.panic .nilDeref)
  | some x => if 0 ≤ x.raw ∧ x.raw ≤ precision then .ok () else .error .reject

/-! ## coinswap -/

structure CoinswapParams where
  fee : Option Dec
  taxRate : Option Dec
  poolCreationFee : Coin
  unilateralLiquidityFee : Option Dec
  deriving DecidableEq, Repr, Inhabited

/-- modules/coinswap/types/params.go `Params.Validate`: Fee ∈ (0,1), PoolCreationFee positive,
    TaxRate ∈ (0,1), UnilateralLiquidityFee ∈ [0,1).  The denomination of the pool creation fee is
    checked only if the code calls `sdk.ValidateDenom` (regenerated fact; it does not at the time
    of writing). -/
def coinswapValidateWith (checksDenom : Bool) (p : CoinswapParams) : Res Unit :=
  match decOpenOpen p.fee with
  | .error e => .error e
  | .ok _ =>
    match coinPositive p.poolCreationFee with
    | .error e => .error e
    | .ok _ =>
      if checksDenom && !validDenom p.poolCreationFee.denom then .error .reject else
      match decOpenOpen p.taxRate with
      | .error e => .error e
      | .ok _ => decClosedOpen p.unilateralLiquidityFee

def coinswapValidate (p : CoinswapParams) : Res Unit :=
  coinswapValidateWith Gen.Handlers.coinswapValidatesFeeDenom p

def coinswapDefault : CoinswapParams :=
  { fee := some (Dec.withPrec 3 3), taxRate := some (Dec.withPrec 4 1),
    poolCreationFee := ⟨"stake", some 5000⟩, unilateralLiquidityFee := some (Dec.withPrec 2 3) }

/-! ## farm -/

structure FarmParams where
  poolCreationFee : Coin
  taxRate : Option Dec
  maxRewardCategories : Nat
  deriving DecidableEq, Repr, Inhabited

/-- `validateTaxRate` (exists in the code; whether it is called, and whether it guards an unset
    decimal, are the two regenerated facts) -/
def farmTaxRateCheck (nilGuard : Bool) (d : Option Dec) : Res Unit :=
  match d with
  | none => if nilGuard then .error .reject else .error (.panic .nilDeref)
  | some x => if 0 < x.raw ∧ x.raw < precision then .ok () else .error .reject

/-- modules/farm/types/params.go `Params.Validate` as a function of the two source facts:
    `validatePoolCreationFee` (`Coin.IsValid`: zero allowed) and, only if the code calls it,
    `validateTaxRate`; MaxRewardCategories is never checked -/
def farmValidateWith (checksTax nilGuard : Bool) (p : FarmParams) : Res Unit :=
  if coinIsValid p.poolCreationFee then
    (if checksTax then farmTaxRateCheck nilGuard p.taxRate else .ok ())
  else .error .reject

def farmValidate (p : FarmParams) : Res Unit :=
  farmValidateWith Gen.Handlers.farmValidatesTaxRate Gen.Handlers.farmTaxRateNilGuard p

/-- what the store holds after `Marshal`/`Unmarshal`: an unset decimal is written as 0 -/
def farmNorm (p : FarmParams) : FarmParams :=
  { p with taxRate := some (p.taxRate.getD Dec.zero) }

def farmDefault : FarmParams :=
  { poolCreationFee := ⟨"stake", some 5000⟩, taxRate := some (Dec.withPrec 4 1), maxRewardCategories := 2 }

/-! ## htlc -/

structure SupplyLimit where
  limit : Option Int
  timeLimited : Bool
  timePeriod : Int            -- nanoseconds; NOT validated
  timeBasedLimit : Option Int
  deriving DecidableEq, Repr, Inhabited

structure AssetParam where
  denom : String
  supplyLimit : SupplyLimit
  active : Bool               -- NOT validated
  deputy : String             -- symbolic: `A<n>` is a well-formed address, anything else is not
  fixedFee : Option Int
  minSwapAmount : Option Int
  maxSwapAmount : Option Int
  minBlockLock : Nat
  maxBlockLock : Nat
  deriving DecidableEq, Repr, Inhabited

def minTimeLock : Nat := 50
def maxTimeLock : Nat := 34560
def minDenomLength : Nat := 6

/-- symbolic addresses of the line protocol -/
def validAddr (s : String) : Bool :=
  match s.toList with
  | 'A' :: d :: rest => (d :: rest).all Char.isDigit
  | _ => false

def htltDenomOk (d : String) : Bool :=
  validDenom d && "htlt".toList.isPrefixOf d.toList && d.toList.all (fun c => !c.isUpper) &&
  decide (minDenomLength ≤ d.toList.length)

def intIsNegative (i : Option Int) : Res Bool :=
  match i with
  | none => .error (.panic .nilDeref)
  | some a => .ok (decide (a < 0))

def intIsPositive (i : Option Int) : Res Bool :=
  match i with
  | none => .error (.panic .nilDeref)
  | some a => .ok (decide (0 < a))

/-- supply limit ≥ 0, time-based limit ≥ 0 and ≤ limit -/
def assetLimits (a : AssetParam) : Res Unit :=
  match a.supplyLimit.limit with
  | none => .error (.panic .nilDeref)
  | some lim =>
    if lim < 0 then .error .reject else
    match a.supplyLimit.timeBasedLimit with
    | none => .error (.panic .nilDeref)
    | some tbl =>
      if tbl < 0 then .error .reject else
      if lim < tbl then .error .reject else .ok ()

/-- fixed fee ≥ 0 -/
def assetFee (a : AssetParam) : Res Unit :=
  match a.fixedFee with
  | none => .error (.panic .nilDeref)
  | some fee => if fee < 0 then .error .reject else .ok ()

/-- MinTimeLock ≤ MinBlockLock ≤ MaxBlockLock ≤ MaxTimeLock -/
def assetLocks (a : AssetParam) : Res Unit :=
  if a.minBlockLock < minTimeLock then .error .reject else
  if maxTimeLock < a.maxBlockLock then .error .reject else
  if a.maxBlockLock < a.minBlockLock then .error .reject else .ok ()

/-- 0 < MinSwapAmount ≤ MaxSwapAmount -/
def assetSwap (a : AssetParam) : Res Unit :=
  match a.minSwapAmount with
  | none => .error (.panic .nilDeref)
  | some mn =>
    if !(0 < mn) then .error .reject else
    match a.maxSwapAmount with
    | none => .error (.panic .nilDeref)
    | some mx =>
      if !(0 < mx) then .error .reject else
      if mx < mn then .error .reject else .ok ()

/-- one iteration of the loop of `validateAssetParams`, in source order: denom, limits,
    duplicate denom, deputy address, fixed fee, block locks, swap amounts -/
def validateAsset (seen : List String) (a : AssetParam) : Res Unit :=
  if !htltDenomOk a.denom then .error .reject else
  match assetLimits a with
  | .error e => .error e
  | .ok _ =>
    if seen.contains a.denom then .error .reject else
    if !validAddr a.deputy then .error .reject else
    match assetFee a with
    | .error e => .error e
    | .ok _ =>
      match assetLocks a with
      | .error e => .error e
      | .ok _ => assetSwap a

def validateAssets : List String → List AssetParam → Res Unit
  | _, [] => .ok ()
  | seen, a :: rest =>
    match validateAsset seen a with
    | .error e => .error e
    | .ok _ => validateAssets (a.denom :: seen) rest

abbrev HtlcParams := List AssetParam

/-- modules/htlc/types/params.go `Params.Validate` -/
def htlcValidate (p : HtlcParams) : Res Unit := validateAssets [] p

def htlcDefault : HtlcParams := []

/-! ## service -/

structure ServiceParams where
  maxRequestTimeout : Int
  minDepositMultiple : Int
  minDeposit : List Coin
  serviceFeeTax : Option Dec
  slashFraction : Option Dec
  complaintRetrospect : Int
  arbitrationTimeLimit : Int
  txSizeLimit : Nat
  baseDenom : String
  restrictedServiceFeeDenom : Bool
  deriving DecidableEq, Repr, Inhabited

/-- modules/service/types/params.go `Params.Validate`, in source order (slash fraction before
    the fee tax) -/
def serviceValidate (p : ServiceParams) : Res Unit :=
  if p.maxRequestTimeout ≤ 0 then .error .reject else
  if p.minDepositMultiple ≤ 0 then .error .reject else
  match coinsValidate p.minDeposit with
  | .error e => .error e
  | .ok _ =>
    match decClosedClosed p.slashFraction with
    | .error e => .error e
    | .ok _ =>
      match decClosedOpen p.serviceFeeTax with
      | .error e => .error e
      | .ok _ =>
        if p.complaintRetrospect ≤ 0 then .error .reject else
        if p.arbitrationTimeLimit ≤ 0 then .error .reject else
        if p.txSizeLimit = 0 then .error .reject else
        if !validDenom p.baseDenom then .error .reject else .ok ()

def serviceDefault : ServiceParams :=
  { maxRequestTimeout := 100, minDepositMultiple := 1000, minDeposit := [⟨"stake", some 5000⟩],
    serviceFeeTax := some (Dec.withPrec 5 2), slashFraction := some (Dec.withPrec 1 3),
    complaintRetrospect := 1296000000000000, arbitrationTimeLimit := 432000000000000,
    txSizeLimit := 4000, baseDenom := "stake", restrictedServiceFeeDenom := false }

/-! ## token -/

structure TokenParams where
  tokenTaxRate : Option Dec
  issueTokenBaseFee : Coin
  mintTokenFeeRatio : Option Dec
  enableErc20 : Bool
  beacon : String
  deriving DecidableEq, Repr, Inhabited

def isHexChar (c : Char) : Bool :=
  c.isDigit || ('a' ≤ c && c ≤ 'f') || ('A' ≤ c && c ≤ 'F')

/-- go-ethereum `common.IsHexAddress` -/
def isHexAddress (s : String) : Bool :=
  let body := match s.toList with
    | '0' :: 'x' :: r => r
    | '0' :: 'X' :: r => r
    | r => r
  decide (body.length = 40) && body.all isHexChar

/-- modules/token/types/v1/params.go `Params.Validate`: tax rate ∈ [0,1], mint ratio ∈ [0,1],
    base fee not negative, beacon empty or a hex address.  The base-fee denomination is checked
    only if `validateIssueTokenBaseFee` calls `sdk.ValidateDenom` (regenerated fact; it does not
    at the time of writing). -/
def tokenValidateWith (checksDenom : Bool) (p : TokenParams) : Res Unit :=
  match decClosedClosed p.tokenTaxRate with
  | .error e => .error e
  | .ok _ =>
    match decClosedClosed p.mintTokenFeeRatio with
    | .error e => .error e
    | .ok _ =>
      match intIsNegative p.issueTokenBaseFee.amount with
      | .error e => .error e
      | .ok neg =>
        if neg then .error .reject else
        if checksDenom && !validDenom p.issueTokenBaseFee.denom then .error .reject else
        if p.beacon = "" then .ok () else
        if isHexAddress p.beacon then .ok () else .error .reject

def tokenValidate (p : TokenParams) : Res Unit :=
  tokenValidateWith Gen.Handlers.tokenValidatesFeeDenom p

def tokenDefault : TokenParams :=
  { tokenTaxRate := some (Dec.withPrec 4 1), issueTokenBaseFee := ⟨"stake", some 60000⟩,
    mintTokenFeeRatio := some (Dec.withPrec 1 1), enableErc20 := true, beacon := "" }

/-! ## the update path, generic in the module

`env.Deliver` = `ValidateBasic` (which calls `Params.Validate`), then the msg server:
authority comparison, then `keeper.SetParams` (which validates again before `store.Set`). -/

def updateParams {P : Type} (validate : P → Res Unit) (norm : P → P)
    (authority sender : String) (p : P) : Res P :=
  match validate p with                       -- MsgUpdateParams.ValidateBasic
  | .error e => .error e
  | .ok _ =>
    if sender ≠ authority then .error .reject  -- msgServer.UpdateParams
    else match validate p with                 -- Keeper.SetParams
      | .error e => .error e
      | .ok _ => .ok (norm p)

/-- stored parameters after the message (unchanged unless accepted) -/
def applyUpdate {P : Type} (validate : P → Res Unit) (norm : P → P)
    (authority sender : String) (p cur : P) : P :=
  match updateParams validate norm authority sender p with
  | .ok q => q
  | .error _ => cur

/-! ## genesis import: `ValidateGenesis` then `InitGenesis` (→ `SetParams`) on the default
genesis state of the module carrying the given parameters -/

/-- `ValidateGenesis`'s verdict on the parameters -/
def validateGenesisPlain {P : Type} (validate : P → Res Unit) (p : P) : Res Unit := validate p

/-- farm's `ValidateGenesis` does not call `Params.Validate`; it ends with
    `ValidateCoins("PoolCreationFee", fee)` = `sdk.NewCoins(fee).Validate()`, and `NewCoins`
    panics on a malformed non-zero coin (a zero coin is dropped before validation) -/
def farmValidateGenesis (p : FarmParams) : Res Unit :=
  match p.poolCreationFee.amount with
  | none => .error (.panic .nilDeref)
  | some a =>
    if a = 0 then .ok ()
    else if !validDenom p.poolCreationFee.denom then .error (.panic .badDenom)
    else if a < 0 then .error (.panic .negCoin)
    else .ok ()

/-- `InitGenesis`: any `ValidateGenesis` / `SetParams` error is a panic; returns what is stored -/
def importGenesis {P : Type} (validateGenesis validate : P → Res Unit) (norm : P → P)
    (extra : P → Bool) (p : P) : Res P :=
  match validateGenesis p with
  | .error _ => .error (.panic .genesis)
  | .ok _ =>
    match validate p with                      -- Keeper.SetParams
    | .error _ => .error (.panic .genesis)
    | .ok _ => if extra p then .ok (norm p) else .error (.panic .genesis)

/-- token `InitGenesis` also requires the base-fee denom to be a registered symbol -/
def tokenGenesisExtra (symbols : List String) (p : TokenParams) : Bool :=
  symbols.contains p.issueTokenBaseFee.denom

/-! ## handler fragments that consume parameters -/

/-- the fee split shared by coinswap `DeductPoolCreationFee`, farm `DeductPoolCreationFee` and
    token `feeHandler`:
      tax    := sdk.NewCoin(fee.Denom, LegacyNewDecFromInt(fee.Amount).Mul(rate).TruncateInt())
      burned := sdk.NewCoins(fee.Sub(tax))
    returns (tax, burned) -/
def feeSplit (denom : String) (amount : Int) (rate : Option Dec) : Res (Int × Int) :=
  match rate with
  | none => .error (.panic .nilDeref)
  | some r =>
    match (Dec.ofInt amount).mul r with
    | none => .error (.panic .overflow)
    | some t =>
      match t.truncateInt with
      | none => .error (.panic .overflow)
      | some tax =>
        if !validDenom denom then .error (.panic .badDenom)
        else if tax < 0 then .error (.panic .negCoin)
        else match I256.sub amount tax with
          | none => .error (.panic .overflow)
          | some burned => if burned < 0 then .error (.panic .negCoin) else .ok (tax, burned)

/-- coinswap / farm `DeductPoolCreationFee` on the stored parameters -/
def poolCreationFee (fee : Coin) (rate : Option Dec) : Res (Int × Int) :=
  match fee.amount with
  | none => .error (.panic .nilDeref)
  | some a => feeSplit fee.denom a rate

/-- farm `msgServer.CreatePool` up to the fee: the reward-category bound comes first -/
def farmCreatePoolFee (p : FarmParams) (nRewards : Nat) : Res (Int × Int) :=
  if p.maxRewardCategories < nRewards then .error .reject
  else poolCreationFee p.poolCreationFee p.taxRate

/-- `1 - fee` as the integer numerator over 10^18 (`NewIntFromBigInt(deltaFee.BigInt())`) -/
def deltaFeeInt (fee : Option Dec) : Res Int :=
  match fee with
  | none => .error (.panic .nilDeref)
  | some f =>
    match Dec.one.sub f with
    | none => .error (.panic .overflow)
    | some d => match chkInt d.raw with
      | none => .error (.panic .overflow)
      | some i => .ok i

def mulP (a b : Int) : Res Int :=
  match I256.mul a b with | none => .error (.panic .overflow) | some x => .ok x
def addP (a b : Int) : Res Int :=
  match I256.add a b with | none => .error (.panic .overflow) | some x => .ok x
def subP (a b : Int) : Res Int :=
  match I256.sub a b with | none => .error (.panic .overflow) | some x => .ok x
def quoP (a b : Int) : Res Int :=
  match I256.quo a b with | none => .error (.panic .divZero) | some x => .ok x

/-- modules/coinswap/keeper/swap.go `GetInputPrice` -/
def inputPrice (inputAmt inputReserve outputReserve : Int) (fee : Option Dec) : Res Int :=
  match deltaFeeInt fee with
  | .error e => .error e
  | .ok df =>
    match mulP inputAmt df with
    | .error e => .error e
    | .ok iaf =>
      match mulP iaf outputReserve with
      | .error e => .error e
      | .ok num =>
        match mulP inputReserve precision with
        | .error e => .error e
        | .ok t =>
          match addP t iaf with
          | .error e => .error e
          | .ok den => quoP num den

/-- modules/coinswap/keeper/swap.go `GetOutputPrice` -/
def outputPrice (outputAmt inputReserve outputReserve : Int) (fee : Option Dec) : Res Int :=
  match deltaFeeInt fee with
  | .error e => .error e
  | .ok df =>
    match mulP inputReserve outputAmt with
    | .error e => .error e
    | .ok a =>
      match mulP a precision with
      | .error e => .error e
      | .ok num =>
        match subP outputReserve outputAmt with
        | .error e => .error e
        | .ok d =>
          match mulP d df with
          | .error e => .error e
          | .ok den =>
            match quoP num den with
            | .error e => .error e
            | .ok q => addP q 1

/-- service `AddEarnedFee` for one fee coin: tax amount and the provider's share
    (`fee.SafeSub(tax)`: a negative share is an ordinary error) -/
def earnedFeeSplit (amount : Int) (taxRate : Option Dec) : Res (Int × Int) :=
  match taxRate with
  | none => .error (.panic .nilDeref)
  | some r =>
    match (Dec.ofInt amount).mul r with
    | none => .error (.panic .overflow)
    | some t =>
      match t.truncateInt with
      | none => .error (.panic .overflow)
      | some tax =>
        if tax < 0 then .error (.panic .negCoin)        -- sdk.NewCoin(denom, tax)
        else if amount - tax < 0 then .error .reject
        else .ok (tax, amount - tax)

/-- service `Slash`: slashed amount of a deposit and the remaining deposit -/
def slashSplit (baseDenom : String) (deposit : Int) (fraction : Option Dec) : Res (Int × Int) :=
  match fraction with
  | none => .error (.panic .nilDeref)
  | some r =>
    match (Dec.ofInt deposit).mul r with
    | none => .error (.panic .overflow)
    | some t =>
      match t.truncateInt with
      | none => .error (.panic .overflow)
      | some s =>
        if !validDenom baseDenom then .error (.panic .badDenom)   -- sdk.NewCoin(baseDenom, s)
        else if s < 0 then .error (.panic .negCoin)
        else if deposit - s < 0 then .error .reject
        else .ok (s, deposit - s)

/-- service `GetMinDeposit` for a price in the base denom:
    `sdk.NewCoin(baseDenom, price.Mul(NewInt(multiple)))` -/
def minDepositBase (p : ServiceParams) (price : Int) : Res Int :=
  match I256.mul price p.minDepositMultiple with
  | none => .error (.panic .overflow)
  | some m =>
    if !validDenom p.baseDenom then .error (.panic .badDenom)
    else if m < 0 then .error (.panic .negCoin)
    else .ok m

/-- service: `qos > uint64(maxRequestTimeout)` / `timeout > maxRequestTimeout` guards -/
def timeoutOk (p : ServiceParams) (timeout : Int) : Bool := decide (timeout ≤ p.maxRequestTimeout)

/-- token registry entry needed by the fee path: symbol ↦ (scale, min unit) -/
abbrev TokenReg := List (String × Nat × String)

def regLookup (reg : TokenReg) (sym : String) : Option (Nat × String) :=
  (reg.find? (fun e => e.1 = sym)).map (·.2)

/-- `Token.ToMinCoin(DecCoin)`: amount × 10^scale, truncated, as a coin of the min unit -/
def toMinCoin (scale : Nat) (minUnit : String) (amount : Dec) : Res Int :=
  match amount.mul (Dec.ofInt ((10 ^ scale : Nat) : Int)) with
  | none => .error (.panic .overflow)
  | some d =>
    match d.truncateInt with
    | none => .error (.panic .overflow)
    | some a =>
      if !validDenom minUnit then .error (.panic .badDenom)
      else if a < 0 then .error (.panic .negCoin)
      else .ok a

/-- token `calcTokenIssueFee`: base fee / factor(symbol), at least 1, as a coin of the base-fee
    denom (`sdk.NewCoin` validates the denom).  `factor` is `calcFeeFactor(symbol)`. -/
def calcIssueFee (p : TokenParams) (factor : Dec) : Res Int :=
  match p.issueTokenBaseFee.amount with
  | none => .error (.panic .nilDeref)
  | some base =>
    match (Dec.ofInt base).quo factor with
    | none => if factor.raw = 0 then .error (.panic .divZero) else .error (.panic .overflow)
    | some f =>
      if precision < f.raw then
        match f.truncateInt with
        | none => .error (.panic .overflow)
        | some a =>
          if !validDenom p.issueTokenBaseFee.denom then .error (.panic .badDenom)
          else if a < 0 then .error (.panic .negCoin) else .ok a
      else
        if !validDenom p.issueTokenBaseFee.denom then .error (.panic .badDenom) else .ok 1

/-- token `DeductIssueTokenFee`: `GetTokenIssueFee` then `feeHandler` (bank transfers excluded) -/
def issueFeePath (p : TokenParams) (reg : TokenReg) (factor : Dec) : Res (Int × Int) :=
  match calcIssueFee p factor with
  | .error e => .error e
  | .ok fee =>
    match regLookup reg p.issueTokenBaseFee.denom with
    | none => .error .reject                      -- GetToken(fee.Denom)
    | some (scale, minUnit) =>
      match toMinCoin scale minUnit (Dec.ofInt fee) with   -- NewDecCoinFromCoin(fee)
      | .error e => .error e
      | .ok minFee => feeSplit minUnit minFee p.tokenTaxRate

/-- token `DeductMintTokenFee`: issue fee × MintTokenFeeRatio, then as above -/
def mintFeePath (p : TokenParams) (reg : TokenReg) (factor : Dec) : Res (Int × Int) :=
  match calcIssueFee p factor with
  | .error e => .error e
  | .ok fee =>
    match regLookup reg p.issueTokenBaseFee.denom with
    | none => .error .reject
    | some (scale, minUnit) =>
      match p.mintTokenFeeRatio with
      | none => .error (.panic .nilDeref)
      | some ratio =>
        match (Dec.ofInt fee).mul ratio with
        | none => .error (.panic .overflow)
        | some m =>
          match m.truncateInt with
          | none => .error (.panic .overflow)
          | some mintFee =>
            if mintFee < 0 then .error (.panic .negCoin)    -- NewDecCoinFromDec
            else match toMinCoin scale minUnit (Dec.ofInt mintFee) with
              | .error e => .error e
              | .ok minFee => feeSplit minUnit minFee p.tokenTaxRate

/-! ### htlc: the asset-supply counters (modules/htlc/keeper/asset.go) -/

structure Supply where
  incoming : Int := 0
  outgoing : Int := 0
  current : Int := 0
  timeLimitedCurrent : Int := 0
  deriving DecidableEq, Repr, Inhabited

/-- `IncrementIncomingAssetSupply` -/
def incrementIncoming (a : AssetParam) (s : Supply) (amt : Int) : Res Supply :=
  match addP s.current s.incoming with
  | .error e => .error e
  | .ok total =>
    match a.supplyLimit.limit with
    | none => .error (.panic .nilDeref)
    | some lim =>
      if lim < 0 then .error (.panic .negCoin) else     -- sdk.NewCoin(denom, limit.Limit)
      match addP total amt with
      | .error e => .error e
      | .ok t2 =>
        if lim < t2 then .error .reject else
        if a.supplyLimit.timeLimited then
          match addP s.timeLimitedCurrent s.incoming with
          | .error e => .error e
          | .ok tl =>
            match a.supplyLimit.timeBasedLimit with
            | none => .error (.panic .nilDeref)
            | some tbl =>
              if tbl < 0 then .error (.panic .negCoin) else
              match addP tl amt with
              | .error e => .error e
              | .ok tl2 =>
                if tbl < tl2 then .error .reject else
                match addP s.incoming amt with
                | .error e => .error e
                | .ok i2 => .ok { s with incoming := i2 }
        else
          match addP s.incoming amt with
          | .error e => .error e
          | .ok i2 => .ok { s with incoming := i2 }

/-- `IncrementCurrentAssetSupply` -/
def incrementCurrent (a : AssetParam) (s : Supply) (amt : Int) : Res Supply :=
  match a.supplyLimit.limit with
  | none => .error (.panic .nilDeref)
  | some lim =>
    if lim < 0 then .error (.panic .negCoin) else
    match addP s.current amt with
    | .error e => .error e
    | .ok c2 =>
      if lim < c2 then .error .reject else
      if a.supplyLimit.timeLimited then
        match a.supplyLimit.timeBasedLimit with
        | none => .error (.panic .nilDeref)
        | some tbl =>
          if tbl < 0 then .error (.panic .negCoin) else
          match addP s.timeLimitedCurrent amt with
          | .error e => .error e
          | .ok t2 =>
            if tbl < t2 then .error .reject
            else .ok { s with current := c2, timeLimitedCurrent := t2 }
      else .ok { s with current := c2 }

/-- the parameter-dependent part of `createHTLT` for an incoming swap (sender = deputy) -/
def htltIncoming (a : AssetParam) (s : Supply) (amt : Int) : Res Supply :=
  if !a.active then .error .reject else
  match a.minSwapAmount, a.maxSwapAmount with
  | some mn, some mx =>
    if amt < mn ∨ mx < amt then .error .reject else incrementIncoming a s amt
  | _, _ => .error (.panic .nilDeref)

/-- the parameter-dependent part of `createHTLT` for an outgoing swap: amount window, time-lock
    window, `amount < FixedFee.Add(MinSwapAmount)`, then `IncrementOutgoingAssetSupply` -/
def htltOutgoing (a : AssetParam) (s : Supply) (amt : Int) (timeLock : Nat) : Res Supply :=
  if !a.active then .error .reject else
  match a.minSwapAmount, a.maxSwapAmount, a.fixedFee with
  | some mn, some mx, some fee =>
    if amt < mn ∨ mx < amt then .error .reject else
    if timeLock < a.minBlockLock ∨ a.maxBlockLock < timeLock then .error .reject else
    match addP fee mn with
    | .error e => .error e
    | .ok need =>
      if amt < need then .error .reject else
      match addP s.outgoing amt with
      | .error e => .error e
      | .ok o2 => if s.current < o2 then .error .reject else .ok { s with outgoing := o2 }
  | _, _, _ => .error (.panic .nilDeref)

/-- claim of an incoming swap: `DecrementIncomingAssetSupply` then `IncrementCurrentAssetSupply` -/
def htltClaimIncoming (a : AssetParam) (s : Supply) (amt : Int) : Res Supply :=
  if s.incoming - amt < 0 then .error .reject
  else incrementCurrent a { s with incoming := s.incoming - amt } amt

/-! ## stored parameters of the five modules, and the operations of the line protocol -/

structure Store where
  coinswap : CoinswapParams := coinswapDefault
  farm : FarmParams := farmDefault
  htlc : HtlcParams := htlcDefault
  service : ServiceParams := serviceDefault
  token : TokenParams := tokenDefault
  deriving Repr, Inhabited

inductive AnyParams where
  | coinswap (p : CoinswapParams)
  | farm (p : FarmParams)
  | htlc (p : HtlcParams)
  | service (p : ServiceParams)
  | token (p : TokenParams)
  deriving DecidableEq, Repr, Inhabited

def validateAny : AnyParams → Res Unit
  | .coinswap p => coinswapValidate p
  | .farm p => farmValidate p
  | .htlc p => htlcValidate p
  | .service p => serviceValidate p
  | .token p => tokenValidate p

/-- the governance module account, symbolic -/
def authority : String := "authority"

/-- `MsgUpdateParams` delivered to the module of `p` -/
def stepUpdate (s : Store) (sender : String) (p : AnyParams) : Res Store :=
  match p with
  | .coinswap q => (updateParams coinswapValidate id authority sender q).map fun r => { s with coinswap := r }
  | .farm q => (updateParams farmValidate farmNorm authority sender q).map fun r => { s with farm := r }
  | .htlc q => (updateParams htlcValidate id authority sender q).map fun r => { s with htlc := r }
  | .service q => (updateParams serviceValidate id authority sender q).map fun r => { s with service := r }
  | .token q => (updateParams tokenValidate id authority sender q).map fun r => { s with token := r }

/-- the message server's `UpdateParams` called WITHOUT the router's `ValidateBasic` pre-check (the
    handler-level path): the authority comparison comes first, then `Keeper.SetParams` validates.
    For the authority this is `stepUpdate` (validation once instead of twice); for anyone else it is
    a plain rejection — even when the submitted set would make `Validate` panic. -/
def stepUpdateDirect (s : Store) (sender : String) (p : AnyParams) : Res Store :=
  if sender ≠ authority then .error .reject else stepUpdate s sender p

structure UpdateOp where
  sender : String
  params : AnyParams
  deriving Repr, Inhabited

/-- a rejected (or panicking) message leaves the store unchanged -/
def applyOp (s : Store) (op : UpdateOp) : Store :=
  match stepUpdate s op.sender op.params with
  | .ok s' => s'
  | .error _ => s

def run (s : Store) (ops : List UpdateOp) : Store := ops.foldl applyOp s

/-- symbols registered in the application the harness forks from -/
def baseSymbols : List String := ["stake"]

/-- genesis import of the module of `p`: `(ValidateGenesis verdict, InitGenesis result)` -/
def genesisAny (p : AnyParams) : Res Unit × Res AnyParams :=
  match p with
  | .coinswap q => (coinswapValidate q, (importGenesis coinswapValidate coinswapValidate id (fun _ => true) q).map .coinswap)
  | .farm q => (farmValidateGenesis q, (importGenesis farmValidateGenesis farmValidate farmNorm (fun _ => true) q).map .farm)
  | .htlc q => (htlcValidate q, (importGenesis htlcValidate htlcValidate id (fun _ => true) q).map .htlc)
  | .service q => (serviceValidate q, (importGenesis serviceValidate serviceValidate id (fun _ => true) q).map .service)
  | .token q => (tokenValidate q, (importGenesis tokenValidate tokenValidate id (tokenGenesisExtra baseSymbols) q).map .token)

/-! ## batteries: which operations of the harness's fixed battery abort under the stored
parameters.  Only the parameter-dependent fragments decide; the inputs are the battery's. -/

def pow2_256i : Int := (pow2_256 : Int)

/-- 2^255 as an integer: amounts below it survive the 18-decimal scaling of `LegacyNewDecFromInt` -/
def pow2_255 : Int := 57896044618658097711785492504343953926634992332820282019728792003956564819968

/-- 2^128: the magnitude below which every parameter amount and counter keeps the handlers'
    checked arithmetic far from the 256-bit limit -/
def pow2_128 : Int := 340282366920938463463374607431768211456

/-- coinswap: the pool-creating `add_btc` runs `DeductPoolCreationFee` -/
def batteryCoinswap (p : CoinswapParams) : List String :=
  (if isPanic (poolCreationFee p.poolCreationFee p.taxRate) then ["add_btc"] else []) ++
  (if isPanic (inputPrice 1000 1500000 1500000 p.fee) then ["sell"] else []) ++
  (if isPanic (outputPrice 500 1500000 1500000 p.fee) then ["buy"] else [])

/-- farm: `create_pool` carries one reward category -/
def batteryFarm (p : FarmParams) : List String :=
  if isPanic (farmCreatePoolFee p 1) then ["create_pool"] else []

/-- the supply a battery continues from: the new one if the step succeeded, else the old one -/
def supplyAfter (r : Res Supply) (s0 : Supply) : Supply :=
  match r with
  | .ok s => s
  | .error _ => s0

/-- a step that is only attempted when an earlier one succeeded (otherwise an ordinary rejection) -/
def onlyAfter (r1 : Res Supply) (r : Res Supply) : Res Supply :=
  match r1 with
  | .ok _ => r
  | .error _ => .error .reject

/-- htlc: the HTLT part of the battery uses the first asset, amount = its MaxSwapAmount,
    starting from the empty supply the begin blocker creates -/
def batteryHtlc (p : HtlcParams) : List String :=
  match p with
  | [] => []
  | a :: _ =>
    match a.maxSwapAmount with
    | none => []
    | some mx =>
      let s0 : Supply := {}
      let r1 := htltIncoming a s0 mx
      let s1 := supplyAfter r1 s0
      let r2 := htltIncoming a s1 mx
      let s2 := supplyAfter r2 s1
      let r3 := onlyAfter r1 (htltClaimIncoming a s2 mx)
      let s3 := supplyAfter r3 s2
      let r4 := htltOutgoing a s3 mx a.maxBlockLock
      (if isPanic r1 then ["htlt_in"] else []) ++ (if isPanic r2 then ["htlt_in2"] else []) ++
      (if isPanic r3 then ["htlt_claim"] else []) ++ (if isPanic r4 then ["htlt_out"] else [])

/-- the supplies of the first asset when the stored set takes over in the carry-over battery: built under
    generous limits — an incoming 5000 claimed, incoming 3000 + 2000 open, outgoing 1500 + 1000 open -/
def carrySupply : Supply := { incoming := 5000, outgoing := 2500, current := 5000, timeLimitedCurrent := 0 }

/-- htlc, carry-over part: the stored set meets transfers opened BEFORE it was stored — claim of the open
    incoming 3000 (`IncrementCurrentAssetSupply` under the new limits), claim of the open outgoing 1500
    (decrements only: no parameter is read), then a new incoming 2500, a new incoming 7 and a new outgoing 1200 -/
def batteryHtlcCarry (p : HtlcParams) : List String :=
  match p with
  | [] => []
  | a :: _ =>
    let r1 := htltClaimIncoming a carrySupply 3000
    let s1 := supplyAfter r1 carrySupply
    let s2 : Supply := { s1 with outgoing := s1.outgoing - 1500, current := s1.current - 1500 }
    let r3 := htltIncoming a s2 2500
    let s3 := supplyAfter r3 s2
    let r4 := htltIncoming a s3 7
    let s4 := supplyAfter r4 s3
    let r5 := htltOutgoing a s4 1200 a.maxBlockLock
    (if isPanic r1 then ["carry_claim_in"] else []) ++ (if isPanic r3 then ["carry_new_in"] else []) ++
    (if isPanic r4 then ["carry_new_in_small"] else []) ++ (if isPanic r5 then ["carry_new_out"] else [])

/-- service: bind (min deposit for price 10), respond (fee 10 taxed), expiry (deposit 10^20 slashed) -/
def batteryService (p : ServiceParams) : List String :=
  (if isPanic (minDepositBase p 10) then ["bind"] else []) ++
  (if isPanic (earnedFeeSplit 10 p.serviceFeeTax) then ["respond"] else []) ++
  (if isPanic (slashSplit p.baseDenom 100000000000000000000 p.slashFraction) then ["end_block3"] else [])

/-- `calcFeeFactor` for the battery's symbols: length 5 ↦ 4.61, length 3 ↦ 1.00 -/
def factor5 : Dec := Dec.withPrec 461 2
def factor3 : Dec := Dec.withPrec 100 2

/-- registry in the battery: the native token and the pre-issued `kitty` (scale 6) -/
def batteryReg : TokenReg := [("stake", 0, "stake"), ("kitty", 6, "ukitty")]

def batteryToken (p : TokenParams) : List String :=
  (if isPanic (issueFeePath p batteryReg factor5) then ["issue"] else []) ++
  (if isPanic (issueFeePath p batteryReg factor3) then ["issue3"] else []) ++
  (if isPanic (mintFeePath p batteryReg factor5) then ["mint"] else [])

end Irismod.Params
