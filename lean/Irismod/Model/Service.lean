/-
Executable model of the service module (modules/service: keeper/{binding,definition,fees,
invocation,state_change,oracle_price,msg_server}.go, abci.go and the ValidateBasic rules of
types/{msgs,validation,binding}.go).

What is *not* modelled and is supplied per operation line instead (DESIGN.md C07/C08):
JSON-schema validation of schemas, inputs, outputs, results and options (a Boolean per
payload), and the exchange-rate oracle (a rate table, `rates`).  Amounts are natural
numbers; the 256-bit / 315-bit range checks of `sdkmath.Int` / `LegacyDec` are not modelled
(the correspondence universe keeps every amount below 2^100, where they cannot trigger).

Every handler follows the Go code as it is, including the two ledger defects F-svc-1
(`FilterServiceProviders` sums the undiscounted price, `buildRequest` records the
discounted one) and F-svc-2 (`SetOwnerEarnedFees` never deletes a denom that dropped to 0)
and the queue leak F-svc-3 (new-batch entry kept when no exchange rate is available).
A rejected message leaves the state unchanged.
-/
import Irismod.Sdk.Map
import Irismod.Sdk.Dec18
import Irismod.Sdk.Bank
import Irismod.Sdk.Sha256
import Irismod.Sdk.Line

namespace Irismod.Service
open Irismod Irismod.Sdk

abbrev CtxId := String
abbrev Coins := List (Denom × Nat)

/-- a request id, kept structured: `GenerateRequestID` concatenates exactly these four fields
(context id, batch counter, request height, index in the batch) in fixed width -/
structure ReqId where
  ctx   : CtxId
  batch : Nat
  h     : Int
  idx   : Nat
  deriving DecidableEq, Repr, Inhabited

/-- module accounts (symbolic names shared with the harness) -/
def depAcc : Addr := "Mdep"
def reqAcc : Addr := "Mreq"
def fcAcc : Addr := "Mfc"
def blockedAcc : Addr := "Mblk"

inductive CtxState where
  | running | paused | completed
  deriving DecidableEq, Repr, Inhabited

inductive BatchState where
  | running | completed
  deriving DecidableEq, Repr, Inhabited

structure Pricing where
  denom  : Denom := ""
  amount : Nat := 0
  ptime  : List (Int × Int × Dec) := []      -- start, end, discount
  pvol   : List (Nat × Dec) := []            -- volume, discount
  deriving DecidableEq, Repr, Inhabited

structure Binding where
  owner        : Addr
  deposit      : Nat                          -- amount of the base denom (validateDeposit admits nothing else)
  pricing      : Pricing
  qos          : Nat
  available    : Bool
  disabledTime : Int
  deriving DecidableEq, Repr, Inhabited

structure Ctx where
  svc           : String := ""
  providers     : List Addr := []
  consumer      : Addr := ""
  cap           : Nat := 0                    -- service fee cap, base denom (validateServiceFeeCap)
  timeout       : Int := 0
  repeated      : Bool := false
  freq          : Nat := 0
  total         : Int := 0
  batchCounter  : Nat := 0
  batchReqCount : Nat := 0
  batchRespCount : Nat := 0
  batchRespThreshold : Nat := 0
  batchState    : BatchState := .running     -- zero value of the protobuf enum
  state         : CtxState := .running
  respThreshold : Nat := 0
  moduleName    : String := ""
  deriving DecidableEq, Repr, Inhabited

structure Req where
  ctx      : CtxId
  batch    : Nat
  provider : Addr
  feeDenom : Denom
  feeAmt   : Nat
  reqH     : Int
  expH     : Int
  deriving DecidableEq, Repr, Inhabited

structure Resp where
  provider : Addr
  consumer : Addr
  hasOut   : Bool
  ctx      : CtxId
  batch    : Nat
  deriving DecidableEq, Repr, Inhabited

structure Params where
  maxTimeout  : Int := 100
  minDepMult  : Nat := 1000
  minDeposit  : Coins := []
  tax         : Dec := ⟨0⟩
  slash       : Dec := ⟨0⟩
  complaint   : Int := 0                      -- seconds
  arbitration : Int := 0                      -- seconds
  base        : Denom := "stake"
  restricted  : Bool := false
  deriving Repr, Inhabited

/-- invocations of the registered module callback -/
inductive CbEvent where
  | resp (id : CtxId) (batch : Nat) (nOut : Nat) (err : Bool)
  | state (id : CtxId) (cause : String)
  deriving DecidableEq, Repr, Inhabited

structure State where
  params   : Params := {}
  height   : Int := 0
  time     : Int := 0
  idx      : Nat := 0
  supplied : List Denom := []
  rates    : AMap Denom (String × Dec) := []
  defs     : AMap String Addr := []
  binds    : AMap (String × Addr) Binding := []
  owners   : AMap Addr Addr := []              -- provider ↦ owner
  ownerProv : List (Addr × Addr) := []         -- (owner, provider)
  wd       : AMap Addr Addr := []
  ctxs     : AMap CtxId Ctx := []
  reqs     : AMap ReqId Req := []
  active   : List ReqId := []
  resps    : AMap ReqId Resp := []
  vols     : AMap (Addr × String × Addr) Nat := []
  earned   : AMap (Addr × Denom) Nat := []     -- per (provider, denom) store entries
  oearned  : AMap (Addr × Denom) Nat := []     -- per (owner, denom) store entries
  newQ     : List (Int × CtxId) := []
  newH     : AMap CtxId Int := []
  expQ     : List (Int × CtxId) := []
  expH     : AMap CtxId Int := []
  bank     : Bank := {}
  cb       : List CbEvent := []                -- callbacks fired during the current operation
  deriving Repr, Inhabited

inductive Err where
  | reject (why : String)
  | panic (why : String)
  deriving Repr, Inhabited

abbrev R := Except Err State

def rej (why : String) : R := .error (.reject why)

/-! ### decimals (LegacyDec without range checks) -/

def decOne : Dec := ⟨precision⟩
def decOfNat (n : Nat) : Dec := ⟨(n : Int) * precision⟩
/-- `Mul`: round half-even -/
def mulDec (a b : Dec) : Dec := ⟨chopRound (a.raw * b.raw)⟩
/-- `TruncateInt` of a non-negative decimal -/
def truncNat (a : Dec) : Nat := (chopTrunc a.raw).toNat

/-- `LegacyNewDecFromInt(n).Mul(r).TruncateInt()` -/
def mulTrunc (n : Nat) (r : Dec) : Nat := truncNat (mulDec (decOfNat n) r)

/-! ### coins -/

def Coins.amountOf (c : Coins) (d : Denom) : Nat := ((c.find? (fun e => e.1 = d)).map (·.2)).getD 0

def isAlpha (c : Char) : Bool := ('a' ≤ c && c ≤ 'z') || ('A' ≤ c && c ≤ 'Z')
def isDigit (c : Char) : Bool := '0' ≤ c && c ≤ '9'

/-- `sdk.ValidateDenom`: `[a-zA-Z][a-zA-Z0-9/:._-]{2,127}` -/
def validDenom (d : Denom) : Bool :=
  match d.toList with
  | [] => false
  | c :: rest =>
    isAlpha c && 2 ≤ rest.length && rest.length ≤ 127 &&
    rest.all (fun x => isAlpha x || isDigit x || x = '/' || x = ':' || x = '.' || x = '_' || x = '-')

/-- the pricing schema's price pattern `^\d+[a-zA-Z][a-zA-Z0-9/]{2,127}$` (denom part) -/
def validPriceDenom (d : Denom) : Bool :=
  match d.toList with
  | [] => false
  | c :: rest =>
    isAlpha c && 2 ≤ rest.length && rest.length ≤ 127 && rest.all (fun x => isAlpha x || isDigit x || x = '/')

def sortedStrict : Coins → Bool
  | [] => true
  | [_] => true
  | a :: b :: t => decide (a.1 < b.1) && sortedStrict (b :: t)

/-- `Coins.Validate` (`IsValid`): valid denoms, positive amounts, strictly ascending -/
def coinsValid (c : Coins) : Bool :=
  c.all (fun e => validDenom e.1 && decide (0 < e.2)) && sortedStrict c

/-! ### names, addresses, ids -/

def knownAddrs : List Addr :=
  ["A0", "A1", "A2", "A3", "A4", "A5", "A6", "A7", "A8", "A9", depAcc, reqAcc, fcAcc, blockedAcc]

/-- a string the harness maps to a well-formed bech32 address -/
def validAddr (a : Addr) : Bool := knownAddrs.contains a

/-- `^[a-zA-Z][a-zA-Z0-9_-]*$`, at most 70 characters -/
def validSvcName (n : String) : Bool :=
  match n.toList with
  | [] => false
  | c :: rest => isAlpha c && rest.length < 70 && rest.all (fun x => isAlpha x || isDigit x || x = '_' || x = '-')

def moduleSvcName : String := "oracle-price"
def cbModule : String := "verifcb"

def isHex (s : String) : Bool := s.toList.all (fun c => (Line.hexVal c).isSome)

def hexN (width : Nat) (n : Nat) : String :=
  let ds := (Nat.toDigits 16 n)
  String.ofList (List.replicate (width - ds.length) '0' ++ ds)

/-- `GenerateRequestContextID(tmhash.Sum(txBytes), index)` -/
def ctxIdOf (tx : String) (idx : Nat) : CtxId :=
  Line.hexOfBytes (Sha256.sum tx.toUTF8) ++ hexN 16 idx

/-- `GenerateRequestID` -/
def reqIdOf (id : CtxId) (batch : Nat) (h : Int) (i : Nat) : ReqId := ⟨id, batch, h, i⟩

/-- the 58-byte request id in hex, as the store keys and messages carry it -/
def ReqId.toHex (r : ReqId) : String := r.ctx ++ hexN 16 r.batch ++ hexN 16 r.h.toNat ++ hexN 4 r.idx

/-- the requests / responses / active markers of one batch share the key prefix (context id, batch) -/
def ReqId.inBatch (r : ReqId) (id : CtxId) (batch : Nat) : Bool := r.ctx = id && r.batch = batch

/-- store iteration order inside one batch prefix: request height, then index -/
def ReqId.le (a b : ReqId) : Bool := decide (a.h < b.h) || (decide (a.h = b.h) && decide (a.idx ≤ b.idx))

def insertBy {α} (le : α → α → Bool) (x : α) : List α → List α
  | [] => [x]
  | h :: t => if le x h then x :: h :: t else h :: insertBy le x t

/-- insertion sort (kept elementary so that membership lemmas are one-liners) -/
def isort {α} (le : α → α → Bool) (l : List α) : List α := l.foldr (insertBy le) []

def zeroTime : Int := -62135596800

/-! ### queues (sets of `(height, context)` with the per-context height marker) -/

def qInsert (q : List (Int × CtxId)) (e : Int × CtxId) : List (Int × CtxId) :=
  if q.contains e then q else q ++ [e]

def addNew (s : State) (id : CtxId) (h : Int) : State :=
  { s with newQ := qInsert s.newQ (h, id), newH := AMap.set s.newH id h }

def delNew (s : State) (id : CtxId) (h : Int) : State :=
  { s with newQ := s.newQ.filter (· ≠ (h, id)), newH := AMap.erase s.newH id }

def addExp (s : State) (id : CtxId) (h : Int) : State :=
  { s with expQ := qInsert s.expQ (h, id), expH := AMap.set s.expH id h }

def delExp (s : State) (id : CtxId) (h : Int) : State :=
  { s with expQ := s.expQ.filter (· ≠ (h, id)), expH := AMap.erase s.expH id }

/-! ### pricing -/

/-- `GetDiscountByTime` -/
def discT (p : Pricing) (t : Int) : Dec :=
  match p.ptime.find? (fun e => decide (e.1 ≤ t) && decide (t < e.2.1)) with
  | some e => e.2.2
  | none => decOne

def discVAux : List (Nat × Dec) → Option Dec → Nat → Dec
  | [], _, _ => decOne
  | (v, d) :: rest, prev, vol =>
    if vol < v then prev.getD decOne
    else if rest.isEmpty then d
    else discVAux rest (some d) vol

/-- `GetDiscountByVolume` -/
def discV (p : Pricing) (vol : Nat) : Dec := discVAux p.pvol none vol

def volOf (s : State) (consumer : Addr) (svc : String) (prov : Addr) : Nat :=
  AMap.getD s.vols (consumer, svc, prov) 0

/-- `GetPrice`: the discounted fee recorded on a request -/
def feeOf (s : State) (consumer : Addr) (svc : String) (prov : Addr) (p : Pricing) : Nat :=
  truncNat (mulDec (mulDec (decOfNat p.amount) (discT p s.time)) (discV p (volOf s consumer svc prov)))

/-- `GetExchangeRate` through the (stubbed) oracle module service; `none` = error -/
def exchangeRate (s : State) (d : Denom) : Option Dec :=
  match AMap.get? s.rates d with
  | none => none
  | some (_, r) => if r.raw = 0 then none else some r

/-- `GetExchangedPrice`: discounted price in the base denom; `none` = no exchange rate -/
def exchangedPrice (s : State) (consumer : Addr) (svc : String) (prov : Addr) (p : Pricing) : Option Nat :=
  let price := mulDec (mulDec (decOfNat p.amount) (discT p s.time)) (discV p (volOf s consumer svc prov))
  if s.params.base ≠ p.denom then
    match exchangeRate s p.denom with
    | none => none
    | some r => some (truncNat (mulDec price r))
  else some (truncNat price)

def singleBase (s : State) (n : Nat) : Coins := if n = 0 then [] else [(s.params.base, n)]

/-- `GetMinDeposit`; `none` = error (no exchange rate) -/
def minDeposit (s : State) (p : Pricing) : Option Coins :=
  let bp : Option Nat :=
    if p.denom ≠ s.params.base ∧ p.amount ≠ 0 then
      match exchangeRate s p.denom with
      | none => none
      | some r => let x := mulTrunc p.amount r; some (if x = 0 then 1 else x)
    else some p.amount
  match bp with
  | none => none
  | some b =>
    let md := b * s.params.minDepMult
    if md ≠ 0 ∧ md < Coins.amountOf s.params.minDeposit s.params.base then some s.params.minDeposit
    else some (singleBase s md)

/-- `deposit.IsAllGTE(minDeposit)` for a deposit of `dep` base coins -/
def depositGTE (s : State) (dep : Nat) (min : Coins) : Bool :=
  if min.isEmpty then true
  else if dep = 0 then false
  else min.all (fun e => decide (e.2 ≤ (if e.1 = s.params.base then dep else 0)))

/-! ### pricing documents as the op line carries them -/

structure PricingIn where
  jsonOk : Bool
  amount : Nat
  denom  : Denom
  ptime  : List (Int × Int × String)
  pvol   : List (Nat × String)
  deriving Repr, Inhabited

/-- discount pattern `^0\.\d*[1-9]$` with at most 18 decimals -/
def parseDiscount (d : String) : Option Dec :=
  match d.toList with
  | '0' :: '.' :: frac =>
    if frac.isEmpty ∨ 18 < frac.length ∨ !(frac.all isDigit) then none
    else if frac.getLast? = some '0' then none
    else
      let n := frac.foldl (fun acc c => acc * 10 + (c.toNat - 48)) 0
      some ⟨((n * 10 ^ (18 - frac.length) : Nat) : Int)⟩
  | _ => none

def nodup {α} [DecidableEq α] : List α → Bool
  | [] => true
  | a :: t => !(t.contains a) && nodup t

def timesOk : List (Int × Int × Dec) → Option Int → Bool
  | [], _ => true
  | (st, en, _) :: rest, prevEnd =>
    decide (st < en) && (match prevEnd with | none => true | some pe => decide (pe ≤ st)) && timesOk rest (some en)

def volsOk : List (Nat × Dec) → Option Nat → Bool
  | [], _ => true
  | (v, _) :: rest, prev =>
    (match prev with | none => true | some pv => decide (pv ≤ v)) && volsOk rest (some v)

def mapM' {α β} (f : α → Option β) : List α → Option (List β)
  | [] => some []
  | a :: t => match f a with
    | none => none
    | some b => match mapM' f t with
      | none => none
      | some bs => some (b :: bs)

/-- `ValidatePricing` (schema + `ParsePricing` + `CheckPricing`) -/
def parsePricing (p : PricingIn) : Option Pricing :=
  if !p.jsonOk then none else
  if !(validPriceDenom p.denom) then none else
  if 5 < p.ptime.length ∨ 5 < p.pvol.length then none else
  if !(nodup p.ptime) ∨ !(nodup p.pvol) then none else
  match mapM' (fun e => (parseDiscount e.2.2).map (fun d => (e.1, e.2.1, d))) p.ptime with
  | none => none
  | some pt =>
    match mapM' (fun e => if e.1 = 0 then none else (parseDiscount e.2).map (fun d => (e.1, d))) p.pvol with
    | none => none
    | some pv =>
      if timesOk pt none && volsOk pv none then
        some { denom := p.denom, amount := p.amount, ptime := pt, pvol := pv }
      else none

/-- keeper `ParsePricing`: the above plus `validatePricing` -/
def keeperPricing (s : State) (p : PricingIn) : Option Pricing :=
  match parsePricing p with
  | none => none
  | some pr =>
    if s.params.restricted ∧ pr.denom ≠ s.params.base then none
    else if !(s.supplied.contains pr.denom) then none
    else some pr

/-! ### definitions and bindings -/

def stepDefine (s : State) (sender : Addr) (name : String) (schOk : Bool) : R :=
  if !(validAddr sender) then rej "author" else
  if !(validSvcName name) then rej "name" else
  if !schOk then rej "schemas" else
  if AMap.contains s.defs name then rej "exists" else
  .ok { s with defs := AMap.set s.defs name sender }

/-- `validateDeposit`: exactly one coin, in the base denom -/
def depositOf (s : State) (dep : Coins) : Option Nat :=
  match dep with
  | [(d, n)] => if d = s.params.base then some n else none
  | _ => none

def sendBase (s : State) (src dst : Addr) (n : Nat) : Option Bank := Bank.send s.bank src dst s.params.base n

/-- the provider already has a different owner -/
def ownedByOther (s : State) (provider owner : Addr) : Bool :=
  match AMap.get? s.owners provider with
  | some o => decide (o ≠ owner)
  | none => false

/-- `GetMinDeposit` fails or the deposit is below it -/
def belowMin (s : State) (pr : Pricing) (dep : Nat) : Bool :=
  match minDeposit s pr with
  | none => true
  | some md => !(depositGTE s dep md)

def stepBind (s : State) (owner provider : Addr) (svc : String) (dep : Coins) (qos : Nat)
    (pin : PricingIn) (optsOk : Bool) : R :=
  if !(validAddr provider) ∨ !(validAddr owner) then rej "address" else
  if !(validSvcName svc) then rej "name" else
  if !(coinsValid dep) then rej "deposit invalid" else
  if qos = 0 then rej "qos" else
  if !optsOk then rej "options" else
  if (parsePricing pin).isNone then rej "pricing" else
  if svc = moduleSvcName then rej "module service" else
  if !(AMap.contains s.defs svc) then rej "unknown definition" else
  if AMap.contains s.binds (svc, provider) then rej "binding exists" else
  if ownedByOther s provider owner then rej "owner" else
  match depositOf s dep with
  | none => rej "deposit denom"
  | some d =>
    if s.params.maxTimeout < (qos : Int) then rej "qos max" else
    match keeperPricing s pin with
    | none => rej "pricing"
    | some pr =>
      match minDeposit s pr with
      | none => rej "min deposit"
      | some md =>
        if !(depositGTE s d md) then rej "insufficient deposit" else
        match sendBase s owner depAcc d with
        | none => rej "funds"
        | some bank =>
          .ok { s with bank := bank,
                       binds := AMap.set s.binds (svc, provider)
                         { owner := owner, deposit := d, pricing := pr, qos := qos, available := true, disabledTime := zeroTime },
                       owners := if AMap.contains s.owners provider then s.owners else AMap.set s.owners provider owner,
                       ownerProv := if AMap.contains s.owners provider then s.ownerProv else s.ownerProv ++ [(owner, provider)] }

/-- `UpdateServiceBinding`; `dep = []`, `qos = 0`, `pin = none`, `opts = none` mean "unchanged" -/
def stepUpdateBinding (s : State) (owner provider : Addr) (svc : String) (dep : Coins) (qos : Nat)
    (pin : Option PricingIn) (opts : Option Bool) : R :=
  if !(validAddr provider) ∨ !(validAddr owner) then rej "address" else
  if !(validSvcName svc) then rej "name" else
  if !(dep.isEmpty) ∧ !(coinsValid dep) then rej "deposit invalid" else
  if opts = some false then rej "options" else
  if (match pin with | some p => (parsePricing p).isNone | none => false) then rej "pricing" else
  match AMap.get? s.binds (svc, provider) with
  | none => rej "unknown binding"
  | some b =>
    if b.owner ≠ owner then rej "owner" else
    if qos ≠ 0 ∧ s.params.maxTimeout < (qos : Int) then rej "qos max" else
    match (if dep.isEmpty then some 0 else depositOf s dep) with
    | none => rej "deposit denom"
    | some d =>
      match (match pin with | some p => keeperPricing s p | none => some b.pricing) with
      | none => rej "pricing"
      | some pr =>
        let updated := qos ≠ 0 ∨ !(dep.isEmpty) ∨ pin.isSome ∨ opts.isSome
        let b' : Binding := { b with qos := if qos ≠ 0 then qos else b.qos, deposit := b.deposit + d, pricing := pr }
        if b.available ∧ updated ∧ belowMin s pr b'.deposit then
          rej "insufficient deposit"
        else
          match (if dep.isEmpty then some s.bank else sendBase s owner depAcc d) with
          | none => rej "funds"
          | some bank =>
            .ok { s with bank := bank, binds := if updated then AMap.set s.binds (svc, provider) b' else s.binds }

def stepSetWithdraw (s : State) (owner addr : Addr) : R :=
  if !(validAddr owner) ∨ !(validAddr addr) then rej "address" else
  if addr = blockedAcc then rej "blocked" else
  .ok { s with wd := AMap.set s.wd owner addr }

def stepDisable (s : State) (owner provider : Addr) (svc : String) : R :=
  if !(validAddr provider) ∨ !(validAddr owner) then rej "address" else
  if !(validSvcName svc) then rej "name" else
  match AMap.get? s.binds (svc, provider) with
  | none => rej "unknown binding"
  | some b =>
    if b.owner ≠ owner then rej "owner" else
    if !b.available then rej "unavailable" else
    .ok { s with binds := AMap.set s.binds (svc, provider) { b with available := false, disabledTime := s.time } }

def stepEnable (s : State) (owner provider : Addr) (svc : String) (dep : Coins) : R :=
  if !(validAddr provider) ∨ !(validAddr owner) then rej "address" else
  if !(validSvcName svc) then rej "name" else
  if !(dep.isEmpty) ∧ !(coinsValid dep) then rej "deposit invalid" else
  match AMap.get? s.binds (svc, provider) with
  | none => rej "unknown binding"
  | some b =>
    if b.owner ≠ owner then rej "owner" else
    if b.available then rej "available" else
    match (if dep.isEmpty then some 0 else depositOf s dep) with
    | none => rej "deposit denom"
    | some d =>
      match minDeposit s b.pricing with
      | none => rej "min deposit"
      | some md =>
        if !(depositGTE s (b.deposit + d) md) then rej "insufficient deposit" else
        match (if dep.isEmpty then some s.bank else sendBase s owner depAcc d) with
        | none => rej "funds"
        | some bank =>
          .ok { s with bank := bank,
                       binds := AMap.set s.binds (svc, provider)
                         { b with deposit := b.deposit + d, available := true, disabledTime := zeroTime } }

def stepRefundDeposit (s : State) (owner provider : Addr) (svc : String) : R :=
  if !(validAddr provider) ∨ !(validAddr owner) then rej "address" else
  if !(validSvcName svc) then rej "name" else
  match AMap.get? s.binds (svc, provider) with
  | none => rej "unknown binding"
  | some b =>
    if b.owner ≠ owner then rej "owner" else
    if b.available then rej "available" else
    if b.deposit = 0 then rej "zero deposit" else
    if s.time < b.disabledTime + s.params.arbitration + s.params.complaint then rej "too early" else
    match sendBase s depAcc b.owner b.deposit with
    | none => rej "funds"
    | some bank => .ok { s with bank := bank, binds := AMap.set s.binds (svc, provider) { b with deposit := 0 } }

/-! ### request contexts -/

def getCtx (s : State) (id : CtxId) : Ctx := (AMap.get? s.ctxs id).getD {}

def setCtx (s : State) (id : CtxId) (c : Ctx) : State := { s with ctxs := AMap.set s.ctxs id c }

/-- `ValidateRequest` (shared by `MsgCallService.ValidateBasic` and the module path) -/
def validRequest (svc : String) (cap : Coins) (providers : List Addr) (inputOk : Bool) (timeout : Int)
    (repeated : Bool) (freq : Nat) (total : Int) : Bool :=
  validSvcName svc && coinsValid cap && !(providers.isEmpty) && decide (providers.length ≤ 10) && nodup providers &&
  inputOk && decide (0 < timeout) &&
  (!repeated || (!(decide (0 < freq) && decide ((freq : Int) < timeout)) && !(decide (total < -1) || decide (total = 0))))

/-- `CreateRequestContext` after the message-level checks -/
def createCtx (s : State) (newId : CtxId) (svc : String) (providers : List Addr) (consumer : Addr) (inputOk : Bool)
    (cap : Coins) (timeout : Int) (repeated : Bool) (freq : Nat) (total : Int) (st : CtxState) (thr : Nat)
    (moduleName : String) : R :=
  if moduleName ≠ "" ∧ moduleName ≠ cbModule then rej "callback not registered" else
  if moduleName ≠ "" ∧ !(validRequest svc cap providers inputOk timeout repeated freq total) then rej "request" else
  if moduleName ≠ "" ∧ (thr < 1 ∨ providers.length < thr) then rej "threshold" else
  if !(AMap.contains s.defs svc) then rej "unknown definition" else
  if !inputOk then rej "input" else
  match depositOf s cap with
  | none => rej "fee cap"
  | some c =>
    if s.params.maxTimeout < timeout then rej "timeout" else
    let rc : Ctx :=
      { svc := svc, providers := providers, consumer := consumer, cap := c, timeout := timeout, repeated := repeated,
        freq := if repeated then (if freq = 0 then timeout.toNat else freq) else 0,
        total := if repeated then total else 0,
        batchCounter := 0, batchReqCount := 0, batchRespCount := 0, batchRespThreshold := thr,
        batchState := .completed, state := st, respThreshold := thr, moduleName := moduleName }
    let s1 := { setCtx s newId rc with idx := s.idx + 1 }
    .ok (if st = .running then addNew s1 newId s.height else s1)

def stepCall (s : State) (newId : CtxId) (consumer : Addr) (svc : String) (providers : List Addr) (cap : Coins)
    (timeout : Int) (repeated : Bool) (freq : Nat) (total : Int) (inputOk : Bool) : R :=
  if !(validAddr consumer) ∨ !(providers.all validAddr) then rej "address" else
  if !(validRequest svc cap providers inputOk timeout repeated freq total) then rej "request" else
  if svc = moduleSvcName then rej "module service (not modelled)" else
  createCtx s newId svc providers consumer inputOk cap timeout repeated freq total .running 0 ""

/-- `CheckAuthority` -/
def checkAuthority (s : State) (consumer : Addr) (id : CtxId) (checkModule : Bool) : Except Err Unit :=
  match AMap.get? s.ctxs id with
  | none => .error (.reject "unknown context")
  | some rc =>
    if consumer ≠ rc.consumer then .error (.reject "not authorized") else
    if checkModule ∧ rc.moduleName ≠ "" then .error (.reject "module context") else .ok ()

def validCtxId (id : String) : Bool := id.length = 80 && isHex id

def keeperPause (s : State) (id : CtxId) (consumer : Addr) : R :=
  match AMap.get? s.ctxs id with
  | none => rej "unknown context"
  | some rc =>
    match (if rc.moduleName ≠ "" then checkAuthority s consumer id false else .ok ()) with
    | .error e => .error e
    | .ok _ =>
      if !rc.repeated then rej "non repeated" else
      if rc.state ≠ .running then rej "not running" else
      .ok (setCtx s id { rc with state := .paused })

def keeperStart (s : State) (id : CtxId) (consumer : Addr) : R :=
  match AMap.get? s.ctxs id with
  | none => rej "unknown context"
  | some rc =>
    match (if rc.moduleName ≠ "" then checkAuthority s consumer id false else .ok ()) with
    | .error e => .error e
    | .ok _ =>
      if rc.state ≠ .paused then rej "not paused" else
      let s1 := setCtx s id { rc with state := .running }
      .ok (if !(AMap.contains s.expH id) ∧ !(AMap.contains s.newH id) then addNew s1 id s.height else s1)

def keeperKill (s : State) (id : CtxId) (consumer : Addr) : R :=
  match AMap.get? s.ctxs id with
  | none => rej "unknown context"
  | some rc =>
    match (if rc.moduleName ≠ "" then checkAuthority s consumer id false else .ok ()) with
    | .error e => .error e
    | .ok _ =>
      if !rc.repeated then rej "non repeated" else
      .ok (setCtx s id { rc with state := .completed })

/-- `ValidateRequestContextUpdating` -/
def validUpdate (providers : List Addr) (cap : Coins) (timeout : Int) (freq : Nat) (total : Int) : Bool :=
  decide (providers.length ≤ 10) && nodup providers && (cap.isEmpty || coinsValid cap) && decide (0 ≤ timeout) &&
  !(decide (timeout ≠ 0) && decide (freq ≠ 0) && decide ((freq : Int) < timeout)) && decide (-1 ≤ total)

def keeperUpdate (s : State) (id : CtxId) (providers : List Addr) (thr : Nat) (cap : Coins) (timeout : Int)
    (freq : Nat) (total : Int) (consumer : Addr) : R :=
  match AMap.get? s.ctxs id with
  | none => rej "unknown context"
  | some rc =>
    match (if rc.moduleName ≠ "" then checkAuthority s consumer id false else .ok ()) with
    | .error e => .error e
    | .ok _ =>
      if rc.state = .completed then rej "completed" else
      if rc.moduleName ≠ "" ∧ !(validUpdate providers cap timeout freq total) then rej "update" else
      let thr1 := if rc.moduleName ≠ "" ∧ thr = 0 then rc.respThreshold else thr
      let pds := if providers.isEmpty ∧ rc.moduleName ≠ "" then rc.providers else providers
      if rc.moduleName ≠ "" ∧ pds.length < thr1 then rej "threshold" else
      let rc1 := if rc.moduleName ≠ "" ∧ 0 < thr1 then { rc with respThreshold := thr1 } else rc
      match (if cap.isEmpty then some rc1.cap else depositOf s cap) with
      | none => rej "fee cap"
      | some c =>
        if s.params.maxTimeout < timeout then rej "timeout" else
        let timeout1 := if timeout = 0 then rc.timeout else timeout
        let freq1 := if freq = 0 then rc.freq else freq
        if (freq1 : Int) < timeout1 then rej "frequency" else
        if 1 ≤ total ∧ total < (rc.batchCounter : Int) then rej "total" else
        .ok (setCtx s id { rc1 with
          cap := c,
          providers := if pds.isEmpty then rc1.providers else pds,
          timeout := if 0 < timeout1 then timeout1 else rc1.timeout,
          freq := if 0 < freq1 then freq1 else rc1.freq,
          total := if total ≠ 0 then total else rc1.total })

/-- the message-level wrapper shared by pause / start / kill / update -/
def ctxMsgGuard (s : State) (consumer : Addr) (id : String) : Except Err Unit :=
  if !(validAddr consumer) then .error (.reject "address") else
  if !(validCtxId id) then .error (.reject "context id") else
  checkAuthority s consumer id.toLower true

def stepPause (s : State) (consumer : Addr) (id : String) : R :=
  match ctxMsgGuard s consumer id with
  | .error e => .error e
  | .ok _ => keeperPause s id.toLower consumer

def stepStart (s : State) (consumer : Addr) (id : String) : R :=
  match ctxMsgGuard s consumer id with
  | .error e => .error e
  | .ok _ => keeperStart s id.toLower consumer

def stepKill (s : State) (consumer : Addr) (id : String) : R :=
  match ctxMsgGuard s consumer id with
  | .error e => .error e
  | .ok _ => keeperKill s id.toLower consumer

def stepUpdateCtx (s : State) (consumer : Addr) (id : String) (providers : List Addr) (cap : Coins) (timeout : Int)
    (freq : Nat) (total : Int) : R :=
  if !(validAddr consumer) then rej "address" else
  if !(validCtxId id) then rej "context id" else
  if !(providers.all validAddr) then rej "address" else
  if !(validUpdate providers cap timeout freq total) then rej "update" else
  match checkAuthority s consumer id.toLower true with
  | .error e => .error e
  | .ok _ => keeperUpdate s id.toLower providers 0 cap timeout freq total consumer

/-! ### responses, earned fees -/

/-- `GetRequest`: the compact request together with its context -/
def getRequest (s : State) (rid : ReqId) : Option (Req × Ctx) :=
  match AMap.get? s.reqs rid with
  | none => none
  | some rq =>
    match AMap.get? s.ctxs rq.ctx with
    | none => none
    | some rc => some (rq, rc)

def bump (m : AMap (Addr × Denom) Nat) (a : Addr) (d : Denom) (n : Nat) : AMap (Addr × Denom) Nat :=
  if n = 0 then m else AMap.set m (a, d) (AMap.getD m (a, d) 0 + n)

/-- `AddEarnedFee`; `none` = error -/
def addEarnedFee (s : State) (provider : Addr) (d : Denom) (amt : Nat) : Option State :=
  let tax := mulTrunc amt s.params.tax
  match Bank.send s.bank reqAcc fcAcc d tax with
  | none => none
  | some bank =>
    if amt < tax then none else
    some { s with bank := bank,
                  earned := bump s.earned provider d (amt - tax),
                  oearned := bump s.oearned (AMap.getD s.owners provider "") d (amt - tax) }

def respOutputs (s : State) (id : CtxId) (batch : Nat) : Nat :=
  (s.resps.filter (fun e => e.1.inBatch id batch && e.2.hasOut)).length

/-- `Callback`: reads the stored context -/
def callback (s : State) (id : CtxId) : State :=
  let rc := getCtx s id
  let n := respOutputs s id rc.batchCounter
  { s with cb := s.cb ++ [.resp id rc.batchCounter n (decide (n < rc.batchRespThreshold))] }

/-- `CompleteBatch` -/
def completeBatch (s : State) (rc : Ctx) (id : CtxId) : State × Ctx :=
  (if rc.moduleName ≠ "" then callback s id else s, { rc with batchState := .completed })

inductive OutKind where
  | none | good | bad
  deriving DecidableEq, Repr, Inhabited

def stepRespond (s : State) (provider : Addr) (rid0 : Option ReqId) (code : Nat) (out : OutKind) (resOk : Bool) : R :=
  if !(validAddr provider) then rej "address" else
  match rid0 with
  | none => rej "request id"
  | some rid =>
  if !resOk ∨ !(code = 200 ∨ code = 400 ∨ code = 500) then rej "result" else
  if code = 200 ∧ out = .none then rej "output required" else
  if code ≠ 200 ∧ out ≠ .none then rej "output forbidden" else
  if out = .bad then rej "output invalid" else
  match getRequest s rid with
  | none => rej "unknown request"
  | some (rq, rc) =>
    if provider ≠ rq.provider then rej "provider" else
    if !(s.active.contains rid) then rej "not active" else
    match addEarnedFee s provider rq.feeDenom rq.feeAmt with
    | none => rej "earned fee"
    | some s1 =>
      let s2 := { s1 with resps := AMap.set s1.resps rid
                            { provider := provider, consumer := rc.consumer, hasOut := out = .good, ctx := rq.ctx, batch := rq.batch },
                          active := s1.active.filter (· ≠ rid),
                          vols := AMap.set s1.vols (rc.consumer, rc.svc, provider) (volOf s1 rc.consumer rc.svc provider + 1) }
      let rc1 := { getCtx s2 rq.ctx with batchRespCount := (getCtx s2 rq.ctx).batchRespCount + 1 }
      if rc1.batchRespCount = rc1.batchReqCount then
        let (s3, rc2) := completeBatch s2 rc1 rq.ctx
        .ok (setCtx s3 rq.ctx rc2)
      else .ok (setCtx s2 rq.ctx rc1)

def entriesOf (m : AMap (Addr × Denom) Nat) (a : Addr) : Coins :=
  (m.filter (fun e => e.1.1 = a)).map (fun e => (e.1.2, e.2))

def eraseAll (m : AMap (Addr × Denom) Nat) (a : Addr) : AMap (Addr × Denom) Nat :=
  m.filter (fun e => e.1.1 ≠ a)

def insertCoin (e : Denom × Nat) : Coins → Coins
  | [] => [e]
  | h :: t => if e.1 < h.1 then e :: h :: t else h :: insertCoin e t

def sortCoins (c : Coins) : Coins := c.foldr insertCoin []

/-- `Coins.Equal` on positive entry lists -/
def coinsEq (a b : Coins) : Bool := a.length = b.length && sortCoins a == sortCoins b

/-- `Coins.Sub`: `none` = panic (negative amount); zero results are dropped -/
def coinsSub (a b : Coins) : Option Coins :=
  if b.any (fun e => Coins.amountOf a e.1 < e.2) then none
  else some ((a.map (fun e => (e.1, e.2 - Coins.amountOf b e.1))).filter (fun e => e.2 ≠ 0))

def setEntries (m : AMap (Addr × Denom) Nat) (a : Addr) (c : Coins) : AMap (Addr × Denom) Nat :=
  c.foldl (fun acc e => AMap.set acc (a, e.1) e.2) m

/-- keeper `WithdrawEarnedFees` -/
def keeperWithdraw (s : State) (owner : Addr) (provider : Option Addr) : R :=
  let wdAddr := AMap.getD s.wd owner owner
  match provider with
  | some p =>
    if AMap.get? s.owners p ≠ some owner then rej "owner" else
    let oe := entriesOf s.oearned owner
    let pe := entriesOf s.earned p
    match (if coinsEq pe oe then some (eraseAll s.oearned owner)
           else (coinsSub oe pe).map (fun diff => setEntries s.oearned owner diff)) with
    | none => .error (.panic "negative coin amount")
    | some oearned =>
      match Bank.sendCoins s.bank reqAcc wdAddr pe with
      | none => rej "funds"
      | some bank => .ok { s with bank := bank, earned := eraseAll s.earned p, oearned := oearned }
  | none =>
    let oe := entriesOf s.oearned owner
    let provs := (s.ownerProv.filter (fun e => e.1 = owner)).map (·.2)
    match Bank.sendCoins s.bank reqAcc wdAddr oe with
    | none => rej "funds"
    | some bank =>
      .ok { s with bank := bank, earned := provs.foldl eraseAll s.earned, oearned := eraseAll s.oearned owner }

/-- `MsgWithdrawEarnedFees`: the message server parses the provider address, so an empty one is rejected -/
def stepWithdraw (s : State) (owner : Addr) (provider : String) : R :=
  if !(validAddr owner) then rej "address" else
  if !(validAddr provider) then rej "provider address" else
  keeperWithdraw s owner (some provider)

/-! ### end block -/

def addCoin (m : Coins) (d : Denom) (n : Nat) : Coins := AMap.set m d (AMap.getD m d 0 + n)

/-- `FilterServiceProviders`: `none` = error (no exchange rate); total of the *undiscounted* prices -/
def filterProviders (s : State) (rc : Ctx) : List Addr → List Addr → Coins → Option (List Addr × Coins)
  | [], acc, tot => some (acc, tot)
  | p :: rest, acc, tot =>
    match AMap.get? s.binds (rc.svc, p) with
    | none => filterProviders s rc rest acc tot
    | some b =>
      if b.available ∧ (b.qos : Int) ≤ rc.timeout then
        match exchangedPrice s rc.consumer rc.svc p b.pricing with
        | none => none
        | some x =>
          if x ≤ rc.cap then filterProviders s rc rest (acc ++ [p]) (addCoin tot b.pricing.denom b.pricing.amount)
          else filterProviders s rc rest acc tot
      else filterProviders s rc rest acc tot

/-- the request loop of `InitiateRequests` -/
def mkRequests (s : State) (id : CtxId) (batch : Nat) (svc : String) (consumer : Addr) (timeout : Int) :
    List Addr → Nat → State
  | [], _ => s
  | p :: rest, i =>
    let pr := ((AMap.get? s.binds (svc, p)).map (·.pricing)).getD {}
    let rid := reqIdOf id batch s.height i
    let s1 := { s with reqs := AMap.set s.reqs rid
                          { ctx := id, batch := batch, provider := p, feeDenom := pr.denom,
                            feeAmt := feeOf s consumer svc p pr, reqH := s.height, expH := s.height + timeout },
                        active := if s.active.contains rid then s.active else s.active ++ [rid] }
    mkRequests s1 id batch svc consumer timeout rest (i + 1)

/-- `InitiateRequests` -/
def initiateRequests (s : State) (id : CtxId) (provs : List Addr) : State :=
  let rc := getCtx s id
  let s1 := mkRequests s id (rc.batchCounter + 1) rc.svc rc.consumer rc.timeout provs 0
  setCtx s1 id { rc with batchCounter := rc.batchCounter + 1, batchState := .running, batchRespCount := 0,
                         batchReqCount := provs.length, batchRespThreshold := rc.respThreshold }

/-- `SkipCurrentRequestBatch` -/
def skipBatch (s : State) (id : CtxId) (rc : Ctx) : State :=
  addExp (setCtx s id { rc with batchCounter := rc.batchCounter + 1, batchState := .running, batchReqCount := 0,
                                 batchRespCount := 0, batchRespThreshold := rc.respThreshold })
    id (s.height + rc.timeout)

/-- `OnRequestContextPaused` -/
def onPaused (s : State) (id : CtxId) (rc : Ctx) : State :=
  let s1 := setCtx s id { rc with batchState := .completed, state := .paused }
  if rc.moduleName ≠ "" then { s1 with cb := s1.cb ++ [.state id "insufficient balances"] } else s1

/-- `subUnlockedCoins`: the bank debits coin by coin (ascending denom) and stops at the first
coin the account cannot pay; inside a transaction the partial debit is rolled back, in
`EndBlocker` it is not (F-svc-4) -/
def debitCoins (b : Bank) (a : Addr) : Coins → Bank × Bool
  | [] => (b, true)
  | (d, n) :: rest =>
    if Bank.balOf b a d < n then (b, false)
    else debitCoins (Bank.setBal b a d (Bank.balOf b a d - n)) a rest

/-- `addCoins` -/
def creditCoins (b : Bank) (a : Addr) : Coins → Bank
  | [] => b
  | (d, n) :: rest => creditCoins (Bank.setBal b a d (Bank.balOf b a d + n)) a rest

/-- the new-request-batch handler of `EndBlocker` for one queue entry -/
def newBatch (s : State) (id : CtxId) : State :=
  let rc := getCtx s id
  if rc.state = .running then
    match filterProviders s rc rc.providers [] [] with
    | none => s                                   -- early `return`: the queue entry is *not* deleted
    | some (provs, total) =>
      if 0 < provs.length ∧ rc.respThreshold ≤ provs.length then
        match debitCoins s.bank rc.consumer (sortCoins total) with
        | (bank, false) => delNew (onPaused { s with bank := bank } id rc) id s.height
        | (bank, true) =>
          delNew (addExp (initiateRequests { s with bank := creditCoins bank reqAcc (sortCoins total) } id provs)
            id (s.height + rc.timeout)) id s.height
      else delNew (skipBatch s id rc) id s.height
  else delNew s id s.height

/-- `Slash` (errors leave the state unchanged; the caller ignores them) -/
def slash (s : State) (svc : String) (provider : Addr) : State :=
  match AMap.get? s.binds (svc, provider) with
  | none => s
  | some b =>
    let slashed := mulTrunc b.deposit s.params.slash
    if b.deposit < slashed then s else
    match Bank.send s.bank depAcc fcAcc s.params.base slashed with
    | none => s
    | some bank =>
      let dep := b.deposit - slashed
      let stillOk := match minDeposit s b.pricing with
        | none => false
        | some md => depositGTE s dep md
      let b' : Binding :=
        if b.available ∧ !stillOk then { b with deposit := dep, available := false, disabledTime := s.time }
        else { b with deposit := dep }
      { s with bank := bank, binds := AMap.set s.binds (svc, provider) b' }

/-- the expired-request handler: slash, refund, drop the active marker -/
def expireReq (s : State) (rid : ReqId) : State :=
  match getRequest s rid with
  | none => { s with active := s.active.filter (· ≠ rid) }
  | some (rq, rc) =>
    let s1 := slash s rc.svc rq.provider
    let s2 := match Bank.send s1.bank reqAcc rc.consumer rq.feeDenom rq.feeAmt with
      | none => s1
      | some bank => { s1 with bank := bank }
    { s2 with active := s2.active.filter (· ≠ rid) }

def activeOf (s : State) (id : CtxId) (batch : Nat) : List ReqId :=
  isort ReqId.le (s.active.filter (fun r => r.inBatch id batch))

/-- `CleanBatch` -/
def cleanBatch (s : State) (id : CtxId) (batch : Nat) : State :=
  let doomed := (s.reqs.filter (fun e => e.1.inBatch id batch)).map (·.1)
  { s with reqs := s.reqs.filter (fun e => !(doomed.contains e.1)),
           resps := s.resps.filter (fun e => !(doomed.contains e.1)) }

/-- the expired-request-batch handler of `EndBlocker` for one queue entry -/
def expireCtx (s : State) (id : CtxId) : State :=
  let rc0 := getCtx s id
  let (s1, rc) :=
    if rc0.batchState ≠ .completed then
      completeBatch ((activeOf s id rc0.batchCounter).foldl expireReq s) rc0 id
    else (s, rc0)
  let s2 := setCtx (delExp s1 id s1.height) id rc
  let s3 := if rc.state = .completed then { s2 with ctxs := AMap.erase s2.ctxs id } else s2
  let s4 :=
    if rc.state = .running then
      if rc.repeated ∧ (rc.total < 0 ∨ (rc.batchCounter : Int) < rc.total) then
        addNew s3 id (s3.height - rc.timeout + (rc.freq : Int))
      else { s3 with ctxs := AMap.erase s3.ctxs id }
    else s3
  cleanBatch s4 id rc.batchCounter

def dueIds (q : List (Int × CtxId)) (h : Int) : List CtxId :=
  isort (fun a b : String => decide (a ≤ b)) ((q.filter (fun e => e.1 = h)).map (·.2))

/-- the real `EndBlocker`: expired batches first, then new batches -/
def endBlock (s : State) : State :=
  let s1 := (dueIds s.expQ s.height).foldl expireCtx s
  (dueIds s1.newQ s1.height).foldl newBatch s1

/-- `EndBlocker` of the current block, then `BeginBlocker` of the next one -/
def nextBlock (s : State) (dt : Int) : State :=
  let s1 := endBlock s
  { s1 with height := s1.height + 1, time := s1.time + dt, idx := 0 }

def skipBlocks (s : State) (dt : Int) : Nat → State
  | 0 => s
  | n + 1 => skipBlocks (nextBlock s dt) dt n

/-! ### operations -/

inductive Op where
  | define (sender : Addr) (name : String) (schOk : Bool)
  | bind (owner provider : Addr) (svc : String) (dep : Coins) (qos : Nat) (pin : PricingIn) (optsOk : Bool)
  | updateBinding (owner provider : Addr) (svc : String) (dep : Coins) (qos : Nat) (pin : Option PricingIn) (opts : Option Bool)
  | setWithdraw (owner addr : Addr)
  | enable (owner provider : Addr) (svc : String) (dep : Coins)
  | disable (owner provider : Addr) (svc : String)
  | refundDeposit (owner provider : Addr) (svc : String)
  | call (tx : String) (consumer : Addr) (svc : String) (providers : List Addr) (cap : Coins) (timeout : Int)
      (repeated : Bool) (freq : Nat) (total : Int) (inputOk : Bool)
  | mcall (tx : String) (consumer : Addr) (svc : String) (providers : List Addr) (cap : Coins) (timeout : Int)
      (repeated : Bool) (freq : Nat) (total : Int) (inputOk : Bool) (paused : Bool) (thr : Nat) (modName : String)
  | respond (provider : Addr) (rid : Option ReqId) (code : Nat) (out : OutKind) (resOk : Bool)
  | withdraw (owner : Addr) (provider : String)
  | withdrawK (owner : Addr) (provider : Option Addr)
  | pause (consumer : Addr) (id : String)
  | start (consumer : Addr) (id : String)
  | kill (consumer : Addr) (id : String)
  | updateCtx (consumer : Addr) (id : String) (providers : List Addr) (cap : Coins) (timeout : Int) (freq : Nat) (total : Int)
  | mpause (consumer : Addr) (id : String)
  | mstart (consumer : Addr) (id : String)
  | mkill (consumer : Addr) (id : String)
  | mupdate (consumer : Addr) (id : String) (providers : List Addr) (thr : Nat) (cap : Coins) (timeout : Int) (freq : Nat) (total : Int)
  | setRate (denom : Denom) (rate : Option (String × Dec))
  | next (dt : Int)
  | skip (n : Nat) (dt : Int)
  deriving Repr, Inhabited

def stepCore (s : State) : Op → R
  | .define sender name schOk => stepDefine s sender name schOk
  | .bind owner provider svc dep qos pin optsOk => stepBind s owner provider svc dep qos pin optsOk
  | .updateBinding owner provider svc dep qos pin opts => stepUpdateBinding s owner provider svc dep qos pin opts
  | .setWithdraw owner addr => stepSetWithdraw s owner addr
  | .enable owner provider svc dep => stepEnable s owner provider svc dep
  | .disable owner provider svc => stepDisable s owner provider svc
  | .refundDeposit owner provider svc => stepRefundDeposit s owner provider svc
  | .call tx consumer svc providers cap timeout repeated freq total inputOk =>
    stepCall s (ctxIdOf tx s.idx) consumer svc providers cap timeout repeated freq total inputOk
  | .mcall tx consumer svc providers cap timeout repeated freq total inputOk paused thr modName =>
    createCtx s (ctxIdOf tx s.idx) svc providers consumer inputOk cap timeout repeated freq total
      (if paused then .paused else .running) thr modName
  | .respond provider rid code out resOk => stepRespond s provider rid code out resOk
  | .withdraw owner provider => stepWithdraw s owner provider
  | .withdrawK owner provider => keeperWithdraw s owner provider
  | .pause consumer id => stepPause s consumer id
  | .start consumer id => stepStart s consumer id
  | .kill consumer id => stepKill s consumer id
  | .updateCtx consumer id providers cap timeout freq total => stepUpdateCtx s consumer id providers cap timeout freq total
  | .mpause consumer id => keeperPause s id consumer
  | .mstart consumer id => keeperStart s id consumer
  | .mkill consumer id => keeperKill s id consumer
  | .mupdate consumer id providers thr cap timeout freq total => keeperUpdate s id providers thr cap timeout freq total consumer
  | .setRate d r => .ok { s with rates := match r with | none => AMap.erase s.rates d | some v => AMap.set s.rates d v }
  | .next dt => .ok (nextBlock s dt)
  | .skip n dt => .ok (skipBlocks s dt n)

/-- one operation; the callback log is per operation -/
def step (s : State) (op : Op) : R := stepCore { s with cb := [] } op

/-- the chain-level step: a rejected message leaves the state unchanged -/
def apply (s : State) (op : Op) : State :=
  match step s op with
  | .ok s' => s'
  | .error _ => { s with cb := [] }

def run (s : State) (ops : List Op) : State := ops.foldl apply s

end Irismod.Service
